import Reduino.Lang.Layout
/- helper lemmas for Props/C07.lean (individual Mathlib modules may be imported here) -/
namespace Reduino.Lemmas.C07
open Reduino.Lang.Layout

theorem stripGo_no_hash (st : Scan) (acc s : List Char) (h : '#' ∉ s) : stripGo st acc s = none := by
  induction s generalizing st acc with
  | nil => rfl
  | cons c rest ih =>
    have hc : c ≠ '#' := fun e => h (by simp [e])
    have hr : '#' ∉ rest := fun e => h (by simp [e])
    simp only [stripGo, hc, false_and, if_false, ih _ _ hr, ite_self]

theorem stripGo_cut (st : Scan) (acc s r : List Char) (h : stripGo st acc s = some r) :
    ∃ pre post, s = pre ++ '#' :: post ∧ r = rstrip (acc.reverse ++ pre) := by
  induction s generalizing st acc with
  | nil => simp [stripGo] at h
  | cons c rest ih =>
    have step : ∀ st', stripGo st' (c :: acc) rest = some r →
        ∃ pre post, c :: rest = pre ++ '#' :: post ∧ r = rstrip (acc.reverse ++ pre) := by
      intro st' h'
      obtain ⟨pre, post, h1, h2⟩ := ih _ _ h'
      exact ⟨c :: pre, post, by simp [h1], by simpa using h2⟩
    simp only [stripGo] at h
    split at h
    · exact step _ h
    · split at h
      · exact step _ h
      · split at h
        · exact step _ h
        · split at h
          · exact step _ h
          · split at h
            · rename_i hh
              refine ⟨[], rest, by simp [hh.1], ?_⟩
              simpa using (Option.some.inj h).symm
            · exact step _ h

def plain (c : Char) : Prop := c ≠ '#' ∧ c ≠ '\'' ∧ c ≠ '"' ∧ c ≠ '\\'

theorem stripGo_plain (acc a rest : List Char) (ha : ∀ x ∈ a, plain x) :
    stripGo ⟨false, false, false⟩ acc (a ++ rest) = stripGo ⟨false, false, false⟩ (a.reverse ++ acc) rest := by
  induction a generalizing acc with
  | nil => rfl
  | cons x a ih =>
    obtain ⟨h1, h2, h3, h4⟩ := ha x (by simp)
    have := ih (x :: acc) (fun y hy => ha y (by simp [hy]))
    simp [stripGo, h1, h2, h3, h4, this]

theorem stripGo_inDouble (acc b rest : List Char) (hb : ∀ x ∈ b, x ≠ '"' ∧ x ≠ '\\') :
    stripGo ⟨false, true, false⟩ acc (b ++ '"' :: rest) = stripGo ⟨false, false, false⟩ ('"' :: (b.reverse ++ acc)) rest := by
  induction b generalizing acc with
  | nil => simp [stripGo]
  | cons x b ih =>
    obtain ⟨h1, h2⟩ := hb x (by simp)
    have := ih (x :: acc) (fun y hy => hb y (by simp [hy]))
    simp [stripGo, h1, h2, this]

theorem stripGo_hash (acc post : List Char) :
    stripGo ⟨false, false, false⟩ acc ('#' :: post) = some (rstrip acc.reverse) := by
  simp [stripGo]

theorem indentOf_other (rest : List Char) (h : rest.head? ≠ some ' ' ∧ rest.head? ≠ some '\t') : indentOf rest = 0 := by
  unfold indentOf
  split
  · simp at h
  · simp at h
  · rfl

/-! ### line level -/

theorem collectBlock_append (base : Nat) (ls : List Line) :
    (collectBlock base ls).1 ++ (collectBlock base ls).2 = ls := by
  induction ls with
  | nil => simp [collectBlock]
  | cons l rest ih =>
    simp only [collectBlock]
    split
    · simpa using ih
    · split
      · simp
      · simpa using ih

theorem collectBlock_len1 (base : Nat) (ls : List Line) : (collectBlock base ls).1.length ≤ ls.length := by
  have := collectBlock_length base ls; omega

theorem collectBlock_len2 (base : Nat) (ls : List Line) : (collectBlock base ls).2.length ≤ ls.length := by
  have := collectBlock_length base ls; omega

theorem chain_length (fuel base : Nat) (isIf : Bool) (ls : List Line) :
    (nested.chain fuel base isIf ls).2.length ≤ ls.length := by
  induction fuel generalizing ls with
  | zero => simp [nested.chain]
  | succ fuel ih =>
    cases ls with
    | nil => simp [nested.chain]
    | cons l rest =>
      simp only [nested.chain]
      split
      · have := ih rest; simp; omega
      · split
        · simp
        · split
          · split
            · have := ih (collectBlock l.indent rest).2
              have := collectBlock_len2 l.indent rest
              simp; omega
            · simp
          · split
            · have := collectBlock_len2 l.indent rest
              simp; omega
            · simp
          · split
            · have := ih (collectBlock l.indent rest).2
              have := collectBlock_len2 l.indent rest
              simp; omega
            · simp
          · simp

theorem fuel_indep (fuel : Nat) : ∀ (fuel' : Nat) (ls : List Line), ls.length < fuel → ls.length < fuel' →
    nested fuel ls = nested fuel' ls ∧
    ∀ base isIf, nested.chain fuel base isIf ls = nested.chain fuel' base isIf ls := by
  induction fuel with
  | zero => intro _ _ h; omega
  | succ fuel ih =>
    intro fuel' ls h1 h2
    cases fuel' with
    | zero => omega
    | succ fuel' =>
    cases ls with
    | nil => simp [nested, nested.chain]
    | cons l rest =>
      simp only [List.length_cons] at h1 h2
      have N : ∀ xs : List Line, xs.length ≤ rest.length → nested fuel xs = nested fuel' xs :=
        fun xs hx => (ih fuel' xs (by omega) (by omega)).1
      have C : ∀ (xs : List Line) base isIf, xs.length ≤ rest.length →
          nested.chain fuel base isIf xs = nested.chain fuel' base isIf xs :=
        fun xs base isIf hx => (ih fuel' xs (by omega) (by omega)).2 base isIf
      have hb := collectBlock_len1 l.indent rest
      have hr := collectBlock_len2 l.indent rest
      have e1 := N _ (Nat.le_refl rest.length)
      have e2 := N _ hb
      have e3 := N _ hr
      have e4 := fun base isIf => C _ base isIf hr
      have e5 := fun base isIf => N _ (Nat.le_trans (chain_length fuel' base isIf _) hr)
      have e6 := fun base isIf => C _ base isIf (Nat.le_refl rest.length)
      constructor
      · simp only [nested, e1, e2, e3, e4, e5]
      · intro base isIf
        simp only [nested.chain, e2, e4, e6]

/-! ### indentation scaling -/
def scale (k : Nat) (l : Line) : Line := { l with indent := k * l.indent }

@[simp] theorem scale_kind (k l) : (scale k l).kind = l.kind := rfl
@[simp] theorem scale_tag (k l) : (scale k l).tag = l.tag := rfl
@[simp] theorem scale_trailing (k l) : (scale k l).trailing = l.trailing := rfl
@[simp] theorem scale_indent (k l) : (scale k l).indent = k * l.indent := rfl

theorem mul_le_iff (k : Nat) (hk : 1 ≤ k) (a b : Nat) : (k * a ≤ k * b) = (a ≤ b) :=
  propext (Nat.mul_le_mul_left_iff (by omega))

theorem mul_eq_iff (k : Nat) (hk : 1 ≤ k) (a b : Nat) : (k * a = k * b) = (a = b) :=
  propext (Nat.mul_left_cancel_iff (by omega))

theorem collectBlock_scale (k : Nat) (hk : 1 ≤ k) (base : Nat) (ls : List Line) :
    collectBlock (k * base) (ls.map (scale k)) =
      ((collectBlock base ls).1.map (scale k), (collectBlock base ls).2.map (scale k)) := by
  induction ls with
  | nil => simp [collectBlock]
  | cons l rest ih =>
    simp only [List.map_cons, collectBlock, scale_kind, scale_indent, mul_le_iff k hk, ih]
    split
    · rfl
    · split <;> rfl

theorem nested_scale (k : Nat) (hk : 1 ≤ k) (fuel : Nat) : ∀ ls : List Line,
    nested fuel (ls.map (scale k)) = nested fuel ls ∧
    ∀ base isIf, nested.chain fuel (k * base) isIf (ls.map (scale k)) =
      ((nested.chain fuel base isIf ls).1, (nested.chain fuel base isIf ls).2.map (scale k)) := by
  induction fuel with
  | zero => intro ls; simp [nested, nested.chain]
  | succ fuel ih =>
    intro ls
    cases ls with
    | nil => simp [nested, nested.chain]
    | cons l rest =>
      have N := fun xs => (ih xs).1
      have C := fun xs => (ih xs).2
      constructor
      · simp only [List.map_cons, nested, scale_kind, scale_indent, scale_tag, collectBlock_scale k hk, N, C]
      · intro base isIf
        simp only [List.map_cons, nested.chain, scale_kind, scale_indent, scale_tag, scale_trailing,
          collectBlock_scale k hk, N, C, ne_eq, mul_eq_iff k hk]
        split
        · rfl
        · split
          · rfl
          · split
            · split <;> rfl
            · split <;> rfl
            · split <;> rfl
            · rfl

/-! ### trailing comments off continuation headers -/
def isContL (l : Line) : Bool := l.kind = .header .elifH || l.kind = .header .elseH || l.kind = .header .exceptH

def untrail (l : Line) : Line := if isContL l then l else { l with trailing := false }

@[simp] theorem untrail_kind (l) : (untrail l).kind = l.kind := by unfold untrail; split <;> rfl
@[simp] theorem untrail_tag (l) : (untrail l).tag = l.tag := by unfold untrail; split <;> rfl
@[simp] theorem untrail_indent (l) : (untrail l).indent = l.indent := by unfold untrail; split <;> rfl
theorem untrail_trailing (l) (h : isContL l = true) : (untrail l).trailing = l.trailing := by
  unfold untrail; rw [if_pos h]

theorem collectBlock_untrail (base : Nat) (ls : List Line) :
    collectBlock base (ls.map untrail) =
      ((collectBlock base ls).1.map untrail, (collectBlock base ls).2.map untrail) := by
  induction ls with
  | nil => simp [collectBlock]
  | cons l rest ih =>
    simp only [List.map_cons, collectBlock, untrail_kind, untrail_indent, ih]
    split
    · rfl
    · split <;> rfl

theorem nested_untrail (fuel : Nat) : ∀ ls : List Line,
    nested fuel (ls.map untrail) = nested fuel ls ∧
    ∀ base isIf, nested.chain fuel base isIf (ls.map untrail) =
      ((nested.chain fuel base isIf ls).1, (nested.chain fuel base isIf ls).2.map untrail) := by
  induction fuel with
  | zero => intro ls; simp [nested, nested.chain]
  | succ fuel ih =>
    intro ls
    cases ls with
    | nil => simp [nested, nested.chain]
    | cons l rest =>
      have N := fun xs => (ih xs).1
      have C := fun xs => (ih xs).2
      constructor
      · simp only [List.map_cons, nested, untrail_kind, untrail_indent, untrail_tag, collectBlock_untrail, N, C]
      · intro base isIf
        simp only [List.map_cons, nested.chain, untrail_kind, untrail_indent, untrail_tag,
          collectBlock_untrail, N, C]
        split
        · rfl
        · split
          · rfl
          · split
            · rename_i heq
              rw [untrail_trailing l (by simp [isContL, heq])]
              split <;> rfl
            · rename_i heq
              rw [untrail_trailing l (by simp [isContL, heq])]
              split <;> rfl
            · rename_i heq
              rw [untrail_trailing l (by simp [isContL, heq])]
              split <;> rfl
            · rfl

/-! ### blank lines -/
def noBlank (ls : List Line) : List Line := ls.filter (·.kind ≠ .blank)

theorem noBlank_cons_blank {l : Line} (rest : List Line) (h : l.kind = .blank) :
    noBlank (l :: rest) = noBlank rest := by simp [noBlank, h]

theorem noBlank_cons_nonblank {l : Line} (rest : List Line) (h : l.kind ≠ .blank) :
    noBlank (l :: rest) = l :: noBlank rest := by simp [noBlank, h]

theorem noBlank_length (ls : List Line) : (noBlank ls).length ≤ ls.length := List.length_filter_le _ _

theorem collectBlock_noBlank (base : Nat) (ls : List Line) :
    collectBlock base (noBlank ls) = (noBlank (collectBlock base ls).1, noBlank (collectBlock base ls).2) := by
  induction ls with
  | nil => simp [collectBlock, noBlank]
  | cons l rest ih =>
    by_cases hk : l.kind = .blank
    · simp only [noBlank_cons_blank _ hk, collectBlock, hk, if_true, ih]
    · simp only [noBlank_cons_nonblank _ hk, collectBlock, hk, if_false, ih]
      split
      · simp only [noBlank_cons_nonblank _ hk]; rfl
      · simp only [noBlank_cons_nonblank _ hk]

theorem nested_noBlank (fuel : Nat) : ∀ ls : List Line, ls.length < fuel →
    nested fuel (noBlank ls) = nested fuel ls ∧
    ∀ base isIf, nested.chain fuel base isIf (noBlank ls) =
      ((nested.chain fuel base isIf ls).1, noBlank (nested.chain fuel base isIf ls).2) := by
  induction fuel with
  | zero => intro ls h; omega
  | succ fuel ih =>
    intro ls hlen
    cases ls with
    | nil => simp [nested, nested.chain, noBlank]
    | cons l rest =>
      simp only [List.length_cons] at hlen
      have N : ∀ xs : List Line, xs.length ≤ rest.length → nested fuel (noBlank xs) = nested fuel xs :=
        fun xs hx => (ih xs (by omega)).1
      have C : ∀ (xs : List Line) base isIf, xs.length ≤ rest.length → _ :=
        fun xs base isIf hx => (ih xs (by omega)).2 base isIf
      have hb := collectBlock_len1 l.indent rest
      have hr := collectBlock_len2 l.indent rest
      have e1 := N _ (Nat.le_refl rest.length)
      have e2 := N _ hb
      have e3 := N _ hr
      have e4 := fun base isIf => C _ base isIf hr
      have e5 := fun base isIf => N _ (Nat.le_trans (chain_length fuel base isIf _) hr)
      have e6 := fun base isIf => C _ base isIf (Nat.le_refl rest.length)
      have hnl := noBlank_length rest
      by_cases hk : l.kind = .blank
      · have f := fuel_indep (fuel + 1) fuel (noBlank rest) (by omega) (by omega)
        constructor
        · rw [noBlank_cons_blank _ hk, f.1, e1]
          simp only [nested, hk]
        · intro base isIf
          rw [noBlank_cons_blank _ hk, f.2, e6]
          simp only [nested.chain, hk, if_true]
      · constructor
        · simp only [noBlank_cons_nonblank _ hk, nested, collectBlock_noBlank, e1, e2, e3, e4, e5]
        · intro base isIf
          simp only [noBlank_cons_nonblank _ hk, nested.chain, collectBlock_noBlank, e2, e4, hk, if_false]
          have hc := noBlank_cons_nonblank rest hk
          split
          · simp only [hc]
          · split
            · split
              · rfl
              · simp only [hc]
            · split
              · rfl
              · simp only [hc]
            · split
              · rfl
              · simp only [hc]
            · simp only [hc]

/-! ### agreement with Python's rule on clean code -/

theorem mem_collectBlock1 {base : Nat} {ls : List Line} {x : Line} (h : x ∈ (collectBlock base ls).1) : x ∈ ls := by
  rw [← collectBlock_append base ls]; exact List.mem_append_left _ h

theorem mem_collectBlock2 {base : Nat} {ls : List Line} {x : Line} (h : x ∈ (collectBlock base ls).2) : x ∈ ls := by
  rw [← collectBlock_append base ls]; exact List.mem_append_right _ h

theorem collectBlock_eq_pyBlock (base : Nat) (ls : List Line) (h : ∀ l ∈ ls, l.kind ≠ .blank) :
    collectBlock base ls = pyBlock base ls := by
  induction ls with
  | nil => rfl
  | cons l rest ih =>
    have h1 : l.kind ≠ .blank := h l (by simp)
    have h2 := ih (fun x hx => h x (by simp [hx]))
    simp only [collectBlock, pyBlock, h1, if_false, h2]

theorem nested_eq_py (C : List Tree → Bool)
    (hdrop : ∀ t ts, C (.dropped t :: ts) = false)
    (hleaf : ∀ t ts, C (.leaf t :: ts) = true → C ts = true)
    (hnode : ∀ t h cs ts, C (.node t h cs :: ts) = true → C cs = true ∧ C ts = true)
    (fuel : Nat) : ∀ ls : List Line,
    (∀ l ∈ ls, l.kind ≠ .blank ∧ l.kind ≠ .comment) →
    (∀ l ∈ ls, isContL l = true → l.trailing = false) → ls.length < fuel →
    (C (nested fuel ls) = true → nested fuel ls = pyParse fuel ls) ∧
    (∀ base isIf, C ((nested.chain fuel base isIf ls).1 ++ nested fuel (nested.chain fuel base isIf ls).2) = true →
      (nested.chain fuel base isIf ls).1 ++ nested fuel (nested.chain fuel base isIf ls).2 = pyParse fuel ls) := by
  induction fuel with
  | zero => intro ls _ _ h; omega
  | succ fuel ih =>
    intro ls hcode htr hlen
    cases ls with
    | nil => simp [nested, nested.chain, pyParse]
    | cons l rest =>
      simp only [List.length_cons] at hlen
      have hl := hcode l (by simp)
      have hcode' : ∀ xs : List Line, (∀ x ∈ xs, x ∈ rest) → ∀ x ∈ xs, x.kind ≠ .blank ∧ x.kind ≠ .comment :=
        fun xs hs x hx => hcode x (by simp [hs x hx])
      have htr' : ∀ xs : List Line, (∀ x ∈ xs, x ∈ rest) → ∀ x ∈ xs, isContL x = true → x.trailing = false :=
        fun xs hs x hx => htr x (by simp [hs x hx])
      have IH : ∀ xs : List Line, (∀ x ∈ xs, x ∈ rest) → xs.length ≤ rest.length → _ :=
        fun xs hs hx => ih xs (hcode' xs hs) (htr' xs hs) (by omega)
      have hb := collectBlock_len1 l.indent rest
      have hr := collectBlock_len2 l.indent rest
      have Irest := IH rest (fun _ h => h) (Nat.le_refl _)
      have Ib := IH _ (fun _ h => mem_collectBlock1 (base := l.indent) h) hb
      have Ir := IH _ (fun _ h => mem_collectBlock2 (base := l.indent) h) hr
      have epy := collectBlock_eq_pyBlock l.indent rest (fun x hx => (hcode x (by simp [hx])).1)
      have HN : C (nested (fuel + 1) (l :: rest)) = true →
          nested (fuel + 1) (l :: rest) = pyParse (fuel + 1) (l :: rest) := by
        rcases hk : l.kind with _ | _ | h | _
        · exact absurd hk hl.1
        · exact absurd hk hl.2
        · cases h <;> simp only [nested, pyParse, hk, ← epy, hdrop, reduceCtorEq, if_false, if_true,
            Bool.false_eq_true, false_imp_iff, List.cons_append] <;> intro hC <;> obtain ⟨h1, h2⟩ := hnode _ _ _ _ hC
          · rw [Ib.1 h1, Ir.2 _ _ h2]
          · rw [Ib.1 h1, Ir.1 h2]
          · rw [Ib.1 h1, Ir.1 h2]
          · rw [Ib.1 h1, Ir.2 _ _ h2]
          · rw [Ib.1 h1, Ir.1 h2]
        · simp only [nested, pyParse, hk]
          intro hC
          rw [Irest.1 (hleaf _ _ hC)]
      refine ⟨HN, ?_⟩
      intro base isIf
      have stop : C ([] ++ nested (fuel + 1) (l :: rest)) = true →
          [] ++ nested (fuel + 1) (l :: rest) = pyParse (fuel + 1) (l :: rest) := by simpa using HN
      have fi1 := (fuel_indep (fuel + 1) fuel (nested.chain fuel base isIf (collectBlock l.indent rest).2).2
        (by have := chain_length fuel base isIf (collectBlock l.indent rest).2; omega)
        (by have := chain_length fuel base isIf (collectBlock l.indent rest).2; omega)).1
      have fi2 := (fuel_indep (fuel + 1) fuel (collectBlock l.indent rest).2 (by omega) (by omega)).1
      simp only [nested.chain, hl.1, if_false]
      split
      · exact stop
      · split
        · rename_i heq
          split
          · simp only [List.cons_append, pyParse, heq, ← epy, reduceCtorEq, if_false, fi1]
            intro hC
            obtain ⟨h1, h2⟩ := hnode _ _ _ _ hC
            rw [Ib.1 h1, Ir.2 _ _ h2]
          · exact stop
        · rename_i heq
          split
          · simp only [List.cons_append, List.nil_append, pyParse, heq, ← epy, reduceCtorEq, if_false, fi2]
            intro hC
            obtain ⟨h1, h2⟩ := hnode _ _ _ _ hC
            rw [Ib.1 h1, Ir.1 h2]
          · exact stop
        · rename_i heq
          split
          · simp only [List.cons_append, pyParse, heq, ← epy, reduceCtorEq, if_false, fi1]
            intro hC
            obtain ⟨h1, h2⟩ := hnode _ _ _ _ hC
            rw [Ib.1 h1, Ir.2 _ _ h2]
          · exact stop
        · exact stop

/-! ### comment-only lines on well laid out scripts -/

def nextCodeL : List Line → Option Line
  | [] => none
  | l :: rest => if l.kind = .blank ∨ l.kind = .comment then nextCodeL rest else some l

def layoutOKL : List Line → Bool
  | [] => true
  | l :: rest =>
    (if l.kind = .comment then
       (match nextCodeL rest with
        | some n => l.indent = n.indent && !isContL n
        | none => false)
     else true) &&
    (if isContL l then !l.trailing else true) && layoutOKL rest

theorem layoutOKL_tail {l : Line} {rest : List Line} (h : layoutOKL (l :: rest) = true) : layoutOKL rest = true := by
  simp only [layoutOKL, Bool.and_eq_true] at h; exact h.2

theorem layoutOKL_comment {l : Line} {rest : List Line} (h : layoutOKL (l :: rest) = true) (hk : l.kind = .comment) :
    ∃ n, nextCodeL rest = some n ∧ l.indent = n.indent ∧ isContL n = false := by
  simp only [layoutOKL, Bool.and_eq_true, hk, if_true] at h
  cases hn : nextCodeL rest with
  | none => simp [hn] at h
  | some n => exact ⟨n, rfl, by simpa [hn] using h.1.1⟩

theorem layoutOKL_cons {l : Line} {rest : List Line}
    (h2 : layoutOKL (l :: rest) = true) (rest' : List Line)
    (h3 : l.kind = .comment → nextCodeL rest' = nextCodeL rest) (h4 : layoutOKL rest' = true) :
    layoutOKL (l :: rest') = true := by
  simp only [layoutOKL, Bool.and_eq_true] at h2 ⊢
  refine ⟨⟨?_, h2.1.2⟩, h4⟩
  split
  · rename_i hk
    rw [h3 hk]
    simpa [hk] using h2.1.1
  · rfl

theorem pyLines_cons_skip {l : Line} (rest : List Line) (h : l.kind = .blank ∨ l.kind = .comment) :
    pyLines (l :: rest) = pyLines rest := by
  rcases h with h | h <;> simp [pyLines, h]

theorem pyLines_cons_code {l : Line} (rest : List Line) (h1 : l.kind ≠ .blank) (h2 : l.kind ≠ .comment) :
    pyLines (l :: rest) = l :: pyLines rest := by simp [pyLines, h1, h2]

theorem pyLines_length (ls : List Line) : (pyLines ls).length ≤ ls.length := List.length_filter_le _ _

theorem nextCodeL_head {ls : List Line} {n : Line} (h : nextCodeL ls = some n) :
    n.kind ≠ .blank ∧ n.kind ≠ .comment ∧ ∃ tl, pyLines ls = n :: tl := by
  induction ls with
  | nil => simp [nextCodeL] at h
  | cons l rest ih =>
    simp only [nextCodeL] at h
    split at h
    · rename_i hk
      obtain ⟨a, b, tl, e⟩ := ih h
      exact ⟨a, b, tl, by rw [pyLines_cons_skip _ hk, e]⟩
    · rename_i hk
      cases Option.some.inj h
      have hk' := not_or.mp hk
      exact ⟨hk'.1, hk'.2, _, pyLines_cons_code _ hk'.1 hk'.2⟩

theorem nextCodeL_collectBlock (base : Nat) {ls : List Line} {n : Line} (hok : layoutOKL ls = true)
    (h : nextCodeL ls = some n) (hn : base < n.indent) : nextCodeL (collectBlock base ls).1 = some n := by
  induction ls with
  | nil => simp [nextCodeL] at h
  | cons l rest ih =>
    have ok' := layoutOKL_tail hok
    simp only [nextCodeL] at h
    split at h
    · rename_i hk
      have ih' := ih ok' h
      have hin : ¬ (l.kind ≠ .blank ∧ l.indent ≤ base) := by
        rintro ⟨hb, hle⟩
        have hc : l.kind = .comment := by rcases hk with hk | hk; exact absurd hk hb; exact hk
        obtain ⟨n', e1, e2, _⟩ := layoutOKL_comment hok hc
        rw [h] at e1; cases Option.some.inj e1; omega
      simp only [collectBlock]
      split
      · simp only [nextCodeL, hk, if_true, ih']
      · split
        · rename_i hb hle; exact absurd ⟨hb, hle⟩ hin
        · simp only [nextCodeL, hk, if_true, ih']
    · rename_i hk
      have hln := Option.some.inj h
      subst hln
      have hk' := not_or.mp hk
      have : ¬ l.indent ≤ base := by omega
      simp only [collectBlock, hk'.1, hk'.2, this, if_false, nextCodeL, or_self]

theorem layoutOKL_collectBlock (base : Nat) (ls : List Line) (hok : layoutOKL ls = true) :
    layoutOKL (collectBlock base ls).1 = true ∧ layoutOKL (collectBlock base ls).2 = true := by
  induction ls with
  | nil => simp [collectBlock, layoutOKL]
  | cons l rest ih =>
    have ok' := layoutOKL_tail hok
    obtain ⟨ih1, ih2⟩ := ih ok'
    simp only [collectBlock]
    split
    · rename_i hk
      exact ⟨layoutOKL_cons hok _ (fun hc => by rw [hk] at hc; cases hc) ih1, ih2⟩
    · split
      · exact ⟨rfl, hok⟩
      · rename_i hb hle
        refine ⟨layoutOKL_cons hok _ (fun hc => ?_) ih1, ih2⟩
        obtain ⟨n, e1, e2, _⟩ := layoutOKL_comment hok hc
        rw [e1]
        exact nextCodeL_collectBlock base ok' e1 (by omega)

theorem collectBlock_pyLines (base : Nat) (ls : List Line) (hok : layoutOKL ls = true) :
    collectBlock base (pyLines ls) = (pyLines (collectBlock base ls).1, pyLines (collectBlock base ls).2) := by
  induction ls with
  | nil => simp [collectBlock, pyLines]
  | cons l rest ih =>
    have ih' := ih (layoutOKL_tail hok)
    by_cases hk : l.kind = .blank
    · have hs : l.kind = .blank ∨ l.kind = .comment := Or.inl hk
      simp only [pyLines_cons_skip _ hs, collectBlock, hk, if_true, ih']
    · by_cases hc : l.kind = .comment
      · have hs : l.kind = .blank ∨ l.kind = .comment := Or.inr hc
        obtain ⟨n, e1, e2, _⟩ := layoutOKL_comment hok hc
        obtain ⟨n1, n2, tl, e⟩ := nextCodeL_head e1
        simp only [pyLines_cons_skip _ hs, collectBlock, hk, if_false]
        split
        · rename_i hle
          have : n.indent ≤ base := by omega
          simp only [pyLines_cons_skip _ hs, e, collectBlock, n1, if_false, this, if_true]
          rfl
        · simp only [pyLines_cons_skip _ hs, ih']
      · have hcd := pyLines_cons_code rest hk hc
        simp only [hcd, collectBlock, hk, if_false, ih']
        split
        · simp only [hcd]; rfl
        · simp only [pyLines_cons_code _ hk hc]

theorem chain_stop (fuel base : Nat) (isIf : Bool) (n : Line) (tl : List Line)
    (h1 : n.kind ≠ .blank) (h2 : isContL n = false) :
    nested.chain (fuel + 1) base isIf (n :: tl) = ([], n :: tl) := by
  simp only [nested.chain, h1, if_false]
  split
  · rfl
  · split
    · rename_i heq; simp [isContL, heq] at h2
    · rename_i heq; simp [isContL, heq] at h2
    · rename_i heq; simp [isContL, heq] at h2
    · rfl

theorem layoutOKL_chain (fuel base : Nat) (isIf : Bool) (ls : List Line) (hok : layoutOKL ls = true) :
    layoutOKL (nested.chain fuel base isIf ls).2 = true := by
  induction fuel generalizing ls with
  | zero => simpa [nested.chain] using hok
  | succ fuel ih =>
    cases ls with
    | nil => simp [nested.chain, layoutOKL]
    | cons l rest =>
      have ok' := layoutOKL_tail hok
      have okr := (layoutOKL_collectBlock l.indent rest ok').2
      simp only [nested.chain]
      split
      · exact ih _ ok'
      · split
        · exact hok
        · split
          · split
            · exact ih _ okr
            · exact hok
          · split
            · exact okr
            · exact hok
          · split
            · exact ih _ okr
            · exact hok
          · exact hok

theorem nested_pyLines (fuel : Nat) : ∀ ls : List Line, layoutOKL ls = true → ls.length < fuel →
    nested fuel (pyLines ls) = nested fuel ls ∧
    ∀ base isIf, nested.chain fuel base isIf (pyLines ls) =
      ((nested.chain fuel base isIf ls).1, pyLines (nested.chain fuel base isIf ls).2) := by
  induction fuel with
  | zero => intro ls _ h; omega
  | succ fuel ih =>
    intro ls hok hlen
    cases ls with
    | nil => simp [nested, nested.chain, pyLines]
    | cons l rest =>
      simp only [List.length_cons] at hlen
      have ok' := layoutOKL_tail hok
      obtain ⟨okb, okr⟩ := layoutOKL_collectBlock l.indent rest ok'
      have N : ∀ xs : List Line, layoutOKL xs = true → xs.length ≤ rest.length →
          nested fuel (pyLines xs) = nested fuel xs :=
        fun xs ho hx => (ih xs ho (by omega)).1
      have C : ∀ (xs : List Line) base isIf, layoutOKL xs = true → xs.length ≤ rest.length → _ :=
        fun xs base isIf ho hx => (ih xs ho (by omega)).2 base isIf
      have hb := collectBlock_len1 l.indent rest
      have hr := collectBlock_len2 l.indent rest
      have e1 := N _ ok' (Nat.le_refl rest.length)
      have e2 := N _ okb hb
      have e3 := N _ okr hr
      have e4 := fun base isIf => C _ base isIf okr hr
      have e5 := fun base isIf => N _ (layoutOKL_chain fuel base isIf _ okr)
        (Nat.le_trans (chain_length fuel base isIf _) hr)
      have e6 := fun base isIf => C _ base isIf ok' (Nat.le_refl rest.length)
      have hnl := pyLines_length rest
      by_cases hk : l.kind = .blank
      · have hs : l.kind = .blank ∨ l.kind = .comment := Or.inl hk
        have f := fuel_indep (fuel + 1) fuel (pyLines rest) (by omega) (by omega)
        constructor
        · rw [pyLines_cons_skip _ hs, f.1, e1]
          simp only [nested, hk]
        · intro base isIf
          rw [pyLines_cons_skip _ hs, f.2, e6]
          simp only [nested.chain, hk, if_true]
      · by_cases hc : l.kind = .comment
        · have hs : l.kind = .blank ∨ l.kind = .comment := Or.inr hc
          have f := fuel_indep (fuel + 1) fuel (pyLines rest) (by omega) (by omega)
          constructor
          · rw [pyLines_cons_skip _ hs, f.1, e1]
            simp only [nested, hc]
          · intro base isIf
            obtain ⟨n, n1, n2, n3⟩ := layoutOKL_comment hok hc
            obtain ⟨m1, m2, tl, e⟩ := nextCodeL_head n1
            rw [chain_stop fuel base isIf l rest hk (by simp [isContL, hc]), pyLines_cons_skip _ hs, e,
              chain_stop fuel base isIf n tl m1 n3]
        · have hcd := pyLines_cons_code rest hk hc
          constructor
          · simp only [hcd, nested, collectBlock_pyLines _ _ ok', e1, e2, e3, e4, e5]
          · intro base isIf
            simp only [hcd, nested.chain, collectBlock_pyLines _ _ ok', e2, e4, hk, if_false]
            split
            · simp only [hcd]
            · split
              · split
                · rfl
                · simp only [hcd]
              · split
                · rfl
                · simp only [hcd]
              · split
                · rfl
                · simp only [hcd]
              · simp only [hcd]

end Reduino.Lemmas.C07
