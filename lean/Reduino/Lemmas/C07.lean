import Reduino.Lang.Layout
/- helper lemmas for Props/C07.lean (individual Mathlib modules may be imported here) -/
namespace Reduino.Lemmas.C07
end Reduino.Lemmas.C07
