import Reduino.Lang.Escape
import Reduino.Lang.WF
import Reduino.Lang.Libs
/-
  Helper lemmas for Props/C06: string-literal escaping, scoping of the sketch `tr` produces, shape of the rendering.
-/
namespace Reduino.Lemmas.C06
open Reduino.Lang Reduino.Lang.Esc Reduino.Lang.WF

/-! ### string literals -/

theorem escape_cons (c : Char) (s : List Char) :
    escape (c :: s) = (if c = '\\' then ['\\','\\'] else if c = '"' then ['\\','"'] else [c]) ++ escape s := by
  unfold escape
  by_cases h1 : c = '\\'
  · subst h1; simp [replaceChar]
  · by_cases h2 : c = '"'
    · subst h2; simp [replaceChar]
    · simp [replaceChar, h1, h2]

theorem lexBody_other (c : Char) (r : List Char) (h1 : c ≠ '"') (h2 : c ≠ '\\') (h3 : c ≠ '\n') :
    lexBody (c :: r) = match lexBody r with
      | some (s, r') => some (c :: s, r')
      | none => none := by
  rw [lexBody.eq_def]
  split
  · simp at *
  · simp_all
  · simp_all
  · simp_all
  · simp_all
    rcases lexBody _ with _ | ⟨a, b⟩ <;> rfl

theorem lexBody_escape (s rest : List Char) (h : '\n' ∉ s) :
    lexBody (escape s ++ '"' :: rest) = some (s, rest) := by
  induction s with
  | nil => simp [escape, replaceChar, lexBody]
  | cons c s ih =>
    rw [escape_cons]
    have hc : c ≠ '\n' := fun e => h (by simp [e])
    have hs : '\n' ∉ s := fun e => h (by simp [e])
    by_cases h1 : c = '\\'
    · subst h1; simp [lexBody, decodeEsc, ih hs]
    · by_cases h2 : c = '"'
      · subst h2; simp [lexBody, decodeEsc, ih hs]
      · simp only [h1, h2, if_false, List.cons_append, List.nil_append]
        rw [lexBody_other c _ h2 h1 hc, ih hs]

theorem escape_roundtrip' (s rest : List Char) (h : '\n' ∉ s) :
    readLiteral (literal s ++ rest) = some (s, rest) := by
  simp only [literal, List.cons_append, List.append_assoc, readLiteral, List.nil_append]
  exact lexBody_escape s rest h

theorem escape_length' (s : List Char) :
    (escape s).length = s.length + (s.filter fun c => c = '\\' || c = '"').length := by
  induction s with
  | nil => simp [escape, replaceChar]
  | cons c s ih =>
    rw [escape_cons, List.length_append, ih]
    by_cases h1 : c = '\\'
    · subst h1; simp; omega
    · by_cases h2 : c = '"'
      · subst h2; simp; omega
      · simp [h1, h2]; omega


/-! ### shape of the rendering -/

theorem stmt_klines_text (s : Stmt) : s.klines.map (·.2) = s.lines := by
  induction s with
  | ifs c t e iht ihe =>
    cases e with
    | ifs c2 t2 e2 =>
      rw [Stmt.klines, Stmt.lines]
      generalize (Stmt.ifs c2 t2 e2).klines = l at ihe ⊢
      generalize (Stmt.ifs c2 t2 e2).lines = l' at ihe ⊢
      subst ihe
      rcases l with _ | ⟨⟨k, f⟩, rest⟩ <;> simp [iht]
    | skip => rw [Stmt.klines, Stmt.lines]; simp [iht]
    | _ => rw [Stmt.klines, Stmt.lines] <;> simp [iht, ihe]
  | _ => simp_all [Stmt.klines, Stmt.lines]

theorem kdepth_append (a b : List LK) (d : Nat) :
    kdepth d (a ++ b) = (kdepth d a).bind (fun d' => kdepth d' b) := by
  induction a generalizing d with
  | nil => simp [kdepth]
  | cons k a ih =>
    cases k with
    | flat => simp [kdepth, ih]
    | open_ => simp [kdepth, ih]
    | close => cases d <;> simp [kdepth, ih]

theorem stmt_kdepth (s : Stmt) : ∀ d, kdepth d (s.klines.map (·.1)) = some d := by
  induction s with
  | ifs c t e iht ihe =>
    intro d
    cases e with
    | ifs c2 t2 e2 =>
      rw [Stmt.klines]
      generalize (Stmt.ifs c2 t2 e2).klines = l at ihe ⊢
      simp only [List.map_append, kdepth_append, List.map_cons, List.map_nil, kdepth, iht, Option.bind_some]
      rcases l with _ | ⟨⟨k, f⟩, rest⟩ <;> exact ihe d
    | skip => rw [Stmt.klines]; simp [kdepth_append, kdepth, iht]
    | _ => rw [Stmt.klines] <;> simp [kdepth_append, kdepth, iht, ihe]
  | _ => intro d; simp_all [Stmt.klines, kdepth_append, kdepth]

theorem kdepth_flats {α} (l : List α) (d : Nat) : kdepth d (l.map (fun _ => LK.flat)) = some d := by
  induction l with
  | nil => rfl
  | cons a l ih => simpa [kdepth] using ih

theorem filter_const {α β} (p : β → Bool) (b : β) (hb : p b = false) (l : List α) :
    (l.map (fun _ => b)).filter p = [] := by
  induction l <;> simp_all

theorem cprog_klines_text (c : CProg) : c.klines.map (·.2.2) = c.lines := by
  simp [CProg.klines, CProg.lines, Function.comp_def, ← stmt_klines_text]

theorem cprog_one_setup_one_loop (c : CProg) :
    (c.klines.map (·.1)).filter (fun s => s = Sec.setupOpen || s = Sec.loopOpen) = [Sec.setupOpen, Sec.loopOpen] := by
  have h1 := fun (α : Type) (l : List α) => filter_const (fun s => decide (s = Sec.setupOpen) || decide (s = Sec.loopOpen)) Sec.glob rfl l
  have h2 := fun (α : Type) (l : List α) => filter_const (fun s => decide (s = Sec.setupOpen) || decide (s = Sec.loopOpen)) Sec.body rfl l
  simp [CProg.klines, Function.comp_def, h1, h2]

theorem cprog_render_balanced (c : CProg) : kdepth 0 (c.klines.map (·.2.1)) = some 0 := by
  simp [CProg.klines, Function.comp_def, kdepth_append, kdepth, kdepth_flats, stmt_kdepth]


/-! ### scoping -/

theorem exprOk_iff (sc : List String) (e : Expr) :
    exprOk sc e = true ↔ ∀ x ∈ e.vars, sc.contains x = true := by
  simp [exprOk, List.all_eq_true]

theorem exprOk_mono {sc sc' : List String} (h : ∀ x, sc.contains x = true → sc'.contains x = true)
    (e : Expr) (he : exprOk sc e = true) : exprOk sc' e = true := by
  rw [exprOk_iff] at *
  exact fun x hx => h x (he x hx)

theorem foldArg_ok (sc : List String) (e : Expr) (he : exprOk sc e = true) : exprOk sc (foldArg e) = true := by
  unfold foldArg
  split
  · simp [exprOk, Expr.vars]
  · exact he

theorem nameFree_vars (e : Expr) (h : e.nameFree = true) : e.vars = [] := by
  induction e <;> simp_all [Expr.nameFree, Expr.vars]

theorem defaultOf_vars (t : Ty) : (defaultOf t).vars = [] := by
  cases t <;> rfl

theorem stmtOk_mono (s : Stmt) : ∀ (sc sc' : List String) (b : Bool),
    (∀ x, sc.contains x = true → sc'.contains x = true) → stmtOk sc b s = true → stmtOk sc' b s = true := by
  induction s with
  | skip => intros; rfl
  | seq a b iha ihb =>
    intro sc sc' l h hs
    simp only [stmtOk, Bool.and_eq_true] at hs ⊢
    exact ⟨iha _ _ _ h hs.1, ihb _ _ _ h hs.2⟩
  | assign x e =>
    intro sc sc' l h hs
    simp only [stmtOk, Bool.and_eq_true] at hs ⊢
    exact ⟨h _ hs.1, exprOk_mono h _ hs.2⟩
  | aug x op e =>
    intro sc sc' l h hs
    simp only [stmtOk, Bool.and_eq_true] at hs ⊢
    exact ⟨h _ hs.1, exprOk_mono h _ hs.2⟩
  | ifs c t e iht ihe =>
    intro sc sc' l h hs
    simp only [stmtOk, Bool.and_eq_true] at hs ⊢
    exact ⟨⟨exprOk_mono h _ hs.1.1, iht _ _ _ h hs.1.2⟩, ihe _ _ _ h hs.2⟩
  | whileLoop c b ih =>
    intro sc sc' l h hs
    simp only [stmtOk, Bool.and_eq_true] at hs ⊢
    exact ⟨exprOk_mono h _ hs.1, ih _ _ _ h hs.2⟩
  | forRange i n b ih =>
    intro sc sc' l h hs
    simp only [stmtOk, Bool.and_eq_true] at hs ⊢
    have h' : ∀ x, (i :: sc).contains x = true → (i :: sc').contains x = true := by
      intro x hx
      simp only [List.contains_cons, Bool.or_eq_true] at hx ⊢
      exact hx.imp id (h x)
    exact ⟨exprOk_mono h' _ hs.1, ih _ _ _ h' hs.2⟩
  | write e =>
    intro sc sc' l h hs
    simp only [stmtOk] at hs ⊢
    exact exprOk_mono h _ hs
  | sleep e =>
    intro sc sc' l h hs
    simp only [stmtOk] at hs ⊢
    exact exprOk_mono h _ hs
  | brk => intro sc sc' l h hs; exact hs

/-- translation of a nested statement is well-scoped -/
theorem trNested_ok (s : Stmt) : ∀ (te : C.TyEnv) (sc : List String) (inMain : Bool) (d : Nat) (inLoop inLoop' : Bool) (s' : Stmt),
    trNested te inMain d s = .ok s' → readsOk sc inLoop s = true →
    (∀ x, (te.lookup x).isSome = true → sc.contains x = true) →
    (inLoop = true → ¬(inMain = true ∧ d = 0) → inLoop' = true) →
    stmtOk sc inLoop' s' = true := by
  induction s with
  | skip =>
    intro te sc inMain d inLoop inLoop' s' ht hr hte hl
    simp only [trNested, Except.ok.injEq] at ht
    subst ht; rfl
  | seq a b iha ihb =>
    intro te sc inMain d inLoop inLoop' s' ht hr hte hl
    simp only [trNested, bind, Except.bind] at ht
    split at ht
    · cases ht
    · rename_i a' ha
      split at ht
      · cases ht
      · rename_i b' hb
        simp only [pure, Except.pure, Except.ok.injEq] at ht
        subst ht
        simp only [readsOk, Bool.and_eq_true] at hr
        simp only [stmtOk, Bool.and_eq_true]
        exact ⟨iha _ _ _ _ _ _ _ ha hr.1 hte hl, ihb _ _ _ _ _ _ _ hb hr.2 hte hl⟩
  | assign x e =>
    intro te sc inMain d inLoop inLoop' s' ht hr hte hl
    simp only [trNested] at ht
    split at ht
    · rename_i hx
      simp only [Except.ok.injEq] at ht
      subst ht
      simp only [readsOk] at hr
      simp only [stmtOk, Bool.and_eq_true]
      exact ⟨hte _ hx, hr⟩
    · cases ht
  | aug x op e =>
    intro te sc inMain d inLoop inLoop' s' ht hr hte hl
    simp only [trNested] at ht
    split at ht
    · rename_i hx
      simp only [Except.ok.injEq] at ht
      subst ht
      simp only [readsOk, Bool.and_eq_true] at hr
      simp only [stmtOk, Bool.and_eq_true]
      refine ⟨hr.1, ?_⟩
      rw [exprOk_iff] at *
      intro y hy
      simp only [Expr.vars, List.cons_append, List.nil_append, List.mem_cons] at hy
      rcases hy with rfl | hy
      · exact hr.1
      · exact hr.2 y hy
    · cases ht
  | ifs c t e iht ihe =>
    intro te sc inMain d inLoop inLoop' s' ht hr hte hl
    simp only [trNested, bind, Except.bind] at ht
    split at ht
    · cases ht
    · rename_i a' ha
      split at ht
      · cases ht
      · rename_i b' hb
        simp only [pure, Except.pure, Except.ok.injEq] at ht
        subst ht
        simp only [readsOk, Bool.and_eq_true] at hr
        simp only [stmtOk, Bool.and_eq_true]
        exact ⟨⟨hr.1.1, iht _ _ _ _ _ _ _ ha hr.1.2 hte hl⟩, ihe _ _ _ _ _ _ _ hb hr.2 hte hl⟩
  | whileLoop c b ih =>
    intro te sc inMain d inLoop inLoop' s' ht hr hte hl
    simp only [trNested, bind, Except.bind] at ht
    split at ht
    · cases ht
    · rename_i b' hb
      simp only [pure, Except.pure, Except.ok.injEq] at ht
      subst ht
      simp only [readsOk, Bool.and_eq_true] at hr
      simp only [stmtOk, Bool.and_eq_true]
      exact ⟨hr.1, ih _ _ _ _ _ _ _ hb hr.2 hte (fun _ _ => rfl)⟩
  | forRange i n b ih =>
    intro te sc inMain d inLoop inLoop' s' ht hr hte hl
    simp only [trNested, bind, Except.bind] at ht
    split at ht
    · cases ht
    · split at ht
      · cases ht
      · rename_i b' hb
        simp only [pure, Except.pure, Except.ok.injEq] at ht
        subst ht
        simp only [readsOk, Bool.and_eq_true] at hr
        simp only [stmtOk, Bool.and_eq_true]
        have hsub : ∀ x, sc.contains x = true → (i :: sc).contains x = true := by
          intro x hx; simp only [List.contains_cons, Bool.or_eq_true]; exact Or.inr hx
        refine ⟨foldArg_ok _ _ (exprOk_mono hsub _ hr.1), ih _ _ _ _ _ _ _ hb hr.2 ?_ (fun _ _ => rfl)⟩
        intro x hx
        simp only [List.lookup_cons] at hx
        simp only [List.contains_cons, Bool.or_eq_true]
        by_cases hxi : x == i
        · exact Or.inl hxi
        · simp only [hxi] at hx
          exact Or.inr (hte _ hx)
  | write e =>
    intro te sc inMain d inLoop inLoop' s' ht hr hte hl
    simp only [trNested, Except.ok.injEq] at ht
    subst ht
    exact hr
  | sleep e =>
    intro te sc inMain d inLoop inLoop' s' ht hr hte hl
    simp only [trNested, Except.ok.injEq] at ht
    subst ht
    exact foldArg_ok _ _ hr
  | brk =>
    intro te sc inMain d inLoop inLoop' s' ht hr hte hl
    simp only [trNested] at ht
    split at ht
    · cases ht
    · rename_i hn
      simp only [Except.ok.injEq] at ht
      subst ht
      exact hl hr hn

theorem lookup_isSome_iff (te : C.TyEnv) (x : String) :
    (te.lookup x).isSome = true ↔ (te.map (·.1)).contains x = true := by
  induction te with
  | nil => simp
  | cons p te ih =>
    obtain ⟨y, t⟩ := p
    simp only [List.lookup_cons, List.map_cons, List.contains_cons, Bool.or_eq_true]
    by_cases h : x == y
    · simp [h]
    · simp only [h, Bool.false_eq_true, false_or]; exact ih

theorem globalsOk_snoc (gs : List (String × Ty × Expr)) : ∀ (sc : List String) (x : String) (t : Ty) (e : Expr),
    globalsOk sc gs = true → sc.contains x = false → (gs.map (·.1)).contains x = false → e.vars = [] →
    globalsOk sc (gs ++ [(x, t, e)]) = true := by
  induction gs with
  | nil =>
    intro sc x t e _ hx _ he
    simp only [List.nil_append, globalsOk, exprOk, he, hx]; rfl
  | cons g gs ih =>
    intro sc x t e hg hx hn he
    obtain ⟨y, ty, ey⟩ := g
    simp only [globalsOk, Bool.and_eq_true, List.cons_append] at hg ⊢
    refine ⟨hg.1, ih _ _ _ _ hg.2 ?_ ?_ he⟩
    · simp only [List.map_cons, List.contains_cons, Bool.or_eq_false_iff] at hn
      simp only [List.contains_cons, Bool.or_eq_false_iff]
      exact ⟨hn.1, hx⟩
    · simp only [List.map_cons, List.contains_cons, Bool.or_eq_false_iff] at hn
      exact hn.2

/-- invariant of the prologue pass: `sc` = the scope `topReads` has reached, `acc` = what `trTop` has accumulated -/
structure TopInv (acc : TopAcc) (sc : List String) : Prop where
  scope : ∀ x, sc.contains x = (acc.te.lookup x).isSome
  names : acc.te.map (·.1) = acc.globals.reverse.map (·.1)
  globals : globalsOk [] acc.globals.reverse = true
  setup : ∀ s ∈ acc.setup, stmtOk sc false s = true

theorem TopInv.nested {acc : TopAcc} {sc : List String} (inv : TopInv acc sc) (s s' : Stmt)
    (ht : trNested acc.te false 0 s = .ok s') (hr : readsOk sc false s = true) :
    TopInv { acc with setup := s' :: acc.setup } sc := by
  refine ⟨inv.scope, inv.names, inv.globals, ?_⟩
  intro s0 hs0
  simp only [List.mem_cons] at hs0
  rcases hs0 with rfl | hs0
  · exact trNested_ok s _ _ _ _ _ _ _ ht hr (fun x hx => by rw [inv.scope]; exact hx) (fun h => by cases h)
  · exact inv.setup _ hs0

theorem TopInv.declare {acc : TopAcc} {sc : List String} (inv : TopInv acc sc) (x : String) (t : Ty) (e : Expr)
    (hx : acc.te.lookup x = none) (he : e.vars = []) (setup' : List Stmt)
    (hs : ∀ s ∈ setup', stmtOk (x :: sc) false s = true) :
    TopInv { globals := (x, t, e) :: acc.globals, te := acc.te ++ [(x, t)], setup := setup' } (x :: sc) := by
  have hsc : sc.contains x = false := by rw [inv.scope, hx]; rfl
  refine ⟨?_, ?_, ?_, hs⟩
  · intro y
    simp only [List.contains_cons, List.lookup_append, inv.scope, List.lookup_cons, List.lookup_nil]
    by_cases hy : y == x
    · simp [hy]
    · simp [hy]
  · simp [inv.names]
  · simp only [List.reverse_cons]
    refine globalsOk_snoc _ _ _ _ _ inv.globals rfl ?_ he
    rw [← inv.names]
    have := lookup_isSome_iff acc.te x
    rw [hx] at this
    simpa using this

theorem trTop_inv (s : Stmt) : ∀ (acc acc' : TopAcc) (sc sc' : List String),
    trTop acc s = .ok acc' → topReads sc s = some sc' → TopInv acc sc → TopInv acc' sc' := by
  induction s with
  | skip =>
    intro acc acc' sc sc' ht hr inv
    simp only [trTop, Except.ok.injEq] at ht
    simp only [topReads, Option.some.injEq] at hr
    subst ht hr; exact inv
  | seq a b iha ihb =>
    intro acc acc' sc sc' ht hr inv
    simp only [trTop, bind, Except.bind] at ht
    simp only [topReads] at hr
    split at ht
    · cases ht
    · rename_i acc1 ha
      cases h1 : topReads sc a with
      | none => simp [h1] at hr
      | some sc1 =>
        simp only [h1, Option.bind_some] at hr
        exact ihb _ _ _ _ ht hr (iha _ _ _ _ ha h1 inv)
  | assign x e =>
    intro acc acc' sc sc' ht hr inv
    simp only [topReads] at hr
    split at hr
    · rename_i hex
      simp only [Option.some.injEq] at hr
      simp only [trTop] at ht
      split at ht
      · -- already declared
        rename_i t hx
        simp only [Except.ok.injEq] at ht
        have hxs : sc.contains x = true := by rw [inv.scope, hx]; rfl
        simp only [hxs, if_true] at hr
        subst ht hr
        refine ⟨inv.scope, inv.names, inv.globals, ?_⟩
        intro s0 hs0
        simp only [List.mem_cons] at hs0
        rcases hs0 with rfl | hs0
        · simp only [stmtOk, Bool.and_eq_true]; exact ⟨hxs, hex⟩
        · exact inv.setup _ hs0
      · rename_i hx
        have hxs : sc.contains x = false := by rw [inv.scope, hx]; rfl
        simp only [hxs, Bool.false_eq_true, if_false] at hr
        have hsub : ∀ y, sc.contains y = true → (x :: sc).contains y = true := by
          intro y hy; simp only [List.contains_cons, Bool.or_eq_true]; exact Or.inr hy
        have hold : ∀ s ∈ acc.setup, stmtOk (x :: sc) false s = true :=
          fun s hs => stmtOk_mono s _ _ _ hsub (inv.setup s hs)
        split at ht
        · rename_i hnf
          simp only [Except.ok.injEq] at ht
          subst ht hr
          exact inv.declare x _ e hx (nameFree_vars e hnf.1) _ hold
        · simp only [Except.ok.injEq] at ht
          subst ht hr
          refine inv.declare x _ _ hx (defaultOf_vars _) _ ?_
          intro s0 hs0
          simp only [List.mem_cons] at hs0
          rcases hs0 with rfl | hs0
          · simp only [stmtOk, Bool.and_eq_true]
            exact ⟨by simp, exprOk_mono hsub _ hex⟩
          · exact hold _ hs0
    · cases hr
  | _ =>
    -- every other statement goes through `trNested` / `readsOk` unchanged
    intro acc acc' sc sc' ht hr inv
    simp only [trTop, bind, Except.bind] at ht
    simp only [topReads] at hr
    split at ht
    · cases ht
    · rename_i s' hs'
      simp only [pure, Except.pure, Except.ok.injEq] at ht
      split at hr
      · rename_i hro
        simp only [Option.some.injEq] at hr
        subst ht hr
        exact inv.nested _ _ hs' hro
      · cases hr

theorem stmtOk_seqOf (sc : List String) (b : Bool) (l : List Stmt) (h : ∀ s ∈ l, stmtOk sc b s = true) :
    stmtOk sc b (seqOf l) = true := by
  induction l with
  | nil => rfl
  | cons s l ih =>
    cases l with
    | nil => exact h s (by simp)
    | cons s2 l =>
      simp only [seqOf, stmtOk, Bool.and_eq_true]
      exact ⟨h s (by simp), ih (fun s' hs' => h s' (List.mem_cons_of_mem _ hs'))⟩

theorem tr_wf' (p : Prog) (c : CProg) (ht : tr p = .ok c) (hc : Closed p = true) : wf c = true := by
  simp only [tr, bind, Except.bind] at ht
  split at ht
  · cases ht
  · rename_i acc hacc
    simp only [Closed] at hc
    split at hc
    · cases hc
    · rename_i sc hsc
      have inv : TopInv acc sc := trTop_inv _ _ _ _ _ hacc hsc ⟨fun _ => rfl, rfl, rfl, fun _ h => by cases h⟩
      have hnames : ∀ x, sc.contains x = true → (acc.globals.reverse.map (·.1)).contains x = true := by
        intro x hx
        rw [← inv.names, ← lookup_isSome_iff, ← inv.scope]; exact hx
      have hsetup : stmtOk (acc.globals.reverse.map (·.1)) false (seqOf acc.setup.reverse) = true :=
        stmtOk_mono _ _ _ _ hnames (stmtOk_seqOf _ _ _ (fun s hs => inv.setup s (List.mem_reverse.mp hs)))
      cases hb : p.body with
      | none =>
        simp only [hb, pure, Except.pure, Except.ok.injEq] at ht
        subst ht
        simp only [wf, Bool.and_eq_true]
        exact ⟨⟨inv.globals, hsetup⟩, rfl⟩
      | some b =>
        simp only [hb] at ht hc
        split at ht
        · cases ht
        · rename_i loop hloop
          simp only [pure, Except.pure, Except.ok.injEq] at ht
          subst ht
          simp only [wf, Bool.and_eq_true]
          refine ⟨⟨inv.globals, hsetup⟩, stmtOk_mono _ _ _ _ hnames ?_⟩
          exact trNested_ok b _ _ _ _ _ _ _ hloop hc (fun x hx => by rw [inv.scope]; exact hx) (fun _ h => absurd ⟨rfl, rfl⟩ h)

end Reduino.Lemmas.C06
