import Reduino.Lang.Escape
import Reduino.Lang.WF
import Reduino.Lang.Libs
import Reduino.Lang.Tr2
import Reduino.Lemmas.C01p
import Reduino.Lemmas.C06t
/-
  Helper lemmas for Props/C06: string-literal escaping, scoping of the sketches `tr` and `tr2` produce, shape of the rendering.
-/
namespace Reduino.Lemmas.C06
open Reduino.Lang Reduino.Lang.Esc Reduino.Lang.WF

/-! ### string literals -/

theorem escape_cons (c : Char) (s : List Char) :
    escape (c :: s) = (if c = '\\' then ['\\','\\'] else if c = '"' then ['\\','"'] else [c]) ++ escape s := by
  unfold escape
  by_cases h1 : c = '\\'
  · subst h1; simp [replaceChar]
  · by_cases h2 : c = '"'
    · subst h2; simp [replaceChar]
    · simp [replaceChar, h1, h2]

theorem lexBody_other (c : Char) (r : List Char) (h1 : c ≠ '"') (h2 : c ≠ '\\') (h3 : c ≠ '\n') :
    lexBody (c :: r) = match lexBody r with
      | some (s, r') => some (c :: s, r')
      | none => none := by
  rw [lexBody.eq_def]
  split
  · simp at *
  · simp_all
  · simp_all
  · simp_all
  · simp_all
    rcases lexBody _ with _ | ⟨a, b⟩ <;> rfl

theorem lexBody_escape (s rest : List Char) (h : '\n' ∉ s) :
    lexBody (escape s ++ '"' :: rest) = some (s, rest) := by
  induction s with
  | nil => simp [escape, replaceChar, lexBody]
  | cons c s ih =>
    rw [escape_cons]
    have hc : c ≠ '\n' := fun e => h (by simp [e])
    have hs : '\n' ∉ s := fun e => h (by simp [e])
    by_cases h1 : c = '\\'
    · subst h1; simp [lexBody, decodeEsc, ih hs]
    · by_cases h2 : c = '"'
      · subst h2; simp [lexBody, decodeEsc, ih hs]
      · simp only [h1, h2, if_false, List.cons_append, List.nil_append]
        rw [lexBody_other c _ h2 h1 hc, ih hs]

theorem escape_roundtrip' (s rest : List Char) (h : '\n' ∉ s) :
    readLiteral (literal s ++ rest) = some (s, rest) := by
  simp only [literal, List.cons_append, List.append_assoc, readLiteral, List.nil_append]
  exact lexBody_escape s rest h

theorem escape_length' (s : List Char) :
    (escape s).length = s.length + (s.filter fun c => c = '\\' || c = '"').length := by
  induction s with
  | nil => simp [escape, replaceChar]
  | cons c s ih =>
    rw [escape_cons, List.length_append, ih]
    by_cases h1 : c = '\\'
    · subst h1; simp; omega
    · by_cases h2 : c = '"'
      · subst h2; simp; omega
      · simp [h1, h2]; omega


/-! ### shape of the rendering -/

theorem stmt_klines_text (s : Stmt) : s.klines.map (·.2) = s.lines := by
  induction s with
  | ifs c t e iht ihe =>
    cases e with
    | ifs c2 t2 e2 =>
      rw [Stmt.klines, Stmt.lines]
      generalize (Stmt.ifs c2 t2 e2).klines = l at ihe ⊢
      generalize (Stmt.ifs c2 t2 e2).lines = l' at ihe ⊢
      subst ihe
      rcases l with _ | ⟨⟨k, f⟩, rest⟩ <;> simp [iht]
    | skip => rw [Stmt.klines, Stmt.lines]; simp [iht]
    | _ => rw [Stmt.klines, Stmt.lines] <;> simp [iht, ihe]
  | ctuple k ts xs es => simp [Stmt.klines, Stmt.lines, Function.comp_def]
  | _ => simp_all [Stmt.klines, Stmt.lines]

theorem kdepth_append (a b : List LK) (d : Nat) :
    kdepth d (a ++ b) = (kdepth d a).bind (fun d' => kdepth d' b) := by
  induction a generalizing d with
  | nil => simp [kdepth]
  | cons k a ih =>
    cases k with
    | flat => simp [kdepth, ih]
    | open_ => simp [kdepth, ih]
    | close => cases d <;> simp [kdepth, ih]

theorem kdepth_flats {α} (l : List α) (d : Nat) : kdepth d (l.map (fun _ => LK.flat)) = some d := by
  induction l with
  | nil => rfl
  | cons a l ih => simpa [kdepth] using ih

theorem stmt_kdepth (s : Stmt) : ∀ d, kdepth d (s.klines.map (·.1)) = some d := by
  induction s with
  | ifs c t e iht ihe =>
    intro d
    cases e with
    | ifs c2 t2 e2 =>
      rw [Stmt.klines]
      generalize (Stmt.ifs c2 t2 e2).klines = l at ihe ⊢
      simp only [List.map_append, kdepth_append, List.map_cons, List.map_nil, kdepth, iht, Option.bind_some]
      rcases l with _ | ⟨⟨k, f⟩, rest⟩ <;> exact ihe d
    | skip => rw [Stmt.klines]; simp [kdepth_append, kdepth, iht]
    | _ => rw [Stmt.klines] <;> simp [kdepth_append, kdepth, iht, ihe]
  | ctuple k ts xs es =>
    intro d
    simp only [Stmt.klines, List.map_map, Function.comp_def]
    exact kdepth_flats _ d
  | _ => intro d; simp_all [Stmt.klines, kdepth_append, kdepth]

/-! W6: function definitions -/

theorem fklines_text (ls : C.TyEnv) (s : Stmt) : ∀ dcl,
    (s.fklines ls dcl).1.map (·.2) = (s.flines ls dcl).1 ∧ (s.fklines ls dcl).2 = (s.flines ls dcl).2 := by
  induction s with
  | seq a b iha ihb =>
    intro dcl
    simp only [Stmt.fklines, Stmt.flines, List.map_append]
    rw [(iha dcl).2]
    exact ⟨by rw [(iha dcl).1, (ihb _).1], (ihb _).2⟩
  | assign x e =>
    intro dcl
    simp only [Stmt.fklines, Stmt.flines]
    cases hl : ls.lookup x with
    | none => simp
    | some t => by_cases hd : x ∈ dcl <;> simp [hd]
  | _ => intro dcl; simp [Stmt.fklines, Stmt.flines, stmt_klines_text]

theorem fklines_kdepth (ls : C.TyEnv) (s : Stmt) : ∀ dcl d, kdepth d ((s.fklines ls dcl).1.map (·.1)) = some d := by
  induction s with
  | seq a b iha ihb =>
    intro dcl d
    simp only [Stmt.fklines, List.map_append, kdepth_append, iha, Option.bind_some, ihb]
  | assign x e =>
    intro dcl d
    simp only [Stmt.fklines]
    cases hl : ls.lookup x with
    | none => simp [kdepth]
    | some t => by_cases hd : x ∈ dcl <;> simp [hd, kdepth]
  | _ => intro dcl d; simp [Stmt.fklines, stmt_kdepth]

theorem defKLines_text (h : Helper) : h.defKLines.map (·.2) = h.defLines := by
  simp [Helper.defKLines, Helper.defLines, (fklines_text h.ls h.body []).1, Function.comp_def]

theorem helperKLines_text (hs : List Helper) : (helperKLines hs).map (·.2) = helperLines hs := by
  simp only [helperKLines, helperLines, List.map_append]
  congr 1
  · split <;> simp [Function.comp_def]
  induction hs with
  | nil => rfl
  | cons h t ih => simp only [List.flatMap_cons, List.map_append, ih, defKLines_text]

theorem defKLines_kdepth (h : Helper) (d : Nat) : kdepth d (h.defKLines.map (·.1)) = some d := by
  simp [Helper.defKLines, kdepth_append, kdepth, fklines_kdepth, kdepth_flats, Function.comp_def]

theorem helperKLines_kdepth (hs : List Helper) (d : Nat) : kdepth d ((helperKLines hs).map (·.1)) = some d := by
  have hp : kdepth d ((if 1 < hs.length then hs.map (fun h => (LK.flat, h.sig ++ ";")) else []).map (·.1)) = some d := by
    split
    · simp only [List.map_map, Function.comp_def]; exact kdepth_flats _ d
    · rfl
  simp only [helperKLines, List.map_append, kdepth_append, hp, Option.bind_some]
  clear hp
  induction hs with
  | nil => rfl
  | cons h t ih => simp only [List.flatMap_cons, List.map_append, kdepth_append, defKLines_kdepth, Option.bind_some, ih]

theorem filter_const {α β} (p : β → Bool) (b : β) (hb : p b = false) (l : List α) :
    (l.map (fun _ => b)).filter p = [] := by
  induction l <;> simp_all

theorem cprog_klines_text (c : CProg) : c.klines.map (·.2.2) = c.lines := by
  simp [CProg.klines, CProg.lines, Function.comp_def, ← stmt_klines_text, ← helperKLines_text]

theorem cprog_one_setup_one_loop (c : CProg) :
    (c.klines.map (·.1)).filter (fun s => s = Sec.setupOpen || s = Sec.loopOpen) = [Sec.setupOpen, Sec.loopOpen] := by
  have h1 := fun (α : Type) (l : List α) => filter_const (fun s => decide (s = Sec.setupOpen) || decide (s = Sec.loopOpen)) Sec.glob rfl l
  have h2 := fun (α : Type) (l : List α) => filter_const (fun s => decide (s = Sec.setupOpen) || decide (s = Sec.loopOpen)) Sec.body rfl l
  simp [CProg.klines, Function.comp_def, h1, h2]

theorem cprog_render_balanced (c : CProg) : kdepth 0 (c.klines.map (·.2.1)) = some 0 := by
  simp [CProg.klines, Function.comp_def, kdepth_append, kdepth, kdepth_flats, stmt_kdepth, helperKLines_kdepth]


/-! ### scoping -/

theorem exprOk_iff (sc : List String) (e : Expr) :
    exprOk sc e = true ↔ ∀ x ∈ e.vars, sc.contains x = true := by
  simp [exprOk, List.all_eq_true]

theorem exprOk_mono {sc sc' : List String} (h : ∀ x, sc.contains x = true → sc'.contains x = true)
    (e : Expr) (he : exprOk sc e = true) : exprOk sc' e = true := by
  rw [exprOk_iff] at *
  exact fun x hx => h x (he x hx)

theorem foldArg_ok (sc : List String) (e : Expr) (he : exprOk sc e = true) : exprOk sc (foldArg e) = true := by
  unfold foldArg
  split
  · simp [exprOk, Expr.vars]
  · exact he

theorem nameFree_vars (e : Expr) (h : e.nameFree = true) : e.vars = [] := by
  induction e <;> simp_all [Expr.nameFree, Expr.vars]

theorem defaultOf_vars (t : Ty) : (defaultOf t).vars = [] := by
  cases t <;> rfl

theorem contains_append_mono {sc sc' : List String} (l : List String) (h : ∀ x, sc.contains x = true → sc'.contains x = true) :
    ∀ x, (l ++ sc).contains x = true → (l ++ sc').contains x = true := by
  intro x hx
  simp only [List.contains_eq_mem, List.mem_append, decide_eq_true_eq] at hx ⊢ h
  exact hx.imp id (h x)

theorem contains_cons_mono {sc sc' : List String} (y : String) (h : ∀ x, sc.contains x = true → sc'.contains x = true) :
    ∀ x, (y :: sc).contains x = true → (y :: sc').contains x = true := by
  intro x hx
  simp only [List.contains_cons, Bool.or_eq_true] at hx ⊢
  exact hx.imp id (h x)

theorem tmpInitsOk_mono : ∀ (ts : List Ty) (es : List Expr) (sc sc' : List String) (k : Nat),
    (∀ x, sc.contains x = true → sc'.contains x = true) → tmpInitsOk sc k ts es = true → tmpInitsOk sc' k ts es = true
  | [], [], _, _, _, _, _ => rfl
  | [], _ :: _, _, _, _, _, h => by simp [tmpInitsOk] at h
  | _ :: _, [], _, _, _, _, h => by simp [tmpInitsOk] at h
  | t :: ts, e :: es, sc, sc', k, hm, h => by
    simp only [tmpInitsOk, Bool.and_eq_true] at h ⊢
    exact ⟨exprOk_mono hm _ h.1, tmpInitsOk_mono ts es _ _ _ (contains_cons_mono _ hm) h.2⟩

theorem stmtOk_mono (s : Stmt) : ∀ (sc sc' : List String) (b : Bool),
    (∀ x, sc.contains x = true → sc'.contains x = true) → stmtOk sc b s = true → stmtOk sc' b s = true := by
  induction s with
  | skip => intros; rfl
  | seq a b iha ihb =>
    intro sc sc' l h hs
    simp only [stmtOk, Bool.and_eq_true] at hs ⊢
    exact ⟨iha _ _ _ h hs.1, ihb _ _ _ (contains_append_mono _ h) hs.2⟩
  | tuple k xs es => intro sc sc' l h hs; simp [stmtOk] at hs
  | call y g ps ls rt body ret args _ => intro sc sc' l h hs; simp [stmtOk] at hs
  | ctuple k ts xs es =>
    intro sc sc' l h hs
    simp only [stmtOk, Bool.and_eq_true, List.all_eq_true] at hs ⊢
    exact ⟨⟨tmpInitsOk_mono _ _ _ _ _ h hs.1.1, hs.1.2⟩, fun x hx => contains_append_mono _ h x (hs.2 x hx)⟩
  | assign x e =>
    intro sc sc' l h hs
    simp only [stmtOk, Bool.and_eq_true] at hs ⊢
    exact ⟨h _ hs.1, exprOk_mono h _ hs.2⟩
  | aug x op e =>
    intro sc sc' l h hs
    simp only [stmtOk, Bool.and_eq_true] at hs ⊢
    exact ⟨h _ hs.1, exprOk_mono h _ hs.2⟩
  | ifs c t e iht ihe =>
    intro sc sc' l h hs
    simp only [stmtOk, Bool.and_eq_true] at hs ⊢
    exact ⟨⟨exprOk_mono h _ hs.1.1, iht _ _ _ h hs.1.2⟩, ihe _ _ _ h hs.2⟩
  | whileLoop c b ih =>
    intro sc sc' l h hs
    simp only [stmtOk, Bool.and_eq_true] at hs ⊢
    exact ⟨exprOk_mono h _ hs.1, ih _ _ _ h hs.2⟩
  | forRange i n b ih =>
    intro sc sc' l h hs
    simp only [stmtOk, Bool.and_eq_true] at hs ⊢
    have h' : ∀ x, (i :: sc).contains x = true → (i :: sc').contains x = true := by
      intro x hx
      simp only [List.contains_cons, Bool.or_eq_true] at hx ⊢
      exact hx.imp id (h x)
    exact ⟨exprOk_mono h' _ hs.1, ih _ _ _ h' hs.2⟩
  | write e =>
    intro sc sc' l h hs
    simp only [stmtOk] at hs ⊢
    exact exprOk_mono h _ hs
  | sleep e =>
    intro sc sc' l h hs
    simp only [stmtOk] at hs ⊢
    exact exprOk_mono h _ hs
  | brk => intro sc sc' l h hs; exact hs

theorem tmpInitsOk_of_reads : ∀ (es : List Expr) (sc : List String) (k : Nat), (∀ e ∈ es, exprOk sc e = true) →
    tmpInitsOk sc k (es.map (inferTy te)) es = true
  | [], _, _, _ => rfl
  | e :: es, sc, k, h => by
    simp only [List.map_cons, tmpInitsOk, Bool.and_eq_true]
    refine ⟨h e List.mem_cons_self, tmpInitsOk_of_reads es _ _ (fun e' he' => ?_)⟩
    refine exprOk_mono ?_ _ (h e' (List.mem_cons_of_mem _ he'))
    intro x hx
    simp only [List.contains_cons, Bool.or_eq_true]
    exact .inr hx

/-- translation of a nested statement is well-scoped -/
theorem trNested_ok (s : Stmt) : ∀ (te : C.TyEnv) (sc : List String) (inMain : Bool) (d : Nat) (inLoop inLoop' : Bool) (s' : Stmt),
    trNested te inMain d s = .ok s' → readsOk sc inLoop s = true →
    (∀ x, (te.lookup x).isSome = true → sc.contains x = true) →
    (inLoop = true → ¬(inMain = true ∧ d = 0) → inLoop' = true) →
    stmtOk sc inLoop' s' = true := by
  induction s with
  | skip =>
    intro te sc inMain d inLoop inLoop' s' ht hr hte hl
    simp only [trNested, Except.ok.injEq] at ht
    subst ht; rfl
  | seq a b iha ihb =>
    intro te sc inMain d inLoop inLoop' s' ht hr hte hl
    simp only [trNested, bind, Except.bind] at ht
    split at ht
    · cases ht
    · rename_i a' ha
      split at ht
      · cases ht
      · rename_i b' hb
        simp only [pure, Except.pure, Except.ok.injEq] at ht
        subst ht
        simp only [readsOk, Bool.and_eq_true] at hr
        simp only [stmtOk, Bool.and_eq_true]
        refine ⟨iha _ _ _ _ _ _ _ ha hr.1 hte hl, stmtOk_mono _ sc _ _ ?_ (ihb _ _ _ _ _ _ _ hb hr.2 hte hl)⟩
        intro x hx
        simp only [List.contains_eq_mem, List.mem_append, decide_eq_true_eq] at hx ⊢
        exact .inr hx
  | tuple k xs es =>
    intro te sc inMain d inLoop inLoop' s' ht hr hte hl
    simp only [trNested] at ht
    split at ht
    · rename_i hc
      simp only [Except.ok.injEq] at ht
      subst ht
      simp only [readsOk, List.all_eq_true] at hr
      simp only [stmtOk, Bool.and_eq_true, List.length_map, beq_iff_eq, List.all_eq_true]
      refine ⟨⟨tmpInitsOk_of_reads es sc k hr, hc.1⟩, ?_⟩
      intro x hx
      obtain ⟨t, ht⟩ := Reduino.Lemmas.C01.okTargets_mem hc.2 (by omega) x hx
      have := hte x (by rw [ht]; rfl)
      simp only [List.contains_eq_mem, List.mem_append, decide_eq_true_eq] at this ⊢
      exact .inr this
    · cases ht
  | ctuple k ts xs es =>
    intro te sc inMain d inLoop inLoop' s' ht hr hte hl
    simp only [trNested] at ht
    cases ht
  | assign x e =>
    intro te sc inMain d inLoop inLoop' s' ht hr hte hl
    simp only [trNested] at ht
    split at ht
    · rename_i hx
      simp only [Except.ok.injEq] at ht
      subst ht
      simp only [readsOk] at hr
      simp only [stmtOk, Bool.and_eq_true]
      exact ⟨hte _ hx, hr⟩
    · cases ht
  | aug x op e =>
    intro te sc inMain d inLoop inLoop' s' ht hr hte hl
    simp only [trNested] at ht
    split at ht
    · rename_i hx
      simp only [Except.ok.injEq] at ht
      subst ht
      simp only [readsOk, Bool.and_eq_true] at hr
      simp only [stmtOk, Bool.and_eq_true]
      refine ⟨hr.1, ?_⟩
      rw [exprOk_iff] at *
      intro y hy
      simp only [Expr.vars, List.cons_append, List.nil_append, List.mem_cons] at hy
      rcases hy with rfl | hy
      · exact hr.1
      · exact hr.2 y hy
    · cases ht
  | ifs c t e iht ihe =>
    intro te sc inMain d inLoop inLoop' s' ht hr hte hl
    simp only [trNested, bind, Except.bind] at ht
    split at ht
    · cases ht
    · rename_i a' ha
      split at ht
      · cases ht
      · rename_i b' hb
        simp only [pure, Except.pure, Except.ok.injEq] at ht
        subst ht
        simp only [readsOk, Bool.and_eq_true] at hr
        simp only [stmtOk, Bool.and_eq_true]
        exact ⟨⟨hr.1.1, iht _ _ _ _ _ _ _ ha hr.1.2 hte hl⟩, ihe _ _ _ _ _ _ _ hb hr.2 hte hl⟩
  | whileLoop c b ih =>
    intro te sc inMain d inLoop inLoop' s' ht hr hte hl
    simp only [trNested, bind, Except.bind] at ht
    split at ht
    · cases ht
    · rename_i b' hb
      simp only [pure, Except.pure, Except.ok.injEq] at ht
      subst ht
      simp only [readsOk, Bool.and_eq_true] at hr
      simp only [stmtOk, Bool.and_eq_true]
      exact ⟨hr.1, ih _ _ _ _ _ _ _ hb hr.2 hte (fun _ _ => rfl)⟩
  | forRange i n b ih =>
    intro te sc inMain d inLoop inLoop' s' ht hr hte hl
    simp only [trNested, bind, Except.bind] at ht
    split at ht
    · cases ht
    · split at ht
      · cases ht
      · rename_i b' hb
        simp only [pure, Except.pure, Except.ok.injEq] at ht
        subst ht
        simp only [readsOk, Bool.and_eq_true] at hr
        simp only [stmtOk, Bool.and_eq_true]
        have hsub : ∀ x, sc.contains x = true → (i :: sc).contains x = true := by
          intro x hx; simp only [List.contains_cons, Bool.or_eq_true]; exact Or.inr hx
        refine ⟨foldArg_ok _ _ (exprOk_mono hsub _ hr.1.1), ih _ _ _ _ _ _ _ hb hr.1.2 ?_ (fun _ _ => rfl)⟩
        intro x hx
        simp only [List.lookup_cons] at hx
        simp only [List.contains_cons, Bool.or_eq_true]
        by_cases hxi : x == i
        · exact Or.inl hxi
        · simp only [hxi] at hx
          exact Or.inr (hte _ hx)
  | write e =>
    intro te sc inMain d inLoop inLoop' s' ht hr hte hl
    simp only [trNested, Except.ok.injEq] at ht
    subst ht
    exact hr
  | sleep e =>
    intro te sc inMain d inLoop inLoop' s' ht hr hte hl
    simp only [trNested, Except.ok.injEq] at ht
    subst ht
    exact foldArg_ok _ _ hr
  | brk =>
    intro te sc inMain d inLoop inLoop' s' ht hr hte hl
    simp only [trNested] at ht
    split at ht
    · cases ht
    · rename_i hn
      simp only [Except.ok.injEq] at ht
      subst ht
      exact hl hr hn
  | call y g ps ls rt body ret args _ =>
    intro te sc inMain d inLoop inLoop' s' ht hr hte hl
    simp [readsOk] at hr

theorem lookup_isSome_iff (te : C.TyEnv) (x : String) :
    (te.lookup x).isSome = true ↔ (te.map (·.1)).contains x = true := by
  induction te with
  | nil => simp
  | cons p te ih =>
    obtain ⟨y, t⟩ := p
    simp only [List.lookup_cons, List.map_cons, List.contains_cons, Bool.or_eq_true]
    by_cases h : x == y
    · simp [h]
    · simp only [h, Bool.false_eq_true, false_or]; exact ih

theorem globalsOk_snoc (gs : List (String × Ty × Expr)) : ∀ (sc : List String) (x : String) (t : Ty) (e : Expr),
    globalsOk sc gs = true → sc.contains x = false → (gs.map (·.1)).contains x = false → e.vars = [] →
    globalsOk sc (gs ++ [(x, t, e)]) = true := by
  induction gs with
  | nil =>
    intro sc x t e _ hx _ he
    simp only [List.nil_append, globalsOk, exprOk, he, hx]; rfl
  | cons g gs ih =>
    intro sc x t e hg hx hn he
    obtain ⟨y, ty, ey⟩ := g
    simp only [globalsOk, Bool.and_eq_true, List.cons_append] at hg ⊢
    refine ⟨hg.1, ih _ _ _ _ hg.2 ?_ ?_ he⟩
    · simp only [List.map_cons, List.contains_cons, Bool.or_eq_false_iff] at hn
      simp only [List.contains_cons, Bool.or_eq_false_iff]
      exact ⟨hn.1, hx⟩
    · simp only [List.map_cons, List.contains_cons, Bool.or_eq_false_iff] at hn
      exact hn.2

/-- invariant of the prologue pass: `sc` = the scope `topReads` has reached, `acc` = what `trTop` has accumulated -/
structure TopInv (acc : TopAcc) (sc : List String) : Prop where
  scope : ∀ x, sc.contains x = (acc.te.lookup x).isSome
  names : acc.te.map (·.1) = acc.globals.reverse.map (·.1)
  globals : globalsOk [] acc.globals.reverse = true
  setup : ∀ s ∈ acc.setup, stmtOk sc false s = true

theorem TopInv.nested {acc : TopAcc} {sc : List String} (inv : TopInv acc sc) (s s' : Stmt)
    (ht : trNested acc.te false 0 s = .ok s') (hr : readsOk sc false s = true) :
    TopInv { acc with setup := s' :: acc.setup } sc := by
  refine ⟨inv.scope, inv.names, inv.globals, ?_⟩
  intro s0 hs0
  simp only [List.mem_cons] at hs0
  rcases hs0 with rfl | hs0
  · exact trNested_ok s _ _ _ _ _ _ _ ht hr (fun x hx => by rw [inv.scope]; exact hx) (fun h => by cases h)
  · exact inv.setup _ hs0

theorem TopInv.declare {acc : TopAcc} {sc : List String} (inv : TopInv acc sc) (x : String) (t : Ty) (e : Expr)
    (hx : acc.te.lookup x = none) (he : e.vars = []) (setup' : List Stmt)
    (hs : ∀ s ∈ setup', stmtOk (x :: sc) false s = true) :
    TopInv { globals := (x, t, e) :: acc.globals, te := acc.te ++ [(x, t)], setup := setup' } (x :: sc) := by
  have hsc : sc.contains x = false := by rw [inv.scope, hx]; rfl
  refine ⟨?_, ?_, ?_, hs⟩
  · intro y
    simp only [List.contains_cons, List.lookup_append, inv.scope, List.lookup_cons, List.lookup_nil]
    by_cases hy : y == x
    · simp [hy]
    · simp [hy]
  · simp [inv.names]
  · simp only [List.reverse_cons]
    refine globalsOk_snoc _ _ _ _ _ inv.globals rfl ?_ he
    rw [← inv.names]
    have := lookup_isSome_iff acc.te x
    rw [hx] at this
    simpa using this

theorem trTop_inv (s : Stmt) : ∀ (acc acc' : TopAcc) (sc sc' : List String),
    trTop acc s = .ok acc' → topReads sc s = some sc' → TopInv acc sc → TopInv acc' sc' := by
  induction s with
  | skip =>
    intro acc acc' sc sc' ht hr inv
    simp only [trTop, Except.ok.injEq] at ht
    simp only [topReads, Option.some.injEq] at hr
    subst ht hr; exact inv
  | seq a b iha ihb =>
    intro acc acc' sc sc' ht hr inv
    simp only [trTop, bind, Except.bind] at ht
    simp only [topReads] at hr
    split at ht
    · cases ht
    · rename_i acc1 ha
      cases h1 : topReads sc a with
      | none => simp [h1] at hr
      | some sc1 =>
        simp only [h1, Option.bind_some] at hr
        exact ihb _ _ _ _ ht hr (iha _ _ _ _ ha h1 inv)
  | assign x e =>
    intro acc acc' sc sc' ht hr inv
    simp only [topReads] at hr
    split at hr
    · rename_i hex
      simp only [Option.some.injEq] at hr
      simp only [trTop] at ht
      split at ht
      · -- already declared
        rename_i t hx
        simp only [Except.ok.injEq] at ht
        have hxs : sc.contains x = true := by rw [inv.scope, hx]; rfl
        simp only [hxs, if_true] at hr
        subst ht hr
        refine ⟨inv.scope, inv.names, inv.globals, ?_⟩
        intro s0 hs0
        simp only [List.mem_cons] at hs0
        rcases hs0 with rfl | hs0
        · simp only [stmtOk, Bool.and_eq_true]; exact ⟨hxs, hex⟩
        · exact inv.setup _ hs0
      · rename_i hx
        have hxs : sc.contains x = false := by rw [inv.scope, hx]; rfl
        simp only [hxs, Bool.false_eq_true, if_false] at hr
        have hsub : ∀ y, sc.contains y = true → (x :: sc).contains y = true := by
          intro y hy; simp only [List.contains_cons, Bool.or_eq_true]; exact Or.inr hy
        have hold : ∀ s ∈ acc.setup, stmtOk (x :: sc) false s = true :=
          fun s hs => stmtOk_mono s _ _ _ hsub (inv.setup s hs)
        split at ht
        · rename_i hnf
          simp only [Except.ok.injEq] at ht
          subst ht hr
          exact inv.declare x _ e hx (nameFree_vars e hnf.1) _ hold
        · simp only [Except.ok.injEq] at ht
          subst ht hr
          refine inv.declare x _ _ hx (defaultOf_vars _) _ ?_
          intro s0 hs0
          simp only [List.mem_cons] at hs0
          rcases hs0 with rfl | hs0
          · simp only [stmtOk, Bool.and_eq_true]
            exact ⟨by simp, exprOk_mono hsub _ hex⟩
          · exact hold _ hs0
    · cases hr
  | _ =>
    -- every other statement goes through `trNested` / `readsOk` unchanged
    intro acc acc' sc sc' ht hr inv
    simp only [trTop, bind, Except.bind] at ht
    simp only [topReads] at hr
    split at ht
    · cases ht
    · rename_i s' hs'
      simp only [pure, Except.pure, Except.ok.injEq] at ht
      split at hr
      · rename_i hro
        simp only [Option.some.injEq] at hr
        subst ht hr
        exact inv.nested _ _ hs' hro
      · cases hr

theorem stmtOk_seqOf (sc : List String) (b : Bool) (l : List Stmt) (h : ∀ s ∈ l, stmtOk sc b s = true) :
    stmtOk sc b (seqOf l) = true := by
  induction l with
  | nil => rfl
  | cons s l ih =>
    cases l with
    | nil => exact h s (by simp)
    | cons s2 l =>
      simp only [seqOf, stmtOk, Bool.and_eq_true]
      refine ⟨h s (by simp), stmtOk_mono _ sc _ _ ?_ (ih (fun s' hs' => h s' (List.mem_cons_of_mem _ hs')))⟩
      intro x hx
      simp only [List.contains_eq_mem, List.mem_append, decide_eq_true_eq] at hx ⊢
      exact .inr hx

theorem tr_wf' (p : Prog) (c : CProg) (ht : tr p = .ok c) (hc : Closed p = true) : wf c = true := by
  obtain ⟨_, c0, hs0, ht0, rfl⟩ := tr_ok ht
  show wf c0 = true
  have hdecls : declsOk c0.setup = true ∧ (blockDecls c0.setup).Nodup ∧ declsOk c0.loop = true ∧ (blockDecls c0.loop).Nodup := by
    refine tr2_decls p { c0 with helpers := hs0 } (Reduino.Lemmas.C01p.tr2_of_tr p _ ht) ?_ ?_
    · simp only [Closed] at hc
      split at hc
      · cases hc
      · rename_i sc hsc; exact topReads_forOk _ _ _ hsc
    · intro b hb
      simp only [Closed] at hc
      split at hc
      · cases hc
      · rw [hb] at hc; exact readsOk_forOk _ _ _ hc
  clear ht
  have ht := ht0
  simp only [trCore, bind, Except.bind] at ht
  split at ht
  · cases ht
  · rename_i acc hacc
    simp only [Closed] at hc
    split at hc
    · cases hc
    · rename_i sc hsc
      have inv : TopInv acc sc := trTop_inv _ _ _ _ _ hacc hsc ⟨fun _ => rfl, rfl, rfl, fun _ h => by cases h⟩
      have hnames : ∀ x, sc.contains x = true → (acc.globals.reverse.map (·.1)).contains x = true := by
        intro x hx
        rw [← inv.names, ← lookup_isSome_iff, ← inv.scope]; exact hx
      have hsetup : stmtOk (acc.globals.reverse.map (·.1)) false (seqOf acc.setup.reverse) = true :=
        stmtOk_mono _ _ _ _ hnames (stmtOk_seqOf _ _ _ (fun s hs => inv.setup s (List.mem_reverse.mp hs)))
      cases hb : p.body with
      | none =>
        simp only [hb, pure, Except.pure, Except.ok.injEq] at ht
        subst ht
        simp only [wf, Bool.and_eq_true, decide_eq_true_eq]
        exact ⟨⟨⟨⟨⟨⟨inv.globals, hsetup⟩, rfl⟩, hdecls.1⟩, hdecls.2.1⟩, hdecls.2.2.1⟩, hdecls.2.2.2⟩
      | some b =>
        simp only [hb] at ht hc
        split at ht
        · cases ht
        · rename_i loop hloop
          simp only [pure, Except.pure, Except.ok.injEq] at ht
          subst ht
          simp only [wf, Bool.and_eq_true, decide_eq_true_eq]
          refine ⟨⟨⟨⟨⟨⟨inv.globals, hsetup⟩, stmtOk_mono _ _ _ _ hnames ?_⟩, hdecls.1⟩, hdecls.2.1⟩, hdecls.2.2.1⟩, hdecls.2.2.2⟩
          exact trNested_ok b _ _ _ _ _ _ _ hloop hc (fun x hx => by rw [inv.scope]; exact hx) (fun _ h => absurd ⟨rfl, rfl⟩ h)


/-! ### scoping of `tr2` (hoisted declarations) -/
section Promotion
open Reduino.Lemmas.C01 Reduino.Lemmas.C01p

/-- every name declared in `te` is in the scope `sc` -/
def InSc (sc : List String) (te : C.TyEnv) : Prop := ∀ x, (te.lookup x).isSome = true → sc.contains x = true

theorem InSc_sub {sc : List String} {a b : C.TyEnv} (h : Sub a b) (hb : InSc sc b) : InSc sc a := by
  intro x hx
  obtain ⟨t, ht⟩ := Option.isSome_iff_exists.1 hx
  exact hb x (by rw [h x t ht]; rfl)

/-- the declarations after a block are in scope once the promoted ones are -/
theorem InSc_new {sc : List String} {te te' : C.TyEnv} (h : InSc sc (te ++ newDecls te te')) : InSc sc te' := by
  intro x hx
  apply h x
  rw [List.lookup_append, lookup_newDecls]
  cases h0 : te.lookup x with
  | some t => rfl
  | none => simpa using hx

theorem InSc_sorted {sc : List String} {te te' : C.TyEnv} (h : InSc sc (te ++ sortDecls (newDecls te te'))) :
    InSc sc te' := by
  intro x hx
  apply h x
  rw [List.lookup_append, lookup_sortDecls, lookup_newDecls]
  cases h0 : te.lookup x with
  | some t => rfl
  | none => simpa using hx

theorem InSc_for {sc : List String} {te te' : C.TyEnv} {i : String} {t : Ty}
    (h : InSc sc (te ++ newDecls ((i, t) :: te) te')) : InSc (i :: sc) te' := by
  intro x hx
  simp only [List.contains_cons, Bool.or_eq_true, beq_iff_eq]
  by_cases hxi : x = i
  · exact .inl hxi
  · right
    apply h x
    rw [List.lookup_append, lookup_newDecls, lookup_cons_ne _ _ hxi]
    cases h0 : te.lookup x with
    | some t => rfl
    | none => simpa using hx

theorem InSc_chain {sc : List String} {te a b : C.TyEnv}
    (h : InSc sc (te ++ (a ++ b.filter fun d => (a.lookup d.1).isNone))) : InSc sc (te ++ a) ∧ InSc sc (te ++ b) := by
  constructor
  · intro x hx
    apply h x
    rw [List.lookup_append] at hx ⊢
    rw [List.lookup_append]
    cases h1 : te.lookup x <;> cases h2 : a.lookup x <;> simp_all
  · intro x hx
    apply h x
    rw [List.lookup_append] at hx ⊢
    rw [List.lookup_append, lookup_filter_isNone]
    cases h1 : te.lookup x <;> cases h2 : a.lookup x <;> simp_all

/-- body of a promotable block: well-scoped in any scope that contains the declarations after the block -/
theorem trBody2_ok (s : Stmt) : ∀ (te : C.TyEnv) (r : Stmt × C.TyEnv) (sc : List String) (l : Bool),
    trBody2 te s = .ok r → readsOk sc l s = true → InSc sc r.2 → stmtOk sc l r.1 = true := by
  induction s with
  | skip => intro te r sc l h _ _; simp only [trBody2] at h; cases h; rfl
  | seq a b iha ihb =>
    intro te r sc l h hr hin
    obtain ⟨r1, r2, h1, h2, rfl⟩ := trBody2_seq_cases h
    simp only [readsOk, Bool.and_eq_true] at hr
    simp only [stmtOk, Bool.and_eq_true]
    refine ⟨iha _ _ _ _ h1 hr.1 (InSc_sub (trBody2_sub h2) hin), stmtOk_mono _ sc _ _ ?_ (ihb _ _ _ _ h2 hr.2 hin)⟩
    intro x hx
    simp only [List.contains_eq_mem, List.mem_append, decide_eq_true_eq] at hx ⊢
    exact .inr hx
  | assign x e =>
    intro te r sc l h hr hin
    obtain ⟨h1, hc⟩ := trBody2_assign_cases h
    simp only [readsOk] at hr
    rw [h1]
    simp only [stmtOk, Bool.and_eq_true]
    refine ⟨?_, hr⟩
    rcases hc with ⟨hl, h2⟩ | ⟨hl, h2⟩
    · rw [h2] at hin; exact hin x hl
    · rw [h2] at hin; exact hin x (by rw [lookup_snoc_self _ hl]; rfl)
  | _ =>
    intro te r sc l h hr hin
    obtain ⟨h1, h2⟩ := trBody2_other_cases (by rfl) h
    rw [h2] at hin
    exact trNested_ok _ _ _ _ _ _ _ _ h1 hr hin (fun h _ => h)

theorem elseTr_ok (e : Stmt)
    (ih : ∀ (te : C.TyEnv) (r : Stmt × C.TyEnv) (sc : List String) (l : Bool),
      trChain2 te e = .ok r → readsOk sc l e = true → InSc sc (te ++ r.2) → stmtOk sc l r.1 = true) :
    ∀ (te : C.TyEnv) (re : Stmt × C.TyEnv) (sc : List String) (l : Bool),
      elseTr te e = .ok re → readsOk sc l e = true → InSc sc (te ++ re.2) → stmtOk sc l re.1 = true := by
  intro te re sc l h hr hin
  cases e with
  | skip => simp only [elseTr] at h; cases h; rfl
  | ifs c2 t2 e2 => simp only [elseTr] at h; exact ih _ _ _ _ h hr hin
  | _ =>
    simp only [elseTr] at h
    obtain ⟨re0, hre0, h⟩ := bind_ok h
    cases h
    exact trBody2_ok _ te re0 sc l hre0 hr (InSc_sorted (te := te) (te' := re0.2) hin)

/-- an if / elif / else chain: well-scoped once the names it promotes are in scope -/
theorem trChain2_ok (s : Stmt) : ∀ (te : C.TyEnv) (r : Stmt × C.TyEnv) (sc : List String) (l : Bool),
    trChain2 te s = .ok r → readsOk sc l s = true → InSc sc (te ++ r.2) → stmtOk sc l r.1 = true := by
  induction s with
  | ifs c t e _ ihe =>
    intro te r sc l h hr hin
    rw [trChain2_unfold] at h
    obtain ⟨rt, hrt, h⟩ := bind_ok h
    obtain ⟨re, hre, h⟩ := bind_ok h
    cases h
    obtain ⟨hinT, hinE⟩ := InSc_chain hin
    simp only [readsOk, Bool.and_eq_true] at hr
    simp only [stmtOk, Bool.and_eq_true]
    exact ⟨⟨hr.1.1, trBody2_ok _ _ _ _ _ hrt hr.1.2 (InSc_sorted hinT)⟩, elseTr_ok e ihe _ _ _ _ hre hr.2 hinE⟩
  | _ =>
    intro te r sc l h hr hin
    simp only [trChain2] at h
    obtain ⟨s', hs', h⟩ := bind_ok h
    cases h
    rw [List.append_nil] at hin
    exact trNested_ok _ _ _ _ _ _ _ _ hs' hr hin (fun h _ => h)

theorem elseTr_fresh (e : Stmt)
    (ih : ∀ (te : C.TyEnv) (r : Stmt × C.TyEnv), trChain2 te e = .ok r → Keys te → Fresh te r.2) :
    ∀ (te : C.TyEnv) (re : Stmt × C.TyEnv), elseTr te e = .ok re → Keys te → Fresh te re.2 := by
  intro te re h hk
  cases e with
  | skip => simp only [elseTr] at h; cases h; exact Fresh_nil _
  | ifs c2 t2 e2 => simp only [elseTr] at h; exact ih _ _ h hk
  | _ =>
    simp only [elseTr] at h
    obtain ⟨re0, hre0, h⟩ := bind_ok h
    cases h
    exact Fresh_sortDecls (Fresh_newDecls _ (trBody2_keys hre0 hk))

/-- the names a chain promotes are pairwise distinct and not declared before the chain -/
theorem trChain2_fresh (s : Stmt) : ∀ (te : C.TyEnv) (r : Stmt × C.TyEnv),
    trChain2 te s = .ok r → Keys te → Fresh te r.2 := by
  induction s with
  | ifs c t e _ ihe =>
    intro te r h hk
    rw [trChain2_unfold] at h
    obtain ⟨rt, hrt, h⟩ := bind_ok h
    obtain ⟨re, hre, h⟩ := bind_ok h
    cases h
    exact Fresh_append_filter (Fresh_sortDecls (Fresh_newDecls _ (trBody2_keys hrt hk))) (elseTr_fresh e ihe _ _ hre hk)
  | _ =>
    intro te r h hk
    simp only [trChain2] at h
    obtain ⟨s', hs', h⟩ := bind_ok h
    cases h
    exact Fresh_nil _

/-- the prologue pass only adds declarations and keeps the bookkeeping invariant (distinct globals, name-free initialisers) -/
theorem trTop2_inv (s : Stmt) : ∀ (acc acc' : TopAcc), trTop2 acc s = .ok acc' →
    Sub acc.te acc'.te ∧ (InvP NameFree acc → InvP NameFree acc') := by
  induction s with
  | skip => intro acc acc' h; simp only [trTop2] at h; cases h; exact ⟨Sub_refl _, fun hI => hI⟩
  | seq a b iha ihb =>
    intro acc acc' h
    simp only [trTop2] at h
    obtain ⟨acc1, ha, hb⟩ := bind_ok h
    obtain ⟨a1, a2⟩ := iha _ _ ha
    obtain ⟨b1, b2⟩ := ihb _ _ hb
    exact ⟨Sub_trans a1 b1, fun hI => b2 (a2 hI)⟩
  | assign x e =>
    intro acc acc' h
    simp only [trTop2, trTop] at h
    split at h
    · cases h; exact ⟨Sub_refl _, fun hI => hI⟩
    · rename_i hl
      split at h
      · rename_i hnf
        cases h
        obtain ⟨f1, _, f3⟩ := facts_new (P := NameFree) (t := inferTy acc.te e) acc.setup hl hnf.1
        exact ⟨f1, f3⟩
      · cases h
        obtain ⟨f1, _, f3⟩ := facts_new (P := NameFree) (t := inferTy acc.te e) (Stmt.assign x e :: acc.setup) hl
          (defaultOf_nameFree (inferTy acc.te e))
        exact ⟨f1, f3⟩
  | ifs c t e _ _ =>
    intro acc acc' h
    simp only [trTop2] at h
    obtain ⟨r, hr, h⟩ := bind_ok h
    cases h
    exact ⟨Sub_append _ _, fun hI => InvP_addPromoted defaultOf_nameFree _ hI (trChain2_fresh _ _ _ hr (Inv_keys hI))⟩
  | whileLoop c b _ =>
    intro acc acc' h
    simp only [trTop2] at h
    obtain ⟨r, hr, h⟩ := bind_ok h
    cases h
    exact ⟨Sub_append _ _, fun hI => InvP_addPromoted defaultOf_nameFree _ hI (Fresh_newDecls _ (trBody2_keys hr (Inv_keys hI)))⟩
  | forRange i n b _ =>
    intro acc acc' h
    simp only [trTop2] at h
    split at h
    · cases h
    · rename_i hi
      simp only [Bool.not_eq_true, Option.isSome_eq_false_iff, Option.isNone_iff_eq_none] at hi
      obtain ⟨r, hr, h⟩ := bind_ok h
      cases h
      refine ⟨Sub_append _ _, fun hI => InvP_addPromoted defaultOf_nameFree _ hI ?_⟩
      have hk := Inv_keys hI
      have hk' : Keys ((i, Ty.int) :: acc.te) := by
        unfold Keys
        rw [List.pairwise_cons]
        exact ⟨fun a ha => (keys_of_lookup_none hi a ha).symm, hk⟩
      obtain ⟨f1, f2⟩ := Fresh_newDecls ((i, .int) :: acc.te) (trBody2_keys hr hk')
      refine ⟨f1, fun d hd => ?_⟩
      have := f2 d hd
      by_cases hdi : d.1 = i
      · rw [hdi, lookup_cons_eq] at this; cases this
      · rw [lookup_cons_ne _ _ hdi] at this; exact this
  | _ =>
    intro acc acc' h
    simp only [trTop2] at h
    obtain ⟨s', hs', h⟩ := bind_ok h
    cases h
    exact ⟨Sub_refl _, fun hI => hI⟩

theorem mem_cons_setup {sc : List String} {s' : Stmt} {l : List Stmt} (h1 : stmtOk sc false s' = true)
    (h2 : ∀ s0 ∈ l, stmtOk sc false s0 = true) : ∀ s0 ∈ s' :: l, stmtOk sc false s0 = true := by
  intro s0 hs0
  rcases List.mem_cons.1 hs0 with rfl | hs0
  · exact h1
  · exact h2 _ hs0

/-- every statement the prologue pass puts into `setup()` is well-scoped in any scope that contains the FINAL declarations -/
theorem trTop2_setup (s : Stmt) : ∀ (acc acc' : TopAcc) (sc : List String), trTop2 acc s = .ok acc' →
    readsOk sc false s = true → InSc sc acc'.te → (∀ s0 ∈ acc.setup, stmtOk sc false s0 = true) →
    ∀ s0 ∈ acc'.setup, stmtOk sc false s0 = true := by
  induction s with
  | skip => intro acc acc' sc h _ _ hs; simp only [trTop2] at h; cases h; exact hs
  | seq a b iha ihb =>
    intro acc acc' sc h hr hin hs
    simp only [trTop2] at h
    obtain ⟨acc1, ha, hb⟩ := bind_ok h
    simp only [readsOk, Bool.and_eq_true] at hr
    exact ihb _ _ _ hb hr.2 hin (iha _ _ _ ha hr.1 (InSc_sub (trTop2_inv b _ _ hb).1 hin) hs)
  | assign x e =>
    intro acc acc' sc h hr hin hs
    simp only [readsOk] at hr
    simp only [trTop2, trTop] at h
    split at h
    · rename_i t hl
      cases h
      refine mem_cons_setup ?_ hs
      simp only [stmtOk, Bool.and_eq_true]
      exact ⟨hin x (by rw [hl]; rfl), hr⟩
    · rename_i hl
      split at h
      · cases h; exact hs
      · cases h
        refine mem_cons_setup ?_ hs
        simp only [stmtOk, Bool.and_eq_true]
        exact ⟨hin x (by rw [lookup_snoc_self _ hl]; rfl), hr⟩
  | ifs c t e _ _ =>
    intro acc acc' sc h hr hin hs
    simp only [trTop2] at h
    obtain ⟨r, hr', h⟩ := bind_ok h
    cases h
    exact mem_cons_setup (trChain2_ok _ _ _ _ _ hr' hr hin) hs
  | whileLoop c b _ =>
    intro acc acc' sc h hr hin hs
    simp only [trTop2] at h
    obtain ⟨r, hr', h⟩ := bind_ok h
    cases h
    refine mem_cons_setup ?_ hs
    simp only [readsOk, Bool.and_eq_true] at hr
    simp only [stmtOk, Bool.and_eq_true]
    exact ⟨hr.1, trBody2_ok _ _ _ _ _ hr' hr.2 (InSc_new hin)⟩
  | forRange i n b _ =>
    intro acc acc' sc h hr hin hs
    simp only [trTop2] at h
    split at h
    · cases h
    · obtain ⟨r, hr', h⟩ := bind_ok h
      cases h
      refine mem_cons_setup ?_ hs
      simp only [readsOk, Bool.and_eq_true] at hr
      simp only [stmtOk, Bool.and_eq_true]
      have hsub : ∀ y, sc.contains y = true → (i :: sc).contains y = true := by
        intro y hy; simp only [List.contains_cons, Bool.or_eq_true]; exact Or.inr hy
      exact ⟨foldArg_ok _ _ (exprOk_mono hsub _ hr.1.1), trBody2_ok _ _ _ _ _ hr' hr.1.2 (InSc_for hin)⟩
  | _ =>
    intro acc acc' sc h hr hin hs
    simp only [trTop2] at h
    obtain ⟨s', hs', h⟩ := bind_ok h
    cases h
    exact mem_cons_setup (trNested_ok _ _ _ _ _ _ _ _ hs' hr hin (fun h => by cases h)) hs

/-- pairwise distinct names with variable-free initialisers form a well-formed declaration list -/
theorem globalsOk_of_distinct (gs : List (String × Ty × Expr)) : ∀ (sc : List String),
    (∀ g ∈ gs, g.2.2.nameFree = true) → gs.Pairwise (fun a b => a.1 ≠ b.1) →
    (∀ g ∈ gs, sc.contains g.1 = false) → globalsOk sc gs = true := by
  induction gs with
  | nil => intros; rfl
  | cons g gs ih =>
    intro sc hnf hp hsc
    obtain ⟨x, t, e⟩ := g
    rw [List.pairwise_cons] at hp
    simp only [globalsOk, Bool.and_eq_true, Bool.not_eq_true']
    refine ⟨⟨hsc _ (List.mem_cons_self ..), ?_⟩, ih _ (fun g hg => hnf g (List.mem_cons_of_mem _ hg)) hp.2 ?_⟩
    · simp [exprOk, nameFree_vars e (hnf _ (List.mem_cons_self ..))]
    · intro g hg
      simp only [List.contains_cons, Bool.or_eq_false_iff, beq_eq_false_iff_ne, ne_eq]
      exact ⟨fun h => hp.1 g hg h.symm, hsc g (List.mem_cons_of_mem _ hg)⟩

theorem tr2_wf' (p : Prog) (c : CProg) (ht : tr2 p = .ok c)
    (hpre : readsOk (c.globals.map (·.1)) false p.pre = true)
    (hbody : ∀ b, p.body = some b → readsOk (c.globals.map (·.1)) true b = true) : wf c = true := by
  obtain ⟨_, c0, hs0, ht0, rfl⟩ := tr2_ok ht
  have hdecls : declsOk c0.setup = true ∧ (blockDecls c0.setup).Nodup ∧ declsOk c0.loop = true ∧ (blockDecls c0.loop).Nodup :=
    tr2_decls p { c0 with helpers := hs0 } ht (readsOk_forOk _ _ _ hpre) (fun b hb => readsOk_forOk _ _ _ (hbody b hb))
  show wf c0 = true
  replace hpre : readsOk (c0.globals.map (·.1)) false p.pre = true := hpre
  replace hbody : ∀ b, p.body = some b → readsOk (c0.globals.map (·.1)) true b = true := hbody
  clear ht
  have ht := ht0
  unfold tr2Core at ht
  obtain ⟨acc, hacc, ht⟩ := bind_ok ht
  obtain ⟨loop, hc, hloop⟩ : ∃ loop, c0 = { globals := acc.globals.reverse, setup := seqOf acc.setup.reverse, loop := loop } ∧
      (match p.body with | none => (Except.ok Stmt.skip : Except TrErr Stmt) | some b => trNested acc.te true 0 b) = .ok loop := by
    cases hb : p.body with
    | none => rw [hb] at ht; cases ht; exact ⟨_, rfl, rfl⟩
    | some b =>
      rw [hb] at ht
      obtain ⟨loop, hloop, ht⟩ := bind_ok ht
      cases ht; exact ⟨_, rfl, hloop⟩
  subst hc
  have hI : InvP NameFree acc := (trTop2_inv _ _ _ hacc).2 ⟨rfl, fun _ h => (by cases h), List.Pairwise.nil⟩
  obtain ⟨h1, h2, h3⟩ := hI
  have hin : InSc (acc.globals.reverse.map (·.1)) acc.te := by
    intro x hx
    rw [lookup_isSome_iff, h1, List.map_map] at hx
    exact hx
  have hg : globalsOk [] acc.globals.reverse = true :=
    globalsOk_of_distinct _ _ (fun g hg => h2 g (List.mem_reverse.1 hg))
      (List.pairwise_reverse.2 (h3.imp fun h => h.symm)) (fun _ _ => rfl)
  have hsetup : stmtOk (acc.globals.reverse.map (·.1)) false (seqOf acc.setup.reverse) = true :=
    stmtOk_seqOf _ _ _ (fun s hs =>
      trTop2_setup _ _ _ _ hacc hpre hin (fun _ h => by cases h) s (List.mem_reverse.1 hs))
  simp only [wf, Bool.and_eq_true, decide_eq_true_eq]
  refine ⟨⟨⟨⟨⟨⟨hg, hsetup⟩, ?_⟩, hdecls.1⟩, hdecls.2.1⟩, hdecls.2.2.1⟩, hdecls.2.2.2⟩
  cases hb : p.body with
  | none => rw [hb] at hloop; cases hloop; rfl
  | some b =>
    rw [hb] at hloop
    exact trNested_ok b _ _ _ _ true _ _ hloop (hbody b hb) hin (fun _ h => absurd ⟨rfl, rfl⟩ h)

end Promotion
end Reduino.Lemmas.C06
