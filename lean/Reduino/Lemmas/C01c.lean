import Reduino.Lang.Render
import Reduino.Lang.InF
import Reduino.Lemmas.C01b
/- C01 helpers, part c: stores, the relation `Rel`, weakening, congruence, folding, frame lemma -/
namespace Reduino.Lemmas.C01
open Reduino.Lang

/-! ### stores -/

theorem lookup_cons_eq {β : Type} (x : String) (b : β) (l : List (String × β)) :
    List.lookup x ((x, b) :: l) = some b := by
  simp

theorem lookup_cons_ne {β : Type} {x y : String} (b : β) (l : List (String × β)) (h : y ≠ x) :
    List.lookup y ((x, b) :: l) = List.lookup y l := by
  have : (y == x) = false := by simpa using h
  simp [List.lookup_cons, this]

theorem get_filter_ne (s : Store) {x y : String} (h : y ≠ x) :
    Store.get (s.filter (·.1 ≠ x)) y = s.get y := by
  unfold Store.get
  induction s with
  | nil => rfl
  | cons p s ih =>
    obtain ⟨k, v⟩ := p
    by_cases hk : k = x
    · subst hk
      rw [List.filter_cons, if_neg (by simp), ih, lookup_cons_ne _ _ h]
    · rw [List.filter_cons, if_pos (by simpa using hk)]
      by_cases hy : y = k
      · subst hy; rw [lookup_cons_eq, lookup_cons_eq]
      · rw [lookup_cons_ne _ _ hy, lookup_cons_ne _ _ hy, ih]

theorem get_filter_eq (s : Store) (x : String) : Store.get (s.filter (·.1 ≠ x)) x = none := by
  unfold Store.get
  rw [List.lookup_eq_none_iff]
  intro p hp
  have := (List.mem_filter.1 hp).2
  simp only [ne_eq, decide_not, Bool.not_eq_eq_eq_not, Bool.not_true, decide_eq_false_iff_not] at this
  simp only [bne_iff_ne, ne_eq]
  exact fun h => this h.symm

theorem get_set_eq (s : Store) (x : String) (v : Val) : (s.set x v).get x = some v := by
  unfold Store.set Store.get; exact lookup_cons_eq _ _ _

theorem get_set_ne (s : Store) {x y : String} (v : Val) (h : y ≠ x) : (s.set x v).get y = s.get y := by
  have := get_filter_ne s h
  unfold Store.set Store.get at *
  rw [lookup_cons_ne _ _ h, this]

/-! ### the relation -/

theorem Rel_set_both {te : C.TyEnv} {sp sc : Store} (h : Rel te sp sc) {x : String} {t : Ty} (v : Val)
    (ht : te.lookup x = some t) (hb : t.holds v = true) :
    Rel te (sp.set x v) (sc.set x (C.conv t v)) := by
  intro y ty hy pv hpv
  by_cases hyx : y = x
  · subst hyx
    rw [get_set_eq] at hpv; cases hpv
    rw [ht] at hy; cases hy
    exact ⟨get_set_eq _ _ _, hb⟩
  · rw [get_set_ne _ _ hyx] at hpv
    rw [get_set_ne _ _ hyx]
    exact h y ty hy pv hpv

theorem Rel_set_py_out {te : C.TyEnv} {sp sc : Store} (h : Rel te sp sc) {i : String} (v : Val)
    (hi : te.lookup i = none) : Rel te (sp.set i v) sc := by
  intro y ty hy pv hpv
  have hyi : y ≠ i := by rintro rfl; rw [hi] at hy; cases hy
  rw [get_set_ne _ _ hyi] at hpv
  exact h y ty hy pv hpv

theorem Rel_c_out {te : C.TyEnv} {sp sc sc' : Store} (h : Rel te sp sc) {i : String}
    (hi : te.lookup i = none) (hsc : ∀ y, y ≠ i → sc'.get y = sc.get y) : Rel te sp sc' := by
  intro y ty hy pv hpv
  have hyi : y ≠ i := by rintro rfl; rw [hi] at hy; cases hy
  rw [hsc y hyi]
  exact h y ty hy pv hpv

theorem Rel_cons {te : C.TyEnv} {sp sc : Store} (h : Rel te sp sc) {i : String} (k : Int)
    (hp : sp.get i = some (.int k)) (hc : sc.get i = some (.int k)) : Rel ((i, .int) :: te) sp sc := by
  intro y ty hy pv hpv
  by_cases hyi : y = i
  · subst hyi
    rw [lookup_cons_eq] at hy; cases hy
    rw [hp] at hpv; cases hpv
    exact ⟨hc, rfl⟩
  · rw [lookup_cons_ne _ _ hyi] at hy
    exact h y ty hy pv hpv

theorem Rel_of_cons {te : C.TyEnv} {sp sc : Store} {i : String} {t : Ty} (h : Rel ((i, t) :: te) sp sc)
    (hi : te.lookup i = none) : Rel te sp sc := by
  intro y ty hy pv hpv
  have hyi : y ≠ i := by rintro rfl; rw [hi] at hy; cases hy
  exact h y ty (by rw [lookup_cons_ne _ _ hyi]; exact hy) pv hpv

theorem Rel_nil (te : C.TyEnv) (sc : Store) : Rel te [] sc := by
  intro y ty _ pv hpv; cases hpv

/-! ### congruence of evaluation in the variables read -/

theorem Py_eval_congr (s s' : Store) (e : Expr) (h : ∀ x ∈ e.vars, s.get x = s'.get x) :
    Py.eval s e = Py.eval s' e := by
  induction e with
  | int n => rfl
  | bool b => rfl
  | str t => rfl
  | var x => simp only [Py.eval, h x (by simp [Expr.vars])]
  | bin op a b iha ihb =>
    simp only [Expr.vars, List.mem_append] at h
    simp only [Py.eval, iha (fun x hx => h x (.inl hx)), ihb (fun x hx => h x (.inr hx))]
  | neg a iha => simp only [Expr.vars] at h; simp only [Py.eval, iha h]
  | cmp op a b iha ihb =>
    simp only [Expr.vars, List.mem_append] at h
    simp only [Py.eval, iha (fun x hx => h x (.inl hx)), ihb (fun x hx => h x (.inr hx))]
  | and a b iha ihb =>
    simp only [Expr.vars, List.mem_append] at h
    simp only [Py.eval, iha (fun x hx => h x (.inl hx)), ihb (fun x hx => h x (.inr hx))]
  | or a b iha ihb =>
    simp only [Expr.vars, List.mem_append] at h
    simp only [Py.eval, iha (fun x hx => h x (.inl hx)), ihb (fun x hx => h x (.inr hx))]
  | not a iha => simp only [Expr.vars] at h; simp only [Py.eval, iha h]
  | ite c a b ihc iha ihb =>
    simp only [Expr.vars, List.mem_append] at h
    simp only [Py.eval, ihc (fun x hx => h x (.inl (.inl hx))), iha (fun x hx => h x (.inl (.inr hx))),
      ihb (fun x hx => h x (.inr hx))]
  | abs a iha => simp only [Expr.vars] at h; simp only [Py.eval, iha h]
  | mm k a b iha ihb =>
    simp only [Expr.vars, List.mem_append] at h
    simp only [Py.eval, iha (fun x hx => h x (.inl hx)), ihb (fun x hx => h x (.inr hx))]
  | toStr a iha => simp only [Expr.vars] at h; simp only [Py.eval, iha h]

theorem C_eval_congr (te : C.TyEnv) (s s' : Store) (e : Expr) (h : ∀ x ∈ e.vars, s.get x = s'.get x) :
    C.eval te s e = C.eval te s' e := by
  induction e with
  | int n => rfl
  | bool b => rfl
  | str t => rfl
  | var x => simp only [C.eval, h x (by simp [Expr.vars])]
  | bin op a b iha ihb =>
    simp only [Expr.vars, List.mem_append] at h
    simp only [C.eval, iha (fun x hx => h x (.inl hx)), ihb (fun x hx => h x (.inr hx))]
  | neg a iha => simp only [Expr.vars] at h; simp only [C.eval, iha h]
  | cmp op a b iha ihb =>
    simp only [Expr.vars, List.mem_append] at h
    simp only [C.eval, iha (fun x hx => h x (.inl hx)), ihb (fun x hx => h x (.inr hx))]
  | and a b iha ihb =>
    simp only [Expr.vars, List.mem_append] at h
    simp only [C.eval, iha (fun x hx => h x (.inl hx)), ihb (fun x hx => h x (.inr hx))]
  | or a b iha ihb =>
    simp only [Expr.vars, List.mem_append] at h
    simp only [C.eval, iha (fun x hx => h x (.inl hx)), ihb (fun x hx => h x (.inr hx))]
  | not a iha => simp only [Expr.vars] at h; simp only [C.eval, iha h]
  | ite c a b ihc iha ihb =>
    simp only [Expr.vars, List.mem_append] at h
    simp only [C.eval, ihc (fun x hx => h x (.inl (.inl hx))), iha (fun x hx => h x (.inl (.inr hx))),
      ihb (fun x hx => h x (.inr hx))]
  | abs a iha => simp only [Expr.vars] at h; simp only [C.eval, iha h]
  | mm k a b iha ihb =>
    simp only [Expr.vars, List.mem_append] at h
    simp only [C.eval, iha (fun x hx => h x (.inl hx)), ihb (fun x hx => h x (.inr hx))]
  | toStr a iha => simp only [Expr.vars] at h; simp only [C.eval, iha h]

theorem nameFree_vars (e : Expr) (h : e.nameFree = true) : e.vars = [] := by
  induction e with
  | var x => simp [Expr.nameFree] at h
  | int n => rfl
  | bool b => rfl
  | str t => rfl
  | bin op a b iha ihb => simp only [Expr.nameFree, Bool.and_eq_true] at h; simp [Expr.vars, iha h.1, ihb h.2]
  | cmp op a b iha ihb => simp only [Expr.nameFree, Bool.and_eq_true] at h; simp [Expr.vars, iha h.1, ihb h.2]
  | and a b iha ihb => simp only [Expr.nameFree, Bool.and_eq_true] at h; simp [Expr.vars, iha h.1, ihb h.2]
  | or a b iha ihb => simp only [Expr.nameFree, Bool.and_eq_true] at h; simp [Expr.vars, iha h.1, ihb h.2]
  | neg a iha => simp only [Expr.nameFree] at h; simp [Expr.vars, iha h]
  | not a iha => simp only [Expr.nameFree] at h; simp [Expr.vars, iha h]
  | ite c a b ihc iha ihb =>
    simp only [Expr.nameFree, Bool.and_eq_true] at h; simp [Expr.vars, ihc h.1.1, iha h.1.2, ihb h.2]
  | abs a iha => simp only [Expr.nameFree] at h; simp [Expr.vars, iha h]
  | mm k a b iha ihb => simp only [Expr.nameFree, Bool.and_eq_true] at h; simp [Expr.vars, iha h.1, ihb h.2]
  | toStr a iha => simp only [Expr.nameFree] at h; simp [Expr.vars, iha h]

theorem wt_vars (te : C.TyEnv) (e : Expr) (h : e.wt te = true) : ∀ x ∈ e.vars, (te.lookup x).isSome = true := by
  induction e with
  | var x => intro y hy; simp only [Expr.vars, List.mem_singleton] at hy; subst hy; exact h
  | int n => intro y hy; simp [Expr.vars] at hy
  | bool b => intro y hy; simp [Expr.vars] at hy
  | str t => intro y hy; simp [Expr.vars] at hy
  | bin op a b iha ihb =>
    simp only [Expr.wt, Bool.and_eq_true] at h
    intro y hy; simp only [Expr.vars, List.mem_append] at hy
    rcases hy with hy | hy
    · exact iha h.1.1 y hy
    · exact ihb h.1.2 y hy
  | cmp op a b iha ihb =>
    simp only [Expr.wt, Bool.and_eq_true] at h
    intro y hy; simp only [Expr.vars, List.mem_append] at hy
    rcases hy with hy | hy
    · exact iha h.1.1.1 y hy
    · exact ihb h.1.1.2 y hy
  | and a b iha ihb =>
    simp only [Expr.wt, Bool.and_eq_true] at h
    intro y hy; simp only [Expr.vars, List.mem_append] at hy
    rcases hy with hy | hy
    · exact iha h.1.1.1 y hy
    · exact ihb h.1.1.2 y hy
  | or a b iha ihb =>
    simp only [Expr.wt, Bool.and_eq_true] at h
    intro y hy; simp only [Expr.vars, List.mem_append] at hy
    rcases hy with hy | hy
    · exact iha h.1.1.1 y hy
    · exact ihb h.1.1.2 y hy
  | neg a iha => simp only [Expr.wt, Bool.and_eq_true] at h; exact iha h.1
  | not a iha => simp only [Expr.wt, Bool.and_eq_true] at h; exact iha h.1
  | ite c a b ihc iha ihb =>
    simp only [Expr.wt, Bool.and_eq_true] at h
    intro y hy; simp only [Expr.vars, List.mem_append] at hy
    rcases hy with (hy | hy) | hy
    · exact ihc h.1.1.1.1 y hy
    · exact iha h.1.1.1.2 y hy
    · exact ihb h.1.1.2 y hy
  | abs a iha => simp only [Expr.wt] at h; exact iha h
  | mm k a b iha ihb =>
    simp only [Expr.wt, Bool.and_eq_true] at h
    intro y hy; simp only [Expr.vars, List.mem_append] at hy
    rcases hy with hy | hy
    · exact iha h.1.1.1 y hy
    · exact ihb h.1.1.2 y hy
  | toStr a iha => simp only [Expr.wt, Bool.and_eq_true] at h; exact iha h.1

/-! ### weakening of the type environment -/

def Sub (te te' : C.TyEnv) : Prop := ∀ x t, te.lookup x = some t → te'.lookup x = some t

theorem wt_sub {te te' : C.TyEnv} (hs : Sub te te') (e : Expr) (h : e.wt te = true) :
    e.wt te' = true ∧ inferTy te' e = inferTy te e := by
  induction e with
  | int n => exact ⟨rfl, rfl⟩
  | bool b => exact ⟨rfl, rfl⟩
  | str t => exact ⟨h, rfl⟩
  | var x =>
    simp only [Expr.wt, Option.isSome_iff_exists] at h
    obtain ⟨t, ht⟩ := h
    simp only [Expr.wt, inferTy, hs x t ht, ht, Option.isSome_some, Option.getD_some, and_self]
  | bin op a b iha ihb =>
    simp only [Expr.wt, Bool.and_eq_true] at h
    have hb : Expr.binTyOk te' op a b = true := by
      have := h.2; simp only [Expr.binTyOk] at this ⊢; rw [(iha h.1.1).2, (ihb h.1.2).2]; exact this
    simp only [Expr.wt, inferTy, (iha h.1.1).1, (ihb h.1.2).1, (iha h.1.1).2, (ihb h.1.2).2, hb, Bool.and_self, and_self]
  | cmp op a b iha ihb =>
    simp only [Expr.wt, Bool.and_eq_true] at h
    simp only [Expr.wt, inferTy, (iha h.1.1.1).1, (ihb h.1.1.2).1, (iha h.1.1.1).2, (ihb h.1.1.2).2, h.1.2, h.2, Bool.and_self, and_self]
  | neg a iha =>
    simp only [Expr.wt, Bool.and_eq_true, beq_iff_eq] at h
    simp only [Expr.wt, inferTy, (iha h.1).1, (iha h.1).2, h.2, beq_self_eq_true, Bool.and_self, and_self]
  | not a iha =>
    simp only [Expr.wt, Bool.and_eq_true] at h
    simp only [Expr.wt, inferTy, (iha h.1).1, (iha h.1).2, h.2, Bool.and_self, and_self]
  | and a b iha ihb =>
    simp only [Expr.wt, Bool.and_eq_true, beq_iff_eq] at h
    simp only [Expr.wt, inferTy, (iha h.1.1.1).1, (ihb h.1.1.2).1, (iha h.1.1.1).2, (ihb h.1.1.2).2, h.1.2, h.2,
      beq_self_eq_true, Bool.and_self, and_self]
  | or a b iha ihb =>
    simp only [Expr.wt, Bool.and_eq_true, beq_iff_eq] at h
    simp only [Expr.wt, inferTy, (iha h.1.1.1).1, (ihb h.1.1.2).1, (iha h.1.1.1).2, (ihb h.1.1.2).2, h.1.2, h.2,
      beq_self_eq_true, Bool.and_self, and_self]
  | ite c a b ihc iha ihb =>
    simp only [Expr.wt, Bool.and_eq_true, beq_iff_eq] at h
    simp only [Expr.wt, inferTy, (ihc h.1.1.1.1).1, (iha h.1.1.1.2).1, (ihb h.1.1.2).1, (iha h.1.1.1.2).2, (ihb h.1.1.2).2,
      (ihc h.1.1.1.1).2, h.1.2, h.2, beq_self_eq_true, Bool.and_self, and_self]
  | abs a iha =>
    simp only [Expr.wt] at h
    simp only [Expr.wt, inferTy, (iha h).1, and_self]
  | mm k a b iha ihb =>
    simp only [Expr.wt, Bool.and_eq_true, beq_iff_eq] at h
    simp only [Expr.wt, inferTy, (iha h.1.1.1).1, (ihb h.1.1.2).1, (iha h.1.1.1).2, (ihb h.1.1.2).2, h.1.2, h.2,
      beq_self_eq_true, Bool.and_self, and_self]
  | toStr a iha =>
    simp only [Expr.wt, Bool.and_eq_true] at h
    simp only [Expr.wt, inferTy, (iha h.1).1, (iha h.1).2, h.2, Bool.and_self, and_self]

/-- a name-free expression is typed independently of the declarations -/
theorem wt_nameFree (te te' : C.TyEnv) (e : Expr) (hnf : e.nameFree = true) (h : e.wt te = true) :
    e.wt te' = true ∧ inferTy te' e = inferTy te e := by
  induction e with
  | int n => exact ⟨rfl, rfl⟩
  | bool b => exact ⟨rfl, rfl⟩
  | str t => exact ⟨h, rfl⟩
  | var x => simp [Expr.nameFree] at hnf
  | bin op a b iha ihb =>
    simp only [Expr.nameFree, Bool.and_eq_true] at hnf
    simp only [Expr.wt, Bool.and_eq_true] at h
    have hb : Expr.binTyOk te' op a b = true := by
      have := h.2; simp only [Expr.binTyOk] at this ⊢; rw [(iha hnf.1 h.1.1).2, (ihb hnf.2 h.1.2).2]; exact this
    simp only [Expr.wt, inferTy, (iha hnf.1 h.1.1).1, (ihb hnf.2 h.1.2).1, (iha hnf.1 h.1.1).2, (ihb hnf.2 h.1.2).2, hb,
      Bool.and_self, and_self]
  | cmp op a b iha ihb =>
    simp only [Expr.nameFree, Bool.and_eq_true] at hnf
    simp only [Expr.wt, Bool.and_eq_true] at h
    simp only [Expr.wt, inferTy, (iha hnf.1 h.1.1.1).1, (ihb hnf.2 h.1.1.2).1, (iha hnf.1 h.1.1.1).2, (ihb hnf.2 h.1.1.2).2, h.1.2, h.2,
      Bool.and_self, and_self]
  | neg a iha =>
    simp only [Expr.nameFree] at hnf
    simp only [Expr.wt, Bool.and_eq_true, beq_iff_eq] at h
    simp only [Expr.wt, inferTy, (iha hnf h.1).1, (iha hnf h.1).2, h.2, beq_self_eq_true, Bool.and_self, and_self]
  | not a iha =>
    simp only [Expr.nameFree] at hnf
    simp only [Expr.wt, Bool.and_eq_true] at h
    simp only [Expr.wt, inferTy, (iha hnf h.1).1, (iha hnf h.1).2, h.2, Bool.and_self, and_self]
  | and a b iha ihb =>
    simp only [Expr.nameFree, Bool.and_eq_true] at hnf
    simp only [Expr.wt, Bool.and_eq_true, beq_iff_eq] at h
    simp only [Expr.wt, inferTy, (iha hnf.1 h.1.1.1).1, (ihb hnf.2 h.1.1.2).1, (iha hnf.1 h.1.1.1).2, (ihb hnf.2 h.1.1.2).2,
      h.1.2, h.2, beq_self_eq_true, Bool.and_self, and_self]
  | or a b iha ihb =>
    simp only [Expr.nameFree, Bool.and_eq_true] at hnf
    simp only [Expr.wt, Bool.and_eq_true, beq_iff_eq] at h
    simp only [Expr.wt, inferTy, (iha hnf.1 h.1.1.1).1, (ihb hnf.2 h.1.1.2).1, (iha hnf.1 h.1.1.1).2, (ihb hnf.2 h.1.1.2).2,
      h.1.2, h.2, beq_self_eq_true, Bool.and_self, and_self]
  | ite c a b ihc iha ihb =>
    simp only [Expr.nameFree, Bool.and_eq_true] at hnf
    simp only [Expr.wt, Bool.and_eq_true, beq_iff_eq] at h
    simp only [Expr.wt, inferTy, (ihc hnf.1.1 h.1.1.1.1).1, (iha hnf.1.2 h.1.1.1.2).1, (ihb hnf.2 h.1.1.2).1,
      (iha hnf.1.2 h.1.1.1.2).2, (ihb hnf.2 h.1.1.2).2, (ihc hnf.1.1 h.1.1.1.1).2, h.1.2, h.2, beq_self_eq_true, Bool.and_self, and_self]
  | abs a iha =>
    simp only [Expr.nameFree] at hnf
    simp only [Expr.wt] at h
    simp only [Expr.wt, inferTy, (iha hnf h).1, and_self]
  | mm k a b iha ihb =>
    simp only [Expr.nameFree, Bool.and_eq_true] at hnf
    simp only [Expr.wt, Bool.and_eq_true, beq_iff_eq] at h
    simp only [Expr.wt, inferTy, (iha hnf.1 h.1.1.1).1, (ihb hnf.2 h.1.1.2).1, (iha hnf.1 h.1.1.1).2, (ihb hnf.2 h.1.1.2).2,
      h.1.2, h.2, beq_self_eq_true, Bool.and_self, and_self]
  | toStr a iha =>
    simp only [Expr.nameFree] at hnf
    simp only [Expr.wt, Bool.and_eq_true] at h
    simp only [Expr.wt, inferTy, (iha hnf h.1).1, (iha hnf h.1).2, h.2, Bool.and_self, and_self]

theorem okCond_wt {te : C.TyEnv} {c : Expr} (h : c.okCond te = true) : c.wt te = true := by
  simp only [Expr.okCond, Bool.and_eq_true] at h; exact h.1

theorem okCond_sub {te te' : C.TyEnv} (hs : Sub te te') {c : Expr} (h : c.okCond te = true) : c.okCond te' = true := by
  simp only [Expr.okCond, Bool.and_eq_true] at h ⊢
  exact ⟨(wt_sub hs c h.1).1, by rw [(wt_sub hs c h.1).2]; exact h.2⟩

theorem Sub_cons {te : C.TyEnv} {i : String} (t : Ty) (hi : te.lookup i = none) : Sub te ((i, t) :: te) := by
  intro x tx hx
  have : x ≠ i := by rintro rfl; rw [hi] at hx; cases hx
  rw [lookup_cons_ne _ _ this]; exact hx

theorem Sub_cons_cons {te te' : C.TyEnv} (i : String) (t : Ty) (h : Sub te te') : Sub ((i, t) :: te) ((i, t) :: te') := by
  intro x tx hx
  by_cases hxi : x = i
  · subst hxi; rw [lookup_cons_eq] at hx ⊢; exact hx
  · rw [lookup_cons_ne _ _ hxi] at hx ⊢; exact h x tx hx

/-! ### folded arguments -/

theorem evalConst_spec {e : Expr} {v : Val} (h : evalConst e = some v) (s : Store) :
    e.nameFree = true ∧ Py.eval s e = .ok v := by
  unfold evalConst at h
  split at h
  · rename_i hnf
    refine ⟨hnf, ?_⟩
    rw [Py_eval_congr s [] e (by rw [nameFree_vars e hnf]; intro x hx; cases hx)]
    cases he : Py.eval [] e with
    | error err => rw [he] at h; cases h
    | ok w => rw [he] at h; cases h; rfl
  · cases h

/-- the (possibly folded) argument of `sleep`/`range` has the same integer value on both sides -/
theorem foldArg_sim (te : C.TyEnv) (sp sc : Store) (hrel : Rel te sp sc) (e : Expr) (v : Val)
    (hwt : e.wt te = true) (hpy : Py.eval sp e = .ok v) :
    (∃ cv, C.eval te sc (foldArg e) = .ok cv ∧ cv.toInt = v.toInt) ∨ UB (C.eval te sc (foldArg e)) := by
  unfold foldArg
  cases hc : evalConst e with
  | some w =>
    have := (evalConst_spec hc sp).2
    rw [hpy] at this; cases this
    left; exact ⟨_, rfl, rfl⟩
  | none =>
    rcases expr_sim te sp sc hrel e v hwt hpy with h | h
    · left; exact ⟨_, h, conv_toInt _ _ (typed_val te sp sc hrel e v hwt hpy)⟩
    · right; exact h

theorem foldArg_vars (e : Expr) : ∀ x ∈ (foldArg e).vars, x ∈ e.vars := by
  unfold foldArg
  cases evalConst e with
  | some w => intro x hx; simp [Expr.vars] at hx
  | none => intro x hx; exact hx

end Reduino.Lemmas.C01
