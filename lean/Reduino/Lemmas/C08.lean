import Reduino.Lang.Bind
/- helper lemmas for Props/C08.lean -/
namespace Reduino.Lemmas.C08
open Reduino.Lang.Bind

/-- every filter of a list is one of its enumerated sublists -/
theorem mem_sublists_of_filter (p : String → Bool) (l : List String) : l.filter p ∈ sublists l := by
  induction l with
  | nil => simp [sublists]
  | cons x rest ih =>
    simp only [sublists, List.mem_flatMap]
    refine ⟨rest.filter p, ih, ?_⟩
    by_cases hx : p x = true
    · simp [hx]
    · simp [hx]

/-- the provided parameters do not depend on keyword order, as a set -/
theorem provided_contains_perm (sig : Sig) (n : Nat) (k1 k2 : List String) (h : k1.Perm k2) (a : String) :
    (provided sig ⟨n, k1⟩).contains a = (provided sig ⟨n, k2⟩).contains a := by
  unfold provided positional
  exact (h.append_left _).contains_eq

theorem pyAccepts_kw_perm (sig : Sig) (n : Nat) (k1 k2 : List String) (h : k1.Perm k2) :
    pyAccepts sig ⟨n, k1⟩ = pyAccepts sig ⟨n, k2⟩ := by
  have h5 : (sig.all fun p => p.hasDefault || (provided sig ⟨n, k1⟩).contains p.name) =
      (sig.all fun p => p.hasDefault || (provided sig ⟨n, k2⟩).contains p.name) := by
    congr 1
    funext p
    rw [provided_contains_perm sig n k1 k2 h]
  have h3 : decide k1.Nodup = decide k2.Nodup := decide_eq_decide.2 h.nodup_iff
  unfold pyAccepts
  simp only [positional] at *
  rw [h5, h3, h.all_eq, h.all_eq]

/-- the facts about an accepted call used for completeness -/
theorem pyAccepts_facts (sig : Sig) (s : Shape) (h : pyAccepts sig s = true) :
    s.npos ≤ (posParams sig).length ∧ (∀ k ∈ s.kws, k ∈ sig.map (·.name)) ∧ s.kws.Nodup ∧
      (∀ k ∈ s.kws, ((posParams sig).take s.npos).contains k = false) := by
  unfold pyAccepts positional at h
  simp only [Bool.and_eq_true, decide_eq_true_eq, List.all_eq_true] at h
  obtain ⟨⟨⟨⟨h1, h2⟩, h3⟩, h4⟩, _⟩ := h
  refine ⟨h1, ?_, h3, ?_⟩
  · intro k hk
    have := h2 k hk
    rw [List.any_eq_true] at this
    obtain ⟨p, hp, hpk⟩ := this
    rw [List.mem_map]
    exact ⟨p, hp, eq_of_beq hpk⟩
  · intro k hk
    have := h4 k hk
    simpa using this

theorem allShapes_complete (sig : Sig) (hn : (sig.map (·.name)).Nodup) (s : Shape) (h : pyAccepts sig s = true) :
    ∃ s' ∈ allShapes sig, s'.npos = s.npos ∧ s'.kws.Perm s.kws := by
  obtain ⟨h1, h2, h3, h4⟩ := pyAccepts_facts sig s h
  let cand := (sig.map (·.name)).filter fun n => !((posParams sig).take s.npos).contains n
  refine ⟨⟨s.npos, cand.filter (fun k => decide (k ∈ s.kws))⟩, ?_, rfl, ?_⟩
  · unfold allShapes
    rw [List.mem_flatMap]
    refine ⟨s.npos, List.mem_range.2 (by omega), ?_⟩
    rw [List.mem_map]
    exact ⟨_, mem_sublists_of_filter _ _, rfl⟩
  · have hc : cand.Nodup := hn.filter _
    refine (List.perm_ext_iff_of_nodup (hc.filter _) h3).2 ?_
    intro a
    constructor
    · intro ha
      have := (List.mem_filter.1 ha).2
      simpa using this
    · intro ha
      refine List.mem_filter.2 ⟨List.mem_filter.2 ⟨h2 a ha, ?_⟩, by simpa using ha⟩
      rw [h4 a ha]
      rfl

theorem tableAgrees_iff (sig : Sig) (t : Table) (h : tableAgrees sig t = true) (s : Shape) (hs : s ∈ allShapes sig)
    (ha : pyAccepts sig s = true) : ∃ r ∈ t, r.shape = s ∧ (r.rejected = true ∨ r.unseen = []) := by
  unfold tableAgrees at h
  rw [List.all_eq_true] at h
  have := h s hs
  rw [ha] at this
  simp only [Bool.not_true, Bool.false_or] at this
  split at this
  · rename_i r hr
    refine ⟨r, List.mem_of_find?_eq_some hr, ?_, ?_⟩
    · have := List.find?_some hr
      exact eq_of_beq this
    · rw [Bool.or_eq_true, List.isEmpty_iff] at this
      exact this
  · exact absurd this (by decide)

end Reduino.Lemmas.C08
