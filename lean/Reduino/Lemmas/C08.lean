import Reduino.Lang.Bind
/- helper lemmas for Props/C08.lean -/
namespace Reduino.Lemmas.C08
end Reduino.Lemmas.C08
