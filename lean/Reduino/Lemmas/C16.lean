import Reduino.Lemmas.Field
import Reduino.Fw.Buzzer
import Mathlib.Tactic.NormNum
import Mathlib.Tactic.Positivity
import Mathlib.Algebra.BigOperators.Group.List.Basic
/- helper lemmas for Props/C16.lean -/
set_option linter.unusedSectionVars false
namespace Reduino.Lemmas.C16
open Reduino Reduino.Fw

variable {K : Type} [Field K] [LinearOrder K] [IsStrictOrderedRing K] [FloorRing K]

/-! ## numbers -/

@[simp] theorem fzero_eq : (fzero : K) = 0 := by simp [fzero]
@[simp] theorem lit_eq (a b : Int) : (lit a b : K) = (a : K) / (b : K) := rfl

theorem toF_int (n : Int) : (Val.int n : Val K).toF = (n : K) := rfl
theorem toF_flt (x : K) : (Val.flt x : Val K).toF = x := rfl

theorem clamp0_eq (x : K) : Buzzer.clamp0 x = if x < 0 then 0 else x := by
  simp [Buzzer.clamp0]

theorem clamp0_pos {x : K} (h : 0 < x) : Buzzer.clamp0 x = x := by
  rw [clamp0_eq, if_neg (not_lt.mpr h.le)]

theorem clamp0_nonpos {x : K} (h : x ≤ 0) : Buzzer.clamp0 x = 0 := by
  rw [clamp0_eq]; split
  · rfl
  · exact le_antisymm h (not_lt.mp ‹_›)

theorem clamp0_nonneg (x : K) : 0 ≤ Buzzer.clamp0 x := by
  rw [clamp0_eq]; split
  · exact le_refl _
  · exact not_lt.mp ‹_›

theorem trunc_nonneg_eq {x : K} (h : 0 ≤ x) : (Num.trunc x : Int) = ⌊x⌋ := by
  rw [trunc_eq, if_pos h]

theorem toneOf_eq {f : K} (h : 0 ≤ f) : toneOf f = ⌊f + 1 / 2⌋ := by
  unfold toneOf
  rw [lit_eq, trunc_nonneg_eq (by push_cast; positivity)]
  push_cast; rfl

theorem toneOf_mono {f g : K} (hf : 0 ≤ f) (hfg : f ≤ g) : toneOf f ≤ toneOf g := by
  rw [toneOf_eq hf, toneOf_eq (hf.trans hfg)]
  exact Int.floor_le_floor (by linarith)

/-- a successful cast to unsigned yields a non-negative number -/
theorem toULong_nonneg {v : Val K} {t : Int} (h : toULong v = some t) : 0 ≤ t := by
  cases v with
  | int n =>
    simp only [toULong] at h
    split at h
    · cases h
    · cases h; omega
  | flt x =>
    simp only [toULong, fzero_eq] at h
    split at h
    · cases h
    · cases h
      rw [trunc_nonneg_eq (not_lt.mp ‹_›)]
      exact Int.floor_nonneg.mpr (not_lt.mp ‹_›)

/-! ## event projections (the same functions as in Props/C16, stated here for the helper lemmas) -/

def isPin : Ev → Bool | .tone _ _ => true | .noTone _ => true | _ => false
def delaysL (l : List Ev) : List Int := l.filterMap fun | .delay ms => some ms | _ => none
def tonesL (l : List Ev) : List Int := l.filterMap fun | .tone _ f => some f | _ => none
def pinL (l : List Ev) : List Ev := l.filter isPin

@[simp] theorem delaysL_nil : delaysL [] = [] := rfl
@[simp] theorem tonesL_nil : tonesL [] = [] := rfl
@[simp] theorem pinL_nil : pinL [] = [] := rfl
@[simp] theorem delaysL_append (a b : List Ev) : delaysL (a ++ b) = delaysL a ++ delaysL b := by
  simp [delaysL]
@[simp] theorem tonesL_append (a b : List Ev) : tonesL (a ++ b) = tonesL a ++ tonesL b := by
  simp [tonesL]
@[simp] theorem pinL_append (a b : List Ev) : pinL (a ++ b) = pinL a ++ pinL b := by
  simp [pinL]
@[simp] theorem delaysL_cons_tone (p f : Int) (l : List Ev) : delaysL (.tone p f :: l) = delaysL l := by
  simp [delaysL]
@[simp] theorem delaysL_cons_noTone (p : Int) (l : List Ev) : delaysL (.noTone p :: l) = delaysL l := by
  simp [delaysL]
@[simp] theorem delaysL_cons_delay (d : Int) (l : List Ev) : delaysL (.delay d :: l) = d :: delaysL l := by
  simp [delaysL]
@[simp] theorem tonesL_cons_tone (p f : Int) (l : List Ev) : tonesL (.tone p f :: l) = f :: tonesL l := by
  simp [tonesL]
@[simp] theorem tonesL_cons_noTone (p : Int) (l : List Ev) : tonesL (.noTone p :: l) = tonesL l := by
  simp [tonesL]
@[simp] theorem tonesL_cons_delay (d : Int) (l : List Ev) : tonesL (.delay d :: l) = tonesL l := by
  simp [tonesL]
@[simp] theorem pinL_cons_tone (p f : Int) (l : List Ev) : pinL (.tone p f :: l) = .tone p f :: pinL l := rfl
@[simp] theorem pinL_cons_noTone (p : Int) (l : List Ev) : pinL (.noTone p :: l) = .noTone p :: pinL l := rfl
@[simp] theorem pinL_cons_delay (d : Int) (l : List Ev) : pinL (.delay d :: l) = pinL l := rfl

@[simp] theorem delaysL_delayIf (ms : Int) : delaysL (Buzzer.delayIf ms) = if 0 < ms then [ms] else [] := by
  unfold Buzzer.delayIf; split <;> simp
@[simp] theorem tonesL_delayIf (ms : Int) : tonesL (Buzzer.delayIf ms) = [] := by
  unfold Buzzer.delayIf; split <;> simp
@[simp] theorem pinL_delayIf (ms : Int) : pinL (Buzzer.delayIf ms) = [] := by
  unfold Buzzer.delayIf; split <;> simp

/-! ## sound / silence -/

/-- the event `sound` emits -/
def soundEv (pin : Int) (f : K) : Ev := if 0 < f then .tone pin (toneOf f) else .noTone pin

/-- the state `sound` leaves -/
def soundSt (b : Buzzer K) (f : K) : Buzzer K :=
  if 0 < f then { b with state := true, current := f, last := f } else { b with state := false, current := 0 }

def silentSt (b : Buzzer K) : Buzzer K := { b with state := false, current := 0 }

theorem sound_eq (b : Buzzer K) (f : K) : Buzzer.sound b f = (soundSt b f, [soundEv b.pin f]) := by
  unfold Buzzer.sound soundSt soundEv
  simp only [fzero_eq]
  split <;> rfl

theorem silence_eq (b : Buzzer K) : Buzzer.silence b = (silentSt b, [.noTone b.pin]) := by
  simp [Buzzer.silence, silentSt]

@[simp] theorem soundSt_pin (b : Buzzer K) (f : K) : (soundSt b f).pin = b.pin := by
  unfold soundSt; split <;> rfl
@[simp] theorem silentSt_pin (b : Buzzer K) : (silentSt b).pin = b.pin := rfl
@[simp] theorem silentSt_state (b : Buzzer K) : (silentSt b).state = false := rfl
@[simp] theorem silentSt_current (b : Buzzer K) : (silentSt b).current = 0 := rfl
@[simp] theorem silentSt_last (b : Buzzer K) : (silentSt b).last = b.last := rfl

theorem soundEv_pos {f : K} (pin : Int) (h : 0 < f) : soundEv pin f = .tone pin (toneOf f) := by
  simp [soundEv, h]
theorem soundEv_nonpos {f : K} (pin : Int) (h : f ≤ 0) : soundEv pin f = .noTone pin := by
  simp [soundEv, not_lt.mpr h]

@[simp] theorem delaysL_soundEv (pin : Int) (f : K) (l : List Ev) : delaysL (soundEv pin f :: l) = delaysL l := by
  unfold soundEv; split <;> simp

/-! ## beep -/

/-- events of `k` repetitions whose first event is `e0` -/
def beepEvs (pin : Int) (e0 : Ev) (on off : Int) : Nat → List Ev
  | 0 => []
  | k + 1 =>
    [e0] ++ Buzzer.delayIf on ++ [.noTone pin] ++ (if k = 0 then [] else Buzzer.delayIf off) ++ beepEvs pin e0 on off k

def beepSt (b : Buzzer K) (ft : K) (k : Nat) : Buzzer K :=
  if k = 0 then b else silentSt (soundSt b ft)

theorem beepLoop_eq (ft : K) (on off : Int) (k total : Nat) (b : Buzzer K) (acc : List Ev) :
    Buzzer.beepLoop ft on off k total b acc
      = (beepSt b ft k, acc ++ beepEvs b.pin (soundEv b.pin ft) on off k) := by
  induction k generalizing b acc with
  | zero => simp [Buzzer.beepLoop, beepSt, beepEvs]
  | succ k ih =>
    simp only [Buzzer.beepLoop, sound_eq, silence_eq, ih, silentSt_pin, soundSt_pin]
    refine Prod.ext ?_ ?_
    · simp only [beepSt]
      by_cases hk : k = 0
      · simp [hk]
      · simp only [hk, if_false, Nat.succ_ne_zero]
        unfold silentSt soundSt
        split <;> simp
    · simp only [beepEvs, List.append_assoc]

theorem beepSt_pin (b : Buzzer K) (ft : K) (k : Nat) : (beepSt b ft k).pin = b.pin := by
  unfold beepSt; split <;> simp

theorem pinL_beepEvs_getLast (pin : Int) (e0 : Ev) (on off : Int) (k : Nat) :
    (pinL (beepEvs pin e0 on off k)).getLast? = if k = 0 then none else some (.noTone pin) := by
  induction k with
  | zero => simp [beepEvs]
  | succ k ih =>
    simp only [beepEvs, pinL_append, List.getLast?_append, ih]
    by_cases hk : k = 0
    · simp [hk]
    · simp [hk]

theorem tonesL_beepEvs_tone (pin t : Int) (on off : Int) (k : Nat) :
    tonesL (beepEvs pin (.tone pin t) on off k) = List.replicate k t := by
  induction k with
  | zero => simp [beepEvs]
  | succ k ih =>
    simp only [beepEvs, tonesL_append, ih]
    by_cases hk : k = 0
    · simp [hk, List.replicate_succ]
    · simp [hk, List.replicate_succ]

theorem tonesL_beepEvs_noTone (pin : Int) (on off : Int) (k : Nat) :
    tonesL (beepEvs pin (.noTone pin) on off k) = [] := by
  induction k with
  | zero => simp [beepEvs]
  | succ k ih =>
    simp only [beepEvs, tonesL_append, ih]
    by_cases hk : k = 0
    · simp [hk]
    · simp [hk]

/-! ## sweep -/

def sweepProg (steps i : Int) : K := if steps = 1 then 1 else (i : K) / ((steps : K) - 1)
/-- the unclamped interpolated frequency of step `i` -/
def sweepG (s e : K) (steps i : Int) : K := s + (e - s) * sweepProg steps i
def sweepF (s e : K) (steps i : Int) : K := Buzzer.clamp0 (sweepG s e steps i)
def sweepD (sd : K) : List Ev := if 0 < sd then [.delay (Num.trunc sd)] else []

def sweepEvs (pin : Int) (s e : K) (steps : Int) (sd : K) : Nat → Int → List Ev
  | 0, _ => []
  | k + 1, i => [soundEv pin (sweepF s e steps i)] ++ sweepD sd ++ sweepEvs pin s e steps sd k (i + 1)

def sweepSt (s e : K) (steps : Int) : Nat → Int → Buzzer K → Buzzer K
  | 0, _, b => b
  | k + 1, i, b => sweepSt s e steps k (i + 1) (soundSt b (sweepF s e steps i))

@[simp] theorem sweepSt_pin (s e : K) (steps : Int) (k : Nat) (i : Int) (b : Buzzer K) :
    (sweepSt s e steps k i b).pin = b.pin := by
  induction k generalizing i b with
  | zero => rfl
  | succ k ih => simp [sweepSt, ih]

theorem sweepLoop_eq (s e : K) (steps : Int) (sd : K) (k : Nat) (i : Int) (b : Buzzer K) (acc : List Ev) :
    Buzzer.sweepLoop s e steps sd k i b acc
      = (sweepSt s e steps k i b, acc ++ sweepEvs b.pin s e steps sd k i) := by
  induction k generalizing i b acc with
  | zero => simp [Buzzer.sweepLoop, sweepSt, sweepEvs]
  | succ k ih =>
    have hf : Buzzer.clamp0 (s + (e - s) * (if steps = 1 then (Num.ofInt 1 : K)
        else Num.ofInt i / (Num.ofInt steps - Num.ofInt 1))) = sweepF s e steps i := by
      simp [sweepF, sweepG, sweepProg]
    have hd : (if (fzero : K) < sd then [Ev.delay (Num.trunc sd)] else []) = sweepD sd := by
      simp [sweepD]
    simp only [Buzzer.sweepLoop, hf, hd, sound_eq, ih, soundSt_pin, sweepSt, sweepEvs, List.append_assoc]

@[simp] theorem tonesL_sweepD (sd : K) : tonesL (sweepD sd) = [] := by
  unfold sweepD; split <;> simp
@[simp] theorem pinL_sweepD (sd : K) : pinL (sweepD sd) = [] := by
  unfold sweepD; split <;> simp

theorem tonesL_sweepEvs_pos (pin : Int) (s e : K) (steps : Int) (sd : K) (k : Nat) (i : Int)
    (h : ∀ j : Nat, j < k → 0 < sweepF s e steps (i + j)) :
    tonesL (sweepEvs pin s e steps sd k i)
      = (List.range k).map (fun j : Nat => toneOf (sweepF s e steps (i + (j : Int)))) := by
  induction k generalizing i with
  | zero => simp [sweepEvs]
  | succ k ih =>
    have h0 : 0 < sweepF s e steps i := by simpa using h 0 (Nat.succ_pos _)
    have ih' := ih (i + 1) (fun j hj => by
      have := h (j + 1) (Nat.succ_lt_succ hj)
      have e1 : i + 1 + (j : Int) = i + ((j + 1 : Nat) : Int) := by push_cast; ring
      rw [e1]; exact this)
    simp only [sweepEvs, tonesL_append, ih', soundEv_pos pin h0, tonesL_sweepD, List.range_succ_eq_map,
      List.map_cons, List.map_map]
    simp only [tonesL_cons_tone, tonesL_nil, List.append_nil, List.singleton_append, Nat.cast_zero, add_zero,
      List.cons.injEq, true_and]
    apply List.map_congr_left
    intro j _
    simp only [Function.comp, Nat.cast_succ]
    congr 2; ring

theorem tonesL_sweepEvs_nonpos (pin : Int) (s e : K) (steps : Int) (sd : K) (k : Nat) (i : Int)
    (h : ∀ j : Int, sweepF s e steps j ≤ 0) :
    tonesL (sweepEvs pin s e steps sd k i) = [] := by
  induction k generalizing i with
  | zero => simp [sweepEvs]
  | succ k ih => simp [sweepEvs, ih, soundEv_nonpos pin (h i)]

theorem delaysL_sweepEvs (pin : Int) (s e : K) (steps : Int) (sd : K) (k : Nat) (i : Int) :
    delaysL (sweepEvs pin s e steps sd k i) = if 0 < sd then List.replicate k (Num.trunc sd) else [] := by
  induction k generalizing i with
  | zero => simp [sweepEvs]
  | succ k ih =>
    simp only [sweepEvs, List.singleton_append, delaysL_soundEv, delaysL_append, ih]
    unfold sweepD
    split <;> simp [List.replicate_succ]

/-! ### sweep arithmetic -/

theorem sweepProg_bounds {steps i : Int} (hn : 1 ≤ steps) (h0 : 0 ≤ i) (h1 : i ≤ steps - 1) :
    0 ≤ (sweepProg steps i : K) ∧ (sweepProg steps i : K) ≤ 1 := by
  unfold sweepProg
  split
  · exact ⟨zero_le_one, le_refl _⟩
  · have hpos : (0 : K) < (steps : K) - 1 := by
      have : (1 : Int) < steps := by omega
      have : ((1 : Int) : K) < (steps : K) := Int.cast_lt.mpr this
      push_cast at this; linarith
    have hi0 : (0 : K) ≤ (i : K) := by exact_mod_cast h0
    have hi1 : (i : K) ≤ (steps : K) - 1 := by
      have : ((i : Int) : K) ≤ ((steps - 1 : Int) : K) := Int.cast_le.mpr h1
      push_cast at this; exact this
    exact ⟨div_nonneg hi0 hpos.le, (div_le_one hpos).mpr hi1⟩

theorem sweepProg_mono {steps i j : Int} (hn : 1 ≤ steps) (hij : i ≤ j) :
    (sweepProg steps i : K) ≤ sweepProg steps j := by
  unfold sweepProg
  split
  · exact le_refl _
  · have hpos : (0 : K) < (steps : K) - 1 := by
      have : (1 : Int) < steps := by omega
      have : ((1 : Int) : K) < (steps : K) := Int.cast_lt.mpr this
      push_cast at this; linarith
    have : (i : K) ≤ (j : K) := Int.cast_le.mpr hij
    exact div_le_div_of_nonneg_right this hpos.le

theorem sweepProg_last {steps : Int} (hn : 1 ≤ steps) : (sweepProg steps (steps - 1) : K) = 1 := by
  unfold sweepProg
  split
  · rfl
  · have hne : (steps : K) - 1 ≠ 0 := by
      have : (1 : Int) < steps := by omega
      have : ((1 : Int) : K) < (steps : K) := Int.cast_lt.mpr this
      push_cast at this
      exact ne_of_gt (by linarith)
    push_cast
    exact div_self hne

theorem sweepProg_first {steps : Int} (hn : 1 < steps) : (sweepProg steps 0 : K) = 0 := by
  unfold sweepProg
  rw [if_neg (by omega)]
  simp

theorem sweepG_pos {s e : K} (hs : 0 < s) (he : 0 < e) {steps i : Int} (hn : 1 ≤ steps) (h0 : 0 ≤ i)
    (h1 : i ≤ steps - 1) : 0 < sweepG s e steps i := by
  obtain ⟨hp0, hp1⟩ := sweepProg_bounds (K := K) hn h0 h1
  unfold sweepG
  rcases le_total s e with hse | hes
  · have : 0 ≤ (e - s) * sweepProg steps i := mul_nonneg (by linarith) hp0
    linarith
  · have : (e - s) * 1 ≤ (e - s) * sweepProg steps i :=
      mul_le_mul_of_nonpos_left hp1 (by linarith)
    linarith

theorem sweepF_eq {s e : K} (hs : 0 < s) (he : 0 < e) {steps i : Int} (hn : 1 ≤ steps) (h0 : 0 ≤ i)
    (h1 : i ≤ steps - 1) : sweepF s e steps i = sweepG s e steps i :=
  clamp0_pos (sweepG_pos hs he hn h0 h1)

theorem sweepG_mono_up {s e : K} (hse : s ≤ e) {steps i j : Int} (hn : 1 ≤ steps) (hij : i ≤ j) :
    sweepG s e steps i ≤ sweepG s e steps j := by
  unfold sweepG
  have := mul_le_mul_of_nonneg_left (sweepProg_mono (K := K) hn hij) (sub_nonneg.mpr hse)
  linarith

theorem sweepG_mono_down {s e : K} (hes : e ≤ s) {steps i j : Int} (hn : 1 ≤ steps) (hij : i ≤ j) :
    sweepG s e steps j ≤ sweepG s e steps i := by
  unfold sweepG
  have := mul_le_mul_of_nonpos_left (sweepProg_mono (K := K) hn hij) (sub_nonpos.mpr hes)
  linarith

/-- the tones of a sweep between positive frequencies -/
theorem sweep_tones (pin : Int) {s e : K} (hs : 0 < s) (he : 0 < e) {n : Int} (hn : 1 ≤ n) (sd : K) :
    let ts := tonesL (sweepEvs pin s e n sd n.toNat 0)
    ts.length = n.toNat ∧
    (s ≤ e → List.Pairwise (· ≤ ·) ts) ∧ (e ≤ s → List.Pairwise (· ≥ ·) ts) ∧
    ts.getLast? = some (toneOf e) ∧
    (1 < n → ts.head? = some (toneOf s)) := by
  intro ts
  have hN : ((n.toNat : Nat) : Int) = n := Int.toNat_of_nonneg (by omega)
  have hrange : ∀ j : Nat, j < n.toNat → (0 : Int) ≤ 0 + (j : Int) ∧ 0 + (j : Int) ≤ n - 1 := by
    intro j hj; omega
  have hts : ts = (List.range n.toNat).map (fun j : Nat => toneOf (sweepG s e n (0 + (j : Int)))) := by
    show tonesL _ = _
    rw [tonesL_sweepEvs_pos]
    · apply List.map_congr_left
      intro j hj
      have hj' := List.mem_range.mp hj
      rw [sweepF_eq hs he hn (hrange j hj').1 (hrange j hj').2]
    · intro j hj
      rw [sweepF_eq hs he hn (hrange j hj).1 (hrange j hj).2]
      exact sweepG_pos hs he hn (hrange j hj).1 (hrange j hj).2
  have hpos : 0 < n.toNat := by omega
  refine ⟨by rw [hts]; simp, ?_, ?_, ?_, ?_⟩
  · intro hse
    rw [hts, List.pairwise_map]
    refine List.Pairwise.imp_of_mem ?_ List.pairwise_lt_range
    intro a b ha hb hab
    have ha' := List.mem_range.mp ha
    apply toneOf_mono (sweepG_pos hs he hn (hrange a ha').1 (hrange a ha').2).le
    exact sweepG_mono_up hse hn (by omega)
  · intro hes
    rw [hts, List.pairwise_map]
    refine List.Pairwise.imp_of_mem ?_ List.pairwise_lt_range
    intro a b ha hb hab
    have hb' := List.mem_range.mp hb
    show toneOf _ ≤ toneOf _
    apply toneOf_mono (sweepG_pos hs he hn (hrange b hb').1 (hrange b hb').2).le
    exact sweepG_mono_down hes hn (by omega)
  · rw [hts]
    obtain ⟨m, hm⟩ : ∃ m, n.toNat = m + 1 := ⟨n.toNat - 1, by omega⟩
    rw [hm, List.range_succ, List.map_append, List.map_singleton, List.getLast?_concat]
    have : (0 : Int) + (m : Int) = n - 1 := by omega
    rw [this]
    unfold sweepG
    rw [sweepProg_last hn]
    congr 2; ring
  · intro h1
    rw [hts]
    obtain ⟨m, hm⟩ : ∃ m, n.toNat = m + 1 := ⟨n.toNat - 1, by omega⟩
    rw [hm, List.range_succ_eq_map, List.map_cons, List.head?_cons]
    simp only [Nat.cast_zero, add_zero]
    unfold sweepG
    rw [sweepProg_first h1]
    congr 2; ring

/-- the delays of a sweep never add up to more than the requested duration -/
theorem sweep_delays (pin : Int) (s e : K) {n total : Int} (hn : 1 ≤ n) (ht : 0 ≤ total) (i : Int) :
    (delaysL (sweepEvs pin s e n ((total : K) / (n : K)) n.toNat i)).sum ≤ total := by
  rw [delaysL_sweepEvs]
  split
  · rename_i hsd
    rw [List.sum_replicate, nsmul_eq_mul, trunc_nonneg_eq hsd.le]
    have hN : ((n.toNat : Nat) : Int) = n := Int.toNat_of_nonneg (by omega)
    have hnK : (0 : K) < (n : K) := by exact_mod_cast (by omega : (0 : Int) < n)
    have h1 : ((⌊(total : K) / (n : K)⌋ : Int) : K) ≤ (total : K) / (n : K) := Int.floor_le _
    have h2 : (n : K) * ((⌊(total : K) / (n : K)⌋ : Int) : K) ≤ (total : K) := by
      calc (n : K) * ((⌊(total : K) / (n : K)⌋ : Int) : K) ≤ (n : K) * ((total : K) / (n : K)) :=
            mul_le_mul_of_nonneg_left h1 hnK.le
        _ = (total : K) := by field_simp
    have h3 : ((n * ⌊(total : K) / (n : K)⌋ : Int) : K) ≤ ((total : Int) : K) := by
      push_cast; exact h2
    have := Int.cast_le.mp h3
    rw [hN]
    exact this
  · simpa using ht

/-! ## melody -/

/-- what the score prescribes (same definition as `Props.C16.scoreEvents`) -/
def scoreEvs (pin : Int) (beatMs : K) : List ((Int × Int) × (Int × Int)) → List Ev
  | [] => []
  | ((fn, fd), (bn, bd)) :: rest =>
    let f : K := if fn = 0 then 0 else (fn : K) / (fd : K)
    let dur : K := (bn : K) / (bd : K) * beatMs
    let d : List Ev := if 0 < dur then [.delay ⌊dur⌋] else []
    (if f ≤ 0 then [.noTone pin] ++ d else [.tone pin ⌊f + 1 / 2⌋] ++ d ++ [.noTone pin]) ++ scoreEvs pin beatMs rest

def melSt : List ((Int × Int) × (Int × Int)) → Buzzer K → Buzzer K
  | [], b => b
  | ((fn, fd), _) :: rest, b =>
    let f : K := if fn = 0 then 0 else (fn : K) / (fd : K)
    melSt rest (silentSt (if f ≤ 0 then b else { b with state := true, current := f, last := f }))

theorem melSt_props (notes : List ((Int × Int) × (Int × Int))) (b : Buzzer K) :
    (melSt notes b).pin = b.pin ∧
    (melSt notes b).state = (if notes = [] then b.state else false) ∧
    (melSt notes b).current = (if notes = [] then b.current else 0) := by
  induction notes generalizing b with
  | nil => simp [melSt]
  | cons x rest ih =>
    obtain ⟨⟨fn, fd⟩, ⟨bn, bd⟩⟩ := x
    simp only [melSt, reduceCtorEq, if_false]
    generalize (if fn = 0 then (0 : K) else (fn : K) / (fd : K)) = f
    obtain ⟨h1, h2, h3⟩ := ih (silentSt (if f ≤ 0 then b else { b with state := true, current := f, last := f }))
    refine ⟨?_, ?_, ?_⟩
    · rw [h1, silentSt_pin]; split <;> rfl
    · rw [h2]; split <;> rfl
    · rw [h3]; split <;> rfl

theorem melodyLoop_eq (beatMs : K) (notes : List ((Int × Int) × (Int × Int))) (b : Buzzer K) (acc : List Ev) :
    Buzzer.melodyLoop beatMs notes b acc = (melSt notes b, acc ++ scoreEvs b.pin beatMs notes) := by
  induction notes generalizing b acc with
  | nil => simp [Buzzer.melodyLoop, melSt, scoreEvs]
  | cons x rest ih =>
    obtain ⟨⟨fn, fd⟩, ⟨bn, bd⟩⟩ := x
    simp only [Buzzer.melodyLoop, silence_eq, fzero_eq, lit_eq, ih, melSt, scoreEvs, silentSt_pin]
    have hd : (if 0 < (bn : K) / (bd : K) * beatMs then [Ev.delay (Num.trunc ((bn : K) / (bd : K) * beatMs))] else [])
        = (if 0 < (bn : K) / (bd : K) * beatMs then [Ev.delay ⌊(bn : K) / (bd : K) * beatMs⌋] else []) := by
      split
      · rw [trunc_nonneg_eq (le_of_lt ‹_›)]
      · rfl
    rw [hd]
    generalize (if fn = 0 then (0 : K) else (fn : K) / (fd : K)) = f
    by_cases hf : f ≤ 0
    · simp [hf]
    · rw [toneOf_eq (le_of_lt (not_le.mp hf))]
      simp [hf]

theorem pinL_scoreEvs_getLast (pin : Int) (beatMs : K) (notes : List ((Int × Int) × (Int × Int))) :
    (pinL (scoreEvs pin beatMs notes)).getLast? = if notes = [] then none else some (.noTone pin) := by
  induction notes with
  | nil => simp [scoreEvs]
  | cons x rest ih =>
    obtain ⟨⟨fn, fd⟩, ⟨bn, bd⟩⟩ := x
    simp only [scoreEvs, pinL_append, List.getLast?_append, ih, reduceCtorEq, if_false]
    have hd : pinL (if 0 < (bn : K) / (bd : K) * beatMs then [Ev.delay ⌊(bn : K) / (bd : K) * beatMs⌋] else []) = [] := by
      split <;> simp
    generalize (if fn = 0 then (0 : K) else (fn : K) / (fd : K)) = f
    by_cases hr : rest = []
    · simp only [hr, if_true, Option.none_or]
      by_cases hf : f ≤ 0
      · simp [hf, hd]
      · simp [hf, hd]
    · simp [hr]

theorem lookup_mem {l : List (String × Score)} {a : String} {sc : Score} (h : l.lookup a = some sc) :
    (a, sc) ∈ l := by
  induction l with
  | nil => simp at h
  | cons x xs ih =>
    obtain ⟨k, v⟩ := x
    rw [List.lookup_cons] at h
    split at h
    · rename_i hk
      have : a = k := by simpa using hk
      cases h; subst this
      exact List.mem_cons_self
    · exact List.mem_cons_of_mem _ (ih h)

theorem melodies_notes_ne_nil : ∀ p ∈ melodies, p.2.notes ≠ [] := by decide

theorem melody_notes_ne_nil {name : String} {sc : Score} (h : melodies.lookup name = some sc) : sc.notes ≠ [] :=
  melodies_notes_ne_nil _ (lookup_mem h)

/-! ## the blocks -/

theorem step_playTone_none (b : Buzzer K) (f : Val K) :
    Buzzer.step b (.playTone f none)
      = { st := soundSt b (Buzzer.clamp0 f.toF), evs := [soundEv b.pin (Buzzer.clamp0 f.toF)] } := by
  simp [Buzzer.step, sound_eq]

theorem step_playTone_some (b : Buzzer K) (f d : Val K) (ms : Int) (h : toULong d = some ms) :
    Buzzer.step b (.playTone f (some d))
      = { st := silentSt (soundSt b (Buzzer.clamp0 f.toF)),
          evs := [soundEv b.pin (Buzzer.clamp0 f.toF)] ++ Buzzer.delayIf ms ++
                   (if 0 < Buzzer.clamp0 f.toF then [.noTone b.pin] else []) } := by
  simp [Buzzer.step, sound_eq, h, silentSt]

theorem step_playTone_undef (b : Buzzer K) (f d : Val K) (h : toULong d = none) :
    Buzzer.step b (.playTone f (some d))
      = { st := soundSt b (Buzzer.clamp0 f.toF), evs := [soundEv b.pin (Buzzer.clamp0 f.toF)], defined := false } := by
  simp [Buzzer.step, sound_eq, h]

theorem step_stop (b : Buzzer K) : Buzzer.step b .stop = { st := silentSt b, evs := [.noTone b.pin] } := by
  simp [Buzzer.step, silence_eq]

/-- the frequency a beep uses -/
def beepFreq (b : Buzzer K) (f : Option (Val K)) : K :=
  Buzzer.clamp0 (match f with | some f => f.toF | none => b.last)

theorem step_beep (b : Buzzer K) (f : Option (Val K)) (on off n : Val K) (onMs offMs : Int)
    (hon : toULong on = some onMs) (hoff : toULong off = some offMs) :
    Buzzer.step b (.beep f on off n)
      = { st := beepSt b (beepFreq b f) (toCInt n).toNat,
          evs := beepEvs b.pin (soundEv b.pin (beepFreq b f)) onMs offMs (toCInt n).toNat } := by
  cases f <;> simp [Buzzer.step, hon, hoff, beepLoop_eq, beepFreq]

theorem step_beep_undef (b : Buzzer K) (f : Option (Val K)) (on off n : Val K)
    (h : toULong on = none ∨ toULong off = none) :
    Buzzer.step b (.beep f on off n) = { st := b, evs := [], defined := false } := by
  simp only [Buzzer.step]
  split
  · rename_i h1 h2
    rcases h with h | h
    · rw [h] at h1; cases h1
    · rw [h] at h2; cases h2
  · rfl

/-- the step count a sweep uses -/
def sweepN (n : Val K) : Int := if toCInt n < 1 then 1 else toCInt n

theorem sweepN_pos (n : Val K) : 1 ≤ sweepN n := by
  unfold sweepN; split <;> omega

theorem step_sweep (b : Buzzer K) (s e d n : Val K) (total : Int) (hd : toULong d = some total) :
    Buzzer.step b (.sweep s e d n)
      = { st := silentSt (sweepSt (Buzzer.clamp0 s.toF) (Buzzer.clamp0 e.toF) (sweepN n) (sweepN n).toNat 0 b),
          evs := sweepEvs b.pin (Buzzer.clamp0 s.toF) (Buzzer.clamp0 e.toF) (sweepN n)
                   ((total : K) / ((sweepN n : Int) : K)) (sweepN n).toNat 0 ++ [.noTone b.pin] } := by
  simp [Buzzer.step, hd, sweepLoop_eq, silence_eq, sweepN]

theorem step_sweep_undef (b : Buzzer K) (s e d n : Val K) (hd : toULong d = none) :
    Buzzer.step b (.sweep s e d n) = { st := b, evs := [], defined := false } := by
  simp [Buzzer.step, hd]

/-- the tempo a melody is played at -/
def melTempo (sc : Score) (t : Option (Val K)) : K :=
  let dflt : K := (sc.tempo.1 : K) / (sc.tempo.2 : K)
  let t0 : K := match t with | some v => v.toF | none => dflt
  if t0 ≤ 0 then dflt else t0

theorem step_melody (b : Buzzer K) (name : String) (t : Option (Val K)) (sc : Score)
    (h : melodies.lookup name = some sc) :
    Buzzer.step b (.melody name t)
      = { st := melSt sc.notes b, evs := scoreEvs b.pin (60000 / melTempo sc t) sc.notes } := by
  cases t <;> simp [Buzzer.step, h, melodyLoop_eq, melTempo]

theorem step_melody_unknown (b : Buzzer K) (name : String) (t : Option (Val K))
    (h : melodies.lookup name = none) :
    Buzzer.step b (.melody name t) = { st := b, evs := [] } := by
  simp [Buzzer.step, h]

end Reduino.Lemmas.C16
