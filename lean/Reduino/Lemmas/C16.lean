import Reduino.Lemmas.Field
import Reduino.Fw.Buzzer
/- helper lemmas for Props/C16.lean -/
namespace Reduino.Lemmas.C16
end Reduino.Lemmas.C16
