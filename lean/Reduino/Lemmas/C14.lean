import Reduino.Lang.Libs
import Reduino.Props.C13
/-
  Helper lemmas for C14 (library deps / includes / instances agree).
-/
namespace Reduino.Lemmas.C14
open Reduino.Lang.Libs

/-- in the documented positions every declaration of a library kind is reached by emit() pass 1 -/
theorem any_hoisted (ds : List Decl) (h : Documented ds) (k : Kind) :
    ds.any (fun d => d.kind = k ∧ hoisted d) = (ds.any (·.kind = k) && decide (k ≠ .other)) := by
  rw [Bool.eq_iff_iff]
  simp only [List.any_eq_true, decide_eq_true_eq, Bool.and_eq_true, Bool.decide_and, Bool.decide_eq_true]
  constructor
  · rintro ⟨d, hd, hk, hh⟩
    refine ⟨⟨d, hd, hk⟩, ?_⟩
    rintro rfl
    simp [hoisted, hk] at hh
  · rintro ⟨⟨d, hd, hk⟩, hne⟩
    refine ⟨d, hd, hk, ?_⟩
    have hdoc := h d hd
    rcases d with ⟨kind, pos⟩
    cases kind <;> simp_all [hoisted]

theorem includes_eq_libs (ds : List Decl) (h : Documented ds) : includes ds = libs ds := by
  simp only [includes, libs, order, List.filterMap_cons, List.filterMap_nil, any_hoisted ds h]
  simp

theorem instantiated_eq_includes (ds : List Decl) : instantiated ds = includes ds := rfl

theorem any_kind_iff (ds : List Decl) (k : Kind) :
    ds.any (·.kind = k) = true ↔ ∃ d ∈ ds, d.kind = k := by
  simp [List.any_eq_true]

theorem nodup_aux (f : Kind → Bool) :
    (order.filterMap fun k => if f k then libName k else none).Nodup := by
  simp only [order, List.filterMap_cons, List.filterMap_nil]
  cases f .servo <;> cases f .lcdPar <;> cases f .lcdI2c <;> simp [libName]

theorem libs_nodup (ds : List Decl) : (libs ds).Nodup :=
  nodup_aux fun k => ds.any (·.kind = k)

theorem includes_nodup (ds : List Decl) : (includes ds).Nodup :=
  nodup_aux fun k => ds.any (fun d => d.kind = k ∧ hoisted d)

theorem libs_names (ds : List Decl) :
    ∀ m ∈ libs ds, m = "Servo" ∨ m = "LiquidCrystal" ∨ m = "LiquidCrystal_I2C" := by
  intro m hm
  simp only [libs, order, List.mem_filterMap, List.mem_cons, List.not_mem_nil, or_false] at hm
  rcases hm with ⟨k, hk, hm⟩
  split at hm
  · rcases hk with rfl | rfl | rfl <;> simp [libName] at hm <;> simp [← hm]
  · simp at hm

theorem libName_inj (k k' : Kind) (n : String) (h : libName k = some n) (h' : libName k' = some n) :
    k' = k := by
  cases k <;> cases k' <;> simp only [libName, Option.some.injEq, reduceCtorEq] at h h' ⊢ <;>
    (subst h; revert h'; decide)

theorem mem_libs (ds : List Decl) (k : Kind) (n : String) (hn : libName k = some n) :
    n ∈ libs ds ↔ ∃ d ∈ ds, d.kind = k := by
  rw [← any_kind_iff]
  simp only [libs, order, List.mem_filterMap, List.mem_cons, List.not_mem_nil, or_false]
  constructor
  · rintro ⟨k', hk', hm⟩
    split at hm
    · rename_i hany
      have : k' = k := libName_inj k k' n hn hm
      exact this ▸ hany
    · simp at hm
  · intro hany
    refine ⟨k, ?_, by simp [hany, hn]⟩
    cases k <;> simp_all [libName]

open Reduino.Props.C13 in
theorem wfLib_servo : WfLib "Servo".toList :=
  ⟨⟨by decide, by decide⟩, by decide, by decide, by decide⟩

open Reduino.Props.C13 in
theorem wfLib_lcd : WfLib "LiquidCrystal".toList :=
  ⟨⟨by decide, by decide⟩, by decide, by decide, by decide⟩

open Reduino.Props.C13 in
theorem wfLib_lcdI2c : WfLib "LiquidCrystal_I2C".toList :=
  ⟨⟨by decide, by decide⟩, by decide, by decide, by decide⟩

theorem libs_map_wf (ds : List Decl) :
    ∀ l ∈ (libs ds).map String.toList, Reduino.Props.C13.WfLib l := by
  intro l hl
  rw [List.mem_map] at hl
  rcases hl with ⟨m, hm, rfl⟩
  rcases libs_names ds m hm with rfl | rfl | rfl
  · exact wfLib_servo
  · exact wfLib_lcd
  · exact wfLib_lcdI2c

theorem libs_sublist (ds : List Decl) : (libs ds).Sublist ["Servo", "LiquidCrystal", "LiquidCrystal_I2C"] := by
  have h : (libs ds).Sublist (order.filterMap libName) := by
    unfold libs
    simp only [order, List.filterMap_cons, List.filterMap_nil]
    cases ds.any (·.kind = Kind.servo) <;> cases ds.any (·.kind = Kind.lcdPar) <;>
      cases ds.any (·.kind = Kind.lcdI2c) <;> simp [libName]
  exact h

theorem libs_map_nodup (ds : List Decl) : ((libs ds).map String.toList).Nodup := by
  refine List.Sublist.nodup ((libs_sublist ds).map String.toList) ?_
  decide

end Reduino.Lemmas.C14
