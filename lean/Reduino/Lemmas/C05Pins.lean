import Reduino.Lang.AssemblePins
/- helper lemmas for Props/C05Pins.lean -/
namespace Reduino.Lemmas.C05Pins
open Reduino.Lang.AssemblePins
open Reduino.Lang.Assemble (repeatList)

/-- events that touch a pin or a peripheral -/
def isTouch : Ev → Bool
  | .write _ | .read _ | .poll _ _ | .servoWrite _ | .lcdWrite _ => true
  | _ => false

/-- `c` is a configuration that makes the touch `e` legitimate: OUTPUT before a write, an input mode before a read,
    attach before Servo::write, begin()/init() before an LCD command -/
def configures (c e : Ev) : Bool :=
  match e, c with
  | .write r, .pinMode r' .output => r = r'
  | .read r, .pinMode r' .input => r = r'
  | .read r, .pinMode r' .pullup => r = r'
  | .poll _ r, .pinMode r' .input => r = r'
  | .poll _ r, .pinMode r' .pullup => r = r'
  | .servoWrite r, .attach r' => r = r'
  | .lcdWrite n, .lcdInit n' => n = n'
  | _, _ => false

/-- every touch event of `l` is preceded (in `seen`, or earlier in `l`) by an adequate configuration -/
def Safe : List Ev → List Ev → Prop
  | _, [] => True
  | seen, e :: l => (isTouch e = true → ∃ c ∈ seen, configures c e = true) ∧ Safe (e :: seen) l

def Safe.dec : (seen l : List Ev) → Decidable (Safe seen l)
  | _, [] => isTrue trivial
  | seen, e :: l =>
    have := Safe.dec (e :: seen) l
    by unfold Safe; infer_instance

instance (seen l : List Ev) : Decidable (Safe seen l) := Safe.dec seen l

theorem Safe_mono : ∀ (l s1 s2 : List Ev), (∀ c ∈ s1, c ∈ s2) → Safe s1 l → Safe s2 l
  | [], _, _, _, _ => trivial
  | e :: l, s1, s2, h, ⟨h1, h2⟩ => by
    refine ⟨fun ht => ?_, Safe_mono l (e :: s1) (e :: s2) ?_ h2⟩
    · obtain ⟨c, hc, hcc⟩ := h1 ht
      exact ⟨c, h c hc, hcc⟩
    · intro c hc
      rcases List.mem_cons.1 hc with rfl | hc
      · exact List.mem_cons_self
      · exact List.mem_cons_of_mem _ (h c hc)

theorem Safe_append : ∀ (a b seen : List Ev), Safe seen a → Safe (a ++ seen) b → Safe seen (a ++ b)
  | [], _, _, _, hb => hb
  | e :: a, b, seen, ⟨h1, h2⟩, hb => by
    refine ⟨h1, Safe_append a b (e :: seen) h2 (Safe_mono b _ _ ?_ hb)⟩
    intro c hc
    simp only [List.cons_append, List.mem_cons, List.mem_append] at hc ⊢
    rcases hc with h | h | h <;> simp [h]

theorem Safe_all (l seen : List Ev) (h : ∀ e ∈ l, isTouch e = true → ∃ c ∈ seen, configures c e = true) : Safe seen l := by
  induction l generalizing seen with
  | nil => trivial
  | cons e l ih =>
    refine ⟨h e List.mem_cons_self, ih _ ?_⟩
    intro e' he' ht
    obtain ⟨c, hc, hcc⟩ := h e' (List.mem_cons_of_mem _ he') ht
    exact ⟨c, List.mem_cons_of_mem _ hc, hcc⟩

theorem Safe_split : ∀ (l seen pre post : List Ev) (e : Ev), Safe seen l → l = pre ++ e :: post → isTouch e = true →
    ∃ c, (c ∈ seen ∨ c ∈ pre) ∧ configures c e = true
  | _, seen, [], post, e, hs, hl, ht => by
    subst hl
    obtain ⟨c, hc, hcc⟩ := hs.1 ht
    exact ⟨c, Or.inl hc, hcc⟩
  | _, seen, x :: pre, post, e, hs, hl, ht => by
    subst hl
    obtain ⟨c, hc, hcc⟩ := Safe_split _ (x :: seen) pre post e hs.2 rfl ht
    refine ⟨c, ?_, hcc⟩
    rcases hc with hc | hc
    · rcases List.mem_cons.1 hc with rfl | hc
      · exact Or.inr List.mem_cons_self
      · exact Or.inl hc
    · exact Or.inr (List.mem_cons_of_mem _ hc)

theorem Safe_repeat (l seen : List Ev) (h : Safe seen l) : ∀ N, Safe seen (repeatList l N)
  | 0 => trivial
  | N + 1 => Safe_append l _ seen h (Safe_mono _ _ _ (fun _ hc => List.mem_append_right _ hc) (Safe_repeat l seen h N))


/-! ### what a binding needs before it is used -/

def need : Kind → String → List Nat → List Ev
  | .led, _, [p] => [.pinMode p .output]
  | .rgb, _, [r, g, b] => [.pinMode r .output, .pinMode g .output, .pinMode b .output]
  | .servo, _, [p] => [.attach p]
  | .motor, _, [a, b, e] => [.pinMode a .output, .pinMode b .output, .pinMode e .output]
  | .buzzer, _, [p] => [.pinMode p .output]
  | .button, _, [p] => [.pinMode p .pullup]
  | .buttonIn, _, [p] => [.pinMode p .input]
  | .pot, _, [p] => [.pinMode p .input]
  | .ultra, _, [t, e] => [.pinMode t .output, .pinMode e .input]
  | .lcd, n, _ => [.lcdInit n]
  | _, _, _ => []

def Cfgd (out : List Ev) (k : Kind) (n : String) (ps : List Nat) : Prop := ∀ c ∈ need k n ps, c ∈ out

theorem Cfgd_mono {out out' : List Ev} {k n ps} (h : ∀ c ∈ out, c ∈ out') (hc : Cfgd out k n ps) : Cfgd out' k n ps :=
  fun c hcn => h c (hc c hcn)

theorem use_need (k : Kind) (n : String) (ps : List Nat) :
    ∀ e ∈ useEvents k n ps, ∃ c ∈ need k n ps, configures c e = true := by
  cases k <;> rcases ps with _ | ⟨a, _ | ⟨b, _ | ⟨c, _ | ⟨d, ps⟩⟩⟩⟩ <;> simp [useEvents, need, configures]

theorem use_safe (seen : List Ev) (k : Kind) (n : String) (ps : List Nat) (h : Cfgd seen k n ps) :
    Safe seen (useEvents k n ps) :=
  Safe_all _ _ fun e he _ => by
    obtain ⟨c, hc, hcc⟩ := use_need k n ps e he
    exact ⟨c, h c hc, hcc⟩

theorem poll_safe (seen : List Ev) (n : String) (pin : Nat) (h : Cfgd seen .button n [pin]) : Safe seen [.poll n pin] :=
  ⟨fun _ => ⟨.pinMode pin .pullup, h _ (by simp [need]), by simp [configures]⟩, trivial⟩

/-! ### the dedup sets -/

def KInv (s : St) (out : List Ev) : Prop := ∀ k ∈ s.keys, k.ev ∈ out

def OnlyPm (l : List Ev) : Prop := ∀ e ∈ l, ∃ p m, e = Ev.pinMode p m

theorem ensure_spec (key : Key) (s : St) (out : List Ev) (hK : KInv s out) :
    KInv (ensure key s).1 (out ++ (ensure key s).2) ∧ key.ev ∈ out ++ (ensure key s).2 ∧
      (ensure key s).1.env = s.env ∧ OnlyPm (ensure key s).2 := by
  unfold ensure
  by_cases h : key ∈ s.keys
  · rw [if_pos h]
    simp only [List.append_nil]
    exact ⟨hK, hK _ h, trivial, fun _ he => by cases he⟩
  · rw [if_neg h]
    refine ⟨?_, by simp, rfl, ?_⟩
    · intro k hk
      rcases List.mem_cons.1 hk with rfl | hk
      · exact List.mem_append_right _ List.mem_cons_self
      · exact List.mem_append_left _ (hK _ hk)
    · intro e he
      simp at he
      exact ⟨_, _, he⟩

theorem ensureAll_spec : ∀ (ks : List Key) (s : St) (out : List Ev), KInv s out →
    KInv (ensureAll ks s).1 (out ++ (ensureAll ks s).2) ∧ (∀ key ∈ ks, key.ev ∈ out ++ (ensureAll ks s).2) ∧
      (ensureAll ks s).1.env = s.env ∧ OnlyPm (ensureAll ks s).2
  | [], s, out, hK => by simpa [ensureAll, OnlyPm] using hK
  | k :: ks, s, out, hK => by
    obtain ⟨h1, h2, h3, h4⟩ := ensure_spec k s out hK
    obtain ⟨g1, g2, g3, g4⟩ := ensureAll_spec ks (ensure k s).1 (out ++ (ensure k s).2) h1
    simp only [ensureAll]
    refine ⟨by simpa [List.append_assoc] using g1, ?_, g3.trans h3, ?_⟩
    · intro key hkey
      rcases List.mem_cons.1 hkey with rfl | hkey
      · rcases List.mem_append.1 h2 with h | h
        · exact List.mem_append_left _ h
        · exact List.mem_append_right _ (List.mem_append_left _ h)
      · simpa [List.append_assoc] using g2 key hkey
    · intro e he
      rcases List.mem_append.1 he with he | he
      · exact h4 e he
      · exact g4 e he

theorem OnlyPm_safe (seen l : List Ev) (h : OnlyPm l) : Safe seen l :=
  Safe_all l seen fun e he ht => by
    obtain ⟨p, m, rfl⟩ := h e he
    cases ht


/-! ### environment -/

theorem get_set (env : Env) (n : String) (k : Kind) (ps : List Nat) (n' : String) (k' : Kind) :
    get (set env n k ps) n' k' = if n = n' ∧ k = k' then some ps else get env n' k' := rfl

theorem get_setDefault (env : Env) (n : String) (k : Kind) (ps : List Nat) (n' : String) (k' : Kind) :
    get (setDefault env n k ps) n' k' =
      if n = n' ∧ k = k' then (match get env n k with | some q => some q | none => some ps) else get env n' k' := by
  unfold setDefault
  cases h : get env n k with
  | some q =>
    by_cases hh : n = n' ∧ k = k'
    · obtain ⟨rfl, rfl⟩ := hh
      simp [h]
    · simp [hh]
  | none => simp [get_set]

theorem get_set_ne (env : Env) (n : String) (k : Kind) (ps : List Nat) (n' : String) (k' : Kind) (h : k ≠ k') :
    get (set env n k ps) n' k' = get env n' k' := by
  rw [get_set, if_neg (fun hh => h hh.2)]

theorem get_setDefault_ne (env : Env) (n : String) (k : Kind) (ps : List Nat) (n' : String) (k' : Kind) (h : k ≠ k') :
    get (setDefault env n k ps) n' k' = get env n' k' := by
  rw [get_setDefault, if_neg (fun hh => h hh.2)]

/-! ### induction over a pass -/

theorem foldEv_induct {σ : Type} (f : σ → Item → σ × List Ev) (P : σ → List Ev → List Item → Prop) (all : List Item)
    (step : ∀ s out done i rest, all = done ++ i :: rest → P s out done → P (f s i).1 (out ++ (f s i).2) (done ++ [i])) :
    ∀ (rest done : List Item) (s : σ) (out : List Ev), all = done ++ rest → P s out done →
      P (foldEv f s rest).1 (out ++ (foldEv f s rest).2) all
  | [], done, s, out, hall, h => by
    simp only [List.append_nil] at hall
    subst hall
    simpa [foldEv] using h
  | i :: rest, done, s, out, hall, h => by
    have h1 := step s out done i rest hall h
    have h2 := foldEv_induct f P all step rest (done ++ [i]) (f s i).1 (out ++ (f s i).2) (by simpa using hall) h1
    simpa [foldEv, List.append_assoc] using h2


/-! ### pass 1 -/

def ByName (k : Kind) : Prop := k = .servo ∨ k = .lcd ∨ k = .button ∨ k = .buttonIn

/-- the two Button kinds (mode INPUT_PULLUP / INPUT) -/
def IsB (k : Kind) : Prop := k = .button ∨ k = .buttonIn

theorem IsB.byName {k : Kind} (h : IsB k) : ByName k := Or.inr (Or.inr h)

/-- Servo / LCD / Button entries are configured when they are created -/
def AInv (env : Env) (out : List Ev) : Prop := ∀ n k ps, ByName k → get env n k = some ps → Cfgd out k n ps

theorem AInv_frame {env env' : Env} {out out' : List Ev} (hout : ∀ c ∈ out, c ∈ out')
    (henv : ∀ n k ps, ByName k → get env' n k = some ps → get env n k = some ps ∨ Cfgd out' k n ps)
    (h : AInv env out) : AInv env' out' := by
  intro n k ps hk hg
  rcases henv n k ps hk hg with h' | h'
  · exact Cfgd_mono hout (h n k ps hk h')
  · exact h'

theorem lcdBring_safe (seen : List Ev) (n : String) (ps : List Nat) : Safe seen (lcdBring n ps) := by
  unfold lcdBring
  split <;> simp [Safe, isTouch, configures]

theorem safeStop_safe (seen : List Ev) (a b e : Nat) (ha : Ev.pinMode a .output ∈ seen) (hb : Ev.pinMode b .output ∈ seen)
    (he : Ev.pinMode e .output ∈ seen) : Safe seen (safeStop [a, b, e]) := by
  apply Safe_all
  intro x hx _
  simp [safeStop] at hx
  rcases hx with rfl | rfl | rfl
  · exact ⟨_, ha, by simp [configures]⟩
  · exact ⟨_, hb, by simp [configures]⟩
  · exact ⟨_, he, by simp [configures]⟩

theorem mem_app_l {α : Type} {a : α} {l1 l2 : List α} (h : a ∈ l1) : a ∈ l1 ++ l2 := List.mem_append_left _ h

structure Inv1 (setup : List Item) (s : St) (out : List Ev) (done : List Item) : Prop where
  K : KInv s out
  A : AInv s.env out
  safe : Safe [] out
  prov : ∀ bk n ps, IsB bk → get s.env n bk = some ps → Item.decl bk n ps ∈ setup
  pot : ∀ n ps, Item.decl .pot n ps ∈ done → Cfgd out .pot n ps

theorem KInv_mono {s : St} {out out' : List Ev} (h : ∀ c ∈ out, c ∈ out') (hK : KInv s out) : KInv s out' :=
  fun k hk => h _ (hK k hk)

theorem KInv_withEnv (s : St) (env : Env) (out : List Ev) : KInv (withEnv s env) out ↔ KInv s out := Iff.rfl

theorem mem_oa {c : Ev} {out a : List Ev} (b : List Ev) (hc : c ∈ out ++ a) : c ∈ out ++ (a ++ b) := by
  rw [← List.append_assoc]; exact List.mem_append_left _ hc

theorem mem_swap {c : Ev} {a b : List Ev} (hc : c ∈ a ++ b) : c ∈ b ++ a := by
  rcases List.mem_append.1 hc with h | h
  · exact List.mem_append_right _ h
  · exact List.mem_append_left _ h

theorem touch_safe (seen : List Ev) (e c : Ev) (hc : c ∈ seen) (hcc : configures c e = true) : Safe seen [e] :=
  ⟨fun _ => ⟨c, hc, hcc⟩, trivial⟩

theorem Inv1_step {setup : List Item} {s : St} {out : List Ev} {done : List Item} (h : Inv1 setup s out done)
    (s' : St) (evs : List Ev) (i : Item)
    (hK : KInv s' (out ++ evs))
    (henv : ∀ n k ps, ByName k → get s'.env n k = some ps → get s.env n k = some ps ∨ Cfgd (out ++ evs) k n ps)
    (hsafe : Safe out evs)
    (hprov : ∀ bk n ps, IsB bk → get s'.env n bk = some ps → get s.env n bk = some ps ∨ Item.decl bk n ps ∈ setup)
    (hpot : ∀ n ps, i = Item.decl .pot n ps → Cfgd (out ++ evs) .pot n ps) :
    Inv1 setup s' (out ++ evs) (done ++ [i]) := by
  refine ⟨hK, AInv_frame (fun c hc => mem_app_l hc) henv h.A, Safe_append _ _ _ h.safe (Safe_mono _ _ _ (fun c hc => mem_app_l hc) hsafe), ?_, ?_⟩
  · intro bk n ps hb hg
    rcases hprov bk n ps hb hg with h' | h'
    · exact h.prov bk n ps hb h'
    · exact h'
  · intro n ps hm
    rcases List.mem_append.1 hm with hm | hm
    · exact Cfgd_mono (fun c hc => mem_app_l hc) (h.pot n ps hm)
    · exact hpot n ps (List.mem_singleton.1 hm).symm

theorem notByName_frame {s0 : St} {env : Env} {n : String} {K : Kind} {ps : List Nat} (hK : ¬ ByName K) :
    ∀ n' k' ps', ByName k' → get (withEnv s0 (set env n K ps)).env n' k' = some ps' → get env n' k' = some ps' := by
  intro n' k' ps' hk hg
  simp only [withEnv] at hg
  rw [get_set_ne _ _ _ _ _ _ (fun hh => hK (by rw [hh]; exact hk))] at hg
  exact hg

theorem notByName_frame' {s0 : St} {env : Env} {n : String} {K : Kind} {ps : List Nat} (hK : ¬ ByName K) :
    ∀ n' k' ps', ByName k' → get (withEnv s0 (setDefault env n K ps)).env n' k' = some ps' → get env n' k' = some ps' := by
  intro n' k' ps' hk hg
  simp only [withEnv] at hg
  rw [get_setDefault_ne _ _ _ _ _ _ (fun hh => hK (by rw [hh]; exact hk))] at hg
  exact hg

theorem p1Setup_step (setup : List Item)
    (hside : ∀ bk n ps ps', IsB bk → Item.decl bk n ps ∈ setup → Item.decl bk n ps' ∈ setup → ps = ps')
    (s : St) (out : List Ev) (done : List Item) (k : Kind) (n : String) (ps : List Nat) (hmem : Item.decl k n ps ∈ setup)
    (h : Inv1 setup s out done) :
    Inv1 setup (p1Setup s k n ps).1 (out ++ (p1Setup s k n ps).2) (done ++ [.decl k n ps]) := by
  have hK := h.K
  unfold p1Setup
  split <;> try dsimp only
  · -- button
    rename_i p
    split
    · rename_i q hq
      have hq' : q = [p] := hside .button n q [p] (Or.inl rfl) (h.prov .button n q (Or.inl rfl) hq) hmem
      subst hq'
      refine Inv1_step h _ _ _ ((KInv_withEnv _ _ _).2 (by simpa using hK)) ?_ trivial ?_ (fun _ _ hh => by cases hh)
      · intro n' k' ps' hk hg
        simp only [withEnv, get_set] at hg
        split at hg
        · rename_i hh
          obtain ⟨rfl, rfl⟩ := hh
          cases hg
          exact Or.inl hq
        · exact Or.inl hg
      · intro bk n' ps' hbk hg
        simp only [withEnv, get_set] at hg
        split at hg
        · rename_i hh
          obtain ⟨rfl, rfl⟩ := hh
          cases hg
          exact Or.inr hmem
        · exact Or.inl hg
    · obtain ⟨e1, e2, e3, e4⟩ := ensure_spec ⟨n, p, .button⟩ s out hK
      have ev : Ev.pinMode p .pullup ∈ out ++ (ensure ⟨n, p, .button⟩ s).2 := e2
      refine Inv1_step h _ _ _ ((KInv_withEnv _ _ _).2 (KInv_mono (fun c hc => mem_oa _ hc) e1)) ?_ ?_ ?_ (fun _ _ hh => by cases hh)
      · intro n' k' ps' hk hg
        simp only [withEnv, get_set] at hg
        split at hg
        · rename_i hh
          obtain ⟨rfl, rfl⟩ := hh
          cases hg
          refine Or.inr fun c hc => ?_
          simp only [need, List.mem_singleton] at hc
          subst hc
          exact mem_oa _ ev
        · exact Or.inl hg
      · exact Safe_append _ _ _ (OnlyPm_safe _ _ e4) (touch_safe _ _ _ (mem_swap ev) (by simp [configures]))
      · intro bk n' ps' hbk hg
        simp only [withEnv, get_set] at hg
        split at hg
        · rename_i hh
          obtain ⟨rfl, rfl⟩ := hh
          cases hg
          exact Or.inr hmem
        · exact Or.inl hg
  · -- buttonIn
    rename_i p
    split
    · rename_i q hq
      have hq' : q = [p] := hside .buttonIn n q [p] (Or.inr rfl) (h.prov .buttonIn n q (Or.inr rfl) hq) hmem
      subst hq'
      refine Inv1_step h _ _ _ ((KInv_withEnv _ _ _).2 (by simpa using hK)) ?_ trivial ?_ (fun _ _ hh => by cases hh)
      · intro n' k' ps' hk hg
        simp only [withEnv, get_set] at hg
        split at hg
        · rename_i hh
          obtain ⟨rfl, rfl⟩ := hh
          cases hg
          exact Or.inl hq
        · exact Or.inl hg
      · intro bk n' ps' hbk hg
        simp only [withEnv, get_set] at hg
        split at hg
        · rename_i hh
          obtain ⟨rfl, rfl⟩ := hh
          cases hg
          exact Or.inr hmem
        · exact Or.inl hg
    · obtain ⟨e1, e2, e3, e4⟩ := ensure_spec ⟨n, p, .buttonIn⟩ s out hK
      have ev : Ev.pinMode p .input ∈ out ++ (ensure ⟨n, p, .buttonIn⟩ s).2 := e2
      refine Inv1_step h _ _ _ ((KInv_withEnv _ _ _).2 (KInv_mono (fun c hc => mem_oa _ hc) e1)) ?_ ?_ ?_ (fun _ _ hh => by cases hh)
      · intro n' k' ps' hk hg
        simp only [withEnv, get_set] at hg
        split at hg
        · rename_i hh
          obtain ⟨rfl, rfl⟩ := hh
          cases hg
          refine Or.inr fun c hc => ?_
          simp only [need, List.mem_singleton] at hc
          subst hc
          exact mem_oa _ ev
        · exact Or.inl hg
      · exact Safe_append _ _ _ (OnlyPm_safe _ _ e4) (touch_safe _ _ _ (mem_swap ev) (by simp [configures]))
      · intro bk n' ps' hbk hg
        simp only [withEnv, get_set] at hg
        split at hg
        · rename_i hh
          obtain ⟨rfl, rfl⟩ := hh
          cases hg
          exact Or.inr hmem
        · exact Or.inl hg
  · -- servo
    rename_i p
    split
    · exact Inv1_step h _ _ _ (by simpa using hK) (fun _ _ _ _ hg => Or.inl hg) trivial (fun _ _ _ _ hg => Or.inl hg) (fun _ _ hh => by cases hh)
    · refine Inv1_step h _ _ _ ((KInv_withEnv _ _ _).2 (KInv_mono (fun c hc => mem_app_l hc) hK)) ?_ (by simp [Safe, isTouch]) ?_ (fun _ _ hh => by cases hh)
      · intro n' k' ps' hk hg
        simp only [withEnv, get_set] at hg
        split at hg
        · rename_i hh
          obtain ⟨rfl, rfl⟩ := hh
          cases hg
          refine Or.inr fun c hc => ?_
          simp only [need, List.mem_singleton] at hc
          subst hc
          simp
        · exact Or.inl hg
      · intro bk n' ps' hbk hg
        simp only [withEnv, get_set] at hg
        split at hg
        · rename_i hh
          obtain ⟨-, rfl⟩ := hh
          rcases hbk with h | h <;> cases h
        · exact Or.inl hg
  · -- motor
    rename_i a b e
    obtain ⟨e1, e2, e3, e4⟩ := ensureAll_spec [⟨n, a, .in1⟩, ⟨n, b, .in2⟩, ⟨n, e, .enable⟩] s out hK
    have ha : Ev.pinMode a .output ∈ out ++ _ := e2 ⟨n, a, .in1⟩ (by simp)
    have hb : Ev.pinMode b .output ∈ out ++ _ := e2 ⟨n, b, .in2⟩ (by simp)
    have he : Ev.pinMode e .output ∈ out ++ _ := e2 ⟨n, e, .enable⟩ (by simp)
    refine Inv1_step h _ _ _ ((KInv_withEnv _ _ _).2 (KInv_mono (fun c hc => mem_oa _ hc) e1)) ?_ ?_ ?_ (fun _ _ hh => by cases hh)
    · exact fun n' k' ps' hk hg => Or.inl (notByName_frame (K := .motor) (by unfold ByName; simp) n' k' ps' hk hg)
    · exact Safe_append _ _ _ (OnlyPm_safe _ _ e4) (safeStop_safe _ _ _ _ (mem_swap ha) (mem_swap hb) (mem_swap he))
    · exact fun bk n' ps' hbk hg => Or.inl (notByName_frame (K := .motor) (by unfold ByName; simp) n' bk ps' hbk.byName hg)
  · -- lcd
    split
    · exact Inv1_step h _ _ _ (by simpa using hK) (fun _ _ _ _ hg => Or.inl hg) trivial (fun _ _ _ _ hg => Or.inl hg) (fun _ _ hh => by cases hh)
    · refine Inv1_step h _ _ _ ((KInv_withEnv _ _ _).2 (KInv_mono (fun c hc => mem_app_l hc) hK)) ?_ (lcdBring_safe _ _ _) ?_ (fun _ _ hh => by cases hh)
      · intro n' k' ps' hk hg
        simp only [withEnv, get_set] at hg
        split at hg
        · rename_i hh
          obtain ⟨rfl, rfl⟩ := hh
          cases hg
          refine Or.inr fun c hc => ?_
          simp only [need, List.mem_singleton] at hc
          subst hc
          simp [lcdBring]
        · exact Or.inl hg
      · intro bk n' ps' hbk hg
        simp only [withEnv, get_set] at hg
        split at hg
        · rename_i hh
          obtain ⟨-, rfl⟩ := hh
          rcases hbk with h | h <;> cases h
        · exact Or.inl hg
  · -- led
    exact Inv1_step h _ _ _ ((KInv_withEnv _ _ _).2 (by simpa using hK)) (fun n' k' ps' hk hg => Or.inl (notByName_frame (K := .led) (by unfold ByName; simp) n' k' ps' hk hg)) trivial
      (fun bk n' ps' hbk hg => Or.inl (notByName_frame (K := .led) (by unfold ByName; simp) n' bk ps' hbk.byName hg)) (fun _ _ hh => by cases hh)
  · -- buzzer
    rename_i p
    obtain ⟨e1, e2, e3, e4⟩ := ensure_spec ⟨n, p, .out⟩ s out hK
    exact Inv1_step h _ _ _ ((KInv_withEnv _ _ _).2 e1) (fun n' k' ps' hk hg => Or.inl (notByName_frame (K := .buzzer) (by unfold ByName; simp) n' k' ps' hk hg)) (OnlyPm_safe _ _ e4)
      (fun bk n' ps' hbk hg => Or.inl (notByName_frame (K := .buzzer) (by unfold ByName; simp) n' bk ps' hbk.byName hg)) (fun _ _ hh => by cases hh)
  · -- rgb
    exact Inv1_step h _ _ _ ((KInv_withEnv _ _ _).2 (by simpa using hK)) (fun n' k' ps' hk hg => Or.inl (notByName_frame (K := .rgb) (by unfold ByName; simp) n' k' ps' hk hg)) trivial
      (fun bk n' ps' hbk hg => Or.inl (notByName_frame (K := .rgb) (by unfold ByName; simp) n' bk ps' hbk.byName hg)) (fun _ _ hh => by cases hh)
  · -- ultra
    exact Inv1_step h _ _ _ ((KInv_withEnv _ _ _).2 (by simpa using hK)) (fun n' k' ps' hk hg => Or.inl (notByName_frame (K := .ultra) (by unfold ByName; simp) n' k' ps' hk hg)) trivial
      (fun bk n' ps' hbk hg => Or.inl (notByName_frame (K := .ultra) (by unfold ByName; simp) n' bk ps' hbk.byName hg)) (fun _ _ hh => by cases hh)
  · -- pot
    rename_i p
    obtain ⟨e1, e2, e3, e4⟩ := ensure_spec ⟨n, p, .inp⟩ s out hK
    refine Inv1_step h _ _ _ ((KInv_withEnv _ _ _).2 e1) (fun n' k' ps' hk hg => Or.inl (notByName_frame (K := .pot) (by unfold ByName; simp) n' k' ps' hk hg)) (OnlyPm_safe _ _ e4)
      (fun bk n' ps' hbk hg => Or.inl (notByName_frame (K := .pot) (by unfold ByName; simp) n' bk ps' hbk.byName hg)) ?_
    intro n' ps' hh c hc
    cases hh
    simp only [need, List.mem_singleton] at hc
    subst hc
    exact e2
  · -- anything else: not seen by pass 1
    refine Inv1_step h _ _ _ (by simpa using hK) (fun _ _ _ _ hg => Or.inl hg) trivial (fun _ _ _ _ hg => Or.inl hg) ?_
    intro n' ps' hh c hc
    cases hh
    unfold need at hc
    split at hc <;> simp_all

def Hoisted (k : Kind) : Prop := k = .led ∨ k = .rgb ∨ k = .motor ∨ k = .ultra ∨ k = .pot ∨ k = .button

structure Inv1L (s : St) (out : List Ev) (done : List Item) : Prop where
  K : KInv s out
  A : AInv s.env out
  safe : Safe [] out
  hoist : ∀ k n ps, Item.decl k n ps ∈ done → Hoisted k → Cfgd out k n ps

theorem Inv1L_step {s : St} {out : List Ev} {done : List Item} (h : Inv1L s out done)
    (s' : St) (evs : List Ev) (i : Item)
    (hK : KInv s' (out ++ evs))
    (henv : ∀ n k ps, ByName k → get s'.env n k = some ps → get s.env n k = some ps ∨ Cfgd (out ++ evs) k n ps)
    (hsafe : Safe out evs)
    (hh : ∀ k n ps, i = Item.decl k n ps → Hoisted k → Cfgd (out ++ evs) k n ps) :
    Inv1L s' (out ++ evs) (done ++ [i]) := by
  refine ⟨hK, AInv_frame (fun c hc => mem_app_l hc) henv h.A, Safe_append _ _ _ h.safe (Safe_mono _ _ _ (fun c hc => mem_app_l hc) hsafe), ?_⟩
  intro k n ps hm hk
  rcases List.mem_append.1 hm with hm | hm
  · exact Cfgd_mono (fun c hc => mem_app_l hc) (h.hoist k n ps hm hk)
  · exact hh k n ps (List.mem_singleton.1 hm).symm hk

theorem p1Loop_step (s : St) (out : List Ev) (done : List Item) (k : Kind) (n : String) (ps : List Nat)
    (h : Inv1L s out done) :
    Inv1L (p1Loop s k n ps).1 (out ++ (p1Loop s k n ps).2) (done ++ [.decl k n ps]) := by
  have hK := h.K
  unfold p1Loop
  split <;> try dsimp only
  · -- button
    rename_i p
    obtain ⟨e1, e2, e3, e4⟩ := ensure_spec ⟨n, p, .button⟩ s out hK
    have ev : Ev.pinMode p .pullup ∈ out ++ (ensure ⟨n, p, .button⟩ s).2 := e2
    refine Inv1L_step h _ _ _ ((KInv_withEnv _ _ _).2 (KInv_mono (fun c hc => mem_oa _ hc) e1)) ?_ ?_ ?_
    · intro n' k' ps' hk hg
      simp only [withEnv, get_set] at hg
      split at hg
      · rename_i hh
        obtain ⟨rfl, rfl⟩ := hh
        cases hg
        refine Or.inr fun c hc => ?_
        simp only [need, List.mem_singleton] at hc
        subst hc
        exact mem_oa _ ev
      · exact Or.inl hg
    · refine Safe_append _ _ _ (OnlyPm_safe _ _ e4) ?_
      split
      · trivial
      · exact touch_safe _ _ _ (mem_swap ev) (by simp [configures])
    · intro k' n' ps' hh _ c hc
      cases hh
      simp only [need, List.mem_singleton] at hc
      subst hc
      exact mem_oa _ ev
  · -- buttonIn
    rename_i p
    obtain ⟨e1, e2, e3, e4⟩ := ensure_spec ⟨n, p, .buttonIn⟩ s out hK
    have ev : Ev.pinMode p .input ∈ out ++ (ensure ⟨n, p, .buttonIn⟩ s).2 := e2
    refine Inv1L_step h _ _ _ ((KInv_withEnv _ _ _).2 (KInv_mono (fun c hc => mem_oa _ hc) e1)) ?_ ?_ ?_
    · intro n' k' ps' hk hg
      simp only [withEnv, get_set] at hg
      split at hg
      · rename_i hh
        obtain ⟨rfl, rfl⟩ := hh
        cases hg
        refine Or.inr fun c hc => ?_
        simp only [need, List.mem_singleton] at hc
        subst hc
        exact mem_oa _ ev
      · exact Or.inl hg
    · refine Safe_append _ _ _ (OnlyPm_safe _ _ e4) ?_
      split
      · trivial
      · exact touch_safe _ _ _ (mem_swap ev) (by simp [configures])
    · intro k' n' ps' hh hk
      cases hh
      rcases hk with h | h | h | h | h | h <;> cases h
  · -- servo
    rename_i p
    split
    · exact Inv1L_step h _ _ _ (by simpa using hK) (fun _ _ _ _ hg => Or.inl hg) trivial
        (fun _ _ _ hh hk => by cases hh; rcases hk with h | h | h | h | h | h <;> cases h)
    · refine Inv1L_step h _ _ _ ((KInv_withEnv _ _ _).2 (KInv_mono (fun c hc => mem_app_l hc) hK)) ?_ (by simp [Safe, isTouch])
        (fun _ _ _ hh hk => by cases hh; rcases hk with h | h | h | h | h | h <;> cases h)
      intro n' k' ps' hk hg
      simp only [withEnv, get_set] at hg
      split at hg
      · rename_i hh
        obtain ⟨rfl, rfl⟩ := hh
        cases hg
        refine Or.inr fun c hc => ?_
        simp only [need, List.mem_singleton] at hc
        subst hc
        simp
      · exact Or.inl hg
  · -- motor
    rename_i a b e
    obtain ⟨e1, e2, e3, e4⟩ := ensureAll_spec [⟨n, a, .in1⟩, ⟨n, b, .in2⟩, ⟨n, e, .enable⟩] s out hK
    have ha : Ev.pinMode a .output ∈ out ++ _ := e2 ⟨n, a, .in1⟩ (by simp)
    have hb : Ev.pinMode b .output ∈ out ++ _ := e2 ⟨n, b, .in2⟩ (by simp)
    have he : Ev.pinMode e .output ∈ out ++ _ := e2 ⟨n, e, .enable⟩ (by simp)
    refine Inv1L_step h _ _ _ ((KInv_withEnv _ _ _).2 (KInv_mono (fun c hc => mem_oa _ hc) e1))
      (fun n' k' ps' hk hg => Or.inl (notByName_frame' (K := .motor) (by unfold ByName; simp) n' k' ps' hk hg)) ?_ ?_
    · exact Safe_append _ _ _ (OnlyPm_safe _ _ e4) (safeStop_safe _ _ _ _ (mem_swap ha) (mem_swap hb) (mem_swap he))
    · intro k' n' ps' hh _ c hc
      cases hh
      simp only [need, List.mem_cons, List.not_mem_nil, or_false] at hc
      rcases hc with rfl | rfl | rfl
      · exact mem_oa _ ha
      · exact mem_oa _ hb
      · exact mem_oa _ he
  · -- led
    rename_i p
    refine Inv1L_step h _ _ _ ((KInv_withEnv _ _ _).2 (KInv_mono (fun c hc => mem_app_l hc) hK))
      (fun n' k' ps' hk hg => Or.inl (notByName_frame' (K := .led) (by unfold ByName; simp) n' k' ps' hk hg)) (by simp [Safe, isTouch]) ?_
    intro k' n' ps' hh _ c hc
    cases hh
    simp only [need, List.mem_singleton] at hc
    subst hc
    simp
  · -- rgb
    rename_i r g b
    obtain ⟨e1, e2, e3, e4⟩ := ensureAll_spec [⟨n, r, .idx 0⟩, ⟨n, g, .idx 1⟩, ⟨n, b, .idx 2⟩] s out hK
    have hr : Ev.pinMode r .output ∈ out ++ _ := e2 ⟨n, r, .idx 0⟩ (by simp)
    have hg' : Ev.pinMode g .output ∈ out ++ _ := e2 ⟨n, g, .idx 1⟩ (by simp)
    have hb : Ev.pinMode b .output ∈ out ++ _ := e2 ⟨n, b, .idx 2⟩ (by simp)
    refine Inv1L_step h _ _ _ ((KInv_withEnv _ _ _).2 e1)
      (fun n' k' ps' hk hg => Or.inl (notByName_frame' (K := .rgb) (by unfold ByName; simp) n' k' ps' hk hg)) (OnlyPm_safe _ _ e4) ?_
    intro k' n' ps' hh _ c hc
    cases hh
    simp only [need, List.mem_cons, List.not_mem_nil, or_false] at hc
    rcases hc with rfl | rfl | rfl
    · exact hr
    · exact hg'
    · exact hb
  · -- ultra
    rename_i t e
    obtain ⟨e1, e2, e3, e4⟩ := ensureAll_spec [⟨n, t, .uLoopOut⟩, ⟨n, e, .uLoopIn⟩] s out hK
    have ht : Ev.pinMode t .output ∈ out ++ _ := e2 ⟨n, t, .uLoopOut⟩ (by simp)
    have he : Ev.pinMode e .input ∈ out ++ _ := e2 ⟨n, e, .uLoopIn⟩ (by simp)
    refine Inv1L_step h _ _ _ ((KInv_withEnv _ _ _).2 e1)
      (fun n' k' ps' hk hg => Or.inl (notByName_frame' (K := .ultra) (by unfold ByName; simp) n' k' ps' hk hg)) (OnlyPm_safe _ _ e4) ?_
    intro k' n' ps' hh _ c hc
    cases hh
    simp only [need, List.mem_cons, List.not_mem_nil, or_false] at hc
    rcases hc with rfl | rfl
    · exact ht
    · exact he
  · -- pot
    rename_i p
    obtain ⟨e1, e2, e3, e4⟩ := ensure_spec ⟨n, p, .inp⟩ s out hK
    refine Inv1L_step h _ _ _ ((KInv_withEnv _ _ _).2 e1)
      (fun n' k' ps' hk hg => Or.inl (notByName_frame' (K := .pot) (by unfold ByName; simp) n' k' ps' hk hg)) (OnlyPm_safe _ _ e4) ?_
    intro k' n' ps' hh _ c hc
    cases hh
    simp only [need, List.mem_singleton] at hc
    subst hc
    exact e2
  · -- anything else
    refine Inv1L_step h _ _ _ (by simpa using hK) (fun _ _ _ _ hg => Or.inl hg) trivial ?_
    intro k' n' ps' hh hk c hc
    cases hh
    unfold need at hc
    unfold Hoisted at hk
    split at hc <;> simp_all


theorem kindOf_cons (cur : List (String × Kind)) (n : String) (k : Kind) (n' : String) :
    kindOf ((n, k) :: cur) n' = if n = n' then some k else kindOf cur n' := rfl

theorem get_set_name_ne (env : Env) (n : String) (k : Kind) (ps : List Nat) (n' : String) (k' : Kind) (h : n ≠ n') :
    get (set env n k ps) n' k' = get env n' k' := by
  rw [get_set, if_neg (fun hh => h hh.1)]

/-- pin arity of each constructor -/
def wf : Kind → List Nat → Bool
  | .led, [_] | .servo, [_] | .buzzer, [_] | .button, [_] | .buttonIn, [_] | .pot, [_] => true
  | .rgb, [_, _, _] | .motor, [_, _, _] => true
  | .ultra, [_, _] => true
  | .lcd, _ | .serial, _ => true
  | _, _ => false

structure Inv2 (p : Prog) (w : W) (out : List Ev) (done : List Item) : Prop where
  K : KInv w.st out
  A : AInv w.st.env out
  safe : Safe [] out
  E : ∀ n k ps, kindOf w.cur n = some k → k ≠ .ultra → get w.st.env n k = some ps → Cfgd out k n ps
  U : ∀ n ps, Item.decl .ultra n ps ∈ done → Cfgd out .ultra n ps
  pot : ∀ n ps, Item.decl .pot n ps ∈ p.setup → Cfgd out .pot n ps
  hoist : ∀ k n ps, Item.decl k n ps ∈ p.loop → Hoisted k → Cfgd out k n ps

/-- events that configure nothing and touch nothing keep everything -/
theorem Inv2_grow {p : Prog} {w : W} {out : List Ev} {done : List Item} (h : Inv2 p w out done) (evs : List Ev) (i : Item)
    (hsafe : Safe out evs) (hi : ∀ n ps, i ≠ Item.decl .ultra n ps) : Inv2 p w (out ++ evs) (done ++ [i]) := by
  have hm : ∀ c ∈ out, c ∈ out ++ evs := fun c hc => mem_app_l hc
  refine ⟨KInv_mono hm h.K, AInv_frame hm (fun _ _ _ _ hg => Or.inl hg) h.A,
    Safe_append _ _ _ h.safe (Safe_mono _ _ _ (fun c hc => mem_app_l hc) hsafe), fun n k ps h1 h2 h3 => Cfgd_mono hm (h.E n k ps h1 h2 h3), ?_,
    fun n ps h1 => Cfgd_mono hm (h.pot n ps h1), fun k n ps h1 h2 => Cfgd_mono hm (h.hoist k n ps h1 h2)⟩
  intro n ps hmem
  rcases List.mem_append.1 hmem with hmem | hmem
  · exact Cfgd_mono hm (h.U n ps hmem)
  · exact absurd (List.mem_singleton.1 hmem).symm (hi n ps)

theorem useOf_safe (p : Prog) (w : W) (out : List Ev) (done : List Item) (n : String) (h : Inv2 p w out done)
    (hu : ∀ ps, lastUltra (p.setup ++ p.loop) n = some ps → Item.decl .ultra n ps ∈ done ∨ Item.decl .ultra n ps ∈ p.loop) :
    Safe out (useOf (lastUltra (p.setup ++ p.loop)) w n) := by
  unfold useOf
  split
  · split
    · rename_i ps hps
      apply use_safe
      rcases hu ps hps with hd | hl
      · exact h.U n ps hd
      · exact h.hoist _ n ps hl (by unfold Hoisted; simp)
    · trivial
  · rename_i k hne hk
    split
    · rename_i ps hps
      exact use_safe _ _ _ _ (h.E n k ps hk hne hps)
    · trivial
  · trivial


theorem Inv2_decl {p : Prog} {w : W} {out : List Ev} {done : List Item} (h : Inv2 p w out done)
    (k : Kind) (n : String) (ps : List Nat) (s' : St) (evs : List Ev)
    (hK : KInv s' (out ++ evs))
    (hA : ∀ n' k' ps', ByName k' → get s'.env n' k' = some ps' → get w.st.env n' k' = some ps')
    (hsafe : Safe out evs)
    (hE : ∀ ps', k ≠ .ultra → get s'.env n k = some ps' → Cfgd (out ++ evs) k n ps')
    (hframe : ∀ n' k' ps', n ≠ n' → get s'.env n' k' = some ps' → get w.st.env n' k' = some ps')
    (hU : k = .ultra → Cfgd (out ++ evs) .ultra n ps) :
    Inv2 p ⟨s', (n, k) :: w.cur⟩ (out ++ evs) (done ++ [.decl k n ps]) := by
  have hm : ∀ c ∈ out, c ∈ out ++ evs := fun c hc => mem_app_l hc
  refine ⟨hK, AInv_frame hm (fun n' k' ps' hk hg => Or.inl (hA n' k' ps' hk hg)) h.A,
    Safe_append _ _ _ h.safe (Safe_mono _ _ _ (fun c hc => mem_app_l hc) hsafe), ?_, ?_,
    fun n ps h1 => Cfgd_mono hm (h.pot n ps h1), fun k n ps h1 h2 => Cfgd_mono hm (h.hoist k n ps h1 h2)⟩
  · intro n' k' ps' hk' hne hg
    rw [kindOf_cons] at hk'
    by_cases hn : n = n'
    · subst hn
      rw [if_pos rfl] at hk'
      cases hk'
      exact hE ps' hne hg
    · rw [if_neg hn] at hk'
      exact Cfgd_mono hm (h.E n' k' ps' hk' hne (hframe n' k' ps' hn hg))
  · intro n' ps' hmem
    rcases List.mem_append.1 hmem with hmem | hmem
    · exact Cfgd_mono hm (h.U n' ps' hmem)
    · cases List.mem_singleton.1 hmem
      exact hU rfl

theorem frame_set {s0 : St} {env : Env} {n : String} {K : Kind} {ps : List Nat} :
    ∀ n' k' ps', n ≠ n' → get (withEnv s0 (set env n K ps)).env n' k' = some ps' → get env n' k' = some ps' := by
  intro n' k' ps' hn hg
  simp only [withEnv] at hg
  rwa [get_set_name_ne _ _ _ _ _ _ hn] at hg

theorem hit_set {s0 : St} {env : Env} {n : String} {K : Kind} {ps ps' : List Nat}
    (hg : get (withEnv s0 (set env n K ps)).env n K = some ps') : ps' = ps := by
  simp only [withEnv, get_set, and_self, if_true] at hg
  exact (Option.some.inj hg).symm

theorem p2Setup_step (p : Prog) (w : W) (out : List Ev) (done : List Item) (k : Kind) (n : String) (ps : List Nat)
    (hmem : Item.decl k n ps ∈ p.setup) (hwf : wf k ps = true) (h : Inv2 p w out done) :
    Inv2 p ⟨(p2Setup w.st k n ps).1, (n, k) :: w.cur⟩ (out ++ (p2Setup w.st k n ps).2) (done ++ [.decl k n ps]) := by
  have hK := h.K
  unfold p2Setup
  split <;> try dsimp only
  · -- led
    rename_i q
    obtain ⟨e1, e2, e3, e4⟩ := ensure_spec ⟨n, q, .led⟩ w.st out hK
    refine Inv2_decl h _ _ _ _ _ ((KInv_withEnv _ _ _).2 e1) (notByName_frame (K := .led) (by unfold ByName; simp)) (OnlyPm_safe _ _ e4)
      ?_ frame_set (fun hh => by cases hh)
    intro ps' _ hg c hc
    cases hit_set hg
    simp only [need, List.mem_singleton] at hc
    subst hc
    exact e2
  · -- buzzer
    rename_i q
    obtain ⟨e1, e2, e3, e4⟩ := ensure_spec ⟨n, q, .out⟩ w.st out hK
    refine Inv2_decl h _ _ _ _ _ ((KInv_withEnv _ _ _).2 e1) (notByName_frame (K := .buzzer) (by unfold ByName; simp)) (OnlyPm_safe _ _ e4)
      ?_ frame_set (fun hh => by cases hh)
    intro ps' _ hg c hc
    cases hit_set hg
    simp only [need, List.mem_singleton] at hc
    subst hc
    exact e2
  · -- rgb
    rename_i r g b
    obtain ⟨e1, e2, e3, e4⟩ := ensureAll_spec [⟨n, r, .idx 0⟩, ⟨n, g, .idx 1⟩, ⟨n, b, .idx 2⟩] w.st out hK
    have hr : Ev.pinMode r .output ∈ out ++ _ := e2 ⟨n, r, .idx 0⟩ (by simp)
    have hg' : Ev.pinMode g .output ∈ out ++ _ := e2 ⟨n, g, .idx 1⟩ (by simp)
    have hb : Ev.pinMode b .output ∈ out ++ _ := e2 ⟨n, b, .idx 2⟩ (by simp)
    refine Inv2_decl h _ _ _ _ _ ((KInv_withEnv _ _ _).2 e1) (notByName_frame (K := .rgb) (by unfold ByName; simp)) (OnlyPm_safe _ _ e4)
      ?_ frame_set (fun hh => by cases hh)
    intro ps' _ hg c hc
    cases hit_set hg
    simp only [need, List.mem_cons, List.not_mem_nil, or_false] at hc
    rcases hc with rfl | rfl | rfl
    · exact hr
    · exact hg'
    · exact hb
  · -- ultra
    rename_i t e
    obtain ⟨e1, e2, e3, e4⟩ := ensureAll_spec [⟨n, t, .uSetupOut⟩, ⟨n, e, .uSetupIn⟩] w.st out hK
    have ht : Ev.pinMode t .output ∈ out ++ _ := e2 ⟨n, t, .uSetupOut⟩ (by simp)
    have he : Ev.pinMode e .input ∈ out ++ _ := e2 ⟨n, e, .uSetupIn⟩ (by simp)
    refine Inv2_decl h _ _ _ _ _ ((KInv_withEnv _ _ _).2 e1) (notByName_frame (K := .ultra) (by unfold ByName; simp)) (OnlyPm_safe _ _ e4)
      (fun _ hne => absurd rfl hne) frame_set ?_
    intro _ c hc
    simp only [need, List.mem_cons, List.not_mem_nil, or_false] at hc
    rcases hc with rfl | rfl
    · exact ht
    · exact he
  · -- motor
    rename_i a b e
    obtain ⟨e1, e2, e3, e4⟩ := ensureAll_spec [⟨n, a, .in1⟩, ⟨n, b, .in2⟩, ⟨n, e, .enable⟩] w.st out hK
    have ha : Ev.pinMode a .output ∈ out ++ _ := e2 ⟨n, a, .in1⟩ (by simp)
    have hb : Ev.pinMode b .output ∈ out ++ _ := e2 ⟨n, b, .in2⟩ (by simp)
    have he : Ev.pinMode e .output ∈ out ++ _ := e2 ⟨n, e, .enable⟩ (by simp)
    refine Inv2_decl h _ _ _ _ _ ((KInv_withEnv _ _ _).2 (KInv_mono (fun c hc => mem_oa _ hc) e1))
      (notByName_frame (K := .motor) (by unfold ByName; simp))
      (Safe_append _ _ _ (OnlyPm_safe _ _ e4) (safeStop_safe _ _ _ _ (mem_swap ha) (mem_swap hb) (mem_swap he)))
      ?_ frame_set (fun hh => by cases hh)
    intro ps' _ hg c hc
    cases hit_set hg
    simp only [need, List.mem_cons, List.not_mem_nil, or_false] at hc
    rcases hc with rfl | rfl | rfl
    · exact mem_oa _ ha
    · exact mem_oa _ hb
    · exact mem_oa _ he
  · -- pot
    rename_i q
    refine Inv2_decl h _ _ _ _ _ ((KInv_withEnv _ _ _).2 (by simpa using hK)) (notByName_frame (K := .pot) (by unfold ByName; simp)) trivial
      ?_ frame_set (fun hh => by cases hh)
    intro ps' _ hg
    cases hit_set hg
    exact Cfgd_mono (fun c hc => mem_app_l hc) (h.pot n _ hmem)
  · -- serial
    refine Inv2_decl h _ _ _ _ _ (KInv_mono (fun c hc => mem_app_l hc) hK) (fun _ _ _ _ hg => hg) (by simp [Safe, isTouch])
      ?_ (fun _ _ _ _ hg => hg) (fun hh => by cases hh)
    intro ps' _ _ c hc
    simp [need] at hc
  · -- Button, Servo, LCD
    refine Inv2_decl h _ _ _ _ _ (by simpa using hK) (fun _ _ _ _ hg => hg) trivial ?_ (fun _ _ _ _ hg => hg) ?_
    · intro ps' _ hg
      simp only [List.append_nil]
      have hb : ByName k := by
        unfold ByName
        cases k <;> rcases ps with _ | ⟨a, _ | ⟨b, _ | ⟨c, _ | ⟨d, ps⟩⟩⟩⟩ <;> simp_all [wf]
      exact h.A n k ps' hb hg
    · intro hk
      subst hk
      rcases ps with _ | ⟨a, _ | ⟨b, _ | ⟨c, ps⟩⟩⟩ <;> simp_all [wf]


/-! ### pass 2 over the loop body: nothing is configured any more, `SE` = everything setup() did -/

def LoopKind (k : Kind) : Prop := k = .led ∨ k = .rgb ∨ k = .servo ∨ k = .motor ∨ k = .button ∨ k = .pot ∨ k = .ultra ∨ k = .buttonIn

structure Inv3 (SE : List Ev) (w : W) (out : List Ev) : Prop where
  A : AInv w.st.env SE
  safe : Safe SE out
  E : ∀ n k ps, kindOf w.cur n = some k → k ≠ .ultra → get w.st.env n k = some ps → Cfgd SE k n ps

theorem useOf_safe3 (p : Prog) (SE : List Ev) (w : W) (out : List Ev) (n : String) (h : Inv3 SE w out)
    (hU : ∀ n ps, Item.decl .ultra n ps ∈ p.setup → Cfgd SE .ultra n ps)
    (hoist : ∀ k n ps, Item.decl k n ps ∈ p.loop → Hoisted k → Cfgd SE k n ps)
    (hu : ∀ ps, lastUltra (p.setup ++ p.loop) n = some ps → Item.decl .ultra n ps ∈ p.setup ∨ Item.decl .ultra n ps ∈ p.loop) :
    Safe SE (useOf (lastUltra (p.setup ++ p.loop)) w n) := by
  unfold useOf
  split
  · split
    · rename_i ps hps
      apply use_safe
      rcases hu ps hps with hd | hl
      · exact hU n ps hd
      · exact hoist _ n ps hl (by unfold Hoisted; simp)
    · trivial
  · rename_i k hne hk
    split
    · rename_i ps hps
      exact use_safe _ _ _ _ (h.E n k ps hk hne hps)
    · trivial
  · trivial

theorem Inv3_grow {SE : List Ev} {w : W} {out : List Ev} (h : Inv3 SE w out) (evs : List Ev) (hs : Safe SE evs) :
    Inv3 SE w (out ++ evs) :=
  ⟨h.A, Safe_append _ _ _ h.safe (Safe_mono _ _ _ (fun c hc => List.mem_append_right _ hc) hs), h.E⟩

theorem Inv3_set {SE : List Ev} {w : W} {out : List Ev} (h : Inv3 SE w out) (k : Kind) (n : String) (ps : List Nat)
    (hk : ¬ ByName k) (hc : k ≠ .ultra → Cfgd SE k n ps) :
    Inv3 SE ⟨withEnv w.st (set w.st.env n k ps), (n, k) :: w.cur⟩ (out ++ []) := by
  refine ⟨AInv_frame (fun _ hc => hc) (fun n' k' ps' hk' hg => Or.inl (notByName_frame hk n' k' ps' hk' hg)) h.A,
    by simpa using h.safe, ?_⟩
  intro n' k' ps' hk' hne hg
  rw [kindOf_cons] at hk'
  by_cases hn : n = n'
  · subst hn
    rw [if_pos rfl] at hk'
    cases hk'
    cases hit_set hg
    exact hc hne
  · rw [if_neg hn] at hk'
    exact h.E n' k' ps' hk' hne (frame_set n' k' ps' hn hg)

theorem p2Loop_step (p : Prog) (SE : List Ev) (w : W) (out : List Ev) (k : Kind) (n : String) (ps : List Nat)
    (hmem : Item.decl k n ps ∈ p.loop) (hwf : wf k ps = true) (hlk : LoopKind k)
    (hoist : ∀ k n ps, Item.decl k n ps ∈ p.loop → Hoisted k → Cfgd SE k n ps)
    (h : Inv3 SE w out) :
    Inv3 SE ⟨(p2Loop w.st k n ps).1, (n, k) :: w.cur⟩ (out ++ (p2Loop w.st k n ps).2) := by
  unfold p2Loop
  split <;> try dsimp only
  · exact Inv3_set h _ _ _ (by unfold ByName; simp) (fun _ => hoist _ _ _ hmem (by unfold Hoisted; simp))
  · exact absurd hlk (by unfold LoopKind; simp)
  · exact Inv3_set h _ _ _ (by unfold ByName; simp) (fun _ => hoist _ _ _ hmem (by unfold Hoisted; simp))
  · exact Inv3_set h _ _ _ (by unfold ByName; simp) (fun _ => hoist _ _ _ hmem (by unfold Hoisted; simp))
  · exact Inv3_set h _ _ _ (by unfold ByName; simp) (fun hne => absurd rfl hne)
  · exact Inv3_set h _ _ _ (by unfold ByName; simp) (fun _ => hoist _ _ _ hmem (by unfold Hoisted; simp))
  · exact absurd hlk (by unfold LoopKind; simp)
  · exact absurd hlk (by unfold LoopKind; simp)
  · -- Button, Servo: the entry pass 1 made stays
    refine ⟨h.A, by simpa using h.safe, ?_⟩
    intro n' k' ps' hk' hne hg
    rw [kindOf_cons] at hk'
    by_cases hn : n = n'
    · subst hn
      rw [if_pos rfl] at hk'
      cases hk'
      have hb : ByName k := by
        unfold ByName
        unfold LoopKind at hlk
        cases k <;> rcases ps with _ | ⟨a, _ | ⟨b, _ | ⟨c, _ | ⟨d, ps⟩⟩⟩⟩ <;> simp_all [wf]
      exact h.A n k ps' hb hg
    · rw [if_neg hn] at hk'
      exact h.E n' k' ps' hk' hne hg


theorem animOf_sub (w : W) (n : String) : ∀ e ∈ animOf w n, e = Ev.animStart n := by
  intro e he
  unfold animOf at he
  split at he
  · split at he
    · simpa using he
    · cases he
  · cases he

/-- starting an animation touches no pin (the display was begun when its entry was created) -/
theorem animOf_safe (seen : List Ev) (w : W) (n : String) : Safe seen (animOf w n) :=
  Safe_all _ _ fun e he ht => by
    rw [animOf_sub w n e he] at ht
    cases ht

theorem lastUltra_mem : ∀ (l : List Item) (n : String) (ps : List Nat), lastUltra l n = some ps → Item.decl .ultra n ps ∈ l := by
  intro l
  induction l with
  | nil => intro n ps h; cases h
  | cons i l ih =>
    intro n ps h
    have tl : lastUltra l n = some ps → Item.decl .ultra n ps ∈ i :: l := fun hh => List.mem_cons_of_mem _ (ih n ps hh)
    rcases i with ⟨k, n', qs⟩ | n' | t | m
    · cases k <;> try exact tl (by simpa [lastUltra] using h)
      rcases qs with _ | ⟨t, _ | ⟨e, _ | ⟨x, qs⟩⟩⟩ <;> try exact tl (by simpa [lastUltra] using h)
      simp only [lastUltra] at h
      cases hq : lastUltra l n with
      | some q =>
        rw [hq] at h
        cases h
        exact tl hq
      | none =>
        rw [hq] at h
        dsimp only at h
        split at h
        · rename_i hn
          cases h
          subst hn
          exact List.mem_cons_self
        · cases h
    · exact tl (by simpa [lastUltra] using h)
    · exact tl (by simpa [lastUltra] using h)
    · exact tl (by simpa [lastUltra] using h)

/-- the side conditions, as propositions -/
structure Doc (p : Prog) : Prop where
  wfAll : ∀ k n ps, Item.decl k n ps ∈ p.setup ++ p.loop → wf k ps = true
  loopKinds : ∀ k n ps, Item.decl k n ps ∈ p.loop → LoopKind k
  buttons : ∀ bk n ps ps', IsB bk → Item.decl bk n ps ∈ p.setup → Item.decl bk n ps' ∈ p.setup → ps = ps'
  ultra : ∀ done n rest, p.setup = done ++ Item.use n :: rest → ∀ ps, lastUltra (p.setup ++ p.loop) n = some ps →
    Item.decl .ultra n ps ∈ done ∨ Item.decl .ultra n ps ∈ p.loop

theorem pass1S_inv (p : Prog) (hb : ∀ bk n ps ps', IsB bk → Item.decl bk n ps ∈ p.setup → Item.decl bk n ps' ∈ p.setup → ps = ps') :
    Inv1 p.setup (pass1S p).1 (pass1S p).2 p.setup := by
  have := foldEv_induct p1SetupItem (fun s out done => Inv1 p.setup s out done) p.setup ?_ p.setup [] ⟨[], []⟩ [] rfl
    ⟨(fun _ hk => by cases hk), (fun _ _ _ _ hg => by cases hg), trivial, (fun _ _ _ _ hg => by cases hg), (fun _ _ hm => by cases hm)⟩
  · simpa [pass1S] using this
  · intro s out done i rest hall h
    cases i with
    | decl k n ps => exact p1Setup_step p.setup hb s out done k n ps (by rw [hall]; simp) h
    | use n => exact Inv1_step h s [] _ (by simpa using h.K) (fun _ _ _ _ hg => Or.inl hg) trivial (fun _ _ _ _ hg => Or.inl hg) (fun _ _ hh => by cases hh)
    | stmt t => exact Inv1_step h s [] _ (by simpa using h.K) (fun _ _ _ _ hg => Or.inl hg) trivial (fun _ _ _ _ hg => Or.inl hg) (fun _ _ hh => by cases hh)
    | animate m => exact Inv1_step h s [] _ (by simpa using h.K) (fun _ _ _ _ hg => Or.inl hg) trivial (fun _ _ _ _ hg => Or.inl hg) (fun _ _ hh => by cases hh)

theorem pass1L_inv (p : Prog) (hb : ∀ bk n ps ps', IsB bk → Item.decl bk n ps ∈ p.setup → Item.decl bk n ps' ∈ p.setup → ps = ps') :
    Inv1L (pass1L p).1 ((pass1S p).2 ++ (pass1L p).2) p.loop := by
  have h1 := pass1S_inv p hb
  have := foldEv_induct p1LoopItem (fun s out done => Inv1L s out done) p.loop ?_ p.loop [] (pass1S p).1 (pass1S p).2 rfl
    ⟨h1.K, h1.A, h1.safe, (fun _ _ _ hm => by cases hm)⟩
  · simpa [pass1L] using this
  · intro s out done i rest hall h
    cases i with
    | decl k n ps => exact p1Loop_step s out done k n ps h
    | use n => exact Inv1L_step h s [] _ (by simpa using h.K) (fun _ _ _ _ hg => Or.inl hg) trivial (fun _ _ _ hh => by cases hh)
    | stmt t => exact Inv1L_step h s [] _ (by simpa using h.K) (fun _ _ _ _ hg => Or.inl hg) trivial (fun _ _ _ hh => by cases hh)
    | animate m => exact Inv1L_step h s [] _ (by simpa using h.K) (fun _ _ _ _ hg => Or.inl hg) trivial (fun _ _ _ hh => by cases hh)

theorem pass2S_inv (p : Prog) (hd : Doc p) :
    Inv2 p (pass2S p).1 (((pass1S p).2 ++ (pass1L p).2) ++ (pass2S p).2) p.setup := by
  have h1 := pass1S_inv p hd.buttons
  have hL := pass1L_inv p hd.buttons
  have hm : ∀ c ∈ (pass1S p).2, c ∈ (pass1S p).2 ++ (pass1L p).2 := fun c hc => mem_app_l hc
  have := foldEv_induct (stepSetup (lastUltra (p.setup ++ p.loop))) (fun w out done => Inv2 p w out done) p.setup ?_ p.setup []
    ⟨(pass1L p).1, []⟩ ((pass1S p).2 ++ (pass1L p).2) rfl
    ⟨hL.K, hL.A, hL.safe, (fun _ _ _ hk => by cases hk), (fun _ _ hm => by cases hm),
      (fun n ps hmem => Cfgd_mono hm (h1.pot n ps hmem)), hL.hoist⟩
  · simpa [pass2S] using this
  · intro w out done i rest hall h
    cases i with
    | decl k n ps =>
      exact p2Setup_step p w out done k n ps (by rw [hall]; simp) (hd.wfAll k n ps (by rw [hall]; simp)) h
    | use n => exact Inv2_grow h _ _ (useOf_safe p w out done n h (hd.ultra done n rest hall)) (fun _ _ hh => by cases hh)
    | stmt t => exact Inv2_grow h _ _ (show Safe out [Ev.stmt t] from ⟨(fun hh => by cases hh), trivial⟩) (fun _ _ hh => by cases hh)
    | animate m => exact Inv2_grow h _ _ (animOf_safe out w m) (fun _ _ hh => by cases hh)


theorem setupEvents_eq (p : Prog) : setupEvents p = ((pass1S p).2 ++ (pass1L p).2) ++ (pass2S p).2 := rfl

theorem pass2L_inv (p : Prog) (hd : Doc p) : Inv3 (setupEvents p) (pass2L p).1 (pass2L p).2 := by
  have h2 := pass2S_inv p hd
  rw [← setupEvents_eq] at h2
  have hU : ∀ n ps, Item.decl .ultra n ps ∈ p.setup → Cfgd (setupEvents p) .ultra n ps := h2.U
  have := foldEv_induct (stepLoop (lastUltra (p.setup ++ p.loop))) (fun w out _ => Inv3 (setupEvents p) w out) p.loop ?_ p.loop []
    (pass2S p).1 [] rfl ⟨h2.A, trivial, h2.E⟩
  · simpa [pass2L] using this
  · intro w out done i rest hall h
    cases i with
    | decl k n ps =>
      exact p2Loop_step p _ w out k n ps (by rw [hall]; simp) (hd.wfAll k n ps (by rw [hall]; simp))
        (hd.loopKinds k n ps (by rw [hall]; simp)) h2.hoist h
    | use n =>
      refine Inv3_grow h _ (useOf_safe3 p _ w out n h hU h2.hoist ?_)
      intro ps hps
      exact List.mem_append.1 (lastUltra_mem _ _ _ hps)
    | stmt t => exact Inv3_grow h _ (show Safe _ [Ev.stmt t] from ⟨(fun hh => by cases hh), trivial⟩)
    | animate m => exact Inv3_grow h _ (animOf_safe _ w m)

theorem pollOf_cases (env : Env) (n : String) (e : Ev) (h : pollOf env n = some e) :
    ∃ pin, e = .poll n pin ∧ (get env n .button = some [pin] ∨ get env n .buttonIn = some [pin]) := by
  unfold pollOf at h
  split at h
  · rename_i pin hg
    cases h
    exact ⟨pin, rfl, Or.inl hg⟩
  · split at h
    · rename_i pin hg
      cases h
      exact ⟨pin, rfl, Or.inr hg⟩
    · cases h

theorem mem_polls (p : Prog) (e : Ev) (he : e ∈ polls p) :
    ∃ n pin, e = .poll n pin ∧ (get (pass1L p).1.env n .button = some [pin] ∨ get (pass1L p).1.env n .buttonIn = some [pin]) := by
  unfold polls at he
  obtain ⟨n, _, hn⟩ := List.mem_filterMap.1 he
  obtain ⟨pin, h1, h2⟩ := pollOf_cases _ _ _ hn
  exact ⟨n, pin, h1, h2⟩

theorem polls_safe (p : Prog) (hd : Doc p) : Safe (setupEvents p) (polls p) := by
  have hL := pass1L_inv p hd.buttons
  apply Safe_all
  intro e he _
  obtain ⟨n, pin, rfl, hg | hg⟩ := mem_polls p e he
  · refine ⟨.pinMode pin .pullup, ?_, by simp [configures]⟩
    rw [setupEvents_eq]
    exact mem_app_l (hL.A n .button [pin] (Or.inr (Or.inr (Or.inl rfl))) hg _ (by simp [need]))
  · refine ⟨.pinMode pin .input, ?_, by simp [configures]⟩
    rw [setupEvents_eq]
    exact mem_app_l (hL.A n .buttonIn [pin] (Or.inr (Or.inr (Or.inr rfl))) hg _ (by simp [need]))

theorem mem_ticks' (p : Prog) (e : Ev) (he : e ∈ ticks p) :
    ∃ n, e = .tick n ∧ n ∈ sortUniq (animNames (p.setup ++ p.loop)) ∧ 0 < startedInSetup p n := by
  unfold ticks at he
  obtain ⟨n, hn, hr⟩ := List.mem_flatMap.1 he
  obtain ⟨h0, rfl⟩ := List.mem_replicate.1 hr
  exact ⟨n, rfl, hn, Nat.pos_of_ne_zero h0⟩

theorem mem_ticks (p : Prog) (e : Ev) (he : e ∈ ticks p) : ∃ n, e = .tick n := by
  obtain ⟨n, h, _⟩ := mem_ticks' p e he
  exact ⟨n, h⟩

theorem ticks_safe (p : Prog) (seen : List Ev) : Safe seen (ticks p) :=
  Safe_all _ _ fun e he ht => by
    obtain ⟨n, rfl⟩ := mem_ticks p e he
    cases ht

/-- the whole run is safe: every touch is preceded by an adequate configuration -/
theorem run_safe (p : Prog) (hd : Doc p) (N : Nat) : Safe [] (run p N) := by
  have h2 := pass2S_inv p hd
  rw [← setupEvents_eq] at h2
  have h3 := pass2L_inv p hd
  unfold run
  refine Safe_append _ _ _ h2.safe (Safe_mono _ _ _ (fun c hc => mem_app_l hc) (Safe_repeat _ _ ?_ N))
  unfold loopEvents
  exact Safe_append _ _ _ (polls_safe p hd) (Safe_append _ _ _ (ticks_safe p _) (Safe_mono _ _ _ (fun c hc => List.mem_append_right _ (List.mem_append_right _ hc)) h3.safe))


/-! ### the side condition as a decidable check -/

def loopKindB : Kind → Bool
  | .led | .rgb | .servo | .motor | .button | .buttonIn | .pot | .ultra => true
  | _ => false

def wfAllB (p : Prog) : Bool := (p.setup ++ p.loop).all fun i => match i with | .decl k _ ps => wf k ps | _ => true

def loopKindsB (p : Prog) : Bool := p.loop.all fun i => match i with | .decl k _ _ => loopKindB k | _ => true

def buttonsB (p : Prog) : Bool :=
  p.setup.all fun i => p.setup.all fun j =>
    match i, j with
    | .decl .button n ps, .decl .button n' ps' => decide (n = n' → ps = ps')
    | .decl .buttonIn n ps, .decl .buttonIn n' ps' => decide (n = n' → ps = ps')
    | _, _ => true

def ultraGo (p : Prog) : List Item → List Item → Bool
  | _, [] => true
  | done, .use n :: rest =>
    (match lastUltra (p.setup ++ p.loop) n with
      | some ps => decide (Item.decl .ultra n ps ∈ done ∨ Item.decl .ultra n ps ∈ p.loop)
      | none => true) && ultraGo p (done ++ [.use n]) rest
  | done, i :: rest => ultraGo p (done ++ [i]) rest

def documentedPins (p : Prog) : Bool := wfAllB p && loopKindsB p && buttonsB p && ultraGo p [] p.setup

theorem ultraGo_spec (p : Prog) : ∀ (l d : List Item), ultraGo p d l = true → ∀ done n rest, l = done ++ Item.use n :: rest →
    ∀ ps, lastUltra (p.setup ++ p.loop) n = some ps → Item.decl .ultra n ps ∈ d ++ done ∨ Item.decl .ultra n ps ∈ p.loop := by
  intro l
  induction l with
  | nil => intro d _ done n rest h; cases done <;> cases h
  | cons i l ih =>
    intro d hgo done n rest hl ps hps
    rcases done with _ | ⟨x, done⟩
    · simp only [List.nil_append, List.cons.injEq] at hl
      obtain ⟨rfl, rfl⟩ := hl
      simp only [ultraGo, hps, Bool.and_eq_true, decide_eq_true_eq] at hgo
      simpa using hgo.1
    · simp only [List.cons_append, List.cons.injEq] at hl
      obtain ⟨hx, hl'⟩ := hl
      subst hx
      subst hl'
      have hgo' : ultraGo p (d ++ [i]) (done ++ Item.use n :: rest) = true := by
        cases i <;> simp_all [ultraGo]
      have := ih (d ++ [i]) hgo' done n rest rfl ps hps
      simpa [List.append_assoc] using this

theorem doc_of_bool (p : Prog) (h : documentedPins p = true) : Doc p := by
  simp only [documentedPins, Bool.and_eq_true] at h
  obtain ⟨⟨⟨h1, h2⟩, h3⟩, h4⟩ := h
  refine ⟨?_, ?_, ?_, ?_⟩
  · intro k n ps hm
    exact (List.all_eq_true.1 h1) _ hm
  · intro k n ps hm
    have := (List.all_eq_true.1 h2) _ hm
    unfold LoopKind
    cases k <;> simp_all [loopKindB]
  · intro bk n ps ps' hbk hm hm'
    have := (List.all_eq_true.1 ((List.all_eq_true.1 h3) _ hm)) _ hm'
    rcases hbk with rfl | rfl <;> simpa using this
  · intro done n rest hl ps hps
    simpa using ultraGo_spec p p.setup [] h4 done n rest hl ps hps


/-! ### where pinMode events come from -/

/-- the pinMode lines a declaration can give rise to -/
def pmOf : Kind → List Nat → List Ev
  | .led, [p] => [.pinMode p .output]
  | .rgb, [r, g, b] => [.pinMode r .output, .pinMode g .output, .pinMode b .output]
  | .motor, [a, b, e] => [.pinMode a .output, .pinMode b .output, .pinMode e .output]
  | .buzzer, [p] => [.pinMode p .output]
  | .button, [p] => [.pinMode p .pullup]
  | .buttonIn, [p] => [.pinMode p .input]
  | .pot, [p] => [.pinMode p .input]
  | .ultra, [t, e] => [.pinMode t .output, .pinMode e .input]
  | .lcd, [_, _, _, _, _, _, bl] => [.pinMode bl .output]
  | _, _ => []

def itemModes : Item → List Ev
  | .decl k _ ps => pmOf k ps
  | _ => []

theorem ensure_sub (key : Key) (s : St) : ∀ e ∈ (ensure key s).2, e = key.ev := by
  intro e he
  unfold ensure at he
  split at he
  · cases he
  · simpa using he

theorem ensureAll_sub : ∀ (ks : List Key) (s : St), ∀ e ∈ (ensureAll ks s).2, ∃ key ∈ ks, e = key.ev
  | [], _, e, he => by cases he
  | k :: ks, s, e, he => by
    simp only [ensureAll] at he
    rcases List.mem_append.1 he with he | he
    · exact ⟨k, List.mem_cons_self, ensure_sub k s e he⟩
    · obtain ⟨key, hk, hke⟩ := ensureAll_sub ks _ e he
      exact ⟨key, List.mem_cons_of_mem _ hk, hke⟩

def PmFrom (k : Kind) (ps : List Nat) (l : List Ev) : Prop := ∀ e ∈ l, ∀ r m, e = Ev.pinMode r m → e ∈ pmOf k ps

theorem PmFrom_nil (k : Kind) (ps : List Nat) : PmFrom k ps [] := fun _ he => by cases he

theorem PmFrom_append {k : Kind} {ps : List Nat} {a b : List Ev} (ha : PmFrom k ps a) (hb : PmFrom k ps b) : PmFrom k ps (a ++ b) := by
  intro e he r m hrm
  rcases List.mem_append.1 he with he | he
  · exact ha e he r m hrm
  · exact hb e he r m hrm

theorem PmFrom_ensure {k : Kind} {ps : List Nat} (key : Key) (s : St) (h : key.ev ∈ pmOf k ps) : PmFrom k ps (ensure key s).2 :=
  fun e he _ _ _ => (ensure_sub key s e he) ▸ h

theorem PmFrom_ensureAll {k : Kind} {ps : List Nat} (ks : List Key) (s : St) (h : ∀ key ∈ ks, key.ev ∈ pmOf k ps) :
    PmFrom k ps (ensureAll ks s).2 := by
  intro e he _ _ _
  obtain ⟨key, hk, rfl⟩ := ensureAll_sub ks s e he
  exact h key hk

theorem PmFrom_noPm {k : Kind} {ps : List Nat} {l : List Ev} (h : ∀ e ∈ l, ∀ r m, e ≠ Ev.pinMode r m) : PmFrom k ps l :=
  fun e he r m hrm => absurd hrm (h e he r m)

theorem safeStop_noPm (ps : List Nat) : ∀ e ∈ safeStop ps, ∀ r m, e ≠ Ev.pinMode r m := by
  intro e he r m
  unfold safeStop at he
  split at he
  · simp at he
    rcases he with rfl | rfl | rfl <;> simp
  · cases he

theorem lcdBring_pm (n : String) (ps : List Nat) : PmFrom .lcd ps (lcdBring n ps) := by
  intro e he r m hrm
  subst hrm
  unfold lcdBring at he
  split at he <;> simp_all [pmOf]

theorem p1Setup_pm (s : St) (k : Kind) (n : String) (ps : List Nat) : PmFrom k ps (p1Setup s k n ps).2 := by
  unfold p1Setup
  split <;> try dsimp only
  · split
    · exact PmFrom_nil _ _
    · exact PmFrom_append (PmFrom_ensure _ _ (by simp [Key.ev, Slot.mode, pmOf])) (PmFrom_noPm (by simp))
  · split
    · exact PmFrom_nil _ _
    · exact PmFrom_append (PmFrom_ensure _ _ (by simp [Key.ev, Slot.mode, pmOf])) (PmFrom_noPm (by simp))
  · split
    · exact PmFrom_nil _ _
    · exact PmFrom_noPm (by simp)
  · exact PmFrom_append (PmFrom_ensureAll _ _ (by simp [Key.ev, Slot.mode, pmOf])) (PmFrom_noPm (safeStop_noPm _))
  · split
    · exact PmFrom_nil _ _
    · exact lcdBring_pm _ _
  · exact PmFrom_nil _ _
  · exact PmFrom_ensure _ _ (by simp [Key.ev, Slot.mode, pmOf])
  · exact PmFrom_nil _ _
  · exact PmFrom_nil _ _
  · exact PmFrom_ensure _ _ (by simp [Key.ev, Slot.mode, pmOf])
  · exact PmFrom_nil _ _

theorem p1Loop_pm (s : St) (k : Kind) (n : String) (ps : List Nat) : PmFrom k ps (p1Loop s k n ps).2 := by
  unfold p1Loop
  split <;> try dsimp only
  · refine PmFrom_append (PmFrom_ensure _ _ (by simp [Key.ev, Slot.mode, pmOf])) ?_
    split
    · exact PmFrom_nil _ _
    · exact PmFrom_noPm (by simp)
  · refine PmFrom_append (PmFrom_ensure _ _ (by simp [Key.ev, Slot.mode, pmOf])) ?_
    split
    · exact PmFrom_nil _ _
    · exact PmFrom_noPm (by simp)
  · split
    · exact PmFrom_nil _ _
    · exact PmFrom_noPm (by simp)
  · exact PmFrom_append (PmFrom_ensureAll _ _ (by simp [Key.ev, Slot.mode, pmOf])) (PmFrom_noPm (safeStop_noPm _))
  · intro e he r m _
    simpa [pmOf] using he
  · exact PmFrom_ensureAll _ _ (by simp [Key.ev, Slot.mode, pmOf])
  · exact PmFrom_ensureAll _ _ (by simp [Key.ev, Slot.mode, pmOf])
  · exact PmFrom_ensure _ _ (by simp [Key.ev, Slot.mode, pmOf])
  · exact PmFrom_nil _ _

theorem p2Setup_pm (s : St) (k : Kind) (n : String) (ps : List Nat) : PmFrom k ps (p2Setup s k n ps).2 := by
  unfold p2Setup
  split <;> try dsimp only
  · exact PmFrom_ensure _ _ (by simp [Key.ev, Slot.mode, pmOf])
  · exact PmFrom_ensure _ _ (by simp [Key.ev, Slot.mode, pmOf])
  · exact PmFrom_ensureAll _ _ (by simp [Key.ev, Slot.mode, pmOf])
  · exact PmFrom_ensureAll _ _ (by simp [Key.ev, Slot.mode, pmOf])
  · exact PmFrom_append (PmFrom_ensureAll _ _ (by simp [Key.ev, Slot.mode, pmOf])) (PmFrom_noPm (safeStop_noPm _))
  · exact PmFrom_nil _ _
  · exact PmFrom_noPm (by simp)
  · exact PmFrom_nil _ _

theorem p2Loop_noPm (s : St) (k : Kind) (n : String) (ps : List Nat) : ∀ e ∈ (p2Loop s k n ps).2, ∀ r m, e ≠ Ev.pinMode r m := by
  unfold p2Loop
  split <;> simp

theorem useOf_noPm (fin : String → Option (List Nat)) (w : W) (n : String) : ∀ e ∈ useOf fin w n, ∀ r m, e ≠ Ev.pinMode r m := by
  have hu : ∀ k ps, ∀ e ∈ useEvents k n ps, ∀ r m, e ≠ Ev.pinMode r m := by
    intro k ps
    cases k <;> rcases ps with _ | ⟨a, _ | ⟨b, _ | ⟨c, _ | ⟨d, ps⟩⟩⟩⟩ <;> simp [useEvents]
  unfold useOf
  split
  · split
    · exact hu _ _
    · simp
  · split
    · exact hu _ _
    · simp
  · simp

/-- every pinMode of a pass comes from one of its declarations -/
def FromItems (all : List Item) (l : List Ev) : Prop := ∀ e ∈ l, ∀ r m, e = Ev.pinMode r m → ∃ i ∈ all, e ∈ itemModes i

theorem foldEv_from {σ : Type} (f : σ → Item → σ × List Ev) (all : List Item)
    (hf : ∀ s i, i ∈ all → FromItems all (f s i).2) : ∀ (l : List Item) (s : σ), (∀ i ∈ l, i ∈ all) → FromItems all (foldEv f s l).2
  | [], _, _ => fun _ he => by cases he
  | i :: l, s, hl => by
    intro e he r m hrm
    simp only [foldEv] at he
    rcases List.mem_append.1 he with he | he
    · exact hf s i (hl i List.mem_cons_self) e he r m hrm
    · exact foldEv_from f all hf l _ (fun j hj => hl j (List.mem_cons_of_mem _ hj)) e he r m hrm

theorem mem_repeat {α : Type} (l : List α) (x : α) : ∀ N, x ∈ repeatList l N → x ∈ l
  | 0, h => by cases h
  | N + 1, h => by
    rcases List.mem_append.1 h with h | h
    · exact h
    · exact mem_repeat l x N h

theorem run_pinModes (p : Prog) (N : Nat) : FromItems (p.setup ++ p.loop) (run p N) := by
  have lift : ∀ (k : Kind) (n : String) (ps : List Nat) (l : List Ev), Item.decl k n ps ∈ p.setup ++ p.loop → PmFrom k ps l →
      FromItems (p.setup ++ p.loop) l := fun k n ps l hm h e he r m hrm => ⟨_, hm, h e he r m hrm⟩
  have none : ∀ l : List Ev, (∀ e ∈ l, ∀ r m, e ≠ Ev.pinMode r m) → FromItems (p.setup ++ p.loop) l :=
    fun l h e he r m hrm => absurd hrm (h e he r m)
  have h1 : FromItems (p.setup ++ p.loop) (pass1S p).2 := by
    refine foldEv_from _ _ ?_ _ _ (fun i hi => mem_app_l hi)
    intro s i hi
    cases i with
    | decl k n ps => exact lift k n ps _ hi (p1Setup_pm s k n ps)
    | use n => exact fun _ he => by cases he
    | stmt t => exact fun _ he => by cases he
    | animate m => exact fun _ he => by cases he
  have h2 : FromItems (p.setup ++ p.loop) (pass1L p).2 := by
    refine foldEv_from _ _ ?_ _ _ (fun i hi => List.mem_append_right _ hi)
    intro s i hi
    cases i with
    | decl k n ps => exact lift k n ps _ hi (p1Loop_pm s k n ps)
    | use n => exact fun _ he => by cases he
    | stmt t => exact fun _ he => by cases he
    | animate m => exact fun _ he => by cases he
  have h3 : FromItems (p.setup ++ p.loop) (pass2S p).2 := by
    refine foldEv_from _ _ ?_ _ _ (fun i hi => mem_app_l hi)
    intro w i hi
    cases i with
    | decl k n ps => exact lift k n ps _ hi (p2Setup_pm w.st k n ps)
    | use n => exact none _ (useOf_noPm _ w n)
    | stmt t => exact none _ (by simp [stepSetup])
    | animate m => exact none _ (fun e he r q hrm => by rw [animOf_sub w m e he] at hrm; cases hrm)
  have h4 : FromItems (p.setup ++ p.loop) (pass2L p).2 := by
    refine foldEv_from _ _ ?_ _ _ (fun i hi => List.mem_append_right _ hi)
    intro w i hi
    cases i with
    | decl k n ps => exact none _ (p2Loop_noPm w.st k n ps)
    | use n => exact none _ (useOf_noPm _ w n)
    | stmt t => exact none _ (by simp [stepLoop])
    | animate m => exact none _ (fun e he r q hrm => by rw [animOf_sub w m e he] at hrm; cases hrm)
  have h5 : FromItems (p.setup ++ p.loop) (polls p) := by
    refine none _ ?_
    intro e he r m hrm
    subst hrm
    obtain ⟨n, pin, hh, _⟩ := mem_polls p _ he
    cases hh
  have h6 : FromItems (p.setup ++ p.loop) (ticks p) := by
    refine none _ ?_
    intro e he r m hrm
    subst hrm
    obtain ⟨n, hh⟩ := mem_ticks p _ he
    cases hh
  intro e he r m hrm
  unfold run setupEvents at he
  rcases List.mem_append.1 he with he | he
  · rcases List.mem_append.1 he with he | he
    · rcases List.mem_append.1 he with he | he
      · exact h1 e he r m hrm
      · exact h2 e he r m hrm
    · exact h3 e he r m hrm
  · have := mem_repeat _ _ N he
    unfold loopEvents at this
    rcases List.mem_append.1 this with he | he
    · exact h5 e he r m hrm
    · rcases List.mem_append.1 he with he | he
      · exact h6 e he r m hrm
      · exact h4 e he r m hrm


/-! ### housekeeping -/

theorem p2Loop_noPoll (s : St) (k : Kind) (n : String) (ps : List Nat) : ∀ e ∈ (p2Loop s k n ps).2, ∀ m r, e ≠ Ev.poll m r := by
  unfold p2Loop
  split <;> simp

theorem useOf_noPoll (fin : String → Option (List Nat)) (w : W) (n : String) : ∀ e ∈ useOf fin w n, ∀ m r, e ≠ Ev.poll m r := by
  have hu : ∀ k ps, ∀ e ∈ useEvents k n ps, ∀ m r, e ≠ Ev.poll m r := by
    intro k ps
    cases k <;> rcases ps with _ | ⟨a, _ | ⟨b, _ | ⟨c, _ | ⟨d, ps⟩⟩⟩⟩ <;> simp [useEvents]
  unfold useOf
  split
  · split
    · exact hu _ _
    · simp
  · split
    · exact hu _ _
    · simp
  · simp

theorem foldEv_all {σ : Type} (f : σ → Item → σ × List Ev) (Q : Ev → Prop) (hf : ∀ s i, ∀ e ∈ (f s i).2, Q e) :
    ∀ (l : List Item) (s : σ), ∀ e ∈ (foldEv f s l).2, Q e
  | [], _, _, he => by cases he
  | i :: l, s, e, he => by
    simp only [foldEv] at he
    rcases List.mem_append.1 he with he | he
    · exact hf s i e he
    · exact foldEv_all f Q hf l _ e he

theorem body_noPoll (p : Prog) : ∀ e ∈ (pass2L p).2, ∀ m r, e ≠ Ev.poll m r := by
  refine foldEv_all _ (fun e => ∀ m r, e ≠ Ev.poll m r) ?_ _ _
  intro w i
  cases i with
  | decl k n ps => exact p2Loop_noPoll w.st k n ps
  | use n => exact useOf_noPoll _ w n
  | stmt t => simp [stepLoop]
  | animate m => exact fun e he a b hh => by rw [animOf_sub w m e he] at hh; cases hh

def pollName : Ev → Option String
  | .poll n _ => some n
  | _ => none

/-- a Button declaration always leaves an entry for its name (pass 1, both walks) -/
def HasButton (env : Env) (done : List Item) : Prop :=
  ∀ bk n ps, IsB bk → Item.decl bk n ps ∈ done → wf bk ps = true → ∃ pin, get env n bk = some [pin]

theorem button_entry_p1Setup (bk : Kind) (hbk : IsB bk) (s : St) (k : Kind) (n : String) (ps : List Nat) (n' : String) :
    get (p1Setup s k n ps).1.env n' bk =
      if k = bk ∧ n = n' ∧ wf bk ps = true then some ps else get s.env n' bk := by
  rcases hbk with rfl | rfl <;> unfold p1Setup <;> split <;> (try dsimp only) <;>
    first
    | (simp [withEnv, get_set, get_setDefault, wf]; done)
    | ((split <;> simp [withEnv, get_set, get_setDefault, wf]); done)
    | (split
       · rename_i hh
         obtain ⟨rfl, rfl, hw⟩ := hh
         rcases ps with _ | ⟨a, _ | ⟨b, ps⟩⟩ <;> simp_all [wf]
       · rfl)

theorem button_entry_p1Loop (bk : Kind) (hbk : IsB bk) (s : St) (k : Kind) (n : String) (ps : List Nat) (n' : String) :
    get (p1Loop s k n ps).1.env n' bk =
      if k = bk ∧ n = n' ∧ wf bk ps = true then some ps else get s.env n' bk := by
  rcases hbk with rfl | rfl <;> unfold p1Loop <;> split <;> (try dsimp only) <;>
    first
    | (simp [withEnv, get_set, get_setDefault, wf]; done)
    | ((split <;> simp [withEnv, get_set, get_setDefault, wf]); done)
    | (split
       · rename_i hh
         obtain ⟨rfl, rfl, hw⟩ := hh
         rcases ps with _ | ⟨a, _ | ⟨b, ps⟩⟩ <;> simp_all [wf]
       · rfl)

theorem hasButton_step (f : St → Kind → String → List Nat → St × List Ev)
    (hf : ∀ bk, IsB bk → ∀ s k n ps n', get (f s k n ps).1.env n' bk =
      if k = bk ∧ n = n' ∧ wf bk ps = true then some ps else get s.env n' bk)
    (s : St) (done : List Item) (k : Kind) (n : String) (ps : List Nat) (h : HasButton s.env done) :
    HasButton (f s k n ps).1.env (done ++ [.decl k n ps]) := by
  intro bk n' ps' hbk hm hw
  rw [hf bk hbk]
  split
  · rename_i hh
    obtain ⟨rfl, rfl, hw'⟩ := hh
    have : ∃ a, ps = [a] := by
      rcases hbk with rfl | rfl <;> rcases ps with _ | ⟨a, _ | ⟨b, ps⟩⟩ <;> simp [wf] at hw' <;> exact ⟨a, rfl⟩
    obtain ⟨a, rfl⟩ := this
    exact ⟨a, rfl⟩
  · rename_i hh
    rcases List.mem_append.1 hm with hm | hm
    · exact h bk n' ps' hbk hm hw
    · cases List.mem_singleton.1 hm
      exact absurd ⟨rfl, rfl, hw⟩ hh

theorem hasButton_pass1S (p : Prog) : HasButton (pass1S p).1.env p.setup := by
    have := foldEv_induct p1SetupItem (fun s _ done => HasButton s.env done) p.setup ?_ p.setup [] ⟨[], []⟩ [] rfl
      (fun _ _ _ _ hm => by cases hm)
    · simpa [pass1S] using this
    · intro s out done i rest _ h
      cases i with
      | decl k n ps => exact hasButton_step p1Setup button_entry_p1Setup s done k n ps h
      | use n => exact fun bk n' ps' hbk hm hw => h bk n' ps' hbk (by simpa using hm) hw
      | stmt t => exact fun bk n' ps' hbk hm hw => h bk n' ps' hbk (by simpa using hm) hw
      | animate m => exact fun bk n' ps' hbk hm hw => h bk n' ps' hbk (by simpa using hm) hw

theorem hasButton_pass1 (p : Prog) : HasButton (pass1L p).1.env (p.setup ++ p.loop) := by
  have h1 := hasButton_pass1S p
  have := foldEv_induct p1LoopItem (fun s _ done => HasButton s.env (p.setup ++ done)) p.loop ?_ p.loop [] (pass1S p).1 [] rfl
    (by simpa using h1)
  · simpa [pass1L] using this
  · intro s out done i rest _ h
    cases i with
    | decl k n ps =>
      have := hasButton_step p1Loop button_entry_p1Loop s (p.setup ++ done) k n ps h
      simpa [List.append_assoc, p1LoopItem] using this
    | use n => exact fun bk n' ps' hbk hm hw => h bk n' ps' hbk (by simpa using hm) hw
    | stmt t => exact fun bk n' ps' hbk hm hw => h bk n' ps' hbk (by simpa using hm) hw
    | animate m => exact fun bk n' ps' hbk hm hw => h bk n' ps' hbk (by simpa using hm) hw

theorem mem_insertUniq (x y : String) : ∀ l, y ∈ insertUniq x l → y = x ∨ y ∈ l
  | [], h => by simpa [insertUniq] using h
  | z :: l, h => by
    unfold insertUniq at h
    split at h
    · simpa using h
    · split at h
      · exact Or.inr h
      · rcases List.mem_cons.1 h with h | h
        · exact Or.inr (h ▸ List.mem_cons_self)
        · rcases mem_insertUniq x y l h with h | h
          · exact Or.inl h
          · exact Or.inr (List.mem_cons_of_mem _ h)

theorem mem_sortUniq (y : String) : ∀ l, y ∈ sortUniq l → y ∈ l
  | [], h => by cases h
  | x :: l, h => by
    rcases mem_insertUniq x y _ h with h | h
    · exact h ▸ List.mem_cons_self
    · exact List.mem_cons_of_mem _ (mem_sortUniq y l h)

theorem insertUniq_sorted (x : String) : ∀ l, l.Pairwise (· < ·) → (insertUniq x l).Pairwise (· < ·)
  | [], _ => by simp [insertUniq]
  | z :: l, h => by
    unfold insertUniq
    split
    · rename_i hxz
      refine List.Pairwise.cons ?_ h
      intro a ha
      rcases List.mem_cons.1 ha with rfl | ha
      · exact hxz
      · exact String.lt_trans hxz ((List.pairwise_cons.1 h).1 a ha)
    · split
      · exact h
      · rename_i h1 h2
        have hzx : z < x := Std.lt_of_le_of_ne (by simpa using h1) (Ne.symm h2)
        refine List.Pairwise.cons ?_ (insertUniq_sorted x l (List.pairwise_cons.1 h).2)
        intro a ha
        rcases mem_insertUniq x a l ha with rfl | ha
        · exact hzx
        · exact (List.pairwise_cons.1 h).1 a ha

theorem sortUniq_sorted : ∀ l, (sortUniq l).Pairwise (· < ·)
  | [] => List.Pairwise.nil
  | x :: l => insertUniq_sorted x _ (sortUniq_sorted l)

theorem pollOf_some (env : Env) (n : String)
    (h : ∃ pin, get env n .button = some [pin] ∨ get env n .buttonIn = some [pin]) : ∃ pin, pollOf env n = some (.poll n pin) := by
  obtain ⟨pin, h | h⟩ := h
  · exact ⟨pin, by simp [pollOf, h]⟩
  · unfold pollOf
    split
    · exact ⟨_, rfl⟩
    · exact ⟨pin, by simp [h]⟩

theorem polls_names (env : Env) : ∀ (names : List String),
    (∀ n ∈ names, ∃ pin, get env n .button = some [pin] ∨ get env n .buttonIn = some [pin]) →
    (names.filterMap (pollOf env)).filterMap pollName = names
  | [], _ => rfl
  | n :: l, h => by
    obtain ⟨pin, hpin⟩ := pollOf_some env n (h n List.mem_cons_self)
    have ih := polls_names env l (fun m hm => h m (List.mem_cons_of_mem _ hm))
    simp [hpin, pollName, ih]

theorem mem_buttonNames (l : List Item) (n : String) (h : n ∈ buttonNames l) : ∃ bk ps, IsB bk ∧ Item.decl bk n ps ∈ l := by
  unfold buttonNames at h
  obtain ⟨i, hi, hn⟩ := List.mem_filterMap.1 h
  split at hn
  · cases hn
    exact ⟨_, _, Or.inl rfl, hi⟩
  · cases hn
    exact ⟨_, _, Or.inr rfl, hi⟩
  · cases hn

theorem insertUniq_mem_self (x : String) : ∀ l, x ∈ insertUniq x l
  | [] => by simp [insertUniq]
  | z :: l => by
    unfold insertUniq
    split
    · exact List.mem_cons_self
    · split
      · rename_i h
        exact h ▸ List.mem_cons_self
      · exact List.mem_cons_of_mem _ (insertUniq_mem_self x l)

theorem insertUniq_mem_of_mem (x y : String) : ∀ l, y ∈ l → y ∈ insertUniq x l
  | [], h => by cases h
  | z :: l, h => by
    unfold insertUniq
    split
    · exact List.mem_cons_of_mem _ h
    · split
      · exact h
      · rcases List.mem_cons.1 h with h | h
        · exact h ▸ List.mem_cons_self
        · exact List.mem_cons_of_mem _ (insertUniq_mem_of_mem x y l h)

theorem sortUniq_mem (y : String) : ∀ l, y ∈ l → y ∈ sortUniq l
  | [], h => by cases h
  | x :: l, h => by
    rcases List.mem_cons.1 h with h | h
    · exact h ▸ insertUniq_mem_self x _
    · exact insertUniq_mem_of_mem x y _ (sortUniq_mem y l h)

/-! ### W10: animation ticks -/

theorem p2Loop_noTick (s : St) (k : Kind) (n : String) (ps : List Nat) : ∀ e ∈ (p2Loop s k n ps).2, ∀ m, e ≠ Ev.tick m := by
  unfold p2Loop
  split <;> simp

theorem useOf_noTick (fin : String → Option (List Nat)) (w : W) (n : String) : ∀ e ∈ useOf fin w n, ∀ m, e ≠ Ev.tick m ∧ e ≠ Ev.animStart m := by
  have hu : ∀ k ps, ∀ e ∈ useEvents k n ps, ∀ m, e ≠ Ev.tick m ∧ e ≠ Ev.animStart m := by
    intro k ps
    cases k <;> rcases ps with _ | ⟨a, _ | ⟨b, _ | ⟨c, _ | ⟨d, ps⟩⟩⟩⟩ <;> simp [useEvents]
  unfold useOf
  split
  · split
    · exact hu _ _
    · simp
  · split
    · exact hu _ _
    · simp
  · simp

theorem body_noTick (p : Prog) : ∀ e ∈ (pass2L p).2, ∀ m, e ≠ Ev.tick m := by
  refine foldEv_all _ (fun e => ∀ m, e ≠ Ev.tick m) ?_ _ _
  intro w i
  cases i with
  | decl k n ps => exact p2Loop_noTick w.st k n ps
  | use n => exact fun e he m => (useOf_noTick _ w n e he m).1
  | stmt t => simp [stepLoop]
  | animate m => exact fun e he a hh => by rw [animOf_sub w m e he] at hh; cases hh

def NoAnim (l : List Ev) : Prop := ∀ e ∈ l, ∀ m, e ≠ Ev.animStart m

theorem NoAnim_nil : NoAnim [] := fun _ he => by cases he

theorem NoAnim_append {a b : List Ev} (ha : NoAnim a) (hb : NoAnim b) : NoAnim (a ++ b) := by
  intro e he m
  rcases List.mem_append.1 he with he | he
  · exact ha e he m
  · exact hb e he m

theorem NoAnim_ensure (key : Key) (s : St) : NoAnim (ensure key s).2 := by
  intro e he m
  rw [ensure_sub key s e he]
  simp [Key.ev]

theorem NoAnim_ensureAll (ks : List Key) (s : St) : NoAnim (ensureAll ks s).2 := by
  intro e he m
  obtain ⟨key, _, rfl⟩ := ensureAll_sub ks s e he
  simp [Key.ev]

theorem NoAnim_safeStop (ps : List Nat) : NoAnim (safeStop ps) := by
  intro e he m
  unfold safeStop at he
  split at he
  · simp at he
    rcases he with rfl | rfl | rfl <;> simp
  · cases he

theorem p2Setup_noAnim (s : St) (k : Kind) (n : String) (ps : List Nat) : NoAnim (p2Setup s k n ps).2 := by
  unfold p2Setup
  split <;> try dsimp only
  · exact NoAnim_ensure _ _
  · exact NoAnim_ensure _ _
  · exact NoAnim_ensureAll _ _
  · exact NoAnim_ensureAll _ _
  · exact NoAnim_append (NoAnim_ensureAll _ _) (NoAnim_safeStop _)
  · exact NoAnim_nil
  · intro e he m; simp at he; subst he; simp
  · exact NoAnim_nil

/-- an animation start written by pass 2 into setup() stems from an `animate` item of the prologue -/
theorem pass2S_anim_prov (fin : String → Option (List Nat)) (n : String) : ∀ (l : List Item) (w : W),
    Ev.animStart n ∈ (foldEv (stepSetup fin) w l).2 → Item.animate n ∈ l
  | [], _, h => by cases h
  | i :: l, w, h => by
    simp only [foldEv] at h
    rcases List.mem_append.1 h with h | h
    · cases i with
      | decl k m ps => exact absurd rfl (p2Setup_noAnim w.st k m ps _ h n)
      | use m => exact absurd rfl ((useOf_noTick fin w m _ h n).2)
      | stmt t => simp [stepSetup] at h
      | animate m =>
        have := animOf_sub w m _ h
        cases this
        exact List.mem_cons_self
    · exact List.mem_cons_of_mem _ (pass2S_anim_prov fin n l _ h)

theorem started_prov (p : Prog) (n : String) (h : 0 < startedInSetup p n) : Item.animate n ∈ p.setup := by
  unfold startedInSetup at h
  exact pass2S_anim_prov _ n _ _ (List.count_pos_iff.1 h)

/-- a Button declared before the loop: pass 1 writes its pinMode, in the declared mode, into setup() -/
theorem button_setup_cfgd (p : Prog) (hd : Doc p) (bk : Kind) (hbk : IsB bk) (n : String) (ps : List Nat)
    (hm : Item.decl bk n ps ∈ p.setup) : Cfgd (pass1S p).2 bk n ps := by
  have h1 := pass1S_inv p hd.buttons
  obtain ⟨pin, hg⟩ := hasButton_pass1S p bk n ps hbk hm (hd.wfAll bk n ps (List.mem_append_left _ hm))
  have := hd.buttons bk n ps [pin] hbk hm (h1.prov bk n [pin] hbk hg)
  subst this
  exact h1.A n bk [pin] hbk.byName hg

end Reduino.Lemmas.C05Pins
