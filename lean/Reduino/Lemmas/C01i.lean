import Reduino.Lang.Render
import Reduino.Lang.InF
import Reduino.Lemmas.C01h
/- C01 helpers, part i: main loop and final assembly -/
namespace Reduino.Lemmas.C01
open Reduino.Lang

theorem C_passes_mono {te : C.TyEnv} {f f' : Nat} {b : Stmt} {n : Nat} {st : Py.St} {m : C.Mode} (hle : f ≤ f')
    (h : C.passes te f b n st m ≠ .error .fuel) : C.passes te f' b n st m = C.passes te f b n st m := by
  induction hle with
  | refl => rfl
  | step _ ih => rw [← ih]; exact C_passes_mono1 te _ b n st m (by rw [ih]; exact h)

theorem passes_skip (te : C.TyEnv) (f N : Nat) (st : Py.St) (hfl : st.flow = .normal) :
    C.passes te (f + 1) .skip N st = .ok st := by
  induction N with
  | zero => rfl
  | succ N ih =>
    rw [C.passes, C.exec, ok_bind, if_neg (by rw [hfl]; intro h; cases h)]
    exact ih

theorem passes_sim (all : List String) (te : C.TyEnv) (b b' : Stmt) (f : Nat)
    (hok : b.okNested all te = true) (hall : ∀ x ∈ b.assigned, x ∈ all) (htr : trNested te true 0 b = .ok b') :
    ∀ (N : Nat) (stp stc stp' : Py.St), StRel te stp stc → Py.passes f b N stp = .ok stp' →
      Sim1 te stp' (C.passes te f b' N stc) := by
  intro N
  induction N with
  | zero =>
    intro stp stc stp' hst hpy
    rw [Py.passes] at hpy; cases hpy
    left; exact ⟨stc, rfl, hst⟩
  | succ N ih =>
    intro stp stc stp' hst hpy
    rw [Py.passes] at hpy
    obtain ⟨st1, h1, hpy⟩ := bind_ok hpy
    rw [C.passes]
    rcases (sim all f).1 te true 0 b b' stp stc st1 hok hall htr hst h1 with ⟨stc1, hc, hr⟩ | hc
    · rw [hc, ok_bind, hr.fl]
      split at hpy
      · cases hpy
      · rename_i hbr
        rw [if_neg hbr]
        exact ih st1 stc1 stp' hr hpy
    · right; exact ub_bind _ hc

theorem Inv_empty : Inv {} :=
  ⟨rfl, fun g hg => (by cases hg), List.Pairwise.nil⟩

/-- static initialisation and `setup()` against the Python prologue -/
theorem prologue_sim (pre : Stmt) (all : List String) (te : C.TyEnv) (acc : TopAcc) (fuel : Nat) (st0 : Py.St)
    (hokTop : pre.okTop all [] = some te) (hacc : trTop {} pre = .ok acc)
    (hpreall : ∀ x ∈ pre.assigned, x ∈ all)
    (hst0 : Py.exec fuel pre { store := [], trace := [] } = .ok st0) (hfl0 : st0.flow = .normal) :
    acc.te = te ∧ (acc.globals.reverse.map fun g => (g.1, g.2.1)) = acc.te ∧
    ((∃ s0 stc0 f1, C.initGlobals acc.te acc.globals.reverse [] = .ok s0 ∧
        C.exec acc.te f1 (seqOf acc.setup.reverse) { store := s0, trace := [] } = .ok stc0 ∧
        StRel acc.te st0 stc0) ∨
     UB (C.initGlobals acc.te acc.globals.reverse []) ∨
     (∃ s0 f1, C.initGlobals acc.te acc.globals.reverse [] = .ok s0 ∧
        UB (C.exec acc.te f1 (seqOf acc.setup.reverse) { store := s0, trace := [] }))) := by
  obtain ⟨hte, _, _, hdecl, hinv, _⟩ := trTop_facts all pre {} acc te hokTop hacc
  obtain ⟨hI1, hI2, hI3⟩ := hinv Inv_empty
  subst hte
  refine ⟨rfl, hI1.symm, ?_⟩
  have hallf : ∀ x, (acc.te.lookup x).isSome = true → x ∈ all := by
    intro x hx
    rcases hdecl x hx with h | h
    · cases h
    · exact hpreall x h
  have hgood : ∀ g ∈ acc.globals.reverse, GoodInit g.2.2 :=
    fun g hg => hI2 g (List.mem_reverse.1 hg)
  have hnf : ∀ g ∈ acc.globals.reverse, g.2.2.nameFree = true := fun g hg => (hgood g hg).1
  rcases init_total acc.te acc.globals.reverse [] hgood with ⟨s0, hs0⟩ | hs0
  · obtain ⟨hinit, _⟩ := init_spec acc.te acc.globals.reverse [] s0
      (List.pairwise_reverse.2 (hI3.imp fun h => h.symm)) hnf hs0
    obtain ⟨l, hl, hout⟩ := top_sim all acc.te acc.globals.reverse s0 fuel hallf hinit pre {} acc acc.te fuel
      { store := [], trace := [] } { store := s0, trace := [] } st0 (Nat.le_refl _) hokTop hacc hpreall
      (Sub_refl _) (fun g hg => List.mem_reverse.2 hg) ⟨rfl, rfl, Rel_nil _ _⟩ (fun x _ => rfl) hst0 hfl0
    have hl' : acc.setup.reverse = l.reverse := by
      rw [hl]; show (l ++ []).reverse = _; rw [List.append_nil]
    rcases hout with ⟨stc0, hc0, hr0, _⟩ | hc0
    · obtain ⟨f1, hf1⟩ := execList_seqOf acc.te fuel l.reverse _ _ hc0 (by intro e; cases e)
      left; exact ⟨s0, stc0, f1, hs0, by rw [hl']; exact hf1, hr0⟩
    · obtain ⟨f1, hf1⟩ := execList_seqOf_ub acc.te fuel l.reverse _ hc0
      right; right; exact ⟨s0, f1, hs0, by rw [hl']; exact hf1⟩
  · right; left; exact hs0

def allOf (pre : Stmt) (body : Option Stmt) (hs : List Helper := []) : List String :=
  pre.assigned ++ (match body with | some b => b.assigned | none => []) ++ hs.flatMap (·.body.assigned)

theorem InF_unfold (pre : Stmt) (body : Option Stmt) (hs : List Helper) :
    InF { pre := pre, body := body, helpers := hs } =
      (match pre.okTop (allOf pre body hs) [] with
       | none => false
       | some te => match body with
         | none => true
         | some b => b.okNested (allOf pre body hs) te) := rfl

/-- the run of a sketch does not look at the list of function definitions (the call statements carry them) -/
theorem C_run_helpers (c : CProg) (hs : List Helper) (N f : Nat) (m : C.Mode) :
    C.run { c with helpers := hs } N f m = C.run c N f m := rfl

theorem C01_partial_core (p : Prog) (c : CProg) (N fuel : Nat) (t : List Ev)
    (hin : InF p = true) (htr : trCore p = .ok c) (hpy : Py.run p N fuel = .ok t) :
    ∃ fuel', C.run c N fuel' = .ok t ∨ UB (C.run c N fuel') := by
  obtain ⟨pre, body, helpers⟩ := p
  rw [InF_unfold pre body helpers] at hin
  have hall1 : ∀ x ∈ pre.assigned, x ∈ allOf pre body helpers := fun x hx => List.mem_append_left _ (List.mem_append_left _ hx)
  have hall2 : ∀ b, body = some b → ∀ x ∈ b.assigned, x ∈ allOf pre body helpers := by
    intro b hb x hx; subst hb; exact List.mem_append_left _ (List.mem_append_right _ hx)
  generalize allOf pre body helpers = all at hin hall1 hall2
  cases hokTop : pre.okTop all [] with
  | none => rw [hokTop] at hin; cases hin
  | some te =>
    rw [hokTop] at hin
    simp only at hin
    have hpreall : ∀ x ∈ pre.assigned, x ∈ all := hall1
    unfold trCore at htr
    obtain ⟨acc, hacc, htr⟩ := bind_ok htr
    simp only at htr
    unfold Py.run at hpy
    obtain ⟨st0, hst0, hpy⟩ := bind_ok hpy
    simp only at hst0 hpy
    have hfl0 : st0.flow = .normal := by
      by_cases hbr : st0.flow = .broke
      · rw [if_pos hbr] at hpy; cases hpy
      · exact flow_normal_of_ne hbr
    rw [if_neg (by rw [hfl0]; intro h; cases h)] at hpy
    obtain ⟨hte, htef, hpro⟩ := prologue_sim pre all te acc fuel st0 hokTop hacc hpreall hst0 hfl0
    subst hte
    -- the main loop
    have hloopsim : ∃ loop stp', c = { globals := acc.globals.reverse, setup := seqOf acc.setup.reverse, loop := loop } ∧
        t = stp'.trace.reverse ∧
        ∀ stc0, StRel acc.te st0 stc0 → ∃ f2, Sim1 acc.te stp' (C.passes acc.te f2 loop N stc0) := by
      cases body with
      | none =>
        simp only at htr hpy
        cases hpy
        obtain ⟨loop, hloop, htr⟩ := bind_ok htr
        cases hloop; cases htr
        refine ⟨_, st0, rfl, rfl, fun stc0 hr0 => ⟨1, .inl ⟨stc0, ?_, hr0⟩⟩⟩
        exact passes_skip _ 0 N stc0 (by rw [hr0.fl, hfl0])
      | some b =>
        simp only at htr hpy hin
        obtain ⟨loop, hloop, htr⟩ := bind_ok htr
        cases htr
        obtain ⟨stN, hN, hpy⟩ := bind_ok hpy
        cases hpy
        have hball : ∀ x ∈ b.assigned, x ∈ all := hall2 b rfl
        exact ⟨loop, stN, rfl, rfl, fun stc0 hr0 =>
          ⟨fuel, passes_sim all acc.te b loop fuel hin hball hloop N st0 stc0 stN hr0 hN⟩⟩
    obtain ⟨loop, stN, rfl, rfl, hloopsim⟩ := hloopsim
    rcases hpro with ⟨s0, stc0, f1, hs0, hf1, hr0⟩ | hs0 | ⟨s0, f1, hs0, hf1⟩
    · obtain ⟨f2, hsimN⟩ := hloopsim stc0 hr0
      refine ⟨max f1 f2, ?_⟩
      have hsetup : C.exec acc.te (max f1 f2) (seqOf acc.setup.reverse) { store := s0, trace := [] }
          = .ok stc0 := by
        rw [C_exec_mono (Nat.le_max_left f1 f2) (by rw [hf1]; intro e; cases e), hf1]
      have hpass : C.passes acc.te (max f1 f2) loop N stc0 = C.passes acc.te f2 loop N stc0 := by
        apply C_passes_mono (Nat.le_max_right f1 f2)
        rcases hsimN with ⟨stcN, h, _⟩ | h
        · rw [h]; intro e; cases e
        · exact UB_ne_fuel h
      unfold C.run
      simp only [htef, hs0, ok_bind, hsetup, hpass]
      rw [if_neg (by rw [hr0.fl, hfl0]; intro h; cases h)]
      rcases hsimN with ⟨stcN, h, hrN⟩ | h
      · left; rw [h, ok_bind, hrN.tr]; rfl
      · right; exact ub_bind _ h
    · refine ⟨0, .inr ?_⟩
      unfold C.run
      simp only [htef]
      exact ub_bind _ hs0
    · refine ⟨f1, .inr ?_⟩
      unfold C.run
      simp only [htef, hs0, ok_bind]
      exact ub_bind _ hf1

theorem C01_partial_aux (p : Prog) (c : CProg) (N fuel : Nat) (t : List Ev)
    (hin : InF p = true) (htr : tr p = .ok c) (hpy : Py.run p N fuel = .ok t) :
    ∃ fuel', C.run c N fuel' = .ok t ∨ UB (C.run c N fuel') := by
  obtain ⟨_, c0, hs, htr0, rfl⟩ := tr_ok htr
  obtain ⟨f', h⟩ := C01_partial_core p c0 N fuel t hin htr0 hpy
  exact ⟨f', by simpa only [C_run_helpers] using h⟩

end Reduino.Lemmas.C01
