import Reduino.Lang.Render
import Reduino.Lang.InF
/- C01 helpers, part a: fuel monotonicity of the C interpreter -/
namespace Reduino.Lemmas.C01
open Reduino.Lang

theorem bind_stable {α β : Type} {x x' : Except Err α} {g g' : α → Except Err β}
    (hx : x ≠ .error .fuel → x' = x)
    (hg : ∀ a, x = .ok a → g a ≠ .error .fuel → g' a = g a) :
    (x >>= g) ≠ .error .fuel → (x' >>= g') = (x >>= g) := by
  intro h
  cases hxe : x with
  | error e =>
    have : e ≠ .fuel := by rintro rfl; exact h (by rw [hxe]; rfl)
    rw [hx (by rw [hxe]; intro h'; injection h' with h'; exact this h')]; rw [hxe]; rfl
  | ok a =>
    rw [hx (by rw [hxe]; intro h'; cases h')]; rw [hxe]
    exact hg a hxe (by rw [hxe] at h; exact h)

theorem bind_stable_l {α β : Type} {x : Except Err α} {g g' : α → Except Err β}
    (hg : ∀ a, x = .ok a → g a ≠ .error .fuel → g' a = g a) :
    (x >>= g) ≠ .error .fuel → (x >>= g') = (x >>= g) :=
  bind_stable (fun _ => rfl) hg

theorem C_exec_mono1 (f : Nat) :
    (∀ te s st m, C.exec te f s st m ≠ .error .fuel → C.exec te (f+1) s st m = C.exec te f s st m) ∧
    (∀ te i n b st m, C.exec.forLoop te f i n b st m ≠ .error .fuel →
        C.exec.forLoop te (f+1) i n b st m = C.exec.forLoop te f i n b st m) := by
  induction f with
  | zero =>
    constructor
    · intro te s st m h; exact absurd (by rw [C.exec]) h
    · intro te i n b st m h; exact absurd (by rw [C.exec.forLoop]) h
  | succ f ih =>
    obtain ⟨ihe, ihf⟩ := ih
    constructor
    · intro te s st m
      cases s with
      | skip => intro _; rw [C.exec, C.exec]
      | seq a b =>
        rw [C.exec, C.exec]
        refine bind_stable (ihe te a st m) ?_
        intro st1 _
        split
        · intro _; rfl
        · exact ihe te b st1 m
      | assign x e => intro _; rw [C.exec, C.exec]
      | aug x op e => intro _; rw [C.exec, C.exec]
      | tuple k xs es => intro _; rw [C.exec, C.exec]
      | ctuple k ts xs es => intro _; rw [C.exec, C.exec]
      | ifs c t e =>
        rw [C.exec, C.exec]
        refine bind_stable_l ?_
        intro v _
        split
        · exact ihe te t st m
        · exact ihe te e st m
      | whileLoop c b =>
        rw [C.exec, C.exec]
        refine bind_stable_l ?_
        intro v _
        split
        · refine bind_stable (ihe te b st m) ?_
          intro st1 _
          split
          · intro _; rfl
          · exact ihe te _ st1 m
        · intro _; rfl
      | forRange i n b =>
        rw [C.exec, C.exec]
        refine bind_stable (ihf _ i n b _ m) ?_
        intro st1 _ _; rfl
      | write e => intro _; rw [C.exec, C.exec]
      | sleep e => intro _; rw [C.exec, C.exec]
      | brk => intro _; rw [C.exec, C.exec]
      | call x g ps ls rt body ret args =>
        rw [C.exec, C.exec]
        refine bind_stable_l ?_
        intro vs _
        refine bind_stable (ihe _ body _ m) ?_
        intro st1 _ _; rfl
    · intro te i n b st m
      rw [C.exec.forLoop, C.exec.forLoop]
      refine bind_stable_l ?_
      intro iv _
      refine bind_stable_l ?_
      intro nv _
      split
      · refine bind_stable (ihe te b st m) ?_
        intro st1 _
        split
        · intro _; rfl
        · refine bind_stable_l ?_
          intro cur _
          refine bind_stable_l ?_
          intro nxt _
          exact ihf te i n b _ m
      · intro _; rfl

theorem C_exec_mono {te : C.TyEnv} {f f' : Nat} {s : Stmt} {st : Py.St} {m : C.Mode} (hle : f ≤ f')
    (h : C.exec te f s st m ≠ .error .fuel) : C.exec te f' s st m = C.exec te f s st m := by
  induction hle with
  | refl => rfl
  | step _ ih => rw [← ih]; exact (C_exec_mono1 _).1 te s st m (by rw [ih]; exact h)

theorem C_passes_mono1 (te : C.TyEnv) (f : Nat) (b : Stmt) (n : Nat) (st : Py.St) (m : C.Mode := .strict) :
    C.passes te f b n st m ≠ .error .fuel → C.passes te (f+1) b n st m = C.passes te f b n st m := by
  induction n generalizing st with
  | zero => intro _; rw [C.passes, C.passes]
  | succ n ih =>
    rw [C.passes, C.passes]
    refine bind_stable ((C_exec_mono1 f).1 te b st m) ?_
    intro st1 _
    split
    · intro _; rfl
    · exact ih st1

theorem C_run_mono1 (c : CProg) (N f : Nat) (m : C.Mode := .strict) :
    C.run c N f m ≠ .error .fuel → C.run c N (f+1) m = C.run c N f m := by
  unfold C.run
  refine bind_stable_l ?_
  intro s0 _
  refine bind_stable ((C_exec_mono1 f).1 _ _ _ m) ?_
  intro st0 _
  split
  · intro _; rfl
  · refine bind_stable (C_passes_mono1 _ f _ N st0 m) ?_
    intro _ _ _; rfl

theorem C_run_mono {c : CProg} {N f f' : Nat} {m : C.Mode} (hle : f ≤ f')
    (h : C.run c N f m ≠ .error .fuel) : C.run c N f' m = C.run c N f m := by
  induction hle with
  | refl => rfl
  | step _ ih => rw [← ih]; exact C_run_mono1 c N _ m (by rw [ih]; exact h)

/-- the C run (either reading) is deterministic up to fuel: two successful runs agree -/
theorem C_run_det {c : CProg} {N f f' : Nat} {t t' : List Ev} {m : C.Mode}
    (h : C.run c N f m = .ok t) (h' : C.run c N f' m = .ok t') : t = t' := by
  have h1 := C_run_mono (Nat.le_max_left f f') (by rw [h]; intro e; cases e)
  have h2 := C_run_mono (Nat.le_max_right f f') (by rw [h']; intro e; cases e)
  rw [h1, h, h'] at h2
  injection h2

end Reduino.Lemmas.C01
