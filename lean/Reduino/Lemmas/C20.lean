import Reduino.Lemmas.Field
import Reduino.Host.Core
/- helper lemmas for Props/C20.lean -/
set_option linter.unusedSectionVars false
namespace Reduino.Lemmas.C20
open Reduino Reduino.Host

variable {K : Type} [Field K] [LinearOrder K] [IsStrictOrderedRing K] [FloorRing K]

/-! ### `Val` comparisons -/

theorem lt_iff (a b : Val K) : Val.lt a b = true ↔ a.toF < b.toF := by
  cases a <;> cases b
  · exact decide_eq_true_iff.trans Int.cast_lt.symm
  all_goals exact decide_eq_true_iff

theorem le_iff (a b : Val K) : Val.le a b = true ↔ a.toF ≤ b.toF := by
  cases a <;> cases b
  · exact decide_eq_true_iff.trans Int.cast_le.symm
  all_goals exact decide_eq_true_iff

theorem isZero_iff (v : Val K) : Val.isZero v = true ↔ v.toF = 0 := by
  have h0 : (Val.int 0 : Val K).toF = 0 := by simp [Val.toF]
  have h1 := lt_iff v (.int 0)
  have h2 := lt_iff (.int 0 : Val K) v
  rw [h0] at h1 h2
  unfold Val.isZero
  constructor
  · intro h
    simp only [Bool.and_eq_true, Bool.not_eq_true', ← Bool.not_eq_true, h1, h2, not_lt] at h
    exact le_antisymm h.2 h.1
  · intro h
    simp only [Bool.and_eq_true, Bool.not_eq_true', ← Bool.not_eq_true, h1, h2, not_lt]
    exact ⟨le_of_eq h.symm, le_of_eq h⟩

theorem veq_iff (a b : Val K) : Utils.veq a b = true ↔ a.toF = b.toF := by
  unfold Utils.veq
  rw [Bool.and_eq_true, le_iff, le_iff]
  exact ⟨fun h => le_antisymm h.1 h.2, fun h => ⟨le_of_eq h, le_of_eq h.symm⟩⟩

theorem sub_toF (a b : Val K) : (Val.sub a b).toF = a.toF - b.toF := by
  cases a <;> cases b <;> simp [Val.sub, Val.toF]

theorem add_toF (a b : Val K) : (Val.add a b).toF = a.toF + b.toF := by
  cases a <;> cases b <;> simp [Val.add, Val.toF]

theorem mul_toF (a b : Val K) : (Val.mul a b).toF = a.toF * b.toF := by
  cases a <;> cases b <;> simp [Val.mul, Val.toF]

theorem div_toF (a b : Val K) : (Val.div a b).toF = a.toF / b.toF := by
  simp [Val.div, Val.toF]

theorem roundHE_intCast (n : Int) : Num.roundHE ((n : Int) : K) = n := by
  rw [roundHE_eq]
  unfold roundHEK
  simp

/-! ### single-step lemmas for the Core simulation -/

theorem upd_same {β : Type} (m : PinArg → Option β) (k : PinArg) (v : β) : upd m k v k = some v := by
  simp [upd]

theorem upd_other {β : Type} (m : PinArg → Option β) (k k' : PinArg) (v : β) (h : k' ≠ k) :
    upd m k v k' = m k' := by
  simp [upd, h]

/-- the analog cell at `k` is unchanged by an op that does not analog-write `k` -/
theorem step_analog_other (s : Core) (k : PinArg) (op : CoreOp K)
    (h : ∀ p v, op = .analogWrite p v → normalise p ≠ k) :
    (Core.step s op).analog k = s.analog k := by
  cases op with
  | pinMode p mode =>
    unfold Core.step
    dsimp only
    split <;> rfl
  | digitalWrite p v => rfl
  | analogWrite p v =>
    have hk : k ≠ normalise p := fun e => h p v rfl e.symm
    simp [Core.step, upd, hk]

/-- a stored digital value survives any op that is not a digital write to that key -/
theorem step_digital_some (s : Core) (k : PinArg) (x : Int) (op : CoreOp K)
    (hs : s.digital k = some x)
    (h : ∀ p v, op = .digitalWrite p v → normalise p ≠ k) :
    (Core.step s op).digital k = some x := by
  cases op with
  | pinMode p mode =>
    unfold Core.step
    dsimp only
    split
    · rename_i hc
      by_cases hk : k = normalise p
      · subst hk
        rw [hs] at hc
        simp at hc
      · simp [upd, hk, hs]
    · exact hs
  | digitalWrite p v =>
    have hk : k ≠ normalise p := fun e => h p v rfl e.symm
    simp [Core.step, upd, hk, hs]
  | analogWrite p v => exact hs

/-- digital cell and mode at `k` are unchanged by ops that neither pin_mode nor digital-write `k` -/
theorem step_digital_other (s : Core) (k : PinArg) (op : CoreOp K)
    (h1 : ∀ p m, op = .pinMode p m → normalise p ≠ k)
    (h2 : ∀ p v, op = .digitalWrite p v → normalise p ≠ k) :
    (Core.step s op).digital k = s.digital k ∧ (Core.step s op).modes k = s.modes k := by
  cases op with
  | pinMode p mode =>
    have hk : k ≠ normalise p := fun e => h1 p mode rfl e.symm
    unfold Core.step
    dsimp only
    split <;> simp [upd, hk]
  | digitalWrite p v =>
    have hk : k ≠ normalise p := fun e => h2 p v rfl e.symm
    simp [Core.step, upd, hk]
  | analogWrite p v => exact ⟨rfl, rfl⟩

theorem run_nil (s : Core) : Core.run s ([] : List (CoreOp K)) = s := rfl

theorem run_cons (s : Core) (op : CoreOp K) (ops : List (CoreOp K)) :
    Core.run s (op :: ops) = Core.run (Core.step s op) ops := rfl

theorem run_analog_other (k : PinArg) (ops : List (CoreOp K)) :
    ∀ (s : Core), (∀ op ∈ ops, ∀ p v, op = .analogWrite p v → normalise p ≠ k) →
    (Core.run s ops).analog k = s.analog k := by
  induction ops with
  | nil => intro s _; rfl
  | cons op ops ih =>
    intro s h
    rw [run_cons, ih _ (fun o ho => h o (List.mem_cons_of_mem _ ho))]
    exact step_analog_other s k op (h op List.mem_cons_self)

theorem run_digital_some (k : PinArg) (x : Int) (ops : List (CoreOp K)) :
    ∀ (s : Core), s.digital k = some x →
    (∀ op ∈ ops, ∀ p v, op = .digitalWrite p v → normalise p ≠ k) →
    (Core.run s ops).digital k = some x := by
  induction ops with
  | nil => intro s hs _; exact hs
  | cons op ops ih =>
    intro s hs h
    rw [run_cons]
    exact ih _ (step_digital_some s k x op hs (h op List.mem_cons_self))
      (fun o ho => h o (List.mem_cons_of_mem _ ho))

theorem run_digital_other (k : PinArg) (ops : List (CoreOp K)) :
    ∀ (s : Core),
    (∀ op ∈ ops, ∀ p m, op = .pinMode p m → normalise p ≠ k) →
    (∀ op ∈ ops, ∀ p v, op = .digitalWrite p v → normalise p ≠ k) →
    (Core.run s ops).digital k = s.digital k ∧ (Core.run s ops).modes k = s.modes k := by
  induction ops with
  | nil => intro s _ _; exact ⟨rfl, rfl⟩
  | cons op ops ih =>
    intro s h1 h2
    rw [run_cons]
    have hi := ih (Core.step s op) (fun o ho => h1 o (List.mem_cons_of_mem _ ho))
      (fun o ho => h2 o (List.mem_cons_of_mem _ ho))
    have hs := step_digital_other s k op (h1 op List.mem_cons_self) (h2 op List.mem_cons_self)
    exact ⟨hi.1.trans hs.1, hi.2.trans hs.2⟩

theorem duty_bounds (v : Val K) : 0 ≤ Core.duty v ∧ Core.duty v ≤ 255 := by
  unfold Core.duty
  omega

end Reduino.Lemmas.C20
