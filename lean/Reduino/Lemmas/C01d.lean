import Reduino.Lang.Render
import Reduino.Lang.InF
import Reduino.Lemmas.C01c
import Reduino.Lemmas.C01t
/- C01 helpers, part d: frame lemma of the C interpreter, facts about `trNested`/`okNested` -/
namespace Reduino.Lemmas.C01
open Reduino.Lang

theorem assignTo_ok {te : C.TyEnv} {s s' : Store} {x : String} {v : Val} (h : C.assignTo te s x v = .ok s') :
    ∃ t, te.lookup x = some t ∧ s' = s.set x (C.conv t v) := by
  unfold C.assignTo at h
  split at h
  · rename_i t ht; cases h; exact ⟨t, ht, rfl⟩
  · cases h

theorem ite_ok_cases {α : Type} {c : Prop} [Decidable c] {a b : Except Err α} {r : α}
    (h : (if c then a else b) = .ok r) : (c ∧ a = .ok r) ∨ (¬ c ∧ b = .ok r) := by
  split at h
  · left; exact ⟨‹_›, h⟩
  · right; exact ⟨‹_›, h⟩

/-- a C statement changes only the variables it assigns (for-loops restore their own variable) -/
theorem C_frame (f : Nat) :
    (∀ te s st st', C.exec te f s st = .ok st' → ∀ x, x ∉ s.assigned → st'.store.get x = st.store.get x) ∧
    (∀ te i n b st st', C.exec.forLoop te f i n b st = .ok st' → ∀ x, x ∉ b.assigned → x ≠ i →
        st'.store.get x = st.store.get x) := by
  induction f with
  | zero =>
    constructor
    · intro te s st st' h; rw [C.exec] at h; cases h
    · intro te i n b st st' h; rw [C.exec.forLoop] at h; cases h
  | succ f ih =>
    obtain ⟨ihe, ihf⟩ := ih
    constructor
    · intro te s st st' h x hx
      cases s with
      | skip => rw [C.exec] at h; cases h; rfl
      | seq a b =>
        rw [C.exec] at h
        obtain ⟨st1, h1, h⟩ := bind_ok h
        simp only [Stmt.assigned, List.mem_append, not_or] at hx
        split at h
        · cases h; exact ihe te a st _ h1 x hx.1
        · rw [ihe te b st1 st' h x hx.2, ihe te a st st1 h1 x hx.1]
      | assign y e =>
        rw [C.exec] at h
        obtain ⟨v, _, h⟩ := bind_ok h
        obtain ⟨s', hs', h⟩ := bind_ok h
        cases h
        obtain ⟨t, _, rfl⟩ := assignTo_ok hs'
        simp only [Stmt.assigned, List.mem_singleton] at hx
        exact get_set_ne _ _ hx
      | aug y op e =>
        rw [C.exec] at h
        obtain ⟨cur, _, h⟩ := bind_ok h
        obtain ⟨v, _, h⟩ := bind_ok h
        obtain ⟨r, _, h⟩ := bind_ok h
        obtain ⟨s', hs', h⟩ := bind_ok h
        cases h
        obtain ⟨t, _, rfl⟩ := assignTo_ok hs'
        simp only [Stmt.assigned, List.mem_singleton] at hx
        exact get_set_ne _ _ hx
      | tuple k xs es => rw [C.exec] at h; cases h
      | ctuple k ts xs es =>
        rw [C.exec] at h
        split at h
        · cases h
        · split at h
          · cases h
          · obtain ⟨s1, h1, h⟩ := bind_ok h
            obtain ⟨s2, h2, h⟩ := bind_ok h
            cases h
            simp only [Stmt.assigned] at hx
            show (C.dropTemps st.store k ts.length s2).get x = st.store.get x
            by_cases hxt : ∃ j, k ≤ j ∧ j < k + ts.length ∧ x = tmpName j
            · obtain ⟨j, h1', h2', rfl⟩ := hxt
              exact dropTemps_tmp _ _ _ _ j h1' h2'
            · have hxt' : ∀ j, k ≤ j → j < k + ts.length → x ≠ tmpName j := fun j a b c => hxt ⟨j, a, b, c⟩
              rw [dropTemps_other _ x _ _ _ hxt', assignTemps_frame _ _ _ _ h2 x hx,
                (declTemps_frame _ _ _ _ _ _ h1).2 x hxt']
      | ifs c a b =>
        rw [C.exec] at h
        obtain ⟨v, _, h⟩ := bind_ok h
        simp only [Stmt.assigned, List.mem_append, not_or] at hx
        split at h
        · exact ihe te a st st' h x hx.1
        · exact ihe te b st st' h x hx.2
      | whileLoop c b =>
        rw [C.exec] at h
        obtain ⟨v, _, h⟩ := bind_ok h
        split at h
        · obtain ⟨st1, h1, h⟩ := bind_ok h
          simp only [Stmt.assigned] at hx
          split at h
          · cases h; exact ihe te b st st1 h1 x hx
          · rw [ihe te _ st1 st' h x (by simpa only [Stmt.assigned] using hx), ihe te b st st1 h1 x hx]
        · cases h; rfl
      | forRange i n b =>
        rw [C.exec] at h
        obtain ⟨st1, h1, h⟩ := bind_ok h
        cases h
        simp only [Stmt.assigned] at hx
        by_cases hxi : x = i
        · subst hxi
          show Store.get (match st.store.get x with
            | some v => st1.store.set x v
            | none => st1.store.filter (·.1 ≠ x)) x = _
          cases hsv : st.store.get x with
          | some v => exact get_set_eq _ _ _
          | none => exact get_filter_eq _ _
        · have := ihf _ i n b _ st1 h1 x hx hxi
          show Store.get (match st.store.get i with
            | some v => st1.store.set i v
            | none => st1.store.filter (·.1 ≠ i)) x = _
          cases hsv : st.store.get i with
          | some v => rw [get_set_ne _ _ hxi, this]; exact get_set_ne _ _ hxi
          | none => rw [get_filter_ne _ hxi, this]; exact get_set_ne _ _ hxi
      | write e =>
        rw [C.exec] at h
        obtain ⟨v, _, h⟩ := bind_ok h
        cases h; rfl
      | sleep e =>
        rw [C.exec] at h
        obtain ⟨v, _, h⟩ := bind_ok h
        split at h
        · cases h
        · cases h; rfl
      | brk => rw [C.exec] at h; cases h; rfl
      | call y g ps ls rt body ret args =>
        rw [C.exec] at h
        obtain ⟨vs, _, h⟩ := bind_ok h
        obtain ⟨st1, _, h⟩ := bind_ok h
        split at h
        · cases h
        · cases ret with
          | none =>
            cases y with
            | none => cases h; rfl
            | some y => cases h
          | some e =>
            cases y with
            | none =>
              dsimp only at h
              obtain ⟨v, _, h⟩ := bind_ok h
              cases h; rfl
            | some y =>
              dsimp only at h
              obtain ⟨v, _, h⟩ := bind_ok h
              obtain ⟨s', hs', h⟩ := bind_ok h
              cases h
              obtain ⟨t, _, rfl⟩ := assignTo_ok hs'
              simp only [Stmt.assigned, Option.toList, List.mem_singleton] at hx
              exact get_set_ne _ _ hx
    · intro te i n b st st' h x hx hxi
      rw [C.exec.forLoop] at h
      obtain ⟨iv, _, h⟩ := bind_ok h
      obtain ⟨nv, _, h⟩ := bind_ok h
      split at h
      · obtain ⟨st1, h1, h⟩ := bind_ok h
        split at h
        · cases h; exact ihe te b st st1 h1 x hx
        · obtain ⟨cur, _, h⟩ := bind_ok h
          obtain ⟨nxt, _, h⟩ := bind_ok h
          rw [ihf te i n b _ st' h x hx hxi]
          show Store.get (st1.store.set i nxt) x = _
          rw [get_set_ne _ _ hxi]
          exact ihe te b st st1 h1 x hx
      · cases h; rfl

/-! ### `trNested` and `okNested` -/

theorem trNested_assigned {te : C.TyEnv} {m : Bool} {d : Nat} {s s' : Stmt}
    (h : trNested te m d s = .ok s') : s'.assigned = s.assigned := by
  induction s generalizing te d s' with
  | skip => simp only [trNested] at h; cases h; rfl
  | seq a b iha ihb =>
    rw [trNested] at h
    obtain ⟨a', ha, h⟩ := bind_ok h
    obtain ⟨b', hb, h⟩ := bind_ok h
    cases h
    simp only [Stmt.assigned, iha ha, ihb hb]
  | assign x e => rw [trNested] at h; split at h <;> cases h; rfl
  | aug x op e => rw [trNested] at h; split at h <;> cases h; rfl
  | tuple k xs es => rw [trNested] at h; split at h <;> cases h; rfl
  | ctuple k ts xs es => rw [trNested] at h; cases h
  | ifs c a b iha ihb =>
    rw [trNested] at h
    obtain ⟨a', ha, h⟩ := bind_ok h
    obtain ⟨b', hb, h⟩ := bind_ok h
    cases h
    simp only [Stmt.assigned, iha ha, ihb hb]
  | whileLoop c b ihb =>
    rw [trNested] at h
    obtain ⟨b', hb, h⟩ := bind_ok h
    cases h
    simp only [Stmt.assigned, ihb hb]
  | forRange i n b ihb =>
    rw [trNested] at h
    split at h
    · cases h
    · obtain ⟨b', hb, h⟩ := bind_ok h
      cases h
      simp only [Stmt.assigned, ihb hb]
  | write e => rw [trNested] at h; cases h; rfl
  | sleep e => rw [trNested] at h; cases h; rfl
  | brk => rw [trNested] at h; split at h <;> cases h; rfl
  | call y g ps ls rt body ret args _ =>
    rw [trNested] at h
    split at h
    · split at h
      · cases h
      · obtain ⟨b', _, h⟩ := bind_ok h
        split at h
        · cases h; rfl
        · cases h
    · cases h

/-- inside the fragment every assigned name is declared -/
theorem okNested_assigned_decl {all : List String} {te : C.TyEnv} {s : Stmt}
    (h : s.okNested all te = true) (hall : ∀ x ∈ s.assigned, x ∈ all) :
    ∀ x ∈ s.assigned, (te.lookup x).isSome = true := by
  induction s generalizing te with
  | skip => intro x hx; simp [Stmt.assigned] at hx
  | seq a b iha ihb =>
    simp only [Stmt.okNested, Bool.and_eq_true] at h
    simp only [Stmt.assigned, List.mem_append] at hall ⊢
    intro x hx
    rcases hx with hx | hx
    · exact iha h.1 (fun y hy => hall y (.inl hy)) x hx
    · exact ihb h.2 (fun y hy => hall y (.inr hy)) x hx
  | assign y e =>
    simp only [Stmt.okNested, Bool.and_eq_true, beq_iff_eq] at h
    intro x hx; simp only [Stmt.assigned, List.mem_singleton] at hx; subst hx
    rw [h.2]; rfl
  | aug y op e =>
    simp only [Stmt.okNested, Bool.and_eq_true, beq_iff_eq] at h
    intro x hx; simp only [Stmt.assigned, List.mem_singleton] at hx; subst hx
    rw [h.2]; rfl
  | tuple k xs es =>
    simp only [Stmt.okNested, Bool.and_eq_true, beq_iff_eq] at h
    intro x hx
    simp only [Stmt.assigned] at hx
    obtain ⟨t, ht⟩ := okTargets_mem h.1.1.2 (by omega) x hx
    rw [ht]; rfl
  | ctuple k ts xs es => simp only [Stmt.okNested] at h; cases h
  | ifs c a b iha ihb =>
    simp only [Stmt.okNested, Bool.and_eq_true] at h
    simp only [Stmt.assigned, List.mem_append] at hall ⊢
    intro x hx
    rcases hx with hx | hx
    · exact iha h.1.2 (fun y hy => hall y (.inl hy)) x hx
    · exact ihb h.2 (fun y hy => hall y (.inr hy)) x hx
  | whileLoop c b ihb =>
    simp only [Stmt.okNested, Bool.and_eq_true] at h
    simp only [Stmt.assigned] at hall ⊢
    exact ihb h.2 hall
  | forRange i n b ihb =>
    simp only [Stmt.okNested, Bool.and_eq_true, Bool.not_eq_true', List.contains_eq_mem,
      decide_eq_false_iff_not] at h
    simp only [Stmt.assigned] at hall ⊢
    intro x hx
    have := ihb h.2 hall x hx
    have hxi : x ≠ i := by rintro rfl; exact h.1.1.1.2 (hall x hx)
    rwa [lookup_cons_ne _ _ hxi] at this
  | write e => intro x hx; simp [Stmt.assigned] at hx
  | sleep e => intro x hx; simp [Stmt.assigned] at hx
  | brk => intro x hx; simp [Stmt.assigned] at hx
  | call y g ps ls rt body ret args _ =>
    simp only [Stmt.okNested, Bool.and_eq_true] at h
    obtain ⟨_, hbody⟩ := h
    cases hfd : funDecls ps body with
    | none => rw [hfd] at hbody; cases hbody
    | some te' =>
      rw [hfd] at hbody
      simp only [Bool.and_eq_true] at hbody
      intro x hx
      cases y with
      | none => simp [Stmt.assigned] at hx
      | some y =>
        simp only [Stmt.assigned, Option.toList, List.mem_singleton] at hx
        subst hx
        cases ret with
        | none => simp [callRetOk] at hbody
        | some e =>
          simp only [callRetOk, Bool.and_eq_true, beq_iff_eq] at hbody
          rw [hbody.2.2]; rfl

end Reduino.Lemmas.C01
