import Reduino.Toolchain.Pio
/- helper lemmas for Props/C13.lean (core list lemmas only; no Mathlib needed) -/
namespace Reduino.Lemmas.C13
open Reduino.Toolchain

/-! ### registry -/

theorem any_name_iff (reg : Registry) (p : String) :
    reg.any (fun pb => pb.1 == p) = true ↔ p ∈ reg.map (·.1) := by
  simp only [List.any_eq_true, beq_iff_eq, List.mem_map]

theorem validate_ok_iff (reg : Registry) (p b : String) :
    validate reg p b = .ok ↔ (p ∈ reg.map (·.1) ∧ lastOwner reg b = some p) := by
  unfold validate
  rw [← any_name_iff]
  by_cases h : reg.any (fun pb => pb.1 == p) = true
  · simp only [h, not_true_eq_false, if_false, true_and]
    cases hl : lastOwner reg b with
    | none => simp
    | some q =>
      by_cases hq : q = p
      · simp [hq]
      · simp [hq]
  · simp [h]

theorem lastOwner_some_mem (reg : Registry) (b p : String) (h : lastOwner reg b = some p) :
    ∃ bs, (p, bs) ∈ reg ∧ b ∈ bs := by
  induction reg with
  | nil => simp [lastOwner] at h
  | cons x rest ih =>
    obtain ⟨q, cs⟩ := x
    unfold lastOwner at h
    cases hl : lastOwner rest b with
    | some r =>
      rw [hl] at h
      simp only [Option.some.injEq] at h
      subst h
      obtain ⟨bs, h1, h2⟩ := ih hl
      exact ⟨bs, List.mem_cons_of_mem _ h1, h2⟩
    | none =>
      rw [hl] at h
      simp only at h
      split at h
      · simp only [Option.some.injEq] at h
        subst h
        exact ⟨cs, List.mem_cons_self, by assumption⟩
      · simp at h

theorem lastOwner_none (reg : Registry) (b : String) (h : lastOwner reg b = none) :
    ∀ p bs, (p, bs) ∈ reg → b ∉ bs := by
  induction reg with
  | nil => simp
  | cons x rest ih =>
    obtain ⟨q, cs⟩ := x
    unfold lastOwner at h
    cases hl : lastOwner rest b with
    | some r => rw [hl] at h; simp at h
    | none =>
      rw [hl] at h
      simp only at h
      split at h
      · simp at h
      · intro p bs hm
        rcases List.mem_cons.1 hm with e | hm
        · simp only [Prod.mk.injEq] at e
          obtain ⟨rfl, rfl⟩ := e
          assumption
        · exact ih hl p bs hm

theorem lastOwner_of_partition (reg : Registry) (hp : Partition reg) (p b : String) (bs : List String)
    (h1 : (p, bs) ∈ reg) (h2 : b ∈ bs) : lastOwner reg b = some p := by
  cases hl : lastOwner reg b with
  | none => exact absurd h2 (lastOwner_none reg b hl p bs h1)
  | some q =>
    obtain ⟨cs, h3, h4⟩ := lastOwner_some_mem reg b q hl
    rw [hp.2 p bs q cs b h1 h3 h2 h4]

theorem validate_exact' (reg : Registry) (hp : Partition reg) (p b : String) :
    validate reg p b = .ok ↔
      ((∃ bs, (p, bs) ∈ reg ∧ b ∈ bs) ∧ ∀ q cs, (q, cs) ∈ reg → b ∈ cs → q = p) := by
  rw [validate_ok_iff]
  constructor
  · rintro ⟨_, h⟩
    obtain ⟨bs, h1, h2⟩ := lastOwner_some_mem reg b p h
    exact ⟨⟨bs, h1, h2⟩, fun q cs h3 h4 => hp.2 q cs p bs b h3 h1 h4 h2⟩
  · rintro ⟨⟨bs, h1, h2⟩, _⟩
    exact ⟨List.mem_map.2 ⟨(p, bs), h1, rfl⟩, lastOwner_of_partition reg hp p b bs h1 h2⟩

/-! ### lib de-duplication, env name -/

theorem nodup_reverse' {α} (l : List α) (h : l.Nodup) : l.reverse.Nodup := by
  unfold List.Nodup at *; rw [List.pairwise_reverse]; exact h.imp (fun h => h.symm)

theorem dedup_gen (libs : List Str) : ∀ (acc : List Str), acc.Nodup →
    (dedupLibs libs acc).Nodup ∧
    (∀ l, l ∈ dedupLibs libs acc ↔ (l ∈ acc ∨ (l ∈ libs ∧ l ≠ []))) ∧
    ∃ t, dedupLibs libs acc = acc.reverse ++ t ∧ t.Sublist libs := by
  induction libs with
  | nil =>
    intro acc hn
    refine ⟨by simpa [dedupLibs] using nodup_reverse' _ hn, by simp [dedupLibs], [], by simp [dedupLibs], List.Sublist.refl _⟩
  | cons l rest ih =>
    intro acc hn
    unfold dedupLibs
    by_cases h : l = [] ∨ l ∈ acc
    · rw [if_pos h]
      obtain ⟨h1, h2, t, h3, h4⟩ := ih acc hn
      refine ⟨h1, ?_, t, h3, h4.cons _⟩
      intro l'
      rw [h2 l']
      constructor
      · rintro (h5 | ⟨h5, h6⟩)
        · exact Or.inl h5
        · exact Or.inr ⟨List.mem_cons_of_mem _ h5, h6⟩
      · rintro (h5 | ⟨h5, h6⟩)
        · exact Or.inl h5
        · rcases List.mem_cons.1 h5 with rfl | h5
          · rcases h with h | h
            · exact absurd h h6
            · exact Or.inl h
          · exact Or.inr ⟨h5, h6⟩
    · rw [if_neg h]
      have hl : l ≠ [] := fun e => h (Or.inl e)
      have hm : l ∉ acc := fun e => h (Or.inr e)
      obtain ⟨h1, h2, t, h3, h4⟩ := ih (l :: acc) (List.nodup_cons.2 ⟨hm, hn⟩)
      refine ⟨h1, ?_, l :: t, by rw [h3]; simp, h4.cons_cons _⟩
      intro l'
      rw [h2 l']
      constructor
      · rintro (h5 | ⟨h5, h6⟩)
        · rcases List.mem_cons.1 h5 with rfl | h5
          · exact Or.inr ⟨List.mem_cons_self, hl⟩
          · exact Or.inl h5
        · exact Or.inr ⟨List.mem_cons_of_mem _ h5, h6⟩
      · rintro (h5 | ⟨h5, h6⟩)
        · exact Or.inl (List.mem_cons_of_mem _ h5)
        · rcases List.mem_cons.1 h5 with rfl | h5
          · exact Or.inl List.mem_cons_self
          · exact Or.inr ⟨h5, h6⟩

theorem dedup_id_gen (libs : List Str) : ∀ (acc : List Str), libs.Nodup →
    (∀ l ∈ libs, l ≠ [] ∧ l ∉ acc) → dedupLibs libs acc = acc.reverse ++ libs := by
  induction libs with
  | nil => intro acc _ _; simp [dedupLibs]
  | cons l rest ih =>
    intro acc hn he
    unfold dedupLibs
    have h0 := he l List.mem_cons_self
    rw [if_neg (by rintro (h | h); exact h0.1 h; exact h0.2 h)]
    rw [List.nodup_cons] at hn
    rw [ih (l :: acc) hn.2]
    · simp
    · intro l' hl'
      refine ⟨(he l' (List.mem_cons_of_mem _ hl')).1, ?_⟩
      intro h
      rcases List.mem_cons.1 h with rfl | h
      · exact hn.1 hl'
      · exact (he l' (List.mem_cons_of_mem _ hl')).2 h

theorem sanitizeGo_word (s : Str) : ∀ (b : Bool), ∀ c ∈ sanitizeGo b s, isWord c = true := by
  induction s with
  | nil => intro b c h; simp [sanitizeGo] at h
  | cons x rest ih =>
    intro b c h
    unfold sanitizeGo at h
    split at h
    · rcases List.mem_cons.1 h with rfl | h
      · assumption
      · exact ih _ c h
    · split at h
      · exact ih _ c h
      · rcases List.mem_cons.1 h with rfl | h
        · decide
        · exact ih _ c h

/-! ### strip / rstrip / lstrip -/

theorem rstrip_nil : rstrip [] = [] := rfl

theorem rstrip_cons (c : Char) (s : Str) :
    rstrip (c :: s) = if rstrip s = [] then (if isSpace c then [] else [c]) else c :: rstrip s := by
  unfold rstrip
  rw [List.reverse_cons, List.dropWhile_append]
  cases hd : List.dropWhile isSpace s.reverse with
  | nil =>
    simp only [List.isEmpty_nil, if_true, List.reverse_nil]
    by_cases hc : isSpace c = true <;> simp [hc]
  | cons x xs => simp

theorem rstrip_cons_nonspace (c : Char) (s : Str) (hc : isSpace c = false) :
    rstrip (c :: s) = c :: rstrip s := by
  rw [rstrip_cons]; split
  · next h => simp [hc, h]
  · rfl

theorem rstrip_append_nonspace (k t : Str) (hk : ∀ c ∈ k, isSpace c = false) :
    rstrip (k ++ t) = k ++ rstrip t := by
  induction k with
  | nil => rfl
  | cons c k ih =>
    rw [List.cons_append, rstrip_cons_nonspace _ _ (hk c List.mem_cons_self),
      ih (fun c h => hk c (List.mem_cons_of_mem _ h))]
    rfl

theorem rstrip_append_of_ne (a b : Str) (hb : rstrip b ≠ []) : rstrip (a ++ b) = a ++ rstrip b := by
  induction a with
  | nil => rfl
  | cons c a ih =>
    rw [List.cons_append, rstrip_cons, ih, if_neg (by simp [hb])]
    rfl

theorem rstrip_append_of_eq (a b : Str) (hb : rstrip b = []) : rstrip (a ++ b) = rstrip a := by
  induction a with
  | nil => rw [List.nil_append, hb]; rfl
  | cons c a ih => rw [List.cons_append, rstrip_cons, ih, ← rstrip_cons]

theorem rstrip_length_le (s : Str) : (rstrip s).length ≤ s.length := by
  induction s with
  | nil => simp [rstrip]
  | cons c s ih =>
    rw [rstrip_cons]; split
    · split <;> simp
    · simpa using ih

theorem rstrip_idem (s : Str) : rstrip (rstrip s) = rstrip s := by
  induction s with
  | nil => rfl
  | cons c s ih =>
    rw [rstrip_cons]
    split
    · by_cases hc : isSpace c = true
      · simp [hc, rstrip_nil]
      · simp only [hc, Bool.false_eq_true, if_false]
        rw [rstrip_cons_nonspace _ _ (by simpa using hc)]; rfl
    · next h => rw [rstrip_cons, ih, if_neg h]

theorem lstrip_cons_space (c : Char) (s : Str) (hc : isSpace c = true) : lstrip (c :: s) = lstrip s := by
  simp [lstrip, hc]

theorem lstrip_cons_nonspace (c : Char) (s : Str) (hc : isSpace c = false) : lstrip (c :: s) = c :: s := by
  simp [lstrip, hc]

theorem lstrip_length_le (s : Str) : (lstrip s).length ≤ s.length := by
  induction s with
  | nil => simp [lstrip]
  | cons c s ih =>
    by_cases hc : isSpace c = true
    · rw [lstrip_cons_space _ _ hc]; simp; omega
    · rw [lstrip_cons_nonspace _ _ (by simpa using hc)]; simp

theorem lstrip_rstrip_comm (s : Str) : lstrip (rstrip s) = rstrip (lstrip s) := by
  induction s with
  | nil => rfl
  | cons c s ih =>
    by_cases hc : isSpace c = true
    · rw [lstrip_cons_space _ _ hc, rstrip_cons]
      split
      · next h => rw [← ih, h]
      · rw [lstrip_cons_space _ _ hc, ih]
    · have hc' : isSpace c = false := by simpa using hc
      rw [lstrip_cons_nonspace _ _ hc', rstrip_cons_nonspace _ _ hc', lstrip_cons_nonspace _ _ hc']

theorem strip_rstrip (s : Str) : strip (rstrip s) = strip s := by
  unfold strip; rw [lstrip_rstrip_comm, rstrip_idem]

theorem strip_cons_space (c : Char) (s : Str) (hc : isSpace c = true) : strip (c :: s) = strip s := by
  unfold strip; rw [lstrip_cons_space _ _ hc]

theorem strip_cons_nonspace (c : Char) (s : Str) (hc : isSpace c = false) :
    strip (c :: s) = c :: rstrip s := by
  unfold strip; rw [lstrip_cons_nonspace _ _ hc, rstrip_cons_nonspace _ _ hc]

theorem strip_nil : strip [] = [] := rfl

/-- a strip-invariant string is rstrip-invariant -/
theorem rstrip_of_strip (v : Str) (h : strip v = v) : rstrip v = v := by
  cases v with
  | nil => rfl
  | cons c t =>
    by_cases hc : isSpace c = true
    · exfalso
      rw [strip_cons_space _ _ hc] at h
      have h1 : (strip t).length ≤ t.length := by
        unfold strip
        exact Nat.le_trans (rstrip_length_le _) (lstrip_length_le _)
      rw [h] at h1; simp only [List.length_cons] at h1; omega
    · have hc' : isSpace c = false := by simpa using hc
      rw [strip_cons_nonspace _ _ hc'] at h
      rw [rstrip_cons_nonspace _ _ hc', h]

theorem head_nonspace_of_strip (c : Char) (t : Str) (h : strip (c :: t) = c :: t) : isSpace c = false := by
  by_cases hc : isSpace c = true
  · exfalso
    rw [strip_cons_space _ _ hc] at h
    have h1 : (strip t).length ≤ t.length := by
      unfold strip
      exact Nat.le_trans (rstrip_length_le _) (lstrip_length_le _)
    rw [h] at h1; simp only [List.length_cons] at h1; omega
  · simpa using hc


/-! ### feed on the kinds of line the renderer produces -/

theorem sectionName_of_ne (c0 : Char) (t : Str) (h : c0 ≠ '[') : sectionName? (c0 :: t) = none := by
  unfold sectionName?
  split
  · next heq => simp at heq; exact absurd heq.1 h
  · rfl

theorem sectionName_header (body : Str) (hb : body ≠ []) :
    sectionName? ('[' :: (body ++ [']'])) = some body := by
  simp [sectionName?, hb]

theorem feed_of_indent0 (st : PState) (line : Str) (h0 : indentOf line = 0) (hs : strip line ≠ [])
    (hc1 : (strip line).head? ≠ some '#') (hc2 : (strip line).head? ≠ some ';') :
    feed st line = feed.feedHead st line (strip line) 0 := by
  unfold feed
  simp only [hs, if_false, h0, hc1, hc2, or_self]
  cases st.cur <;> cases st.optIndent <;> simp

theorem indentOf_cons_nonspace (c : Char) (t : Str) (hc : isSpace c = false) : indentOf (c :: t) = 0 := by
  simp [indentOf, hc]

theorem feedHead_kv (st : PState) (sec : Section) (line : Str) (c0 : Char) (k w : Str) (ind : Nat)
    (hcur : st.cur = some sec) (h0 : c0 ≠ '[')
    (hk : ∀ c ∈ c0 :: k, isSpace c = false ∧ isDelim c = false) :
    feed.feedHead st line (c0 :: (k ++ ' ' :: '=' :: w)) ind =
      some { st with cur := some { sec with opts := sec.opts ++ [((c0 :: k).map Char.toLower, [strip w])] },
                     optIndent := some ind } := by
  unfold feed.feedHead
  rw [sectionName_of_ne _ _ h0]
  simp only [hcur]
  have e : c0 :: (k ++ ' ' :: '=' :: w) = (c0 :: k ++ [' ']) ++ '=' :: w := by simp
  have hp : ∀ a ∈ c0 :: k ++ [' '], (fun c => !isDelim c) a = true := by
    intro a ha
    rcases List.mem_append.1 ha with ha | ha
    · simp [(hk a ha).2]
    · simp at ha; subst ha; decide
  rw [e, List.takeWhile_append_of_pos hp, List.dropWhile_append_of_pos hp]
  have h1 : List.takeWhile (fun c => !isDelim c) ('=' :: w) = [] := by
    simp [isDelim]
  have h2 : List.dropWhile (fun c => !isDelim c) ('=' :: w) = '=' :: w := by
    simp [isDelim]
  rw [h1, h2, List.append_nil, rstrip_append_nonspace _ _ (fun c h => (hk c h).1)]
  have h3 : rstrip [' '] = [] := by decide
  rw [h3, List.append_nil]
  simp

theorem feed_kv (st : PState) (sec : Section) (c0 : Char) (k w : Str)
    (hcur : st.cur = some sec) (h0 : c0 ≠ '[') (h1 : c0 ≠ '#') (h2 : c0 ≠ ';')
    (hk : ∀ c ∈ c0 :: k, isSpace c = false ∧ isDelim c = false) :
    feed st (c0 :: (k ++ ' ' :: '=' :: w)) =
      some { st with cur := some { sec with opts := sec.opts ++ [((c0 :: k).map Char.toLower, [strip w])] },
                     optIndent := some 0 } := by
  have hc0 := (hk c0 List.mem_cons_self).1
  have hs : strip (c0 :: (k ++ ' ' :: '=' :: w)) = c0 :: (k ++ ' ' :: '=' :: rstrip w) := by
    rw [strip_cons_nonspace _ _ hc0]
    have e : k ++ ' ' :: '=' :: w = (k ++ [' ']) ++ '=' :: w := by simp
    have hd : isSpace '=' = false := by decide
    rw [e, rstrip_append_of_ne _ _ (by rw [rstrip_cons_nonspace _ _ hd]; simp),
      rstrip_cons_nonspace _ _ hd]
    simp
  rw [feed_of_indent0 st _ (indentOf_cons_nonspace _ _ hc0) (by rw [hs]; simp)
    (by rw [hs]; simpa using h1) (by rw [hs]; simpa using h2), hs,
    feedHead_kv st sec _ c0 k (rstrip w) 0 hcur h0 hk, strip_rstrip]

theorem feed_header (st : PState) (body : Str) (hb : body ≠ []) :
    feed st ('[' :: (body ++ [']'])) =
      some { done := closeCur st, cur := some { name := body, opts := [] }, optIndent := none } := by
  have hs : strip ('[' :: (body ++ [']'])) = '[' :: (body ++ [']']) := by
    rw [strip_cons_nonspace _ _ (by decide), rstrip_append_of_ne _ _ (by decide)]
    have : rstrip [']'] = [']'] := by decide
    rw [this]
  rw [feed_of_indent0 st _ (indentOf_cons_nonspace _ _ (by decide)) (by rw [hs]; simp)
    (by rw [hs]; simp) (by rw [hs]; simp), hs]
  unfold feed.feedHead
  rw [sectionName_header _ hb]

theorem appendToLast_snoc (n : Str) (xs : List (Str × List Str)) (k : Str) (vs : List Str) (v : Str) :
    appendToLast { name := n, opts := xs ++ [(k, vs)] } v = { name := n, opts := xs ++ [(k, vs ++ [v])] } := by
  simp [appendToLast]

theorem feed_blank (st : PState) (sec : Section) (oi : Nat) (hcur : st.cur = some sec)
    (hoi : st.optIndent = some oi) :
    feed st [] = some { st with cur := some (appendToLast sec []) } := by
  unfold feed
  simp [strip_nil, hcur, hoi]

theorem feed_cont (st : PState) (sec : Section) (lib : Str) (hcur : st.cur = some sec)
    (hoi : st.optIndent = some 0) (hs : strip lib = lib) (hne : lib ≠ [])
    (hc1 : lib.head? ≠ some '#') (hc2 : lib.head? ≠ some ';') :
    feed st (' ' :: ' ' :: lib) = some { st with cur := some (appendToLast sec lib) } := by
  have hsp : isSpace ' ' = true := by decide
  have hs' : strip (' ' :: ' ' :: lib) = lib := by
    rw [strip_cons_space _ _ hsp, strip_cons_space _ _ hsp, hs]
  have hind : indentOf (' ' :: ' ' :: lib) > 0 := by
    simp [indentOf, hsp]
  unfold feed
  simp only [hs', hne, if_false, hc1, hc2, or_self, hcur, hoi, hind, if_true]


theorem feed_kv' (st : PState) (sec : Section) (line key v : Str) (c0 : Char) (k w : Str)
    (hline : line = c0 :: (k ++ ' ' :: '=' :: w)) (hkey : (c0 :: k).map Char.toLower = key)
    (hv : strip w = v)
    (hcur : st.cur = some sec) (h0 : c0 ≠ '[') (h1 : c0 ≠ '#') (h2 : c0 ≠ ';')
    (hk : ∀ c ∈ c0 :: k, isSpace c = false ∧ isDelim c = false) :
    feed st line =
      some { st with cur := some { sec with opts := sec.opts ++ [(key, [v])] }, optIndent := some 0 } := by
  rw [hline, feed_kv st sec c0 k w hcur h0 h1 h2 hk, hkey, hv]

/-- what the reader needs of a library name -/
def LibOk (l : Str) : Prop :=
  strip l = l ∧ l ≠ [] ∧ l.head? ≠ some '#' ∧ l.head? ≠ some ';' ∧ ∀ c ∈ l, c ≠ '\n'

theorem foldl_cont (done : List Section) (n : Str) (xs : List (Str × List Str)) (k : Str)
    (libs : List Str) (hl : ∀ l ∈ libs, LibOk l) : ∀ vs : List Str,
    List.foldlM feed
      ({ done := done, cur := some { name := n, opts := xs ++ [(k, vs)] }, optIndent := some 0 } : PState)
      (libs.map (fun l => ' ' :: ' ' :: l)) =
    some { done := done, cur := some { name := n, opts := xs ++ [(k, vs ++ libs)] }, optIndent := some 0 } := by
  induction libs with
  | nil => intro vs; simp
  | cons l rest ih =>
    intro vs
    obtain ⟨h1, h2, h3, h4, _⟩ := hl l List.mem_cons_self
    rw [List.map_cons, List.foldlM_cons, feed_cont _ _ l rfl rfl h1 h2 h3 h4]
    simp only [appendToLast_snoc, Option.bind_eq_bind, Option.bind_some]
    rw [ih (fun l h => hl l (List.mem_cons_of_mem _ h)) (vs ++ [l])]
    simp

theorem intercalate_rstrip (u : List Str) (hne : u ≠ []) (hu : ∀ l ∈ u, rstrip l = l ∧ l ≠ []) :
    rstrip (List.intercalate ['\n'] u) = List.intercalate ['\n'] u ∧ rstrip (List.intercalate ['\n'] u) ≠ [] := by
  induction u with
  | nil => exact absurd rfl hne
  | cons l rest ih =>
    cases rest with
    | nil =>
      rw [List.intercalate_singleton]
      have := hu l List.mem_cons_self
      exact ⟨this.1, by rw [this.1]; exact this.2⟩
    | cons l' rest' =>
      have ih' := ih (by simp) (fun x h => hu x (List.mem_cons_of_mem _ h))
      rw [List.intercalate_cons_cons, rstrip_append_of_ne _ _ ih'.2, ih'.1]
      exact ⟨rfl, by simp⟩

theorem valueItems_join (u : List Str) (hne : u ≠ []) (hu : ∀ l ∈ u, LibOk l) :
    valueItems (joinValue ([] :: u)) = u := by
  have hr : ∀ l ∈ u, rstrip l = l ∧ l ≠ [] := fun l h => ⟨rstrip_of_strip l (hu l h).1, (hu l h).2.1⟩
  have hj := intercalate_rstrip u hne hr
  have e : joinValue ([] :: u) = List.intercalate ['\n'] ([] :: u) := by
    unfold joinValue
    cases u with
    | nil => exact absurd rfl hne
    | cons l ls =>
      rw [List.intercalate_cons_cons, rstrip_append_of_ne _ _ hj.2, hj.1]
  rw [e]
  unfold valueItems
  rw [List.splitOn_intercalate '\n' _ (by simp)]
  · rw [List.map_cons, strip_nil, List.filter_cons_of_neg (by simp)]
    have hm : List.map strip u = u := by
      conv => rhs; rw [← List.map_id u]
      exact List.map_congr_left (fun l h => (hu l h).1)
    rw [hm, List.filter_eq_self]
    intro l h; simpa using (hu l h).2.1
  · intro l h
    rcases List.mem_cons.1 h with rfl | h
    · simp
    · intro hc; exact (hu l h).2.2.2.2 _ hc rfl


/-- the reader's state after the five fixed lines -/
theorem fold_five (c : Cfg) (hport : strip c.port = c.port) (hplat : strip c.platform = c.platform)
    (hboard : strip c.board = c.board) :
    List.foldlM feed ({} : PState)
      [ "[env:".toList ++ sanitize c.board ++ "]".toList,
        "platform = ".toList ++ c.platform,
        "board = ".toList ++ c.board,
        "framework = arduino".toList,
        "upload_port = ".toList ++ c.port ] =
    some { done := [],
           cur := some { name := "env:".toList ++ sanitize c.board,
                         opts := [ ("platform".toList, [c.platform]), ("board".toList, [c.board]),
                                   ("framework".toList, ["arduino".toList]) ] ++
                                 [("upload_port".toList, [c.port])] },
           optIndent := some 0 } := by
  have hsp : isSpace ' ' = true := by decide
  have e1 : "[env:".toList ++ sanitize c.board ++ "]".toList
      = '[' :: (("env:".toList ++ sanitize c.board) ++ [']']) := rfl
  have f1 := feed_header ({} : PState) ("env:".toList ++ sanitize c.board) (by simp)
  rw [← e1] at f1
  simp only [List.foldlM_cons, List.foldlM_nil, f1, Option.bind_eq_bind, Option.bind_some]
  rw [feed_kv' _ _ ("platform = ".toList ++ c.platform) "platform".toList c.platform 'p' "latform".toList (' ' :: c.platform) rfl (by decide)
    (by rw [strip_cons_space _ _ hsp, hplat]) rfl (by decide) (by decide) (by decide) (by decide)]
  simp only [Option.bind_some]
  rw [feed_kv' _ _ ("board = ".toList ++ c.board) "board".toList c.board 'b' "oard".toList (' ' :: c.board) rfl (by decide)
    (by rw [strip_cons_space _ _ hsp, hboard]) rfl (by decide) (by decide) (by decide) (by decide)]
  simp only [Option.bind_some]
  rw [feed_kv' _ _ "framework = arduino".toList "framework".toList "arduino".toList 'f' "ramework".toList " arduino".toList rfl (by decide)
    (by decide) rfl (by decide) (by decide) (by decide) (by decide)]
  simp only [Option.bind_some]
  rw [feed_kv' _ _ ("upload_port = ".toList ++ c.port) "upload_port".toList c.port 'u' "pload_port".toList (' ' :: c.port) rfl (by decide)
    (by rw [strip_cons_space _ _ hsp, hport]) rfl (by decide) (by decide) (by decide) (by decide)]
  simp [closeCur]

theorem joinValue_single (v : Str) (h : strip v = v) : joinValue [v] = v := by
  unfold joinValue; rw [List.intercalate_singleton, rstrip_of_strip v h]

theorem joinValue_blank (v : Str) (h : strip v = v) : joinValue [v, []] = v := by
  unfold joinValue
  rw [List.intercalate_cons_cons, List.intercalate_singleton, List.append_nil,
    rstrip_append_of_eq _ _ (by decide), rstrip_of_strip v h]

theorem roundtrip_core (c : Cfg) (hport : strip c.port = c.port) (hplat : strip c.platform = c.platform)
    (hboard : strip c.board = c.board) (hlibs : ∀ l ∈ dedupLibs c.libs [], LibOk l) :
    ∃ libv, parseLines (iniLines c) = some
      [ ("env:".toList ++ sanitize c.board,
          [ ("platform".toList, c.platform), ("board".toList, c.board),
            ("framework".toList, "arduino".toList), ("upload_port".toList, c.port) ] ++
          (if dedupLibs c.libs [] = [] then [] else [("lib_deps".toList, libv)])) ] ∧
      (dedupLibs c.libs [] ≠ [] → valueItems libv = dedupLibs c.libs []) := by
  have h5 := fold_five c hport hplat hboard
  have hard : joinValue ["arduino".toList] = "arduino".toList := joinValue_single _ (by decide)
  have hard' : joinValue [['a', 'r', 'd', 'u', 'i', 'n', 'o']] = ['a', 'r', 'd', 'u', 'i', 'n', 'o'] := hard
  unfold iniLines libLines parseLines
  cases hu : dedupLibs c.libs [] with
  | nil =>
    refine ⟨[], ?_, fun h => absurd rfl h⟩
    simp only [List.append_nil, h5]
    simp [closeCur, joinValue_single, hport, hplat, hboard, hard']
  | cons l ls =>
    rw [hu] at hlibs
    refine ⟨joinValue ([] :: l :: ls), ?_, fun _ => valueItems_join _ (by simp) hlibs⟩
    simp only [List.foldlM_append, h5, Option.bind_eq_bind, Option.bind_some, List.foldlM_cons]
    rw [feed_blank _ _ 0 rfl rfl]
    simp only [appendToLast_snoc, Option.bind_some]
    rw [feed_kv' _ _ "lib_deps =".toList "lib_deps".toList [] 'l' "ib_deps".toList [] rfl (by decide)
      rfl rfl (by decide) (by decide) (by decide) (by decide)]
    simp only [Option.bind_some]
    rw [foldl_cont _ _ _ _ _ hlibs]
    simp [closeCur, joinValue_single, joinValue_blank, hport, hplat, hboard, hard']

end Reduino.Lemmas.C13
