import Reduino.Toolchain.Pio
/- helper lemmas for Props/C13.lean (may import individual Mathlib modules) -/
namespace Reduino.Lemmas.C13
end Reduino.Lemmas.C13
