import Reduino.Lang.Assemble
/- helper lemmas for Props/C05.lean -/
namespace Reduino.Lemmas.C05
open Reduino.Lang.Assemble

/-! ### generic list facts -/

/-- a split of the image of `filterMap` comes from a split of the source list -/
theorem filterMap_eq_append_cons {α β : Type} (f : α → Option β) :
    ∀ (l : List α) (a b : List β) (y : β), l.filterMap f = a ++ y :: b →
      ∃ l1 x l2, l = l1 ++ x :: l2 ∧ f x = some y ∧ l1.filterMap f = a ∧ l2.filterMap f = b := by
  intro l
  induction l with
  | nil => intro a b y h; cases a <;> simp at h
  | cons x xs ih =>
    intro a b y h
    cases hfx : f x with
    | none =>
      rw [List.filterMap_cons_none hfx] at h
      obtain ⟨l1, x', l2, hl, hx', h1, h2⟩ := ih a b y h
      refine ⟨x :: l1, x', l2, by rw [hl]; rfl, hx', ?_, h2⟩
      rw [List.filterMap_cons_none hfx]; exact h1
    | some z =>
      rw [List.filterMap_cons_some hfx] at h
      cases a with
      | nil =>
        simp only [List.nil_append, List.cons.injEq] at h
        obtain ⟨rfl, h2⟩ := h
        exact ⟨[], x, xs, rfl, hfx, rfl, h2⟩
      | cons a0 a' =>
        simp only [List.cons_append, List.cons.injEq] at h
        obtain ⟨rfl, h2⟩ := h
        obtain ⟨l1, x', l2, hl, hx', h1, h2'⟩ := ih a' b y h2
        refine ⟨x :: l1, x', l2, by rw [hl]; rfl, hx', ?_, h2'⟩
        rw [List.filterMap_cons_some hfx, h1]

/-- where does a distinguished element of `l1 ++ l2` lie? -/
theorem append_eq_split {α : Type} (x : α) :
    ∀ (l1 l2 pre post : List α), l1 ++ l2 = pre ++ x :: post →
      (∃ post', l1 = pre ++ x :: post') ∨ (∃ pre', pre = l1 ++ pre' ∧ l2 = pre' ++ x :: post) := by
  intro l1
  induction l1 with
  | nil => intro l2 pre post h; exact Or.inr ⟨pre, rfl, h⟩
  | cons a l1 ih =>
    intro l2 pre post h
    cases pre with
    | nil =>
      simp only [List.cons_append, List.nil_append, List.cons.injEq] at h
      obtain ⟨rfl, _⟩ := h
      exact Or.inl ⟨l1, rfl⟩
    | cons b pre =>
      simp only [List.cons_append, List.cons.injEq] at h
      obtain ⟨rfl, h⟩ := h
      rcases ih l2 pre post h with ⟨post', hp⟩ | ⟨pre', hp, h2⟩
      · exact Or.inl ⟨post', by rw [hp]; rfl⟩
      · exact Or.inr ⟨pre', by rw [hp]; rfl, h2⟩

theorem mem_repeatList {α : Type} (l : List α) (x : α) : ∀ N, x ∈ repeatList l N → x ∈ l
  | 0, h => by simp [repeatList] at h
  | N + 1, h => by
    simp only [repeatList, List.mem_append] at h
    rcases h with h | h
    · exact h
    · exact mem_repeatList l x N h

theorem filterMap_repeatList {α β : Type} (f : α → Option β) (l : List α) :
    ∀ N, (repeatList l N).filterMap f = repeatList (l.filterMap f) N
  | 0 => rfl
  | N + 1 => by
    simp only [repeatList, List.filterMap_append, filterMap_repeatList f l N]

theorem filterMap_length_eq_filter_length {α β : Type} (f : α → Option β) (b : α → Bool)
    (h : ∀ a, (f a).isSome = b a) (l : List α) : (l.filterMap f).length = (l.filter b).length := by
  induction l with
  | nil => rfl
  | cons a l ih =>
    have ha := h a
    cases hfa : f a with
    | none =>
      rw [hfa] at ha
      have hb : b a = false := by rw [← ha]; rfl
      rw [List.filterMap_cons_none hfa, List.filter_cons_of_neg (by simp [hb])]
      exact ih
    | some z =>
      rw [hfa] at ha
      have hb : b a = true := by rw [← ha]; rfl
      rw [List.filterMap_cons_some hfa, List.filter_cons_of_pos hb]
      simp only [List.length_cons, ih]

/-! ### the insertion sort preserves length -/

theorem insertSorted_length (x : String) : ∀ l, (insertSorted x l).length = l.length + 1
  | [] => rfl
  | y :: ys => by
    unfold insertSorted
    split
    · rfl
    · simp only [List.length_cons, insertSorted_length x ys]

theorem sortNames_length : ∀ l, (sortNames l).length = l.length
  | [] => rfl
  | x :: xs => by
    have ih := sortNames_length xs
    unfold sortNames at ih ⊢
    rw [List.foldr_cons, insertSorted_length, ih]
    rfl

/-! ### which events the pieces of the assembly contain -/

theorem kind_cover (k : Kind) : pass1Setup k = true ∨ pass2Setup k = true := by
  cases k <;> simp [pass1Setup, pass2Setup]

theorem pass1_only_cfg (p : Prog) : ∀ e ∈ pass1 p, ∃ n, e = Ev.cfg n := by
  intro e he
  unfold pass1 at he
  rw [List.mem_append, List.mem_filterMap, List.mem_filterMap] at he
  rcases he with ⟨i, _, hi⟩ | ⟨i, _, hi⟩
  · cases i with
    | decl k n =>
      cases hk : pass1Setup k <;> simp [hk] at hi
      exact ⟨n, hi.symm⟩
    | use n => simp at hi
    | stmt t => simp at hi
  · cases i with
    | decl k n =>
      cases hk : hoistedFromLoop k <;> simp [hk] at hi
      exact ⟨n, hi.symm⟩
    | use n => simp at hi
    | stmt t => simp at hi

theorem use_not_mem_pass1 (p : Prog) (n : String) : Ev.use n ∉ pass1 p := by
  intro h
  obtain ⟨m, hm⟩ := pass1_only_cfg p _ h
  cases hm

theorem polls_only_poll (p : Prog) : ∀ e ∈ polls p, ∃ n, e = Ev.poll n := by
  intro e he
  unfold polls at he
  rw [List.mem_map] at he
  obtain ⟨n, _, hn⟩ := he
  exact ⟨n, hn.symm⟩

theorem cfg_mem_pass1_of_setup (p : Prog) (k : Kind) (n : String) (h : Item.decl k n ∈ p.setup)
    (hk : pass1Setup k = true) : Ev.cfg n ∈ pass1 p := by
  unfold pass1
  apply List.mem_append_left
  rw [List.mem_filterMap]
  exact ⟨_, h, by simp [hk]⟩

theorem cfg_mem_pass1_of_loop (p : Prog) (k : Kind) (n : String) (h : Item.decl k n ∈ p.loop)
    (hk : hoistedFromLoop k = true) : Ev.cfg n ∈ pass1 p := by
  unfold pass1
  apply List.mem_append_right
  rw [List.mem_filterMap]
  exact ⟨_, h, by simp [hk]⟩

theorem cfg_mem_pass2 (l : List Item) (k : Kind) (n : String) (h : Item.decl k n ∈ l)
    (hk : pass2Setup k = true) : Ev.cfg n ∈ pass2Setup' l := by
  unfold pass2Setup'
  rw [List.mem_filterMap]
  exact ⟨_, h, by simp [hk]⟩

/-- a declaration anywhere in a prefix `l` of `setup()` is configured by pass 1 or by pass 2 within that prefix -/
theorem cfg_mem_of_decl_setup (p : Prog) (l : List Item) (k : Kind) (n : String)
    (hl : Item.decl k n ∈ l) (hsub : ∀ i ∈ l, i ∈ p.setup) : Ev.cfg n ∈ pass1 p ++ pass2Setup' l := by
  rcases kind_cover k with hk | hk
  · exact List.mem_append_left _ (cfg_mem_pass1_of_setup p k n (hsub _ hl) hk)
  · exact List.mem_append_right _ (cfg_mem_pass2 l k n hl hk)

/-- the loop body part of `loopEvents` -/
theorem loopBody_mem (l : List Item) (e : Ev)
    (he : e ∈ l.filterMap fun i => match i with
      | .decl _ _ => none
      | .use n => some (Ev.use n)
      | .stmt t => some (Ev.stmt t)) :
    (∃ n, e = Ev.use n ∧ Item.use n ∈ l) ∨ (∃ t, e = Ev.stmt t ∧ Item.stmt t ∈ l) := by
  rw [List.mem_filterMap] at he
  obtain ⟨i, hi, hie⟩ := he
  cases i with
  | decl k n => simp at hie
  | use n => simp at hie; exact Or.inl ⟨n, hie.symm, hi⟩
  | stmt t => simp at hie; exact Or.inr ⟨t, hie.symm, hi⟩

theorem loopEvents_cases (p : Prog) (e : Ev) (he : e ∈ loopEvents p) :
    (∃ n, e = Ev.poll n) ∨ (∃ n, e = Ev.use n ∧ Item.use n ∈ p.loop) ∨ (∃ t, e = Ev.stmt t ∧ Item.stmt t ∈ p.loop) := by
  unfold loopEvents at he
  rw [List.mem_append] at he
  rcases he with he | he
  · exact Or.inl (polls_only_poll p e he)
  · exact Or.inr (loopBody_mem p.loop e he)

theorem use_mem_loopEvents (p : Prog) (n : String) (h : Ev.use n ∈ loopEvents p) : Item.use n ∈ p.loop := by
  rcases loopEvents_cases p _ h with ⟨m, hm⟩ | ⟨m, hm, hmem⟩ | ⟨t, ht, _⟩
  · cases hm
  · cases hm; exact hmem
  · cases ht

/-- the element of `setup()` behind a `use` event of pass 2 -/
theorem pass2_use_split (l : List Item) (a b : List Ev) (n : String) (h : pass2Setup' l = a ++ Ev.use n :: b) :
    ∃ l1 l2, l = l1 ++ Item.use n :: l2 ∧ pass2Setup' l1 = a := by
  unfold pass2Setup' at h
  obtain ⟨l1, x, l2, hl, hx, h1, _⟩ := filterMap_eq_append_cons _ l a b _ h
  refine ⟨l1, l2, ?_, h1⟩
  cases x with
  | decl k m =>
    cases hk : pass2Setup k <;> simp [hk] at hx
  | use m =>
    simp at hx; rw [hl, hx]
  | stmt t => simp at hx

/-! ### statement projection, stated for arbitrary projections with the right values on constructors -/

theorem prologue_gen (g : Ev → Option Nat) (g' : Item → Option Nat)
    (h1 : ∀ n, g (.cfg n) = none) (h2 : ∀ n, g (.use n) = none) (h3 : ∀ t, g (.stmt t) = some t)
    (h4 : ∀ n, g (.poll n) = none)
    (h1' : ∀ k n, g' (.decl k n) = none) (h2' : ∀ n, g' (.use n) = none) (h3' : ∀ t, g' (.stmt t) = some t)
    (p : Prog) (N : Nat) :
    (run p N).filterMap g = p.setup.filterMap g' ++ repeatList (p.loop.filterMap g') N := by
  have hp1 : (pass1 p).filterMap g = [] := by
    rw [List.filterMap_eq_nil_iff]
    intro e he
    obtain ⟨n, rfl⟩ := pass1_only_cfg p e he
    exact h1 n
  have hpolls : (polls p).filterMap g = [] := by
    rw [List.filterMap_eq_nil_iff]
    intro e he
    obtain ⟨n, rfl⟩ := polls_only_poll p e he
    exact h4 n
  have hp2 : ∀ l : List Item, (pass2Setup' l).filterMap g = l.filterMap g' := by
    intro l
    unfold pass2Setup'
    induction l with
    | nil => rfl
    | cons i l ih =>
      cases i with
      | decl k n =>
        cases hk : pass2Setup k <;> simp [hk, h1, h1', ih]
      | use n => simp [h2, h2', ih]
      | stmt t => simp [h3, h3', ih]
  have hbody : (p.loop.filterMap fun i => match i with
      | .decl _ _ => none
      | .use n => some (Ev.use n)
      | .stmt t => some (Ev.stmt t)).filterMap g = p.loop.filterMap g' := by
    induction p.loop with
    | nil => rfl
    | cons i l ih =>
      cases i with
      | decl k n => simp [h1', ih]
      | use n => simp [h2, h2', ih]
      | stmt t => simp [h3, h3', ih]
  have hloop : (loopEvents p).filterMap g = p.loop.filterMap g' := by
    unfold loopEvents
    rw [List.filterMap_append, hpolls, List.nil_append]
    exact hbody
  unfold run setupEvents
  rw [List.filterMap_append, List.filterMap_append, hp1, List.nil_append, hp2, filterMap_repeatList, hloop]

end Reduino.Lemmas.C05
