import Reduino.Fw.ListRange
/- Lemmas for Props/C01Range: the counting walk and the fill walk of `__redu_list_from_range` against the closed form of Python's range. -/
namespace Reduino.Fw.ListRange
open Reduino.Fw.Heap

/-! ### arithmetic of the closed form -/

theorem cnt_nonpos {d s : Int} (hs : 0 < s) (hd : d ≤ 0) : ((d + s - 1) / s).toNat = 0 := by
  have h : (d + s - 1) / s < 1 := Int.ediv_lt_of_lt_mul hs (by omega)
  omega

theorem cnt_pos {d s : Int} (hs : 0 < s) (hd : 0 < d) : ((d + s - 1) / s).toNat = ((d - s + s - 1) / s).toNat + 1 := by
  have e1 : d + s - 1 = (d - 1) + 1 * s := by omega
  have e2 : d - s + s - 1 = d - 1 := by omega
  have h0 : 0 ≤ (d - 1) / s := Int.ediv_nonneg (by omega) (by omega)
  rw [e1, Int.add_mul_ediv_right _ _ (by omega : s ≠ 0), e2]
  omega

theorem len_up_step {a b s : Int} (hs : 0 < s) (h : a < b) : pyRangeLen a b s = pyRangeLen (a + s) b s + 1 := by
  unfold pyRangeLen
  simp only [gt_iff_lt, hs, if_true]
  have := cnt_pos (d := b - a) hs (by omega)
  have e : b - (a + s) + s - 1 = b - a - s + s - 1 := by omega
  rw [e]; exact this

theorem len_up_stop {a b s : Int} (hs : 0 < s) (h : ¬ a < b) : pyRangeLen a b s = 0 := by
  unfold pyRangeLen
  simp only [gt_iff_lt, hs, if_true]
  exact cnt_nonpos hs (by omega)

theorem len_down_step {a b s : Int} (hs : s < 0) (h : a > b) : pyRangeLen a b s = pyRangeLen (a + s) b s + 1 := by
  unfold pyRangeLen
  have h1 : ¬ s > 0 := by omega
  simp only [h1, if_false, hs, if_true]
  have := cnt_pos (d := a - b) (s := -s) (by omega) (by omega)
  have e1 : a - b - s - 1 = a - b + -s - 1 := by omega
  have e2 : a + s - b - s - 1 = a - b - -s + -s - 1 := by omega
  rw [e1, e2]; exact this

theorem len_down_stop {a b s : Int} (hs : s < 0) (h : ¬ a > b) : pyRangeLen a b s = 0 := by
  unfold pyRangeLen
  have h1 : ¬ s > 0 := by omega
  simp only [h1, if_false, hs, if_true]
  have := cnt_nonpos (d := a - b) (s := -s) (by omega) (by omega)
  have e1 : a - b - s - 1 = a - b + -s - 1 := by omega
  rw [e1]; exact this

theorem pyRange_cons {a b s : Int} (h : pyRangeLen a b s = pyRangeLen (a + s) b s + 1) :
    pyRange a b s = a :: pyRange (a + s) b s := by
  unfold pyRange
  rw [h, List.range_succ_eq_map]
  simp only [List.map_cons, List.map_map, Int.natCast_zero, Int.zero_mul, Int.add_zero]
  congr 1
  apply List.map_congr_left
  intro i _
  simp only [Function.comp, Nat.succ_eq_add_one, Int.natCast_add, Int.natCast_one, Int.add_mul, Int.one_mul]
  omega

theorem pyRange_nil {a b s : Int} (h : pyRangeLen a b s = 0) : pyRange a b s = [] := by
  unfold pyRange; rw [h]; rfl

/-! ### the counting walk -/

theorem countUp_eq (stop step : Int) (hs : 0 < step) (v : Int) (c : Nat) :
    countUp stop step hs v c = c + pyRangeLen v stop step := by
  induction v, c using countUp.induct stop step hs with
  | case1 v c h ih => rw [countUp, dif_pos h, ih, len_up_step hs h]; omega
  | case2 v c h => rw [countUp, dif_neg h, len_up_stop hs h]; rfl

theorem countDown_eq (stop step : Int) (hs : step < 0) (v : Int) (c : Nat) :
    countDown stop step hs v c = c + pyRangeLen v stop step := by
  induction v, c using countDown.induct stop step hs with
  | case1 v c h ih => rw [countDown, dif_pos h, ih, len_down_step hs h]; omega
  | case2 v c h => rw [countDown, dif_neg h, len_down_stop hs h]; rfl

theorem fwCount_eq (a b s : Int) : fwCount a b s = pyRangeLen a b s := by
  unfold fwCount
  split
  · next h0 => subst h0; rfl
  · split
    · rw [countUp_eq]; omega
    · rw [countDown_eq]; omega

/-! ### the fill walk: a block `pre ++ rest` with `size = |pre|` and exactly as many free cells as the walk still visits -/

theorem set_mid (pre : List Int) (r x : Int) (rest : List Int) : (pre ++ r :: rest).set pre.length x = (pre ++ [x]) ++ rest := by
  simp

theorem fillUp_eq (f : Int → Int) (stop step : Int) (hs : 0 < step) (n : Nat) : ∀ (v : Int) (pre rest : List Int),
    pyRangeLen v stop step = n → rest.length = n →
    fillUp f stop step hs v (pre ++ rest) pre.length = .ok (pre ++ (pyRange v stop step).map f, pre.length + n) := by
  induction n with
  | zero =>
    intro v pre rest hn hr
    have hv : ¬ v < stop := fun h => by rw [len_up_step hs h] at hn; omega
    have : rest = [] := List.eq_nil_of_length_eq_zero hr
    rw [fillUp, dif_neg hv, pyRange_nil hn, this]; simp
  | succ n ih =>
    intro v pre rest hn hr
    have hv : v < stop := by
      apply Classical.byContradiction; intro h; rw [len_up_stop hs h] at hn; omega
    have hstep := len_up_step hs hv
    match rest, hr with
    | r :: rest', hr =>
      have hlt : pre.length < (pre ++ r :: rest').length := by simp
      rw [fillUp, dif_pos hv, if_pos hlt, set_mid]
      have := ih (v + step) (pre ++ [f v]) rest' (by omega) (by simpa using hr)
      simp only [List.length_append, List.length_cons, List.length_nil] at this
      rw [this, pyRange_cons hstep]
      simp; omega

theorem fillDown_eq (f : Int → Int) (stop step : Int) (hs : step < 0) (n : Nat) : ∀ (v : Int) (pre rest : List Int),
    pyRangeLen v stop step = n → rest.length = n →
    fillDown f stop step hs v (pre ++ rest) pre.length = .ok (pre ++ (pyRange v stop step).map f, pre.length + n) := by
  induction n with
  | zero =>
    intro v pre rest hn hr
    have hv : ¬ v > stop := fun h => by rw [len_down_step hs h] at hn; omega
    have : rest = [] := List.eq_nil_of_length_eq_zero hr
    rw [fillDown, dif_neg hv, pyRange_nil hn, this]; simp
  | succ n ih =>
    intro v pre rest hn hr
    have hv : v > stop := by
      apply Classical.byContradiction; intro h; rw [len_down_stop hs h] at hn; omega
    have hstep := len_down_step hs hv
    match rest, hr with
    | r :: rest', hr =>
      have hlt : pre.length < (pre ++ r :: rest').length := by simp
      rw [fillDown, dif_pos hv, if_pos hlt, set_mid]
      have := ih (v + step) (pre ++ [f v]) rest' (by omega) (by simpa using hr)
      simp only [List.length_append, List.length_cons, List.length_nil] at this
      rw [this, pyRange_cons hstep]
      simp; omega

theorem fromRangeRun_eq (f : Int → Int) (a b s : Int) (hs : s ≠ 0) :
    fromRangeRun f a b s = .ok ((pyRange a b s).map f, pyRangeLen a b s) := by
  unfold fromRangeRun
  rw [dif_neg hs, fwCount_eq]
  split
  · next h =>
    have := fillUp_eq f b s h (pyRangeLen a b s) a [] (List.replicate (pyRangeLen a b s) 0) rfl (by simp)
    simpa using this
  · next h =>
    have := fillDown_eq f b s (by omega) (pyRangeLen a b s) a [] (List.replicate (pyRangeLen a b s) 0) rfl (by simp)
    simpa using this

/-! ### the value of the loop variable after the walk -/

theorem exitUp_eq (stop step : Int) (hs : 0 < step) (v : Int) :
    exitUp stop step hs v = v + (pyRangeLen v stop step : Int) * step := by
  induction v using exitUp.induct stop step hs with
  | case1 v h ih =>
    rw [exitUp, dif_pos h, ih, len_up_step hs h]
    simp only [Int.natCast_add, Int.natCast_one, Int.add_mul, Int.one_mul]; omega
  | case2 v h => rw [exitUp, dif_neg h, len_up_stop hs h]; simp

theorem exitDown_eq (stop step : Int) (hs : step < 0) (v : Int) :
    exitDown stop step hs v = v + (pyRangeLen v stop step : Int) * step := by
  induction v using exitDown.induct stop step hs with
  | case1 v h ih =>
    rw [exitDown, dif_pos h, ih, len_down_step hs h]
    simp only [Int.natCast_add, Int.natCast_one, Int.add_mul, Int.one_mul]; omega
  | case2 v h => rw [exitDown, dif_neg h, len_down_stop hs h]; simp

/-! ### which numbers are in the range -/

theorem lt_len_up {a b s : Int} (hs : 0 < s) (k : Nat) : k < pyRangeLen a b s ↔ a + (k : Int) * s < b := by
  unfold pyRangeLen
  simp only [gt_iff_lt, hs, if_true]
  have h1 : ((k : Int) + 1 ≤ (b - a + s - 1) / s) ↔ ((k : Int) + 1) * s ≤ b - a + s - 1 := Int.le_ediv_iff_mul_le hs
  rw [Int.add_mul, Int.one_mul] at h1
  omega

theorem lt_len_down {a b s : Int} (hs : s < 0) (k : Nat) : k < pyRangeLen a b s ↔ b < a + (k : Int) * s := by
  unfold pyRangeLen
  have h0 : ¬ s > 0 := by omega
  simp only [h0, if_false, hs, if_true]
  have h1 : ((k : Int) + 1 ≤ (a - b - s - 1) / (-s)) ↔ ((k : Int) + 1) * (-s) ≤ a - b - s - 1 := Int.le_ediv_iff_mul_le (by omega)
  rw [Int.add_mul, Int.one_mul, Int.mul_neg] at h1
  omega

end Reduino.Fw.ListRange
