import Reduino.Lemmas.C01
import Reduino.Lang.Tr2
/-
  C01 helpers, part p: promotion (`tr2`, `InF2`).
  Idea: under the FINAL type environment every promoted name is declared, so a promotable block (`okBody2`/`okChain2`) is an
  ordinary nested statement (`okNested`) and its translation (`trBody2`/`trChain2`) is `trNested` of it; the block is then simulated
  by the existing lemma `sim`.  The declarations threaded by `okTop2` and by `trTop2` differ in order (sorted per branch), so they
  are related by `Eqv` (same lookup function) instead of equality.
-/
namespace Reduino.Lemmas.C01p
open Reduino.Lang Reduino.Lemmas.C01

/-! ### lookup algebra -/

/-- two type environments with the same lookup function -/
def Eqv (a b : C.TyEnv) : Prop := ∀ x, a.lookup x = b.lookup x

theorem Eqv.refl (a : C.TyEnv) : Eqv a a := fun _ => rfl
theorem Eqv.symm {a b : C.TyEnv} (h : Eqv a b) : Eqv b a := fun x => (h x).symm
theorem Eqv.trans {a b c : C.TyEnv} (h1 : Eqv a b) (h2 : Eqv b c) : Eqv a c := fun x => (h1 x).trans (h2 x)
theorem Eqv.sub {a b : C.TyEnv} (h : Eqv a b) : Sub a b := fun x t hx => by rw [← h x]; exact hx
theorem Eqv.sub' {a b : C.TyEnv} (h : Eqv a b) : Sub b a := h.symm.sub

theorem Eqv.cons {a b : C.TyEnv} (h : Eqv a b) (i : String) (t : Ty) : Eqv ((i, t) :: a) ((i, t) :: b) := by
  intro x
  by_cases hx : x = i
  · subst hx; rw [lookup_cons_eq, lookup_cons_eq]
  · rw [lookup_cons_ne _ _ hx, lookup_cons_ne _ _ hx]; exact h x

theorem Eqv.append {a b : C.TyEnv} (h : Eqv a b) (l : C.TyEnv) : Eqv (a ++ l) (b ++ l) := by
  intro x; rw [List.lookup_append, List.lookup_append, h x]

theorem lookup_filter_key {β : Type} (p : String → Bool) (l : List (String × β)) (x : String) :
    (l.filter (fun d => p d.1)).lookup x = if p x = true then l.lookup x else none := by
  induction l with
  | nil => simp
  | cons d l ih =>
    obtain ⟨k, v⟩ := d
    by_cases hk : x = k
    · subst hk
      cases hp : p x
      · rw [List.filter_cons, if_neg (by simp [hp]), ih]; simp [hp]
      · rw [List.filter_cons, if_pos (by simpa using hp), lookup_cons_eq, lookup_cons_eq]; simp
    · cases hpk : p k
      · rw [List.filter_cons, if_neg (by simp [hpk]), ih, lookup_cons_ne _ _ hk]
      · rw [List.filter_cons, if_pos (by simpa using hpk), lookup_cons_ne _ _ hk, lookup_cons_ne _ _ hk, ih]

theorem lookup_newDecls (te te' : C.TyEnv) (x : String) :
    (newDecls te te').lookup x = if (te.lookup x).isNone = true then te'.lookup x else none :=
  lookup_filter_key (fun y => (te.lookup y).isNone) te' x

theorem lookup_none_of_not_mem_keys {β : Type} (l : List (String × β)) (x : String) (h : x ∉ l.map (·.1)) :
    l.lookup x = none := by
  rw [List.lookup_eq_none_iff]
  intro p hp
  simp only [bne_iff_ne, ne_eq]
  intro hx
  exact h (List.mem_map.2 ⟨p, hp, hx.symm⟩)

theorem lookup_filterMap_names (ds : C.TyEnv) (names : List String) (x : String) :
    (names.filterMap fun y => (ds.lookup y).map fun t => (y, t)).lookup x =
      if x ∈ names then ds.lookup x else none := by
  induction names with
  | nil => simp
  | cons y ys ih =>
    rw [List.filterMap_cons]
    cases hy : ds.lookup y with
    | none =>
      simp only [Option.map_none]
      rw [ih]
      by_cases hxy : x = y
      · subst hxy; simp [hy]
      · simp [hxy]
    | some t =>
      simp only [Option.map_some]
      by_cases hxy : x = y
      · subst hxy; rw [lookup_cons_eq]; simp [hy]
      · rw [lookup_cons_ne _ _ hxy, ih]; simp [hxy]

theorem lookup_sortDecls (ds : C.TyEnv) (x : String) : (sortDecls ds).lookup x = ds.lookup x := by
  unfold sortDecls
  rw [lookup_filterMap_names]
  split
  · rfl
  · rename_i h
    unfold Promote.sorted at h
    rw [List.mem_mergeSort] at h
    exact (lookup_none_of_not_mem_keys ds x h).symm

/-! ### promotable block bodies: `okBody2` / `trBody2` -/

theorem Sub_append (te l : C.TyEnv) : Sub te (te ++ l) := fun _ _ h => lookup_append_of_some _ h

theorem lookup_snoc_self {te : C.TyEnv} {x : String} (t : Ty) (h : te.lookup x = none) :
    (te ++ [(x, t)]).lookup x = some t := by
  rw [lookup_append_of_none _ h]; exact lookup_cons_eq _ _ _

theorem okBody2_assign_cases {all : List String} {te te' : C.TyEnv} {x : String} {e : Expr}
    (h : (Stmt.assign x e).okBody2 all te = some te') :
    e.wt te = true ∧ ((te.lookup x = some (inferTy te e) ∧ te' = te) ∨
      (te.lookup x = none ∧ te' = te ++ [(x, inferTy te e)])) := by
  simp only [Stmt.okBody2] at h
  split at h
  · cases h
  · rename_i hwt
    simp only [Bool.not_eq_true', Bool.not_eq_false] at hwt
    refine ⟨hwt, ?_⟩
    cases hl : te.lookup x with
    | some t =>
      rw [hl] at h
      simp only at h
      split at h
      · rename_i ht
        simp only [beq_iff_eq] at ht
        cases h
        left; exact ⟨by rw [ht], rfl⟩
      · cases h
    | none =>
      rw [hl] at h
      simp only at h
      cases h
      right; exact ⟨rfl, rfl⟩

theorem okBody2_other_cases {all : List String} {te te' : C.TyEnv} {s : Stmt} (hs : isOther s = true)
    (h : s.okBody2 all te = some te') : s.okNested all te = true ∧ te' = te := by
  cases s <;> simp only [isOther, Bool.false_eq_true] at hs <;>
  · simp only [Stmt.okBody2] at h
    split at h
    · rename_i hok; cases h; exact ⟨hok, rfl⟩
    · cases h

theorem trBody2_assign_cases {te : C.TyEnv} {x : String} {e : Expr} {r : Stmt × C.TyEnv}
    (h : trBody2 te (.assign x e) = .ok r) :
    r.1 = .assign x e ∧ (((te.lookup x).isSome = true ∧ r.2 = te) ∨
      (te.lookup x = none ∧ r.2 = te ++ [(x, inferTy te e)])) := by
  simp only [trBody2] at h
  cases hl : te.lookup x with
  | some t => rw [hl] at h; simp only at h; cases h; exact ⟨rfl, .inl ⟨rfl, rfl⟩⟩
  | none => rw [hl] at h; simp only at h; cases h; exact ⟨rfl, .inr ⟨rfl, rfl⟩⟩

theorem trBody2_other_cases {te : C.TyEnv} {s : Stmt} {r : Stmt × C.TyEnv} (hs : isOther s = true)
    (h : trBody2 te s = .ok r) : trNested te false 1 s = .ok r.1 ∧ r.2 = te := by
  cases s <;> simp only [isOther, Bool.false_eq_true] at hs <;>
  · simp only [trBody2] at h
    obtain ⟨s', hs', h⟩ := bind_ok h
    cases h
    exact ⟨hs', rfl⟩

theorem trBody2_seq_cases {te : C.TyEnv} {a b : Stmt} {r : Stmt × C.TyEnv} (h : trBody2 te (.seq a b) = .ok r) :
    ∃ r1 r2, trBody2 te a = .ok r1 ∧ trBody2 r1.2 b = .ok r2 ∧ r = (.seq r1.1 r2.1, r2.2) := by
  simp only [trBody2] at h
  obtain ⟨r1, h1, h⟩ := bind_ok h
  obtain ⟨r2, h2, h⟩ := bind_ok h
  cases h
  exact ⟨r1, r2, h1, h2, rfl⟩

theorem okBody2_seq_cases {all : List String} {te te' : C.TyEnv} {a b : Stmt}
    (h : (Stmt.seq a b).okBody2 all te = some te') :
    ∃ te1, a.okBody2 all te = some te1 ∧ b.okBody2 all te1 = some te' := by
  simp only [Stmt.okBody2] at h
  cases ha : a.okBody2 all te with
  | none => rw [ha] at h; cases h
  | some te1 => rw [ha] at h; exact ⟨te1, rfl, h⟩

theorem okBody2_sub {all : List String} {s : Stmt} : ∀ {te te' : C.TyEnv}, s.okBody2 all te = some te' → Sub te te' := by
  induction s with
  | skip => intro te te' h; simp only [Stmt.okBody2] at h; cases h; exact Sub_refl _
  | seq a b iha ihb =>
    intro te te' h
    obtain ⟨te1, ha, hb⟩ := okBody2_seq_cases h
    exact Sub_trans (iha ha) (ihb hb)
  | assign x e =>
    intro te te' h
    obtain ⟨_, ⟨_, rfl⟩ | ⟨_, rfl⟩⟩ := okBody2_assign_cases h
    · exact Sub_refl _
    · exact Sub_append _ _
  | _ =>
    intro te te' h
    obtain ⟨_, rfl⟩ := okBody2_other_cases (by rfl) h
    exact Sub_refl _

theorem trBody2_sub {s : Stmt} : ∀ {te : C.TyEnv} {r : Stmt × C.TyEnv}, trBody2 te s = .ok r → Sub te r.2 := by
  induction s with
  | skip => intro te r h; simp only [trBody2] at h; cases h; exact Sub_refl _
  | seq a b iha ihb =>
    intro te r h
    obtain ⟨r1, r2, h1, h2, rfl⟩ := trBody2_seq_cases h
    exact Sub_trans (iha h1) (ihb (r := r2) h2)
  | assign x e =>
    intro te r h
    obtain ⟨_, ⟨_, h2⟩ | ⟨_, h2⟩⟩ := trBody2_assign_cases h
    · rw [h2]; exact Sub_refl _
    · rw [h2]; exact Sub_append _ _
  | _ =>
    intro te r h
    obtain ⟨_, h2⟩ := trBody2_other_cases (by rfl) h
    rw [h2]; exact Sub_refl _

/-- under any environment that contains the declarations after the block, the block is an ordinary nested statement -/
theorem body_ok {all : List String} {T : C.TyEnv} {s : Stmt} : ∀ {te te' : C.TyEnv}, s.okBody2 all te = some te' →
    Sub te' T → (∀ x, (T.lookup x).isSome = true → (te.lookup x).isSome = true ∨ x ∈ all) →
    s.okNested all T = true := by
  induction s with
  | skip => intro te te' _ _ _; rfl
  | seq a b iha ihb =>
    intro te te' h hsub hT
    obtain ⟨te1, ha, hb⟩ := okBody2_seq_cases h
    simp only [Stmt.okNested, Bool.and_eq_true]
    refine ⟨iha ha (Sub_trans (okBody2_sub hb) hsub) hT, ihb hb hsub ?_⟩
    intro x hx
    rcases hT x hx with h1 | h1
    · left
      obtain ⟨t, ht⟩ := Option.isSome_iff_exists.1 h1
      rw [okBody2_sub ha x t ht]; rfl
    · exact .inr h1
  | assign x e =>
    intro te te' h hsub hT
    obtain ⟨hwt, hc⟩ := okBody2_assign_cases h
    have hsub0 : Sub te T := Sub_trans (okBody2_sub h) hsub
    obtain ⟨hw, hty⟩ := wt_sub hsub0 e hwt
    simp only [Stmt.okNested, Bool.and_eq_true, beq_iff_eq]
    refine ⟨hw, ?_⟩
    rw [hty]
    rcases hc with ⟨hl, rfl⟩ | ⟨hl, rfl⟩
    · exact hsub _ _ hl
    · exact hsub _ _ (lookup_snoc_self _ hl)
  | _ =>
    intro te te' h hsub hT
    obtain ⟨hok, rfl⟩ := okBody2_other_cases (by rfl) h
    exact okNested_ext ⟨hsub, hT⟩ hok

theorem body_tr {all : List String} {T : C.TyEnv} {s : Stmt} : ∀ {te : C.TyEnv} {r : Stmt × C.TyEnv},
    trBody2 te s = .ok r → Sub r.2 T → s.okNested all T = true → trNested T false 1 s = .ok r.1 := by
  induction s with
  | skip => intro te r h _ _; simp only [trBody2] at h; cases h; rfl
  | seq a b iha ihb =>
    intro te r h hsub hok
    obtain ⟨r1, r2, h1, h2, rfl⟩ := trBody2_seq_cases h
    simp only [Stmt.okNested, Bool.and_eq_true] at hok
    rw [trNested, iha h1 (Sub_trans (trBody2_sub h2) hsub) hok.1, ok_bind, ihb h2 hsub hok.2, ok_bind]; rfl
  | assign x e =>
    intro te r h _ hok
    obtain ⟨h1, _⟩ := trBody2_assign_cases h
    simp only [Stmt.okNested, Bool.and_eq_true, beq_iff_eq] at hok
    rw [trNested, hok.2, h1]; rfl
  | _ =>
    intro te r h hsub hok
    obtain ⟨h1, h2⟩ := trBody2_other_cases (by rfl) h
    exact trNested_ext (by rw [h2] at hsub; exact hsub) hok h1

theorem body_eqv {all : List String} {s : Stmt} : ∀ {te te₂ te' : C.TyEnv} {r : Stmt × C.TyEnv}, Eqv te te₂ →
    s.okBody2 all te = some te' → trBody2 te₂ s = .ok r → Eqv te' r.2 := by
  induction s with
  | skip => intro te te₂ te' r he h h2; simp only [Stmt.okBody2] at h; simp only [trBody2] at h2; cases h; cases h2; exact he
  | seq a b iha ihb =>
    intro te te₂ te' r he h h2
    obtain ⟨te1, ha, hb⟩ := okBody2_seq_cases h
    obtain ⟨r1, r2, h1, h3, rfl⟩ := trBody2_seq_cases h2
    exact ihb (r := r2) (iha he ha h1) hb h3
  | assign x e =>
    intro te te₂ te' r he h h2
    obtain ⟨hwt, hc⟩ := okBody2_assign_cases h
    obtain ⟨_, hc2⟩ := trBody2_assign_cases h2
    have hty := (wt_sub he.sub e hwt).2
    rcases hc with ⟨hl, rfl⟩ | ⟨hl, rfl⟩
    · rcases hc2 with ⟨_, hr⟩ | ⟨hl2, _⟩
      · rw [hr]; exact he
      · rw [← he x, hl] at hl2; cases hl2
    · rcases hc2 with ⟨hl2, _⟩ | ⟨_, hr⟩
      · rw [← he x, hl] at hl2; cases hl2
      · rw [hr, hty]; exact he.append _
  | _ =>
    intro te te₂ te' r he h h2
    obtain ⟨_, rfl⟩ := okBody2_other_cases (by rfl) h
    obtain ⟨_, hr⟩ := trBody2_other_cases (by rfl) h2
    rw [hr]; exact he

theorem trBody2_names {s : Stmt} : ∀ {te : C.TyEnv} {r : Stmt × C.TyEnv}, trBody2 te s = .ok r →
    ∀ x, (r.2.lookup x).isSome = true → (te.lookup x).isSome = true ∨ x ∈ s.assigned := by
  induction s with
  | skip => intro te r h x hx; simp only [trBody2] at h; cases h; exact .inl hx
  | seq a b iha ihb =>
    intro te r h x hx
    obtain ⟨r1, r2, h1, h2, rfl⟩ := trBody2_seq_cases h
    simp only [Stmt.assigned, List.mem_append]
    rcases ihb h2 x hx with h | h
    · rcases iha h1 x h with h | h
      · exact .inl h
      · exact .inr (.inl h)
    · exact .inr (.inr h)
  | assign y e =>
    intro te r h x hx
    obtain ⟨_, ⟨_, h2⟩ | ⟨hl, h2⟩⟩ := trBody2_assign_cases h
    · rw [h2] at hx; exact .inl hx
    · rw [h2] at hx
      cases hx0 : te.lookup x with
      | some t => left; rfl
      | none =>
        right
        rw [lookup_append_of_none _ hx0] at hx
        by_cases hxy : x = y
        · simp [Stmt.assigned, hxy]
        · rw [lookup_cons_ne _ _ hxy] at hx; cases hx
  | _ =>
    intro te r h x hx
    obtain ⟨_, h2⟩ := trBody2_other_cases (by rfl) h
    rw [h2] at hx; exact .inl hx

/-- distinct keys -/
def Keys (te : C.TyEnv) : Prop := te.Pairwise (fun a b => a.1 ≠ b.1)

theorem keys_of_lookup_none {β : Type} {l : List (String × β)} {x : String} (h : l.lookup x = none) :
    ∀ p ∈ l, p.1 ≠ x := by
  rw [List.lookup_eq_none_iff] at h
  intro p hp hpx
  have := h p hp
  simp only [bne_iff_ne, ne_eq] at this
  exact this hpx.symm

theorem Keys_snoc {te : C.TyEnv} {x : String} (t : Ty) (hk : Keys te) (h : te.lookup x = none) :
    Keys (te ++ [(x, t)]) := by
  unfold Keys
  rw [List.pairwise_append]
  refine ⟨hk, List.pairwise_singleton _ _, ?_⟩
  intro a ha b hb
  simp only [List.mem_singleton] at hb
  subst hb
  exact keys_of_lookup_none h a ha

theorem trBody2_keys {s : Stmt} : ∀ {te : C.TyEnv} {r : Stmt × C.TyEnv}, trBody2 te s = .ok r → Keys te → Keys r.2 := by
  induction s with
  | skip => intro te r h hk; simp only [trBody2] at h; cases h; exact hk
  | seq a b iha ihb =>
    intro te r h hk
    obtain ⟨r1, r2, h1, h2, rfl⟩ := trBody2_seq_cases h
    exact ihb (r := r2) h2 (iha h1 hk)
  | assign y e =>
    intro te r h hk
    obtain ⟨_, ⟨_, h2⟩ | ⟨hl, h2⟩⟩ := trBody2_assign_cases h
    · rw [h2]; exact hk
    · rw [h2]; exact Keys_snoc _ hk hl
  | _ =>
    intro te r h hk
    obtain ⟨_, h2⟩ := trBody2_other_cases (by rfl) h
    rw [h2]; exact hk


/-! ### fresh declarations -/

theorem lookup_filter_isNone (a l : C.TyEnv) (x : String) :
    (l.filter fun d => (a.lookup d.1).isNone).lookup x = if (a.lookup x).isNone = true then l.lookup x else none :=
  lookup_filter_key (fun y => (a.lookup y).isNone) l x

theorem mem_of_lookup {β : Type} {l : List (String × β)} {x : String} {t : β} (h : l.lookup x = some t) : (x, t) ∈ l := by
  induction l with
  | nil => cases h
  | cons d l ih =>
    obtain ⟨k, v⟩ := d
    by_cases hk : x = k
    · subst hk; rw [lookup_cons_eq] at h; cases h; exact List.mem_cons_self ..
    · rw [lookup_cons_ne _ _ hk] at h; exact List.mem_cons_of_mem _ (ih h)

/-- declarations with distinct names, none of them known to `te` -/
def Fresh (te prom : C.TyEnv) : Prop := Keys prom ∧ ∀ d ∈ prom, te.lookup d.1 = none

theorem Fresh_nil (te : C.TyEnv) : Fresh te [] := ⟨List.Pairwise.nil, fun _ h => by cases h⟩

theorem Fresh_newDecls (te : C.TyEnv) {te' : C.TyEnv} (hk : Keys te') : Fresh te (newDecls te te') := by
  refine ⟨List.Pairwise.filter _ hk, ?_⟩
  intro d hd
  have := (List.mem_filter.1 hd).2
  simpa using this

theorem Fresh_sortDecls {te ds : C.TyEnv} (h : Fresh te ds) : Fresh te (sortDecls ds) := by
  have hmem : ∀ d ∈ sortDecls ds, d ∈ ds := by
    intro d hd
    unfold sortDecls at hd
    obtain ⟨a, _, ha⟩ := List.mem_filterMap.1 hd
    obtain ⟨t, ht, rfl⟩ := Option.map_eq_some_iff.1 ha
    exact mem_of_lookup ht
  refine ⟨?_, fun d hd => h.2 d (hmem d hd)⟩
  unfold Keys sortDecls
  have hnd : (Promote.sorted (ds.map (·.1))).Pairwise (· ≠ ·) := by
    have h1 : (ds.map (·.1)).Pairwise (· ≠ ·) := List.pairwise_map.2 h.1
    exact (List.Perm.pairwise_iff (fun h => h.symm) (List.mergeSort_perm _ _)).2 h1
  refine List.Pairwise.filterMap _ ?_ hnd
  intro a a' haa b hb b' hb'
  obtain ⟨t, _, rfl⟩ := Option.map_eq_some_iff.1 hb
  obtain ⟨t', _, rfl⟩ := Option.map_eq_some_iff.1 hb'
  exact haa

theorem Fresh_append_filter {te a b : C.TyEnv} (ha : Fresh te a) (hb : Fresh te b) :
    Fresh te (a ++ b.filter fun d => (a.lookup d.1).isNone) := by
  refine ⟨?_, ?_⟩
  · unfold Keys
    rw [List.pairwise_append]
    refine ⟨ha.1, List.Pairwise.filter _ hb.1, ?_⟩
    intro x hx y hy
    have := (List.mem_filter.1 hy).2
    simp only [Option.isNone_iff_eq_none] at this
    exact keys_of_lookup_none this x hx
  · intro d hd
    rcases List.mem_append.1 hd with hd | hd
    · exact ha.2 d hd
    · exact hb.2 d (List.mem_filter.1 hd).1


/-! ### if / elif / else chains -/

def elseEnv (all : List String) (te : C.TyEnv) : Stmt → Option C.TyEnv
  | .skip => some te
  | .ifs c t e => (Stmt.ifs c t e).okChain2 all te
  | other => other.okBody2 all te

def elseTr (te : C.TyEnv) : Stmt → Except TrErr (Stmt × C.TyEnv)
  | .skip => .ok (.skip, [])
  | .ifs c t e => trChain2 te (.ifs c t e)
  | other => do let re ← trBody2 te other; pure (re.1, sortDecls (newDecls te re.2))

theorem okChain2_unfold (all : List String) (te : C.TyEnv) (c : Expr) (t e : Stmt) :
    (Stmt.ifs c t e).okChain2 all te =
      if (!c.okCond te) = true then none else
        (t.okBody2 all te).bind fun teT => (elseEnv all te e).bind fun teE =>
          if ((newDecls te teE).all fun d => match (newDecls te teT).lookup d.1 with | some t => t == d.2 | none => true) = true
          then some (te ++ newDecls te teT ++ (newDecls te teE).filter fun d => ((newDecls te teT).lookup d.1).isNone)
          else none := by
  cases e <;> rfl

theorem trChain2_unfold (te : C.TyEnv) (c : Expr) (t e : Stmt) :
    trChain2 te (.ifs c t e) =
      (trBody2 te t >>= fun rt => elseTr te e >>= fun re =>
        pure (Stmt.ifs c rt.1 re.1, sortDecls (newDecls te rt.2) ++
          re.2.filter fun d => ((sortDecls (newDecls te rt.2)).lookup d.1).isNone)) := by
  cases e with
  | skip =>
    rw [trChain2]
    cases trBody2 te t with
    | error err => rfl
    | ok rt => simp only [elseTr, ok_bind, List.filter_nil, List.append_nil]
  | _ =>
    rw [trChain2]
    cases trBody2 te t with
    | error err => rfl
    | ok rt =>
      simp only [elseTr, ok_bind]
      try (first | rfl | (cases trBody2 te _ <;> rfl))


theorem chain_sub {te teT teE : C.TyEnv} (hT : Sub te teT) (hE : Sub te teE)
    (hchk : ∀ d ∈ newDecls te teE, (match (newDecls te teT).lookup d.1 with | some t => t == d.2 | none => true) = true) :
    Sub teT (te ++ newDecls te teT ++ (newDecls te teE).filter fun d => ((newDecls te teT).lookup d.1).isNone) ∧
    Sub teE (te ++ newDecls te teT ++ (newDecls te teE).filter fun d => ((newDecls te teT).lookup d.1).isNone) := by
  constructor
  · intro x t hx
    cases h0 : te.lookup x with
    | some t' =>
      have := hT x t' h0
      rw [hx] at this; cases this
      exact lookup_append_of_some _ (lookup_append_of_some _ h0)
    | none =>
      apply lookup_append_of_some
      rw [lookup_append_of_none _ h0, lookup_newDecls, h0]
      exact hx
  · intro x t hx
    cases h0 : te.lookup x with
    | some t' =>
      have := hE x t' h0
      rw [hx] at this; cases this
      exact lookup_append_of_some _ (lookup_append_of_some _ h0)
    | none =>
      have hpE : (newDecls te teE).lookup x = some t := by rw [lookup_newDecls, h0]; exact hx
      cases hpT : (newDecls te teT).lookup x with
      | some t' =>
        have := hchk (x, t) (mem_of_lookup hpE)
        simp only [hpT, beq_iff_eq] at this
        subst this
        apply lookup_append_of_some
        rw [lookup_append_of_none _ h0]; exact hpT
      | none =>
        rw [lookup_append_of_none _ (by rw [lookup_append_of_none _ h0]; exact hpT), lookup_filter_isNone, hpT]
        exact hpE

/-- what the chain lemmas say about a statement -/
def ChainSpec (all : List String) (s : Stmt) : Prop :=
  ∀ (te te₂ teR : C.TyEnv) (r : Stmt × C.TyEnv), Eqv te te₂ →
    s.okChain2 all te = some teR → trChain2 te₂ s = .ok r →
    Sub te teR ∧ Eqv teR (te₂ ++ r.2) ∧ (Keys te₂ → Fresh te₂ r.2) ∧
    (∀ x, (r.2.lookup x).isSome = true → x ∈ s.assigned) ∧
    (∀ T, Sub teR T → (∀ x, (T.lookup x).isSome = true → (te.lookup x).isSome = true ∨ x ∈ all) →
      s.okNested all T = true ∧ trNested T false 1 s = .ok r.1)

def ElseSpec (all : List String) (e : Stmt) : Prop :=
  ∀ (te te₂ teE : C.TyEnv) (re : Stmt × C.TyEnv), Eqv te te₂ →
    elseEnv all te e = some teE → elseTr te₂ e = .ok re →
    Sub te teE ∧ Eqv (te ++ newDecls te teE) (te₂ ++ re.2) ∧ (Keys te₂ → Fresh te₂ re.2) ∧
    (∀ x, (re.2.lookup x).isSome = true → x ∈ e.assigned) ∧
    (∀ T, Sub teE T → (∀ x, (T.lookup x).isSome = true → (te.lookup x).isSome = true ∨ x ∈ all) →
      e.okNested all T = true ∧ trNested T false 1 e = .ok re.1)

theorem else_spec_body {all : List String} {e : Stmt} {te te₂ teE : C.TyEnv} {re0 : Stmt × C.TyEnv} (he : Eqv te te₂)
    (hE : e.okBody2 all te = some teE) (hTr : trBody2 te₂ e = .ok re0) :
    Sub te teE ∧ Eqv (te ++ newDecls te teE) (te₂ ++ sortDecls (newDecls te₂ re0.2)) ∧
    (Keys te₂ → Fresh te₂ (sortDecls (newDecls te₂ re0.2))) ∧
    (∀ x, ((sortDecls (newDecls te₂ re0.2)).lookup x).isSome = true → x ∈ e.assigned) ∧
    (∀ T, Sub teE T → (∀ x, (T.lookup x).isSome = true → (te.lookup x).isSome = true ∨ x ∈ all) →
      e.okNested all T = true ∧ trNested T false 1 e = .ok re0.1) := by
  have heq := body_eqv he hE hTr
  refine ⟨okBody2_sub hE, ?_, ?_, ?_, ?_⟩
  · intro x
    rw [List.lookup_append, List.lookup_append, lookup_sortDecls, lookup_newDecls, lookup_newDecls, he x, heq x]
  · intro hk
    exact Fresh_sortDecls (Fresh_newDecls _ (trBody2_keys hTr hk))
  · intro x hx
    rw [lookup_sortDecls, lookup_newDecls] at hx
    split at hx
    · rename_i h0
      rcases trBody2_names hTr x hx with h | h
      · rw [Option.isNone_iff_eq_none] at h0; rw [h0] at h; cases h
      · exact h
    · cases hx
  · intro T hsub hT
    have hok := body_ok hE hsub hT
    exact ⟨hok, body_tr hTr (Sub_trans heq.sub' hsub) hok⟩

theorem else_spec (all : List String) (e : Stmt) (ih : ChainSpec all e) : ElseSpec all e := by
  intro te te₂ teE re he hE hEt
  cases e with
  | skip =>
    simp only [elseEnv] at hE; simp only [elseTr] at hEt
    cases hE; cases hEt
    refine ⟨Sub_refl _, ?_, fun _ => Fresh_nil _, ?_, fun T _ _ => ⟨rfl, rfl⟩⟩
    · intro x
      rw [List.lookup_append, lookup_newDecls, List.lookup_append, he x]
      cases te₂.lookup x <;> rfl
    · intro x hx; cases hx
  | ifs c2 t2 e2 =>
    simp only [elseEnv] at hE; simp only [elseTr] at hEt
    obtain ⟨h1, h2, h3, h4, h5⟩ := ih te te₂ teE re he hE hEt
    refine ⟨h1, ?_, h3, h4, h5⟩
    intro x
    have := h2 x
    rw [List.lookup_append] at this
    rw [List.lookup_append, lookup_newDecls, List.lookup_append, this, he x]
    cases te₂.lookup x <;> rfl
  | _ =>
    simp only [elseEnv] at hE; simp only [elseTr] at hEt
    obtain ⟨re0, hre0, hEt⟩ := bind_ok hEt
    cases hEt
    exact else_spec_body he hE hre0

theorem chain_spec (all : List String) (s : Stmt) : ChainSpec all s := by
  induction s with
  | ifs c t e _ ihe =>
    intro te te₂ teR r he h h2
    rw [okChain2_unfold] at h
    split at h
    · cases h
    rename_i hcwt
    simp only [Bool.not_eq_true', Bool.not_eq_false] at hcwt
    cases hT1 : t.okBody2 all te with
    | none => rw [hT1] at h; cases h
    | some teT =>
    rw [hT1] at h
    cases hE : elseEnv all te e with
    | none => rw [hE] at h; cases h
    | some teE =>
    rw [hE] at h
    simp only [Option.bind_some] at h
    split at h
    case isFalse => cases h
    rename_i hchk
    cases h
    rw [List.all_eq_true] at hchk
    rw [trChain2_unfold] at h2
    obtain ⟨rt, hrt, h2⟩ := bind_ok h2
    obtain ⟨re, hEt, h2⟩ := bind_ok h2
    cases h2
    obtain ⟨hsubE, heqE, hfrE, hnmE, hTE⟩ := else_spec all e ihe te te₂ teE re he hE hEt
    have hsubT := okBody2_sub hT1
    have heqT := body_eqv he hT1 hrt
    obtain ⟨hsT, hsE⟩ := chain_sub hsubT hsubE hchk
    refine ⟨Sub_trans (Sub_append _ _) (Sub_append _ _), ?_, ?_, ?_, ?_⟩
    · intro x
      have h3 := heqE x
      rw [List.lookup_append, List.lookup_append, lookup_newDecls, he x] at h3
      show List.lookup x (te ++ newDecls te teT ++ _) = List.lookup x (te₂ ++ (sortDecls (newDecls te₂ rt.2) ++ _))
      rw [List.lookup_append, List.lookup_append, List.lookup_append, List.lookup_append, lookup_filter_isNone,
        lookup_filter_isNone, lookup_sortDecls, lookup_newDecls, lookup_newDecls, lookup_newDecls, he x, heqT x]
      cases h1 : te₂.lookup x with
      | some v => rfl
      | none =>
        rw [h1] at h3
        simp only [Option.isNone_none, if_true, Option.none_or] at h3 ⊢
        rw [h3]
    · intro hk
      exact Fresh_append_filter (Fresh_sortDecls (Fresh_newDecls _ (trBody2_keys hrt hk))) (hfrE hk)
    · intro x hx
      simp only [Stmt.assigned, List.mem_append]
      change (List.lookup x (sortDecls (newDecls te₂ rt.2) ++ _)).isSome = true at hx
      rw [List.lookup_append, lookup_filter_isNone] at hx
      cases h2 : (sortDecls (newDecls te₂ rt.2)).lookup x with
      | some v =>
        left
        rw [lookup_sortDecls, lookup_newDecls] at h2
        split at h2
        · rename_i h0
          rcases trBody2_names hrt x (by rw [h2]; rfl) with h | h
          · rw [Option.isNone_iff_eq_none] at h0; rw [h0] at h; cases h
          · exact h
        · cases h2
      | none =>
        rw [h2] at hx
        simp only [Option.none_or, Option.isNone_none, if_true] at hx
        exact .inr (hnmE x hx)
    · intro T hsub hT
      have hok1 := body_ok hT1 (Sub_trans hsT hsub) hT
      obtain ⟨hok2, htr2⟩ := hTE T (Sub_trans hsE hsub) hT
      have hcw := okCond_sub (Sub_trans (Sub_trans (Sub_append _ _) (Sub_append _ _)) hsub) hcwt
      refine ⟨?_, ?_⟩
      · simp only [Stmt.okNested, Bool.and_eq_true]; exact ⟨⟨hcw, hok1⟩, hok2⟩
      · rw [trNested, body_tr hrt (Sub_trans heqT.sub' (Sub_trans hsT hsub)) hok1, ok_bind, htr2, ok_bind]; rfl
  | _ =>
    intro te te₂ teR r he h h2
    simp only [Stmt.okChain2] at h
    cases h



/-! ### top-level blocks of the prologue -/

/-- outside the main loop the nesting depth is irrelevant -/
theorem trNested_false_d (s : Stmt) : ∀ (te : C.TyEnv) (d d' : Nat), trNested te false d s = trNested te false d' s := by
  induction s with
  | skip => intro te d d'; simp only [trNested]
  | seq a b iha ihb => intro te d d'; rw [trNested, trNested, iha te d d', ihb te d d']
  | assign x e => intro te d d'; simp only [trNested]
  | aug x op e => intro te d d'; simp only [trNested]
  | tuple k xs es => intro te d d'; simp only [trNested]
  | ctuple k ts xs es => intro te d d'; simp only [trNested]
  | ifs c a b iha ihb => intro te d d'; rw [trNested, trNested, iha te d d', ihb te d d']
  | whileLoop c b ihb => intro te d d'; rw [trNested, trNested, ihb te (d+1) (d'+1)]
  | forRange i n b ihb => intro te d d'; rw [trNested, trNested, ihb _ (d+1) (d'+1)]
  | write e => intro te d d'; simp only [trNested]
  | sleep e => intro te d d'; simp only [trNested]
  | brk => intro te d d'; simp [trNested]
  | call y g ps ls rt body ret args _ => intro te d d'; simp only [trNested]

theorem Eqv_append_newDecls {a b : C.TyEnv} (hsub : Sub a b) : Eqv b (a ++ newDecls a b) := by
  intro x
  rw [List.lookup_append, lookup_newDecls]
  cases h : a.lookup x with
  | some t => rw [hsub x t h]; rfl
  | none => rfl

theorem hT_append {all A : List String} {te te₂ prom : C.TyEnv} (he : Eqv te te₂)
    (hnm : ∀ x, (prom.lookup x).isSome = true → x ∈ A) (hall : ∀ x ∈ A, x ∈ all) :
    ∀ x, ((te₂ ++ prom).lookup x).isSome = true → (te.lookup x).isSome = true ∨ x ∈ all := by
  intro x hx
  rw [List.lookup_append, ← he x] at hx
  cases h : te.lookup x with
  | some t => left; rfl
  | none => rw [h] at hx; exact .inr (hall x (hnm x hx))

def isBlock : Stmt → Bool
  | .ifs _ _ _ => true
  | .whileLoop _ _ => true
  | .forRange _ _ _ => true
  | _ => false

theorem lookup_filter_ne (l : C.TyEnv) (i x : String) :
    (l.filter (·.1 ≠ i)).lookup x = if x ≠ i then l.lookup x else none := by
  have := lookup_filter_key (fun y => decide (y ≠ i)) l x
  simp only [decide_eq_true_eq] at this
  exact this

/-- what `trTop2` does with a top-level if-chain or loop: the promoted declarations, and the block as an ordinary nested
    statement under the declarations AFTER the block -/
theorem trTop2_block_cases {all : List String} {s : Stmt} (hs : isBlock s = true) {te : C.TyEnv} {acc acc1 : TopAcc}
    {te1 : C.TyEnv} (he : Eqv te acc.te) (h2 : s.okTop2 all te = some te1) (h : trTop2 acc s = .ok acc1)
    (hall : ∀ x ∈ s.assigned, x ∈ all) :
    ∃ prom s', acc1 = { addPromoted acc prom with setup := s' :: acc.setup } ∧ Eqv te1 (acc.te ++ prom) ∧
      (Keys acc.te → Fresh acc.te prom) ∧ (∀ x, (prom.lookup x).isSome = true → x ∈ s.assigned) ∧
      s.okNested all (acc.te ++ prom) = true ∧ trNested (acc.te ++ prom) false 0 s = .ok s' := by
  cases s with
  | ifs c t e =>
    simp only [Stmt.okTop2] at h2
    simp only [trTop2] at h
    obtain ⟨r, hr, h⟩ := bind_ok h
    cases h
    obtain ⟨_, heq, hfr, hnm, hT⟩ := chain_spec all _ te acc.te te1 r he h2 hr
    obtain ⟨hok, htr⟩ := hT (acc.te ++ r.2) heq.sub (hT_append he hnm hall)
    exact ⟨r.2, r.1, rfl, heq, hfr, hnm, hok, by rw [trNested_false_d _ _ 0 1]; exact htr⟩
  | whileLoop c b =>
    simp only [Stmt.okTop2] at h2
    split at h2
    case isFalse => cases h2
    rename_i hcwt
    simp only [trTop2] at h
    obtain ⟨r, hr, h⟩ := bind_ok h
    cases h
    have heq : Eqv te1 (acc.te ++ newDecls acc.te r.2) :=
      (body_eqv he h2 hr).trans (Eqv_append_newDecls (trBody2_sub hr))
    have hnm : ∀ x, ((newDecls acc.te r.2).lookup x).isSome = true → x ∈ (Stmt.whileLoop c b).assigned := by
      intro x hx
      rw [lookup_newDecls] at hx
      split at hx
      · rename_i h0
        rcases trBody2_names hr x hx with h | h
        · rw [Option.isNone_iff_eq_none] at h0; rw [h0] at h; cases h
        · exact h
      · cases hx
    have hT := hT_append he hnm hall
    have hokb := body_ok h2 heq.sub hT
    refine ⟨_, _, rfl, heq, fun hk => Fresh_newDecls _ (trBody2_keys hr hk), hnm, ?_, ?_⟩
    · simp only [Stmt.okNested, Bool.and_eq_true]
      exact ⟨okCond_sub (Sub_trans (okBody2_sub h2) heq.sub) hcwt, hokb⟩
    · rw [trNested, show (0 : Nat) + 1 = 1 from rfl, body_tr hr (Sub_trans (body_eqv he h2 hr).sub' heq.sub) hokb, ok_bind]; rfl
  | forRange i n b =>
    simp only [Stmt.okTop2] at h2
    split at h2
    case isFalse => cases h2
    rename_i hcond
    simp only [Bool.and_eq_true, Bool.not_eq_true', List.contains_eq_mem, decide_eq_false_iff_not,
      Option.isNone_iff_eq_none] at hcond
    obtain ⟨⟨⟨hnwt, hiall⟩, hi⟩, hnv⟩ := hcond
    obtain ⟨teB, hB, rfl⟩ := Option.map_eq_some_iff.1 h2
    have hi2 : acc.te.lookup i = none := by rw [← he i]; exact hi
    simp only [trTop2] at h
    rw [if_neg (by rw [hi2]; simp)] at h
    obtain ⟨r, hr, h⟩ := bind_ok h
    cases h
    have heqB : Eqv teB r.2 := body_eqv (he.cons i .int) hB hr
    have hsubB := okBody2_sub hB
    have hsubr := trBody2_sub hr
    have heq : Eqv (teB.filter (·.1 ≠ i)) (acc.te ++ newDecls ((i, .int) :: acc.te) r.2) := by
      intro x
      rw [lookup_filter_ne, List.lookup_append, lookup_newDecls, heqB x]
      by_cases hxi : x = i
      · subst hxi
        rw [lookup_cons_eq, hi2]; simp
      · rw [lookup_cons_ne _ _ hxi, if_pos hxi]
        cases h0 : acc.te.lookup x with
        | some t =>
          rw [hsubr x t (by rw [lookup_cons_ne _ _ hxi]; exact h0)]; rfl
        | none => rfl
    have hnm : ∀ x, ((newDecls ((i, .int) :: acc.te) r.2).lookup x).isSome = true →
        x ∈ (Stmt.forRange i n b).assigned := by
      intro x hx
      rw [lookup_newDecls] at hx
      split at hx
      · rename_i h0
        rcases trBody2_names hr x hx with h | h
        · rw [Option.isNone_iff_eq_none] at h0; rw [h0] at h; cases h
        · exact h
      · cases hx
    have hT := hT_append he hnm hall
    have hTi : (acc.te ++ newDecls ((i, .int) :: acc.te) r.2).lookup i = none := by
      rw [← heq i, lookup_filter_ne]; simp
    have hsubT : Sub teB ((i, .int) :: (acc.te ++ newDecls ((i, .int) :: acc.te) r.2)) := by
      intro x t hx
      by_cases hxi : x = i
      · subst hxi
        have := hsubB x .int (lookup_cons_eq _ _ _)
        rw [hx] at this; cases this
        exact lookup_cons_eq _ _ _
      · rw [lookup_cons_ne _ _ hxi, ← heq x, lookup_filter_ne, if_pos hxi]; exact hx
    have hT' : ∀ x, (((i, Ty.int) :: (acc.te ++ newDecls ((i, .int) :: acc.te) r.2)).lookup x).isSome = true →
        (((i, Ty.int) :: te).lookup x).isSome = true ∨ x ∈ all := by
      intro x hx
      by_cases hxi : x = i
      · subst hxi; left; rw [lookup_cons_eq]; rfl
      · rw [lookup_cons_ne _ _ hxi] at hx ⊢; exact hT x hx
    have hokb := body_ok hB hsubT hT'
    refine ⟨_, _, rfl, heq, ?_, hnm, ?_, ?_⟩
    · intro hk
      have hk' : Keys ((i, Ty.int) :: acc.te) := by
        unfold Keys
        rw [List.pairwise_cons]
        exact ⟨fun a ha => (keys_of_lookup_none hi2 a ha).symm, hk⟩
      obtain ⟨f1, f2⟩ := Fresh_newDecls ((i, .int) :: acc.te) (trBody2_keys hr hk')
      refine ⟨f1, fun d hd => ?_⟩
      have := f2 d hd
      by_cases hdi : d.1 = i
      · rw [hdi, lookup_cons_eq] at this; cases this
      · rw [lookup_cons_ne _ _ hdi] at this; exact this
    · simp only [Stmt.okNested, Bool.and_eq_true, Bool.not_eq_true', List.contains_eq_mem, decide_eq_false_iff_not,
        Option.isNone_iff_eq_none]
      have hsubte : Sub te (acc.te ++ newDecls ((i, .int) :: acc.te) r.2) := by
        intro x t hx
        have hxi : x ≠ i := by rintro rfl; rw [hi] at hx; cases hx
        rw [← heq x, lookup_filter_ne, if_pos hxi]
        exact hsubB x t (by rw [lookup_cons_ne _ _ hxi]; exact hx)
      exact ⟨⟨⟨⟨okCond_sub hsubte hnwt, hiall⟩, hTi⟩, hnv⟩, hokb⟩
    · rw [trNested, if_neg (by rw [hTi]; simp), show (0 : Nat) + 1 = 1 from rfl, body_tr hr (Sub_trans heqB.sub' hsubT) hokb, ok_bind]; rfl
  | _ => simp [isBlock] at hs



/-! ### the prologue under `trTop2` -/

def isSimple : Stmt → Bool
  | .assign _ _ => true
  | .aug _ _ _ => true
  | .tuple _ _ _ => true
  | .ctuple _ _ _ _ => true
  | .write _ => true
  | .sleep _ => true
  | .brk => true
  | .call _ _ _ _ _ _ _ _ => true
  | _ => false

theorem simple_top2 {s : Stmt} (hs : isSimple s = true) (all : List String) (te : C.TyEnv) (acc : TopAcc) :
    s.okTop2 all te = s.okTop all te ∧ trTop2 acc s = trTop acc s := by
  cases s <;> simp only [isSimple, Bool.false_eq_true] at hs <;> exact ⟨rfl, rfl⟩

theorem okTop_simple_eqv {all : List String} {s : Stmt} (hs : isSimple s = true) {te te₂ te1 : C.TyEnv}
    (he : Eqv te te₂) (h : s.okTop all te = some te1) : ∃ te1', s.okTop all te₂ = some te1' ∧ Eqv te1 te1' := by
  cases s with
  | assign x e =>
    simp only [Stmt.okTop] at h ⊢
    split at h
    · cases h
    · rename_i hwt
      simp only [Bool.not_eq_true', Bool.not_eq_false] at hwt
      obtain ⟨hw2, hty2⟩ := wt_sub he.sub e hwt
      rw [if_neg (by simp [hw2]), ← he x, hty2]
      cases hl : te.lookup x with
      | some t =>
        rw [hl] at h; simp only at h ⊢
        split at h
        · rename_i ht; cases h; rw [if_pos ht]; exact ⟨_, rfl, he⟩
        · cases h
      | none =>
        rw [hl] at h; simp only at h ⊢
        cases h; exact ⟨_, rfl, he.append _⟩
  | skip => simp [isSimple] at hs
  | seq a b => simp [isSimple] at hs
  | ifs c a b => simp [isSimple] at hs
  | whileLoop c b => simp [isSimple] at hs
  | forRange i n b => simp [isSimple] at hs
  | _ =>
    simp only [Stmt.okTop] at h ⊢
    split at h
    · rename_i hok; cases h
      rw [if_pos (okNested_ext ⟨he.sub, fun y hy => .inl (by rw [he y]; exact hy)⟩ hok)]
      exact ⟨_, rfl, he⟩
    · cases h

theorem Inv_keys {P : Expr → Prop} {acc : TopAcc} (hI : InvP P acc) : Keys acc.te := by
  obtain ⟨h1, _, h3⟩ := hI
  unfold Keys
  rw [h1, List.pairwise_map, List.pairwise_reverse]
  exact h3.imp fun h => h.symm

theorem InvP_addPromoted {P : Expr → Prop} (hd : ∀ t, P (defaultOf t)) {acc : TopAcc} {prom : C.TyEnv} (l : List Stmt)
    (hI : InvP P acc) (hf : Fresh acc.te prom) :
    InvP P { addPromoted acc prom with setup := l } := by
  obtain ⟨h1, h2, h3⟩ := hI
  refine ⟨?_, ?_, ?_⟩
  · show acc.te ++ prom = (((prom.map fun d => (d.1, d.2, defaultOf d.2)).reverse ++ acc.globals).reverse).map _
    rw [List.reverse_append, List.reverse_reverse, List.map_append, ← h1, List.map_map]
    congr 1
    have : ∀ l : C.TyEnv,
        l = l.map ((fun g : String × Ty × Expr => (g.1, g.2.1)) ∘ fun d => (d.1, d.2, defaultOf d.2)) := by
      intro l
      induction l with
      | nil => rfl
      | cons d l ih => rw [List.map_cons, ← ih]; rfl
    exact this prom
  · intro g hg
    rcases List.mem_append.1 hg with hg | hg
    · obtain ⟨d, _, rfl⟩ := List.mem_map.1 (List.mem_reverse.1 hg); exact hd _
    · exact h2 g hg
  · show ((prom.map fun d => (d.1, d.2, defaultOf d.2)).reverse ++ acc.globals).Pairwise _
    rw [List.pairwise_append]
    refine ⟨?_, h3, ?_⟩
    · rw [List.pairwise_reverse, List.pairwise_map]; exact hf.1.imp fun h => h.symm
    · intro a ha b hb
      obtain ⟨d, hd, rfl⟩ := List.mem_map.1 (List.mem_reverse.1 ha)
      have hn := hf.2 d hd
      rw [h1] at hn
      have := keys_of_lookup_none hn (b.1, b.2.1) (List.mem_map.2 ⟨b, List.mem_reverse.2 hb, rfl⟩)
      exact fun h => this h.symm

theorem Inv_addPromoted {acc : TopAcc} {prom : C.TyEnv} (l : List Stmt) (hI : Inv acc) (hf : Fresh acc.te prom) :
    Inv { addPromoted acc prom with setup := l } :=
  InvP_addPromoted defaultOf_good l hI hf

def Facts2 (s : Stmt) (acc acc1 : TopAcc) (te1 : C.TyEnv) : Prop :=
  Eqv te1 acc1.te ∧ Sub acc.te acc1.te ∧ (∀ g ∈ acc.globals, g ∈ acc1.globals) ∧
  (∀ x, (acc1.te.lookup x).isSome = true → (acc.te.lookup x).isSome = true ∨ x ∈ s.assigned) ∧
  (Inv acc → Inv acc1) ∧ (∃ l, acc1.setup = l ++ acc.setup)

theorem facts_simple {all : List String} {s : Stmt} (hs : isSimple s = true) {te : C.TyEnv} {acc acc1 : TopAcc}
    {te1 : C.TyEnv} (he : Eqv te acc.te) (h2 : s.okTop2 all te = some te1) (h : trTop2 acc s = .ok acc1) :
    Facts2 s acc acc1 te1 := by
  obtain ⟨e1, e2⟩ := simple_top2 hs all te acc
  rw [e1] at h2; rw [e2] at h
  obtain ⟨te1', h2', heq⟩ := okTop_simple_eqv hs he h2
  obtain ⟨a1, a2, a3, a4, a5, a6⟩ := trTop_facts all s acc acc1 te1' h2' h
  exact ⟨by rw [a1]; exact heq, a2, a3, a4, a5, a6⟩

theorem facts_block {all : List String} {s : Stmt} (hs : isBlock s = true) {te : C.TyEnv} {acc acc1 : TopAcc}
    {te1 : C.TyEnv} (he : Eqv te acc.te) (h2 : s.okTop2 all te = some te1) (h : trTop2 acc s = .ok acc1)
    (hall : ∀ x ∈ s.assigned, x ∈ all) : Facts2 s acc acc1 te1 := by
  obtain ⟨prom, s', rfl, heq, hfr, hnm, _, _⟩ := trTop2_block_cases hs he h2 h hall
  refine ⟨heq, Sub_append _ _, fun g hg => List.mem_append_right _ hg, ?_,
    fun hI => Inv_addPromoted _ hI (hfr (Inv_keys hI)), [s'], rfl⟩
  intro x hx
  change ((acc.te ++ prom).lookup x).isSome = true at hx
  rw [List.lookup_append] at hx
  cases h0 : acc.te.lookup x with
  | some t => left; rfl
  | none => rw [h0] at hx; exact .inr (hnm x hx)

theorem trTop2_facts (all : List String) (s : Stmt) : ∀ (te : C.TyEnv) (acc acc1 : TopAcc) (te1 : C.TyEnv),
    Eqv te acc.te → s.okTop2 all te = some te1 → trTop2 acc s = .ok acc1 → (∀ x ∈ s.assigned, x ∈ all) →
    Facts2 s acc acc1 te1 := by
  induction s with
  | skip =>
    intro te acc acc1 te1 he h2 h _
    simp only [trTop2] at h; simp only [Stmt.okTop2] at h2
    cases h; cases h2
    exact ⟨he, Sub_refl _, fun g hg => hg, fun x hx => .inl hx, fun h => h, [], rfl⟩
  | seq a b iha ihb =>
    intro te acc acc1 te1 he h2 h hall
    simp only [trTop2] at h; simp only [Stmt.okTop2] at h2
    obtain ⟨acca, ha, h⟩ := bind_ok h
    simp only [Stmt.assigned, List.mem_append] at hall
    cases h2a : a.okTop2 all te with
    | none => rw [h2a] at h2; cases h2
    | some tea =>
      rw [h2a] at h2
      obtain ⟨a1, a2, a3, a4, a5, la, a6⟩ := iha te acc acca tea he h2a ha (fun x hx => hall x (.inl hx))
      obtain ⟨b1, b2, b3, b4, b5, lb, b6⟩ := ihb tea acca acc1 te1 a1 h2 h (fun x hx => hall x (.inr hx))
      refine ⟨b1, Sub_trans a2 b2, fun g hg => b3 g (a3 g hg), ?_, fun hi => b5 (a5 hi),
        lb ++ la, by rw [b6, a6, List.append_assoc]⟩
      intro x hx
      simp only [Stmt.assigned, List.mem_append]
      rcases b4 x hx with hx | hx
      · rcases a4 x hx with hx | hx
        · exact .inl hx
        · exact .inr (.inl hx)
      · exact .inr (.inr hx)
  | ifs c t e _ _ => intro te acc acc1 te1 he h2 h hall; exact facts_block rfl he h2 h hall
  | whileLoop c b _ => intro te acc acc1 te1 he h2 h hall; exact facts_block rfl he h2 h hall
  | forRange i n b _ => intro te acc acc1 te1 he h2 h hall; exact facts_block rfl he h2 h hall
  | _ => intro te acc acc1 te1 he h2 h hall; exact facts_simple rfl he h2 h

/-- one nested statement of the prologue, executed under the final type environment -/
theorem top_step {all : List String} {tef : C.TyEnv} {s0 : Store} {F f : Nat}
    (hallf : ∀ x, (tef.lookup x).isSome = true → x ∈ all) (hle : f ≤ F) {s s' : Stmt} {te0 te1 : C.TyEnv}
    {stp stc stp' : Py.St} (hok : s.okNested all te1 = true) (htr : trNested te1 false 0 s = .ok s')
    (hall : ∀ x ∈ s.assigned, x ∈ all) (hsub0 : Sub te0 te1) (hsub : Sub te1 tef) (hst : StRel tef stp stc)
    (hP : ∀ x, te0.lookup x = none → stc.store.get x = s0.get x) (hpy : Py.exec f s stp = .ok stp') :
    TopOut tef s0 te1 stp' (execList tef F [s'] stc) := by
  have hext : Ext all te1 tef := ⟨hsub, fun x hx => .inr (hallf x hx)⟩
  have hokf := okNested_ext hext hok
  have htrf := trNested_ext hext.1 hokf htr
  have hsim := Sim1_mono hle ((sim all f).1 tef false 0 _ s' stp stc stp' hokf hall htrf hst hpy)
  rw [execList_single]
  rcases hsim with ⟨stc', hc, hr⟩ | hc
  · left
    refine ⟨stc', hc, hr, ?_⟩
    intro y hy
    rw [(C_frame _).1 _ _ _ _ hc y ?_]
    · apply hP y
      cases h0 : te0.lookup y with
      | none => rfl
      | some t => rw [hsub0 y t h0] at hy; cases hy
    · rw [trNested_assigned htr]
      intro hmem
      have := okNested_assigned_decl hok hall y hmem
      rw [hy] at this; cases this
  · right; exact hc

theorem top_sim2 (all : List String) (tef : C.TyEnv) (glf : List (String × Ty × Expr)) (s0 : Store) (F : Nat)
    (hallf : ∀ x, (tef.lookup x).isSome = true → x ∈ all)
    (hinit : ∀ g ∈ glf, ∃ cv, C.eval tef [] g.2.2 = .ok cv ∧ s0.get g.1 = some (C.conv g.2.1 cv))
    (s : Stmt) : ∀ (te : C.TyEnv) (acc acc1 : TopAcc) (te1 : C.TyEnv) (f : Nat) (stp stc stp' : Py.St), f ≤ F →
    Eqv te acc.te → s.okTop2 all te = some te1 → trTop2 acc s = .ok acc1 → (∀ x ∈ s.assigned, x ∈ all) →
    Sub acc1.te tef → (∀ g ∈ acc1.globals, g ∈ glf) → StRel tef stp stc →
    (∀ x, acc.te.lookup x = none → stc.store.get x = s0.get x) →
    Py.exec f s stp = .ok stp' → stp'.flow = .normal →
    ∃ l, acc1.setup = l ++ acc.setup ∧ TopOut tef s0 acc1.te stp' (execList tef F l.reverse stc) := by
  have simple : ∀ s, isSimple s = true → ∀ (te : C.TyEnv) (acc acc1 : TopAcc) (te1 : C.TyEnv) (f : Nat)
      (stp stc stp' : Py.St), f ≤ F →
      Eqv te acc.te → s.okTop2 all te = some te1 → trTop2 acc s = .ok acc1 → (∀ x ∈ s.assigned, x ∈ all) →
      Sub acc1.te tef → (∀ g ∈ acc1.globals, g ∈ glf) → StRel tef stp stc →
      (∀ x, acc.te.lookup x = none → stc.store.get x = s0.get x) →
      Py.exec f s stp = .ok stp' → stp'.flow = .normal →
      ∃ l, acc1.setup = l ++ acc.setup ∧ TopOut tef s0 acc1.te stp' (execList tef F l.reverse stc) := by
    intro s hs te acc acc1 te1 f stp stc stp' hle he h2 h hall hsub hgl hst hP hpy hfl
    obtain ⟨e1, e2⟩ := simple_top2 hs all te acc
    rw [e1] at h2; rw [e2] at h
    obtain ⟨te1', h2', _⟩ := okTop_simple_eqv hs he h2
    exact top_sim all tef glf s0 F hallf hinit s acc acc1 te1' f stp stc stp' hle h2' h hall hsub hgl hst hP hpy hfl
  have block : ∀ s, isBlock s = true → ∀ (te : C.TyEnv) (acc acc1 : TopAcc) (te1 : C.TyEnv) (f : Nat)
      (stp stc stp' : Py.St), f ≤ F →
      Eqv te acc.te → s.okTop2 all te = some te1 → trTop2 acc s = .ok acc1 → (∀ x ∈ s.assigned, x ∈ all) →
      Sub acc1.te tef → (∀ g ∈ acc1.globals, g ∈ glf) → StRel tef stp stc →
      (∀ x, acc.te.lookup x = none → stc.store.get x = s0.get x) →
      Py.exec f s stp = .ok stp' → stp'.flow = .normal →
      ∃ l, acc1.setup = l ++ acc.setup ∧ TopOut tef s0 acc1.te stp' (execList tef F l.reverse stc) := by
    intro s hs te acc acc1 te1 f stp stc stp' hle he h2 h hall hsub hgl hst hP hpy hfl
    obtain ⟨prom, s', rfl, _, _, _, hok, htr⟩ := trTop2_block_cases hs he h2 h hall
    exact ⟨[s'], rfl, top_step hallf hle hok htr hall (Sub_append _ _) hsub hst hP hpy⟩
  induction s with
  | skip =>
    intro te acc acc1 te1 f stp stc stp' hle he h2 h hall hsub hgl hst hP hpy hfl
    simp only [trTop2] at h; cases h
    cases f with
    | zero => rw [Py.exec] at hpy; cases hpy
    | succ f =>
      rw [Py.exec] at hpy; cases hpy
      exact ⟨[], rfl, .inl ⟨stc, rfl, hst, hP⟩⟩
  | seq a b iha ihb =>
    intro te acc acc1 te1 f stp stc stp' hle he h2 h hall hsub hgl hst hP hpy hfl
    simp only [trTop2] at h; simp only [Stmt.okTop2] at h2
    obtain ⟨acca, ha, h⟩ := bind_ok h
    cases h2a : a.okTop2 all te with
    | none => rw [h2a] at h2; cases h2
    | some tea =>
      rw [h2a] at h2
      simp only [Stmt.assigned, List.mem_append] at hall
      obtain ⟨a1, a2, a3, a4, a5, _⟩ := trTop2_facts all a te acc acca tea he h2a ha (fun x hx => hall x (.inl hx))
      obtain ⟨b1, b2, b3, b4, b5, lb0, hlb0⟩ := trTop2_facts all b tea acca acc1 te1 a1 h2 h
        (fun x hx => hall x (.inr hx))
      cases f with
      | zero => rw [Py.exec] at hpy; cases hpy
      | succ f =>
        rw [Py.exec] at hpy
        obtain ⟨st1, h1, hpy⟩ := bind_ok hpy
        have hfl1 : st1.flow = .normal := by
          by_cases hbr : st1.flow = .broke
          · rw [if_pos hbr] at hpy; cases hpy; rw [hfl] at hbr; cases hbr
          · exact flow_normal_of_ne hbr
        rw [if_neg (by rw [hfl1]; intro h; cases h)] at hpy
        obtain ⟨la, hla, houta⟩ := iha te acc acca tea f stp stc st1 (by omega) he h2a ha
          (fun x hx => hall x (.inl hx)) (Sub_trans b2 hsub) (fun g hg => hgl g (b3 g hg)) hst hP h1 hfl1
        rcases houta with ⟨stc1, hc1, hr1, hP1⟩ | hc1
        · obtain ⟨lb, hlb, houtb⟩ := ihb tea acca acc1 te1 f st1 stc1 stp' (by omega) a1 h2 h
            (fun x hx => hall x (.inr hx)) hsub hgl hr1 hP1 hpy hfl
          refine ⟨lb ++ la, by rw [hlb, hla, List.append_assoc], ?_⟩
          rw [List.reverse_append, execList_append_ok _ hc1 (by rw [hr1.fl, hfl1])]
          exact houtb
        · obtain ⟨lb, hlb⟩ : ∃ lb, acc1.setup = lb ++ acca.setup := ⟨lb0, hlb0⟩
          refine ⟨lb ++ la, by rw [hlb, hla, List.append_assoc], ?_⟩
          rw [List.reverse_append]
          right
          rcases hc1 with hc1 | hc1
          · rw [execList_append_err _ hc1]; exact .inl rfl
          · rw [execList_append_err _ hc1]; exact .inr rfl
  | ifs c t e _ _ => exact block _ rfl
  | whileLoop c b _ => exact block _ rfl
  | forRange i n b _ => exact block _ rfl
  | _ => exact simple _ rfl



/-! ### final assembly for `tr2` -/

/-- static initialisation and `setup()` against the Python prologue -/
theorem prologue_sim2 (pre : Stmt) (all : List String) (te : C.TyEnv) (acc : TopAcc) (fuel : Nat) (st0 : Py.St)
    (hokTop : pre.okTop2 all [] = some te) (hacc : trTop2 {} pre = .ok acc)
    (hpreall : ∀ x ∈ pre.assigned, x ∈ all)
    (hst0 : Py.exec fuel pre { store := [], trace := [] } = .ok st0) (hfl0 : st0.flow = .normal) :
    Eqv te acc.te ∧ (acc.globals.reverse.map fun g => (g.1, g.2.1)) = acc.te ∧
    ((∃ s0 stc0 f1, C.initGlobals acc.te acc.globals.reverse [] = .ok s0 ∧
        C.exec acc.te f1 (seqOf acc.setup.reverse) { store := s0, trace := [] } = .ok stc0 ∧
        StRel acc.te st0 stc0) ∨
     UB (C.initGlobals acc.te acc.globals.reverse []) ∨
     (∃ s0 f1, C.initGlobals acc.te acc.globals.reverse [] = .ok s0 ∧
        UB (C.exec acc.te f1 (seqOf acc.setup.reverse) { store := s0, trace := [] }))) := by
  have he0 : Eqv [] ({} : TopAcc).te := fun _ => rfl
  obtain ⟨hte, _, _, hdecl, hinv, _⟩ := trTop2_facts all pre [] {} acc te he0 hokTop hacc hpreall
  obtain ⟨hI1, hI2, hI3⟩ := hinv Inv_empty
  refine ⟨hte, hI1.symm, ?_⟩
  have hallf : ∀ x, (acc.te.lookup x).isSome = true → x ∈ all := by
    intro x hx
    rcases hdecl x hx with h | h
    · cases h
    · exact hpreall x h
  have hgood : ∀ g ∈ acc.globals.reverse, GoodInit g.2.2 :=
    fun g hg => hI2 g (List.mem_reverse.1 hg)
  have hnf : ∀ g ∈ acc.globals.reverse, g.2.2.nameFree = true := fun g hg => (hgood g hg).1
  rcases init_total acc.te acc.globals.reverse [] hgood with ⟨s0, hs0⟩ | hs0
  · obtain ⟨hinit, _⟩ := init_spec acc.te acc.globals.reverse [] s0
      (List.pairwise_reverse.2 (hI3.imp fun h => h.symm)) hnf hs0
    obtain ⟨l, hl, hout⟩ := top_sim2 all acc.te acc.globals.reverse s0 fuel hallf hinit pre [] {} acc te fuel
      { store := [], trace := [] } { store := s0, trace := [] } st0 (Nat.le_refl _) he0 hokTop hacc hpreall
      (Sub_refl _) (fun g hg => List.mem_reverse.2 hg) ⟨rfl, rfl, Rel_nil _ _⟩ (fun x _ => rfl) hst0 hfl0
    have hl' : acc.setup.reverse = l.reverse := by
      rw [hl]; show (l ++ []).reverse = _; rw [List.append_nil]
    rcases hout with ⟨stc0, hc0, hr0, _⟩ | hc0
    · obtain ⟨f1, hf1⟩ := execList_seqOf acc.te fuel l.reverse _ _ hc0 (by intro e; cases e)
      left; exact ⟨s0, stc0, f1, hs0, by rw [hl']; exact hf1, hr0⟩
    · obtain ⟨f1, hf1⟩ := execList_seqOf_ub acc.te fuel l.reverse _ hc0
      right; right; exact ⟨s0, f1, hs0, by rw [hl']; exact hf1⟩
  · right; left; exact hs0

theorem InF2_unfold (pre : Stmt) (body : Option Stmt) (hs : List Helper) :
    InF2 { pre := pre, body := body, helpers := hs } =
      (match pre.okTop2 (allOf pre body hs) [] with
       | none => false
       | some te => match body with
         | none => true
         | some b => b.okNested (allOf pre body hs) te) := rfl

theorem C01_partial_promotion_core (p : Prog) (c : CProg) (N fuel : Nat) (t : List Ev)
    (hin : InF2 p = true) (htr : tr2Core p = .ok c) (hpy : Py.run p N fuel = .ok t) :
    ∃ fuel', C.run c N fuel' = .ok t ∨ UB (C.run c N fuel') := by
  obtain ⟨pre, body, helpers⟩ := p
  rw [InF2_unfold pre body helpers] at hin
  have hall1 : ∀ x ∈ pre.assigned, x ∈ allOf pre body helpers := fun x hx => List.mem_append_left _ (List.mem_append_left _ hx)
  have hall2 : ∀ b, body = some b → ∀ x ∈ b.assigned, x ∈ allOf pre body helpers := by
    intro b hb x hx; subst hb; exact List.mem_append_left _ (List.mem_append_right _ hx)
  generalize allOf pre body helpers = all at hin hall1 hall2
  cases hokTop : pre.okTop2 all [] with
  | none => rw [hokTop] at hin; cases hin
  | some te =>
    rw [hokTop] at hin
    simp only at hin
    have hpreall : ∀ x ∈ pre.assigned, x ∈ all := hall1
    unfold tr2Core at htr
    obtain ⟨acc, hacc, htr⟩ := bind_ok htr
    simp only at htr
    unfold Py.run at hpy
    obtain ⟨st0, hst0, hpy⟩ := bind_ok hpy
    simp only at hst0 hpy
    have hfl0 : st0.flow = .normal := by
      by_cases hbr : st0.flow = .broke
      · rw [if_pos hbr] at hpy; cases hpy
      · exact flow_normal_of_ne hbr
    rw [if_neg (by rw [hfl0]; intro h; cases h)] at hpy
    obtain ⟨hte, htef, hpro⟩ := prologue_sim2 pre all te acc fuel st0 hokTop hacc hpreall hst0 hfl0
    have hext : Ext all te acc.te := ⟨hte.sub, fun x hx => .inl (by rw [hte x]; exact hx)⟩
    -- the main loop
    have hloopsim : ∃ loop stp', c = { globals := acc.globals.reverse, setup := seqOf acc.setup.reverse, loop := loop } ∧
        t = stp'.trace.reverse ∧
        ∀ stc0, StRel acc.te st0 stc0 → ∃ f2, Sim1 acc.te stp' (C.passes acc.te f2 loop N stc0) := by
      cases body with
      | none =>
        simp only at htr hpy
        cases hpy
        obtain ⟨loop, hloop, htr⟩ := bind_ok htr
        cases hloop; cases htr
        refine ⟨_, st0, rfl, rfl, fun stc0 hr0 => ⟨1, .inl ⟨stc0, ?_, hr0⟩⟩⟩
        exact passes_skip _ 0 N stc0 (by rw [hr0.fl, hfl0])
      | some b =>
        simp only at htr hpy hin
        obtain ⟨loop, hloop, htr⟩ := bind_ok htr
        cases htr
        obtain ⟨stN, hN, hpy⟩ := bind_ok hpy
        cases hpy
        have hball : ∀ x ∈ b.assigned, x ∈ all := hall2 b rfl
        exact ⟨loop, stN, rfl, rfl, fun stc0 hr0 =>
          ⟨fuel, passes_sim all acc.te b loop fuel (okNested_ext hext hin) hball hloop N st0 stc0 stN hr0 hN⟩⟩
    obtain ⟨loop, stN, rfl, rfl, hloopsim⟩ := hloopsim
    rcases hpro with ⟨s0, stc0, f1, hs0, hf1, hr0⟩ | hs0 | ⟨s0, f1, hs0, hf1⟩
    · obtain ⟨f2, hsimN⟩ := hloopsim stc0 hr0
      refine ⟨max f1 f2, ?_⟩
      have hsetup : C.exec acc.te (max f1 f2) (seqOf acc.setup.reverse) { store := s0, trace := [] }
          = .ok stc0 := by
        rw [C_exec_mono (Nat.le_max_left f1 f2) (by rw [hf1]; intro e; cases e), hf1]
      have hpass : C.passes acc.te (max f1 f2) loop N stc0 = C.passes acc.te f2 loop N stc0 := by
        apply C_passes_mono (Nat.le_max_right f1 f2)
        rcases hsimN with ⟨stcN, h, _⟩ | h
        · rw [h]; intro e; cases e
        · exact UB_ne_fuel h
      unfold C.run
      simp only [htef, hs0, ok_bind, hsetup, hpass]
      rw [if_neg (by rw [hr0.fl, hfl0]; intro h; cases h)]
      rcases hsimN with ⟨stcN, h, hrN⟩ | h
      · left; rw [h, ok_bind, hrN.tr]; rfl
      · right; exact ub_bind _ h
    · refine ⟨0, .inr ?_⟩
      unfold C.run
      simp only [htef]
      exact ub_bind _ hs0
    · refine ⟨f1, .inr ?_⟩
      unfold C.run
      simp only [htef, hs0, ok_bind]
      exact ub_bind _ hf1



theorem C01_partial_promotion_aux (p : Prog) (c : CProg) (N fuel : Nat) (t : List Ev)
    (hin : InF2 p = true) (htr : tr2 p = .ok c) (hpy : Py.run p N fuel = .ok t) :
    ∃ fuel', C.run c N fuel' = .ok t ∨ UB (C.run c N fuel') := by
  obtain ⟨_, c0, hs, htr0, rfl⟩ := tr2_ok htr
  obtain ⟨f', h⟩ := C01_partial_promotion_core p c0 N fuel t hin htr0 hpy
  exact ⟨f', by simpa only [C_run_helpers] using h⟩

/-! ### `tr2` extends `tr`, `InF2` extends `InF` -/

theorem newDecls_self (te : C.TyEnv) : newDecls te te = [] := by
  unfold newDecls
  rw [List.filter_eq_nil_iff]
  intro d hd h
  rw [Option.isNone_iff_eq_none] at h
  exact keys_of_lookup_none h d hd rfl

theorem sortDecls_nil : sortDecls [] = [] := by simp [sortDecls, Promote.sorted]

theorem addPromoted_nil (acc : TopAcc) : addPromoted acc [] = acc := by
  cases acc; simp [addPromoted]

theorem trBody2_of_trNested (s : Stmt) : ∀ (te : C.TyEnv) (d : Nat) (s' : Stmt),
    trNested te false d s = .ok s' → trBody2 te s = .ok (s', te) := by
  have other : ∀ s, isOther s = true → ∀ (te : C.TyEnv) (d : Nat) (s' : Stmt),
      trNested te false d s = .ok s' → trBody2 te s = .ok (s', te) := by
    intro s hs te d s' h
    rw [trNested_false_d s te d 1] at h
    cases s <;> simp only [isOther, Bool.false_eq_true] at hs <;>
    · simp only [trBody2, h, ok_bind]; rfl
  induction s with
  | skip => intro te d s' h; simp only [trNested] at h; cases h; rfl
  | seq a b iha ihb =>
    intro te d s' h
    rw [trNested] at h
    obtain ⟨a', ha, h⟩ := bind_ok h
    obtain ⟨b', hb, h⟩ := bind_ok h
    cases h
    simp only [trBody2, iha te d a' ha, ok_bind, ihb te d b' hb]; rfl
  | assign x e =>
    intro te d s' h
    rw [trNested] at h
    split at h
    · rename_i hl
      cases h
      obtain ⟨t, ht⟩ := Option.isSome_iff_exists.1 hl
      simp only [trBody2, ht]
    · cases h
  | _ => exact other _ rfl

theorem elseTr_of_trNested (s : Stmt) : ∀ (te : C.TyEnv) (d : Nat) (s' : Stmt),
    trNested te false d s = .ok s' → elseTr te s = .ok (s', []) := by
  induction s with
  | skip => intro te d s' h; simp only [trNested] at h; cases h; rfl
  | ifs c t e _ ihe =>
    intro te d s' h
    rw [trNested] at h
    obtain ⟨t', ht, h⟩ := bind_ok h
    obtain ⟨e', he, h⟩ := bind_ok h
    cases h
    show trChain2 te (.ifs c t e) = _
    rw [trChain2_unfold, trBody2_of_trNested t te d t' ht, ok_bind, ihe te d e' he, ok_bind]
    simp only [newDecls_self, sortDecls_nil, List.filter_nil, List.append_nil]
    rfl
  | _ =>
    intro te d s' h
    simp only [elseTr, trBody2_of_trNested _ te d s' h, ok_bind, newDecls_self, sortDecls_nil]
    rfl

theorem trTop2_of_trTop (s : Stmt) : ∀ (acc acc1 : TopAcc), trTop acc s = .ok acc1 → trTop2 acc s = .ok acc1 := by
  induction s with
  | skip => intro acc acc1 h; exact h
  | seq a b iha ihb =>
    intro acc acc1 h
    simp only [trTop] at h
    obtain ⟨acca, ha, h⟩ := bind_ok h
    simp only [trTop2, iha acc acca ha, ok_bind]
    exact ihb acca acc1 h
  | ifs c t e _ _ =>
    intro acc acc1 h
    simp only [trTop] at h
    obtain ⟨s', hs', h⟩ := bind_ok h
    cases h
    have := elseTr_of_trNested _ acc.te 0 s' hs'
    simp only [elseTr] at this
    simp only [trTop2, this, ok_bind, addPromoted_nil]
    rfl
  | whileLoop c b _ =>
    intro acc acc1 h
    simp only [trTop, trNested] at h
    obtain ⟨s', hs', h⟩ := bind_ok h
    obtain ⟨b', hb', hs'⟩ := bind_ok hs'
    cases hs'; cases h
    simp only [trTop2, trBody2_of_trNested b acc.te _ b' hb', ok_bind, newDecls_self, addPromoted_nil]
    rfl
  | forRange i n b _ =>
    intro acc acc1 h
    simp only [trTop, trNested] at h
    obtain ⟨s', hs', h⟩ := bind_ok h
    cases h
    split at hs'
    · cases hs'
    · rename_i hi
      obtain ⟨b', hb', hs'⟩ := bind_ok hs'
      cases hs'
      simp only [trTop2, if_neg hi, trBody2_of_trNested b _ _ b' hb', ok_bind, newDecls_self, addPromoted_nil]
      rfl
  | _ => intro acc acc1 h; exact h

theorem tr2Core_of_trCore (p : Prog) (c : CProg) (htr : trCore p = .ok c) : tr2Core p = .ok c := by
  unfold trCore at htr
  obtain ⟨acc, hacc, htr⟩ := bind_ok htr
  unfold tr2Core
  rw [trTop2_of_trTop _ _ _ hacc, ok_bind]
  exact htr

theorem tr2_of_tr (p : Prog) (c : CProg) (htr : tr p = .ok c) : tr2 p = .ok c := by
  have hnum := (tr_ok htr).1
  unfold tr at htr
  rw [if_pos hnum] at htr
  unfold tr2
  rw [if_pos hnum]
  unfold withHelpers at htr ⊢
  split
  · rename_i hres
    rw [if_pos hres] at htr
    cases h1 : trHelpers p.helpers with
    | error e => rw [h1] at htr; cases htr
    | ok hs =>
      rw [h1] at htr
      cases h2 : trCore p with
      | error e => rw [h2] at htr; cases htr
      | ok c0 => rw [h2] at htr; rw [tr2Core_of_trCore p c0 h2]; exact htr
  · rename_i hres
    rw [if_neg hres] at htr; cases htr

theorem okBody2_of_okNested (all : List String) (s : Stmt) : ∀ (te : C.TyEnv),
    s.okNested all te = true → s.okBody2 all te = some te := by
  induction s with
  | skip => intro te _; rfl
  | seq a b iha ihb =>
    intro te h
    simp only [Stmt.okNested, Bool.and_eq_true] at h
    simp only [Stmt.okBody2, iha te h.1]
    exact ihb te h.2
  | assign x e =>
    intro te h
    simp only [Stmt.okNested, Bool.and_eq_true, beq_iff_eq] at h
    simp only [Stmt.okBody2, h.1, h.2, Bool.not_true, Bool.false_eq_true, if_false, beq_self_eq_true, if_true]
  | _ => intro te h; simp only [Stmt.okBody2, h, if_true]

theorem elseEnv_of_okNested (all : List String) (s : Stmt) : ∀ (te : C.TyEnv),
    s.okNested all te = true → elseEnv all te s = some te := by
  induction s with
  | skip => intro te _; rfl
  | ifs c t e _ ihe =>
    intro te h
    simp only [Stmt.okNested, Bool.and_eq_true] at h
    show (Stmt.ifs c t e).okChain2 all te = _
    rw [okChain2_unfold, if_neg (by simp [h.1.1]), okBody2_of_okNested all t te h.1.2, ihe te h.2]
    simp only [Option.bind_some, newDecls_self, List.all_nil, if_true, List.filter_nil, List.append_nil]
  | _ => intro te h; exact okBody2_of_okNested all _ te h

theorem okTop2_of_okTop (all : List String) (s : Stmt) : ∀ (te te1 : C.TyEnv),
    s.okTop all te = some te1 → s.okTop2 all te = some te1 := by
  induction s with
  | skip => intro te te1 h; exact h
  | seq a b iha ihb =>
    intro te te1 h
    simp only [Stmt.okTop] at h
    cases ha : a.okTop all te with
    | none => rw [ha] at h; cases h
    | some tea =>
      rw [ha] at h
      simp only [Stmt.okTop2, iha te tea ha]
      exact ihb tea te1 h
  | ifs c t e _ _ =>
    intro te te1 h
    simp only [Stmt.okTop] at h
    split at h
    · rename_i hok; cases h
      exact elseEnv_of_okNested all _ te hok
    · cases h
  | whileLoop c b _ =>
    intro te te1 h
    simp only [Stmt.okTop] at h
    split at h
    · rename_i hok; cases h
      simp only [Stmt.okNested, Bool.and_eq_true] at hok
      simp only [Stmt.okTop2, hok.1, if_true]
      exact okBody2_of_okNested all b te hok.2
    · cases h
  | forRange i n b _ =>
    intro te te1 h
    simp only [Stmt.okTop] at h
    split at h
    · rename_i hok; cases h
      simp only [Stmt.okNested] at hok
      rw [Bool.and_eq_true] at hok
      obtain ⟨hcond, hb⟩ := hok
      have hi : te.lookup i = none := by
        have := hcond
        simp only [Bool.and_eq_true, Option.isNone_iff_eq_none] at this; exact this.1.2
      simp only [Stmt.okTop2, hcond, if_true, okBody2_of_okNested all b _ hb, Option.map_some]
      congr 1
      rw [List.filter_cons, if_neg (by simp), List.filter_eq_self]
      intro a ha
      simpa using keys_of_lookup_none hi a ha
    · cases h
  | _ => intro te te1 h; exact h

theorem InF2_of_InF (p : Prog) (hin : InF p = true) : InF2 p = true := by
  obtain ⟨pre, body, helpers⟩ := p
  rw [InF_unfold pre body helpers] at hin
  rw [InF2_unfold pre body helpers]
  cases h : pre.okTop (allOf pre body helpers) [] with
  | none => rw [h] at hin; cases hin
  | some te =>
    rw [h] at hin
    rw [okTop2_of_okTop _ _ _ _ h]
    exact hin


/-! ### concrete sorting facts for the examples -/

theorem sorted_single (x : String) : Promote.sorted [x] = [x] := by simp [Promote.sorted]

theorem sorted_zed_abe : Promote.sorted ["zed", "abe"] = ["abe", "zed"] := by
  simp [Promote.sorted, List.mergeSort, Promote.strLe]

end Reduino.Lemmas.C01p
