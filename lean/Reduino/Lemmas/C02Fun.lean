import Reduino.Lang.TypesFun
import Reduino.Lemmas.C02
namespace Reduino.Lemmas.C02Fun
open Reduino Reduino.Lang.Ty2 Reduino.Lemmas.C02

set_option linter.unusedSectionVars false

variable {K : Type} [Field K] [LinearOrder K] [IsStrictOrderedRing K] [FloorRing K]

/-! ### binding the arguments -/

theorem get_cons (k : String) (b : V K) (s : Store K) (y : String) :
    Store.get ((k, b) :: s) y = if y = k then some b else Store.get s y := by
  unfold Store.get; exact lookup_cons_if k b s y

theorem get_nil (y : String) : Store.get ([] : Store K) y = none := rfl

theorem storeRep_cons {g : TEnv} {py c : Store K} {x : String} {t : T} {v vc : V K}
    (hs : StoreRep g py c) (hl : g.lookup x = some t) (hr : rep t v = some vc) :
    StoreRep g ((x, v) :: py) ((x, vc) :: c) := by
  intro y w hy
  unfold Store.get at hy ⊢
  rw [lookup_cons_if] at hy
  rw [lookup_cons_if]
  by_cases h : y = x
  · subst h
    simp only [if_true, Option.some.injEq] at hy
    subst hy
    exact ⟨t, hl, vc, hr, by simp⟩
  · simp only [h, if_false] at hy ⊢
    exact hs y w hy

/-- arguments evaluated in a faithful caller store and converted to parameter types that are not narrower than the argument
    types give a faithful initial store of the callee -/
theorem bind_sim (gc : TEnv) (py c : Store K) (hs : StoreRep gc py c) (g : TEnv) :
    ∀ (xs : List String) (as : List (E K)) (s0 : Store K),
      (∀ a ∈ as, Tame gc a = true) →
      (∀ p ∈ xs.zip (as.map (infer gc)), (g.lookup p.1).any (fun t => sub p.2 t) = true) →
      bindPy py xs as = some s0 →
      ∃ c0, bindC gc c g xs as = some c0 ∧ StoreRep g s0 c0 := by
  intro xs
  induction xs with
  | nil =>
    intro as s0 _ _ hb
    cases as with
    | nil => cases hb; exact ⟨[], rfl, storeRep_nil g⟩
    | cons a as => cases hb
  | cons x xs ih =>
    intro as s0 hT hW hb
    cases as with
    | nil => cases hb
    | cons a as =>
      simp only [bindPy] at hb
      obtain ⟨v, hv, hb⟩ := Option.bind_eq_some_iff.1 hb
      obtain ⟨s1, hs1, rfl⟩ := Option.map_eq_some_iff.1 hb
      have hW0 := hW (x, infer gc a) (by simp)
      obtain ⟨t, hl, hsub⟩ := (Option.any_eq_true _ _).1 hW0
      have hsub : sub (infer gc a) t = true := hsub
      obtain ⟨w, hw, hr⟩ := evalC_sim gc py c hs a v (hT a List.mem_cons_self) hv
      obtain ⟨w', hw'⟩ := rep_of_sub (t := t) (sub_trans (rep_sub hr) hsub)
      obtain ⟨c1, hc1, hrep⟩ := ih as s1 (fun b hb => hT b (List.mem_cons_of_mem _ hb))
        (fun p hp => hW p (by simp only [List.map_cons, List.zip_cons_cons]; exact List.mem_cons_of_mem _ hp)) hs1
      refine ⟨(x, w') :: c1, ?_, storeRep_cons hrep hl hw'⟩
      simp only [bindC, hl, hw, rep_comp hsub hr, hw', hc1, Option.bind_some, Option.map_some]

/-! ### parameters the body does not assign keep the requested types -/

theorem tenv_get_set_ne (g : TEnv) (x y : String) (t : T) (h : y ≠ x) : (g.set x t).get y = g.get y := by
  unfold TEnv.set TEnv.get
  rw [lookup_cons_if, lookup_filter_ne]
  simp [h]

theorem cur_get_declareFrom (p : List (Stmt K)) (x : String) (hx : ∀ st ∈ p, st.1 ≠ x) :
    ∀ env : Env, (declareFrom env p).cur.get x = env.cur.get x := by
  induction p with
  | nil => intro env; rfl
  | cons st rest ih =>
    intro env
    have : declareFrom env (st :: rest) = declareFrom (declStep env st) rest := rfl
    rw [this, ih (fun s hs => hx s (List.mem_cons_of_mem _ hs))]
    simp only [declStep]
    exact tenv_get_set_ne _ _ _ _ (fun h => hx st List.mem_cons_self h.symm)

theorem map_get_zip : ∀ (xs : List String) (ts : List T), xs.Nodup → ts.length = xs.length →
    xs.map (TEnv.get (xs.zip ts)) = ts := by
  intro xs
  induction xs with
  | nil => intro ts _ hl; cases ts with | nil => rfl | cons _ _ => cases hl
  | cons x xs ih =>
    intro ts hn hl
    cases ts with
    | nil => cases hl
    | cons t ts =>
      obtain ⟨hx, hn'⟩ := List.nodup_cons.1 hn
      simp only [List.zip_cons_cons, List.map_cons, List.cons.injEq]
      refine ⟨by simp [TEnv.get], ?_⟩
      have : xs.map (TEnv.get ((x, t) :: xs.zip ts)) = xs.map (TEnv.get (xs.zip ts)) := by
        apply List.map_congr_left
        intro y hy
        have hne : y ≠ x := fun h => hx (h ▸ hy)
        unfold TEnv.get
        rw [lookup_cons_if, if_neg hne]
      rw [this]
      exact ih ts hn' (by simpa using hl)

theorem paramTypes_kept (f : Fun K) (hk : f.ParamsKept) (hn : f.params.Nodup) (ps : List T)
    (hl : ps.length = f.params.length) : f.paramTypes ps = ps := by
  unfold Fun.paramTypes Fun.parsed
  have : f.params.map (declareFrom { decl := f.params.zip ps, cur := f.params.zip ps } f.body).cur.get
      = f.params.map (TEnv.get (f.params.zip ps)) := by
    apply List.map_congr_left
    intro x hx
    exact cur_get_declareFrom f.body x (fun st hst h => hk st hst (h ▸ hx)) _
  rw [this, map_get_zip f.params ps hn hl]

theorem parseSig_kept (f : Fun K) (hk : f.ParamsKept) (hn : f.params.Nodup) (sig : List T) :
    f.parseSig sig = sig := by
  unfold Fun.parseSig
  rw [paramTypes_kept f hk hn f.primary (by simp [Fun.primary])]
  split
  · assumption
  · rfl

end Reduino.Lemmas.C02Fun
