import Reduino.Lang.WF
import Reduino.Lang.Tr2
import Reduino.Lemmas.C01p
/-
  Helper lemmas for Props/C06, part t: the block-scoped temporaries of tuple assignments — the translation keeps the
  temporaries of every block, and the parser's numbering makes them distinct within a block.
-/
namespace Reduino.Lemmas.C06
open Reduino.Lang Reduino.Lang.WF Reduino.Lemmas.C01 Reduino.Lemmas.C01p

/-- same temporaries in the statement's own block, same verdict on the nested blocks -/
def Same (s s' : Stmt) : Prop := blockTmps s' = blockTmps s ∧ declsOk s' = declsOk s

theorem Same.decls {s s' : Stmt} (h : Same s s') : blockDecls s' = blockDecls s := by
  unfold blockDecls; rw [h.1]

theorem trNested_same (s : Stmt) : ∀ (te : C.TyEnv) (m : Bool) (d : Nat) (s' : Stmt), trNested te m d s = .ok s' → Same s s' := by
  induction s with
  | skip => intro te m d s' h; simp only [trNested] at h; cases h; exact ⟨rfl, rfl⟩
  | seq a b iha ihb =>
    intro te m d s' h
    rw [trNested] at h
    obtain ⟨a', ha, h⟩ := bind_ok h
    obtain ⟨b', hb, h⟩ := bind_ok h
    cases h
    obtain ⟨a1, a2⟩ := iha _ _ _ _ ha
    obtain ⟨b1, b2⟩ := ihb _ _ _ _ hb
    exact ⟨by simp only [blockTmps, a1, b1], by simp only [declsOk, a2, b2]⟩
  | assign x e => intro te m d s' h; rw [trNested] at h; split at h <;> cases h; exact ⟨rfl, rfl⟩
  | aug x op e => intro te m d s' h; rw [trNested] at h; split at h <;> cases h; exact ⟨rfl, rfl⟩
  | tuple k xs es =>
    intro te m d s' h; rw [trNested] at h; split at h <;> cases h
    exact ⟨by simp only [blockTmps, List.length_map], rfl⟩
  | ctuple k ts xs es => intro te m d s' h; rw [trNested] at h; cases h
  | ifs c a b iha ihb =>
    intro te m d s' h
    rw [trNested] at h
    obtain ⟨a', ha, h⟩ := bind_ok h
    obtain ⟨b', hb, h⟩ := bind_ok h
    cases h
    have sa := iha _ _ _ _ ha
    have sb := ihb _ _ _ _ hb
    exact ⟨rfl, by simp only [declsOk, sa.2, sb.2, sa.decls, sb.decls]⟩
  | whileLoop c b ihb =>
    intro te m d s' h
    rw [trNested] at h
    obtain ⟨b', hb, h⟩ := bind_ok h
    cases h
    have sb := ihb _ _ _ _ hb
    exact ⟨rfl, by simp only [declsOk, sb.2, sb.decls]⟩
  | forRange i n b ihb =>
    intro te m d s' h
    rw [trNested] at h
    split at h
    · cases h
    · obtain ⟨b', hb, h⟩ := bind_ok h
      cases h
      have sb := ihb _ _ _ _ hb
      exact ⟨rfl, by simp only [declsOk, sb.2, sb.decls]⟩
  | write e => intro te m d s' h; rw [trNested] at h; cases h; exact ⟨rfl, rfl⟩
  | sleep e => intro te m d s' h; rw [trNested] at h; cases h; exact ⟨rfl, rfl⟩
  | brk => intro te m d s' h; rw [trNested] at h; split at h <;> cases h; exact ⟨rfl, rfl⟩
  | call y g ps ls rt body ret args _ =>
    intro te m d s' h
    rw [trNested] at h
    split at h
    · split at h
      · cases h
      · obtain ⟨b', _, h⟩ := bind_ok h
        split at h
        · cases h; exact ⟨rfl, rfl⟩
        · cases h
    · cases h

theorem trBody2_same (s : Stmt) : ∀ (te : C.TyEnv) (r : Stmt × C.TyEnv), trBody2 te s = .ok r → Same s r.1 := by
  induction s with
  | skip => intro te r h; simp only [trBody2] at h; cases h; exact ⟨rfl, rfl⟩
  | seq a b iha ihb =>
    intro te r h
    obtain ⟨r1, r2, h1, h2, rfl⟩ := trBody2_seq_cases h
    obtain ⟨a1, a2⟩ := iha _ _ h1
    obtain ⟨b1, b2⟩ := ihb _ _ h2
    exact ⟨by simp only [blockTmps, a1, b1], by simp only [declsOk, a2, b2]⟩
  | assign x e =>
    intro te r h
    obtain ⟨h1, _⟩ := trBody2_assign_cases h
    rw [h1]; exact ⟨rfl, rfl⟩
  | _ =>
    intro te r h
    obtain ⟨h1, _⟩ := trBody2_other_cases (by rfl) h
    exact trNested_same _ _ _ _ _ h1

theorem elseTr_same (e : Stmt) (ih : ∀ (te : C.TyEnv) (r : Stmt × C.TyEnv), trChain2 te e = .ok r → Same e r.1) :
    ∀ (te : C.TyEnv) (re : Stmt × C.TyEnv), elseTr te e = .ok re → Same e re.1 := by
  intro te re h
  cases e with
  | skip => simp only [elseTr] at h; cases h; exact ⟨rfl, rfl⟩
  | ifs c2 t2 e2 => simp only [elseTr] at h; exact ih _ _ h
  | _ =>
    simp only [elseTr] at h
    obtain ⟨re0, hre0, h⟩ := bind_ok h
    cases h
    exact trBody2_same _ te re0 hre0

theorem trChain2_same (s : Stmt) : ∀ (te : C.TyEnv) (r : Stmt × C.TyEnv), trChain2 te s = .ok r → Same s r.1 := by
  induction s with
  | ifs c t e _ ihe =>
    intro te r h
    rw [trChain2_unfold] at h
    obtain ⟨rt, hrt, h⟩ := bind_ok h
    obtain ⟨re, hre, h⟩ := bind_ok h
    cases h
    have st := trBody2_same _ _ _ hrt
    have se := elseTr_same e ihe _ _ hre
    exact ⟨rfl, by simp only [declsOk, st.2, se.2, st.decls, se.decls]⟩
  | _ =>
    intro te r h
    simp only [trChain2] at h
    obtain ⟨s', hs', h⟩ := bind_ok h
    cases h
    exact trNested_same _ _ _ _ _ hs'

/-- what the prologue pass adds to `setup()`: the temporaries of the statement, in order; nested blocks keep their verdict -/
def TopSame (s : Stmt) (acc acc' : TopAcc) : Prop :=
  acc'.setup.reverse.flatMap blockTmps = acc.setup.reverse.flatMap blockTmps ++ blockTmps s ∧
  ((∀ s0 ∈ acc.setup, declsOk s0 = true) → declsOk s = true → ∀ s0 ∈ acc'.setup, declsOk s0 = true)

theorem TopSame.push {s s' : Stmt} {acc : TopAcc} {acc' : TopAcc} (h : Same s s') (hs : acc'.setup = s' :: acc.setup) :
    TopSame s acc acc' := by
  refine ⟨?_, ?_⟩
  · rw [hs, List.reverse_cons, List.flatMap_append, List.flatMap_singleton, h.1]
  · intro h0 hd s0 hs0
    rw [hs] at hs0
    rcases List.mem_cons.1 hs0 with rfl | hs0
    · rw [h.2]; exact hd
    · exact h0 _ hs0

theorem TopSame.keep {s : Stmt} {acc acc' : TopAcc} (ht : blockTmps s = []) (hs : acc'.setup = acc.setup) : TopSame s acc acc' :=
  ⟨by rw [hs, ht, List.append_nil], fun h0 _ => by rw [hs]; exact h0⟩

theorem trTop2_same (s : Stmt) : ∀ (acc acc' : TopAcc), trTop2 acc s = .ok acc' → TopSame s acc acc' := by
  induction s with
  | skip => intro acc acc' h; simp only [trTop2] at h; cases h; exact TopSame.keep rfl rfl
  | seq a b iha ihb =>
    intro acc acc' h
    simp only [trTop2] at h
    obtain ⟨acc1, ha, hb⟩ := bind_ok h
    obtain ⟨a1, a2⟩ := iha _ _ ha
    obtain ⟨b1, b2⟩ := ihb _ _ hb
    refine ⟨by rw [b1, a1, List.append_assoc]; rfl, ?_⟩
    intro h0 hd
    simp only [declsOk, Bool.and_eq_true] at hd
    exact b2 (a2 h0 hd.1) hd.2
  | assign x e =>
    intro acc acc' h
    simp only [trTop2, trTop] at h
    split at h
    · cases h; exact TopSame.push (s' := .assign x e) ⟨rfl, rfl⟩ rfl
    · split at h
      · cases h; exact TopSame.keep rfl rfl
      · cases h; exact TopSame.push (s' := .assign x e) ⟨rfl, rfl⟩ rfl
  | ifs c t e _ _ =>
    intro acc acc' h
    simp only [trTop2] at h
    obtain ⟨r, hr, h⟩ := bind_ok h
    cases h
    exact TopSame.push (trChain2_same _ _ _ hr) rfl
  | whileLoop c b _ =>
    intro acc acc' h
    simp only [trTop2] at h
    obtain ⟨r, hr, h⟩ := bind_ok h
    cases h
    have sb := trBody2_same _ _ _ hr
    exact TopSame.push (s' := .whileLoop c r.1) ⟨rfl, by simp only [declsOk, sb.2, sb.decls]⟩ rfl
  | forRange i n b _ =>
    intro acc acc' h
    simp only [trTop2] at h
    split at h
    · cases h
    · obtain ⟨r, hr, h⟩ := bind_ok h
      cases h
      have sb := trBody2_same _ _ _ hr
      exact TopSame.push (s' := .forRange i (foldArg n) r.1) ⟨rfl, by simp only [declsOk, sb.2, sb.decls]⟩ rfl
  | _ =>
    intro acc acc' h
    simp only [trTop2] at h
    obtain ⟨s', hs', h⟩ := bind_ok h
    cases h
    exact TopSame.push (trNested_same _ _ _ _ _ hs') rfl

theorem blockTmps_seqOf : ∀ (l : List Stmt), blockTmps (seqOf l) = l.flatMap blockTmps
  | [] => rfl
  | [s] => by simp [seqOf]
  | s :: s2 :: l => by
    simp only [seqOf, blockTmps, blockTmps_seqOf (s2 :: l), List.flatMap_cons]

theorem declsOk_seqOf : ∀ (l : List Stmt), (∀ s ∈ l, declsOk s = true) → declsOk (seqOf l) = true
  | [], _ => rfl
  | [s], h => h s (by simp)
  | s :: s2 :: l, h => by
    simp only [seqOf, declsOk, Bool.and_eq_true]
    exact ⟨h s (by simp), declsOk_seqOf (s2 :: l) (fun s' hs' => h s' (List.mem_cons_of_mem _ hs'))⟩

/-! ### the parser's numbering -/

theorem tmpEnd_ge (s : Stmt) : ∀ k, k ≤ s.tmpEnd k := by
  induction s with
  | seq a b iha ihb => intro k; simp only [Stmt.tmpEnd]; exact Nat.le_trans (iha k) (ihb _)
  | tuple j xs es => intro k; simp only [Stmt.tmpEnd]; omega
  | whileLoop c b ih => intro k; simp only [Stmt.tmpEnd]; exact ih k
  | forRange i n b ih => intro k; simp only [Stmt.tmpEnd]; exact ih k
  | _ => intro k; simp only [Stmt.tmpEnd]; omega

/-- the temporaries of one block are numbered in strictly increasing order, from the counter at the start of the statement -/
theorem numbered_tmps (s : Stmt) : ∀ k, s.numberedFrom k = true →
    (∀ n ∈ blockTmps s, k ≤ n ∧ n < s.tmpEnd k) ∧ (blockTmps s).Pairwise (· < ·) := by
  induction s with
  | seq a b iha ihb =>
    intro k h
    simp only [Stmt.numberedFrom, Bool.and_eq_true] at h
    obtain ⟨a1, a2⟩ := iha k h.1
    obtain ⟨b1, b2⟩ := ihb _ h.2
    have hge := tmpEnd_ge a k
    have hge2 := tmpEnd_ge b (a.tmpEnd k)
    refine ⟨?_, ?_⟩
    · intro n hn
      simp only [blockTmps, List.mem_append] at hn
      simp only [Stmt.tmpEnd]
      rcases hn with hn | hn
      · have := a1 n hn; omega
      · have := b1 n hn; omega
    · simp only [blockTmps]
      rw [List.pairwise_append]
      refine ⟨a2, b2, ?_⟩
      intro x hx y hy
      have := a1 x hx; have := b1 y hy; omega
  | tuple j xs es =>
    intro k h
    simp only [Stmt.numberedFrom, beq_iff_eq] at h
    subst h
    refine ⟨?_, ?_⟩
    · intro n hn
      simp only [blockTmps, List.mem_map, List.mem_range] at hn
      obtain ⟨i, hi, rfl⟩ := hn
      simp only [Stmt.tmpEnd]; omega
    · simp only [blockTmps]
      rw [List.pairwise_map]
      exact List.Pairwise.imp (fun h => by omega) List.pairwise_lt_range
  | ctuple j ts xs es => intro k h; simp [Stmt.numberedFrom] at h
  | _ => intro k _; exact ⟨fun n hn => by simp [blockTmps] at hn, by simp [blockTmps]⟩

theorem numbered_nodup (s : Stmt) (k : Nat) (h : s.numberedFrom k = true) : (blockDecls s).Nodup := by
  unfold blockDecls List.Nodup
  rw [List.pairwise_map]
  exact List.Pairwise.imp (fun hlt => tmpName_ne (by omega)) (numbered_tmps s k h).2

/-- `for` variables that are not temporaries of their own body -/
def forOk : Stmt → Bool
  | .seq a b => forOk a && forOk b
  | .ifs _ t e => forOk t && forOk e
  | .whileLoop _ b => forOk b
  | .forRange i _ b => forOk b && !(blockDecls b).contains i
  | _ => true

theorem readsOk_forOk (s : Stmt) : ∀ (sc : List String) (l : Bool), readsOk sc l s = true → forOk s = true := by
  induction s with
  | seq a b iha ihb =>
    intro sc l h; simp only [readsOk, Bool.and_eq_true] at h; simp only [forOk, Bool.and_eq_true]
    exact ⟨iha _ _ h.1, ihb _ _ h.2⟩
  | ifs c t e iht ihe =>
    intro sc l h; simp only [readsOk, Bool.and_eq_true] at h; simp only [forOk, Bool.and_eq_true]
    exact ⟨iht _ _ h.1.2, ihe _ _ h.2⟩
  | whileLoop c b ih => intro sc l h; simp only [readsOk, Bool.and_eq_true] at h; simp only [forOk]; exact ih _ _ h.2
  | forRange i n b ih =>
    intro sc l h; simp only [readsOk, Bool.and_eq_true] at h; simp only [forOk, Bool.and_eq_true]
    exact ⟨ih _ _ h.1.2, h.2⟩
  | _ => intro sc l _; rfl

theorem topReads_forOk (s : Stmt) : ∀ (sc sc' : List String), topReads sc s = some sc' → forOk s = true := by
  induction s with
  | seq a b iha ihb =>
    intro sc sc' h
    simp only [topReads] at h
    cases h1 : topReads sc a with
    | none => simp [h1] at h
    | some sc1 =>
      simp only [h1, Option.bind_some] at h
      simp only [forOk, Bool.and_eq_true]
      exact ⟨iha _ _ h1, ihb _ _ h⟩
  | skip => intro sc sc' _; rfl
  | assign x e => intro sc sc' _; rfl
  | _ =>
    intro sc sc' h
    simp only [topReads] at h
    split at h
    · rename_i hr; exact readsOk_forOk _ _ _ hr
    · cases h

theorem numbered_declsOk (s : Stmt) : ∀ k, s.numberedFrom k = true → forOk s = true → declsOk s = true := by
  induction s with
  | seq a b iha ihb =>
    intro k h hf
    simp only [Stmt.numberedFrom, Bool.and_eq_true] at h
    simp only [forOk, Bool.and_eq_true] at hf
    simp only [declsOk, Bool.and_eq_true]
    exact ⟨iha _ h.1 hf.1, ihb _ h.2 hf.2⟩
  | ifs c t e iht ihe =>
    intro k h hf
    simp only [Stmt.numberedFrom, Bool.and_eq_true] at h
    simp only [forOk, Bool.and_eq_true] at hf
    simp only [declsOk, Bool.and_eq_true, decide_eq_true_eq]
    exact ⟨⟨⟨iht _ h.1 hf.1, ihe _ h.2 hf.2⟩, numbered_nodup t k h.1⟩, numbered_nodup e k h.2⟩
  | whileLoop c b ih =>
    intro k h hf
    simp only [Stmt.numberedFrom] at h
    simp only [forOk] at hf
    simp only [declsOk, Bool.and_eq_true, decide_eq_true_eq]
    exact ⟨ih _ h hf, numbered_nodup b k h⟩
  | forRange i n b ih =>
    intro k h hf
    simp only [Stmt.numberedFrom] at h
    simp only [forOk, Bool.and_eq_true] at hf
    simp only [declsOk, Bool.and_eq_true, decide_eq_true_eq]
    exact ⟨⟨ih _ h hf.1, numbered_nodup b k h⟩, hf.2⟩
  | _ => intro k _ _; rfl

/-- the block-level declarations of a sketch `tr2` produces from a program numbered like the parser numbers it -/
theorem tr2_decls (p : Prog) (c : CProg) (ht : tr2 p = .ok c) (hpre : forOk p.pre = true)
    (hbody : ∀ b, p.body = some b → forOk b = true) :
    declsOk c.setup = true ∧ (blockDecls c.setup).Nodup ∧ declsOk c.loop = true ∧ (blockDecls c.loop).Nodup := by
  obtain ⟨hnum, c0, hs0, ht0, rfl⟩ := tr2_ok ht
  clear ht
  have ht := ht0
  unfold tr2Core at ht
  obtain ⟨acc, hacc, ht⟩ := bind_ok ht
  simp only [Prog.numbered, Bool.and_eq_true] at hnum
  obtain ⟨t1, t2⟩ := trTop2_same _ _ _ hacc
  have hsetupT : blockTmps (seqOf acc.setup.reverse) = blockTmps p.pre := by
    rw [blockTmps_seqOf, t1]; rfl
  have hsetupD : declsOk (seqOf acc.setup.reverse) = true :=
    declsOk_seqOf _ (fun s hs => t2 (fun _ h => by cases h) (numbered_declsOk _ _ hnum.1 hpre) s (List.mem_reverse.1 hs))
  have hsetupN : (blockDecls (seqOf acc.setup.reverse)).Nodup := by
    have := numbered_nodup p.pre 0 hnum.1
    unfold blockDecls at this ⊢
    rw [hsetupT]; exact this
  cases hb : p.body with
  | none =>
    rw [hb] at ht; cases ht
    exact ⟨hsetupD, hsetupN, rfl, List.nodup_nil⟩
  | some b =>
    rw [hb] at ht hnum
    obtain ⟨loop, hloop, ht⟩ := bind_ok ht
    cases ht
    have sl := trNested_same _ _ _ _ _ hloop
    refine ⟨hsetupD, hsetupN, ?_, ?_⟩
    · show declsOk loop = true
      rw [sl.2]; exact numbered_declsOk _ _ hnum.2 (hbody b hb)
    · show (blockDecls loop).Nodup
      rw [sl.decls]; exact numbered_nodup _ _ hnum.2

end Reduino.Lemmas.C06
