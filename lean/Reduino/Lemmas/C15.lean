import Reduino.Lemmas.Field
import Reduino.Fw.Inputs
import Reduino.Fw.InputsWrap
import Reduino.Host.Core
/- helper lemmas for Props/C15.lean -/
namespace Reduino.Lemmas.C15
open Reduino Reduino.Fw

/-! ### Button -/

theorem passes_spec (b : Button) (sig : List Bool) :
    b.passes sig = List.zipWith (fun prev s => (s && !prev, s)) (b.prev :: sig) sig := by
  induction sig generalizing b with
  | nil => simp [Button.passes]
  | cons s rest ih =>
    rw [Button.passes, ih]
    simp [Button.poll]

theorem clickCount_eq_risingEdges (b : Button) (sig : List Bool) :
    b.clickCount sig = Host.risingEdges b.prev sig := by
  induction sig generalizing b with
  | nil => simp [Button.clickCount, Button.passes, Host.risingEdges]
  | cons s rest ih =>
    have ih' := ih (b.poll s).1
    simp only [Button.clickCount] at ih' ⊢
    simp only [Button.passes, Host.risingEdges, List.filter_cons]
    have hp : (b.poll s).1.prev = s := rfl
    rw [hp] at ih'
    have h2 : (b.poll s).2 = (s && !b.prev) := rfl
    rw [h2]
    by_cases h : (s && !b.prev) = true
    · simp only [h, if_true, List.length_cons, ih']; omega
    · simp only [h]; simpa using ih'

theorem hostClicks_eq_risingEdges (hb : Host.Button) (sig : List Bool) :
    Host.Button.clicks hb sig = Host.risingEdges hb.wasPressed sig := by
  induction sig generalizing hb with
  | nil => simp [Host.Button.clicks, Host.risingEdges]
  | cons s rest ih =>
    simp only [Host.Button.clicks, Host.risingEdges, ih]
    rfl

/-! ### Ultrasonic -/

/-- copy of `Props.C15.pulses` -/
def pulses' (l : List UEv) : List Nat := l.filterMap fun | .pulse t => some t | _ => none

/-- copy of `Props.C15.Spaced` -/
def Spaced' : Nat → List UEv → Prop
  | _, [] => True
  | last, .pulse t :: rest => (last ≠ 0 → last + 60 ≤ t) ∧ Spaced' last rest
  | _, .stamp t :: rest => Spaced' t rest
  | last, _ :: rest => Spaced' last rest

section
variable {α : Type} [Num α] [Mul α] [Div α]

theorem millis_ge (now : Nat) (ds : List Nat) : now ≤ (Ultra.millis now ds).1 := by
  cases ds <;> simp [Ultra.millis]

/-- clock and drift script at the trigger pulse -/
def atPulse (lt now : Nat) (ds : List Nat) : Nat × List Nat :=
  let m1 := Ultra.millis now ds
  if lt ≠ 0 ∧ m1.1 - lt < 60 then Ultra.millis (m1.1 + (60 - (m1.1 - lt))) m1.2 else m1

/-- events before the trigger pulse -/
def preEvs (lt now : Nat) (ds : List Nat) : List UEv :=
  let m1 := Ultra.millis now ds
  if lt ≠ 0 ∧ m1.1 - lt < 60 then [.delay (60 - (m1.1 - lt))] else []

theorem atPulse_ge (lt now : Nat) (ds : List Nat) : now ≤ (atPulse lt now ds).1 := by
  simp only [atPulse]
  have h1 := millis_ge now ds
  split
  · have h2 := millis_ge ((Ultra.millis now ds).1 + (60 - ((Ultra.millis now ds).1 - lt))) (Ultra.millis now ds).2
    omega
  · exact h1

theorem atPulse_spaced (lt now : Nat) (ds : List Nat) (h : lt ≤ now) (h0 : lt ≠ 0) :
    lt + 60 ≤ (atPulse lt now ds).1 := by
  simp only [atPulse]
  have h1 := millis_ge now ds
  split
  · have h2 := millis_ge ((Ultra.millis now ds).1 + (60 - ((Ultra.millis now ds).1 - lt))) (Ultra.millis now ds).2
    omega
  · rename_i hc
    have : ¬ ((Ultra.millis now ds).1 - lt < 60) := fun hh => hc ⟨h0, hh⟩
    omega

/-- the attempt loop without accumulator -/
def run : Nat → Ultra α → Nat → List Nat → List Nat → UOut α
  | 0, u, now, es, ds =>
    { st := u, now := now, result := if u.has then u.lastDistance else Num.ofInt 400, evs := [], echoes := es, drifts := ds }
  | k + 1, u, now, es, ds =>
    let m2 := atPulse u.lastTrigger now ds
    let dur := es.headD 0
    let m3 := Ultra.millis m2.1 m2.2
    if 0 < dur then
      { st := { lastTrigger := m3.1, lastDistance := Ultra.distanceOf dur, has := true }, now := m3.1,
        result := Ultra.distanceOf dur,
        evs := preEvs u.lastTrigger now ds ++ [.pulse m2.1, .echo dur, .stamp m3.1],
        echoes := es.tail, drifts := m3.2 }
    else
      let r := run k { u with lastTrigger := m3.1 } m3.1 es.tail m3.2
      { r with evs := preEvs u.lastTrigger now ds ++ (.pulse m2.1 :: .echo dur :: .stamp m3.1 :: r.evs) }

theorem attempts_eq_run (k : Nat) (u : Ultra α) (now : Nat) (es ds : List Nat) (acc : List UEv) :
    Ultra.attempts k u now es ds acc =
      { run k u now es ds with evs := acc ++ (run k u now es ds).evs } := by
  induction k generalizing u now es ds acc with
  | zero => simp [Ultra.attempts, run]
  | succ k ih =>
    simp only [Ultra.attempts, run, atPulse, preEvs, Ultra.minInterval]
    generalize es.headD 0 = dur
    by_cases hc : u.lastTrigger ≠ 0 ∧ (Ultra.millis now ds).1 - u.lastTrigger < 60
    · by_cases hd : 0 < dur
      · simp [hc, hd]
      · simp [hc, hd, ih]
    · by_cases hd : 0 < dur
      · simp [hc, hd]
      · simp [hc, hd, ih]

theorem measure_eq_run (u : Ultra α) (now : Nat) (es ds : List Nat) :
    Ultra.measure u now es ds = run 3 u now es ds := by
  rw [Ultra.measure, Ultra.maxAttempts, attempts_eq_run]
  simp

@[simp] theorem pulses'_nil : pulses' [] = [] := rfl
@[simp] theorem pulses'_pulse (t : Nat) (l : List UEv) : pulses' (.pulse t :: l) = t :: pulses' l := rfl
@[simp] theorem pulses'_echo (t : Nat) (l : List UEv) : pulses' (.echo t :: l) = pulses' l := rfl
@[simp] theorem pulses'_stamp (t : Nat) (l : List UEv) : pulses' (.stamp t :: l) = pulses' l := rfl
@[simp] theorem pulses'_delay (t : Nat) (l : List UEv) : pulses' (.delay t :: l) = pulses' l := rfl

@[simp] theorem pulses'_pre (lt now : Nat) (ds : List Nat) (l : List UEv) :
    pulses' (preEvs lt now ds ++ l) = pulses' l := by
  simp only [preEvs]
  split <;> simp

@[simp] theorem spaced'_pre (lt now : Nat) (ds : List Nat) (l : List UEv) :
    Spaced' lt (preEvs lt now ds ++ l) ↔ Spaced' lt l := by
  simp only [preEvs]
  split <;> simp [Spaced']

/-- number of pulses -/
theorem run_pulses_length (k : Nat) (u : Ultra α) (now : Nat) (es ds : List Nat) :
    (pulses' (run k u now es ds).evs).length ≤ k ∧
      (1 ≤ k → 1 ≤ (pulses' (run k u now es ds).evs).length) := by
  induction k generalizing u now es ds with
  | zero => simp [run]
  | succ k ih =>
    simp only [run]
    generalize atPulse u.lastTrigger now ds = m2
    generalize Ultra.millis m2.1 m2.2 = m3
    generalize es.headD 0 = dur
    split
    · simp
    · have := (ih { u with lastTrigger := m3.1 } m3.1 es.tail m3.2).1
      simp only [pulses'_pre, pulses'_pulse, pulses'_echo, pulses'_stamp, List.length_cons]
      omega

/-- first positive echo among the first `k` -/
def firstPos : Nat → List Nat → Option Nat
  | 0, _ => none
  | k + 1, es => if 0 < es.headD 0 then some (es.headD 0) else firstPos k es.tail

theorem firstPos_three (es : List Nat) :
    [es.getD 0 0, es.getD 1 0, es.getD 2 0].find? (0 < ·) = firstPos 3 es := by
  rcases es with _ | ⟨a, _ | ⟨b, _ | ⟨c, es⟩⟩⟩ <;> simp [firstPos, List.find?] <;> (repeat' split) <;> simp_all

theorem run_value (k : Nat) (u : Ultra α) (now : Nat) (es ds : List Nat) :
    match firstPos k es with
    | some d => (run k u now es ds).result = Ultra.distanceOf d ∧
                (run k u now es ds).st.has = true ∧ (run k u now es ds).st.lastDistance = Ultra.distanceOf d
    | none => (run k u now es ds).result = (if u.has then u.lastDistance else Num.ofInt 400) ∧
              (run k u now es ds).st.has = u.has ∧ (run k u now es ds).st.lastDistance = u.lastDistance := by
  induction k generalizing u now es ds with
  | zero => simp [run, firstPos]
  | succ k ih =>
    simp only [run, firstPos]
    generalize atPulse u.lastTrigger now ds = m2
    generalize Ultra.millis m2.1 m2.2 = m3
    generalize es.headD 0 = dur
    by_cases hd : 0 < dur
    · simp [hd]
    · simp only [hd, if_false]
      exact ih { u with lastTrigger := m3.1 } m3.1 es.tail m3.2

/-- spacing invariant -/
theorem run_spacing (k : Nat) (u : Ultra α) (now : Nat) (es ds : List Nat) (hpast : u.lastTrigger ≤ now) :
    Spaced' u.lastTrigger (run k u now es ds).evs ∧
      (run k u now es ds).st.lastTrigger ≤ (run k u now es ds).now ∧
      now ≤ (run k u now es ds).now := by
  induction k generalizing u now es ds with
  | zero => simp [run, Spaced', hpast]
  | succ k ih =>
    have h2 := atPulse_ge u.lastTrigger now ds
    have hs := atPulse_spaced u.lastTrigger now ds hpast
    simp only [run]
    generalize atPulse u.lastTrigger now ds = m2 at *
    have h3 := millis_ge m2.1 m2.2
    generalize Ultra.millis m2.1 m2.2 = m3 at *
    generalize es.headD 0 = dur
    split
    · simp only [spaced'_pre, Spaced']
      exact ⟨⟨hs, trivial⟩, Nat.le_refl _, by omega⟩
    · have := ih { u with lastTrigger := m3.1 } m3.1 es.tail m3.2 (Nat.le_refl _)
      simp only [spaced'_pre, Spaced']
      exact ⟨⟨hs, this.1⟩, this.2.1, by omega⟩

/-- pulse times: all at or after `now`, ≥ 60 after a running stamp, and pairwise ≥ 60 apart -/
theorem run_pulse_gap (k : Nat) (u : Ultra α) (now : Nat) (es ds : List Nat) (hpast : u.lastTrigger ≤ now)
    (hrun : 0 < now) :
    (∀ p ∈ pulses' (run k u now es ds).evs, now ≤ p ∧ (u.lastTrigger ≠ 0 → u.lastTrigger + 60 ≤ p)) ∧
      List.Pairwise (fun a b => a + 60 ≤ b) (pulses' (run k u now es ds).evs) := by
  induction k generalizing u now es ds with
  | zero => simp [run]
  | succ k ih =>
    have h2 := atPulse_ge u.lastTrigger now ds
    have hs := atPulse_spaced u.lastTrigger now ds hpast
    simp only [run]
    generalize atPulse u.lastTrigger now ds = m2 at *
    have h3 := millis_ge m2.1 m2.2
    generalize Ultra.millis m2.1 m2.2 = m3 at *
    generalize es.headD 0 = dur
    split
    · simp only [pulses'_pre, pulses'_pulse, pulses'_echo, pulses'_stamp, pulses'_nil]
      simp only [List.mem_singleton, forall_eq, List.pairwise_cons, List.not_mem_nil, false_imp_iff,
        implies_true, List.Pairwise.nil, and_true]
      exact ⟨h2, hs⟩
    · obtain ⟨ha, hp⟩ := ih { u with lastTrigger := m3.1 } m3.1 es.tail m3.2 (Nat.le_refl _) (by omega)
      simp only [] at ha
      simp only [pulses'_pre, pulses'_pulse, pulses'_echo, pulses'_stamp]
      refine ⟨?_, ?_⟩
      · intro p hp'
        rcases List.mem_cons.1 hp' with rfl | hm
        · exact ⟨h2, hs⟩
        · have := ha p hm
          refine ⟨by omega, fun h0 => ?_⟩
          have := hs h0
          omega
      · refine List.pairwise_cons.2 ⟨?_, hp⟩
        intro p hm
        have := (ha p hm).2 (by omega)
        omega

end

/-! ### the helper on the wrapping counter -/

section
variable {α : Type} [Num α] [LT α] [LE α] [DecidableLT α] [DecidableLE α]
variable [Add α] [Sub α] [Mul α] [Div α] [Neg α]

theorem ultra_measure_across_wrap_aux (W k : Nat) (u : Ultra α) (now : Nat) (es ds : List Nat) (acc : List UEv)
    (h : Ultra.SafeW W k u now es ds) :
    Ultra.attemptsW W k (u.onCounter W) now es ds acc =
      { Ultra.attempts k u now es ds acc with st := (Ultra.attempts k u now es ds acc).st.onCounter W } := by
  induction k generalizing u now es ds acc with
  | zero => rfl
  | succ k ih =>
    simp only [Ultra.SafeW] at h
    obtain ⟨⟨hle, hlt, hnz⟩, hrest⟩ := h
    have hel : Clock.usub W ((Ultra.millis now ds).1 % W) (u.lastTrigger % W) = (Ultra.millis now ds).1 - u.lastTrigger :=
      Clock.counter_difference W _ _ hle hlt
    have hz : (u.lastTrigger % W ≠ 0) ↔ (u.lastTrigger ≠ 0) := by
      rcases hnz with h0 | h0
      · simp [h0]
      · constructor
        · intro _ h1; rw [h1] at h0; simp at h0
        · intro _; exact h0
    simp only [Ultra.attemptsW, Ultra.attempts, Ultra.onCounter, hel, hz]
    generalize es.headD 0 = dur at hrest ⊢
    by_cases hc : u.lastTrigger ≠ 0 ∧ (Ultra.millis now ds).1 - u.lastTrigger < Ultra.minInterval
    · rw [if_pos hc] at hrest
      simp only [if_pos hc]
      by_cases hd : 0 < dur
      · simp [hd]
      · have hs := hrest.resolve_left hd
        simp only [if_neg hd]
        exact ih _ _ _ _ _ hs
    · rw [if_neg hc] at hrest
      simp only [if_neg hc]
      by_cases hd : 0 < dur
      · simp [hd]
      · have hs := hrest.resolve_left hd
        simp only [if_neg hd]
        exact ih _ _ _ _ _ hs
end

end Reduino.Lemmas.C15
