import Reduino.Lemmas.Field
import Reduino.Fw.Inputs
import Reduino.Host.Core
/- helper lemmas for Props/C15.lean -/
namespace Reduino.Lemmas.C15
open Reduino Reduino.Fw

/-! ### Button -/

theorem passes_spec (b : Button) (sig : List Bool) :
    b.passes sig = List.zipWith (fun prev s => (s && !prev, s)) (b.prev :: sig) sig := by
  induction sig generalizing b with
  | nil => simp [Button.passes]
  | cons s rest ih =>
    rw [Button.passes, ih]
    simp [Button.poll]

theorem clickCount_eq_risingEdges (b : Button) (sig : List Bool) :
    b.clickCount sig = Host.risingEdges b.prev sig := by
  induction sig generalizing b with
  | nil => simp [Button.clickCount, Button.passes, Host.risingEdges]
  | cons s rest ih =>
    have ih' := ih (b.poll s).1
    simp only [Button.clickCount] at ih' ⊢
    simp only [Button.passes, Host.risingEdges, List.filter_cons]
    have hp : (b.poll s).1.prev = s := rfl
    rw [hp] at ih'
    have h2 : (b.poll s).2 = (s && !b.prev) := rfl
    rw [h2]
    by_cases h : (s && !b.prev) = true
    · simp only [h, if_true, List.length_cons, ih']; omega
    · simp only [h, ih']; simp

theorem hostClicks_eq_risingEdges (hb : Host.Button) (sig : List Bool) :
    Host.Button.clicks hb sig = Host.risingEdges hb.wasPressed sig := by
  induction sig generalizing hb with
  | nil => simp [Host.Button.clicks, Host.risingEdges]
  | cons s rest ih =>
    simp only [Host.Button.clicks, Host.risingEdges, ih]
    rfl

/-! ### Ultrasonic -/

/-- copy of `Props.C15.pulses` -/
def pulses' (l : List UEv) : List Nat := l.filterMap fun | .pulse t => some t | _ => none

/-- copy of `Props.C15.Spaced` -/
def Spaced' : Nat → List UEv → Prop
  | _, [] => True
  | last, .pulse t :: rest => (last ≠ 0 → last + 60 ≤ t) ∧ Spaced' last rest
  | _, .stamp t :: rest => Spaced' t rest
  | last, _ :: rest => Spaced' last rest

section
variable {α : Type} [Num α] [LT α] [LE α] [DecidableLT α] [DecidableLE α]
variable [Add α] [Sub α] [Mul α] [Div α] [Neg α]

theorem millis_ge (now : Nat) (ds : List Nat) : now ≤ (Ultra.millis now ds).1 := by
  cases ds <;> simp [Ultra.millis]

/-- clock and drift script at the trigger pulse -/
def atPulse (lt now : Nat) (ds : List Nat) : Nat × List Nat :=
  let m1 := Ultra.millis now ds
  if lt ≠ 0 ∧ m1.1 - lt < 60 then Ultra.millis (m1.1 + (60 - (m1.1 - lt))) m1.2 else m1

/-- events before the trigger pulse -/
def preEvs (lt now : Nat) (ds : List Nat) : List UEv :=
  let m1 := Ultra.millis now ds
  if lt ≠ 0 ∧ m1.1 - lt < 60 then [.delay (60 - (m1.1 - lt))] else []

theorem atPulse_ge (lt now : Nat) (ds : List Nat) : now ≤ (atPulse lt now ds).1 := by
  simp only [atPulse]
  have h1 := millis_ge now ds
  split
  · have h2 := millis_ge ((Ultra.millis now ds).1 + (60 - ((Ultra.millis now ds).1 - lt))) (Ultra.millis now ds).2
    omega
  · exact h1

theorem atPulse_spaced (lt now : Nat) (ds : List Nat) (h : lt ≤ now) (h0 : lt ≠ 0) :
    lt + 60 ≤ (atPulse lt now ds).1 := by
  simp only [atPulse]
  have h1 := millis_ge now ds
  split
  · have h2 := millis_ge ((Ultra.millis now ds).1 + (60 - ((Ultra.millis now ds).1 - lt))) (Ultra.millis now ds).2
    omega
  · rename_i hc
    have : ¬ ((Ultra.millis now ds).1 - lt < 60) := fun hh => hc ⟨h0, hh⟩
    omega

/-- the attempt loop without accumulator -/
def run : Nat → Ultra α → Nat → List Nat → List Nat → UOut α
  | 0, u, now, es, ds =>
    { st := u, now := now, result := if u.has then u.lastDistance else Num.ofInt 400, evs := [], echoes := es, drifts := ds }
  | k + 1, u, now, es, ds =>
    let m2 := atPulse u.lastTrigger now ds
    let dur := es.headD 0
    let m3 := Ultra.millis m2.1 m2.2
    let evs := preEvs u.lastTrigger now ds ++ [.pulse m2.1, .echo dur, .stamp m3.1]
    if 0 < dur then
      { st := { lastTrigger := m3.1, lastDistance := Ultra.distanceOf dur, has := true }, now := m3.1,
        result := Ultra.distanceOf dur, evs := evs, echoes := es.tail, drifts := m3.2 }
    else
      let r := run k { u with lastTrigger := m3.1 } m3.1 es.tail m3.2
      { r with evs := evs ++ r.evs }

theorem attempts_eq_run (k : Nat) (u : Ultra α) (now : Nat) (es ds : List Nat) (acc : List UEv) :
    Ultra.attempts k u now es ds acc =
      { run k u now es ds with evs := acc ++ (run k u now es ds).evs } := by
  induction k generalizing u now es ds acc with
  | zero => simp [Ultra.attempts, run]
  | succ k ih =>
    simp only [Ultra.attempts, run, atPulse, preEvs, Ultra.minInterval]
    generalize es.headD 0 = dur
    by_cases hc : u.lastTrigger ≠ 0 ∧ (Ultra.millis now ds).1 - u.lastTrigger < 60
    · by_cases hd : 0 < dur
      · simp [hc, hd]
      · simp [hc, hd, ih]
    · by_cases hd : 0 < dur
      · simp [hc, hd]
      · simp [hc, hd, ih]

theorem measure_eq_run (u : Ultra α) (now : Nat) (es ds : List Nat) :
    Ultra.measure u now es ds = run 3 u now es ds := by
  rw [Ultra.measure, Ultra.maxAttempts, attempts_eq_run]
  simp

theorem pulses'_pre (lt now : Nat) (ds : List Nat) (t d s : Nat) (rest : List UEv) :
    pulses' (preEvs lt now ds ++ [.pulse t, .echo d, .stamp s] ++ rest) = t :: pulses' rest := by
  simp only [preEvs]
  split <;> simp [pulses']

theorem spaced'_pre (lt now : Nat) (ds : List Nat) (t d s : Nat) (rest : List UEv) :
    Spaced' lt (preEvs lt now ds ++ [.pulse t, .echo d, .stamp s] ++ rest) ↔
      (lt ≠ 0 → lt + 60 ≤ t) ∧ Spaced' s rest := by
  simp only [preEvs]
  split <;> simp [Spaced']

/-- number of pulses -/
theorem run_pulses_length (k : Nat) (u : Ultra α) (now : Nat) (es ds : List Nat) :
    (pulses' (run k u now es ds).evs).length ≤ k ∧
      (1 ≤ k → 1 ≤ (pulses' (run k u now es ds).evs).length) := by
  induction k generalizing u now es ds with
  | zero => simp [run, pulses']
  | succ k ih =>
    simp only [run]
    split
    · have := pulses'_pre u.lastTrigger now ds (atPulse u.lastTrigger now ds).1 (es.headD 0)
        (Ultra.millis (atPulse u.lastTrigger now ds).1 (atPulse u.lastTrigger now ds).2).1 []
      simp only [List.append_nil] at this
      simp [this]
    · simp only []
      rw [← List.append_assoc, pulses'_pre]
      have := (ih { u with lastTrigger := (Ultra.millis (atPulse u.lastTrigger now ds).1 (atPulse u.lastTrigger now ds).2).1 }
        (Ultra.millis (atPulse u.lastTrigger now ds).1 (atPulse u.lastTrigger now ds).2).1 es.tail
        (Ultra.millis (atPulse u.lastTrigger now ds).1 (atPulse u.lastTrigger now ds).2).2).1
      simp only [List.length_cons]
      omega

/-- first positive echo among the first `k` -/
def firstPos : Nat → List Nat → Option Nat
  | 0, _ => none
  | k + 1, es => if 0 < es.headD 0 then some (es.headD 0) else firstPos k es.tail

theorem firstPos_three (es : List Nat) :
    [es.getD 0 0, es.getD 1 0, es.getD 2 0].find? (0 < ·) = firstPos 3 es := by
  rcases es with _ | ⟨a, _ | ⟨b, _ | ⟨c, es⟩⟩⟩ <;> simp [firstPos, List.find?] <;> (repeat' split) <;> simp_all

theorem run_value (k : Nat) (u : Ultra α) (now : Nat) (es ds : List Nat) :
    match firstPos k es with
    | some d => (run k u now es ds).result = Ultra.distanceOf d ∧
                (run k u now es ds).st.has = true ∧ (run k u now es ds).st.lastDistance = Ultra.distanceOf d
    | none => (run k u now es ds).result = (if u.has then u.lastDistance else Num.ofInt 400) ∧
              (run k u now es ds).st.has = u.has ∧ (run k u now es ds).st.lastDistance = u.lastDistance := by
  induction k generalizing u now es ds with
  | zero => simp [run, firstPos]
  | succ k ih =>
    simp only [run, firstPos]
    by_cases hd : 0 < es.headD 0
    · simp [hd]
    · simp only [hd, if_false]
      exact ih { u with lastTrigger := (Ultra.millis (atPulse u.lastTrigger now ds).1 (atPulse u.lastTrigger now ds).2).1 }
        (Ultra.millis (atPulse u.lastTrigger now ds).1 (atPulse u.lastTrigger now ds).2).1 es.tail
        (Ultra.millis (atPulse u.lastTrigger now ds).1 (atPulse u.lastTrigger now ds).2).2

/-- spacing invariant -/
theorem run_spacing (k : Nat) (u : Ultra α) (now : Nat) (es ds : List Nat) (hpast : u.lastTrigger ≤ now) :
    Spaced' u.lastTrigger (run k u now es ds).evs ∧
      (run k u now es ds).st.lastTrigger ≤ (run k u now es ds).now ∧
      now ≤ (run k u now es ds).now := by
  induction k generalizing u now es ds with
  | zero => simp [run, Spaced', hpast]
  | succ k ih =>
    have h2 := atPulse_ge u.lastTrigger now ds
    have h3 := millis_ge (atPulse u.lastTrigger now ds).1 (atPulse u.lastTrigger now ds).2
    have hs : u.lastTrigger ≠ 0 → u.lastTrigger + 60 ≤ (atPulse u.lastTrigger now ds).1 :=
      fun h0 => atPulse_spaced u.lastTrigger now ds hpast h0
    simp only [run]
    split
    · have := spaced'_pre u.lastTrigger now ds (atPulse u.lastTrigger now ds).1 (es.headD 0)
        (Ultra.millis (atPulse u.lastTrigger now ds).1 (atPulse u.lastTrigger now ds).2).1 []
      simp only [List.append_nil] at this
      simp only [this]
      refine ⟨⟨hs, by simp [Spaced']⟩, Nat.le_refl _, by omega⟩
    · simp only []
      rw [← List.append_assoc, spaced'_pre]
      have := ih { u with lastTrigger := (Ultra.millis (atPulse u.lastTrigger now ds).1 (atPulse u.lastTrigger now ds).2).1 }
        (Ultra.millis (atPulse u.lastTrigger now ds).1 (atPulse u.lastTrigger now ds).2).1 es.tail
        (Ultra.millis (atPulse u.lastTrigger now ds).1 (atPulse u.lastTrigger now ds).2).2 (Nat.le_refl _)
      refine ⟨⟨hs, this.1⟩, this.2.1, by omega⟩

/-- pulse times: all at or after `now`, ≥ 60 after a running stamp, and pairwise ≥ 60 apart -/
theorem run_pulse_gap (k : Nat) (u : Ultra α) (now : Nat) (es ds : List Nat) (hpast : u.lastTrigger ≤ now)
    (hrun : 0 < now) :
    (∀ p ∈ pulses' (run k u now es ds).evs, now ≤ p ∧ (u.lastTrigger ≠ 0 → u.lastTrigger + 60 ≤ p)) ∧
      List.Pairwise (fun a b => a + 60 ≤ b) (pulses' (run k u now es ds).evs) := by
  induction k generalizing u now es ds with
  | zero => simp [run, pulses']
  | succ k ih =>
    have h2 := atPulse_ge u.lastTrigger now ds
    have h3 := millis_ge (atPulse u.lastTrigger now ds).1 (atPulse u.lastTrigger now ds).2
    have hs : u.lastTrigger ≠ 0 → u.lastTrigger + 60 ≤ (atPulse u.lastTrigger now ds).1 :=
      fun h0 => atPulse_spaced u.lastTrigger now ds hpast h0
    simp only [run]
    split
    · have := pulses'_pre u.lastTrigger now ds (atPulse u.lastTrigger now ds).1 (es.headD 0)
        (Ultra.millis (atPulse u.lastTrigger now ds).1 (atPulse u.lastTrigger now ds).2).1 []
      simp only [List.append_nil] at this
      simp only [this]
      simp [pulses']
      exact ⟨h2, hs⟩
    · simp only []
      rw [← List.append_assoc, pulses'_pre]
      have := ih { u with lastTrigger := (Ultra.millis (atPulse u.lastTrigger now ds).1 (atPulse u.lastTrigger now ds).2).1 }
        (Ultra.millis (atPulse u.lastTrigger now ds).1 (atPulse u.lastTrigger now ds).2).1 es.tail
        (Ultra.millis (atPulse u.lastTrigger now ds).1 (atPulse u.lastTrigger now ds).2).2 (Nat.le_refl _) (by omega)
      obtain ⟨ha, hp⟩ := this
      simp only [] at ha
      refine ⟨?_, ?_⟩
      · intro p hp'
        rcases List.mem_cons.1 hp' with rfl | hm
        · exact ⟨h2, hs⟩
        · have := ha p hm
          refine ⟨by omega, fun h0 => ?_⟩
          have := hs h0
          omega
      · refine List.pairwise_cons.2 ⟨?_, hp⟩
        intro p hm
        have := (ha p hm).2 (by omega)
        omega

end

end Reduino.Lemmas.C15
