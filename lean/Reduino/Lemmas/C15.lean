import Reduino.Lemmas.Field
import Reduino.Fw.Inputs
import Reduino.Host.Core
/- helper lemmas for Props/C15.lean -/
namespace Reduino.Lemmas.C15
end Reduino.Lemmas.C15
