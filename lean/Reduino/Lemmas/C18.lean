import Reduino.Fw.LcdAnim
/- helper lemmas for Props/C18.lean (individual Mathlib modules may be imported here) -/
namespace Reduino.Lemmas.C18
end Reduino.Lemmas.C18
