import Reduino.Fw.LcdAnim
/- helper lemmas for Props/C18.lean (individual Mathlib modules may be imported here) -/
namespace Reduino.Lemmas.C18
open Reduino Reduino.Lcd

/-! ## fields untouched by a step -/

theorem fw_step_fields (a : Anim) (g : Grid) (cols : Nat) :
    (Fw.step a g cols).1.lastStep = a.lastStep ∧ (Fw.step a g cols).1.speed = a.speed ∧
    (Fw.step a g cols).1.loop = a.loop ∧ (Fw.step a g cols).1.row = a.row ∧
    (Fw.step a g cols).1.style = a.style ∧ (Fw.step a g cols).1.text = a.text := by
  unfold Fw.step
  cases hst : a.style <;> simp only [] <;> repeat' split
  all_goals simp [hst]

theorem host_step_fields (a : Anim) (g : Grid) (cols : Nat) :
    (Host.step a g cols).1.lastStep = a.lastStep ∧ (Host.step a g cols).1.speed = a.speed ∧
    (Host.step a g cols).1.loop = a.loop ∧ (Host.step a g cols).1.row = a.row ∧
    (Host.step a g cols).1.style = a.style ∧ (Host.step a g cols).1.text = a.text := by
  unfold Host.step
  cases hst : a.style <;> simp only [] <;> repeat' split
  all_goals simp [hst]

/-! ## the two outcomes of a tick -/

theorem fw_tick_cases (a : Anim) (g : Grid) (cols now : Nat) :
    (a.active = true ∧ a.due now = true ∧
      Fw.tick a g cols now =
        ((Fw.step { a with lastStep := now } g cols).1, (Fw.step { a with lastStep := now } g cols).2, true)) ∨
    ((a.active = false ∨ a.due now = false) ∧ Fw.tick a g cols now = (a, { grid := g }, false)) := by
  unfold Fw.tick
  cases ha : a.active
  · right; simp
  · cases hd : a.due now
    · right; simp
    · left; simp

theorem host_tick_cases (a : Anim) (g : Grid) (cols now : Nat) :
    (a.active = true ∧ a.due now = true ∧
      Host.tick a g cols now =
        ((Host.step { a with lastStep := now } g cols).1, (Host.step { a with lastStep := now } g cols).2, true)) ∨
    ((a.active = false ∨ a.due now = false) ∧ Host.tick a g cols now = (a, g, false)) := by
  unfold Host.tick
  cases ha : a.active
  · right; simp
  · cases hd : a.due now
    · right; simp
    · left; simp

/-! ## cell matrix geometry -/

@[simp] theorem length_putRow (row : Row) (c : Int) (s : List Char) : (putRow row c s).length = row.length := by
  simp [putRow]

@[simp] theorem length_printAt (g : Grid) (c r : Int) (s : List Char) : (printAt g c r s).length = g.length := by
  simp [printAt]

@[simp] theorem length_setRow (g : Grid) (r : Nat) (row : Row) : (Host.setRow g r row).length = g.length := by
  simp [Host.setRow]

theorem getElem_printAt (g : Grid) (c r : Int) (s : List Char) (i : Nat) (h : i < g.length) :
    (printAt g c r s)[i]'(by simpa using h) = if Int.ofNat i = r then putRow g[i] c s else g[i] := by
  simp [printAt]

theorem getElem_setRow (g : Grid) (r : Nat) (row : Row) (i : Nat) (h : i < g.length) :
    (Host.setRow g r row)[i]'(by simpa using h) = if i = r then row else g[i] := by
  simp [Host.setRow]

theorem getD_printAt_ne (g : Grid) (c r : Int) (s : List Char) (i : Nat) (hne : Int.ofNat i ≠ r) :
    (printAt g c r s).getD i [] = g.getD i [] := by
  by_cases hi : i < g.length
  · have : i < (printAt g c r s).length := by simpa using hi
    simp only [List.getD, List.getElem?_eq_getElem this, List.getElem?_eq_getElem hi, Option.getD_some,
      getElem_printAt g c r s i hi, if_neg hne]
  · have : ¬ i < (printAt g c r s).length := by simpa using hi
    simp [List.getD, hi]

theorem getD_setRow_ne (g : Grid) (r : Nat) (row : Row) (i : Nat) (hne : i ≠ r) :
    (Host.setRow g r row).getD i [] = g.getD i [] := by
  by_cases hi : i < g.length
  · have : i < (Host.setRow g r row).length := by simpa using hi
    simp only [List.getD, List.getElem?_eq_getElem this, List.getElem?_eq_getElem hi, Option.getD_some,
      getElem_setRow g r row i hi, if_neg hne]
  · have : ¬ i < (Host.setRow g r row).length := by simpa using hi
    simp [List.getD, hi]

/-- all rows have width `cols` and there are `rows` of them -/
def ShapedL (g : Grid) (cols rows : Nat) : Prop := g.length = rows ∧ ∀ r ∈ g, r.length = cols

theorem shaped_printAt (g : Grid) (cols rows : Nat) (c r : Int) (s : List Char) (hg : ShapedL g cols rows) :
    ShapedL (printAt g c r s) cols rows := by
  refine ⟨by simpa using hg.1, ?_⟩
  intro x hx
  obtain ⟨i, hi, rfl⟩ := List.mem_iff_getElem.mp hx
  have hi' : i < g.length := by simpa using hi
  rw [getElem_printAt g c r s i hi']
  split
  · rw [length_putRow]; exact hg.2 _ (List.getElem_mem hi')
  · exact hg.2 _ (List.getElem_mem hi')

theorem shaped_setRow (g : Grid) (cols rows : Nat) (r : Nat) (row : Row) (hg : ShapedL g cols rows)
    (hrow : row.length = cols) : ShapedL (Host.setRow g r row) cols rows := by
  refine ⟨by simpa using hg.1, ?_⟩
  intro x hx
  obtain ⟨i, hi, rfl⟩ := List.mem_iff_getElem.mp hx
  have hi' : i < g.length := by simpa using hi
  rw [getElem_setRow g r row i hi']
  split
  · exact hrow
  · exact hg.2 _ (List.getElem_mem hi')

/-- geometry of a firmware output relative to the grid it started from -/
def GoodOut (g : Grid) (cols rows row : Nat) (o : Out) : Prop :=
  ShapedL o.grid cols rows ∧
  (∀ p ∈ o.prints, (0 ≤ p.col ∧ p.col + Int.ofNat p.len ≤ Int.ofNat cols) ∧ p.row = Int.ofNat row) ∧
  (∀ i, i ≠ row → o.grid.getD i [] = g.getD i [])

theorem good_id (g : Grid) (cols rows row : Nat) (hg : ShapedL g cols rows) : GoodOut g cols rows row { grid := g } :=
  ⟨hg, by simp, fun _ _ => rfl⟩

theorem good_clearRow (g : Grid) (cols rows row : Nat) (hg : ShapedL g cols rows) :
    GoodOut g cols rows row (Fw.clearRow g (Int.ofNat cols) (Int.ofNat row)) := by
  unfold Fw.clearRow
  split
  · exact good_id g cols rows row hg
  · refine ⟨shaped_printAt _ _ _ _ _ _ hg, ?_, ?_⟩
    · intro p hp
      simp only [List.mem_singleton] at hp
      subst hp
      simp
    · intro i hi
      exact getD_printAt_ne _ _ _ _ _ (by simp only [Int.ofNat_eq_natCast]; omega)

theorem good_frame (g : Grid) (cols rows row : Nat) (c : Int) (s : List Char) (hg : ShapedL g cols rows)
    (hc : 0 ≤ c) (hlen : c + Int.ofNat s.length ≤ Int.ofNat cols) :
    GoodOut g cols rows row (Fw.frame g cols row c s) := by
  have h1 := good_clearRow g cols rows row hg
  unfold Fw.frame
  refine ⟨shaped_printAt _ _ _ _ _ _ h1.1, ?_, ?_⟩
  · intro p hp
    simp only [List.mem_append, List.mem_singleton] at hp
    rcases hp with hp | hp
    · exact h1.2.1 p hp
    · subst hp
      exact ⟨⟨hc, hlen⟩, rfl⟩
  · intro i hi
    simp only []
    rw [getD_printAt_ne _ _ _ _ _ (by simp only [Int.ofNat_eq_natCast]; omega)]
    exact h1.2.2 i hi

theorem length_takeCols_le (cols : Nat) (s : List Char) : (takeCols cols s).length ≤ cols := by
  unfold takeCols
  split
  · rw [List.length_take]; omega
  · omega

theorem good_frame0 (g : Grid) (cols rows row : Nat) (s : List Char) (hg : ShapedL g cols rows)
    (hlen : s.length ≤ cols) : GoodOut g cols rows row (Fw.frame g cols row 0 s) :=
  good_frame g cols rows row 0 s hg (by omega) (by simp only [Int.ofNat_eq_natCast]; omega)

theorem fw_start_good (style : Style) (g : Grid) (cols rows row speed : Nat) (text : List Char) (loop : Bool)
    (hg : ShapedL g cols rows) : GoodOut g cols rows row (Fw.start style g cols row text speed loop).2 := by
  unfold Fw.start
  cases style <;> simp only []
  · exact good_frame0 _ _ _ _ _ hg (length_takeCols_le _ _)
  · exact good_frame0 _ _ _ _ _ hg (length_takeCols_le _ _)
  · split
    · exact good_frame0 _ _ _ _ _ hg (length_takeCols_le _ _)
    · exact good_clearRow _ _ _ _ hg
  · exact good_frame0 _ _ _ _ _ hg (length_takeCols_le _ _)

theorem fw_step_good (a : Anim) (g : Grid) (cols rows : Nat) (hg : ShapedL g cols rows) :
    GoodOut g cols rows a.row (Fw.step a g cols).2 := by
  unfold Fw.step
  cases hst : a.style <;> simp only []
  · -- scroll
    split
    · exact good_id _ _ _ _ hg
    · exact good_frame0 _ _ _ _ _ hg (by simp)
  · -- blink
    split
    · exact good_frame0 _ _ _ _ _ hg (length_takeCols_le _ _)
    · exact good_clearRow _ _ _ _ hg
  · -- typewriter
    split
    · exact good_clearRow _ _ _ _ hg
    · split
      · exact good_frame0 _ _ _ _ _ hg (length_takeCols_le _ _)
      · split
        · exact good_id _ _ _ _ hg
        · exact good_clearRow _ _ _ _ hg
  · -- bounce
    split
    · exact good_clearRow _ _ _ _ hg
    · split
      · exact good_frame0 _ _ _ _ _ hg (by rw [List.length_take]; omega)
      · rename_i h1 h2
        simp only [Int.ofNat_eq_natCast] at h1 h2 ⊢
        apply good_frame _ _ _ _ _ _ hg
        · split
          · simp only []; omega
          · split
            · split <;> simp
            · simp only []; omega
        · split
          · simp only [Int.ofNat_eq_natCast]
            split
            · omega
            · omega
          · split
            · split <;> (simp only [Int.ofNat_eq_natCast]; split <;> omega)
            · simp only [Int.ofNat_eq_natCast]
              split <;> omega

/-- geometry of a host buffer relative to the buffer it started from -/
def GoodGrid (g : Grid) (cols rows row : Nat) (g' : Grid) : Prop :=
  ShapedL g' cols rows ∧ (∀ i, i ≠ row → g'.getD i [] = g.getD i [])

theorem goodg_id (g : Grid) (cols rows row : Nat) (hg : ShapedL g cols rows) : GoodGrid g cols rows row g :=
  ⟨hg, fun _ _ => rfl⟩

theorem goodg_setRow (g : Grid) (cols rows row : Nat) (c : Int) (s : List Char) (hg : ShapedL g cols rows) :
    GoodGrid g cols rows row (Host.setRow g row (putRow (blankRow cols) c s)) :=
  ⟨shaped_setRow _ _ _ _ _ hg (by simp [blankRow]), fun i hi => getD_setRow_ne _ _ _ _ hi⟩

theorem goodg_setLine (g : Grid) (cols rows row : Nat) (s : List Char) (hg : ShapedL g cols rows) :
    GoodGrid g cols rows row (Host.setLine g cols row s) :=
  goodg_setRow _ _ _ _ _ _ hg

theorem host_step_good (a : Anim) (g : Grid) (cols rows : Nat) (hg : ShapedL g cols rows) :
    GoodGrid g cols rows a.row (Host.step a g cols).2 := by
  unfold Host.step
  cases hst : a.style <;> simp only []
  · split
    · exact goodg_id _ _ _ _ hg
    · exact goodg_setLine _ _ _ _ _ hg
  · split
    · exact goodg_setLine _ _ _ _ _ hg
    · exact goodg_setLine _ _ _ _ _ hg
  · split
    · exact goodg_setLine _ _ _ _ _ hg
    · split
      · exact goodg_setLine _ _ _ _ _ hg
      · split
        · exact goodg_setLine _ _ _ _ _ hg
        · exact goodg_id _ _ _ _ hg
  · split
    · exact goodg_setLine _ _ _ _ _ hg
    · split
      · exact goodg_setLine _ _ _ _ _ hg
      · exact goodg_setRow _ _ _ _ _ _ hg

end Reduino.Lemmas.C18
