import Reduino.Fw.LcdAnim
import Reduino.Fw.LcdAnimWrap
/- helper lemmas for Props/C18.lean (individual Mathlib modules may be imported here) -/
namespace Reduino.Lemmas.C18
open Reduino Reduino.Lcd

/-! ## fields untouched by a step -/

theorem fw_step_fields (a : Anim) (g : Grid) (cols : Nat) :
    (Fw.step a g cols).1.lastStep = a.lastStep ∧ (Fw.step a g cols).1.speed = a.speed ∧
    (Fw.step a g cols).1.loop = a.loop ∧ (Fw.step a g cols).1.row = a.row ∧
    (Fw.step a g cols).1.style = a.style ∧ (Fw.step a g cols).1.text = a.text := by
  unfold Fw.step
  cases hst : a.style <;> simp only [] <;> repeat' split
  all_goals simp [hst]

theorem host_step_fields (a : Anim) (g : Grid) (cols : Nat) :
    (Host.step a g cols).1.lastStep = a.lastStep ∧ (Host.step a g cols).1.speed = a.speed ∧
    (Host.step a g cols).1.loop = a.loop ∧ (Host.step a g cols).1.row = a.row ∧
    (Host.step a g cols).1.style = a.style ∧ (Host.step a g cols).1.text = a.text := by
  unfold Host.step
  cases hst : a.style <;> simp only [] <;> repeat' split
  all_goals simp [hst]

/-! ## the two outcomes of a tick -/

theorem fw_tick_cases (a : Anim) (g : Grid) (cols now : Nat) :
    (a.active = true ∧ a.due now = true ∧
      Fw.tick a g cols now =
        ((Fw.step { a with lastStep := now } g cols).1, (Fw.step { a with lastStep := now } g cols).2, true)) ∨
    ((a.active = false ∨ a.due now = false) ∧ Fw.tick a g cols now = (a, { grid := g }, false)) := by
  unfold Fw.tick
  cases ha : a.active
  · right; simp
  · cases hd : a.due now
    · right; simp
    · left; simp

theorem host_tick_cases (a : Anim) (g : Grid) (cols now : Nat) :
    (a.active = true ∧ a.due now = true ∧
      Host.tick a g cols now =
        ((Host.step { a with lastStep := now } g cols).1, (Host.step { a with lastStep := now } g cols).2, true)) ∨
    ((a.active = false ∨ a.due now = false) ∧ Host.tick a g cols now = (a, g, false)) := by
  unfold Host.tick
  cases ha : a.active
  · right; simp
  · cases hd : a.due now
    · right; simp
    · left; simp

/-! ## cell matrix geometry -/

@[simp] theorem length_putRow (row : Row) (c : Int) (s : List Char) : (putRow row c s).length = row.length := by
  simp [putRow]

@[simp] theorem length_printAt (g : Grid) (c r : Int) (s : List Char) : (printAt g c r s).length = g.length := by
  simp [printAt]

@[simp] theorem length_setRow (g : Grid) (r : Nat) (row : Row) : (Host.setRow g r row).length = g.length := by
  simp [Host.setRow]

theorem getElem_printAt (g : Grid) (c r : Int) (s : List Char) (i : Nat) (h : i < g.length) :
    (printAt g c r s)[i]'(by simpa using h) = if Int.ofNat i = r then putRow g[i] c s else g[i] := by
  simp [printAt]

theorem getElem_setRow (g : Grid) (r : Nat) (row : Row) (i : Nat) (h : i < g.length) :
    (Host.setRow g r row)[i]'(by simpa using h) = if i = r then row else g[i] := by
  simp [Host.setRow]

theorem getD_printAt_ne (g : Grid) (c r : Int) (s : List Char) (i : Nat) (hne : Int.ofNat i ≠ r) :
    (printAt g c r s).getD i [] = g.getD i [] := by
  by_cases hi : i < g.length
  · have : i < (printAt g c r s).length := by simpa using hi
    simp only [List.getD, List.getElem?_eq_getElem this, List.getElem?_eq_getElem hi, Option.getD_some,
      getElem_printAt g c r s i hi, if_neg hne]
  · have : ¬ i < (printAt g c r s).length := by simpa using hi
    simp [List.getD, hi]

theorem getD_setRow_ne (g : Grid) (r : Nat) (row : Row) (i : Nat) (hne : i ≠ r) :
    (Host.setRow g r row).getD i [] = g.getD i [] := by
  by_cases hi : i < g.length
  · have : i < (Host.setRow g r row).length := by simpa using hi
    simp only [List.getD, List.getElem?_eq_getElem this, List.getElem?_eq_getElem hi, Option.getD_some,
      getElem_setRow g r row i hi, if_neg hne]
  · have : ¬ i < (Host.setRow g r row).length := by simpa using hi
    simp [List.getD, hi]

/-- all rows have width `cols` and there are `rows` of them -/
def ShapedL (g : Grid) (cols rows : Nat) : Prop := g.length = rows ∧ ∀ r ∈ g, r.length = cols

theorem shaped_printAt (g : Grid) (cols rows : Nat) (c r : Int) (s : List Char) (hg : ShapedL g cols rows) :
    ShapedL (printAt g c r s) cols rows := by
  refine ⟨by simpa using hg.1, ?_⟩
  intro x hx
  obtain ⟨i, hi, rfl⟩ := List.mem_iff_getElem.mp hx
  have hi' : i < g.length := by simpa using hi
  rw [getElem_printAt g c r s i hi']
  split
  · rw [length_putRow]; exact hg.2 _ (List.getElem_mem hi')
  · exact hg.2 _ (List.getElem_mem hi')

theorem shaped_setRow (g : Grid) (cols rows : Nat) (r : Nat) (row : Row) (hg : ShapedL g cols rows)
    (hrow : row.length = cols) : ShapedL (Host.setRow g r row) cols rows := by
  refine ⟨by simpa using hg.1, ?_⟩
  intro x hx
  obtain ⟨i, hi, rfl⟩ := List.mem_iff_getElem.mp hx
  have hi' : i < g.length := by simpa using hi
  rw [getElem_setRow g r row i hi']
  split
  · exact hrow
  · exact hg.2 _ (List.getElem_mem hi')

/-- geometry of a firmware output relative to the grid it started from -/
def GoodOut (g : Grid) (cols rows row : Nat) (o : Out) : Prop :=
  ShapedL o.grid cols rows ∧
  (∀ p ∈ o.prints, (0 ≤ p.col ∧ p.col + Int.ofNat p.len ≤ Int.ofNat cols) ∧ p.row = Int.ofNat row) ∧
  (∀ i, i ≠ row → o.grid.getD i [] = g.getD i [])

theorem good_id (g : Grid) (cols rows row : Nat) (hg : ShapedL g cols rows) : GoodOut g cols rows row { grid := g } :=
  ⟨hg, by simp, fun _ _ => rfl⟩

theorem good_clearRow (g : Grid) (cols rows row : Nat) (hg : ShapedL g cols rows) :
    GoodOut g cols rows row (Fw.clearRow g (Int.ofNat cols) (Int.ofNat row)) := by
  unfold Fw.clearRow
  split
  · exact good_id g cols rows row hg
  · refine ⟨shaped_printAt _ _ _ _ _ _ hg, ?_, ?_⟩
    · intro p hp
      simp only [List.mem_singleton] at hp
      subst hp
      simp
    · intro i hi
      exact getD_printAt_ne _ _ _ _ _ (by simp only [Int.ofNat_eq_natCast]; omega)

theorem good_frame (g : Grid) (cols rows row : Nat) (c : Int) (s : List Char) (hg : ShapedL g cols rows)
    (hc : 0 ≤ c) (hlen : c + Int.ofNat s.length ≤ Int.ofNat cols) :
    GoodOut g cols rows row (Fw.frame g cols row c s) := by
  have h1 := good_clearRow g cols rows row hg
  unfold Fw.frame
  refine ⟨shaped_printAt _ _ _ _ _ _ h1.1, ?_, ?_⟩
  · intro p hp
    simp only [List.mem_append, List.mem_singleton] at hp
    rcases hp with hp | hp
    · exact h1.2.1 p hp
    · subst hp
      exact ⟨⟨hc, hlen⟩, rfl⟩
  · intro i hi
    simp only []
    rw [getD_printAt_ne _ _ _ _ _ (by simp only [Int.ofNat_eq_natCast]; omega)]
    exact h1.2.2 i hi

theorem length_takeCols_le (cols : Nat) (s : List Char) : (takeCols cols s).length ≤ cols := by
  unfold takeCols
  split
  · rw [List.length_take]; omega
  · omega

theorem good_frame0 (g : Grid) (cols rows row : Nat) (s : List Char) (hg : ShapedL g cols rows)
    (hlen : s.length ≤ cols) : GoodOut g cols rows row (Fw.frame g cols row 0 s) :=
  good_frame g cols rows row 0 s hg (by omega) (by simp only [Int.ofNat_eq_natCast]; omega)

theorem fw_start_good (style : Style) (g : Grid) (cols rows row speed : Nat) (text : List Char) (loop : Bool)
    (hg : ShapedL g cols rows) : GoodOut g cols rows row (Fw.start style g cols row text speed loop).2 := by
  unfold Fw.start
  cases style <;> simp only []
  · exact good_frame0 _ _ _ _ _ hg (length_takeCols_le _ _)
  · exact good_frame0 _ _ _ _ _ hg (length_takeCols_le _ _)
  · split
    · exact good_frame0 _ _ _ _ _ hg (length_takeCols_le _ _)
    · exact good_clearRow _ _ _ _ hg
  · exact good_frame0 _ _ _ _ _ hg (length_takeCols_le _ _)

theorem fw_step_good (a : Anim) (g : Grid) (cols rows : Nat) (hg : ShapedL g cols rows) :
    GoodOut g cols rows a.row (Fw.step a g cols).2 := by
  unfold Fw.step
  cases hst : a.style <;> simp only []
  · -- scroll
    split
    · exact good_id _ _ _ _ hg
    · exact good_frame0 _ _ _ _ _ hg (by simp)
  · -- blink
    split
    · exact good_frame0 _ _ _ _ _ hg (length_takeCols_le _ _)
    · exact good_clearRow _ _ _ _ hg
  · -- typewriter
    split
    · exact good_clearRow _ _ _ _ hg
    · split
      · exact good_frame0 _ _ _ _ _ hg (length_takeCols_le _ _)
      · split
        · exact good_id _ _ _ _ hg
        · exact good_clearRow _ _ _ _ hg
  · -- bounce
    split
    · exact good_clearRow _ _ _ _ hg
    · split
      · exact good_frame0 _ _ _ _ _ hg (by rw [List.length_take]; omega)
      · rename_i h1 h2
        simp only [Int.ofNat_eq_natCast] at h1 h2 ⊢
        apply good_frame _ _ _ _ _ _ hg
        · split
          · simp only []; omega
          · split
            · split <;> simp
            · simp only []; omega
        · split
          · simp only [Int.ofNat_eq_natCast]
            split
            · omega
            · omega
          · split
            · split <;> (simp only [Int.ofNat_eq_natCast]; split <;> omega)
            · simp only [Int.ofNat_eq_natCast]
              split <;> omega

/-- geometry of a host buffer relative to the buffer it started from -/
def GoodGrid (g : Grid) (cols rows row : Nat) (g' : Grid) : Prop :=
  ShapedL g' cols rows ∧ (∀ i, i ≠ row → g'.getD i [] = g.getD i [])

theorem goodg_id (g : Grid) (cols rows row : Nat) (hg : ShapedL g cols rows) : GoodGrid g cols rows row g :=
  ⟨hg, fun _ _ => rfl⟩

theorem goodg_setRow (g : Grid) (cols rows row : Nat) (c : Int) (s : List Char) (hg : ShapedL g cols rows) :
    GoodGrid g cols rows row (Host.setRow g row (putRow (blankRow cols) c s)) :=
  ⟨shaped_setRow _ _ _ _ _ hg (by simp [blankRow]), fun i hi => getD_setRow_ne _ _ _ _ hi⟩

theorem goodg_setLine (g : Grid) (cols rows row : Nat) (s : List Char) (hg : ShapedL g cols rows) :
    GoodGrid g cols rows row (Host.setLine g cols row s) :=
  goodg_setRow _ _ _ _ _ _ hg

theorem host_step_good (a : Anim) (g : Grid) (cols rows : Nat) (hg : ShapedL g cols rows) :
    GoodGrid g cols rows a.row (Host.step a g cols).2 := by
  unfold Host.step
  cases hst : a.style <;> simp only []
  · split
    · exact goodg_id _ _ _ _ hg
    · exact goodg_setLine _ _ _ _ _ hg
  · split
    · exact goodg_setLine _ _ _ _ _ hg
    · exact goodg_setLine _ _ _ _ _ hg
  · split
    · exact goodg_setLine _ _ _ _ _ hg
    · split
      · exact goodg_setLine _ _ _ _ _ hg
      · split
        · exact goodg_setLine _ _ _ _ _ hg
        · exact goodg_id _ _ _ _ hg
  · split
    · exact goodg_setLine _ _ _ _ _ hg
    · split
      · exact goodg_setLine _ _ _ _ _ hg
      · exact goodg_setRow _ _ _ _ _ _ hg

/-! ## termination -/

/-- `n` forced steps of a generic step function, stopping when inactive -/
def stepsG (stp : Anim → Grid → Anim × Grid) : Nat → Anim × Grid → Anim × Grid
  | 0, s => s
  | n + 1, (a, g) => if a.active then stepsG stp n (stp a g) else (a, g)

theorem stepsG_inactive (stp : Anim → Grid → Anim × Grid) (n : Nat) (a : Anim) (g : Grid) (h : a.active = false) :
    stepsG stp n (a, g) = (a, g) := by
  cases n <;> simp [stepsG, h]

/-- a measure that strictly decreases along active steps (under an invariant) bounds the number of steps -/
theorem stepsG_done (stp : Anim → Grid → Anim × Grid) (I : Anim → Prop) (μ : Anim → Nat)
    (hstep : ∀ a g, I a → a.active = true →
      (stp a g).1.active = false ∨ (I (stp a g).1 ∧ μ (stp a g).1 < μ a)) :
    ∀ n a g, I a → μ a < n → (stepsG stp n (a, g)).1.active = false := by
  intro n
  induction n with
  | zero => intro a g _ h; omega
  | succ n ih =>
    intro a g hI hμ
    cases ha : a.active
    · rw [stepsG_inactive _ _ _ _ ha]; exact ha
    · simp only [stepsG, ha, if_true]
      rcases hstep a g hI ha with h | ⟨h1, h2⟩
      · have : stp a g = ((stp a g).1, (stp a g).2) := rfl
        rw [this, stepsG_inactive _ _ _ _ h]; exact h
      · have : stp a g = ((stp a g).1, (stp a g).2) := rfl
        rw [this]
        exact ih _ _ h1 (by omega)

def fwStp (cols : Nat) (a : Anim) (g : Grid) : Anim × Grid := ((Fw.step a g cols).1, (Fw.step a g cols).2.grid)
def hostStp (cols : Nat) (a : Anim) (g : Grid) : Anim × Grid := Host.step a g cols

/-- a step keeps the configuration fields -/
def Keeps (stp : Anim → Grid → Anim × Grid) : Prop :=
  ∀ a g, (stp a g).1.style = a.style ∧ (stp a g).1.loop = a.loop ∧ (stp a g).1.text = a.text

theorem keeps_fw (cols : Nat) : Keeps (fwStp cols) := fun a g =>
  ⟨(fw_step_fields a g cols).2.2.2.2.1, (fw_step_fields a g cols).2.2.1, (fw_step_fields a g cols).2.2.2.2.2⟩

theorem keeps_host (cols : Nat) : Keeps (hostStp cols) := fun a g =>
  ⟨(host_step_fields a g cols).2.2.2.2.1, (host_step_fields a g cols).2.2.1, (host_step_fields a g cols).2.2.2.2.2⟩

/-! ### scroll -/

def ScrollSpec (stp : Anim → Grid → Anim × Grid) (text : List Char) (L : Nat) : Prop :=
  ∀ a g, a.style = .scroll → a.loop = false → a.text = text → 0 ≤ a.offset → a.offset < (L : Int) →
    (stp a g).1.offset = a.offset + 1 ∧ (a.offset + 1 ≥ (L : Int) → (stp a g).1.active = false)

theorem scroll_done (stp : Anim → Grid → Anim × Grid) (hk : Keeps stp) (text : List Char) (L : Nat)
    (hs : ScrollSpec stp text L) (a : Anim) (g : Grid) (hst : a.style = .scroll) (hl : a.loop = false)
    (ht : a.text = text) (ho : a.offset = 0) (hL : 0 < L) : (stepsG stp L (a, g)).1.active = false := by
  apply stepsG_done stp
    (fun a => a.style = .scroll ∧ a.loop = false ∧ a.text = text ∧ 0 ≤ a.offset ∧ a.offset < (L : Int))
    (fun a => ((L : Int) - 1 - a.offset).toNat)
  · intro a g ⟨h1, h2, h3, h4, h5⟩ _
    obtain ⟨k1, k2, k3⟩ := hk a g
    obtain ⟨s1, s2⟩ := hs a g h1 h2 h3 h4 h5
    by_cases hge : a.offset + 1 ≥ (L : Int)
    · exact Or.inl (s2 hge)
    · refine Or.inr ⟨⟨by rw [k1, h1], by rw [k2, h2], by rw [k3, h3], by omega, by omega⟩, ?_⟩
      show ((L : Int) - 1 - (stp a g).1.offset).toNat < ((L : Int) - 1 - a.offset).toNat
      omega
  · exact ⟨hst, hl, ht, by omega, by omega⟩
  · show ((L : Int) - 1 - a.offset).toNat < L
    omega

theorem fw_scroll_spec (text : List Char) (cols : Nat) (hc : 0 < cols) :
    ScrollSpec (fwStp cols) text (max text.length cols + cols) := by
  intro a g hst hl ht h0 h1
  have hpl : (a.text ++ List.replicate (cols - a.text.length) ' ' ++ List.replicate cols ' ').length =
      max text.length cols + cols := by
    simp only [List.length_append, List.length_replicate, ht]; omega
  have hne : ¬ (max text.length cols + cols = 0) := by have := hc; omega
  have hge : ¬ (a.offset ≥ Int.ofNat (max text.length cols + cols)) := by
    simp only [Int.ofNat_eq_natCast]; omega
  unfold fwStp Fw.step
  simp only [hst, hpl, hl, hne, hge, if_false]
  by_cases hk : a.offset.toNat + 1 ≥ max text.length cols + cols
  · simp only [hk, if_true, Bool.false_eq_true, if_false]
    exact ⟨by simp only [Int.ofNat_eq_natCast]; omega, fun _ => trivial⟩
  · simp only [hk, if_false]
    exact ⟨by simp only [Int.ofNat_eq_natCast]; omega, fun h => by omega⟩

theorem host_scroll_spec (text : List Char) (cols : Nat) (hc : 0 < cols) :
    ScrollSpec (hostStp cols) text (text.length + cols) := by
  intro a g hst hl ht h0 h1
  have hpl : (a.text ++ List.replicate cols ' ').length = text.length + cols := by
    simp only [List.length_append, List.length_replicate, ht]
  have hne : ¬ (text.length + cols = 0) := by have := hc; omega
  unfold hostStp Host.step
  simp only [hst, hpl, hl, hne, if_false]
  by_cases hk : a.offset.toNat + 1 ≥ text.length + cols
  · simp only [hk, if_true, Bool.false_eq_true, if_false]
    exact ⟨by simp only [Int.ofNat_eq_natCast]; omega, fun _ => trivial⟩
  · simp only [hk, if_false]
    exact ⟨by simp only [Int.ofNat_eq_natCast]; omega, fun h => by omega⟩

/-! ### blink -/

def BlinkSpec (stp : Anim → Grid → Anim × Grid) : Prop :=
  ∀ a g, a.style = .blink → a.loop = false → a.shown = true → (stp a g).1.active = false

theorem blink_done (stp : Anim → Grid → Anim × Grid) (hs : BlinkSpec stp) (a : Anim) (g : Grid)
    (hst : a.style = .blink) (hl : a.loop = false) (hsh : a.shown = true) :
    (stepsG stp 1 (a, g)).1.active = false := by
  apply stepsG_done stp (fun a => a.style = .blink ∧ a.loop = false ∧ a.shown = true) (fun _ => 0)
  · intro a g ⟨h1, h2, h3⟩ _
    exact Or.inl (hs a g h1 h2 h3)
  · exact ⟨hst, hl, hsh⟩
  · show 0 < 1
    omega

theorem fw_blink_spec (cols : Nat) : BlinkSpec (fwStp cols) := by
  intro a g hst hl hsh
  unfold fwStp Fw.step
  simp [hst, hl, hsh]

theorem host_blink_spec (cols : Nat) : BlinkSpec (hostStp cols) := by
  intro a g hst hl hsh
  unfold hostStp Host.step
  simp [hst, hl, hsh]

/-! ### typewriter -/

def TwSpec (stp : Anim → Grid → Anim × Grid) (text : List Char) : Prop :=
  ∀ a g, a.style = .typewriter → a.loop = false → a.text = text → 0 ≤ a.visible →
    (a.visible + 1 ≥ (text.length : Int) → (stp a g).1.active = false) ∧
    (a.visible + 1 < (text.length : Int) → (stp a g).1.visible = a.visible + 1)

theorem tw_done (stp : Anim → Grid → Anim × Grid) (hk : Keeps stp) (text : List Char)
    (hs : TwSpec stp text) (a : Anim) (g : Grid) (hst : a.style = .typewriter) (hl : a.loop = false)
    (ht : a.text = text) (hv : a.visible = ((min text.length 1 : Nat) : Int)) :
    (stepsG stp (max (text.length - 1) 1) (a, g)).1.active = false := by
  apply stepsG_done stp
    (fun a => a.style = .typewriter ∧ a.loop = false ∧ a.text = text ∧ 0 ≤ a.visible)
    (fun a => ((text.length : Int) - 1 - a.visible).toNat)
  · intro a g ⟨h1, h2, h3, h4⟩ _
    obtain ⟨k1, k2, k3⟩ := hk a g
    obtain ⟨s1, s2⟩ := hs a g h1 h2 h3 h4
    by_cases hge : a.visible + 1 ≥ (text.length : Int)
    · exact Or.inl (s1 hge)
    · have s3 := s2 (by omega)
      refine Or.inr ⟨⟨by rw [k1, h1], by rw [k2, h2], by rw [k3, h3], by omega⟩, ?_⟩
      show ((text.length : Int) - 1 - (stp a g).1.visible).toNat < ((text.length : Int) - 1 - a.visible).toNat
      omega
  · exact ⟨hst, hl, ht, by omega⟩
  · show ((text.length : Int) - 1 - a.visible).toNat < max (text.length - 1) 1
    omega

theorem fw_tw_spec (text : List Char) (cols : Nat) : TwSpec (fwStp cols) text := by
  intro a g hst hl ht h0
  unfold fwStp Fw.step
  simp only [hst, hl, ht, Int.ofNat_eq_natCast]
  refine ⟨fun h => ?_, fun h => ?_⟩
  · split
    · rfl
    · split
      · simp only [Bool.not_false, and_true]
        rw [if_pos (by omega)]
      · simp
  · rw [if_neg (by omega), if_pos (by omega)]

theorem host_tw_spec (text : List Char) (cols : Nat) : TwSpec (hostStp cols) text := by
  intro a g hst hl ht h0
  unfold hostStp Host.step
  simp only [hst, hl, ht, Int.ofNat_eq_natCast]
  refine ⟨fun h => ?_, fun h => ?_⟩
  · split
    · rfl
    · split
      · simp only [Bool.not_false, and_true]
        rw [if_pos (by omega)]
      · simp
  · rw [if_neg (by omega), if_pos (by omega)]

/-! ### bounce -/

def BounceDegSpec (stp : Anim → Grid → Anim × Grid) (text : List Char) (cols : Nat) : Prop :=
  ∀ a g, a.style = .bounce → a.loop = false → a.text = text → ¬ (0 < text.length ∧ text.length < cols) →
    (stp a g).1.active = false

def BounceSpec (stp : Anim → Grid → Anim × Grid) (text : List Char) (M : Int) : Prop :=
  ∀ a g, a.style = .bounce → a.loop = false → a.text = text →
    (a.offset + a.direction ≥ M →
      (stp a g).1.offset = M ∧ (stp a g).1.direction = -1 ∧ (stp a g).1.shown = true) ∧
    (a.offset + a.direction < M → a.offset + a.direction ≤ 0 → a.shown = true → (stp a g).1.active = false) ∧
    (a.offset + a.direction < M → 0 < a.offset + a.direction →
      (stp a g).1.offset = a.offset + a.direction ∧ (stp a g).1.direction = a.direction ∧
      (stp a g).1.shown = a.shown)

theorem bounce_deg_done (stp : Anim → Grid → Anim × Grid) (text : List Char) (cols : Nat)
    (hs : BounceDegSpec stp text cols) (hdeg : ¬ (0 < text.length ∧ text.length < cols)) (a : Anim) (g : Grid)
    (hst : a.style = .bounce) (hl : a.loop = false) (ht : a.text = text) :
    (stepsG stp 1 (a, g)).1.active = false := by
  apply stepsG_done stp (fun a => a.style = .bounce ∧ a.loop = false ∧ a.text = text) (fun _ => 0)
  · intro a g ⟨h1, h2, h3⟩ _
    exact Or.inl (hs a g h1 h2 h3 hdeg)
  · exact ⟨hst, hl, ht⟩
  · show 0 < 1
    omega

theorem bounce_done (stp : Anim → Grid → Anim × Grid) (hk : Keeps stp) (text : List Char) (M : Nat) (hM : 0 < M)
    (hs : BounceSpec stp text (M : Int)) (a : Anim) (g : Grid)
    (hst : a.style = .bounce) (hl : a.loop = false) (ht : a.text = text)
    (ho : a.offset = 0) (hd : a.direction = 1) (hsh : a.shown = false) :
    (stepsG stp (2 * M) (a, g)).1.active = false := by
  apply stepsG_done stp
    (fun a => a.style = .bounce ∧ a.loop = false ∧ a.text = text ∧
      ((a.direction = 1 ∧ a.shown = false ∧ 0 ≤ a.offset ∧ a.offset < (M : Int)) ∨
       (a.direction = -1 ∧ a.shown = true ∧ 1 ≤ a.offset ∧ a.offset ≤ (M : Int))))
    (fun a => if a.direction = 1 then (2 * (M : Int) - 1 - a.offset).toNat else (a.offset - 1).toNat)
  · intro a g ⟨h1, h2, h3, h4⟩ _
    obtain ⟨k1, k2, k3⟩ := hk a g
    obtain ⟨s1, s2, s3⟩ := hs a g h1 h2 h3
    have kk : (stp a g).1.style = .bounce ∧ (stp a g).1.loop = false ∧ (stp a g).1.text = text :=
      ⟨by rw [k1, h1], by rw [k2, h2], by rw [k3, h3]⟩
    rcases h4 with ⟨d, sh, o0, o1⟩ | ⟨d, sh, o0, o1⟩
    · by_cases hge : a.offset + a.direction ≥ (M : Int)
      · obtain ⟨e1, e2, e3⟩ := s1 hge
        refine Or.inr ⟨⟨kk.1, kk.2.1, kk.2.2, Or.inr ⟨e2, e3, by omega, by omega⟩⟩, ?_⟩
        show (if (stp a g).1.direction = 1 then (2 * (M : Int) - 1 - (stp a g).1.offset).toNat
              else ((stp a g).1.offset - 1).toNat) <
             (if a.direction = 1 then (2 * (M : Int) - 1 - a.offset).toNat else (a.offset - 1).toNat)
        rw [e2, e1, d, if_neg (by decide), if_pos rfl]
        omega
      · obtain ⟨e1, e2, e3⟩ := s3 (by omega) (by omega)
        refine Or.inr ⟨⟨kk.1, kk.2.1, kk.2.2, Or.inl ⟨by rw [e2, d], by rw [e3, sh], by omega, by omega⟩⟩, ?_⟩
        show (if (stp a g).1.direction = 1 then (2 * (M : Int) - 1 - (stp a g).1.offset).toNat
              else ((stp a g).1.offset - 1).toNat) <
             (if a.direction = 1 then (2 * (M : Int) - 1 - a.offset).toNat else (a.offset - 1).toNat)
        rw [e2, e1, d, if_pos rfl, if_pos rfl]
        omega
    · by_cases hle : a.offset + a.direction ≤ 0
      · exact Or.inl (s2 (by omega) hle sh)
      · obtain ⟨e1, e2, e3⟩ := s3 (by omega) (by omega)
        refine Or.inr ⟨⟨kk.1, kk.2.1, kk.2.2, Or.inr ⟨by rw [e2, d], by rw [e3, sh], by omega, by omega⟩⟩, ?_⟩
        show (if (stp a g).1.direction = 1 then (2 * (M : Int) - 1 - (stp a g).1.offset).toNat
              else ((stp a g).1.offset - 1).toNat) <
             (if a.direction = 1 then (2 * (M : Int) - 1 - a.offset).toNat else (a.offset - 1).toNat)
        rw [e2, e1, d, if_neg (by decide), if_neg (by decide)]
        omega
  · exact ⟨hst, hl, ht, Or.inl ⟨hd, hsh, by omega, by omega⟩⟩
  · show (if a.direction = 1 then (2 * (M : Int) - 1 - a.offset).toNat else (a.offset - 1).toNat) < 2 * M
    rw [hd, if_pos rfl]
    omega

theorem fw_bounce_deg_spec (text : List Char) (cols : Nat) : BounceDegSpec (fwStp cols) text cols := by
  intro a g hst hl ht hdeg
  unfold fwStp Fw.step
  simp only [hst, hl, ht, Int.ofNat_eq_natCast]
  split
  · rfl
  · rw [if_pos (by omega)]

theorem host_bounce_deg_spec (text : List Char) (cols : Nat) : BounceDegSpec (hostStp cols) text cols := by
  intro a g hst hl ht hdeg
  unfold hostStp Host.step
  simp only [hst, hl, ht]
  split
  · rfl
  · rw [if_pos (by omega)]

theorem fw_bounce_spec (text : List Char) (cols : Nat) (h0 : 0 < text.length) (h1 : text.length < cols) :
    BounceSpec (fwStp cols) text ((cols - text.length : Nat) : Int) := by
  intro a g hst hl ht
  have hM : ((cols - text.length : Nat) : Int) = (cols : Int) - (text.length : Int) := by omega
  unfold fwStp Fw.step
  simp only [hst, hl, ht, Int.ofNat_eq_natCast, hM]
  rw [if_neg (by omega), if_neg (by omega)]
  simp only []
  refine ⟨fun h => ?_, fun h hle hsh => ?_, fun h hlt => ?_⟩
  · rw [if_pos h]; exact ⟨rfl, rfl, rfl⟩
  · rw [if_neg (by omega), if_pos hle, if_pos hsh]; simp
  · rw [if_neg (by omega), if_neg (by omega)]; exact ⟨rfl, rfl, rfl⟩

theorem host_bounce_spec (text : List Char) (cols : Nat) (h0 : 0 < text.length) (h1 : text.length < cols) :
    BounceSpec (hostStp cols) text ((cols - text.length : Nat) : Int) := by
  intro a g hst hl ht
  unfold hostStp Host.step
  simp only [hst, hl, ht, Int.ofNat_eq_natCast]
  rw [if_neg (by omega), if_neg (by omega)]
  simp only []
  refine ⟨fun h => ?_, fun h hle hsh => ?_, fun h hlt => ?_⟩
  · rw [if_pos h]; exact ⟨rfl, rfl, rfl⟩
  · rw [if_neg (by omega), if_pos hle, if_pos hsh]; simp
  · rw [if_neg (by omega), if_neg (by omega)]; exact ⟨rfl, rfl, rfl⟩

/-! ## the counter (modular) clock vs the natural-number clock -/

theorem counter_difference (W t t' : Nat) (h : t ≤ t') (hw : t' - t < W) :
    ((t' % W) + W - (t % W)) % W = t' - t := by
  have hW : 0 < W := by omega
  obtain ⟨d, rfl⟩ := Nat.exists_eq_add_of_le h
  have hd : d < W := by omega
  have ha : t % W < W := Nat.mod_lt _ hW
  have e : (t + d) % W = (t % W + d) % W := by rw [Nat.add_mod, Nat.mod_eq_of_lt hd]
  rw [e]
  by_cases hc : t % W + d < W
  · rw [Nat.mod_eq_of_lt hc]
    have : t % W + d + W - t % W = d + W := by omega
    rw [this, Nat.add_mod_right, Nat.mod_eq_of_lt hd]; omega
  · have h2 : (t % W + d) % W = t % W + d - W := by
      rw [Nat.mod_eq_sub_mod (by omega), Nat.mod_eq_of_lt (by omega)]
    rw [h2]
    have : t % W + d - W + W - t % W = d := by omega
    rw [this, Nat.mod_eq_of_lt hd]; omega

theorem fw_step_lastStep (a : Anim) (g : Grid) (cols L : Nat) :
    Fw.step { a with lastStep := L } g cols = ({ (Fw.step a g cols).1 with lastStep := L }, (Fw.step a g cols).2) := by
  unfold Fw.step
  cases hst : a.style <;> simp only [] <;> repeat' split
  all_goals simp_all

theorem dueW_eq_due (W : Nat) (a : Anim) (now : Nat) (h : Agrees W a now) :
    (a.onCounter W).dueW W (now % W) = a.due now := by
  unfold Anim.dueW Anim.due Anim.onCounter
  rcases h with h0 | ⟨hnz, hle, hlt⟩
  · simp [h0]
  · have hpos : 0 < a.lastStep := by
      rcases Nat.eq_zero_or_pos a.lastStep with h | h
      · rw [h] at hnz; simp at hnz
      · exact h
    have hpos' : 0 < a.lastStep % W := Nat.pos_of_ne_zero hnz
    simp only [counter_difference W a.lastStep now hle hlt]
    simp [hpos, hpos']

theorem fw_tick_eq (a : Anim) (g : Grid) (cols now : Nat) :
    Fw.tick a g cols now =
      if a.active && a.due now then ({ (Fw.step a g cols).1 with lastStep := now }, (Fw.step a g cols).2, true)
      else (a, { grid := g }, false) := by
  unfold Fw.tick
  simp only [fw_step_lastStep]
  cases a.active <;> cases a.due now <;> simp

theorem fw_tickW_eq (W : Nat) (a : Anim) (g : Grid) (cols now : Nat) :
    Fw.tickW W a g cols now =
      if a.active && a.dueW W now then ({ (Fw.step a g cols).1 with lastStep := now }, (Fw.step a g cols).2, true)
      else (a, { grid := g }, false) := by
  unfold Fw.tickW
  simp only [fw_step_lastStep]
  cases a.active <;> cases a.dueW W now <;> simp

theorem fw_step_onCounter (W : Nat) (a : Anim) (g : Grid) (cols : Nat) :
    Fw.step (a.onCounter W) g cols = ((Fw.step a g cols).1.onCounter W, (Fw.step a g cols).2) := by
  unfold Anim.onCounter
  rw [fw_step_lastStep]
  simp [(fw_step_fields a g cols).1]

/-- one tick: the template on the counter value does what the natural-number model does at the real time -/
theorem fw_tickW_simulates' (W : Nat) (a : Anim) (g : Grid) (cols now : Nat) (h : a.active = true → Agrees W a now) :
    Fw.tickW W (a.onCounter W) g cols (now % W) =
      ((Fw.tick a g cols now).1.onCounter W, (Fw.tick a g cols now).2.1, (Fw.tick a g cols now).2.2) := by
  rw [fw_tickW_eq, fw_tick_eq, fw_step_onCounter]
  have hact : (a.onCounter W).active = a.active := rfl
  rw [hact]
  cases ha : a.active
  · simp
  · rw [dueW_eq_due W a now (h ha)]
    cases a.due now <;> simp [Anim.onCounter]

theorem okAt_tick (W : Nat) (a : Anim) (g : Grid) (cols prev t : Nat) (hok : OkAt W a prev)
    (hle : prev ≤ t) (hnz : t % W ≠ 0) :
    OkAt W (Fw.tick a g cols t).1 t ∧ (Fw.tick a g cols t).1.speed = a.speed := by
  have hf := fw_step_fields { a with lastStep := t } g cols
  rcases fw_tick_cases a g cols t with ⟨_, _, h⟩ | ⟨hn, h⟩
  · rw [h]
    have hl : (Fw.step { a with lastStep := t } g cols).1.lastStep = t := hf.1
    have hs : (Fw.step { a with lastStep := t } g cols).1.speed = a.speed := hf.2.1
    refine ⟨Or.inr (Or.inr ?_), hs⟩
    show (Fw.step { a with lastStep := t } g cols).1.lastStep % W ≠ 0 ∧ _ ∧ _
    rw [hl]
    exact ⟨hnz, Nat.le_refl _, by omega⟩
  · rw [h]
    show OkAt W a t ∧ a.speed = a.speed
    refine ⟨?_, rfl⟩
    unfold OkAt
    rcases hn with hn | hn
    · exact Or.inl hn
    · rcases hok with h1 | h1 | ⟨h1, h2, h3⟩
      · exact Or.inl h1
      · exact Or.inr (Or.inl h1)
      · refine Or.inr (Or.inr ⟨h1, by omega, ?_⟩)
        simp [Anim.due] at hn
        omega

theorem fw_run_across_wrap_from (W cols : Nat) (ts : List Nat) (a : Anim) (g : Grid) (prev : Nat)
    (hp : Paced W a.speed prev ts) (hok : OkAt W a prev) :
    Fw.ticksW W cols ts (a.onCounter W, g) = ((Fw.ticks cols ts (a, g)).1.onCounter W, (Fw.ticks cols ts (a, g)).2) := by
  induction ts generalizing a g prev with
  | nil => rfl
  | cons t ts ih =>
    obtain ⟨hle, hgap, hnz, hrest⟩ := hp
    have hag : a.active = true → Agrees W a t := by
      intro ha
      rcases hok with h1 | h1 | ⟨h1, h2, h3⟩
      · rw [ha] at h1; cases h1
      · exact Or.inl h1
      · exact Or.inr ⟨h1, by omega, by omega⟩
    have hsim := fw_tickW_simulates' W a g cols t hag
    have hnext := okAt_tick W a g cols prev t hok hle hnz
    simp only [Fw.ticksW, Fw.ticks]
    rw [hsim]
    exact ih (Fw.tick a g cols t).1 (Fw.tick a g cols t).2.1.grid t (by rw [hnext.2]; exact hrest) hnext.1

end Reduino.Lemmas.C18
