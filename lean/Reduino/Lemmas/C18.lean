import Reduino.Fw.LcdAnim
/- helper lemmas for Props/C18.lean (individual Mathlib modules may be imported here) -/
namespace Reduino.Lemmas.C18
open Reduino Reduino.Lcd

/-! ## fields untouched by a step -/

theorem fw_step_fields (a : Anim) (g : Grid) (cols : Nat) :
    (Fw.step a g cols).1.lastStep = a.lastStep ∧ (Fw.step a g cols).1.speed = a.speed ∧
    (Fw.step a g cols).1.loop = a.loop ∧ (Fw.step a g cols).1.row = a.row ∧
    (Fw.step a g cols).1.style = a.style ∧ (Fw.step a g cols).1.text = a.text := by
  unfold Fw.step
  cases hst : a.style <;> simp only [] <;> repeat' split
  all_goals simp [hst]

theorem host_step_fields (a : Anim) (g : Grid) (cols : Nat) :
    (Host.step a g cols).1.lastStep = a.lastStep ∧ (Host.step a g cols).1.speed = a.speed ∧
    (Host.step a g cols).1.loop = a.loop ∧ (Host.step a g cols).1.row = a.row ∧
    (Host.step a g cols).1.style = a.style ∧ (Host.step a g cols).1.text = a.text := by
  unfold Host.step
  cases hst : a.style <;> simp only [] <;> repeat' split
  all_goals simp [hst]

/-! ## the two outcomes of a tick -/

theorem fw_tick_cases (a : Anim) (g : Grid) (cols now : Nat) :
    (a.active = true ∧ a.due now = true ∧
      Fw.tick a g cols now =
        ((Fw.step { a with lastStep := now } g cols).1, (Fw.step { a with lastStep := now } g cols).2, true)) ∨
    ((a.active = false ∨ a.due now = false) ∧ Fw.tick a g cols now = (a, { grid := g }, false)) := by
  unfold Fw.tick
  cases ha : a.active
  · right; simp
  · cases hd : a.due now
    · right; simp
    · left; simp

theorem host_tick_cases (a : Anim) (g : Grid) (cols now : Nat) :
    (a.active = true ∧ a.due now = true ∧
      Host.tick a g cols now =
        ((Host.step { a with lastStep := now } g cols).1, (Host.step { a with lastStep := now } g cols).2, true)) ∨
    ((a.active = false ∨ a.due now = false) ∧ Host.tick a g cols now = (a, g, false)) := by
  unfold Host.tick
  cases ha : a.active
  · right; simp
  · cases hd : a.due now
    · right; simp
    · left; simp

end Reduino.Lemmas.C18
