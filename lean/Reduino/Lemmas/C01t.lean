import Reduino.Lang.Render
import Reduino.Lang.InF
import Reduino.Lemmas.C01c
import Std.Data.String.ToNat
/- C01 helpers, part t: tuple assignment — the names of the temporaries, the three phases of `ctuple` -/
namespace Reduino.Lemmas.C01
open Reduino.Lang

theorem tmpName_inj {a b : Nat} (h : tmpName a = tmpName b) : a = b := by
  unfold tmpName at h
  have h1 := congrArg String.toList h
  simp only [String.toList_append] at h1
  have h2 := List.append_cancel_left h1
  have h3 : toString a = toString b := String.toList_inj.mp h2
  exact Nat.repr_injective h3

theorem isTmp_tmpName (n : Nat) : isTmp (tmpName n) = true := by
  unfold isTmp tmpName
  simp only [String.toList_append]
  rw [List.take_left' (by decide)]
  simp

theorem tmpName_ne {a b : Nat} (h : a ≠ b) : tmpName a ≠ tmpName b := fun e => h (tmpName_inj e)

/-- a type environment without names of the reserved shape declares no temporary -/
theorem lookup_tmp_none {te : C.TyEnv} (h : te.all (fun d => !isTmp d.1) = true) (j : Nat) :
    te.lookup (tmpName j) = none := by
  induction te with
  | nil => rfl
  | cons d te ih =>
    obtain ⟨y, t⟩ := d
    simp only [List.all_cons, Bool.and_eq_true, Bool.not_eq_true'] at h
    have hne : tmpName j ≠ y := by
      rintro rfl
      have := isTmp_tmpName j
      rw [h.1] at this; cases this
    rw [lookup_cons_ne _ _ hne]
    exact ih h.2

theorem lookup_isSome_of_mem {β : Type} {l : List (String × β)} {x : String} {t : β} (h : (x, t) ∈ l) :
    (l.lookup x).isSome = true := by
  induction l with
  | nil => cases h
  | cons d l ih =>
    obtain ⟨y, u⟩ := d
    by_cases hxy : x = y
    · subst hxy; rw [lookup_cons_eq]; rfl
    · rw [lookup_cons_ne _ _ hxy]
      rcases List.mem_cons.mp h with h | h
      · cases h; exact absurd rfl hxy
      · exact ih h

theorem mem_of_lookup_some {β : Type} {l : List (String × β)} {x : String} {t : β} (h : l.lookup x = some t) : (x, t) ∈ l := by
  induction l with
  | nil => cases h
  | cons d l ih =>
    obtain ⟨y, u⟩ := d
    by_cases hxy : x = y
    · subst hxy; rw [lookup_cons_eq] at h; cases h; exact List.mem_cons_self
    · rw [lookup_cons_ne _ _ hxy] at h; exact List.mem_cons_of_mem _ (ih h)

/-- the reserved shape stays out of a type environment that grows by assigned names only -/
theorem noTmp_ext {all : List String} {te te' : C.TyEnv}
    (hext : ∀ x, (te'.lookup x).isSome = true → (te.lookup x).isSome = true ∨ x ∈ all)
    (hall : all.all (fun x => !isTmp x) = true) (hte : te.all (fun d => !isTmp d.1) = true) :
    te'.all (fun d => !isTmp d.1) = true := by
  rw [List.all_eq_true] at hall hte ⊢
  intro d hd
  rcases hext d.1 (lookup_isSome_of_mem (t := d.2) hd) with h | h
  · obtain ⟨t, ht⟩ := Option.isSome_iff_exists.mp h
    exact hte (d.1, t) (mem_of_lookup_some ht)
  · exact hall _ h

theorem okTargets_sub {te te' : C.TyEnv} (hs : Sub te te') : ∀ (xs : List String) (es : List Expr),
    (∀ e ∈ es, e.wt te = true) → okTargets te xs es = true → okTargets te' xs es = true
  | [], _, _, _ => by simp only [okTargets]
  | _ :: _, [], _, _ => by simp only [okTargets]
  | x :: xs, e :: es, hwt, h => by
    simp only [okTargets, Bool.and_eq_true, beq_iff_eq] at h ⊢
    refine ⟨?_, okTargets_sub hs xs es (fun e' he' => hwt e' (List.mem_cons_of_mem _ he')) h.2⟩
    rw [(wt_sub hs e (hwt e List.mem_cons_self)).2]
    exact hs _ _ h.1

theorem okTargets_types {te te' : C.TyEnv} (hs : Sub te te') : ∀ (xs : List String) (es : List Expr), xs.length = es.length →
    okTargets te xs es = true → okTargets te' xs es = true → es.map (inferTy te') = es.map (inferTy te)
  | _, [], _, _, _ => rfl
  | [], _ :: _, hl, _, _ => by cases hl
  | x :: xs, e :: es, hl, h, h' => by
    simp only [okTargets, Bool.and_eq_true, beq_iff_eq] at h h'
    have h1 := hs _ _ h.1
    rw [h'.1] at h1
    have h2 : inferTy te' e = inferTy te e := Option.some.inj h1
    simp only [List.map_cons, okTargets_types hs xs es (by simpa using hl) h.2 h'.2, h2]

/-! ### evaluation does not depend on declarations the expression does not use -/

theorem C_eval_sub {te te' : C.TyEnv} (hs : Sub te te') (s : Store) (m : C.Mode) (e : Expr) (h : e.wt te = true) :
    C.eval te' s e m = C.eval te s e m := by
  induction e with
  | int n => simp only [C.eval]
  | bool b => simp only [C.eval]
  | str t => simp only [C.eval]
  | var x => simp only [C.eval]
  | bin op a b iha ihb =>
    simp only [Expr.wt, Bool.and_eq_true] at h
    simp only [C.eval, iha h.1.1, ihb h.1.2]
  | neg a iha =>
    simp only [Expr.wt, Bool.and_eq_true] at h
    simp only [C.eval, iha h.1]
  | cmp op a b iha ihb =>
    simp only [Expr.wt, Bool.and_eq_true] at h
    simp only [C.eval, iha h.1.1.1, ihb h.1.1.2]
  | and a b iha ihb =>
    simp only [Expr.wt, Bool.and_eq_true] at h
    simp only [C.eval, iha h.1.1.1, ihb h.1.1.2]
  | or a b iha ihb =>
    simp only [Expr.wt, Bool.and_eq_true] at h
    simp only [C.eval, iha h.1.1.1, ihb h.1.1.2]
  | not a iha =>
    simp only [Expr.wt, Bool.and_eq_true] at h
    simp only [C.eval, iha h.1]
  | ite c a b ihc iha ihb =>
    have h0 := h
    simp only [Expr.wt, Bool.and_eq_true] at h
    have ht : C.typeOf te' (.ite c a b) = C.typeOf te (.ite c a b) := by
      rw [typeOf_eq_inferTy te' _ (wt_sub hs _ h0).1, typeOf_eq_inferTy te _ h0, (wt_sub hs _ h0).2]
    simp only [C.eval, ihc h.1.1.1.1, iha h.1.1.1.2, ihb h.1.1.2, ht]
  | abs a iha =>
    simp only [Expr.wt] at h
    simp only [C.eval, iha h]
  | mm k a b iha ihb =>
    have h0 := h
    simp only [Expr.wt, Bool.and_eq_true] at h
    have ht : C.typeOf te' (.mm k a b) = C.typeOf te (.mm k a b) := by
      rw [typeOf_eq_inferTy te' _ (wt_sub hs _ h0).1, typeOf_eq_inferTy te _ h0, (wt_sub hs _ h0).2]
    simp only [C.eval, iha h.1.1.1, ihb h.1.1.2, ht]
  | toStr a iha =>
    simp only [Expr.wt, Bool.and_eq_true] at h
    simp only [C.eval, iha h.1]

/-! ### Python side -/

theorem evalList_length {s : Store} : ∀ {es : List Expr} {vs : List Val}, Py.evalList s es = .ok vs → vs.length = es.length
  | [], vs, h => by simp only [Py.evalList] at h; cases h; rfl
  | e :: es, vs, h => by
    rw [Py.evalList] at h
    obtain ⟨v, _, h⟩ := bind_ok h
    obtain ⟨vs', hvs, h⟩ := bind_ok h
    cases h
    simp only [List.length_cons, evalList_length hvs]

/-! ### the three phases of `ctuple` -/

/-- the temporaries `k, k+1, …` hold the converted values `vs` -/
def Held (sc : Store) : Nat → List Ty → List Val → Prop
  | _, [], [] => True
  | k, t :: ts, v :: vs => sc.get (tmpName k) = some (C.conv t v) ∧ t.holds v = true ∧ Held sc (k + 1) ts vs
  | _, _, _ => False

theorem Held_congr {sc sc' : Store} (h : ∀ j, sc'.get (tmpName j) = sc.get (tmpName j)) :
    ∀ (ts : List Ty) (vs : List Val) (k : Nat), Held sc k ts vs → Held sc' k ts vs
  | [], [], _, _ => trivial
  | [], _ :: _, _, hh => by cases hh
  | _ :: _, [], _, hh => by cases hh
  | t :: ts, v :: vs, k, hh => ⟨by rw [h]; exact hh.1, hh.2.1, Held_congr h ts vs (k + 1) hh.2.2⟩

theorem declTemps_sim (te0 : C.TyEnv) (sp : Store) :
    ∀ (es : List Expr) (vs : List Val) (k : Nat) (te : C.TyEnv) (sc : Store),
      Sub te0 te → (∀ j, k ≤ j → te.lookup (tmpName j) = none) →
      Rel te0 sp sc → (∀ e ∈ es, e.wt te0 = true) → Py.evalList sp es = .ok vs →
      (∃ sc', C.declTemps te .strict k (es.map (inferTy te0)) es sc = .ok sc' ∧
          (∀ x, (∀ j, k ≤ j → x ≠ tmpName j) → sc'.get x = sc.get x) ∧
          Held sc' k (es.map (inferTy te0)) vs) ∨
      UB (C.declTemps te .strict k (es.map (inferTy te0)) es sc) := by
  intro es
  induction es with
  | nil =>
    intro vs k te sc _ _ _ _ hpy
    simp only [Py.evalList] at hpy; cases hpy
    left
    exact ⟨sc, rfl, fun _ _ => rfl, trivial⟩
  | cons e es ih =>
    intro vs k te sc hsub htmp hrel hwt hpy
    rw [Py.evalList] at hpy
    obtain ⟨v, hv, hpy⟩ := bind_ok hpy
    obtain ⟨vs', hvs, hpy⟩ := bind_ok hpy
    cases hpy
    have hwe : e.wt te0 = true := hwt e (List.mem_cons_self)
    simp only [List.map_cons]
    rw [C.declTemps, C_eval_sub hsub sc .strict e hwe]
    rcases expr_sim te0 sp sc hrel e v hwe hv with hc | hc
    · rw [hc, ok_bind, conv_idem]
      have hk0 : te0.lookup (tmpName k) = none := by
        cases h0 : te0.lookup (tmpName k) with
        | none => rfl
        | some t => have := hsub _ _ h0; rw [htmp k (Nat.le_refl k)] at this; cases this
      have hrel1 : Rel te0 sp (sc.set (tmpName k) (C.conv (inferTy te0 e) v)) :=
        Rel_c_out hrel hk0 (fun y hy => get_set_ne _ _ hy)
      have hsub1 : Sub te0 ((tmpName k, inferTy te0 e) :: te) := by
        intro x t hx
        have hxk : x ≠ tmpName k := by rintro rfl; rw [hk0] at hx; cases hx
        rw [lookup_cons_ne _ _ hxk]; exact hsub x t hx
      have htmp1 : ∀ j, k + 1 ≤ j → List.lookup (tmpName j) ((tmpName k, inferTy te0 e) :: te) = none := by
        intro j hj
        rw [lookup_cons_ne _ _ (tmpName_ne (by omega))]
        exact htmp j (by omega)
      rcases ih vs' (k + 1) _ _ hsub1 htmp1 hrel1 (fun e' he' => hwt e' (List.mem_cons_of_mem _ he')) hvs
        with ⟨sc', hd, hfr, hheld⟩ | hd
      · left
        refine ⟨sc', hd, ?_, ?_, ?_, hheld⟩
        · intro x hx
          rw [hfr x (fun j hj => hx j (by omega))]
          exact get_set_ne _ _ (hx k (Nat.le_refl k))
        · rw [hfr (tmpName k) (fun j hj => tmpName_ne (by omega))]
          exact get_set_eq _ _ _
        · exact typed_val te0 sp sc hrel e v hwe hv
      · right; exact hd
    · right; exact ub_bind _ hc

theorem okTargets_cons {te : C.TyEnv} {x : String} {xs : List String} {e : Expr} {es : List Expr}
    (h : okTargets te (x :: xs) (e :: es) = true) : te.lookup x = some (inferTy te e) ∧ okTargets te xs es = true := by
  simpa only [okTargets, Bool.and_eq_true, beq_iff_eq] using h

theorem okTargets_mem {te : C.TyEnv} : ∀ {xs : List String} {es : List Expr}, okTargets te xs es = true → xs.length ≤ es.length →
    ∀ x ∈ xs, ∃ t, te.lookup x = some t
  | [], _, _, _, x, hx => by cases hx
  | _ :: _, [], _, hl, _, _ => by simp at hl
  | y :: xs, e :: es, h, hl, x, hx => by
    obtain ⟨hy, h'⟩ := okTargets_cons h
    rcases List.mem_cons.mp hx with rfl | hx
    · exact ⟨_, hy⟩
    · exact okTargets_mem h' (by simpa using hl) x hx

theorem assignTemps_sim (te : C.TyEnv) (htmp : ∀ j, te.lookup (tmpName j) = none) :
    ∀ (xs : List String) (es : List Expr) (vs : List Val) (k : Nat) (sp sc : Store),
      okTargets te xs es = true → xs.length = es.length →
      Held sc k (es.map (inferTy te)) vs → Rel te sp sc →
      ∃ sc', C.assignTemps te k xs sc = .ok sc' ∧ Rel te (sp.setAll xs vs) sc' ∧
        (∀ y, y ∉ xs → sc'.get y = sc.get y) := by
  intro xs
  induction xs with
  | nil =>
    intro es vs k sp sc _ _ _ hrel
    exact ⟨sc, rfl, by simpa only [Store.setAll] using hrel, fun _ _ => rfl⟩
  | cons x xs ih =>
    intro es vs k sp sc hok hlen hheld hrel
    cases es with
    | nil => cases hlen
    | cons e es =>
      cases vs with
      | nil => cases hheld
      | cons v vs =>
        obtain ⟨hx, hok'⟩ := okTargets_cons hok
        simp only [List.map_cons] at hheld
        obtain ⟨hg, hb, hheld'⟩ := hheld
        rw [C.assignTemps, hg]
        simp only [ok_bind]
        have ha : C.assignTo te sc x (C.conv (inferTy te e) v) = .ok (sc.set x (C.conv (inferTy te e) v)) := by
          unfold C.assignTo; rw [hx]; dsimp only; rw [conv_idem]
        rw [ha, ok_bind]
        have hxt : ∀ j, x ≠ tmpName j := by
          intro j hxj; rw [hxj, htmp j] at hx; cases hx
        have hheld1 : Held (sc.set x (C.conv (inferTy te e) v)) (k + 1) (es.map (inferTy te)) vs :=
          Held_congr (fun j => get_set_ne _ _ (fun h => hxt j h.symm)) _ _ _ hheld'
        obtain ⟨sc', hc, hr, hfr⟩ := ih es vs (k + 1) (sp.set x v) _ hok' (by simpa using hlen) hheld1
          (Rel_set_both hrel v hx hb)
        refine ⟨sc', hc, by simpa only [Store.setAll] using hr, ?_⟩
        intro y hy
        simp only [List.mem_cons, not_or] at hy
        rw [hfr y hy.2]
        exact get_set_ne _ _ hy.1

theorem Rel_agree {te : C.TyEnv} {sp sc sc' : Store} (h : Rel te sp sc)
    (hsc : ∀ y t, te.lookup y = some t → sc'.get y = sc.get y) : Rel te sp sc' := by
  intro y ty hy pv hpv
  rw [hsc y ty hy]
  exact h y ty hy pv hpv

theorem tmp_guard {te : C.TyEnv} (htmp : ∀ j, te.lookup (tmpName j) = none) (n k : Nat) :
    ((List.range n).any fun j => (te.lookup (tmpName (k + j))).isSome) = false := by
  apply Bool.eq_false_iff.mpr
  intro h
  obtain ⟨j, _, hj⟩ := List.any_eq_true.mp h
  rw [htmp] at hj; cases hj

/-! ### the temporaries go out of scope -/

theorem dropTemps_other (old : Store) (x : String) : ∀ (n k : Nat) (s : Store),
    (∀ j, k ≤ j → j < k + n → x ≠ tmpName j) → (C.dropTemps old k n s).get x = s.get x := by
  intro n
  induction n with
  | zero => intro k s _; rfl
  | succ n ih =>
    intro k s h
    rw [C.dropTemps, ih (k + 1) _ (fun j h1 h2 => h j (by omega) (by omega))]
    have hk := h k (Nat.le_refl k) (by omega)
    cases old.get (tmpName k) with
    | some v => exact get_set_ne _ _ hk
    | none => exact get_filter_ne _ hk

theorem dropTemps_tmp (old : Store) : ∀ (n k : Nat) (s : Store) (j : Nat), k ≤ j → j < k + n →
    (C.dropTemps old k n s).get (tmpName j) = old.get (tmpName j) := by
  intro n
  induction n with
  | zero => intro k s j h1 h2; omega
  | succ n ih =>
    intro k s j h1 h2
    rw [C.dropTemps]
    by_cases hjk : j = k
    · subst hjk
      rw [dropTemps_other old _ n (j + 1) _ (fun j' h1' _ => tmpName_ne (by omega))]
      cases ho : old.get (tmpName j) with
      | some v => exact get_set_eq _ _ _
      | none => exact get_filter_eq _ _
    · exact ih (k + 1) _ j (by omega) (by omega)

theorem declTemps_frame {m : C.Mode} : ∀ (ts : List Ty) (es : List Expr) (k : Nat) (te : C.TyEnv) (s s' : Store),
    C.declTemps te m k ts es s = .ok s' → ts.length = es.length ∧
      ∀ x, (∀ j, k ≤ j → j < k + ts.length → x ≠ tmpName j) → s'.get x = s.get x := by
  intro ts
  induction ts with
  | nil =>
    intro es k te s s' h
    cases es with
    | nil => simp only [C.declTemps] at h; cases h; exact ⟨rfl, fun _ _ => rfl⟩
    | cons e es => simp only [C.declTemps] at h; cases h
  | cons t ts ih =>
    intro es k te s s' h
    cases es with
    | nil => simp only [C.declTemps] at h; cases h
    | cons e es =>
      rw [C.declTemps] at h
      obtain ⟨v, _, h⟩ := bind_ok h
      obtain ⟨hl, hfr⟩ := ih es (k + 1) _ _ s' h
      refine ⟨by simp only [List.length_cons, hl], ?_⟩
      intro x hx
      simp only [List.length_cons] at hx
      rw [hfr x (fun j h1 h2 => hx j (by omega) (by omega))]
      exact get_set_ne _ _ (hx k (Nat.le_refl k) (by omega))

theorem assignTemps_frame {te : C.TyEnv} : ∀ (xs : List String) (k : Nat) (s s' : Store),
    C.assignTemps te k xs s = .ok s' → ∀ x, x ∉ xs → s'.get x = s.get x := by
  intro xs
  induction xs with
  | nil => intro k s s' h; simp only [C.assignTemps] at h; cases h; exact fun _ _ => rfl
  | cons y xs ih =>
    intro k s s' h x hx
    rw [C.assignTemps] at h
    obtain ⟨v, _, h⟩ := bind_ok h
    obtain ⟨s1, hs1, h⟩ := bind_ok h
    simp only [List.mem_cons, not_or] at hx
    rw [ih (k + 1) s1 s' h x hx.2]
    unfold C.assignTo at hs1
    split at hs1
    · cases hs1; exact get_set_ne _ _ hx.1
    · cases hs1

end Reduino.Lemmas.C01
