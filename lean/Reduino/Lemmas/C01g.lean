import Reduino.Lang.Render
import Reduino.Lang.InF
import Reduino.Lemmas.C01f
/- C01 helpers, part g: the prologue (`trTop`), structure facts -/
namespace Reduino.Lemmas.C01
open Reduino.Lang

theorem lookup_append_of_some {β : Type} {l1 : List (String × β)} (l2 : List (String × β)) {k : String} {v : β}
    (h : l1.lookup k = some v) : (l1 ++ l2).lookup k = some v := by
  rw [List.lookup_append, h]; rfl

theorem lookup_append_of_none {β : Type} {l1 : List (String × β)} (l2 : List (String × β)) {k : String}
    (h : l1.lookup k = none) : (l1 ++ l2).lookup k = l2.lookup k := by
  rw [List.lookup_append, h]; rfl

def isOther : Stmt → Bool
  | .skip => false
  | .seq _ _ => false
  | .assign _ _ => false
  | _ => true

theorem trTop_other_cases {all : List String} {s : Stmt} (hs : isOther s = true) {acc acc1 : TopAcc} {te1 : C.TyEnv}
    (h2 : s.okTop all acc.te = some te1) (h : trTop acc s = .ok acc1) :
    ∃ s', s.okNested all acc.te = true ∧ trNested acc.te false 0 s = .ok s' ∧
      acc1 = { acc with setup := s' :: acc.setup } ∧ te1 = acc.te := by
  cases s <;> simp only [isOther, Bool.false_eq_true] at hs <;>
  · simp only [trTop] at h
    simp only [Stmt.okTop] at h2
    obtain ⟨s', hs', h⟩ := bind_ok h
    split at h2
    · rename_i hok
      cases h2; cases h
      exact ⟨s', hok, hs', rfl, rfl⟩
    · cases h2

theorem trTop_assign_cases {all : List String} {x : String} {e : Expr} {acc acc1 : TopAcc} {te1 : C.TyEnv}
    (h2 : (Stmt.assign x e).okTop all acc.te = some te1) (h : trTop acc (.assign x e) = .ok acc1) :
    e.wt acc.te = true ∧
    ((acc.te.lookup x = some (inferTy acc.te e) ∧ acc1 = { acc with setup := .assign x e :: acc.setup } ∧
        te1 = acc.te) ∨
     (acc.te.lookup x = none ∧ te1 = acc.te ++ [(x, inferTy acc.te e)] ∧
        ((e.nameFree = true ∧ (evalConst e).isSome = true ∧
          acc1 = { globals := (x, inferTy acc.te e, e) :: acc.globals, te := acc.te ++ [(x, inferTy acc.te e)],
                   setup := acc.setup }) ∨
         (acc1 = { globals := (x, inferTy acc.te e, defaultOf (inferTy acc.te e)) :: acc.globals,
                   te := acc.te ++ [(x, inferTy acc.te e)], setup := .assign x e :: acc.setup })))) := by
  simp only [trTop] at h
  simp only [Stmt.okTop] at h2
  split at h2
  · cases h2
  · rename_i hwt
    simp only [Bool.not_eq_true', Bool.not_eq_false] at hwt
    refine ⟨hwt, ?_⟩
    cases hl : acc.te.lookup x with
    | some t =>
      rw [hl] at h h2
      simp only at h h2
      split at h2
      · rename_i ht
        simp only [beq_iff_eq] at ht
        cases h2; cases h
        left; exact ⟨by rw [ht], rfl, rfl⟩
      · cases h2
    | none =>
      rw [hl] at h h2
      simp only at h h2
      cases h2
      right
      refine ⟨rfl, rfl, ?_⟩
      split at h
      · rename_i hc
        cases h
        left; exact ⟨hc.1, hc.2, rfl⟩
      · cases h
        right; rfl

/-- bookkeeping invariant of the accumulator; `P` is what is known of every global's initialiser -/
def InvP (P : Expr → Prop) (acc : TopAcc) : Prop :=
  acc.te = acc.globals.reverse.map (fun g => (g.1, g.2.1)) ∧
  (∀ g ∈ acc.globals, P g.2.2) ∧
  acc.globals.Pairwise (fun a b => a.1 ≠ b.1)

/-- for C01: the initialisers are `GoodInit` (the fragment check makes them well typed) -/
abbrev Inv (acc : TopAcc) : Prop := InvP GoodInit acc

/-- what holds without any typing assumption (used by C06) -/
def NameFree (e : Expr) : Prop := e.nameFree = true

theorem defaultOf_nameFree (t : Ty) : (defaultOf t).nameFree = true := by cases t <;> rfl

theorem defaultOf_good (t : Ty) : GoodInit (defaultOf t) := by
  cases t
  · exact ⟨rfl, rfl, _, rfl⟩
  · exact ⟨rfl, rfl, _, rfl⟩
  · exact ⟨rfl, rfl, _, rfl⟩

theorem facts_new {P : Expr → Prop} {acc : TopAcc} {x : String} {t : Ty} {e' : Expr} (l : List Stmt)
    (hl : acc.te.lookup x = none) (hnf : P e') :
    Sub acc.te (acc.te ++ [(x, t)]) ∧
    (∀ y, ((acc.te ++ [(x, t)]).lookup y).isSome = true → (acc.te.lookup y).isSome = true ∨ y ∈ [x]) ∧
    (InvP P acc → InvP P { globals := (x, t, e') :: acc.globals, te := acc.te ++ [(x, t)], setup := l }) := by
  refine ⟨fun y ty hy => lookup_append_of_some _ hy, ?_, ?_⟩
  · intro y hy
    cases hy' : acc.te.lookup y with
    | some ty => left; rfl
    | none =>
      right
      rw [lookup_append_of_none _ hy'] at hy
      by_cases hyx : y = x
      · simp [hyx]
      · rw [lookup_cons_ne _ _ hyx] at hy; cases hy
  · rintro ⟨h1, h2, h3⟩
    refine ⟨?_, ?_, ?_⟩
    · simp only [List.reverse_cons, List.map_append, List.map_cons, List.map_nil, h1]
    · intro g hg
      rcases List.mem_cons.1 hg with rfl | hg
      · exact hnf
      · exact h2 g hg
    · rw [List.pairwise_cons]
      refine ⟨?_, h3⟩
      intro g hg hxg
      rw [h1, List.lookup_eq_none_iff] at hl
      have := hl (g.1, g.2.1) (List.mem_map.2 ⟨g, List.mem_reverse.2 hg, rfl⟩)
      simp only [bne_iff_ne, ne_eq] at this
      exact this hxg

theorem Sub_refl (te : C.TyEnv) : Sub te te := fun _ _ h => h
theorem Sub_trans {a b c : C.TyEnv} (h1 : Sub a b) (h2 : Sub b c) : Sub a c := fun x t h => h2 x t (h1 x t h)

theorem trTop_facts (all : List String) (s : Stmt) : ∀ (acc acc1 : TopAcc) (te1 : C.TyEnv),
    s.okTop all acc.te = some te1 → trTop acc s = .ok acc1 →
    acc1.te = te1 ∧ Sub acc.te acc1.te ∧ (∀ g ∈ acc.globals, g ∈ acc1.globals) ∧
    (∀ x, (acc1.te.lookup x).isSome = true → (acc.te.lookup x).isSome = true ∨ x ∈ s.assigned) ∧
    (Inv acc → Inv acc1) ∧ (∃ l, acc1.setup = l ++ acc.setup) := by
  induction s with
  | skip =>
    intro acc acc1 te1 h2 h
    simp only [trTop] at h; simp only [Stmt.okTop] at h2
    cases h; cases h2
    exact ⟨rfl, Sub_refl _, fun g hg => hg, fun x hx => .inl hx, fun h => h, [], rfl⟩
  | seq a b iha ihb =>
    intro acc acc1 te1 h2 h
    simp only [trTop] at h; simp only [Stmt.okTop] at h2
    obtain ⟨acca, ha, h⟩ := bind_ok h
    cases h2a : a.okTop all acc.te with
    | none => rw [h2a] at h2; cases h2
    | some tea =>
      rw [h2a] at h2
      obtain ⟨a1, a2, a3, a4, a5, la, a6⟩ := iha acc acca tea h2a ha
      have h2b : b.okTop all acca.te = some te1 := by rw [a1]; exact h2
      obtain ⟨b1, b2, b3, b4, b5, lb, b6⟩ := ihb acca acc1 te1 h2b h
      refine ⟨b1, Sub_trans a2 b2, fun g hg => b3 g (a3 g hg), ?_, fun hi => b5 (a5 hi),
        lb ++ la, by rw [b6, a6, List.append_assoc]⟩
      intro x hx
      simp only [Stmt.assigned, List.mem_append]
      rcases b4 x hx with hx | hx
      · rcases a4 x hx with hx | hx
        · exact .inl hx
        · exact .inr (.inl hx)
      · exact .inr (.inr hx)
  | assign x e =>
    intro acc acc1 te1 h2 h
    obtain ⟨hwt, hc⟩ := trTop_assign_cases h2 h
    rcases hc with ⟨hl, rfl, rfl⟩ | ⟨hl, rfl, hc⟩
    · exact ⟨rfl, Sub_refl _, fun g hg => hg, fun x hx => .inl hx, fun h => h, [_], rfl⟩
    · rcases hc with ⟨hnf, hcs, rfl⟩ | rfl
      · obtain ⟨f1, f2, f3⟩ := facts_new (P := GoodInit) (t := inferTy acc.te e) acc.setup hl (goodInit_of_const hnf hwt hcs)
        exact ⟨rfl, f1, fun g hg => List.mem_cons_of_mem _ hg, f2, f3, [], rfl⟩
      · obtain ⟨f1, f2, f3⟩ := facts_new (P := GoodInit) (t := inferTy acc.te e) (Stmt.assign x e :: acc.setup) hl
          (defaultOf_good (inferTy acc.te e))
        exact ⟨rfl, f1, fun g hg => List.mem_cons_of_mem _ hg, f2, f3, [_], rfl⟩
  | _ =>
    intro acc acc1 te1 h2 h
    obtain ⟨s', _, _, rfl, rfl⟩ := trTop_other_cases (by rfl) h2 h
    exact ⟨rfl, Sub_refl _, fun g hg => hg, fun x hx => .inl hx, fun h => h, [_], rfl⟩

end Reduino.Lemmas.C01
