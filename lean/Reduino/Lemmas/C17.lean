import Reduino.Lemmas.Field
import Reduino.Fw.Lcd
/- helper lemmas for Props/C17.lean -/
set_option linter.unusedSectionVars false
namespace Reduino.Lemmas.C17
open Reduino Reduino.Lcd

/-! ## cell matrix: `putRow`, `printAt`, `setRow` element-wise -/

@[simp] theorem length_putRow (row : Row) (c : Int) (s : List Char) : (putRow row c s).length = row.length := by
  simp [putRow]

theorem getElem_putRow (row : Row) (c : Int) (s : List Char) (i : Nat) (h : i < row.length) :
    (putRow row c s)[i]'(by simpa using h) =
      if 0 ≤ Int.ofNat i - c ∧ Int.ofNat i - c < Int.ofNat s.length then s.getD (Int.ofNat i - c).toNat row[i]
      else row[i] := by
  simp [putRow]

@[simp] theorem length_printAt (g : Grid) (c r : Int) (s : List Char) : (printAt g c r s).length = g.length := by
  simp [printAt]

theorem getElem_printAt (g : Grid) (c r : Int) (s : List Char) (i : Nat) (h : i < g.length) :
    (printAt g c r s)[i]'(by simpa using h) = if Int.ofNat i = r then putRow g[i] c s else g[i] := by
  simp [printAt]

@[simp] theorem length_setRow (g : Grid) (r : Nat) (row : Row) : (Host.setRow g r row).length = g.length := by
  simp [Host.setRow]

theorem getElem_setRow (g : Grid) (r : Nat) (row : Row) (i : Nat) (h : i < g.length) :
    (Host.setRow g r row)[i]'(by simpa using h) = if i = r then row else g[i] := by
  simp [Host.setRow]

theorem printAt_eq_setRow (g : Grid) (c r : Int) (s : List Char) (hr : 0 ≤ r) :
    printAt g c r s = Host.setRow g r.toNat (putRow (g.getD r.toNat []) c s) := by
  apply List.ext_getElem
  · simp
  · intro i h1 h2
    have hi : i < g.length := by simpa using h1
    rw [getElem_printAt g c r s i hi, getElem_setRow g _ _ i hi]
    by_cases h : Int.ofNat i = r
    · have h' : i = r.toNat := by rw [Int.ofNat_eq_natCast] at h; omega
      rw [if_pos h, if_pos h']
      subst h'
      simp [List.getD, hi]
    · have h' : ¬ i = r.toNat := by rw [Int.ofNat_eq_natCast] at h; omega
      rw [if_neg h, if_neg h']

theorem putRow_blank (row : Row) (cols : Nat) (h : row.length = cols) :
    putRow row 0 (blankRow cols) = blankRow cols := by
  apply List.ext_getElem
  · simp [blankRow, h]
  · intro i h1 h2
    have hi : i < row.length := by simpa using h1
    rw [getElem_putRow row 0 _ i hi]
    have : 0 ≤ Int.ofNat i - 0 ∧ Int.ofNat i - 0 < Int.ofNat (blankRow cols).length := by
      simp only [blankRow, List.length_replicate, Int.ofNat_eq_natCast]; omega
    rw [if_pos this]
    simp only [blankRow, Int.ofNat_eq_natCast, Int.sub_zero, Int.toNat_natCast, List.getElem_replicate]
    rw [List.getD_eq_getElem?_getD, List.getElem?_replicate, if_pos (by omega)]; rfl

theorem getD_setRow (g : Grid) (r : Nat) (row : Row) (i : Nat) :
    (Host.setRow g r row).getD i [] = if i = r ∧ i < g.length then row else g.getD i [] := by
  by_cases hi : i < g.length
  · have : i < (Host.setRow g r row).length := by simpa using hi
    simp only [List.getD, List.getElem?_eq_getElem this, List.getElem?_eq_getElem hi, Option.getD_some,
      getElem_setRow g r row i hi, hi, and_true]
  · have : ¬ i < (Host.setRow g r row).length := by simpa using hi
    simp [List.getD, hi]

theorem getD_printAt (g : Grid) (c r : Int) (s : List Char) (i : Nat) :
    (printAt g c r s).getD i [] = if Int.ofNat i = r then putRow (g.getD i []) c s else g.getD i [] := by
  by_cases hi : i < g.length
  · have : i < (printAt g c r s).length := by simpa using hi
    simp only [List.getD, List.getElem?_eq_getElem this, List.getElem?_eq_getElem hi, Option.getD_some,
      getElem_printAt g c r s i hi]
  · have : ¬ i < (printAt g c r s).length := by simpa using hi
    simp [List.getD, hi, putRow]

/-- shape preservation -/
theorem shaped_setRow (g : Grid) (cols : Nat) (r : Nat) (row : Row) (hg : ∀ x ∈ g, x.length = cols)
    (hrow : row.length = cols) : ∀ x ∈ Host.setRow g r row, x.length = cols := by
  intro x hx
  obtain ⟨i, hi, rfl⟩ := List.mem_iff_getElem.mp hx
  have hi' : i < g.length := by simpa using hi
  rw [getElem_setRow g r row i hi']
  split
  · exact hrow
  · exact hg _ (List.getElem_mem hi')

theorem length_getD_of_shaped (g : Grid) (cols : Nat) (r : Nat) (hg : ∀ x ∈ g, x.length = cols) (hr : r < g.length) :
    (g.getD r []).length = cols := by
  simp only [List.getD, List.getElem?_eq_getElem hr, Option.getD_some]
  exact hg _ (List.getElem_mem hr)

end Reduino.Lemmas.C17
