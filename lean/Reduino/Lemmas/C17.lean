import Reduino.Lemmas.Field
import Reduino.Fw.Lcd
/- helper lemmas for Props/C17.lean -/
namespace Reduino.Lemmas.C17
end Reduino.Lemmas.C17
