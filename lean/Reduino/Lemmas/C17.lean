import Reduino.Lemmas.Field
import Reduino.Fw.Lcd
/- helper lemmas for Props/C17.lean -/
set_option linter.unusedSectionVars false
namespace Reduino.Lemmas.C17
open Reduino Reduino.Lcd

/-! ## cell matrix: `putRow`, `printAt`, `setRow` element-wise -/

@[simp] theorem length_putRow (row : Row) (c : Int) (s : List Char) : (putRow row c s).length = row.length := by
  simp [putRow]

theorem getElem_putRow (row : Row) (c : Int) (s : List Char) (i : Nat) (h : i < row.length) :
    (putRow row c s)[i]'(by simpa using h) =
      if 0 ≤ Int.ofNat i - c ∧ Int.ofNat i - c < Int.ofNat s.length then s.getD (Int.ofNat i - c).toNat row[i]
      else row[i] := by
  simp [putRow]

@[simp] theorem length_printAt (g : Grid) (c r : Int) (s : List Char) : (printAt g c r s).length = g.length := by
  simp [printAt]

theorem getElem_printAt (g : Grid) (c r : Int) (s : List Char) (i : Nat) (h : i < g.length) :
    (printAt g c r s)[i]'(by simpa using h) = if Int.ofNat i = r then putRow g[i] c s else g[i] := by
  simp [printAt]

@[simp] theorem length_setRow (g : Grid) (r : Nat) (row : Row) : (Host.setRow g r row).length = g.length := by
  simp [Host.setRow]

theorem getElem_setRow (g : Grid) (r : Nat) (row : Row) (i : Nat) (h : i < g.length) :
    (Host.setRow g r row)[i]'(by simpa using h) = if i = r then row else g[i] := by
  simp [Host.setRow]

theorem printAt_eq_setRow (g : Grid) (c r : Int) (s : List Char) (hr : 0 ≤ r) :
    printAt g c r s = Host.setRow g r.toNat (putRow (g.getD r.toNat []) c s) := by
  apply List.ext_getElem
  · simp
  · intro i h1 h2
    have hi : i < g.length := by simpa using h1
    rw [getElem_printAt g c r s i hi, getElem_setRow g _ _ i hi]
    by_cases h : Int.ofNat i = r
    · have h' : i = r.toNat := by rw [Int.ofNat_eq_natCast] at h; omega
      rw [if_pos h, if_pos h']
      subst h'
      simp [List.getD, hi]
    · have h' : ¬ i = r.toNat := by rw [Int.ofNat_eq_natCast] at h; omega
      rw [if_neg h, if_neg h']

theorem putRow_blank (row : Row) (cols : Nat) (h : row.length = cols) :
    putRow row 0 (blankRow cols) = blankRow cols := by
  apply List.ext_getElem
  · simp [blankRow, h]
  · intro i h1 h2
    have hi : i < row.length := by simpa using h1
    rw [getElem_putRow row 0 _ i hi]
    have : 0 ≤ Int.ofNat i - 0 ∧ Int.ofNat i - 0 < Int.ofNat (blankRow cols).length := by
      simp only [blankRow, List.length_replicate, Int.ofNat_eq_natCast]; omega
    rw [if_pos this]
    simp only [blankRow, Int.ofNat_eq_natCast, Int.sub_zero, Int.toNat_natCast, List.getElem_replicate]
    rw [List.getD_eq_getElem?_getD, List.getElem?_replicate, if_pos (by omega)]; rfl

theorem getD_setRow (g : Grid) (r : Nat) (row : Row) (i : Nat) :
    (Host.setRow g r row).getD i [] = if i = r ∧ i < g.length then row else g.getD i [] := by
  by_cases hi : i < g.length
  · have : i < (Host.setRow g r row).length := by simpa using hi
    simp only [List.getD, List.getElem?_eq_getElem this, List.getElem?_eq_getElem hi, Option.getD_some,
      getElem_setRow g r row i hi, hi, and_true]
  · have : ¬ i < (Host.setRow g r row).length := by simpa using hi
    simp [List.getD, hi]

theorem getD_printAt (g : Grid) (c r : Int) (s : List Char) (i : Nat) :
    (printAt g c r s).getD i [] = if Int.ofNat i = r then putRow (g.getD i []) c s else g.getD i [] := by
  by_cases hi : i < g.length
  · have : i < (printAt g c r s).length := by simpa using hi
    simp only [List.getD, List.getElem?_eq_getElem this, List.getElem?_eq_getElem hi, Option.getD_some,
      getElem_printAt g c r s i hi]
  · have : ¬ i < (printAt g c r s).length := by simpa using hi
    simp [List.getD, hi, putRow]

/-- shape preservation -/
theorem shaped_setRow (g : Grid) (cols : Nat) (r : Nat) (row : Row) (hg : ∀ x ∈ g, x.length = cols)
    (hrow : row.length = cols) : ∀ x ∈ Host.setRow g r row, x.length = cols := by
  intro x hx
  obtain ⟨i, hi, rfl⟩ := List.mem_iff_getElem.mp hx
  have hi' : i < g.length := by simpa using hi
  rw [getElem_setRow g r row i hi']
  split
  · exact hrow
  · exact hg _ (List.getElem_mem hi')

theorem length_getD_of_shaped (g : Grid) (cols : Nat) (r : Nat) (hg : ∀ x ∈ g, x.length = cols) (hr : r < g.length) :
    (g.getD r []).length = cols := by
  simp only [List.getD, List.getElem?_eq_getElem hr, Option.getD_some]
  exact hg _ (List.getElem_mem hr)

/-! ## the aligned write: content and offset -/

/-- the (possibly truncated) text that is printed -/
def cont (avail : Int) (text : List Char) : List Char :=
  if Int.ofNat text.length > avail then text.take avail.toNat else text

theorem cont_length_le (avail : Int) (text : List Char) (h : 0 ≤ avail) :
    Int.ofNat (cont avail text).length ≤ avail := by
  unfold cont
  split
  · rw [List.length_take, Int.ofNat_eq_natCast]; omega
  · omega

/-- the column where the content starts -/
def offs (avail col len : Int) : Align → Int
  | .left => col
  | .center => col + (avail - len) / 2
  | .right => col + (avail - len)

theorem offs_bounds (avail col len : Int) (a : Align) (_h0 : 0 ≤ len) (h1 : len ≤ avail) :
    col ≤ offs avail col len a ∧ offs avail col len a + len ≤ col + avail := by
  cases a <;> simp only [offs] <;> omega

theorem getD_clearRow (g : Grid) (cols row : Int) (r : Nat) (hr : Int.ofNat r ≠ row) :
    (Fw.clearRow g cols row).grid.getD r [] = g.getD r [] := by
  unfold Fw.clearRow
  split
  · rfl
  · simp only [getD_printAt, if_neg hr]

theorem clearRow_eq (g : Grid) (cols : Nat) (row : Int) (hc : 0 < cols) (hr : 0 ≤ row)
    (hlen : (g.getD row.toNat []).length = cols) :
    Fw.clearRow g (Int.ofNat cols) row =
      { grid := Host.setRow g row.toNat (blankRow cols), prints := [⟨0, row, cols⟩] } := by
  unfold Fw.clearRow
  have : ¬ Int.ofNat cols ≤ 0 := by rw [Int.ofNat_eq_natCast]; omega
  rw [if_neg this, printAt_eq_setRow _ _ _ _ hr]
  simp only [Int.ofNat_eq_natCast, Int.toNat_natCast]
  rw [putRow_blank _ _ hlen]

theorem writeAligned_eq (g : Grid) (cols col row : Int) (text : List Char) (clear : Bool) (align : Align)
    (hcol : 0 ≤ col ∧ col < cols) :
    Fw.writeAligned g cols col row text clear align =
      { grid := printAt (if clear then Fw.clearRow g cols row else { grid := g }).grid
          (offs (cols - col) col (Int.ofNat (cont (cols - col) text).length) align) row (cont (cols - col) text),
        prints := (if clear then Fw.clearRow g cols row else { grid := g }).prints ++
          [⟨offs (cols - col) col (Int.ofNat (cont (cols - col) text).length) align, row,
            (cont (cols - col) text).length⟩] } := by
  have h1 : ¬ cols ≤ 0 := by omega
  have h2 : ¬ col < 0 := by omega
  have h3 : ¬ col ≥ cols := by omega
  unfold Fw.writeAligned
  simp only [if_neg h1, if_neg h2, if_neg h3]
  have hl := cont_length_le (cols - col) text (by omega)
  unfold cont at hl ⊢
  generalize (if Int.ofNat text.length > cols - col then List.take (cols - col).toNat text else text) = content
    at hl ⊢
  have hr : ¬ cols - col - Int.ofNat content.length < 0 := by omega
  have hn : (0:Int) ≤ Int.ofNat content.length := by rw [Int.ofNat_eq_natCast]; omega
  simp only [if_neg hr]
  rw [Int.tdiv_eq_ediv_of_nonneg (by omega)]
  cases align <;> simp only [offs]
  · have h : ¬ col + Int.ofNat content.length > cols := by omega
    simp only [if_neg h]
  · have h : ¬ col + (cols - col - Int.ofNat content.length) / 2 + Int.ofNat content.length > cols := by omega
    simp only [if_neg h]
  · have h : ¬ col + (cols - col - Int.ofNat content.length) + Int.ofNat content.length > cols := by omega
    simp only [if_neg h]

theorem placeText_eq (l : Host.LCD) (r : Nat) (text : List Char) (align : Align) (col : Int)
    (hcol : 0 ≤ col ∧ col < Int.ofNat l.cols) :
    Host.placeText l r text align col =
      (Host.setRow l.buffer r (putRow (l.buffer.getD r [])
          (offs (Int.ofNat l.cols - col) col (Int.ofNat (cont (Int.ofNat l.cols - col) text).length) align)
          (cont (Int.ofNat l.cols - col) text)),
        [⟨offs (Int.ofNat l.cols - col) col (Int.ofNat (cont (Int.ofNat l.cols - col) text).length) align,
          Int.ofNat r, (cont (Int.ofNat l.cols - col) text).length⟩]) := by
  unfold Host.placeText
  generalize Int.ofNat l.cols = cols at hcol ⊢
  have ha : max 0 (cols - max 0 col) = cols - col := by omega
  have h1 : ¬ cols - col ≤ 0 := by omega
  simp only [ha, if_neg h1]
  have hl := cont_length_le (cols - col) text (by omega)
  unfold cont at hl ⊢
  generalize (if Int.ofNat text.length > cols - col then List.take (cols - col).toNat text else text) = content
    at hl ⊢
  have hn : (0:Int) ≤ Int.ofNat content.length := by rw [Int.ofNat_eq_natCast]; omega
  cases align <;> simp only [offs]
  · have h : max col (min (cols - Int.ofNat content.length) col) = col := by omega
    rw [h]
  · have h : max col (min (cols - Int.ofNat content.length) (col + (cols - col - Int.ofNat content.length) / 2))
        = col + (cols - col - Int.ofNat content.length) / 2 := by omega
    rw [h]
  · have h : max col (min (cols - Int.ofNat content.length) (col + (cols - col - Int.ofNat content.length)))
        = col + (cols - col - Int.ofNat content.length) := by omega
    rw [h]

theorem placeText_off (l : Host.LCD) (r : Nat) (text : List Char) (align : Align) (col : Int)
    (hcol : Int.ofNat l.cols ≤ col) : Host.placeText l r text align col = (l.buffer, []) := by
  unfold Host.placeText
  rw [Int.ofNat_eq_natCast] at hcol ⊢
  have ha : max 0 ((l.cols : Int) - max 0 col) ≤ 0 := by omega
  simp only [if_pos ha]

theorem toNat_lt_of_validRow (row : Int) (n : Nat) (h : 0 ≤ row ∧ row < Int.ofNat n) : row.toNat < n := by
  rw [Int.ofNat_eq_natCast] at h; omega

/-- host `write` on a shaped buffer, in-range row and column: same cells as the firmware template -/
theorem write_core (l : Host.LCD) (col row : Int) (text : List Char) (clear : Bool) (align : Align)
    (hlen : l.buffer.length = l.rows) (hsh : ∀ x ∈ l.buffer, x.length = l.cols)
    (hrow : 0 ≤ row ∧ row < Int.ofNat l.rows) (hcol : 0 ≤ col ∧ col < Int.ofNat l.cols) :
    ∃ l' ps, Host.write l col row text clear align = .ok (l', ps) ∧ l'.cols = l.cols ∧ l'.rows = l.rows ∧
      l'.buffer = (Fw.writeAligned l.buffer (Int.ofNat l.cols) col row text clear align).grid ∧
      l'.buffer.length = l.rows ∧ (∀ x ∈ l'.buffer, x.length = l.cols) ∧
      ps = [⟨offs (Int.ofNat l.cols - col) col (Int.ofNat (cont (Int.ofNat l.cols - col) text).length) align,
              row, (cont (Int.ofNat l.cols - col) text).length⟩] := by
  have hr : row.toNat < l.buffer.length := by rw [hlen]; exact toNat_lt_of_validRow _ _ hrow
  have hrr : Int.ofNat row.toNat = row := by rw [Int.ofNat_eq_natCast]; omega
  have hc : 0 < l.cols := by rw [Int.ofNat_eq_natCast] at hcol; omega
  unfold Host.write Host.validRow
  rw [if_pos hrow]
  simp only []
  cases clear
  · simp only [Bool.false_eq_true, if_false]
    rw [placeText_eq l _ _ _ _ hcol]
    refine ⟨_, _, rfl, rfl, rfl, ?_, ?_, ?_, ?_⟩
    · rw [writeAligned_eq _ _ _ _ _ _ _ hcol]
      simp only [Bool.false_eq_true, if_false]
      rw [printAt_eq_setRow _ _ _ _ hrow.1]
    · simp only [length_setRow, hlen]
    · apply shaped_setRow _ _ _ _ hsh
      rw [length_putRow]
      exact length_getD_of_shaped _ _ _ hsh hr
    · rw [hrr]
  · simp only [if_true]
    have hsh1 : ∀ x ∈ Host.setRow l.buffer row.toNat (blankRow l.cols), x.length = l.cols :=
      shaped_setRow _ _ _ _ hsh (by simp [blankRow])
    have hr1 : row.toNat < (Host.setRow l.buffer row.toNat (blankRow l.cols)).length := by
      rw [length_setRow]; exact hr
    rw [placeText_eq { l with buffer := Host.setRow l.buffer row.toNat (blankRow l.cols) } _ _ _ _ hcol]
    refine ⟨_, _, rfl, rfl, rfl, ?_, ?_, ?_, ?_⟩
    · rw [writeAligned_eq _ _ _ _ _ _ _ hcol]
      simp only [if_true]
      rw [clearRow_eq _ _ _ hc hrow.1 (length_getD_of_shaped _ _ _ hsh hr)]
      simp only []
      rw [printAt_eq_setRow _ _ _ _ hrow.1]
    · simp only [length_setRow, hlen]
    · apply shaped_setRow _ _ _ _ hsh1
      rw [length_putRow]
      exact length_getD_of_shaped _ _ _ hsh1 hr1
    · rw [hrr]

/-- host `write` for any non-negative column: prints stay in the row, the buffer keeps its shape -/
theorem write_shape_prints (l : Host.LCD) (col row : Int) (text : List Char) (clear : Bool) (align : Align)
    (l' : Host.LCD) (ps : List Print) (hcol : 0 ≤ col)
    (hlen : l.buffer.length = l.rows) (hsh : ∀ x ∈ l.buffer, x.length = l.cols)
    (h : Host.write l col row text clear align = .ok (l', ps)) :
    (∀ p ∈ ps, (0 ≤ p.col ∧ p.col + Int.ofNat p.len ≤ Int.ofNat l.cols) ∧ p.row = row) ∧
      l'.buffer.length = l.rows ∧ ∀ x ∈ l'.buffer, x.length = l.cols := by
  by_cases hrow : 0 ≤ row ∧ row < Int.ofNat l.rows
  · by_cases hc : col < Int.ofNat l.cols
    · obtain ⟨l'', ps', e, _, _, _, h1, h2, h3⟩ := write_core l col row text clear align hlen hsh hrow ⟨hcol, hc⟩
      rw [e] at h
      cases h
      refine ⟨?_, h1, h2⟩
      intro p hp
      rw [h3, List.mem_singleton] at hp
      subst hp
      have hl := cont_length_le (Int.ofNat l.cols - col) text (by omega)
      have hb := offs_bounds (Int.ofNat l.cols - col) col (Int.ofNat (cont (Int.ofNat l.cols - col) text).length)
        align (by rw [Int.ofNat_eq_natCast]; omega) hl
      refine ⟨⟨Int.le_trans hcol hb.1, ?_⟩, rfl⟩
      show offs _ _ _ _ + Int.ofNat (cont _ _).length ≤ _
      omega
    · unfold Host.write Host.validRow at h
      rw [if_pos hrow] at h
      simp only [] at h
      rw [placeText_off _ _ _ _ _ (by cases clear <;> exact Int.not_lt.mp hc)] at h
      cases h
      refine ⟨by simp, ?_, ?_⟩
      · cases clear <;> simp [hlen]
      · cases clear
        · simpa using hsh
        · simp only [if_true]
          exact shaped_setRow _ _ _ _ hsh (by simp [blankRow])
  · unfold Host.write Host.validRow at h
    rw [if_neg hrow] at h
    cases h

theorem line_eq_write (l : Host.LCD) (row : Int) (text : List Char) (align : Align) (clear : Bool) :
    Host.line l row text align clear = Host.write l 0 row text clear align := rfl

/-- one optional `line` of `message` -/
theorem message_step (l : Host.LCD) (o : Option (List Char)) (row : Int) (a : Align) (clear : Bool)
    (hlen : l.buffer.length = l.rows) (hsh : ∀ x ∈ l.buffer, x.length = l.cols) (hc : 0 < l.cols)
    (hrow : 0 ≤ row ∧ row < Int.ofNat l.rows) :
    ∃ (l' : Host.LCD) (ps : List Print), (match o with
        | some t => Host.line l row t a clear
        | none => (pure (l, []) : Except Exc (Host.LCD × List Print))) = .ok (l', ps) ∧
      l'.cols = l.cols ∧ l'.rows = l.rows ∧
      l'.buffer = (match o with
        | some t => (Fw.writeAligned l.buffer (Int.ofNat l.cols) 0 row t clear a).grid
        | none => l.buffer) ∧
      l'.buffer.length = l.rows ∧ (∀ x ∈ l'.buffer, x.length = l.cols) := by
  cases o with
  | none => exact ⟨l, [], rfl, rfl, rfl, rfl, hlen, hsh⟩
  | some t =>
    have hcol : (0:Int) ≤ 0 ∧ (0:Int) < Int.ofNat l.cols := by rw [Int.ofNat_eq_natCast]; omega
    obtain ⟨l', ps, e, h1, h2, h3, h4, h5, _⟩ := write_core l 0 row t clear a hlen hsh hrow hcol
    exact ⟨l', ps, e, h1, h2, h3, h4, h5⟩

theorem message_core (l : Host.LCD) (top bottom : Option (List Char)) (ta ba : Align) (clear : Bool)
    (hlen : l.buffer.length = l.rows) (hsh : ∀ x ∈ l.buffer, x.length = l.cols) (hc : 0 < l.cols)
    (hrows : 2 ≤ l.rows) :
    ∃ l' ps, Host.message l top bottom ta ba clear = .ok (l', ps) ∧ l'.cols = l.cols ∧ l'.rows = l.rows ∧
      l'.buffer = (
        let g1 := match top with
          | some t => (Fw.writeAligned l.buffer (Int.ofNat l.cols) 0 0 t clear ta).grid
          | none => l.buffer
        match bottom with
          | some b => (Fw.writeAligned g1 (Int.ofNat l.cols) 0 1 b clear ba).grid
          | none => g1) ∧
      l'.buffer.length = l.rows ∧ (∀ x ∈ l'.buffer, x.length = l.cols) := by
  have hr0 : (0:Int) ≤ 0 ∧ (0:Int) < Int.ofNat l.rows := by rw [Int.ofNat_eq_natCast]; omega
  obtain ⟨l1, p1, e1, c1, r1, b1, n1, s1⟩ := message_step l top 0 ta clear hlen hsh hc hr0
  have hr1 : (0:Int) ≤ 1 ∧ (1:Int) < Int.ofNat l1.rows := by rw [r1, Int.ofNat_eq_natCast]; omega
  obtain ⟨l2, p2, e2, c2, r2, b2, n2, s2⟩ :=
    message_step l1 bottom 1 ba clear (by rw [n1, r1]) (by rw [c1]; exact s1) (by rw [c1]; exact hc) hr1
  unfold Host.message
  cases top <;> cases bottom <;> simp only [bind, Except.bind, pure, Except.pure] at e1 e2 b1 b2 ⊢
  · exact ⟨_, _, rfl, rfl, rfl, rfl, hlen, hsh⟩
  · have hl1 : l = l1 := by injection e1 with h; exact (Prod.mk.inj h).1
    subst hl1
    rw [if_pos (by omega : l.rows > 1), e2]
    exact ⟨_, _, rfl, c2, r2, b2, n2, s2⟩
  · rw [e1]
    exact ⟨_, _, rfl, c1, r1, b1, n1, s1⟩
  · rw [e1]
    simp only []
    rw [if_pos (by omega : l1.rows > 1), e2]
    refine ⟨_, _, rfl, by rw [c2, c1], by rw [r2, r1], ?_, by rw [n2, r1], by rw [← c1]; exact s2⟩
    simp only [b2, b1, c1]

theorem writeAligned_negcol (g : Grid) (cols col row : Int) (text : List Char) (clear : Bool) (align : Align)
    (h : col < 0) :
    Fw.writeAligned g cols col row text clear align = Fw.writeAligned g cols 0 row text clear align := by
  unfold Fw.writeAligned
  simp only [if_pos h, Int.lt_irrefl, if_false]

theorem clearRow_prints (g : Grid) (cols : Nat) (row : Int) :
    ∀ p ∈ (Fw.clearRow g (Int.ofNat cols) row).prints,
      (0 ≤ p.col ∧ p.col + Int.ofNat p.len ≤ Int.ofNat cols) ∧ p.row = row := by
  intro p hp
  unfold Fw.clearRow at hp
  split at hp
  · simp at hp
  · rw [List.mem_singleton] at hp
    subst hp
    refine ⟨⟨Int.le_refl 0, ?_⟩, rfl⟩
    show (0:Int) + Int.ofNat (Int.ofNat cols).toNat ≤ Int.ofNat cols
    simp only [Int.ofNat_eq_natCast, Int.toNat_natCast]
    omega

theorem writeAligned_prints_inrange (g : Grid) (cols : Nat) (col row : Int) (text : List Char) (clear : Bool)
    (align : Align) (hcol : 0 ≤ col ∧ col < Int.ofNat cols) :
    ∀ p ∈ (Fw.writeAligned g (Int.ofNat cols) col row text clear align).prints,
      (0 ≤ p.col ∧ p.col + Int.ofNat p.len ≤ Int.ofNat cols) ∧ p.row = row := by
  intro p hp
  rw [writeAligned_eq _ _ _ _ _ _ _ hcol] at hp
  simp only [List.mem_append, List.mem_singleton] at hp
  rcases hp with hp | hp
  · cases clear
    · simp at hp
    · exact clearRow_prints g cols row p hp
  · subst hp
    have hl := cont_length_le (Int.ofNat cols - col) text (by omega)
    have hb := offs_bounds (Int.ofNat cols - col) col (Int.ofNat (cont (Int.ofNat cols - col) text).length)
      align (by rw [Int.ofNat_eq_natCast]; omega) hl
    refine ⟨⟨Int.le_trans hcol.1 hb.1, ?_⟩, rfl⟩
    show offs _ _ _ _ + Int.ofNat (cont _ _).length ≤ _
    omega

theorem writeAligned_prints (g : Grid) (cols : Nat) (col row : Int) (text : List Char) (clear : Bool)
    (align : Align) :
    ∀ p ∈ (Fw.writeAligned g (Int.ofNat cols) col row text clear align).prints,
      (0 ≤ p.col ∧ p.col + Int.ofNat p.len ≤ Int.ofNat cols) ∧ p.row = row := by
  by_cases hc : Int.ofNat cols ≤ 0
  · intro p hp
    unfold Fw.writeAligned at hp
    rw [if_pos hc] at hp
    simp at hp
  · by_cases hn : col < 0
    · rw [writeAligned_negcol _ _ _ _ _ _ _ hn]
      exact writeAligned_prints_inrange g cols 0 row text clear align ⟨Int.le_refl 0, by omega⟩
    · by_cases hge : col ≥ Int.ofNat cols
      · intro p hp
        unfold Fw.writeAligned at hp
        simp only [if_neg hc, if_neg hn, if_pos hge] at hp
        simp at hp
      · exact writeAligned_prints_inrange g cols col row text clear align ⟨by omega, by omega⟩

theorem getD_writeAligned (g : Grid) (cols col row : Int) (text : List Char) (clear : Bool) (align : Align)
    (r : Nat) (hr : Int.ofNat r ≠ row) :
    (Fw.writeAligned g cols col row text clear align).grid.getD r [] = g.getD r [] := by
  unfold Fw.writeAligned
  by_cases h1 : cols ≤ 0
  · rw [if_pos h1]
  · rw [if_neg h1]
    simp only []
    by_cases h2 : (if col < 0 then 0 else col) ≥ cols
    · rw [if_pos h2]
    · rw [if_neg h2]
      simp only [getD_printAt, if_neg hr]
      cases clear
      · rfl
      · exact getD_clearRow g cols row r hr

theorem progress_prints (g : Grid) (cols : Nat) (row value maxValue width : Int) (fill : Char) (label : List Char) :
    ∀ p ∈ (Fw.progress g (Int.ofNat cols) row value maxValue width fill label).prints,
      (0 ≤ p.col ∧ p.col + Int.ofNat p.len ≤ Int.ofNat cols) ∧ p.row = row := by
  intro p hp
  unfold Fw.progress at hp
  split at hp
  · simp at hp
  · rename_i hc
    simp only [List.mem_append, List.mem_singleton] at hp
    rcases hp with hp | hp
    · exact clearRow_prints g cols row p hp
    · subst hp
      refine ⟨⟨Int.le_refl 0, ?_⟩, rfl⟩
      show (0:Int) + Int.ofNat (cont (Int.ofNat cols) _).length ≤ Int.ofNat cols
      rw [Int.zero_add]
      exact cont_length_le _ _ (by omega)

/-! ## progress bar -/

/-- the value after both clamps -/
def clampV (v mx : Int) : Int := if v < 0 then 0 else if v > mx then mx else v

theorem clampV_bounds (v mx : Int) (hmx : 0 < mx) : 0 ≤ clampV v mx ∧ clampV v mx ≤ mx := by
  unfold clampV; split_ifs <;> omega

theorem clampV_mono (v1 v2 mx : Int) (hmx : 0 < mx) (h : v1 ≤ v2) : clampV v1 mx ≤ clampV v2 mx := by
  unfold clampV; split_ifs <;> omega

theorem fw_filled_eq (cols v mx w : Int) (hmx : 0 < mx) (hw : 1 ≤ w ∧ w ≤ cols) :
    Fw.progressFilled cols v mx w = (clampV v mx * w / mx, w) := by
  have hb := clampV_bounds v mx hmx
  have hv : (if (if v < 0 then 0 else v) > mx then mx else (if v < 0 then 0 else v)) = clampV v mx := by
    unfold clampV; split_ifs <;> omega
  have h1 : ¬ (w ≤ 0 ∨ w > cols) := by omega
  have h2 : ¬ mx ≤ 0 := by omega
  unfold Fw.progressFilled
  simp only [if_neg h1, if_neg h2, hv]
  have hnn : 0 ≤ clampV v mx * w := Int.mul_nonneg hb.1 (by omega)
  rw [Int.tdiv_eq_ediv_of_nonneg hnn]
  have h3 : ¬ clampV v mx * w / mx < 0 := Int.not_lt.mpr (Int.ediv_nonneg hnn (by omega))
  have h4 : ¬ clampV v mx * w / mx > w := by
    have : clampV v mx * w / mx ≤ mx * w / mx :=
      Int.ediv_le_ediv hmx (Int.mul_le_mul_of_nonneg_right hb.2 (by omega))
    rw [Int.mul_ediv_cancel_left _ (by omega : mx ≠ 0)] at this
    omega
  simp only [if_neg h3, if_neg h4]

theorem fw_progress_laws' (cols v1 v2 mx w : Int) (hmx : 0 < mx) (hw : 1 ≤ w ∧ w ≤ cols) (h12 : v1 ≤ v2) :
    (Fw.progressFilled cols v1 mx w).1 ≤ (Fw.progressFilled cols v2 mx w).1 ∧
    (v1 ≤ 0 → (Fw.progressFilled cols v1 mx w).1 = 0) ∧
    (mx ≤ v2 → (Fw.progressFilled cols v2 mx w).1 = w) ∧
    (Fw.progressFilled cols v1 mx w).2 = w := by
  rw [fw_filled_eq cols v1 mx w hmx hw, fw_filled_eq cols v2 mx w hmx hw]
  refine ⟨?_, ?_, ?_, rfl⟩
  · exact Int.ediv_le_ediv hmx (Int.mul_le_mul_of_nonneg_right (clampV_mono v1 v2 mx hmx h12) (by omega))
  · intro h
    have : clampV v1 mx = 0 := by unfold clampV; split_ifs <;> omega
    simp only [this, Int.zero_mul, Int.zero_ediv]
  · intro h
    have : clampV v2 mx = mx := by unfold clampV; split_ifs <;> omega
    simp only [this]
    exact Int.mul_ediv_cancel_left _ (by omega)

variable {K : Type} [Field K] [LinearOrder K] [IsStrictOrderedRing K] [FloorRing K]

theorem roundHEK_intCast (n : Int) : roundHEK (n : K) = n := by
  simp [roundHEK]

theorem floor_le_roundHEK (x : K) : ⌊x⌋ ≤ roundHEK x := by
  unfold roundHEK; simp only []; split_ifs <;> omega

theorem roundHEK_le_floor_add_one (x : K) : roundHEK x ≤ ⌊x⌋ + 1 := by
  unfold roundHEK; simp only []; split_ifs <;> omega

theorem roundHEK_mono {x y : K} (h : x ≤ y) : roundHEK x ≤ roundHEK y := by
  have hfg : ⌊x⌋ ≤ ⌊y⌋ := Int.floor_le_floor h
  rcases lt_or_eq_of_le hfg with hlt | heq
  · calc roundHEK x ≤ ⌊x⌋ + 1 := roundHEK_le_floor_add_one x
      _ ≤ ⌊y⌋ := hlt
      _ ≤ roundHEK y := floor_le_roundHEK y
  · have hxy : x - (⌊y⌋ : K) ≤ y - (⌊y⌋ : K) := by linarith
    unfold roundHEK; simp only []; rw [heq]
    split_ifs <;> first | omega | (exfalso; linarith)

theorem floor_intCast_div (a b : Int) (hb : 0 < b) : ⌊((a : Int) : K) / ((b : Int) : K)⌋ = a / b := by
  rw [Int.floor_div_cast_of_nonneg (Int.le_of_lt hb), Int.floor_intCast]

theorem host_filled_eq (cols : Nat) (v mx w : Int) (hmx : 0 < mx) (hw : 1 ≤ w ∧ w ≤ Int.ofNat cols) :
    Host.progressFilled (α := K) cols v mx (some w) =
      (roundHEK (((clampV v mx * w : Int) : K) / ((mx : Int) : K)), w) := by
  have hmxK : (0 : K) < (mx : K) := by exact_mod_cast hmx
  have htw : max 1 (min (Int.ofNat cols) w) = w := by omega
  have h2 : ¬ mx ≤ 0 := by omega
  unfold Host.progressFilled
  simp only [htw, if_neg h2, ofInt_eq, roundHE_eq, Int.cast_zero, Int.cast_one]
  congr 2
  unfold clampV
  by_cases hv0 : v < 0
  · have : (v : K) / (mx : K) < 0 := div_neg_of_neg_of_pos (by exact_mod_cast hv0) hmxK
    rw [if_pos this, if_pos hv0]
    simp
  · have hv0' : (0 : K) ≤ (v : K) := by exact_mod_cast Int.not_lt.mp hv0
    have : ¬ (v : K) / (mx : K) < 0 := not_lt.mpr (div_nonneg hv0' hmxK.le)
    rw [if_neg this, if_neg hv0]
    by_cases hv1 : v > mx
    · have : 1 < (v : K) / (mx : K) := by
        rw [one_lt_div hmxK]; exact_mod_cast hv1
      rw [if_pos this, if_pos hv1]
      push_cast
      field_simp
    · have : ¬ 1 < (v : K) / (mx : K) := by
        rw [one_lt_div hmxK, not_lt]; exact_mod_cast Int.not_lt.mp hv1
      rw [if_neg this, if_neg hv1]
      push_cast
      ring

theorem host_progress_laws' (cols : Nat) (v1 v2 mx w : Int) (hmx : 0 < mx) (hw : 1 ≤ w ∧ w ≤ Int.ofNat cols)
    (h12 : v1 ≤ v2) :
    (Host.progressFilled (α := K) cols v1 mx (some w)).1 ≤ (Host.progressFilled (α := K) cols v2 mx (some w)).1 ∧
    (v1 ≤ 0 → (Host.progressFilled (α := K) cols v1 mx (some w)).1 = 0) ∧
    (mx ≤ v2 → (Host.progressFilled (α := K) cols v2 mx (some w)).1 = w) ∧
    (Host.progressFilled (α := K) cols v1 mx (some w)).2 = w := by
  have hmxK : (0 : K) < (mx : K) := by exact_mod_cast hmx
  rw [host_filled_eq cols v1 mx w hmx hw, host_filled_eq cols v2 mx w hmx hw]
  refine ⟨?_, ?_, ?_, rfl⟩
  · apply roundHEK_mono
    apply div_le_div_of_nonneg_right _ hmxK.le
    exact Int.cast_le.mpr (Int.mul_le_mul_of_nonneg_right (clampV_mono v1 v2 mx hmx h12) (by omega))
  · intro h
    have : clampV v1 mx = 0 := by unfold clampV; split_ifs <;> omega
    have h0 := roundHEK_intCast (K := K) 0
    simp only [this, Int.zero_mul, Int.cast_zero, zero_div] at h0 ⊢
    exact h0
  · intro h
    have : clampV v2 mx = mx := by unfold clampV; split_ifs <;> omega
    have e : (((mx * w : Int) : K)) / ((mx : Int) : K) = ((w : Int) : K) := by
      push_cast; field_simp
    simp only [this, e]
    exact roundHEK_intCast w

theorem progress_close' (cols : Nat) (v mx w : Int) (hmx : 0 < mx) (hw : 1 ≤ w ∧ w ≤ Int.ofNat cols) :
    ((Fw.progressFilled (Int.ofNat cols) v mx w).1 - (Host.progressFilled (α := K) cols v mx (some w)).1).natAbs ≤ 1 ∧
    ((0 ≤ v ∧ v ≤ mx ∧ (v * w) % mx = 0) →
      (Fw.progressFilled (Int.ofNat cols) v mx w).1 = (Host.progressFilled (α := K) cols v mx (some w)).1) := by
  have hmxK : (0 : K) < (mx : K) := by exact_mod_cast hmx
  rw [host_filled_eq cols v mx w hmx hw, fw_filled_eq (Int.ofNat cols) v mx w hmx hw]
  have hf := floor_intCast_div (K := K) (clampV v mx * w) mx hmx
  have h1 := floor_le_roundHEK (((clampV v mx * w : Int) : K) / ((mx : Int) : K))
  have h2 := roundHEK_le_floor_add_one (((clampV v mx * w : Int) : K) / ((mx : Int) : K))
  rw [hf] at h1 h2
  refine ⟨by simp only []; omega, ?_⟩
  rintro ⟨hv0, hv1, hmod⟩
  have hc : clampV v mx = v := by unfold clampV; split_ifs <;> omega
  have hd : v * w / mx * mx = v * w := Int.ediv_mul_cancel (Int.dvd_of_emod_eq_zero hmod)
  have e : (((v * w : Int) : K)) / ((mx : Int) : K) = (((v * w / mx : Int)) : K) := by
    rw [div_eq_iff (ne_of_gt hmxK), ← Int.cast_mul, hd]
  simp only [hc, e]
  exact (roundHEK_intCast _).symm

end Reduino.Lemmas.C17
