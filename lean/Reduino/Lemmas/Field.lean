import Reduino.Basic
import Mathlib.Algebra.Order.Floor.Ring
import Mathlib.Algebra.Order.Field.Basic
import Mathlib.Tactic.Linarith
import Mathlib.Tactic.FieldSimp
import Mathlib.Tactic.Ring
/-
  The exact-arithmetic instantiation of the float carrier: any linearly ordered field with a floor.
  Proof files import this; model files never do.
-/
namespace Reduino

variable {K : Type} [Field K] [LinearOrder K] [IsStrictOrderedRing K] [FloorRing K]

/-- Python `round` on an exact number: nearest integer, ties to even. -/
def roundHEK (x : K) : Int :=
  let f := ⌊x⌋
  if x - f < 1 / 2 then f else if 1 / 2 < x - f then f + 1 else if f % 2 = 0 then f else f + 1

instance instNumField : Num K where
  ofInt := Int.cast
  trunc x := if 0 ≤ x then ⌊x⌋ else ⌈x⌉
  roundHE := roundHEK

@[simp] theorem ofInt_eq (n : Int) : (Num.ofInt n : K) = (n : K) := rfl
theorem trunc_eq (x : K) : Num.trunc x = if 0 ≤ x then ⌊x⌋ else ⌈x⌉ := rfl
theorem roundHE_eq (x : K) : Num.roundHE x = roundHEK x := rfl

end Reduino
