import Reduino.Lang.EvalConst
/- helper lemmas for Props/C11.lean -/
namespace Reduino.Lemmas.C11
end Reduino.Lemmas.C11
