import Reduino.Lang.EvalConst
/- helper lemmas for Props/C11.lean -/
namespace Reduino.Lemmas.C11
open Reduino.Lang.EC

/-! ### non-interference: the handler of `forbidden` nodes is irrelevant for successful runs -/

/-- `y` succeeds with the same value whenever `x` succeeds -/
def Le {α : Type} (x y : Except Err α) : Prop := ∀ v, x = .ok v → y = .ok v

theorem Le.refl {α : Type} (x : Except Err α) : Le x x := fun _ h => h

theorem Le.bind {α β : Type} {x y : Except Err α} {f g : α → Except Err β}
    (hxy : Le x y) (hfg : ∀ a, Le (f a) (g a)) : Le (x >>= f) (y >>= g) := by
  intro v hv
  cases x with
  | error e => cases hv
  | ok a =>
    rw [hxy a rfl]
    exact hfg a v hv

theorem Le.ite {α : Type} {c : Prop} [Decidable c] {x y x' y' : Except Err α}
    (h1 : Le x x') (h2 : Le y y') : Le (if c then x else y) (if c then x' else y') := by
  split
  · exact h1
  · exact h2

abbrev h0 : String → Except Err Val := fun _ => .error .value

mutual
theorem ni_eval (h : String → Except Err Val) (env : Env) :
    ∀ e : PExpr, Le (evalH h0 env e) (evalH h env e)
  | .const v => by rw [evalH, evalH]; exact Le.refl _
  | .name x => by rw [evalH, evalH]; exact Le.refl _
  | .bin op a b => by
    rw [evalH, evalH]
    exact Le.bind (ni_eval h env a) fun _ => Le.bind (ni_eval h env b) fun _ => Le.refl _
  | .un op a => by
    rw [evalH, evalH]
    exact Le.bind (ni_eval h env a) fun _ => Le.refl _
  | .and a b => by
    rw [evalH, evalH]
    exact Le.bind (ni_eval h env a) fun _ => Le.ite (ni_eval h env b) (Le.refl _)
  | .or a b => by
    rw [evalH, evalH]
    exact Le.bind (ni_eval h env a) fun _ => Le.ite (Le.refl _) (ni_eval h env b)
  | .compare l rest => by
    rw [evalH, evalH]
    refine Le.bind (ni_eval h env l) fun v => ?_
    cases rest with
    | nil => exact Le.refl _
    | cons p ps => exact ni_chain h env v (p :: ps)
  | .ifexp c a b => by
    rw [evalH, evalH]
    exact Le.bind (ni_eval h env c) fun _ => Le.ite (ni_eval h env a) (ni_eval h env b)
  | .fstr parts => by
    rw [evalH, evalH]
    exact Le.bind (ni_parts h env parts) fun _ => Le.refl _
  | .call f [] => by
    rw [evalH, evalH]; exact Le.refl _
  | .call f [a] => by
    rw [evalH, evalH]
    refine Le.ite (Le.bind (ni_eval h env a) fun _ => Le.refl _) ?_
    refine Le.ite (Le.bind (ni_eval h env a) fun _ => Le.refl _) ?_
    refine Le.ite (Le.bind (ni_eval h env a) fun _ => Le.refl _) ?_
    exact Le.ite (Le.bind (ni_list h env [a]) fun _ => Le.refl _) (Le.refl _)
  | .call f (a :: b :: r) => by
    rw [evalH.eq_12 _ _ _ _ (by simp) (by simp), evalH.eq_12 _ _ _ _ (by simp) (by simp)]
    refine Le.ite (Le.refl _) ?_
    refine Le.ite (Le.refl _) ?_
    refine Le.ite (Le.refl _) ?_
    exact Le.ite (Le.bind (ni_list h env (a :: b :: r)) fun _ => Le.refl _) (Le.refl _)
  | .seq t es => by
    rw [evalH, evalH]
    exact Le.bind (ni_list h env es) fun _ => Le.refl _
  | .forbidden k => by
    rw [evalH]; intro v hv; simp [h0] at hv

theorem ni_chain (h : String → Except Err Val) (env : Env) (l : Val) :
    ∀ rest : List (CmpOp × PExpr), Le (evalChainH h0 env l rest) (evalChainH h env l rest)
  | [] => by rw [evalChainH, evalChainH]; exact Le.refl _
  | (op, e) :: rest => by
    rw [evalChainH, evalChainH]
    refine Le.bind (ni_eval h env e) fun r => Le.bind (Le.refl _) fun ok => ?_
    exact Le.ite (ni_chain h env r rest) (Le.refl _)

theorem ni_parts (h : String → Except Err Val) (env : Env) :
    ∀ ps : List (Option String × Option PExpr), Le (evalPartsH h0 env ps) (evalPartsH h env ps)
  | [] => by rw [evalPartsH, evalPartsH]; exact Le.refl _
  | (some s, _) :: rest => by
    rw [evalPartsH, evalPartsH]
    exact Le.bind (ni_parts h env rest) fun _ => Le.refl _
  | (none, some e) :: rest => by
    rw [evalPartsH, evalPartsH]
    refine Le.bind (ni_eval h env e) fun v => ?_
    cases pyStr v with
    | none => exact Le.refl _
    | some s => exact Le.bind (ni_parts h env rest) fun _ => Le.refl _
  | (none, none) :: _ => by rw [evalPartsH, evalPartsH]; exact Le.refl _

theorem ni_list (h : String → Except Err Val) (env : Env) :
    ∀ es : List PExpr, Le (evalListH h0 env es) (evalListH h env es)
  | [] => by rw [evalListH, evalListH]; exact Le.refl _
  | e :: rest => by
    rw [evalListH, evalListH]
    exact Le.bind (ni_eval h env e) fun _ => Le.bind (ni_list h env rest) fun _ => Le.refl _
end

/-! ### the same for every outcome except the evaluator's own ValueError: a `floatResult` (or a Python-operation error) of the
    real instance is the outcome under EVERY handler — no non-whitelisted node was consulted before the float arose -/

/-- `y` is `x` unless `x` is the evaluator's own ValueError -/
def Ag {α : Type} (x y : Except Err α) : Prop := x = .error .value ∨ y = x

theorem Ag.refl {α : Type} (x : Except Err α) : Ag x x := Or.inr rfl

theorem Ag.bind {α β : Type} {x y : Except Err α} {f g : α → Except Err β}
    (hxy : Ag x y) (hfg : ∀ a, Ag (f a) (g a)) : Ag (x >>= f) (y >>= g) := by
  rcases hxy with h | h
  · subst h; exact Or.inl rfl
  · subst h
    cases y with
    | error e => exact Or.inr rfl
    | ok a => exact hfg a

theorem Ag.ite {α : Type} {c : Prop} [Decidable c] {x y x' y' : Except Err α}
    (h1 : Ag x x') (h2 : Ag y y') : Ag (if c then x else y) (if c then x' else y') := by
  split
  · exact h1
  · exact h2

theorem Ag.le {α : Type} {x y : Except Err α} (h : Ag x y) : Le x y := by
  intro v hv
  rcases h with h | h
  · rw [h] at hv; cases hv
  · rw [h]; exact hv

mutual
theorem ag_eval (h : String → Except Err Val) (env : Env) :
    ∀ e : PExpr, Ag (evalH h0 env e) (evalH h env e)
  | .const v => by rw [evalH, evalH]; exact Ag.refl _
  | .name x => by rw [evalH, evalH]; exact Ag.refl _
  | .bin op a b => by
    rw [evalH, evalH]
    exact Ag.bind (ag_eval h env a) fun _ => Ag.bind (ag_eval h env b) fun _ => Ag.refl _
  | .un op a => by
    rw [evalH, evalH]
    exact Ag.bind (ag_eval h env a) fun _ => Ag.refl _
  | .and a b => by
    rw [evalH, evalH]
    exact Ag.bind (ag_eval h env a) fun _ => Ag.ite (ag_eval h env b) (Ag.refl _)
  | .or a b => by
    rw [evalH, evalH]
    exact Ag.bind (ag_eval h env a) fun _ => Ag.ite (Ag.refl _) (ag_eval h env b)
  | .compare l rest => by
    rw [evalH, evalH]
    refine Ag.bind (ag_eval h env l) fun v => ?_
    cases rest with
    | nil => exact Ag.refl _
    | cons p ps => exact ag_chain h env v (p :: ps)
  | .ifexp c a b => by
    rw [evalH, evalH]
    exact Ag.bind (ag_eval h env c) fun _ => Ag.ite (ag_eval h env a) (ag_eval h env b)
  | .fstr parts => by
    rw [evalH, evalH]
    exact Ag.bind (ag_parts h env parts) fun _ => Ag.refl _
  | .call f [] => by
    rw [evalH, evalH]; exact Ag.refl _
  | .call f [a] => by
    rw [evalH, evalH]
    refine Ag.ite (Ag.bind (ag_eval h env a) fun _ => Ag.refl _) ?_
    refine Ag.ite (Ag.bind (ag_eval h env a) fun _ => Ag.refl _) ?_
    refine Ag.ite (Ag.bind (ag_eval h env a) fun _ => Ag.refl _) ?_
    exact Ag.ite (Ag.bind (ag_list h env [a]) fun _ => Ag.refl _) (Ag.refl _)
  | .call f (a :: b :: r) => by
    rw [evalH.eq_12 _ _ _ _ (by simp) (by simp), evalH.eq_12 _ _ _ _ (by simp) (by simp)]
    refine Ag.ite (Ag.refl _) ?_
    refine Ag.ite (Ag.refl _) ?_
    refine Ag.ite (Ag.refl _) ?_
    exact Ag.ite (Ag.bind (ag_list h env (a :: b :: r)) fun _ => Ag.refl _) (Ag.refl _)
  | .seq t es => by
    rw [evalH, evalH]
    exact Ag.bind (ag_list h env es) fun _ => Ag.refl _
  | .forbidden k => by
    rw [evalH]; exact Or.inl rfl

theorem ag_chain (h : String → Except Err Val) (env : Env) (l : Val) :
    ∀ rest : List (CmpOp × PExpr), Ag (evalChainH h0 env l rest) (evalChainH h env l rest)
  | [] => by rw [evalChainH, evalChainH]; exact Ag.refl _
  | (op, e) :: rest => by
    rw [evalChainH, evalChainH]
    refine Ag.bind (ag_eval h env e) fun r => Ag.bind (Ag.refl _) fun ok => ?_
    exact Ag.ite (ag_chain h env r rest) (Ag.refl _)

theorem ag_parts (h : String → Except Err Val) (env : Env) :
    ∀ ps : List (Option String × Option PExpr), Ag (evalPartsH h0 env ps) (evalPartsH h env ps)
  | [] => by rw [evalPartsH, evalPartsH]; exact Ag.refl _
  | (some s, _) :: rest => by
    rw [evalPartsH, evalPartsH]
    exact Ag.bind (ag_parts h env rest) fun _ => Ag.refl _
  | (none, some e) :: rest => by
    rw [evalPartsH, evalPartsH]
    refine Ag.bind (ag_eval h env e) fun v => ?_
    cases pyStr v with
    | none => exact Ag.refl _
    | some s => exact Ag.bind (ag_parts h env rest) fun _ => Ag.refl _
  | (none, none) :: _ => by rw [evalPartsH, evalPartsH]; exact Ag.refl _

theorem ag_list (h : String → Except Err Val) (env : Env) :
    ∀ es : List PExpr, Ag (evalListH h0 env es) (evalListH h env es)
  | [] => by rw [evalListH, evalListH]; exact Ag.refl _
  | e :: rest => by
    rw [evalListH, evalListH]
    exact Ag.bind (ag_eval h env e) fun _ => Ag.bind (ag_list h env rest) fun _ => Ag.refl _
end

/-! ### value-level facts for the size bound -/

theorem bind_eq_ok {α β : Type} {x : Except Err α} {f : α → Except Err β} {v : β}
    (h : (x >>= f) = .ok v) : ∃ a, x = .ok a ∧ f a = .ok v := by
  cases x with
  | error e => cases h
  | ok a => exact ⟨a, rfl, h⟩

theorem natAbs_fmod_le (x y : Int) (hy : y ≠ 0) : (Int.fmod x y).natAbs ≤ y.natAbs := by
  rw [Int.fmod_eq_emod]
  have h1 := Int.emod_nonneg x hy
  have h2 := Int.emod_lt x hy
  split <;> omega

theorem num?_str_add {x y : String} {k : Int} : (Val.str (x ++ y)).num? = some k → False := by
  simp [Val.num?]

/-! bitwise operators: on naturals `m ||| n ≤ m + n`, `m ^^^ n ≤ m + n`; on two's-complement integers the magnitude of
    `x & y`, `x | y`, `x ^ y` is at most `|x| + |y|` (`|x & y| ≤ max |x| |y|` is false: `-5 & -3 = -7`) -/

theorem nat_or_le_add : ∀ a b : Nat, a ||| b ≤ a + b := by
  intro a
  induction a using Nat.strongRecOn with
  | _ a ih =>
    intro b
    by_cases ha : a = 0
    · subst ha; simp
    · have h1 := ih (a / 2) (by omega) (b / 2)
      rw [← Nat.or_div_two] at h1
      have h2 : (a ||| b) % 2 ≤ a % 2 + b % 2 := by
        have := @Nat.or_mod_two_eq_one a b
        omega
      omega

theorem nat_xor_le_or (a b : Nat) : a ^^^ b ≤ a ||| b :=
  Nat.le_of_testBit (by intro i; simp only [Nat.testBit_xor, Nat.testBit_or]; cases a.testBit i <;> cases b.testBit i <;> simp)

theorem nat_xor_le_add (a b : Nat) : a ^^^ b ≤ a + b := Nat.le_trans (nat_xor_le_or a b) (nat_or_le_add a b)

theorem natAndNot_le (m n : Nat) : Reduino.Lang.natAndNot m n ≤ m :=
  Nat.le_of_testBit (by
    intro i; simp only [Reduino.Lang.natAndNot, Nat.testBit_xor, Nat.testBit_and]
    cases m.testBit i <;> cases n.testBit i <;> simp)

theorem natAbs_bitAnd_le (x y : Int) : (Reduino.Lang.bitAnd x y).natAbs ≤ x.natAbs + y.natAbs := by
  cases x <;> cases y <;> simp only [Reduino.Lang.bitAnd, Int.natAbs]
  · rename_i m n; have := @Nat.and_le_left m n; omega
  · rename_i m n; have := natAndNot_le m n; omega
  · rename_i m n; have := natAndNot_le n m; omega
  · rename_i m n; have := nat_or_le_add m n; omega

theorem natAbs_bitOr_le (x y : Int) : (Reduino.Lang.bitOr x y).natAbs ≤ x.natAbs + y.natAbs := by
  cases x <;> cases y <;> simp only [Reduino.Lang.bitOr, Int.natAbs]
  · rename_i m n; have := nat_or_le_add m n; omega
  · rename_i m n; have := natAndNot_le n m; omega
  · rename_i m n; have := natAndNot_le m n; omega
  · rename_i m n; have := @Nat.and_le_left m n; omega

theorem natAbs_bitXor_le (x y : Int) : (Reduino.Lang.bitXor x y).natAbs ≤ x.natAbs + y.natAbs := by
  cases x <;> cases y <;> simp only [Reduino.Lang.bitXor, Int.natAbs]
  all_goals (rename_i m n; have := nat_xor_le_add m n; omega)

theorem bitRes_bound {f : Int → Int → Int} {g : Bool → Bool → Bool} {a b : Val} {x y k : Int}
    (hg : ∀ p q : Bool, ((if g p q then 1 else 0 : Int)).natAbs ≤ ((if p then 1 else 0 : Int)).natAbs + ((if q then 1 else 0 : Int)).natAbs)
    (hf : ∀ x y, (f x y).natAbs ≤ x.natAbs + y.natAbs)
    (hx : a.num? = some x) (hy : b.num? = some y) (hk : (bitRes f g a b x y).num? = some k) :
    k.natAbs ≤ x.natAbs + y.natAbs := by
  unfold bitRes at hk
  split at hk
  · simp only [Val.num?, Option.some.injEq] at hx hy hk
    subst hx hy hk
    exact hg _ _
  · simp only [Val.num?, Option.some.injEq] at hk
    subst hk
    exact hf _ _

/-- value-level magnitude bounds of the `**`/`<<`-free arithmetic operators -/
theorem applyBin_bound {op : BinOp} {a b r : Val} {k : Int}
    (hr : applyBin op a b = .ok r) (hk : r.num? = some k) (h1 : op ≠ .pow) (h2 : op ≠ .shl) :
    ∃ x y, a.num? = some x ∧ b.num? = some y ∧
      (match op with
       | .add => k.natAbs ≤ x.natAbs + y.natAbs
       | .sub => k.natAbs ≤ x.natAbs + y.natAbs
       | .mul => k.natAbs ≤ x.natAbs * y.natAbs
       | .floordiv => k.natAbs ≤ x.natAbs
       | .shr => k.natAbs ≤ x.natAbs
       | .mod => k.natAbs ≤ y.natAbs
       | .band => k.natAbs ≤ x.natAbs + y.natAbs
       | .bor => k.natAbs ≤ x.natAbs + y.natAbs
       | .bxor => k.natAbs ≤ x.natAbs + y.natAbs
       | .div => False
       | _ => True) := by
  cases hx : a.num? with
  | none =>
    exfalso; unfold applyBin at hr; split at hr
    · cases hr; simp [Val.num?] at hk
    · simp only [hx] at hr; cases hr
  | some x =>
  cases hy : b.num? with
  | none =>
    exfalso; unfold applyBin at hr; split at hr
    · cases hr; simp [Val.num?] at hk
    · simp only [hx, hy] at hr; cases hr
  | some y =>
  refine ⟨x, y, rfl, rfl, ?_⟩
  unfold applyBin at hr; split at hr
  · cases hr; simp [Val.num?] at hk
  · simp only [hx, hy] at hr
    cases op
    · cases hr; simp only [Val.num?, Option.some.injEq] at hk; subst hk; omega
    · cases hr; simp only [Val.num?, Option.some.injEq] at hk; subst hk; omega
    · cases hr; simp only [Val.num?, Option.some.injEq] at hk; subst hk
      simp [Int.natAbs_mul]
    · simp only at hr; split at hr
      · cases hr
      · cases hr; simp only [Val.num?, Option.some.injEq] at hk; subst hk
        exact Int.natAbs_fdiv_le_natAbs _ _
    · simp only at hr; split at hr
      · cases hr
      · cases hr; simp only [Val.num?, Option.some.injEq] at hk; subst hk
        exact natAbs_fmod_le _ _ (by assumption)
    · exact absurd rfl h1
    · exact absurd rfl h2
    · simp only at hr; split at hr
      · cases hr
      · cases hr; simp only [Val.num?, Option.some.injEq] at hk; subst hk
        exact Int.natAbs_fdiv_le_natAbs _ _
    · simp only [Except.ok.injEq] at hr; subst hr
      exact bitRes_bound (fun p q => by cases p <;> cases q <;> decide) natAbs_bitAnd_le hx hy hk
    · simp only [Except.ok.injEq] at hr; subst hr
      exact bitRes_bound (fun p q => by cases p <;> cases q <;> decide) natAbs_bitOr_le hx hy hk
    · simp only [Except.ok.injEq] at hr; subst hr
      exact bitRes_bound (fun p q => by cases p <;> cases q <;> decide) natAbs_bitXor_le hx hy hk
    · simp only at hr; split at hr
      · cases hr
      · split at hr <;> cases hr

theorem num?_natAbs_bool {b : Bool} {k : Int} (h : (Val.bool b).num? = some k) : k.natAbs ≤ 1 := by
  simp only [Val.num?, Option.some.injEq] at h
  subst h; cases b <;> simp

end Reduino.Lemmas.C11
