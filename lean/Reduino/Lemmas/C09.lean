import Reduino.Fw.ListHeap
/- helper lemmas for Props/C09.lean (individual Mathlib modules may be imported here) -/
namespace Reduino.Lemmas.C09
open Reduino.Fw.Heap

abbrev Vars := List (String × LVal)

/-- a list value is well formed w.r.t. the blocks: nullptr iff empty, else a live block of exactly its size -/
def WF (bs : List Block) (l : LVal) : Prop :=
  match l.data with
  | none => l.size = 0
  | some id => 0 < l.size ∧ ∃ b, bs[id]? = some b ∧ b.alive = true ∧ b.cells.length = l.size

def live (bs : List Block) : Nat := (bs.filter (·.alive)).length
def cnt (vs : Vars) : Nat := (vs.filter (fun p => p.2.data.isSome)).length

/-- the invariant of `Props/C09.lean` on the two components of the heap -/
structure InvP (bs : List Block) (vs : Vars) : Prop where
  nodup : (vs.map (·.1)).Nodup
  wf : ∀ x l, (x, l) ∈ vs → WF bs l
  nosh : ∀ x y lx ly id, (x, lx) ∈ vs → (y, ly) ∈ vs → lx.data = some id → ly.data = some id → x = y
  live : live bs = cnt vs

/-! ### variables -/

theorem lookup_of_mem {vs : Vars} {x : String} {l : LVal} (hn : (vs.map (·.1)).Nodup) (hm : (x, l) ∈ vs) :
    vs.lookup x = some l := by
  induction vs with
  | nil => cases hm
  | cons p vs ih =>
    obtain ⟨y, ly⟩ := p
    simp only [List.map_cons, List.nodup_cons] at hn
    rcases List.mem_cons.1 hm with h | h
    · cases h; simp [List.lookup]
    · have hne : x ≠ y := by rintro rfl; exact hn.1 (List.mem_map.2 ⟨_, h, rfl⟩)
      have hb : (x == y) = false := by simpa using hne
      simp [List.lookup, hb, ih hn.2 h]

theorem lookup_eq {bs : List Block} {vs : Vars} {x : String} {l : LVal} (hn : (vs.map (·.1)).Nodup)
    (hm : (x, l) ∈ vs) : lookup ⟨bs, vs⟩ x = l := by
  simp [lookup, lookup_of_mem hn hm]

theorem exists_of_declared {vs : Vars} {x : String} (h : x ∈ vs.map (·.1)) : ∃ l, (x, l) ∈ vs := by
  obtain ⟨⟨y, l⟩, hm, rfl⟩ := List.mem_map.1 h
  exact ⟨l, hm⟩

theorem filter_ne_self {vs : Vars} {x : String} (h : x ∉ vs.map (·.1)) : vs.filter (·.1 ≠ x) = vs := by
  rw [List.filter_eq_self]
  intro p hp
  have : p.1 ≠ x := by rintro rfl; exact h (List.mem_map.2 ⟨_, hp, rfl⟩)
  simpa using this

theorem not_mem_filter_ne (vs : Vars) (x : String) : x ∉ (vs.filter (·.1 ≠ x)).map (·.1) := by
  intro h
  obtain ⟨p, hp, rfl⟩ := List.mem_map.1 h
  simpa using (List.mem_filter.1 hp).2

theorem mem_of_mem_filter {vs : Vars} {x : String} {p : String × LVal} (h : p ∈ vs.filter (·.1 ≠ x)) :
    p ∈ vs ∧ p.1 ≠ x := by
  have := List.mem_filter.1 h
  exact ⟨this.1, by simpa using this.2⟩

theorem cnt_cons (y : String) (l : LVal) (vs : Vars) :
    cnt ((y, l) :: vs) = (if l.data.isSome then 1 else 0) + cnt vs := by
  unfold cnt
  rw [List.filter_cons]
  split <;> simp <;> omega

theorem cnt_filter_ne {vs : Vars} {x : String} {l : LVal} (hn : (vs.map (·.1)).Nodup) (hm : (x, l) ∈ vs) :
    cnt (vs.filter (·.1 ≠ x)) + (if l.data.isSome then 1 else 0) = cnt vs := by
  induction vs with
  | nil => cases hm
  | cons p vs ih =>
    obtain ⟨y, ly⟩ := p
    simp only [List.map_cons, List.nodup_cons] at hn
    rcases List.mem_cons.1 hm with h | h
    · cases h
      rw [List.filter_cons_of_neg (by simp), filter_ne_self hn.1, cnt_cons]
      omega
    · have hne : y ≠ x := by rintro rfl; exact hn.1 (List.mem_map.2 ⟨_, h, rfl⟩)
      rw [List.filter_cons_of_pos (by simpa using hne), cnt_cons, cnt_cons]
      have := ih hn.2 h
      omega

/-! ### blocks -/

theorem live_append (bs : List Block) (c : List Int) : live (bs ++ [⟨true, c⟩]) = live bs + 1 := by
  simp [live]

theorem live_set_dead {bs : List Block} {id : Nat} {b : Block} (h : bs[id]? = some b) (ha : b.alive = true) :
    live (bs.set id { b with alive := false }) + 1 = live bs := by
  induction bs generalizing id with
  | nil => simp at h
  | cons a bs ih =>
    cases id with
    | zero =>
      simp only [List.getElem?_cons_zero, Option.some.injEq] at h
      subst h
      simp [live, ha]
    | succ n =>
      simp only [List.getElem?_cons_succ] at h
      have := ih h
      simp only [live, List.set_cons_succ, List.filter_cons] at this ⊢
      split
      · simp only [List.length_cons]; omega
      · omega

theorem lt_of_getElem? {bs : List Block} {id : Nat} {b : Block} (h : bs[id]? = some b) : id < bs.length := by
  obtain ⟨h, _⟩ := List.getElem?_eq_some_iff.1 h
  exact h

/-- `free` of a valid pointer: explicit result, and it commutes with a later allocation -/
theorem free_append {bs bs1 : List Block} {vs vs1 : Vars} {p : Option Nat} (nb : Block)
    (h : free ⟨bs, vs⟩ p = .ok ⟨bs1, vs1⟩) :
    free ⟨bs ++ [nb], vs⟩ p = .ok ⟨bs1 ++ [nb], vs1⟩ ∧ bs1.length = bs.length := by
  cases p with
  | none =>
    simp only [free, Except.ok.injEq, Heap.mk.injEq] at h ⊢
    obtain ⟨rfl, rfl⟩ := h
    simp
  | some id =>
    simp only [free] at h ⊢
    cases hb : bs[id]? with
    | none => simp [hb] at h
    | some b =>
      have hlt := lt_of_getElem? hb
      rw [hb] at h
      rw [List.getElem?_append_left hlt, hb]
      simp only at h ⊢
      split at h
      · simp only [Except.ok.injEq, Heap.mk.injEq] at h
        obtain ⟨rfl, rfl⟩ := h
        rename_i ha
        simp [ha, List.set_append_left _ _ hlt]
      · cases h

theorem readAll_ok {bs : List Block} {vs : Vars} {l : LVal} (h : WF bs l) :
    ∃ cells, readAll ⟨bs, vs⟩ l = .ok cells ∧ cells.length = l.size := by
  unfold readAll
  split
  · rename_i h0; exact ⟨[], rfl, by simp [h0]⟩
  · rename_i h0
    unfold WF at h
    cases hd : l.data with
    | none => rw [hd] at h; exact absurd h h0
    | some id =>
      rw [hd] at h
      obtain ⟨_, b, hb, ha, hl⟩ := h
      simp only [hb, ha]
      refine ⟨b.cells.take l.size, by simp [hl], by simp [hl]⟩

/-! ### the three building blocks of every mutating helper -/

/-- release `x`'s buffer and forget `x` -/
theorem inv_free_drop {bs : List Block} {vs : Vars} {x : String} {lx : LVal} (hi : InvP bs vs) (hm : (x, lx) ∈ vs) :
    ∃ bs1, free ⟨bs, vs⟩ lx.data = .ok ⟨bs1, vs⟩ ∧ InvP bs1 (vs.filter (·.1 ≠ x)) := by
  have hnd : ((vs.filter (·.1 ≠ x)).map (·.1)).Nodup :=
    hi.nodup.sublist (List.Sublist.map _ (List.filter_sublist))
  have hc := cnt_filter_ne hi.nodup hm
  have hwf := hi.wf x lx hm
  unfold WF at hwf
  cases hd : lx.data with
  | none =>
    refine ⟨bs, rfl, hnd, ?_, ?_, ?_⟩
    · intro y l h; exact hi.wf y l (mem_of_mem_filter h).1
    · intro y z ly lz id hy hz; exact hi.nosh y z ly lz id (mem_of_mem_filter hy).1 (mem_of_mem_filter hz).1
    · rw [hd] at hc; simpa [hi.live] using hc.symm
  | some id =>
    rw [hd] at hwf hc
    obtain ⟨_, b, hb, ha, _⟩ := hwf
    refine ⟨bs.set id { b with alive := false }, by simp [free, hb, ha], hnd, ?_, ?_, ?_⟩
    · intro y l h
      obtain ⟨hy, hne⟩ := mem_of_mem_filter h
      have := hi.wf y l hy
      unfold WF at this ⊢
      cases hdl : l.data with
      | none => rw [hdl] at this; exact this
      | some id' =>
        rw [hdl] at this
        have hne' : id ≠ id' := by
          rintro rfl
          exact hne (hi.nosh y x l lx id hy hm hdl hd)
        simpa [List.getElem?_set_ne hne'] using this
    · intro y z ly lz id hy hz; exact hi.nosh y z ly lz id (mem_of_mem_filter hy).1 (mem_of_mem_filter hz).1
    · have := live_set_dead hb ha
      have h2 := hi.live
      simp only [Option.isSome_some, ↓reduceIte] at hc
      omega

/-- give the undeclared `x` a freshly allocated buffer -/
theorem inv_add_some {bs : List Block} {vs : Vars} {x : String} {cells : List Int} {n : Nat} (hi : InvP bs vs)
    (hx : x ∉ vs.map (·.1)) (hn : 0 < n) (hl : cells.length = n) :
    InvP (bs ++ [⟨true, cells⟩]) ((x, ⟨some bs.length, n⟩) :: vs) := by
  refine ⟨?_, ?_, ?_, ?_⟩
  · simpa [List.nodup_cons] using ⟨by simpa using hx, hi.nodup⟩
  · intro y l h
    rcases List.mem_cons.1 h with h | h
    · cases h
      exact ⟨hn, ⟨true, cells⟩, by simp, rfl, hl⟩
    · have := hi.wf y l h
      unfold WF at this ⊢
      cases hdl : l.data with
      | none => rw [hdl] at this; exact this
      | some id' =>
        rw [hdl] at this
        obtain ⟨h0, b, hb, hr⟩ := this
        exact ⟨h0, b, by rw [List.getElem?_append_left (lt_of_getElem? hb)]; exact hb, hr⟩
  · have key : ∀ y l, (y, l) ∈ vs → l.data ≠ some bs.length := by
      intro y l h hd
      have := hi.wf y l h
      unfold WF at this
      rw [hd] at this
      obtain ⟨_, b, hb, _⟩ := this
      exact absurd (lt_of_getElem? hb) (Nat.lt_irrefl _)
    intro y z ly lz id hy hz hdy hdz
    rcases List.mem_cons.1 hy with h1 | h1 <;> rcases List.mem_cons.1 hz with h2 | h2
    · cases h1; cases h2; rfl
    · cases h1; simp only at hdy; cases hdy; exact absurd hdz (key z lz h2)
    · cases h2; simp only at hdz; cases hdz; exact absurd hdy (key y ly h1)
    · exact hi.nosh y z ly lz id h1 h2 hdy hdz
  · rw [live_append, cnt_cons, hi.live]; simp; omega

/-- give the undeclared `x` the empty list -/
theorem inv_add_none {bs : List Block} {vs : Vars} {x : String} (hi : InvP bs vs) (hx : x ∉ vs.map (·.1)) :
    InvP bs ((x, ⟨none, 0⟩) :: vs) := by
  refine ⟨?_, ?_, ?_, ?_⟩
  · simpa [List.nodup_cons] using ⟨by simpa using hx, hi.nodup⟩
  · intro y l h
    rcases List.mem_cons.1 h with h | h
    · cases h; simp [WF]
    · exact hi.wf y l h
  · intro y z ly lz id hy hz hdy hdz
    rcases List.mem_cons.1 hy with h1 | h1 <;> rcases List.mem_cons.1 hz with h2 | h2
    · cases h1; cases h2; rfl
    · cases h1; simp at hdy
    · cases h2; simp at hdz
    · exact hi.nosh y z ly lz id h1 h2 hdy hdz
  · rw [cnt_cons, hi.live]; simp

/-! ### the steps of the owned discipline -/

def InvH (h : Heap) : Prop := InvP h.blocks h.vars

theorem inv_make_set {bs : List Block} {vs : Vars} {x : String} (cells : List Int)
    (hi : InvP bs (vs.filter (·.1 ≠ x))) :
    InvH (setVar (makeList ⟨bs, vs⟩ cells).1 x (makeList ⟨bs, vs⟩ cells).2) := by
  unfold InvH makeList
  by_cases hc : cells.isEmpty = true
  · simp only [hc, if_true, setVar]
    exact inv_add_none hi (not_mem_filter_ne vs x)
  · simp only [hc, alloc, setVar]
    refine inv_add_some hi (not_mem_filter_ne vs x) ?_ rfl
    cases cells with
    | nil => simp at hc
    | cons a t => simp

theorem step_declMake {bs : List Block} {vs : Vars} (x : String) (vals : List Int) (hi : InvP bs vs)
    (hx : x ∉ vs.map (·.1)) : ∃ o, step ⟨bs, vs⟩ (.declMake x vals) = .ok o ∧ InvH o.heap := by
  refine ⟨⟨setVar (makeList ⟨bs, vs⟩ vals).1 x (makeList ⟨bs, vs⟩ vals).2, none⟩, rfl, ?_⟩
  apply inv_make_set
  rw [filter_ne_self hx]; exact hi

theorem step_assignVar {bs : List Block} {vs : Vars} (x y : String) (hi : InvP bs vs)
    (hx : x ∈ vs.map (·.1)) (hy : y ∈ vs.map (·.1)) :
    ∃ o, step ⟨bs, vs⟩ (.assignVar x y) = .ok o ∧ InvH o.heap := by
  by_cases hxy : x = y
  · exact ⟨⟨⟨bs, vs⟩, none⟩, by simp [step, hxy], hi⟩
  · obtain ⟨lx, hmx⟩ := exists_of_declared hx
    obtain ⟨ly, hmy⟩ := exists_of_declared hy
    obtain ⟨bs1, hf, hi1⟩ := inv_free_drop hi hmx
    have hmy1 : (y, ly) ∈ vs.filter (·.1 ≠ x) :=
      List.mem_filter.2 ⟨hmy, by simpa using Ne.symm hxy⟩
    obtain ⟨cells, hr, _⟩ := readAll_ok (vs := vs) (hi1.wf y ly hmy1)
    refine ⟨⟨setVar (makeList ⟨bs1, vs⟩ cells).1 x (makeList ⟨bs1, vs⟩ cells).2, none⟩, ?_,
      inv_make_set cells hi1⟩
    simp only [step, hxy, if_false, assign, lookup_eq hi.nodup hmx, lookup_eq hi.nodup hmy, hf, bind,
      Except.bind, hr, pure, Except.pure]

theorem step_append {bs : List Block} {vs : Vars} (x : String) (v : Int) (hi : InvP bs vs)
    (hx : x ∈ vs.map (·.1)) : ∃ o, step ⟨bs, vs⟩ (.append x v) = .ok o ∧ InvH o.heap := by
  obtain ⟨lx, hmx⟩ := exists_of_declared hx
  obtain ⟨cells, hr, hl⟩ := readAll_ok (vs := vs) (hi.wf x lx hmx)
  obtain ⟨bs1, hf, hi1⟩ := inv_free_drop hi hmx
  obtain ⟨hf', hlen⟩ := free_append ⟨true, cells ++ [v]⟩ hf
  refine ⟨⟨⟨bs1 ++ [⟨true, cells ++ [v]⟩], (x, ⟨some bs.length, lx.size + 1⟩) :: vs.filter (·.1 ≠ x)⟩, none⟩,
    ?_, ?_⟩
  · simp only [step, lookup_eq hi.nodup hmx, hr, bind, Except.bind, alloc, hf', pure, Except.pure, setVar]
  · unfold InvH
    rw [← hlen]
    exact inv_add_some hi1 (not_mem_filter_ne vs x) (by omega) (by simp [hl])

theorem step_remove {bs : List Block} {vs : Vars} (x : String) (v : Int) (hi : InvP bs vs)
    (hx : x ∈ vs.map (·.1)) : ∃ o, step ⟨bs, vs⟩ (.remove x v) = .ok o ∧ InvH o.heap := by
  obtain ⟨lx, hmx⟩ := exists_of_declared hx
  by_cases h0 : lx.size = 0
  · exact ⟨⟨⟨bs, vs⟩, none⟩, by simp [step, lookup_eq hi.nodup hmx, h0, pure, Except.pure], hi⟩
  obtain ⟨cells, hr, hl⟩ := readAll_ok (vs := vs) (hi.wf x lx hmx)
  cases hk : cells.findIdx? (· = v) with
  | none =>
    exact ⟨⟨⟨bs, vs⟩, none⟩,
      by simp only [step, lookup_eq hi.nodup hmx, h0, if_false, hr, bind, Except.bind, hk, pure, Except.pure], hi⟩
  | some k =>
    have hklt : k < cells.length := by
      have := List.findIdx?_eq_some_iff_findIdx_eq.1 hk
      exact this.1
    obtain ⟨bs1, hf, hi1⟩ := inv_free_drop hi hmx
    by_cases h1 : lx.size > 1
    · obtain ⟨hf', hlen⟩ := free_append ⟨true, cells.eraseIdx k⟩ hf
      refine ⟨⟨⟨bs1 ++ [⟨true, cells.eraseIdx k⟩],
        (x, ⟨some bs.length, lx.size - 1⟩) :: vs.filter (·.1 ≠ x)⟩, none⟩, ?_, ?_⟩
      · simp only [step, lookup_eq hi.nodup hmx, h0, if_false, hr, bind, Except.bind, hk, h1, if_true, alloc, hf',
          pure, Except.pure, setVar]
      · unfold InvH
        rw [← hlen]
        refine inv_add_some hi1 (not_mem_filter_ne vs x) (by omega) ?_
        rw [List.length_eraseIdx, if_pos hklt]; omega
    · refine ⟨⟨⟨bs1, (x, ⟨none, 0⟩) :: vs.filter (·.1 ≠ x)⟩, none⟩, ?_, ?_⟩
      · simp only [step, lookup_eq hi.nodup hmx, h0, if_false, hr, bind, Except.bind, hk, h1, hf,
          pure, Except.pure, setVar]
      · exact inv_add_none hi1 (not_mem_filter_ne vs x)

theorem step_get {bs : List Block} {vs : Vars} (x : String) (i : Int) (hi : InvP bs vs)
    (hx : x ∈ vs.map (·.1))
    (hlo : -(Int.ofNat (lookup ⟨bs, vs⟩ x).size) ≤ i) (hhi : i < Int.ofNat (lookup ⟨bs, vs⟩ x).size) :
    ∃ c, step ⟨bs, vs⟩ (.get x i) = .ok ⟨⟨bs, vs⟩, some c⟩ := by
  obtain ⟨lx, hmx⟩ := exists_of_declared hx
  rw [lookup_eq hi.nodup hmx] at hlo hhi
  obtain ⟨cells, hr, hl⟩ := readAll_ok (vs := vs) (hi.wf x lx hmx)
  have hb : ¬ ((if i < 0 then i + Int.ofNat lx.size else i) < 0 ∨
      (if i < 0 then i + Int.ofNat lx.size else i) ≥ Int.ofNat lx.size) := by
    simp only [Int.ofNat_eq_natCast] at hlo hhi ⊢
    split <;> omega
  have hlt : (if i < 0 then i + Int.ofNat lx.size else i).toNat < cells.length := by
    simp only [Int.ofNat_eq_natCast] at hlo hhi ⊢
    split <;> omega
  refine ⟨cells[(if i < 0 then i + Int.ofNat lx.size else i).toNat], ?_⟩
  simp only [step, lookup_eq hi.nodup hmx, hb, if_false, hr, bind, Except.bind, pure, Except.pure,
    List.getElem?_eq_getElem hlt]

/-! ### tuple swap of two declared lists: the environment is the old one up to the renaming `x ↔ y` -/

/-- the name under which an entry of the swapped environment was bound before the swap -/
def swapName (x y n : String) : String := if n = x then y else if n = y then x else n

theorem swapName_invol (x y n : String) : swapName x y (swapName x y n) = n := by
  unfold swapName
  by_cases h1 : n = x
  · by_cases h2 : y = x <;> simp [h1, h2]
  · by_cases h2 : n = y
    · simp [h2]
    · simp [h1, h2]

theorem swapName_inj {x y n m : String} (h : swapName x y n = swapName x y m) : n = m := by
  rw [← swapName_invol x y n, h, swapName_invol]

theorem inv_swap {bs : List Block} {vs : Vars} {x y : String} {lx ly : LVal} (hi : InvP bs vs)
    (hmx : (x, lx) ∈ vs) (hmy : (y, ly) ∈ vs) (hxy : x ≠ y) :
    InvP bs ((y, lx) :: (x, ly) :: (vs.filter (·.1 ≠ x)).filter (·.1 ≠ y)) := by
  have hnd1 : ((vs.filter (·.1 ≠ x)).map (·.1)).Nodup :=
    hi.nodup.sublist (List.Sublist.map _ List.filter_sublist)
  have hnd2 : (((vs.filter (·.1 ≠ x)).filter (·.1 ≠ y)).map (·.1)).Nodup :=
    hnd1.sublist (List.Sublist.map _ List.filter_sublist)
  have orig : ∀ n l, (n, l) ∈ ((y, lx) :: (x, ly) :: (vs.filter (·.1 ≠ x)).filter (·.1 ≠ y)) →
      (swapName x y n, l) ∈ vs := by
    intro n l h
    rcases List.mem_cons.1 h with h | h
    · cases h; simpa [swapName, Ne.symm hxy] using hmx
    rcases List.mem_cons.1 h with h | h
    · cases h; simpa [swapName] using hmy
    · obtain ⟨h1, hny⟩ := mem_of_mem_filter h
      obtain ⟨h2, hnx⟩ := mem_of_mem_filter h1
      simp only at hnx hny
      simpa [swapName, hnx, hny] using h2
  refine ⟨?_, ?_, ?_, ?_⟩
  · simp only [List.map_cons, List.nodup_cons, List.mem_cons, not_or]
    refine ⟨⟨Ne.symm hxy, not_mem_filter_ne _ y⟩, ?_, hnd2⟩
    intro h
    exact not_mem_filter_ne vs x ((List.Sublist.map _ List.filter_sublist).subset h)
  · intro n l h; exact hi.wf _ l (orig n l h)
  · intro n m ln lm id hn hm hdn hdm
    exact swapName_inj (hi.nosh _ _ ln lm id (orig _ _ hn) (orig _ _ hm) hdn hdm)
  · have h1 := cnt_filter_ne hi.nodup hmx
    have hmy1 : (y, ly) ∈ vs.filter (·.1 ≠ x) := List.mem_filter.2 ⟨hmy, by simpa using Ne.symm hxy⟩
    have h2 := cnt_filter_ne hnd1 hmy1
    rw [cnt_cons, cnt_cons, hi.live]
    omega

/-- the swap never errs, keeps the invariant, touches no block, and exchanges the two values -/
theorem step_swap {bs : List Block} {vs : Vars} (x y : String) (hi : InvP bs vs)
    (hx : x ∈ vs.map (·.1)) (hy : y ∈ vs.map (·.1)) :
    ∃ o, step ⟨bs, vs⟩ (.swap x y) = .ok o ∧ InvH o.heap ∧ o.heap.blocks = bs ∧ o.value = none ∧
      lookup o.heap x = lookup ⟨bs, vs⟩ y ∧ lookup o.heap y = lookup ⟨bs, vs⟩ x := by
  by_cases hxy : x = y
  · exact ⟨⟨⟨bs, vs⟩, none⟩, by simp [step, hxy], hi, rfl, rfl, by rw [hxy], by rw [hxy]⟩
  · obtain ⟨lx, hmx⟩ := exists_of_declared hx
    obtain ⟨ly, hmy⟩ := exists_of_declared hy
    have hyx : ¬ (y = x) := fun h => hxy h.symm
    have hb : (x == y) = false := by simpa using hxy
    refine ⟨⟨⟨bs, (y, lx) :: (x, ly) :: (vs.filter (fun p => p.1 ≠ x)).filter (fun p => p.1 ≠ y)⟩, none⟩, ?_,
      (by exact inv_swap hi hmx hmy hxy), rfl, rfl, ?_, ?_⟩
    · simp only [step, hxy, if_false, lookup_eq hi.nodup hmx, lookup_eq hi.nodup hmy, setVar]
      rw [List.filter_cons_of_pos (by simpa using hxy)]
    · rw [lookup_eq hi.nodup hmy]
      simp [lookup, List.lookup, hb]
    · rw [lookup_eq hi.nodup hmx]
      simp [lookup, List.lookup]

end Reduino.Lemmas.C09
