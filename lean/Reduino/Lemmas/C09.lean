import Reduino.Fw.ListHeap
/- helper lemmas for Props/C09.lean (individual Mathlib modules may be imported here) -/
namespace Reduino.Lemmas.C09
end Reduino.Lemmas.C09
