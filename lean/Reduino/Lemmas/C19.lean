import Reduino.Lemmas.Field
import Reduino.Host.Led
import Reduino.Host.RGBLed
import Reduino.Host.Servo
import Reduino.Host.DCMotor
/- helper lemmas for Props/C19.lean -/
namespace Reduino.Lemmas.C19
end Reduino.Lemmas.C19
