import Reduino.Lemmas.Field
import Reduino.Host.Led
import Reduino.Host.RGBLed
import Reduino.Host.Servo
import Reduino.Host.DCMotor
import Mathlib.Tactic.NormNum
import Mathlib.Tactic.Positivity
import Mathlib.Algebra.BigOperators.Group.List.Basic
/- helper lemmas for Props/C19.lean -/
set_option linter.unusedSectionVars false
namespace Reduino.Lemmas.C19
open Reduino Reduino.Host

variable {K : Type} [Field K] [LinearOrder K] [IsStrictOrderedRing K] [FloorRing K]

/-! ## Numbers -/

theorem toF_int (n : Int) : (Val.int n : Val K).toF = (n : K) := rfl
theorem toF_flt (x : K) : (Val.flt x : Val K).toF = x := rfl

theorem lt_iff (a b : Val K) : Val.lt a b = true ↔ a.toF < b.toF := by
  cases a <;> cases b <;> simp only [Val.lt, decide_eq_true_eq]
  all_goals simp [Val.toF]

theorem le_iff (a b : Val K) : Val.le a b = true ↔ a.toF ≤ b.toF := by
  cases a <;> cases b <;> simp only [Val.le, decide_eq_true_eq]
  all_goals simp [Val.toF]

theorem lt_false_iff (a b : Val K) : Val.lt a b = false ↔ b.toF ≤ a.toF := by
  rw [← not_lt, ← lt_iff]; simp

theorem le_false_iff (a b : Val K) : Val.le a b = false ↔ b.toF < a.toF := by
  rw [← not_le, ← le_iff]; simp

theorem roundHEK_intCast (n : Int) : roundHEK (n : K) = n := by
  simp [roundHEK]

theorem floor_le_roundHEK (x : K) : ⌊x⌋ ≤ roundHEK x := by
  unfold roundHEK; simp only []; split_ifs <;> omega

theorem roundHEK_le_floor_add_one (x : K) : roundHEK x ≤ ⌊x⌋ + 1 := by
  unfold roundHEK; simp only []; split_ifs <;> omega

theorem roundHEK_mono {x y : K} (h : x ≤ y) : roundHEK x ≤ roundHEK y := by
  have hfg : ⌊x⌋ ≤ ⌊y⌋ := Int.floor_le_floor h
  rcases lt_or_eq_of_le hfg with hlt | heq
  · calc roundHEK x ≤ ⌊x⌋ + 1 := roundHEK_le_floor_add_one x
      _ ≤ ⌊y⌋ := hlt
      _ ≤ roundHEK y := floor_le_roundHEK y
  · have hxy : x - (⌊y⌋ : K) ≤ y - (⌊y⌋ : K) := by linarith
    unfold roundHEK; simp only []; rw [heq]
    split_ifs <;> first | omega | (exfalso; linarith)

theorem trunc_bounds {x : K} (h0 : 0 ≤ x) (h1 : x ≤ 255) :
    0 ≤ (Num.trunc x : Int) ∧ (Num.trunc x : Int) ≤ 255 := by
  rw [trunc_eq, if_pos h0]
  refine ⟨Int.floor_nonneg.mpr h0, ?_⟩
  have : ((⌊x⌋ : Int) : K) ≤ ((255 : Int) : K) := by
    have := Int.floor_le x
    push_cast; linarith
  exact Int.cast_le.mp this

/-- a validated brightness value converts to an int in 0..255 -/
theorem toInt_bounds {v : Val K} (h : Val.between (.int 0) v (.int 255) = true) :
    0 ≤ v.toInt ∧ v.toInt ≤ 255 := by
  cases v with
  | int n => simpa [Val.between, Val.le, Val.toInt] using h
  | flt x =>
    simp only [Val.between, Bool.and_eq_true, le_iff, toF_int, toF_flt] at h
    exact trunc_bounds (by simpa using h.1) (by simpa using h.2)

theorem nonneg_of_not_lt_zero {d : Val K} (h : ¬ Val.lt d (.int 0) = true) : 0 ≤ d.toF := by
  rw [lt_iff, not_lt, toF_int] at h
  simpa using h

theorem pos_of_not_le_zero {n : Int} (h : ¬ Val.le (.int n : Val K) (.int 0) = true) : 0 < n := by
  simpa [Val.le] using h

/-! ## Led -/

def LedInv (s : Led) : Prop := 0 ≤ s.brightness ∧ s.brightness ≤ 255 ∧ (s.state = true ↔ 0 < s.brightness)

theorem ledInv_setB {b : Int} (h0 : 0 ≤ b) (h1 : b ≤ 255) : LedInv (Led.setB b) := by
  simp [LedInv, Led.setB, h0, h1]

theorem ledInv_flashGo (delay : Val K) : ∀ (p : List (Val K)) (s : Led) (acc : List (Val K)),
    LedInv s → LedInv (Led.flashGo delay s p acc).st := by
  intro p
  induction p with
  | nil => intro s acc h; simpa [Led.flashGo] using h
  | cons e rest ih =>
    intro s acc h
    unfold Led.flashGo
    simp only []
    by_cases hbad : (!(Val.isZero e || (Val.le e (.int 1) && Val.le (.int 1) e)) &&
        !(Val.between (.int 0) e (.int 255))) = true
    · rw [if_pos hbad]; exact h
    · rw [if_neg hbad]
      have hs' : LedInv (if Val.isZero e = true then Led.setB 0
          else if (Val.le e (.int 1) && Val.le (.int 1) e) = true then Led.setB 255
          else Led.setB e.toInt) := by
        split_ifs with hz ho
        · exact ledInv_setB (by norm_num) (by norm_num)
        · exact ledInv_setB (by norm_num) (by norm_num)
        · have hb : Val.between (.int 0) e (.int 255) = true := by
            simp only [hz, ho] at hbad
            simpa using hbad
          exact ledInv_setB (toInt_bounds hb).1 (toInt_bounds hb).2
      cases rest with
      | nil => exact hs'
      | cons e' rest' => exact ih _ _ hs'

theorem ledInv_step (s : Led) (op : LedOp K) (h : LedInv s) : LedInv (Led.step s op).st := by
  have h255 : LedInv (Led.setB 255) := ledInv_setB (by norm_num) (by norm_num)
  have h0 : LedInv (Led.setB 0) := ledInv_setB (by norm_num) (by norm_num)
  cases op with
  | on => exact h255
  | off => exact h0
  | toggle => simp only [Led.step]; split_ifs <;> assumption
  | setBrightness v =>
    simp only [Led.step, Led.setBrightness]
    split_ifs with hb
    · exact ledInv_setB (toInt_bounds hb).1 (toInt_bounds hb).2
    · exact h
  | blink d times =>
    simp only [Led.step]
    split_ifs
    · exact h
    · exact h
    · cases times <;> first | exact h | exact h0
  | fadeIn stepv delay =>
    simp only [Led.step]
    split_ifs
    · exact h
    · exact h
    · cases stepv with
      | flt x => exact h
      | int k => simp only []; split_ifs <;> first | exact h | exact h255
  | fadeOut stepv delay =>
    simp only [Led.step]
    split_ifs
    · exact h
    · exact h
    · cases stepv with
      | flt x => exact h
      | int k => simp only []; split_ifs <;> first | exact h | exact h0
  | flashPattern p delay =>
    simp only [Led.step]
    split_ifs
    · exact h
    · exact ledInv_flashGo delay p s [] h

theorem ledInv_run (ops : List (LedOp K)) : LedInv (Led.run ops) := by
  unfold Led.run
  have : ∀ (ops : List (LedOp K)) (s : Led), LedInv s → LedInv (ops.foldl (fun s op => (Led.step s op).st) s) := by
    intro ops
    induction ops with
    | nil => intro s h; exact h
    | cons op rest ih => intro s h; exact ih _ (ledInv_step s op h)
  exact this ops _ (by simp [LedInv])

theorem led_atomic (s : Led) (op : LedOp K) (e : Exc)
    (hfp : ∀ p d, op ≠ .flashPattern p d) (h : (Led.step s op).res = .raise e) :
    (Led.step s op).st = s := by
  cases op with
  | on => cases h
  | off => cases h
  | toggle => cases h
  | setBrightness v =>
    simp only [Led.step, Led.setBrightness] at h ⊢
    split_ifs at h ⊢
    rfl
  | blink d times =>
    simp only [Led.step] at h ⊢
    split_ifs at h ⊢ <;> try rfl
    cases times with
    | flt x => rfl
    | int n => cases h
  | fadeIn stepv delay =>
    simp only [Led.step] at h ⊢
    split_ifs at h ⊢ <;> try rfl
    cases stepv with
    | flt x => rfl
    | int k => simp only [] at h ⊢; split_ifs at h ⊢; rfl
  | fadeOut stepv delay =>
    simp only [Led.step] at h ⊢
    split_ifs at h ⊢ <;> try rfl
    cases stepv with
    | flt x => rfl
    | int k => simp only [] at h ⊢; split_ifs at h ⊢; rfl
  | flashPattern p d => exact absurd rfl (hfp p d)

theorem led_blink_sleeps (s : Led) (d : Val K) (n : Int)
    (h : (Led.step s (.blink d (.int n))).res = .ok) :
    (Led.step s (.blink d (.int n))).sleeps = List.replicate (2 * n.toNat) d ∧ 0 < n := by
  simp only [Led.step] at h ⊢
  split_ifs at h ⊢ with h1 h2
  exact ⟨rfl, pos_of_not_le_zero h2⟩

/-! ## RGBLed -/

theorem interp_eq (cur goal i n : Int) : RGB.interp (α := K) cur goal i n =
    roundHEK ((cur : K) + (((goal - cur) * i : Int) : K) / (n : K)) := rfl

theorem component_ok {v : Val K} {n : Int} (h : RGB.component v = .ok n) : 0 ≤ n ∧ n ≤ 255 := by
  cases v with
  | flt x => simp [RGB.component] at h
  | int m =>
    simp only [RGB.component] at h
    split_ifs at h with hm
    cases h; exact hm

theorem triple_ok {r g b : Val K} {c : Color} (h : RGB.triple r g b = .ok c) :
    (0 ≤ c.1 ∧ c.1 ≤ 255) ∧ (0 ≤ c.2.1 ∧ c.2.1 ≤ 255) ∧ (0 ≤ c.2.2 ∧ c.2.2 ≤ 255) := by
  unfold RGB.triple at h
  cases hr : RGB.component r with
  | error e => simp [hr, bind, Except.bind] at h
  | ok r' =>
    cases hg : RGB.component g with
    | error e => simp [hr, hg, bind, Except.bind] at h
    | ok g' =>
      cases hb : RGB.component b with
      | error e => simp [hr, hg, hb, bind, Except.bind] at h
      | ok b' =>
        simp [hr, hg, hb, bind, Except.bind, pure, Except.pure] at h
        subst h
        exact ⟨component_ok hr, component_ok hg, component_ok hb⟩

def RGBInv (s : RGB) : Prop :=
  (0 ≤ s.color.1 ∧ s.color.1 ≤ 255) ∧ (0 ≤ s.color.2.1 ∧ s.color.2.1 ≤ 255) ∧
  (0 ≤ s.color.2.2 ∧ s.color.2.2 ≤ 255) ∧
  (s.state = true ↔ (s.color.1 ≠ 0 ∨ s.color.2.1 ≠ 0 ∨ s.color.2.2 ≠ 0))

theorem rgbInv_ofColor {c : Color}
    (h : (0 ≤ c.1 ∧ c.1 ≤ 255) ∧ (0 ≤ c.2.1 ∧ c.2.1 ≤ 255) ∧ (0 ≤ c.2.2 ∧ c.2.2 ≤ 255)) :
    RGBInv (RGB.ofColor c) := by
  obtain ⟨h1, h2, h3⟩ := h
  refine ⟨h1, h2, h3, ?_⟩
  simp only [RGB.ofColor, Bool.or_eq_true, decide_eq_true_eq]
  omega

theorem rgb_not_ok (s : RGB) (op : RGBOp K) (h : (RGB.step s op).res ≠ .ok) : (RGB.step s op).st = s := by
  cases op with
  | setColor r g b =>
    simp only [RGB.step] at h ⊢
    cases ht : RGB.triple r g b <;> simp only [ht] at h ⊢
    exact absurd rfl h
  | on r g b =>
    simp only [RGB.step] at h ⊢
    cases ht : RGB.triple r g b <;> simp only [ht] at h ⊢
    exact absurd rfl h
  | off => exact absurd rfl h
  | fade r g b d n =>
    simp only [RGB.step] at h ⊢
    cases ht : RGB.triple r g b <;> simp only [ht] at h ⊢ <;> split_ifs at h ⊢ <;> try rfl
    · exact absurd rfl h
    · cases n with
      | flt x => rfl
      | int k => exact absurd rfl h
  | blink r g b t d =>
    simp only [RGB.step] at h ⊢
    cases ht : RGB.triple r g b <;> simp only [ht] at h ⊢ <;> split_ifs at h ⊢ <;> try rfl
    cases t with
    | flt x => rfl
    | int k => exact absurd rfl h

theorem interp_zero (cur goal n : Int) : RGB.interp (α := K) cur goal 0 n = cur := by
  rw [interp_eq]; simp [roundHEK_intCast]

theorem interp_end (cur goal n : Int) (hn : 0 < n) : RGB.interp (α := K) cur goal n n = goal := by
  rw [interp_eq]
  have hn' : (n : K) ≠ 0 := by exact_mod_cast hn.ne'
  have : (cur : K) + (((goal - cur) * n : Int) : K) / (n : K) = (goal : K) := by
    push_cast; field_simp; ring
  rw [this, roundHEK_intCast]

theorem interp_mono_up (cur goal n : Int) (hn : 0 < n) (hcg : cur ≤ goal) {i j : Int} (hij : i ≤ j) :
    RGB.interp (α := K) cur goal i n ≤ RGB.interp (α := K) cur goal j n := by
  rw [interp_eq, interp_eq]
  apply roundHEK_mono
  have hn' : (0 : K) < (n : K) := by exact_mod_cast hn
  have : (((goal - cur) * i : Int) : K) ≤ (((goal - cur) * j : Int) : K) := by
    exact_mod_cast Int.mul_le_mul_of_nonneg_left hij (by omega)
  have := div_le_div_of_nonneg_right this hn'.le
  linarith

theorem interp_mono_down (cur goal n : Int) (hn : 0 < n) (hcg : goal ≤ cur) {i j : Int} (hij : i ≤ j) :
    RGB.interp (α := K) cur goal j n ≤ RGB.interp (α := K) cur goal i n := by
  rw [interp_eq, interp_eq]
  apply roundHEK_mono
  have hn' : (0 : K) < (n : K) := by exact_mod_cast hn
  have : (((goal - cur) * j : Int) : K) ≤ (((goal - cur) * i : Int) : K) := by
    exact_mod_cast Int.mul_le_mul_of_nonpos_left (by omega) hij
  have := div_le_div_of_nonneg_right this hn'.le
  linarith

theorem fadeColor_end (c t : Color) (n : Int) (hn : 0 < n) : RGB.fadeColor (α := K) c t n n = t := by
  simp [RGB.fadeColor, interp_end _ _ _ hn]

theorem fade_spec (s : RGB) (r g b d n : Val K) (h : (RGB.step s (.fade r g b d n)).res = .ok) :
    ∃ t, RGB.triple r g b = .ok t ∧ 0 ≤ d.toF ∧ (RGB.step s (.fade r g b d n)).st = RGB.ofColor t ∧
      (((Val.isZero d = true ∨ s.color = t) ∧ (RGB.step s (.fade r g b d n)).trace = [t] ∧
          (RGB.step s (.fade r g b d n)).sleeps = []) ∨
       (Val.isZero d = false ∧ s.color ≠ t ∧ ∃ k : Int, n = .int k ∧ 0 < k ∧
          (RGB.step s (.fade r g b d n)).trace =
            (List.range k.toNat).map (fun j => RGB.fadeColor (α := K) s.color t (Int.ofNat (j + 1)) k) ∧
          (RGB.step s (.fade r g b d n)).sleeps = List.replicate (k.toNat - 1) (.flt (d.toF / (k : K))))) := by
  simp only [RGB.step] at h ⊢
  cases ht : RGB.triple r g b <;> simp only [ht] at h ⊢ <;> split_ifs at h ⊢ <;>
    try (cases h; done)
  · rename_i t h1 h2 h3
    refine ⟨t, rfl, nonneg_of_not_lt_zero h1, rfl, Or.inl ⟨?_, rfl, rfl⟩⟩
    simpa using h3
  · rename_i t h1 h2 h3
    cases n with
    | flt x => cases h
    | int k =>
      have hk : 0 < k := pos_of_not_le_zero h2
      simp only [Bool.or_eq_true, beq_iff_eq, not_or, Bool.not_eq_true] at h3
      refine ⟨t, rfl, nonneg_of_not_lt_zero h1, ?_, Or.inr ⟨h3.1, h3.2, k, rfl, hk, rfl, rfl⟩⟩
      simp only []
      congr 1
      obtain ⟨m, hm⟩ : ∃ m : Nat, k.toNat = m + 1 := ⟨k.toNat - 1, by omega⟩
      rw [hm, List.range_succ, List.map_append, List.map_singleton, List.getLastD_concat]
      have : Int.ofNat (m + 1) = k := by simp only [Int.ofNat_eq_natCast]; omega
      rw [this]
      exact fadeColor_end _ _ _ hk

theorem pairwise_cons_map_range {β : Type} (R : β → β → Prop) (g : Nat → β) (x0 : β)
    (h0 : ∀ j, R x0 (g j)) (hm : ∀ i j, i < j → R (g i) (g j)) (m : Nat) :
    List.Pairwise R (x0 :: (List.range m).map g) := by
  rw [List.pairwise_cons, List.pairwise_map]
  refine ⟨?_, List.pairwise_lt_range.imp (fun {a b} hab => hm a b hab)⟩
  intro x hx
  obtain ⟨j, _, rfl⟩ := List.mem_map.mp hx
  exact h0 j

def MonoChan (f : Color → Int) (l : List Color) : Prop :=
  List.Pairwise (fun a b => f a ≤ f b) l ∨ List.Pairwise (fun a b => f b ≤ f a) l

theorem monoChan_pair (f : Color → Int) (a b : Color) : MonoChan f [a, b] := by
  rcases le_total (f a) (f b) with h | h
  · left; simp [h]
  · right; simp [h]

theorem monoChan_interp (f : Color → Int) (c0 : Color) (cols : Nat → Color) (cur goal n : Int) (hn : 0 < n)
    (hf0 : f c0 = cur) (hf : ∀ j, f (cols j) = RGB.interp (α := K) cur goal (Int.ofNat (j + 1)) n) (m : Nat) :
    MonoChan f (c0 :: (List.range m).map cols) := by
  have h0 : f c0 = RGB.interp (α := K) cur goal 0 n := by rw [interp_zero, hf0]
  rcases le_total cur goal with hcg | hcg
  · left
    apply pairwise_cons_map_range
    · intro j; rw [h0, hf]; exact interp_mono_up _ _ _ hn hcg (by simp only [Int.ofNat_eq_natCast]; omega)
    · intro i j hij; rw [hf, hf]
      exact interp_mono_up _ _ _ hn hcg (by simp only [Int.ofNat_eq_natCast]; omega)
  · right
    apply pairwise_cons_map_range
    · intro j; rw [h0, hf]; exact interp_mono_down _ _ _ hn hcg (by simp only [Int.ofNat_eq_natCast]; omega)
    · intro i j hij; rw [hf, hf]
      exact interp_mono_down _ _ _ hn hcg (by simp only [Int.ofNat_eq_natCast]; omega)

theorem rgb_fade_monotone (s : RGB) (r g b d n : Val K)
    (h : (RGB.step s (.fade r g b d n)).res = .ok) :
    let l := s.color :: (RGB.step s (.fade r g b d n)).trace
    MonoChan (·.1) l ∧ MonoChan (·.2.1) l ∧ MonoChan (·.2.2) l := by
  obtain ⟨t, _, _, _, hc⟩ := fade_spec s r g b d n h
  intro l
  rcases hc with ⟨_, htr, _⟩ | ⟨_, _, k, _, hk, htr, _⟩
  · simp only [l, htr]
    exact ⟨monoChan_pair _ _ _, monoChan_pair _ _ _, monoChan_pair _ _ _⟩
  · simp only [l, htr]
    exact ⟨monoChan_interp (K := K) _ _ _ s.color.1 t.1 k hk rfl (fun _ => rfl) _,
      monoChan_interp (K := K) _ _ _ s.color.2.1 t.2.1 k hk rfl (fun _ => rfl) _,
      monoChan_interp (K := K) _ _ _ s.color.2.2 t.2.2 k hk rfl (fun _ => rfl) _⟩

theorem sum_replicate_toF (m : Nat) (x : K) :
    ((List.replicate m (Val.flt x)).map Val.toF).sum = (m : K) * x := by
  simp [List.map_replicate, List.sum_replicate, toF_flt]

theorem rgb_fade_sleep_le (s : RGB) (r g b d n : Val K)
    (h : (RGB.step s (.fade r g b d n)).res = .ok) :
    (((RGB.step s (.fade r g b d n)).sleeps.map Val.toF).sum : K) ≤ d.toF := by
  obtain ⟨t, _, hd, _, hc⟩ := fade_spec s r g b d n h
  rcases hc with ⟨_, _, hsl⟩ | ⟨_, _, k, _, hk, _, hsl⟩
  · rw [hsl]; simpa using hd
  · rw [hsl, sum_replicate_toF]
    have hk' : (0 : K) < (k : K) := by exact_mod_cast hk
    have hm : ((k.toNat - 1 : Nat) : K) ≤ (k : K) := by
      have : ((k.toNat - 1 : Nat) : Int) ≤ k := by omega
      exact_mod_cast this
    rw [mul_div_assoc', div_le_iff₀ hk']
    nlinarith [mul_le_mul_of_nonneg_right hm hd]

theorem rgb_inv_step (s : RGB) (op : RGBOp K) (h : RGBInv s) : RGBInv (RGB.step s op).st := by
  by_cases hok : (RGB.step s op).res = .ok
  swap
  · rw [rgb_not_ok s op hok]; exact h
  cases op with
  | setColor r g b =>
    simp only [RGB.step] at hok ⊢
    cases ht : RGB.triple r g b <;> simp only [ht] at hok ⊢
    · cases hok
    · exact rgbInv_ofColor (triple_ok ht)
  | on r g b =>
    simp only [RGB.step] at hok ⊢
    cases ht : RGB.triple r g b <;> simp only [ht] at hok ⊢
    · cases hok
    · exact rgbInv_ofColor (triple_ok ht)
  | off => exact rgbInv_ofColor (by simp)
  | fade r g b d n =>
    obtain ⟨t, ht, _, hst, _⟩ := fade_spec s r g b d n hok
    rw [hst]; exact rgbInv_ofColor (triple_ok ht)
  | blink r g b t d =>
    have : (RGB.step s (.blink r g b t d)).st = RGB.ofColor s.color := by
      simp only [RGB.step] at hok ⊢
      cases ht : RGB.triple r g b <;> simp only [ht] at hok ⊢ <;> split_ifs at hok ⊢
      cases t with
      | flt x => cases hok
      | int k => rfl
    rw [this]; exact rgbInv_ofColor ⟨h.1, h.2.1, h.2.2.1⟩

theorem rgb_inv_run (ops : List (RGBOp K)) : RGBInv (RGB.run ops) := by
  unfold RGB.run
  have : ∀ (ops : List (RGBOp K)) (s : RGB), RGBInv s → RGBInv (ops.foldl (fun s op => (RGB.step s op).st) s) := by
    intro ops
    induction ops with
    | nil => intro s h; exact h
    | cons op rest ih => intro s h; exact ih _ (rgb_inv_step s op h)
  exact this ops _ (by simp [RGBInv])

theorem rgb_blink_restores (s : RGB) (r g b t d : Val K)
    (h : (RGB.step s (.blink r g b t d)).res = .ok) :
    (RGB.step s (.blink r g b t d)).st.color = s.color ∧
    ∃ n : Int, t = .int n ∧ 0 < n ∧
      (RGB.step s (.blink r g b t d)).sleeps = List.replicate (2 * n.toNat) d := by
  simp only [RGB.step] at h ⊢
  cases ht : RGB.triple r g b <;> simp only [ht] at h ⊢ <;> split_ifs at h ⊢ with h1 h2
  cases t with
  | flt x => cases h
  | int k => exact ⟨rfl, k, rfl, pos_of_not_le_zero h1, rfl⟩


theorem rgb_fade_target (s : RGB) (r g b d n : Val K) (t : Color)
    (ht : RGB.triple r g b = .ok t) (h : (RGB.step s (.fade r g b d n)).res = .ok) :
    (RGB.step s (.fade r g b d n)).st.color = t := by
  obtain ⟨t', ht', _, hst, _⟩ := fade_spec s r g b d n h
  rw [ht] at ht'; cases ht'
  rw [hst]; rfl

theorem rgb_fade_steps (s : RGB) (r g b d : Val K) (n : Int) (t : Color)
    (ht : RGB.triple r g b = .ok t) (h : (RGB.step s (.fade r g b d (.int n))).res = .ok)
    (hd : Val.isZero d = false) (hne : s.color ≠ t) :
    (RGB.step s (.fade r g b d (.int n))).trace.length = n.toNat ∧ 0 < n := by
  obtain ⟨t', ht', _, _, hc⟩ := fade_spec s r g b d (.int n) h
  rw [ht] at ht'; cases ht'
  rcases hc with ⟨hz, _, _⟩ | ⟨_, _, k, hnk, hk, htr, _⟩
  · rcases hz with hz | hz
    · rw [hd] at hz; cases hz
    · exact absurd hz hne
  · cases hnk
    rw [htr]; simp [hk]

/-! ## Servo -/

def ServoInv (s : Servo K) : Prop :=
  s.minA < s.maxA ∧ s.minP < s.maxP ∧
  s.minA ≤ s.angle ∧ s.angle ≤ s.maxA ∧ s.minP ≤ s.pulse ∧ s.pulse ≤ s.maxP ∧
  s.pulse = s.angleToPulse s.angle ∧ s.angle = s.pulseToAngle s.pulse

/-- the affine map of `[a0,a1]` onto `[p0,p1]` and its inverse -/
theorem affine_map {a0 a1 p0 p1 a : K} (ha : a0 < a1) (hp : p0 < p1) (h0 : a0 ≤ a) (h1 : a ≤ a1) :
    p0 ≤ p0 + (a - a0) / (a1 - a0) * (p1 - p0) ∧ p0 + (a - a0) / (a1 - a0) * (p1 - p0) ≤ p1 ∧
    a = a0 + (p0 + (a - a0) / (a1 - a0) * (p1 - p0) - p0) / (p1 - p0) * (a1 - a0) := by
  have hA : 0 < a1 - a0 := sub_pos.mpr ha
  have hP : 0 < p1 - p0 := sub_pos.mpr hp
  have hf0 : 0 ≤ (a - a0) / (a1 - a0) := div_nonneg (sub_nonneg.mpr h0) hA.le
  have hf1 : (a - a0) / (a1 - a0) ≤ 1 := by rw [div_le_one hA]; linarith
  refine ⟨?_, ?_, ?_⟩
  · nlinarith [mul_nonneg hf0 hP.le]
  · nlinarith [mul_le_mul_of_nonneg_right hf1 hP.le]
  · field_simp; ring

theorem servo_inv_create (a b c d : Val K) (s : Servo K) (h : Servo.create a b c d = .ok s) :
    ServoInv s := by
  simp only [Servo.create] at h
  split_ifs at h with h1 h2
  cases h
  have hA : a.toF < b.toF := by rw [← le_false_iff]; simpa using h1
  have hP : c.toF < d.toF := by rw [← le_false_iff]; simpa using h2
  refine ⟨hA, hP, le_refl _, hA.le, le_refl _, hP.le, ?_, ?_⟩ <;>
    simp [Servo.angleToPulse, Servo.pulseToAngle]

theorem servo_inv_step (s : Servo K) (op : ServoOp K) (h : ServoInv s) :
    ServoInv (Servo.step s op).1 := by
  obtain ⟨hA, hP, h3, h4, h5, h6, h7, h8⟩ := h
  cases op with
  | write a =>
    simp only [Servo.step]
    split_ifs with hb
    · simp only [Val.between, Bool.and_eq_true, le_iff, toF_flt] at hb
      obtain ⟨q1, q2, q3⟩ := affine_map hA hP hb.1 hb.2
      exact ⟨hA, hP, hb.1, hb.2, q1, q2, rfl, q3⟩
    · exact ⟨hA, hP, h3, h4, h5, h6, h7, h8⟩
  | writeUs p =>
    simp only [Servo.step]
    split_ifs with hb
    · simp only [Val.between, Bool.and_eq_true, le_iff, toF_flt] at hb
      obtain ⟨q1, q2, q3⟩ := affine_map hP hA hb.1 hb.2
      exact ⟨hA, hP, q1, q2, hb.1, hb.2, q3, rfl⟩
    · exact ⟨hA, hP, h3, h4, h5, h6, h7, h8⟩

theorem servo_inv_run (s : Servo K) (ops : List (ServoOp K)) (h : ServoInv s) :
    ServoInv (Servo.run s ops) := by
  unfold Servo.run
  induction ops generalizing s with
  | nil => exact h
  | cons op rest ih => exact ih _ (servo_inv_step s op h)

theorem servo_roundtrip (s : Servo K) (v : Val K) :
    ((Servo.step s (.write v)).2 = .ok → (Servo.step s (.write v)).1.angle = v.toF) ∧
    ((Servo.step s (.writeUs v)).2 = .ok → (Servo.step s (.writeUs v)).1.pulse = v.toF) := by
  constructor <;> intro h <;> simp only [Servo.step] at h ⊢ <;> split_ifs at h ⊢ <;> rfl

theorem servo_atomic (s : Servo K) (op : ServoOp K) (e : Exc) (h : (Servo.step s op).2 = .raise e) :
    (Servo.step s op).1 = s := by
  cases op <;> simp only [Servo.step] at h ⊢ <;> split_ifs at h ⊢ <;> rfl

/-! ## DCMotor -/

def MotorInv (s : Motor K) : Prop :=
  (-1 : K) ≤ s.speed ∧ s.speed ≤ 1 ∧
  s.applied = (if s.inverted then -s.speed else s.speed) ∧
  (s.mode = .drive ↔ s.applied ≠ 0)

/-- the shape of `mode` after any `_apply_speed` -/
def ModeLaw (s : Motor K) : Prop := s.mode = if s.applied ≠ 0 then .drive else .coast

theorem zero_eq : (Motor.zero : K) = 0 := by simp [Motor.zero]
theorem one_eq : (Motor.one : K) = 1 := by simp [Motor.one]

theorem clamp_eq (v : Val K) :
    Motor.clamp v = if 1 < v.toF then 1 else if v.toF < -1 then -1 else v.toF := by
  simp only [Motor.clamp, one_eq]

theorem clamp_bounds (v : Val K) : (-1 : K) ≤ Motor.clamp v ∧ Motor.clamp v ≤ 1 := by
  rw [clamp_eq]; split_ifs <;> constructor <;> linarith

theorem clamp_id {x : K} (h0 : -1 ≤ x) (h1 : x ≤ 1) : Motor.clamp (.flt x) = x := by
  rw [clamp_eq, toF_flt, if_neg (not_lt.mpr h1), if_neg (not_lt.mpr h0)]

theorem clamp_mono {x y : K} (h : x ≤ y) : Motor.clamp (.flt x) ≤ Motor.clamp (.flt y) := by
  rw [clamp_eq, clamp_eq, toF_flt, toF_flt]
  split_ifs <;> linarith

theorem apply_mode (s : Motor K) (sp : K) :
    (Motor.apply s sp).mode = if (Motor.apply s sp).applied ≠ 0 then .drive else .coast := by
  simp only [Motor.apply, zero_eq]
  by_cases h : (if s.inverted = true then -sp else sp) = 0
  · simp [h]
  · rcases lt_or_gt_of_ne h with h' | h' <;> simp [h, h', not_lt.mpr h'.le]

theorem motorInv_apply (s : Motor K) (sp : K) (hs : s.speed = sp) (h0 : -1 ≤ sp) (h1 : sp ≤ 1) :
    MotorInv (Motor.apply s sp) := by
  refine ⟨?_, ?_, ?_, ?_⟩
  · show -1 ≤ s.speed; rw [hs]; exact h0
  · show s.speed ≤ 1; rw [hs]; exact h1
  · show (if s.inverted = true then -sp else sp) = if s.inverted = true then -s.speed else s.speed
    rw [hs]
  · rw [apply_mode]; split_ifs with h <;> simp [h]

theorem setSpeed_speed (s : Motor K) (v : Val K) : (Motor.setSpeed s v).speed = Motor.clamp v := rfl

theorem motorInv_setSpeed (s : Motor K) (v : Val K) : MotorInv (Motor.setSpeed s v) :=
  motorInv_apply _ _ rfl (clamp_bounds v).1 (clamp_bounds v).2

theorem modeLaw_setSpeed (s : Motor K) (v : Val K) : ModeLaw (Motor.setSpeed s v) := apply_mode _ _

theorem rampGo_succ (start stepv : K) (delay : Val K) (k : Nat) (s : Motor K) (sl : List (Val K)) (tr : List K) :
    Motor.rampGo start stepv delay (k + 1) s sl tr =
      Motor.rampGo start stepv delay k (Motor.setSpeed s (.flt (start + stepv * ((20 - k : Nat) : K))))
        (if Val.lt (.int 0) delay = true then delay :: sl else sl)
        (Motor.clamp (.flt (start + stepv * ((20 - k : Nat) : K))) :: tr) := by
  simp [Motor.rampGo, Motor.rampSteps, setSpeed_speed]

theorem rampGo_pred (P : Motor K → Prop) (hP : ∀ s v, P (Motor.setSpeed s v)) (start stepv : K) (delay : Val K) :
    ∀ (k : Nat) (s : Motor K) (sl : List (Val K)) (tr : List K), P s →
      P (Motor.rampGo start stepv delay k s sl tr).1 := by
  intro k
  induction k with
  | zero => intro s sl tr h; exact h
  | succ k ih => intro s sl tr _; rw [rampGo_succ]; exact ih _ _ _ (hP _ _)

theorem rampGo_spec (start stepv : K) (delay : Val K) :
    ∀ (k m : Nat) (s : Motor K) (sl : List (Val K)) (tr : List K), k + m = 20 →
      (Motor.rampGo start stepv delay k s sl tr).2.1 =
        sl.reverse ++ (if Val.lt (.int 0) delay = true then List.replicate k delay else []) ∧
      (Motor.rampGo start stepv delay k s sl tr).2.2 =
        tr.reverse ++ (List.range k).map (fun j => Motor.clamp (.flt (start + stepv * ((m + 1 + j : Nat) : K)))) ∧
      (Motor.rampGo start stepv delay k s sl tr).1.speed =
        if k = 0 then s.speed else Motor.clamp (.flt (start + stepv * 20)) := by
  intro k
  induction k with
  | zero => intro m s sl tr _; simp [Motor.rampGo]
  | succ k ih =>
    intro m s sl tr hkm
    rw [rampGo_succ]
    obtain ⟨h1, h2, h3⟩ := ih (m + 1) (Motor.setSpeed s (.flt (start + stepv * ((20 - k : Nat) : K))))
      (if Val.lt (.int 0) delay = true then delay :: sl else sl)
      (Motor.clamp (.flt (start + stepv * ((20 - k : Nat) : K))) :: tr) (by omega)
    have hm : 20 - k = m + 1 := by omega
    refine ⟨?_, ?_, ?_⟩
    · rw [h1]; split_ifs <;> simp [List.replicate_succ]
    · rw [h2, List.range_succ_eq_map, hm]
      simp only [List.reverse_cons, List.append_assoc, List.singleton_append, List.map_cons, List.map_map,
        Nat.add_zero]
      congr 2
      apply List.map_congr_left
      intro j _
      simp only [Function.comp, Nat.succ_eq_add_one]
      congr 5
      omega
    · rw [h3, setSpeed_speed, hm]
      by_cases hk : k = 0
      · have : m + 1 = 20 := by omega
        simp [hk, this]
      · simp [hk]

theorem motorInv_init : MotorInv (Motor.init : Motor K) := by
  simp [MotorInv, Motor.init, zero_eq]

theorem ramp_st (s : Motor K) (t d : Val K) (h : ¬ Val.lt d (.int 0) = true) :
    Motor.step s (.ramp t d) =
      { st := (Motor.rampGo s.speed ((Motor.clamp t - s.speed) / 20) (.flt (d.toF / 20)) 20 s [] []).1,
        res := .ok,
        sleeps := (Motor.rampGo s.speed ((Motor.clamp t - s.speed) / 20) (.flt (d.toF / 20)) 20 s [] []).2.1,
        trace := (Motor.rampGo s.speed ((Motor.clamp t - s.speed) / 20) (.flt (d.toF / 20)) 20 s [] []).2.2 } := by
  simp [Motor.step, h, Motor.rampSteps, Val.div, toF_int]

theorem motor_inv_step (s : Motor K) (op : MotorOp K) (h : MotorInv s) :
    MotorInv (Motor.step s op).st := by
  cases op with
  | setSpeed v => exact motorInv_setSpeed _ _
  | backward v => exact motorInv_setSpeed _ _
  | stop => simp [MotorInv, Motor.step, zero_eq]
  | coast => simp [MotorInv, Motor.step, zero_eq]
  | invert => exact motorInv_apply _ _ rfl h.1 h.2.1
  | ramp t d =>
    by_cases hd : Val.lt d (.int 0) = true
    · simp only [Motor.step, if_pos hd]; exact h
    · rw [ramp_st s t d hd]
      exact rampGo_pred MotorInv motorInv_setSpeed _ _ _ _ _ _ _ h
  | runFor d v =>
    simp only [Motor.step]
    split_ifs
    · exact h
    · simp [MotorInv, zero_eq]

theorem motor_inv_run (ops : List (MotorOp K)) : MotorInv (Motor.run ops) := by
  unfold Motor.run
  have : ∀ (ops : List (MotorOp K)) (s : Motor K), MotorInv s →
      MotorInv (ops.foldl (fun s op => (Motor.step s op).st) s) := by
    intro ops
    induction ops with
    | nil => intro s h; exact h
    | cons op rest ih => intro s h; exact ih _ (motor_inv_step s op h)
  exact this ops _ motorInv_init

theorem motor_mode_law (s : Motor K) (op : MotorOp K) (_h : MotorInv s)
    (hok : (Motor.step s op).res = .ok) :
    (Motor.step s op).st.mode =
      if (Motor.step s op).st.applied ≠ 0 then .drive
      else match op with
        | .stop => .brake
        | .runFor _ _ => .brake
        | _ => .coast := by
  cases op with
  | setSpeed v => exact modeLaw_setSpeed _ _
  | backward v => exact modeLaw_setSpeed _ _
  | stop => simp [Motor.step, zero_eq]
  | coast => simp [Motor.step, zero_eq]
  | invert => exact apply_mode _ _
  | ramp t d =>
    by_cases hd : Val.lt d (.int 0) = true
    · simp only [Motor.step, if_pos hd] at hok; cases hok
    · rw [ramp_st s t d hd]
      rw [rampGo_succ]
      exact rampGo_pred ModeLaw modeLaw_setSpeed _ _ _ _ _ _ _ (modeLaw_setSpeed _ _)
  | runFor d v =>
    by_cases hd : Val.lt d (.int 0) = true
    · simp only [Motor.step, if_pos hd] at hok; cases hok
    · simp [Motor.step, hd, zero_eq]

theorem motor_atomic (s : Motor K) (op : MotorOp K) (e : Exc) (h : (Motor.step s op).res = .raise e) :
    (Motor.step s op).st = s := by
  cases op with
  | setSpeed v => cases h
  | backward v => cases h
  | stop => cases h
  | coast => cases h
  | invert => cases h
  | ramp t d =>
    by_cases hd : Val.lt d (.int 0) = true
    · simp only [Motor.step, if_pos hd]
    · rw [ramp_st s t d hd] at h; cases h
  | runFor d v =>
    simp only [Motor.step] at h ⊢
    split_ifs at h ⊢
    rfl

theorem motor_invert_involution (s : Motor K) (h : MotorInv s) :
    let s2 := (Motor.step (Motor.step s .invert).st .invert).st
    s2.inverted = s.inverted ∧ s2.speed = s.speed ∧ s2.applied = s.applied := by
  obtain ⟨_, _, ha, _⟩ := h
  simp only [Motor.step, Motor.apply, Bool.not_not]
  exact ⟨trivial, trivial, ha.symm⟩

theorem motor_run_for (s : Motor K) (d v : Val K) (hok : (Motor.step s (.runFor d v)).res = .ok) :
    let o := Motor.step s (.runFor d v)
    o.st.mode = .brake ∧ o.st.speed = 0 ∧ o.st.applied = 0 ∧ o.sleeps = [d] := by
  simp only [Motor.step] at hok ⊢
  split_ifs at hok ⊢
  simp [zero_eq]

theorem motor_ramp (s : Motor K) (t d : Val K) (h : MotorInv s)
    (hok : (Motor.step s (.ramp t d)).res = .ok) :
    let o := Motor.step s (.ramp t d)
    o.st.speed = Motor.clamp t ∧ o.trace.length = 20 ∧
    (List.Pairwise (· ≤ ·) (s.speed :: o.trace) ∨ List.Pairwise (· ≥ ·) (s.speed :: o.trace)) ∧
    ((o.sleeps.map Val.toF).sum : K) ≤ d.toF := by
  by_cases hd : Val.lt d (.int 0) = true
  · simp only [Motor.step, if_pos hd] at hok; cases hok
  have hd0 : 0 ≤ d.toF := nonneg_of_not_lt_zero hd
  obtain ⟨ha0, ha1, _, _⟩ := h
  obtain ⟨hT0, hT1⟩ := clamp_bounds t
  intro o
  have ho : o = _ := ramp_st s t d hd
  obtain ⟨hsl, htr, hsp⟩ := rampGo_spec s.speed ((Motor.clamp t - s.speed) / 20) (.flt (d.toF / 20)) 20 0 s [] [] rfl
  rw [ho]
  simp only []
  rw [hsl, htr, hsp]
  refine ⟨?_, by simp, ?_, ?_⟩
  · have : s.speed + (Motor.clamp t - s.speed) / 20 * 20 = Motor.clamp t := by field_simp; ring
    rw [if_neg (by norm_num), this, clamp_id hT0 hT1]
  · have hs0 : s.speed = Motor.clamp (.flt (s.speed + (Motor.clamp t - s.speed) / 20 * ((0 : Nat) : K))) := by
      rw [Nat.cast_zero, mul_zero, add_zero, clamp_id ha0 ha1]
    simp only [List.reverse_nil, List.nil_append]
    rcases le_total s.speed (Motor.clamp t) with hle | hle
    · left
      have hst : 0 ≤ (Motor.clamp t - s.speed) / 20 := div_nonneg (sub_nonneg.mpr hle) (by norm_num)
      have hmono : ∀ i j : Nat, i ≤ j →
          Motor.clamp (.flt (s.speed + (Motor.clamp t - s.speed) / 20 * (i : K))) ≤
          Motor.clamp (.flt (s.speed + (Motor.clamp t - s.speed) / 20 * (j : K))) := by
        intro i j hij
        apply clamp_mono
        have : (i : K) ≤ (j : K) := by exact_mod_cast hij
        have := mul_le_mul_of_nonneg_left this hst
        linarith
      apply pairwise_cons_map_range
      · intro j; have := hmono 0 (0 + 1 + j) (by omega); rw [← hs0] at this; exact this
      · intro i j hij; exact hmono (0 + 1 + i) (0 + 1 + j) (by omega)
    · right
      have hst : (Motor.clamp t - s.speed) / 20 ≤ 0 := div_nonpos_of_nonpos_of_nonneg (sub_nonpos.mpr hle) (by norm_num)
      have hmono : ∀ i j : Nat, i ≤ j →
          Motor.clamp (.flt (s.speed + (Motor.clamp t - s.speed) / 20 * (j : K))) ≤
          Motor.clamp (.flt (s.speed + (Motor.clamp t - s.speed) / 20 * (i : K))) := by
        intro i j hij
        apply clamp_mono
        have : (i : K) ≤ (j : K) := by exact_mod_cast hij
        have := mul_le_mul_of_nonpos_left this hst
        linarith
      apply pairwise_cons_map_range
      · intro j; have := hmono 0 (0 + 1 + j) (by omega); rw [← hs0] at this; exact this
      · intro i j hij; exact hmono (0 + 1 + i) (0 + 1 + j) (by omega)
  · split_ifs
    · rw [List.reverse_nil, List.nil_append, sum_replicate_toF]
      have : ((20 : Nat) : K) * (d.toF / 20) = d.toF := by push_cast; field_simp
      rw [this]
    · simpa using hd0

end Reduino.Lemmas.C19
