import Reduino.Lang.Render
import Reduino.Lang.InF
import Reduino.Lemmas.C01a
/- C01 helpers, part b: expressions -/
namespace Reduino.Lemmas.C01
open Reduino.Lang

theorem ok_bind {ε α β : Type} (a : α) (f : α → Except ε β) : (Except.ok a >>= f) = f a := rfl
theorem error_bind {ε α β : Type} (e : ε) (f : α → Except ε β) : (Except.error e >>= f) = Except.error e := rfl
theorem pure_eq_ok {ε α : Type} (a : α) : (pure a : Except ε α) = Except.ok a := rfl

theorem bind_ok {ε α β : Type} {x : Except ε α} {f : α → Except ε β} {b : β}
    (h : (x >>= f) = .ok b) : ∃ a, x = .ok a ∧ f a = .ok b := by
  cases x with
  | error e => cases h
  | ok a => exact ⟨a, rfl, h⟩

/-- the C side (strict reading) stopped where the model does not vouch for it: a signed 32-bit overflow (undefined behaviour),
    or a `/` / `%` with a negative operand (defined in C, but not Python's `//` / `%`) -/
def UB {α : Type} (r : Except Err α) : Prop := r = .error .overflow ∨ r = .error .signedDiv

theorem ub_bind {α β : Type} {x : Except Err α} (f : α → Except Err β) (h : UB x) : UB (x >>= f) := by
  rcases h with h | h <;> rw [h]
  · exact .inl rfl
  · exact .inr rfl

theorem UB_ne_fuel {α : Type} {r : Except Err α} (h : UB r) : r ≠ .error .fuel := by
  rcases h with h | h <;> rw [h] <;> intro e <;> cases e

theorem UB_not_ok {α : Type} {r : Except Err α} {a : α} (h : UB r) : r ≠ .ok a := by
  rcases h with h | h <;> rw [h] <;> intro e <;> cases e

/-- the simulation relation between the Python store and the C store, for the names declared in `te`: the C store holds the
    Python value converted to the declared type, and the Python value is one the declared type admits (`Ty.holds`) -/
def Rel (te : C.TyEnv) (sp sc : Store) : Prop :=
  ∀ x t, te.lookup x = some t → ∀ pv, sp.get x = some pv →
    sc.get x = some (C.conv t pv) ∧ t.holds pv = true

theorem conv_truthy (t : Ty) (v : Val) (h : t.holds v = true) : (C.conv t v).truthy = v.truthy := by
  cases t <;> cases v <;> simp_all [C.conv, Val.truthy, Val.toInt, Ty.holds, Val.text]

theorem conv_toInt (t : Ty) (v : Val) (h : t.holds v = true) : (C.conv t v).toInt = v.toInt := by
  cases t <;> cases v <;> simp_all [C.conv, Val.truthy, Val.toInt, Ty.holds, Val.text]

theorem conv_idem (t : Ty) (v : Val) : C.conv t (C.conv t v) = C.conv t v := by
  cases t <;> simp [C.conv, Val.toInt, Val.truthy, Val.text]

theorem conv_bool_bool (b : Bool) : C.conv .bool (.bool b) = .bool b := rfl
theorem conv_int_int (n : Int) : C.conv .int (.int n) = .int n := rfl
theorem conv_str_str (s : String) : C.conv .string (.str s) = .str s := rfl

theorem holds_bool {v : Val} (h : Ty.bool.holds v = true) : ∃ b, v = .bool b := by
  cases v <;> simp_all [Ty.holds]

theorem holds_string {v : Val} (h : Ty.string.holds v = true) : ∃ s, v = .str s := by
  cases v <;> simp_all [Ty.holds]

/-- a value of a type other than `string` is a number -/
theorem holds_num {t : Ty} {v : Val} (h : t.holds v = true) (ht : t ≠ .string) : v.isStr = false := by
  cases t <;> cases v <;> simp_all [Ty.holds, Val.isStr]

theorem holds_int_of_num {v : Val} (h : v.isStr = false) : Ty.int.holds v = true := by
  cases v <;> simp_all [Ty.holds, Val.isStr]

theorem num_ok {v : Val} {n : Int} (h : v.num = .ok n) : n = v.toInt ∧ v.isStr = false := by
  cases v <;> simp_all [Val.num, Val.isStr] <;> (cases h; rfl)

theorem num_of_not_str {v : Val} (h : v.isStr = false) : v.num = .ok v.toInt := by
  cases v <;> simp_all [Val.num, Val.isStr]

/-- the converted value of a number is a number -/
theorem conv_isStr {t : Ty} {v : Val} (h : t.holds v = true) : (C.conv t v).isStr = v.isStr := by
  cases t <;> cases v <;> simp_all [C.conv, Ty.holds, Val.isStr]

theorem binopV_num {x y : Val} (hx : x.isStr = false) (hy : y.isStr = false) (op : BinOp) (m : C.Mode) :
    C.binopV op x y m = C.binop op x.toInt y.toInt m := by
  cases x <;> cases y <;> simp_all [C.binopV, Val.isStr]

theorem pyEval_num {x y : Val} (hx : x.isStr = false) (hy : y.isStr = false) (op : BinOp) :
    op.pyEval x y = if op.isDiv ∧ y.toInt = 0 then .error .zeroDiv else .ok (op.pyVal x y) := by
  cases x <;> cases y <;> simp_all [BinOp.pyEval, Val.isStr]

theorem cmp_pyEval_num {x y : Val} (hx : x.isStr = false) (hy : y.isStr = false) (op : CmpOp) :
    op.pyEval x y = .ok (op.eval x.toInt y.toInt) := by
  cases x <;> cases y <;> simp_all [CmpOp.pyEval, Val.isStr]

theorem pyPick_num {x y : Val} (hx : x.isStr = false) (hy : y.isStr = false) (k : MinMax) :
    k.pyPick x y = .ok (k.pick x y) := by
  cases x <;> cases y <;> simp_all [MinMax.pyPick, Val.isStr]

theorem pick_isStr {x y : Val} (hx : x.isStr = false) (hy : y.isStr = false) (k : MinMax) : (k.pick x y).isStr = false := by
  cases k <;> simp only [MinMax.pick] <;> split <;> assumption

theorem pyVal_isStr (op : BinOp) (x y : Val) : (op.pyVal x y).isStr = false := by
  unfold BinOp.pyVal; split <;> rfl

/-- the two shapes `Expr.binTyOk` admits -/
theorem binTyOk_cases {te : C.TyEnv} {op : BinOp} {a b : Expr} (h : Expr.binTyOk te op a b = true) :
    (inferTy te a ≠ .string ∧ inferTy te b ≠ .string) ∨ (op = .add ∧ inferTy te a = .string ∧ inferTy te b = .string) := by
  simp only [Expr.binTyOk, Bool.or_eq_true, Bool.and_eq_true, bne_iff_ne, ne_eq, beq_iff_eq] at h
  rcases h with h | h
  · exact .inl h
  · exact .inr ⟨h.1.1.1, h.1.1.2, h.1.2⟩

theorem pyStr_text {t : Ty} {v : Val} {s : String} (hty : t.holds v = true) (hnb : t ≠ .bool) (h : v.pyStr = .ok s) :
    (C.conv t v).text = s := by
  cases t <;> cases v <;> simp_all [Ty.holds, Val.pyStr, C.conv, Val.text, Val.toInt] <;> (cases h; rfl)

theorem typeOf_eq_inferTy (te : C.TyEnv) (e : Expr) (h : e.wt te = true) : C.typeOf te e = inferTy te e := by
  induction e with
  | bin op a b iha ihb =>
    simp only [Expr.wt, Bool.and_eq_true] at h
    simp only [C.typeOf, inferTy, iha h.1.1, ihb h.1.2]
  | neg a _ =>
    simp only [Expr.wt, Bool.and_eq_true, beq_iff_eq] at h
    simp only [C.typeOf, inferTy, h.2]
  | ite c a b _ iha ihb =>
    simp only [Expr.wt, Bool.and_eq_true, beq_iff_eq] at h
    simp only [C.typeOf, inferTy, iha h.1.1.1.2, ihb h.1.1.2]
  | mm k a b iha ihb =>
    simp only [Expr.wt, Bool.and_eq_true, beq_iff_eq] at h
    simp only [C.typeOf, inferTy, iha h.1.1.1, ihb h.1.1.2, h.1.2, h.2, if_true]
  | _ => simp only [C.typeOf, inferTy]

/-- type soundness of the Python side: a well-typed expression evaluates to a value its inferred type admits -/
theorem typed_val (te : C.TyEnv) (sp sc : Store) (hrel : Rel te sp sc) (e : Expr) (v : Val)
    (hwt : e.wt te = true) (hpy : Py.eval sp e = .ok v) : (inferTy te e).holds v = true := by
  induction e generalizing v with
  | int n => simp only [Py.eval] at hpy; cases hpy; rfl
  | bool b => simp only [Py.eval] at hpy; cases hpy; rfl
  | str s => simp only [Py.eval] at hpy; cases hpy; rfl
  | var x =>
    simp only [Expr.wt, Option.isSome_iff_exists] at hwt
    obtain ⟨t, ht⟩ := hwt
    simp only [inferTy, ht, Option.getD_some]
    simp only [Py.eval] at hpy
    cases hg : sp.get x with
    | none => rw [hg] at hpy; cases hpy
    | some pv =>
      rw [hg] at hpy; cases hpy
      exact (hrel x t ht v hg).2
  | bin op a b iha ihb =>
    simp only [Expr.wt, Bool.and_eq_true] at hwt
    rw [Py.eval] at hpy
    obtain ⟨x, hx, hpy⟩ := bind_ok hpy
    obtain ⟨y, hy, hpy⟩ := bind_ok hpy
    rcases binTyOk_cases hwt.2 with ⟨ha, hb⟩ | ⟨rfl, ha, hb⟩
    · have hxs := holds_num (iha x hwt.1.1 hx) ha
      have hys := holds_num (ihb y hwt.1.2 hy) hb
      rw [pyEval_num hxs hys] at hpy
      split at hpy
      · cases hpy
      · cases hpy
        simp only [inferTy, ha, hb, or_self, if_false]
        exact holds_int_of_num (pyVal_isStr _ _ _)
    · obtain ⟨s, rfl⟩ := holds_string (ha ▸ iha x hwt.1.1 hx)
      obtain ⟨t, rfl⟩ := holds_string (hb ▸ ihb y hwt.1.2 hy)
      simp only [BinOp.pyEval, if_true] at hpy
      cases hpy
      simp only [inferTy, ha, true_or, if_true]; rfl
  | neg a _ =>
    simp only [Expr.wt, Bool.and_eq_true, beq_iff_eq] at hwt
    rw [Py.eval] at hpy
    obtain ⟨x, _, hpy⟩ := bind_ok hpy
    obtain ⟨n, _, hpy⟩ := bind_ok hpy
    cases hpy
    simp only [inferTy, hwt.2]; rfl
  | cmp op a b =>
    rw [Py.eval] at hpy
    obtain ⟨x, _, hpy⟩ := bind_ok hpy
    obtain ⟨y, _, hpy⟩ := bind_ok hpy
    obtain ⟨r, _, hpy⟩ := bind_ok hpy
    cases hpy; rfl
  | and a b iha ihb =>
    simp only [Expr.wt, Bool.and_eq_true, beq_iff_eq] at hwt
    rw [Py.eval] at hpy
    obtain ⟨x, hx, hpy⟩ := bind_ok hpy
    simp only [inferTy]
    split at hpy
    · have := ihb v hwt.1.1.2 hpy; rw [hwt.2] at this; exact this
    · cases hpy; have := iha _ hwt.1.1.1 hx; rw [hwt.1.2] at this; exact this
  | or a b iha ihb =>
    simp only [Expr.wt, Bool.and_eq_true, beq_iff_eq] at hwt
    rw [Py.eval] at hpy
    obtain ⟨x, hx, hpy⟩ := bind_ok hpy
    simp only [inferTy]
    split at hpy
    · cases hpy; have := iha _ hwt.1.1.1 hx; rw [hwt.1.2] at this; exact this
    · have := ihb v hwt.1.1.2 hpy; rw [hwt.2] at this; exact this
  | not a =>
    rw [Py.eval] at hpy
    obtain ⟨x, _, hpy⟩ := bind_ok hpy
    cases hpy; rfl
  | ite c a b _ iha ihb =>
    simp only [Expr.wt, Bool.and_eq_true, beq_iff_eq] at hwt
    simp only [inferTy, hwt.1.2, if_true]
    rw [Py.eval] at hpy
    obtain ⟨x, hx, hpy⟩ := bind_ok hpy
    split at hpy
    · exact hwt.1.2 ▸ iha v hwt.1.1.1.2 hpy
    · exact ihb v hwt.1.1.2 hpy
  | abs a =>
    rw [Py.eval] at hpy
    obtain ⟨x, _, hpy⟩ := bind_ok hpy
    obtain ⟨n, _, hpy⟩ := bind_ok hpy
    cases hpy; rfl
  | mm k a b iha ihb =>
    simp only [Expr.wt, Bool.and_eq_true, beq_iff_eq] at hwt
    rw [Py.eval] at hpy
    obtain ⟨x, hx, hpy⟩ := bind_ok hpy
    obtain ⟨y, hy, hpy⟩ := bind_ok hpy
    have hxs := holds_num (iha x hwt.1.1.1 hx) (by rw [hwt.1.2]; decide)
    have hys := holds_num (ihb y hwt.1.1.2 hy) (by rw [hwt.2]; decide)
    rw [pyPick_num hxs hys] at hpy
    cases hpy
    exact holds_int_of_num (pick_isStr hxs hys k)
  | toStr a =>
    rw [Py.eval] at hpy
    obtain ⟨x, _, hpy⟩ := bind_ok hpy
    obtain ⟨t, _, hpy⟩ := bind_ok hpy
    cases hpy; rfl

/-- a bool-typed well-typed expression evaluates (in Python) to a bool -/
theorem bool_val (te : C.TyEnv) (sp sc : Store) (hrel : Rel te sp sc) (e : Expr) (v : Val)
    (hwt : e.wt te = true) (hty : inferTy te e = .bool) (hpy : Py.eval sp e = .ok v) : ∃ b, v = .bool b :=
  holds_bool (hty ▸ typed_val te sp sc hrel e v hwt hpy)

theorem chk_cases (r : Int) : C.chk r = .ok (.int r) ∨ UB (C.chk r) := by
  unfold C.chk UB; split <;> simp

theorem pyVal_toInt (op : BinOp) (x y : Val) : (op.pyVal x y).toInt = op.eval x.toInt y.toInt := by
  cases op <;> cases x <;> cases y <;> try rfl
  all_goals (rename_i a b; cases a <;> cases b <;> decide)

/-- Python's value of a binary operation, converted to C `int`, is the operator on the operands' integer values -/
theorem conv_pyVal (op : BinOp) (x y : Val) : C.conv .int (op.pyVal x y) = .int (op.eval x.toInt y.toInt) := by
  show Val.int (op.pyVal x y).toInt = _
  rw [pyVal_toInt]

theorem pyEval_ok {op : BinOp} {x y v : Val} (hx : x.isStr = false) (hy : y.isStr = false) (h : op.pyEval x y = .ok v) :
    v = op.pyVal x y ∧ (op.isDiv = true → y.toInt ≠ 0) := by
  rw [pyEval_num hx hy] at h
  split at h
  · cases h
  · rename_i hz
    cases h
    exact ⟨rfl, fun hd h0 => hz ⟨hd, h0⟩⟩

theorem ceval_eq_eval_of_not_div {op : BinOp} (h : op.isDiv = false) (a b : Int) : op.ceval a b = op.eval a b := by
  cases op <;> first | rfl | cases h

/-- on a non-negative dividend and a positive divisor C's `/`, `%` are Python's `//`, `%` -/
theorem ceval_eq_eval_of_nonneg (op : BinOp) {a b : Int} (ha : 0 ≤ a) (hb : 0 ≤ b) : op.ceval a b = op.eval a b := by
  cases op <;> try rfl
  · exact (Int.fdiv_eq_tdiv_of_nonneg ha hb).symm
  · show a.tmod b = a.fmod b
    rw [Int.fmod_eq_emod_of_nonneg _ hb, Int.tmod_eq_emod_of_nonneg ha]

/-- the C operator (strict reading) against Python's: the same integer, or overflow, or a signed division -/
theorem binop_cases (op : BinOp) (a b : Int) (hz : op.isDiv = true → b ≠ 0) :
    C.binop op a b = .ok (.int (op.eval a b)) ∨ UB (C.binop op a b) := by
  unfold C.binop
  by_cases hd : op.isDiv = true
  · rw [if_pos hd, if_neg (hz hd)]
    by_cases hs : a < 0 ∨ b < 0
    · rw [if_pos ⟨rfl, hs⟩]; right; exact .inr rfl
    · rw [if_neg (fun h => hs h.2)]
      have ha : 0 ≤ a := by omega
      have hb : 0 ≤ b := by omega
      rcases chk_cases (a.tdiv b) with h | h
      · rw [h, ok_bind, ceval_eq_eval_of_nonneg op ha hb]
        exact chk_cases _
      · right; exact ub_bind _ h
  · rw [if_neg hd, ceval_eq_eval_of_not_div (by simpa using hd)]
    exact chk_cases _

/-- the macro and the Python builtin choose operands of the same integer value -/
theorem cpick_toInt (k : MinMax) (x y : Val) :
    (k.cpick (.int x.toInt) (.int y.toInt)).toInt = (k.pick x y).toInt := by
  have hi : ∀ n : Int, (Val.int n).toInt = n := fun _ => rfl
  cases k <;> simp only [MinMax.cpick, MinMax.pick, hi] <;> split <;> split <;> simp only [hi] <;> omega

theorem expr_sim (te : C.TyEnv) (sp sc : Store) (hrel : Rel te sp sc) (e : Expr) (v : Val)
    (hwt : e.wt te = true) (hpy : Py.eval sp e = .ok v) :
    C.eval te sc e = .ok (C.conv (inferTy te e) v) ∨ UB (C.eval te sc e) := by
  induction e generalizing v with
  | int n => simp only [Py.eval] at hpy; cases hpy; left; rfl
  | bool b => simp only [Py.eval] at hpy; cases hpy; left; rfl
  | str s => simp only [Py.eval] at hpy; cases hpy; left; rfl
  | var x =>
    simp only [Expr.wt, Option.isSome_iff_exists] at hwt
    obtain ⟨t, ht⟩ := hwt
    simp only [Py.eval] at hpy
    cases hg : sp.get x with
    | none => rw [hg] at hpy; cases hpy
    | some pv =>
      rw [hg] at hpy; cases hpy
      left
      simp only [C.eval, (hrel x t ht v hg).1, inferTy, ht, Option.getD_some]
  | bin op a b iha ihb =>
    simp only [Expr.wt, Bool.and_eq_true] at hwt
    rw [Py.eval] at hpy
    obtain ⟨x, hx, hpy⟩ := bind_ok hpy
    obtain ⟨y, hy, hpy⟩ := bind_ok hpy
    have htx := typed_val te sp sc hrel a x hwt.1.1 hx
    have hty := typed_val te sp sc hrel b y hwt.1.2 hy
    rw [C.eval]
    rcases iha x hwt.1.1 hx with h | h
    · rw [h, ok_bind]
      rcases ihb y hwt.1.2 hy with h' | h'
      · rw [h', ok_bind]
        rcases binTyOk_cases hwt.2 with ⟨ha, hb⟩ | ⟨rfl, ha, hb⟩
        · have hxs := holds_num htx ha
          have hys := holds_num hty hb
          obtain ⟨rfl, hz⟩ := pyEval_ok hxs hys hpy
          rw [binopV_num (by rw [conv_isStr htx]; exact hxs) (by rw [conv_isStr hty]; exact hys),
            conv_toInt _ x htx, conv_toInt _ y hty]
          simp only [inferTy, ha, hb, or_self, if_false, conv_pyVal]
          exact binop_cases _ _ _ hz
        · -- `+` on two strings: concatenation on both sides
          rw [ha] at htx; rw [hb] at hty
          obtain ⟨s, rfl⟩ := holds_string htx
          obtain ⟨t, rfl⟩ := holds_string hty
          simp only [BinOp.pyEval, if_true] at hpy
          cases hpy
          left
          simp only [inferTy, ha, hb, true_or, if_true, conv_str_str, C.binopV]
      · right; exact ub_bind _ h'
    · right; exact ub_bind _ h
  | neg a iha =>
    simp only [Expr.wt, Bool.and_eq_true, beq_iff_eq] at hwt
    rw [Py.eval] at hpy
    obtain ⟨x, hx, hpy⟩ := bind_ok hpy
    obtain ⟨n, hn, hpy⟩ := bind_ok hpy
    obtain ⟨rfl, _⟩ := num_ok hn
    cases hpy
    rw [C.eval]
    rcases iha x hwt.1 hx with h | h
    · rw [h, ok_bind, conv_toInt _ x (typed_val te sp sc hrel a x hwt.1 hx)]
      simp only [inferTy, hwt.2, conv_int_int]
      exact chk_cases _
    · right; exact ub_bind _ h
  | cmp op a b iha ihb =>
    simp only [Expr.wt, Bool.and_eq_true, bne_iff_ne, ne_eq] at hwt
    rw [Py.eval] at hpy
    obtain ⟨x, hx, hpy⟩ := bind_ok hpy
    obtain ⟨y, hy, hpy⟩ := bind_ok hpy
    obtain ⟨r, hr, hpy⟩ := bind_ok hpy
    have htx := typed_val te sp sc hrel a x hwt.1.1.1 hx
    have hty := typed_val te sp sc hrel b y hwt.1.1.2 hy
    rw [cmp_pyEval_num (holds_num htx hwt.1.2) (holds_num hty hwt.2)] at hr
    cases hr
    cases hpy
    rw [C.eval]
    rcases iha x hwt.1.1.1 hx with h | h
    · rw [h, ok_bind]
      rcases ihb y hwt.1.1.2 hy with h' | h'
      · rw [h', ok_bind, conv_toInt _ x htx, conv_toInt _ y hty]
        left; rfl
      · right; exact ub_bind _ h'
    · right; exact ub_bind _ h
  | and a b iha ihb =>
    simp only [Expr.wt, Bool.and_eq_true, beq_iff_eq] at hwt
    rw [Py.eval] at hpy
    obtain ⟨x, hx, hpy⟩ := bind_ok hpy
    rw [C.eval]
    rcases iha x hwt.1.1.1 hx with h | h
    · rw [h, ok_bind, conv_truthy _ _ (typed_val te sp sc hrel a x hwt.1.1.1 hx)]
      split at hpy
      · rename_i htr
        rw [if_pos htr]
        rcases ihb v hwt.1.1.2 hpy with h' | h'
        · rw [h', ok_bind, conv_truthy _ _ (typed_val te sp sc hrel b v hwt.1.1.2 hpy)]; left; rfl
        · right; exact ub_bind _ h'
      · rename_i htr
        rw [if_neg htr]
        cases hpy
        left
        simp only [Bool.not_eq_true] at htr
        simp only [inferTy, C.conv, htr, pure_eq_ok]
    · right; exact ub_bind _ h
  | or a b iha ihb =>
    simp only [Expr.wt, Bool.and_eq_true, beq_iff_eq] at hwt
    rw [Py.eval] at hpy
    obtain ⟨x, hx, hpy⟩ := bind_ok hpy
    rw [C.eval]
    rcases iha x hwt.1.1.1 hx with h | h
    · rw [h, ok_bind, conv_truthy _ _ (typed_val te sp sc hrel a x hwt.1.1.1 hx)]
      split at hpy
      · rename_i htr
        rw [if_pos htr]
        cases hpy
        left
        simp only [inferTy, C.conv, htr, pure_eq_ok]
      · rename_i htr
        rw [if_neg htr]
        rcases ihb v hwt.1.1.2 hpy with h' | h'
        · rw [h', ok_bind, conv_truthy _ _ (typed_val te sp sc hrel b v hwt.1.1.2 hpy)]; left; rfl
        · right; exact ub_bind _ h'
    · right; exact ub_bind _ h
  | not a iha =>
    simp only [Expr.wt, Bool.and_eq_true] at hwt
    rw [Py.eval] at hpy
    obtain ⟨x, hx, hpy⟩ := bind_ok hpy
    cases hpy
    rw [C.eval]
    rcases iha x hwt.1 hx with h | h
    · rw [h, ok_bind, conv_truthy _ _ (typed_val te sp sc hrel a x hwt.1 hx)]; left; rfl
    · right; exact ub_bind _ h
  | ite c a b ihc iha ihb =>
    have hty := typeOf_eq_inferTy te _ hwt
    simp only [Expr.wt, Bool.and_eq_true, beq_iff_eq] at hwt
    rw [Py.eval] at hpy
    obtain ⟨x, hx, hpy⟩ := bind_ok hpy
    rw [C.eval, hty]
    have hit : inferTy te (.ite c a b) = inferTy te a := by simp only [inferTy, hwt.1.2, if_true]
    rw [hit]
    rcases ihc x hwt.1.1.1.1 hx with h | h
    · rw [h, ok_bind, conv_truthy _ _ (typed_val te sp sc hrel c x hwt.1.1.1.1 hx)]
      split at hpy
      · rename_i htr
        rw [if_pos htr]
        rcases iha v hwt.1.1.1.2 hpy with h' | h'
        · rw [h', ok_bind]; dsimp only; rw [conv_idem]; left; rfl
        · right; exact ub_bind _ h'
      · rename_i htr
        rw [if_neg htr]
        rcases ihb v hwt.1.1.2 hpy with h' | h'
        · rw [h', ok_bind]; dsimp only; rw [← hwt.1.2, conv_idem]; left; rfl
        · right; exact ub_bind _ h'
    · right; exact ub_bind _ h
  | abs a iha =>
    simp only [Expr.wt] at hwt
    rw [Py.eval] at hpy
    obtain ⟨x, hx, hpy⟩ := bind_ok hpy
    obtain ⟨n, hn, hpy⟩ := bind_ok hpy
    obtain ⟨rfl, _⟩ := num_ok hn
    cases hpy
    rw [C.eval]
    rcases iha x hwt hx with h | h
    · rw [h, ok_bind, conv_toInt _ x (typed_val te sp sc hrel a x hwt hx)]
      simp only [inferTy, conv_int_int]
      by_cases hpos : x.toInt > 0
      · rw [if_pos hpos]; left
        have : ((x.toInt.natAbs : Nat) : Int) = x.toInt := by omega
        rw [this]; rfl
      · rw [if_neg hpos]
        have : ((x.toInt.natAbs : Nat) : Int) = -x.toInt := by omega
        rw [this]
        exact chk_cases _
    · right; exact ub_bind _ h
  | mm k a b iha ihb =>
    have hty := typeOf_eq_inferTy te _ hwt
    simp only [Expr.wt, Bool.and_eq_true, beq_iff_eq] at hwt
    rw [Py.eval] at hpy
    obtain ⟨x, hx, hpy⟩ := bind_ok hpy
    obtain ⟨y, hy, hpy⟩ := bind_ok hpy
    have htx := typed_val te sp sc hrel a x hwt.1.1.1 hx
    have hty' := typed_val te sp sc hrel b y hwt.1.1.2 hy
    rw [pyPick_num (holds_num htx (by rw [hwt.1.2]; decide)) (holds_num hty' (by rw [hwt.2]; decide))] at hpy
    cases hpy
    rw [C.eval, hty]
    rcases iha x hwt.1.1.1 hx with h | h
    · rw [h, ok_bind]
      rcases ihb y hwt.1.1.2 hy with h' | h'
      · rw [h', ok_bind, hwt.1.2, hwt.2]
        left
        show Except.ok (Val.int (k.cpick (.int x.toInt) (.int y.toInt)).toInt) = .ok (Val.int (k.pick x y).toInt)
        rw [cpick_toInt]
      · right; exact ub_bind _ h'
    · right; exact ub_bind _ h
  | toStr a iha =>
    simp only [Expr.wt, Bool.and_eq_true, bne_iff_ne, ne_eq] at hwt
    rw [Py.eval] at hpy
    obtain ⟨x, hx, hpy⟩ := bind_ok hpy
    obtain ⟨t, ht, hpy⟩ := bind_ok hpy
    cases hpy
    rw [C.eval]
    rcases iha x hwt.1 hx with h | h
    · rw [h, ok_bind]
      left
      rw [pure_eq_ok, pyStr_text (typed_val te sp sc hrel a x hwt.1 hx) hwt.2 ht]; rfl
    · right; exact ub_bind _ h

end Reduino.Lemmas.C01
