import Reduino.Lang.Render
import Reduino.Lang.InF
import Reduino.Lemmas.C01g
/- C01 helpers, part h: simulation of the prologue and of the main loop, final assembly -/
namespace Reduino.Lemmas.C01
open Reduino.Lang

/-- outcome of the C side on a list of setup statements -/
def TopOut (te : C.TyEnv) (s0 : Store) (te1 : C.TyEnv) (stp' : Py.St) (r : Except Err Py.St) : Prop :=
  (∃ stc', r = .ok stc' ∧ StRel te stp' stc' ∧ (∀ x, te1.lookup x = none → stc'.store.get x = s0.get x)) ∨
  UB r

theorem Sim1_mono {te : C.TyEnv} {stp' : Py.St} {f F : Nat} {s : Stmt} {st : Py.St} (hle : f ≤ F)
    (h : Sim1 te stp' (C.exec te f s st)) : Sim1 te stp' (C.exec te F s st) := by
  have : C.exec te F s st = C.exec te f s st := by
    apply C_exec_mono hle
    rcases h with ⟨stc', h, _⟩ | h
    · rw [h]; intro e; cases e
    · exact UB_ne_fuel h
  rw [this]; exact h

/-- one run-time assignment at top level, executed under the final type environment -/
theorem top_assign {tef : C.TyEnv} {s0 : Store} {F f : Nat} (hle : f ≤ F) {stp stc stp' : Py.St}
    {x : String} {e : Expr} {te0 te1 : C.TyEnv}
    (hwt : e.wt tef = true) (hx : tef.lookup x = some (inferTy tef e))
    (hst : StRel tef stp stc) (hP : ∀ y, te0.lookup y = none → stc.store.get y = s0.get y)
    (hte : ∀ y, te1.lookup y = none → te0.lookup y = none ∧ y ≠ x)
    (hpy : Py.exec f (.assign x e) stp = .ok stp') :
    TopOut tef s0 te1 stp' (execList tef F [Stmt.assign x e] stc) := by
  rw [execList_single]
  cases f with
  | zero => rw [Py.exec] at hpy; cases hpy
  | succ f =>
    rw [Py.exec] at hpy
    obtain ⟨v, hv, hpy⟩ := bind_ok hpy
    cases hpy
    obtain ⟨F', rfl⟩ : ∃ F', F = F' + 1 := ⟨F - 1, by omega⟩
    rcases assign_sim hst hwt hx hv F' with ⟨stc', hc, hr⟩ | hc
    · left
      refine ⟨stc', hc, hr, ?_⟩
      intro y hy
      obtain ⟨hy0, hyx⟩ := hte y hy
      rw [(C_frame _).1 _ _ _ _ hc y (by simpa [Stmt.assigned] using hyx)]
      exact hP y hy0
    · right; exact hc

theorem top_sim (all : List String) (tef : C.TyEnv) (glf : List (String × Ty × Expr)) (s0 : Store) (F : Nat)
    (hallf : ∀ x, (tef.lookup x).isSome = true → x ∈ all)
    (hinit : ∀ g ∈ glf, ∃ cv, C.eval tef [] g.2.2 = .ok cv ∧ s0.get g.1 = some (C.conv g.2.1 cv))
    (s : Stmt) : ∀ (acc acc1 : TopAcc) (te1 : C.TyEnv) (f : Nat) (stp stc stp' : Py.St), f ≤ F →
    s.okTop all acc.te = some te1 → trTop acc s = .ok acc1 → (∀ x ∈ s.assigned, x ∈ all) →
    Sub acc1.te tef → (∀ g ∈ acc1.globals, g ∈ glf) → StRel tef stp stc →
    (∀ x, acc.te.lookup x = none → stc.store.get x = s0.get x) →
    Py.exec f s stp = .ok stp' → stp'.flow = .normal →
    ∃ l, acc1.setup = l ++ acc.setup ∧ TopOut tef s0 acc1.te stp' (execList tef F l.reverse stc) := by
  induction s with
  | skip =>
    intro acc acc1 te1 f stp stc stp' hle h2 h hall hsub hgl hst hP hpy hfl
    simp only [trTop] at h; cases h
    cases f with
    | zero => rw [Py.exec] at hpy; cases hpy
    | succ f =>
      rw [Py.exec] at hpy; cases hpy
      exact ⟨[], rfl, .inl ⟨stc, rfl, hst, hP⟩⟩
  | seq a b iha ihb =>
    intro acc acc1 te1 f stp stc stp' hle h2 h hall hsub hgl hst hP hpy hfl
    have hfacts := trTop_facts all _ acc acc1 te1 h2 h
    simp only [trTop] at h; simp only [Stmt.okTop] at h2
    obtain ⟨acca, ha, h⟩ := bind_ok h
    cases h2a : a.okTop all acc.te with
    | none => rw [h2a] at h2; cases h2
    | some tea =>
      rw [h2a] at h2
      obtain ⟨a1, a2, a3, a4, a5, _⟩ := trTop_facts all a acc acca tea h2a ha
      have h2b : b.okTop all acca.te = some te1 := by rw [a1]; exact h2
      obtain ⟨b1, b2, b3, b4, b5, lb0, hlb0⟩ := trTop_facts all b acca acc1 te1 h2b h
      simp only [Stmt.assigned, List.mem_append] at hall
      cases f with
      | zero => rw [Py.exec] at hpy; cases hpy
      | succ f =>
        rw [Py.exec] at hpy
        obtain ⟨st1, h1, hpy⟩ := bind_ok hpy
        have hfl1 : st1.flow = .normal := by
          by_cases hbr : st1.flow = .broke
          · rw [if_pos hbr] at hpy; cases hpy; rw [hfl] at hbr; cases hbr
          · exact flow_normal_of_ne hbr
        rw [if_neg (by rw [hfl1]; intro h; cases h)] at hpy
        obtain ⟨la, hla, houta⟩ := iha acc acca tea f stp stc st1 (by omega) h2a ha
          (fun x hx => hall x (.inl hx)) (Sub_trans b2 hsub) (fun g hg => hgl g (b3 g hg)) hst hP h1 hfl1
        rcases houta with ⟨stc1, hc1, hr1, hP1⟩ | hc1
        · obtain ⟨lb, hlb, houtb⟩ := ihb acca acc1 te1 f st1 stc1 stp' (by omega) h2b h
            (fun x hx => hall x (.inr hx)) hsub hgl hr1 hP1 hpy hfl
          refine ⟨lb ++ la, by rw [hlb, hla, List.append_assoc], ?_⟩
          rw [List.reverse_append, execList_append_ok _ hc1 (by rw [hr1.fl, hfl1])]
          exact houtb
        · obtain ⟨lb, hlb⟩ : ∃ lb, acc1.setup = lb ++ acca.setup := ⟨lb0, hlb0⟩
          refine ⟨lb ++ la, by rw [hlb, hla, List.append_assoc], ?_⟩
          rw [List.reverse_append]
          right
          rcases hc1 with hc1 | hc1
          · rw [execList_append_err _ hc1]; exact .inl rfl
          · rw [execList_append_err _ hc1]; exact .inr rfl
  | assign x e =>
    intro acc acc1 te1 f stp stc stp' hle h2 h hall hsub hgl hst hP hpy hfl
    obtain ⟨hwt, hc⟩ := trTop_assign_cases h2 h
    rcases hc with ⟨hl, rfl, rfl⟩ | ⟨hl, rfl, hc⟩
    · -- already declared: run-time assignment
      obtain ⟨hwf, htyf⟩ := wt_sub hsub e hwt
      refine ⟨[.assign x e], rfl, ?_⟩
      refine top_assign hle hwf (by rw [htyf]; exact hsub _ _ hl) hst hP ?_ hpy
      intro y hy
      exact ⟨hy, by rintro rfl; rw [hl] at hy; cases hy⟩
    · rcases hc with ⟨hnf, hcs, rfl⟩ | rfl
      · -- constant initialiser: no run-time statement
        refine ⟨[], rfl, ?_⟩
        left
        have hsub0 : Sub acc.te tef := fun y ty hy => hsub y ty (lookup_append_of_some _ hy)
        obtain ⟨hwf, htyf⟩ := wt_sub hsub0 e hwt
        have hxf : tef.lookup x = some (inferTy acc.te e) :=
          hsub x _ (by show List.lookup x (acc.te ++ _) = _
                       rw [lookup_append_of_none _ hl]; exact lookup_cons_eq _ _ _)
        cases f with
        | zero => rw [Py.exec] at hpy; cases hpy
        | succ f =>
          rw [Py.exec] at hpy
          obtain ⟨v, hv, hpy⟩ := bind_ok hpy
          cases hpy
          have hv0 : Py.eval [] e = .ok v := by
            rw [← hv]
            exact Py_eval_congr _ _ e (by rw [nameFree_vars e hnf]; intro y hy; cases hy)
          obtain ⟨cv, hcv, hs0⟩ := hinit _ (hgl _ (List.mem_cons_self ..))
          have hcvv : cv = C.conv (inferTy acc.te e) v := by
            rcases expr_sim tef [] [] (Rel_nil _ _) e v hwf hv0 with hc | hc
            · rw [hc] at hcv; cases hcv; rw [htyf]
            · exact absurd hcv (UB_not_ok hc)
          refine ⟨stc, rfl, ⟨hst.tr, hst.fl, ?_⟩, ?_⟩
          · intro y ty hy pv hpv
            by_cases hyx : y = x
            · subst hyx
              rw [hxf] at hy; cases hy
              change Store.get (stp.store.set y v) y = _ at hpv
              rw [get_set_eq] at hpv; cases hpv
              refine ⟨?_, htyf ▸ typed_val tef [] [] (Rel_nil _ _) e v hwf hv0⟩
              rw [hP y hl, hs0, hcvv]
              show some (C.conv _ (C.conv _ v)) = _
              rw [conv_idem]
            · change Store.get (stp.store.set x v) y = _ at hpv
              rw [get_set_ne _ _ hyx] at hpv
              exact hst.rel y ty hy pv hpv
          · intro y hy
            apply hP y
            cases hy0 : acc.te.lookup y with
            | none => rfl
            | some ty =>
              have : List.lookup y (acc.te ++ [(x, inferTy acc.te e)]) = some ty := lookup_append_of_some _ hy0
              rw [this] at hy; cases hy
      · -- default-initialised global and a run-time assignment
        have hsub0 : Sub acc.te tef := fun y ty hy => hsub y ty (lookup_append_of_some _ hy)
        obtain ⟨hwf, htyf⟩ := wt_sub hsub0 e hwt
        have hxf : tef.lookup x = some (inferTy acc.te e) :=
          hsub x _ (by show List.lookup x (acc.te ++ _) = _
                       rw [lookup_append_of_none _ hl]; exact lookup_cons_eq _ _ _)
        refine ⟨[.assign x e], rfl, ?_⟩
        refine top_assign hle hwf (by rw [htyf]; exact hxf) hst hP ?_ hpy
        intro y hy
        have hy' : List.lookup y (acc.te ++ [(x, inferTy acc.te e)]) = none := hy
        cases hy0 : acc.te.lookup y with
        | some ty => rw [lookup_append_of_some _ hy0] at hy'; cases hy'
        | none =>
          refine ⟨rfl, ?_⟩
          rintro rfl
          rw [lookup_append_of_none _ hy0, lookup_cons_eq] at hy'; cases hy'
  | _ =>
    intro acc acc1 te1 f stp stc stp' hle h2 h hall hsub hgl hst hP hpy hfl
    obtain ⟨s', hok, htr, rfl, rfl⟩ := trTop_other_cases (by rfl) h2 h
    refine ⟨[s'], rfl, ?_⟩
    have hext : Ext all acc.te tef := ⟨hsub, fun x hx => .inr (hallf x hx)⟩
    have hokf := okNested_ext hext hok
    have htrf := trNested_ext hext.1 hokf htr
    have hsim := Sim1_mono hle ((sim all f).1 tef false 0 _ s' stp stc stp' hokf hall htrf hst hpy)
    show TopOut _ _ _ _ (execList tef F [s'] stc)
    rw [execList_single]
    rcases hsim with ⟨stc', hc, hr⟩ | hc
    · left
      refine ⟨stc', hc, hr, ?_⟩
      intro y hy
      rw [(C_frame _).1 _ _ _ _ hc y ?_]
      · exact hP y hy
      · rw [trNested_assigned htr]
        intro hmem
        have := okNested_assigned_decl hok hall y hmem
        rw [hy] at this; cases this
    · right; exact hc

end Reduino.Lemmas.C01
