import Reduino.Lang.Render
import Reduino.Lang.InF
import Reduino.Lemmas.C01e
/- C01 helpers, part f: statement lists, transfer to the final type environment, facts about `trTop`, globals -/
namespace Reduino.Lemmas.C01
open Reduino.Lang

/-! ### sequential execution of a statement list -/

def execList (te : C.TyEnv) (f : Nat) : List Stmt → Py.St → Except Err Py.St
  | [], st => .ok st
  | s :: rest, st => do
    let st1 ← C.exec te f s st
    if st1.flow = .broke then pure st1 else execList te f rest st1

theorem execList_single (te : C.TyEnv) (f : Nat) (s : Stmt) (st : Py.St) :
    execList te f [s] st = C.exec te f s st := by
  simp only [execList]
  cases C.exec te f s st with
  | error e => rfl
  | ok st1 => rw [ok_bind]; split <;> rfl

theorem flow_normal_of_ne {fl : Py.Flow} (h : ¬ fl = .broke) : fl = .normal := by
  cases fl
  · rfl
  · exact absurd rfl h

theorem execList_append_ok {te : C.TyEnv} {f : Nat} {l1 : List Stmt} (l2 : List Stmt) {st st1 : Py.St}
    (h : execList te f l1 st = .ok st1) (hfl : st1.flow = .normal) :
    execList te f (l1 ++ l2) st = execList te f l2 st1 := by
  induction l1 generalizing st with
  | nil => simp only [execList] at h; cases h; rfl
  | cons s rest ih =>
    simp only [execList] at h
    obtain ⟨st2, h2, h⟩ := bind_ok h
    simp only [List.cons_append, execList, h2, ok_bind]
    split at h
    · rename_i hbr; cases h; rw [hfl] at hbr; cases hbr
    · rename_i hbr; rw [if_neg hbr]; exact ih h

theorem execList_append_err {te : C.TyEnv} {f : Nat} {l1 : List Stmt} (l2 : List Stmt) {st : Py.St} {e : Err}
    (h : execList te f l1 st = .error e) : execList te f (l1 ++ l2) st = .error e := by
  induction l1 generalizing st with
  | nil => simp only [execList] at h; cases h
  | cons s rest ih =>
    simp only [execList] at h
    simp only [List.cons_append, execList]
    cases h2 : C.exec te f s st with
    | error e' => rw [h2] at h; exact h
    | ok st2 =>
      rw [h2, ok_bind] at h
      rw [ok_bind]
      split at h
      · cases h
      · rename_i hbr; rw [if_neg hbr]; exact ih h

theorem execList_seqOf (te : C.TyEnv) (F : Nat) (l : List Stmt) (st : Py.St) (r : Except Err Py.St)
    (h : execList te F l st = r) (hr : r ≠ .error .fuel) : ∃ f', C.exec te f' (seqOf l) st = r := by
  induction l generalizing st with
  | nil => simp only [execList] at h; subst h; exact ⟨1, by rw [seqOf, C.exec]⟩
  | cons s rest ih =>
    cases rest with
    | nil => rw [execList_single] at h; exact ⟨F, by rw [seqOf]; exact h⟩
    | cons s2 rest2 =>
      have hseq : seqOf (s :: s2 :: rest2) = .seq s (seqOf (s2 :: rest2)) := rfl
      rw [hseq]
      rw [execList] at h
      cases h1 : C.exec te F s st with
      | error e =>
        rw [h1] at h
        refine ⟨F + 1, ?_⟩
        rw [C.exec, h1]; exact h
      | ok st1 =>
        rw [h1, ok_bind] at h
        by_cases hbr : st1.flow = .broke
        · rw [if_pos hbr] at h
          refine ⟨F + 1, ?_⟩
          rw [C.exec, h1, ok_bind, if_pos hbr]; exact h
        · rw [if_neg hbr] at h
          obtain ⟨f2, h2⟩ := ih st1 h
          refine ⟨max F f2 + 1, ?_⟩
          rw [C.exec, C_exec_mono (Nat.le_max_left F f2) (by rw [h1]; intro e; cases e), h1, ok_bind, if_neg hbr,
            C_exec_mono (Nat.le_max_right F f2) (by rw [h2]; exact hr), h2]

theorem execList_seqOf_ub (te : C.TyEnv) (F : Nat) (l : List Stmt) (st : Py.St) (h : UB (execList te F l st)) :
    ∃ f', UB (C.exec te f' (seqOf l) st) := by
  rcases h with h | h
  · obtain ⟨f', hf⟩ := execList_seqOf te F l st _ h (by intro e; cases e)
    exact ⟨f', .inl hf⟩
  · obtain ⟨f', hf⟩ := execList_seqOf te F l st _ h (by intro e; cases e)
    exact ⟨f', .inr hf⟩

/-! ### transfer of the fragment check and of `trNested` to a larger type environment -/

def Ext (all : List String) (te te' : C.TyEnv) : Prop :=
  Sub te te' ∧ ∀ x, (te'.lookup x).isSome = true → (te.lookup x).isSome = true ∨ x ∈ all

theorem Ext_cons {all : List String} {te te' : C.TyEnv} (i : String) (t : Ty) (h : Ext all te te') :
    Ext all ((i, t) :: te) ((i, t) :: te') := by
  refine ⟨Sub_cons_cons i t h.1, ?_⟩
  intro x hx
  by_cases hxi : x = i
  · subst hxi; left; rw [lookup_cons_eq]; rfl
  · rw [lookup_cons_ne _ _ hxi] at hx ⊢; exact h.2 x hx

theorem callRetOk_sub {te te' te1 : C.TyEnv} (hs : Sub te te') {y : Option String} {ret : Option Expr}
    (h : callRetOk te te1 y ret = true) : callRetOk te' te1 y ret = true :=
  match y, ret, h with
  | none, none, _ => rfl
  | none, some _, h => h
  | some y, some e, h => by
    simp only [callRetOk, Bool.and_eq_true, beq_iff_eq] at h ⊢
    exact ⟨h.1, hs _ _ h.2⟩
  | some _, none, h => by simp [callRetOk] at h

theorem callSiteOk_of_ok {te' te1 : C.TyEnv} {ps : List (String × Ty)} {y : Option String} {ret : Option Expr} {args : List Expr}
    (hty : args.map (inferTy te') = ps.map (·.2)) (hr : callRetOk te' te1 y ret = true) :
    callSiteOk te' ps y ret (retTy te1 ret) args = true :=
  match y, ret, hr with
  | none, none, _ => by simp [callSiteOk, hty]
  | none, some _, _ => by simp [callSiteOk, hty]
  | some y, some e, hr => by
    simp only [callRetOk, Bool.and_eq_true, beq_iff_eq] at hr
    simp [callSiteOk, hty, retTy, hr.2]
  | some _, none, hr => by simp [callRetOk] at hr

theorem okNested_ext {all : List String} {te te' : C.TyEnv} (hext : Ext all te te') {s : Stmt}
    (h : s.okNested all te = true) : s.okNested all te' = true := by
  induction s generalizing te te' with
  | skip => rfl
  | seq a b iha ihb =>
    simp only [Stmt.okNested, Bool.and_eq_true] at h ⊢
    exact ⟨iha hext h.1, ihb hext h.2⟩
  | assign x e =>
    simp only [Stmt.okNested, Bool.and_eq_true, beq_iff_eq] at h ⊢
    obtain ⟨hw, hty⟩ := wt_sub hext.1 e h.1
    exact ⟨hw, by rw [hty]; exact hext.1 _ _ h.2⟩
  | aug x op e =>
    simp only [Stmt.okNested, Bool.and_eq_true, beq_iff_eq] at h ⊢
    obtain ⟨hw, hty⟩ := wt_sub hext.1 _ h.1
    exact ⟨hw, by rw [hty]; exact hext.1 _ _ h.2⟩
  | tuple k xs es =>
    simp only [Stmt.okNested, Bool.and_eq_true] at h ⊢
    obtain ⟨⟨⟨⟨hl, hwt⟩, htg⟩, hall⟩, hte⟩ := h
    have hwt' : ∀ e ∈ es, e.wt te = true := List.all_eq_true.mp hwt
    refine ⟨⟨⟨⟨hl, ?_⟩, okTargets_sub hext.1 xs es hwt' htg⟩, hall⟩, noTmp_ext hext.2 hall hte⟩
    exact List.all_eq_true.mpr (fun e he => (wt_sub hext.1 e (hwt' e he)).1)
  | ctuple k ts xs es => simp only [Stmt.okNested] at h; cases h
  | ifs c a b iha ihb =>
    simp only [Stmt.okNested, Bool.and_eq_true] at h ⊢
    exact ⟨⟨okCond_sub hext.1 h.1.1, iha hext h.1.2⟩, ihb hext h.2⟩
  | whileLoop c b ihb =>
    simp only [Stmt.okNested, Bool.and_eq_true] at h ⊢
    exact ⟨okCond_sub hext.1 h.1, ihb hext h.2⟩
  | forRange i n b ihb =>
    simp only [Stmt.okNested, Bool.and_eq_true, Bool.not_eq_true', List.contains_eq_mem,
      decide_eq_false_iff_not, Option.isNone_iff_eq_none] at h ⊢
    obtain ⟨⟨⟨⟨hnwt, hiall⟩, hi⟩, hnv⟩, hbok⟩ := h
    refine ⟨⟨⟨⟨okCond_sub hext.1 hnwt, hiall⟩, ?_⟩, hnv⟩, ihb (Ext_cons i .int hext) hbok⟩
    cases hl : te'.lookup i with
    | none => rfl
    | some t =>
      rcases hext.2 i (by rw [hl]; rfl) with h1 | h1
      · rw [hi] at h1; cases h1
      · exact absurd h1 hiall
  | write e =>
    simp only [Stmt.okNested, Bool.and_eq_true, beq_iff_eq] at h ⊢
    obtain ⟨hw, hty⟩ := wt_sub hext.1 e h.1
    exact ⟨hw, by rw [hty]; exact h.2⟩
  | sleep e =>
    simp only [Stmt.okNested] at h ⊢
    exact okCond_sub hext.1 h
  | brk => rfl
  | call y g ps ls rt body ret args _ =>
    simp only [Stmt.okNested, Bool.and_eq_true, beq_iff_eq, List.all_eq_true] at h ⊢
    obtain ⟨⟨⟨hwt, hty⟩, hshape⟩, hbody⟩ := h
    refine ⟨⟨⟨fun e he => (wt_sub hext.1 e (hwt e he)).1, ?_⟩, hshape⟩, ?_⟩
    · rw [← hty]
      exact List.map_congr_left (fun e he => (wt_sub hext.1 e (hwt e he)).2)
    · cases hfd : funDecls ps body with
      | none => rw [hfd] at hbody; cases hbody
      | some te1 =>
        rw [hfd] at hbody
        simp only [Bool.and_eq_true] at hbody ⊢
        exact ⟨hbody.1, callRetOk_sub hext.1 hbody.2⟩

theorem trNested_ext {all : List String} {te te' : C.TyEnv} {m : Bool} {d : Nat} {s s' : Stmt} (hs : Sub te te')
    (hok : s.okNested all te' = true) (h : trNested te m d s = .ok s') : trNested te' m d s = .ok s' := by
  induction s generalizing te te' d s' with
  | skip => simp only [trNested] at h ⊢; exact h
  | seq a b iha ihb =>
    simp only [Stmt.okNested, Bool.and_eq_true] at hok
    rw [trNested] at h ⊢
    obtain ⟨a', ha, h⟩ := bind_ok h
    obtain ⟨b', hb, h⟩ := bind_ok h
    rw [iha hs hok.1 ha, ok_bind, ihb hs hok.2 hb, ok_bind]; exact h
  | assign x e =>
    simp only [Stmt.okNested, Bool.and_eq_true, beq_iff_eq] at hok
    rw [trNested] at h ⊢
    split at h
    · rw [hok.2]; exact h
    · cases h
  | aug x op e =>
    simp only [Stmt.okNested, Bool.and_eq_true, beq_iff_eq] at hok
    rw [trNested] at h ⊢
    split at h
    · rw [hok.2]; exact h
    · cases h
  | tuple k xs es =>
    simp only [Stmt.okNested, Bool.and_eq_true, beq_iff_eq] at hok
    rw [trNested] at h ⊢
    split at h
    · rename_i hc
      cases h
      rw [if_pos ⟨hc.1, hok.1.1.2⟩, okTargets_types hs xs es hc.1 hc.2 hok.1.1.2]
    · cases h
  | ctuple k ts xs es => rw [trNested] at h; cases h
  | ifs c a b iha ihb =>
    simp only [Stmt.okNested, Bool.and_eq_true] at hok
    rw [trNested] at h ⊢
    obtain ⟨a', ha, h⟩ := bind_ok h
    obtain ⟨b', hb, h⟩ := bind_ok h
    rw [iha hs hok.1.2 ha, ok_bind, ihb hs hok.2 hb, ok_bind]; exact h
  | whileLoop c b ihb =>
    simp only [Stmt.okNested, Bool.and_eq_true] at hok
    rw [trNested] at h ⊢
    obtain ⟨b', hb, h⟩ := bind_ok h
    rw [ihb hs hok.2 hb, ok_bind]; exact h
  | forRange i n b ihb =>
    simp only [Stmt.okNested, Bool.and_eq_true, Bool.not_eq_true', List.contains_eq_mem,
      decide_eq_false_iff_not, Option.isNone_iff_eq_none] at hok
    rw [trNested] at h ⊢
    split at h
    · cases h
    · obtain ⟨b', hb, h⟩ := bind_ok h
      rw [hok.1.1.2]
      simp only [Option.isSome_none, Bool.false_eq_true, if_false]
      rw [ihb (Sub_cons_cons i .int hs) hok.2 hb, ok_bind]; exact h
  | write e => rw [trNested] at h ⊢; exact h
  | sleep e => rw [trNested] at h ⊢; exact h
  | brk => rw [trNested] at h ⊢; exact h
  | call y g ps ls rt body ret args _ =>
    simp only [Stmt.okNested, Bool.and_eq_true, beq_iff_eq, List.all_eq_true] at hok
    obtain ⟨⟨⟨hwt, hty⟩, hshape⟩, hbody⟩ := hok
    rw [trNested, if_pos hshape] at h ⊢
    cases hfd : funDecls ps body with
    | none => rw [hfd] at h; cases h
    | some te1 =>
      rw [hfd] at h hbody
      simp only [Bool.and_eq_true] at h hbody ⊢
      obtain ⟨body', hb', h⟩ := bind_ok h
      rw [hb', ok_bind]
      split at h
      · rename_i hc
        cases h
        have hc' : (callSiteOk te' ps y ret (retTy te1 ret) args = true ∧ funCallsStable ps body te1 = true) :=
          ⟨callSiteOk_of_ok hty hbody.2, hc.2⟩
        rw [if_pos hc']; rfl
      · cases h

/-! ### name-free expressions in C -/

theorem C_eval_nameFree_store (te : C.TyEnv) (s s' : Store) (e : Expr) (h : e.nameFree = true) :
    C.eval te s e = C.eval te s' e :=
  C_eval_congr te s s' e (by rw [nameFree_vars e h]; intro x hx; cases hx)

/-! ### static initialisation -/

/-- initialiser of a global: a name-free, well-typed expression on which Python's evaluation succeeds (the literal default of the
    type, or a constant the transpiler folded with `_eval_const`) -/
def GoodInit (e : Expr) : Prop := e.nameFree = true ∧ e.wt [] = true ∧ ∃ v, Py.eval [] e = .ok v

theorem goodInit_of_const {te : C.TyEnv} {e : Expr} (hnf : e.nameFree = true) (hwt : e.wt te = true)
    (hc : (evalConst e).isSome = true) : GoodInit e := by
  refine ⟨hnf, (wt_nameFree te [] e hnf hwt).1, ?_⟩
  obtain ⟨v, hv⟩ := Option.isSome_iff_exists.1 hc
  exact ⟨v, (evalConst_spec hv []).2⟩

/-- such an initialiser evaluates in C (no zero divisor: Python met none), up to tracked undefined behaviour -/
theorem C_eval_good (te : C.TyEnv) (s : Store) (e : Expr) (h : GoodInit e) :
    (∃ v, C.eval te s e = .ok v) ∨ UB (C.eval te s e) := by
  obtain ⟨hnf, hwt, v, hv⟩ := h
  rw [C_eval_nameFree_store te s [] e hnf]
  rcases expr_sim te [] [] (Rel_nil _ _) e v (wt_nameFree [] te e hnf hwt).1 hv with h | h
  · left; exact ⟨_, h⟩
  · right; exact h

theorem init_total (te : C.TyEnv) (gl : List (String × Ty × Expr)) (s : Store)
    (hnf : ∀ g ∈ gl, GoodInit g.2.2) :
    (∃ s0, C.initGlobals te gl s = .ok s0) ∨ UB (C.initGlobals te gl s) := by
  induction gl generalizing s with
  | nil => left; exact ⟨s, rfl⟩
  | cons g rest ih =>
    obtain ⟨x, t, e⟩ := g
    rw [C.initGlobals]
    rcases C_eval_good te s e (hnf (x, t, e) (List.mem_cons_self ..)) with ⟨v, hv⟩ | hv
    · rw [hv, ok_bind]
      exact ih _ (fun g hg => hnf g (List.mem_cons_of_mem _ hg))
    · right; exact ub_bind _ hv

theorem init_spec (te : C.TyEnv) (gl : List (String × Ty × Expr)) (s s0 : Store)
    (hpw : gl.Pairwise (fun a b => a.1 ≠ b.1)) (hnf : ∀ g ∈ gl, g.2.2.nameFree = true)
    (h : C.initGlobals te gl s = .ok s0) :
    (∀ g ∈ gl, ∃ cv, C.eval te [] g.2.2 = .ok cv ∧ s0.get g.1 = some (C.conv g.2.1 cv)) ∧
    (∀ y, (∀ g ∈ gl, g.1 ≠ y) → s0.get y = s.get y) := by
  induction gl generalizing s with
  | nil => simp only [C.initGlobals] at h; cases h; exact ⟨fun g hg => (by cases hg), fun y _ => rfl⟩
  | cons g rest ih =>
    obtain ⟨x, t, e⟩ := g
    rw [C.initGlobals] at h
    obtain ⟨v, hv, h⟩ := bind_ok h
    rw [List.pairwise_cons] at hpw
    obtain ⟨ih1, ih2⟩ := ih _ hpw.2 (fun g hg => hnf g (List.mem_cons_of_mem _ hg)) h
    constructor
    · intro g hg
      rcases List.mem_cons.1 hg with rfl | hg
      · refine ⟨v, ?_, ?_⟩
        · rw [← hv]; exact C_eval_nameFree_store te _ _ e (hnf _ (List.mem_cons_self ..))
        · show s0.get x = _
          rw [ih2 x (fun g' hg' => (hpw.1 g' hg').symm)]
          exact get_set_eq _ _ _
      · exact ih1 g hg
    · intro y hy
      rw [ih2 y (fun g hg => hy g (List.mem_cons_of_mem _ hg))]
      exact get_set_ne _ _ (fun hyx => hy (x, t, e) (List.mem_cons_self ..) hyx.symm)

end Reduino.Lemmas.C01
