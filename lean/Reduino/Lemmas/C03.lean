import Reduino.Lang.ConstEnv
import Reduino.Lang.EvalConst
import Reduino.Lemmas.C11
/- helper lemmas for Props/C03.lean -/
namespace Reduino.Lemmas.C03

/-! ### (a) the evaluator: monotonicity in the environment -/
section EvalPart
open Reduino.Lang.EC Reduino.Lemmas.C11

/-- `s` knows at least what `g` knows -/
def EnvLe (g s : Env) : Prop := ∀ x w, g.lookup x = some (some w) → s.lookup x = some (some w)

mutual
theorem mono_eval (h : String → Except Err Val) (g s : Env) (hext : EnvLe g s) :
    ∀ e : PExpr, Le (evalH h g e) (evalH h s e)
  | .const v => by rw [evalH, evalH]; exact Le.refl _
  | .name x => by
    rw [evalH, evalH]
    intro v hv
    cases hg : g.lookup x with
    | none => rw [hg] at hv; cases hv
    | some o =>
      cases o with
      | none => rw [hg] at hv; cases hv
      | some w => rw [hext x w hg]; rw [hg] at hv; exact hv
  | .bin op a b => by
    rw [evalH, evalH]
    exact Le.bind (mono_eval h g s hext a) fun _ => Le.bind (mono_eval h g s hext b) fun _ => Le.refl _
  | .un op a => by
    rw [evalH, evalH]
    exact Le.bind (mono_eval h g s hext a) fun _ => Le.refl _
  | .and a b => by
    rw [evalH, evalH]
    exact Le.bind (mono_eval h g s hext a) fun _ => Le.ite (mono_eval h g s hext b) (Le.refl _)
  | .or a b => by
    rw [evalH, evalH]
    exact Le.bind (mono_eval h g s hext a) fun _ => Le.ite (Le.refl _) (mono_eval h g s hext b)
  | .compare l rest => by
    rw [evalH, evalH]
    refine Le.bind (mono_eval h g s hext l) fun v => ?_
    cases rest with
    | nil => exact Le.refl _
    | cons p ps => exact mono_chain h g s hext v (p :: ps)
  | .ifexp c a b => by
    rw [evalH, evalH]
    exact Le.bind (mono_eval h g s hext c) fun _ => Le.ite (mono_eval h g s hext a) (mono_eval h g s hext b)
  | .fstr parts => by
    rw [evalH, evalH]
    exact Le.bind (mono_parts h g s hext parts) fun _ => Le.refl _
  | .call f [] => by
    rw [evalH, evalH]; exact Le.refl _
  | .call f [a] => by
    rw [evalH, evalH]
    refine Le.ite (Le.bind (mono_eval h g s hext a) fun _ => Le.refl _) ?_
    refine Le.ite (Le.bind (mono_eval h g s hext a) fun _ => Le.refl _) ?_
    refine Le.ite (Le.bind (mono_eval h g s hext a) fun _ => Le.refl _) ?_
    exact Le.ite (Le.bind (mono_list h g s hext [a]) fun _ => Le.refl _) (Le.refl _)
  | .call f (a :: b :: r) => by
    rw [evalH.eq_12 _ _ _ _ (by simp) (by simp), evalH.eq_12 _ _ _ _ (by simp) (by simp)]
    refine Le.ite (Le.refl _) ?_
    refine Le.ite (Le.refl _) ?_
    refine Le.ite (Le.refl _) ?_
    exact Le.ite (Le.bind (mono_list h g s hext (a :: b :: r)) fun _ => Le.refl _) (Le.refl _)
  | .seq t es => by
    rw [evalH, evalH]
    exact Le.bind (mono_list h g s hext es) fun _ => Le.refl _
  | .forbidden k => by
    rw [evalH, evalH]; exact Le.refl _

theorem mono_chain (h : String → Except Err Val) (g s : Env) (hext : EnvLe g s) (l : Val) :
    ∀ rest : List (CmpOp × PExpr), Le (evalChainH h g l rest) (evalChainH h s l rest)
  | [] => by rw [evalChainH, evalChainH]; exact Le.refl _
  | (op, e) :: rest => by
    rw [evalChainH, evalChainH]
    refine Le.bind (mono_eval h g s hext e) fun r => Le.bind (Le.refl _) fun ok => ?_
    exact Le.ite (mono_chain h g s hext r rest) (Le.refl _)

theorem mono_parts (h : String → Except Err Val) (g s : Env) (hext : EnvLe g s) :
    ∀ ps : List (Option String × Option PExpr), Le (evalPartsH h g ps) (evalPartsH h s ps)
  | [] => by rw [evalPartsH, evalPartsH]; exact Le.refl _
  | (some t, _) :: rest => by
    rw [evalPartsH, evalPartsH]
    exact Le.bind (mono_parts h g s hext rest) fun _ => Le.refl _
  | (none, some e) :: rest => by
    rw [evalPartsH, evalPartsH]
    refine Le.bind (mono_eval h g s hext e) fun v => ?_
    cases pyStr v with
    | none => exact Le.refl _
    | some t => exact Le.bind (mono_parts h g s hext rest) fun _ => Le.refl _
  | (none, none) :: _ => by rw [evalPartsH, evalPartsH]; exact Le.refl _

theorem mono_list (h : String → Except Err Val) (g s : Env) (hext : EnvLe g s) :
    ∀ es : List PExpr, Le (evalListH h g es) (evalListH h s es)
  | [] => by rw [evalListH, evalListH]; exact Le.refl _
  | e :: rest => by
    rw [evalListH, evalListH]
    exact Le.bind (mono_eval h g s hext e) fun _ => Le.bind (mono_list h g s hext rest) fun _ => Le.refl _
end

/-! the same for every outcome except the evaluator's own ValueError (an unknown name is one): `floatResult` and the errors of
    Python operations are stable under every completion of the environment -/
mutual
theorem amono_eval (h : String → Except Err Val) (g s : Env) (hext : EnvLe g s) :
    ∀ e : PExpr, Ag (evalH h g e) (evalH h s e)
  | .const v => by rw [evalH, evalH]; exact Ag.refl _
  | .name x => by
    rw [evalH, evalH]
    cases hg : g.lookup x with
    | none => exact Or.inl rfl
    | some o =>
      cases o with
      | none => exact Or.inl rfl
      | some w => rw [hext x w hg]; exact Or.inr rfl
  | .bin op a b => by
    rw [evalH, evalH]
    exact Ag.bind (amono_eval h g s hext a) fun _ => Ag.bind (amono_eval h g s hext b) fun _ => Ag.refl _
  | .un op a => by
    rw [evalH, evalH]
    exact Ag.bind (amono_eval h g s hext a) fun _ => Ag.refl _
  | .and a b => by
    rw [evalH, evalH]
    exact Ag.bind (amono_eval h g s hext a) fun _ => Ag.ite (amono_eval h g s hext b) (Ag.refl _)
  | .or a b => by
    rw [evalH, evalH]
    exact Ag.bind (amono_eval h g s hext a) fun _ => Ag.ite (Ag.refl _) (amono_eval h g s hext b)
  | .compare l rest => by
    rw [evalH, evalH]
    refine Ag.bind (amono_eval h g s hext l) fun v => ?_
    cases rest with
    | nil => exact Ag.refl _
    | cons p ps => exact amono_chain h g s hext v (p :: ps)
  | .ifexp c a b => by
    rw [evalH, evalH]
    exact Ag.bind (amono_eval h g s hext c) fun _ => Ag.ite (amono_eval h g s hext a) (amono_eval h g s hext b)
  | .fstr parts => by
    rw [evalH, evalH]
    exact Ag.bind (amono_parts h g s hext parts) fun _ => Ag.refl _
  | .call f [] => by
    rw [evalH, evalH]; exact Ag.refl _
  | .call f [a] => by
    rw [evalH, evalH]
    refine Ag.ite (Ag.bind (amono_eval h g s hext a) fun _ => Ag.refl _) ?_
    refine Ag.ite (Ag.bind (amono_eval h g s hext a) fun _ => Ag.refl _) ?_
    refine Ag.ite (Ag.bind (amono_eval h g s hext a) fun _ => Ag.refl _) ?_
    exact Ag.ite (Ag.bind (amono_list h g s hext [a]) fun _ => Ag.refl _) (Ag.refl _)
  | .call f (a :: b :: r) => by
    rw [evalH.eq_12 _ _ _ _ (by simp) (by simp), evalH.eq_12 _ _ _ _ (by simp) (by simp)]
    refine Ag.ite (Ag.refl _) ?_
    refine Ag.ite (Ag.refl _) ?_
    refine Ag.ite (Ag.refl _) ?_
    exact Ag.ite (Ag.bind (amono_list h g s hext (a :: b :: r)) fun _ => Ag.refl _) (Ag.refl _)
  | .seq t es => by
    rw [evalH, evalH]
    exact Ag.bind (amono_list h g s hext es) fun _ => Ag.refl _
  | .forbidden k => by
    rw [evalH, evalH]; exact Ag.refl _

theorem amono_chain (h : String → Except Err Val) (g s : Env) (hext : EnvLe g s) (l : Val) :
    ∀ rest : List (CmpOp × PExpr), Ag (evalChainH h g l rest) (evalChainH h s l rest)
  | [] => by rw [evalChainH, evalChainH]; exact Ag.refl _
  | (op, e) :: rest => by
    rw [evalChainH, evalChainH]
    refine Ag.bind (amono_eval h g s hext e) fun r => Ag.bind (Ag.refl _) fun ok => ?_
    exact Ag.ite (amono_chain h g s hext r rest) (Ag.refl _)

theorem amono_parts (h : String → Except Err Val) (g s : Env) (hext : EnvLe g s) :
    ∀ ps : List (Option String × Option PExpr), Ag (evalPartsH h g ps) (evalPartsH h s ps)
  | [] => by rw [evalPartsH, evalPartsH]; exact Ag.refl _
  | (some t, _) :: rest => by
    rw [evalPartsH, evalPartsH]
    exact Ag.bind (amono_parts h g s hext rest) fun _ => Ag.refl _
  | (none, some e) :: rest => by
    rw [evalPartsH, evalPartsH]
    refine Ag.bind (amono_eval h g s hext e) fun v => ?_
    cases pyStr v with
    | none => exact Ag.refl _
    | some t => exact Ag.bind (amono_parts h g s hext rest) fun _ => Ag.refl _
  | (none, none) :: _ => by rw [evalPartsH, evalPartsH]; exact Ag.refl _

theorem amono_list (h : String → Except Err Val) (g s : Env) (hext : EnvLe g s) :
    ∀ es : List PExpr, Ag (evalListH h g es) (evalListH h s es)
  | [] => by rw [evalListH, evalListH]; exact Ag.refl _
  | e :: rest => by
    rw [evalListH, evalListH]
    exact Ag.bind (amono_eval h g s hext e) fun _ => Ag.bind (amono_list h g s hext rest) fun _ => Ag.refl _
end

end EvalPart

/-! ### (b) the constant environment -/
section CEPart
open Reduino.Lang.CE

theorem lookup_upd {β : Type} (l : List (String × β)) (x y : String) (b : β) :
    List.lookup y ((x, b) :: l.filter (·.1 ≠ x)) = if y = x then some b else l.lookup y := by
  by_cases hyx : y = x
  · subst hyx; simp [List.lookup]
  · rw [if_neg hyx]
    have h1 : (y == x) = false := by simpa using hyx
    rw [List.lookup_cons, h1]
    induction l with
    | nil => rfl
    | cons a l ih =>
      obtain ⟨k, c⟩ := a
      by_cases hk : k = x
      · subst hk
        have : (y == k) = false := h1
        simpa [List.filter, List.lookup, this] using ih
      · by_cases hyk : y = k
        · subst hyk; simp [List.filter, hk, List.lookup]
        · have : (y == k) = false := by simpa using hyk
          simpa [List.filter, hk, List.lookup, this] using ih

structure WF (p : PState) : Prop where
  lt : ∀ x r, p.env.lookup x = some (.ref r) → r < p.heap.length
  inj : ∀ x y r, p.env.lookup x = some (.ref r) → p.env.lookup y = some (.ref r) → x = y

theorem bindStr_lookup (p : PState) (x y : String) (b : Bound) :
    (p.bindStr x b).env.lookup y = if y = x then some b else p.env.lookup y := by
  unfold PState.bindStr; exact lookup_upd _ _ _ _

theorem bindStr_heap (p : PState) (x : String) (b : Bound) : (p.bindStr x b).heap = p.heap := rfl

theorem set_lookup (s : Store) (x y : String) (v : Val) :
    List.lookup y (Store.set s x v) = if y = x then some v else List.lookup y s := by
  unfold Store.set; exact lookup_upd _ _ _ _

/-- the parser's knowledge about `y` is untouched between `p` and `p'` -/
def Frame (y : String) (p p' : PState) : Prop :=
  p'.env.lookup y = p.env.lookup y ∧ ∀ r, p.env.lookup y = some (.ref r) → p'.heap[r]? = p.heap[r]?

theorem Frame.known {y : String} {p p' : PState} (h : Frame y p p') : p'.known y = p.known y := by
  unfold PState.known
  rw [h.1]
  cases hl : p.env.lookup y with
  | none => rfl
  | some b =>
    cases b with
    | str s => rfl
    | ref r => simp only []; rw [h.2 r hl]
    | unknown => rfl

structure FoldOK (w : List String) (p p' : PState) : Prop where
  wf : WF p'
  len : p.heap.length ≤ p'.heap.length
  frame : ∀ y, y ∉ w → Frame y p p'

theorem FoldOK.refl (w : List String) {p : PState} (h : WF p) : FoldOK w p p :=
  ⟨h, Nat.le_refl _, fun _ _ => ⟨rfl, fun _ _ => rfl⟩⟩

theorem FoldOK.trans {w1 w2 : List String} {p p' p'' : PState} (h1 : FoldOK w1 p p') (h2 : FoldOK w2 p' p'') :
    FoldOK (w1 ++ w2) p p'' := by
  refine ⟨h2.wf, Nat.le_trans h1.len h2.len, fun y hy => ?_⟩
  have hy1 : y ∉ w1 := fun h => hy (List.mem_append_left _ h)
  have hy2 : y ∉ w2 := fun h => hy (List.mem_append_right _ h)
  have f1 := h1.frame y hy1
  have f2 := h2.frame y hy2
  refine ⟨f2.1.trans f1.1, fun r hr => ?_⟩
  rw [f2.2 r (f1.1.trans hr), f1.2 r hr]

theorem FoldOK.restore {w : List String} {p p' : PState} (hp : WF p) (h : FoldOK w p p') :
    FoldOK w p { p with heap := p'.heap } := by
  refine ⟨⟨fun x r hx => Nat.lt_of_lt_of_le (hp.lt x r hx) h.len, hp.inj⟩, h.len, fun y hy => ⟨rfl, (h.frame y hy).2⟩⟩

theorem FoldOK.bindStr {p : PState} (hp : WF p) (x : String) (b : Bound) (hb : ∀ r, b ≠ .ref r) :
    FoldOK [x] p (p.bindStr x b) := by
  refine ⟨⟨fun y r hy => ?_, fun y z r hy hz => ?_⟩, Nat.le_refl _, fun y hy => ⟨?_, fun _ _ => rfl⟩⟩
  · rw [bindStr_lookup] at hy
    split at hy
    · cases hy; exact absurd rfl (hb r)
    · exact hp.lt y r hy
  · rw [bindStr_lookup] at hy hz
    split at hy
    · cases hy; exact absurd rfl (hb r)
    · split at hz
      · cases hz; exact absurd rfl (hb r)
      · exact hp.inj y z r hy hz
  · rw [bindStr_lookup, if_neg (by simpa using hy)]

theorem FoldOK.bindList {p : PState} (hp : WF p) (x : String) (xs : List Int) :
    FoldOK [x] p { (p.bindStr x (.ref p.heap.length)) with heap := p.heap ++ [xs] } := by
  refine ⟨⟨fun y r hy => ?_, fun y z r hy hz => ?_⟩, by simp, fun y hy => ⟨?_, fun r hr => ?_⟩⟩
  · have hy : (p.bindStr x (.ref p.heap.length)).env.lookup y = some (.ref r) := hy
    rw [bindStr_lookup] at hy
    simp only [List.length_append, List.length_cons, List.length_nil]
    split at hy
    · cases hy; omega
    · have := hp.lt y r hy; omega
  · have hy : (p.bindStr x (.ref p.heap.length)).env.lookup y = some (.ref r) := hy
    have hz : (p.bindStr x (.ref p.heap.length)).env.lookup z = some (.ref r) := hz
    rw [bindStr_lookup] at hy hz
    split at hy
    · split at hz
      · subst_vars; rfl
      · cases hy; exact absurd (hp.lt z _ hz) (Nat.lt_irrefl _)
    · split at hz
      · cases hz; exact absurd (hp.lt y _ hy) (Nat.lt_irrefl _)
      · exact hp.inj y z r hy hz
  · show (p.bindStr x (.ref p.heap.length)).env.lookup y = _
    rw [bindStr_lookup, if_neg (by simpa using hy)]
  · show (p.heap ++ [xs])[r]? = _
    rw [List.getElem?_append_left (hp.lt y r hr)]

theorem FoldOK.setHeap {p : PState} (hp : WF p) (x : String) (r : Nat) (hx : p.env.lookup x = some (.ref r)) (l : List Int) :
    FoldOK [x] p { p with heap := p.heap.set r l } := by
  refine ⟨⟨fun y r' hy => ?_, hp.inj⟩, by simp, fun y hy => ⟨rfl, fun r' hr => ?_⟩⟩
  · simp only [List.length_set]; exact hp.lt y r' hy
  · have hne : r ≠ r' := fun h => by
      subst h; exact hy (by simp [hp.inj y x r hr hx])
    show (p.heap.set r l)[r']? = _
    rw [List.getElem?_set_ne hne]

mutual
theorem foldNode_ok : ∀ (n : Node) (p : PState), WF p → FoldOK (writesNode n) p (foldNode p n).1
  | .bind x (.str s), p, hp => by
    rw [foldNode, writesNode]; exact FoldOK.bindStr hp x _ (fun r h => by cases h)
  | .bind x (.list xs), p, hp => by
    rw [foldNode, writesNode]; exact FoldOK.bindList hp x xs
  | .bindDyn x v, p, hp => by
    rw [foldNode, writesNode]; exact FoldOK.bindStr hp x _ (fun r h => by cases h)
  | .append x n, p, hp => by
    rw [foldNode, writesNode]
    split
    · next r hx => exact FoldOK.setHeap hp x r hx _
    · exact FoldOK.bindStr hp x _ (fun r h => by cases h)
  | .remove x n, p, hp => by
    rw [foldNode, writesNode]
    split
    · next r hx => exact FoldOK.setHeap hp x r hx _
    · exact FoldOK.bindStr hp x _ (fun r h => by cases h)
  | .obs x, p, hp => by
    rw [foldNode, writesNode]
    split <;> exact FoldOK.refl _ hp
  | .obsConst v, p, hp => by
    rw [foldNode, writesNode]; exact FoldOK.refl _ hp
  | .branches bs, p, hp => by
    rw [foldNode, writesNode]; exact foldBranches_ok bs p hp
  | .loop body, p, hp => by
    rw [foldNode, writesNode]; exact FoldOK.restore hp (foldList_ok body p hp)
  | .mainLoop body, p, hp => by
    rw [foldNode, writesNode]; exact FoldOK.restore hp (foldList_ok body p hp)

theorem foldList_ok : ∀ (l : List Node) (p : PState), WF p → FoldOK (writesList l) p (foldList p l).1
  | [], p, hp => by rw [foldList, writesList]; exact FoldOK.refl _ hp
  | n :: rest, p, hp => by
    rw [foldList, writesList]
    have h1 := foldNode_ok n p hp
    exact h1.trans (foldList_ok rest _ h1.wf)

theorem foldBranches_ok : ∀ (bs : List (List Node)) (p : PState), WF p →
    FoldOK (writesBranches bs) p { p with heap := (foldBranches p bs).1 }
  | [], p, hp => by rw [foldBranches, writesBranches]; exact FoldOK.refl _ hp
  | b :: rest, p, hp => by
    rw [foldBranches, writesBranches]
    have h1 := FoldOK.restore hp (foldList_ok b p hp)
    exact h1.trans (foldBranches_ok rest _ h1.wf)
end

def AgreeAt (x : String) (p : PState) (st : RState) : Prop := ∀ v, p.known x = some v → st.store.lookup x = some v

theorem execTimes_frame (y : String) (body : List Node)
    (hb : ∀ fuel st st', execList fuel st body = some st' → st'.store.lookup y = st.store.lookup y) :
    ∀ k fuel st st', execTimes fuel k st body = some st' → st'.store.lookup y = st.store.lookup y := by
  intro k
  induction k with
  | zero => intro fuel st st' h; rw [execTimes] at h; cases h; rfl
  | succ k ih =>
    intro fuel st st' h
    cases fuel with
    | zero => rw [execTimes] at h; cases h
    | succ fuel =>
      rw [execTimes] at h
      cases h1 : execList fuel st body with
      | none => simp [h1] at h
      | some st1 => simp only [h1] at h; rw [ih _ _ _ h, hb _ _ _ h1]

mutual
theorem execNode_frame (y : String) : ∀ (n : Node), y ∉ writesNode n → ∀ fuel st st',
    execNode fuel st n = some st' → st'.store.lookup y = st.store.lookup y
  | .bind x v, hy, fuel, st, st', h => by
    rw [execNode] at h; cases h
    rw [writesNode] at hy
    show List.lookup y (Store.set _ _ _) = _
    rw [set_lookup, if_neg (by simpa using hy)]
  | .bindDyn x v, hy, fuel, st, st', h => by
    rw [execNode] at h; cases h
    rw [writesNode] at hy
    show List.lookup y (Store.set _ _ _) = _
    rw [set_lookup, if_neg (by simpa using hy)]
  | .append x n, hy, fuel, st, st', h => by
    rw [execNode] at h
    rw [writesNode] at hy
    split at h
    · cases h
      show List.lookup y (Store.set _ _ _) = _
      rw [set_lookup, if_neg (by simpa using hy)]
    · cases h
  | .remove x n, hy, fuel, st, st', h => by
    rw [execNode] at h
    rw [writesNode] at hy
    split at h
    · split at h
      · cases h
        show List.lookup y (Store.set _ _ _) = _
        rw [set_lookup, if_neg (by simpa using hy)]
      · cases h
    · cases h
  | .obs x, hy, fuel, st, st', h => by
    rw [execNode] at h
    cases hl : List.lookup x st.store with
    | none => rw [hl] at h; cases h
    | some v => rw [hl] at h; cases h; rfl
  | .obsConst v, hy, fuel, st, st', h => by
    rw [execNode] at h; cases h; rfl
  | .branches bs, hy, fuel, st, st', h => by
    rw [execNode] at h
    rw [writesNode] at hy
    split at h
    · cases h
    · split at h
      · cases h
      · split at h
        · next b hb => exact (execBranches_frame y bs hy _ b hb _ _ _ h :)
        · cases h; rfl
  | .loop body, hy, fuel, st, st', h => by
    rw [execNode] at h
    rw [writesNode] at hy
    split at h
    · cases h
    · split at h
      · cases h
      · exact (execTimes_frame y body (execList_frame y body hy) _ _ _ _ h :)
  | .mainLoop body, hy, fuel, st, st', h => by
    rw [execNode] at h
    rw [writesNode] at hy
    split at h
    · cases h
    · split at h
      · cases h
      · exact (execTimes_frame y body (execList_frame y body hy) _ _ _ _ h :)

theorem execList_frame (y : String) : ∀ (l : List Node), y ∉ writesList l → ∀ fuel st st',
    execList fuel st l = some st' → st'.store.lookup y = st.store.lookup y
  | [], hy, fuel, st, st', h => by rw [execList] at h; cases h; rfl
  | n :: rest, hy, fuel, st, st', h => by
    rw [execList] at h
    rw [writesList] at hy
    cases h1 : execNode fuel st n with
    | none => simp [h1] at h
    | some st1 =>
      simp only [h1] at h
      rw [execList_frame y rest (fun hh => hy (List.mem_append_right _ hh)) _ _ _ h,
        execNode_frame y n (fun hh => hy (List.mem_append_left _ hh)) _ _ _ h1]

theorem execBranches_frame (y : String) : ∀ (bs : List (List Node)), y ∉ writesBranches bs → ∀ (c : Nat) (b : List Node), bs[c]? = some b →
    ∀ fuel st st', execList fuel st b = some st' → st'.store.lookup y = st.store.lookup y
  | [], hy, c, b, hb => by simp at hb
  | b0 :: rest, hy, 0, b, hb => by
    rw [writesBranches] at hy
    simp only [List.getElem?_cons_zero, Option.some.injEq] at hb
    subst hb
    exact execList_frame y b0 (fun hh => hy (List.mem_append_left _ hh))
  | b0 :: rest, hy, c + 1, b, hb => by
    rw [writesBranches] at hy
    simp only [List.getElem?_cons_succ] at hb
    exact execBranches_frame y rest (fun hh => hy (List.mem_append_right _ hh)) c b hb
end

def isSimple : Node → Bool
  | .branches _ => false
  | .loop _ => false
  | .mainLoop _ => false
  | _ => true

def AgreeS (S : List String) (p : PState) (st : RState) : Prop := ∀ x ∈ S, AgreeAt x p st

theorem AgreeAt.of_frame {y : String} {p p' : PState} {st st' : RState} (hf : Frame y p p')
    (hs : st'.store.lookup y = st.store.lookup y) (ha : AgreeAt y p st) : AgreeAt y p' st' := by
  intro v hv
  rw [hf.known] at hv
  rw [hs]; exact ha v hv

theorem AgreeAt.step_frame {y : String} {p : PState} {st st' : RState} {fuel : Nat} {n : Node} (hp : WF p)
    (hy : y ∉ writesNode n) (h : execNode fuel st n = some st') (ha : AgreeAt y p st) :
    AgreeAt y (foldNode p n).1 st' :=
  ha.of_frame ((foldNode_ok n p hp).frame y hy) (execNode_frame y n hy _ _ _ h)

theorem known_ref {p : PState} {x : String} {r : Nat} (hx : p.env.lookup x = some (.ref r)) :
    p.known x = (p.heap[r]?).map .list := by
  unfold PState.known; rw [hx]

theorem known_bindStr_str (p : PState) (x s : String) : (p.bindStr x (.str s)).known x = some (.str s) := by
  unfold PState.known; rw [bindStr_lookup, if_pos rfl]

theorem known_bindStr_unknown (p : PState) (x : String) : (p.bindStr x .unknown).known x = none := by
  unfold PState.known; rw [bindStr_lookup, if_pos rfl]

/-- emitted simple nodes execute like their sources when the parser's knowledge of what they read is right -/
theorem emit_simple (p : PState) (st : RState) (fuel : Nat) : ∀ n : Node, isSimple n = true →
    (∀ x ∈ readsNode n, AgreeAt x p st) → execNode fuel st (foldNode p n).2 = execNode fuel st n
  | .bind x (.str s), _, _ => by rw [foldNode]
  | .bind x (.list xs), _, _ => by rw [foldNode]
  | .bindDyn x v, _, _ => by rw [foldNode]
  | .append x n, _, _ => by rw [foldNode]; split <;> rfl
  | .remove x n, _, _ => by rw [foldNode]; split <;> rfl
  | .obs x, _, ha => by
    rw [foldNode]
    split
    · next v hv =>
      have := ha x (by simp [readsNode]) v hv
      simp only []
      rw [execNode, execNode, this]; rfl
    · rfl
  | .obsConst v, _, _ => by rw [foldNode]
  | .branches _, h, _ => by cases h
  | .loop _, h, _ => by cases h
  | .mainLoop _, h, _ => by cases h

/-- a simple node keeps the parser and the execution in agreement about the name it writes -/
theorem agree_self (p : PState) (st st' : RState) (fuel : Nat) (hp : WF p) : ∀ (n : Node) (x : String), isSimple n = true →
    writesNode n = [x] → execNode fuel st n = some st' → AgreeAt x p st → AgreeAt x (foldNode p n).1 st'
  | .bind x (.str s), y, _, hw, h, ha => by
    rw [writesNode] at hw; cases hw
    rw [execNode] at h; cases h
    rw [foldNode]
    intro v hv
    rw [known_bindStr_str] at hv; cases hv
    show List.lookup x (Store.set _ _ _) = _
    rw [set_lookup, if_pos rfl]
  | .bind x (.list xs), y, _, hw, h, ha => by
    rw [writesNode] at hw; cases hw
    rw [execNode] at h; cases h
    rw [foldNode]
    intro v hv
    have hl : List.lookup x (PState.env { (p.bindStr x (.ref p.heap.length)) with heap := p.heap ++ [xs] }) = some (.ref p.heap.length) := by
      show List.lookup x (p.bindStr x (.ref p.heap.length)).env = _
      rw [bindStr_lookup, if_pos rfl]
    rw [known_ref hl] at hv
    simp only [List.getElem?_concat_length, Option.map_some, Option.some.injEq] at hv
    subst hv
    show List.lookup x (Store.set _ _ _) = _
    rw [set_lookup, if_pos rfl]
  | .bindDyn x w, y, _, hw, h, ha => by
    rw [writesNode] at hw; cases hw
    rw [foldNode]
    intro v hv
    rw [known_bindStr_unknown] at hv; cases hv
  | .append x n, y, _, hw, h, ha => by
    rw [writesNode] at hw; cases hw
    rw [foldNode]
    split
    · next r hx =>
      intro v hv
      have hlt := hp.lt x r hx
      have hk := ha _ (by rw [known_ref hx, List.getElem?_eq_getElem hlt]; rfl)
      rw [execNode, hk] at h
      simp only [Option.some.injEq] at h
      subst h
      have hx' : List.lookup x (PState.env { p with heap := p.heap.set r ((p.heap[r]?.getD []) ++ [n]) }) = some (.ref r) := hx
      rw [known_ref hx'] at hv
      simp only [List.getElem?_set_self hlt, Option.map_some, Option.some.injEq] at hv
      subst hv
      show List.lookup x (Store.set _ _ _) = _
      rw [set_lookup, if_pos rfl, List.getElem?_eq_getElem hlt]; rfl
    · intro v hv
      rw [known_bindStr_unknown] at hv; cases hv
  | .remove x n, y, _, hw, h, ha => by
    rw [writesNode] at hw; cases hw
    rw [foldNode]
    split
    · next r hx =>
      intro v hv
      have hlt := hp.lt x r hx
      have hk := ha _ (by rw [known_ref hx, List.getElem?_eq_getElem hlt]; rfl)
      rw [execNode, hk] at h
      simp only at h
      split at h
      · simp only [Option.some.injEq] at h
        subst h
        have hx' : List.lookup x (PState.env { p with heap := p.heap.set r (removeFirst n (p.heap[r]?.getD [])) }) = some (.ref r) := hx
        rw [known_ref hx'] at hv
        simp only [List.getElem?_set_self hlt, Option.map_some, Option.some.injEq] at hv
        subst hv
        show List.lookup x (Store.set _ _ _) = _
        rw [set_lookup, if_pos rfl, List.getElem?_eq_getElem hlt]; rfl
      · cases h
    · intro v hv
      rw [known_bindStr_unknown] at hv; cases hv
  | .obs x, y, _, hw, _, _ => by rw [writesNode] at hw; cases hw
  | .obsConst v, y, _, hw, _, _ => by rw [writesNode] at hw; cases hw
  | .branches _, _, h, _, _, _ => by cases h
  | .loop _, _, h, _, _, _ => by cases h
  | .mainLoop _, _, h, _, _, _ => by cases h

theorem writes_simple : ∀ n : Node, isSimple n = true → writesNode n = [] ∨ ∃ x, writesNode n = [x]
  | .bind x _, _ => .inr ⟨x, by rw [writesNode]⟩
  | .bindDyn x _, _ => .inr ⟨x, by rw [writesNode]⟩
  | .append x _, _ => .inr ⟨x, by rw [writesNode]⟩
  | .remove x _, _ => .inr ⟨x, by rw [writesNode]⟩
  | .obs _, _ => .inl (by rw [writesNode])
  | .obsConst _, _ => .inl (by rw [writesNode])
  | .branches _, h => by cases h
  | .loop _, h => by cases h
  | .mainLoop _, h => by cases h

theorem agree_step_simple {p : PState} {st st' : RState} {fuel : Nat} (hp : WF p) {n : Node} (hn : isSimple n = true)
    (h : execNode fuel st n = some st') (y : String) (ha : AgreeAt y p st) : AgreeAt y (foldNode p n).1 st' := by
  by_cases hy : y ∈ writesNode n
  · rcases writes_simple n hn with h0 | ⟨x, hx⟩
    · rw [h0] at hy; cases hy
    · rw [hx] at hy
      have : y = x := by simpa using hy
      subst this
      exact agree_self p st st' fuel hp n y hn hx h ha
  · exact ha.step_frame hp hy h

theorem AgreeS.choices {S : List String} {p : PState} {st : RState} (ha : AgreeS S p st) (cs : List Nat) :
    AgreeS S p { st with choices := cs } := ha

theorem AgreeS.step_frame {S : List String} {p : PState} {st st' : RState} {fuel : Nat} {n : Node} (hp : WF p)
    (hS : ∀ x ∈ S, x ∉ writesNode n) (h : execNode fuel st n = some st') (ha : AgreeS S p st) :
    AgreeS S (foldNode p n).1 st' :=
  fun x hx => (ha x hx).step_frame hp (hS x hx) h

theorem execTimes_sim (S : List String) (p : PState) (body body' : List Node)
    (hsim : ∀ fuel st, AgreeS S p st → execList fuel st body' = execList fuel st body)
    (hfr : ∀ x ∈ S, ∀ fuel st st', execList fuel st body = some st' → st'.store.lookup x = st.store.lookup x) :
    ∀ k fuel st, AgreeS S p st → execTimes fuel k st body' = execTimes fuel k st body := by
  intro k
  induction k with
  | zero => intro fuel st _; rw [execTimes, execTimes]
  | succ k ih =>
    intro fuel st ha
    cases fuel with
    | zero => rw [execTimes, execTimes]
    | succ fuel =>
      rw [execTimes, execTimes, hsim fuel st ha]
      cases h1 : execList fuel st body with
      | none => rfl
      | some st1 =>
        simp only []
        refine ih fuel st1 fun x hx v hv => ?_
        rw [hfr x hx _ _ _ h1]; exact ha x hx v hv

mutual
theorem simNode (S : List String) : ∀ (n : Node) (p : PState) (st : RState) (fuel : Nat), WF p → AgreeS S p st →
    (∀ x ∈ readsNode n, x ∈ S) → (∀ x ∈ S, x ∉ writesNode n) → execNode fuel st (foldNode p n).2 = execNode fuel st n
  | .bind x v, p, st, fuel, _, ha, hr, _ => emit_simple p st fuel _ rfl fun x hx => ha x (hr x hx)
  | .bindDyn x v, p, st, fuel, _, ha, hr, _ => emit_simple p st fuel _ rfl fun x hx => ha x (hr x hx)
  | .append x v, p, st, fuel, _, ha, hr, _ => emit_simple p st fuel _ rfl fun x hx => ha x (hr x hx)
  | .remove x v, p, st, fuel, _, ha, hr, _ => emit_simple p st fuel _ rfl fun x hx => ha x (hr x hx)
  | .obs x, p, st, fuel, _, ha, hr, _ => emit_simple p st fuel _ rfl fun x hx => ha x (hr x hx)
  | .obsConst v, p, st, fuel, _, ha, hr, _ => emit_simple p st fuel _ rfl fun x hx => ha x (hr x hx)
  | .branches bs, p, st, fuel, hp, ha, hr, hw => by
    rw [readsNode] at hr; rw [writesNode] at hw
    rw [foldNode]; simp only []
    rw [execNode, execNode]
    split
    · rfl
    · next c cs _ =>
      split
      · rfl
      · next fuel' =>
        have hb := simBranches S bs p { st with choices := cs } fuel' c hp (ha.choices cs) hr hw
        cases hc : bs[c]? with
        | none => rw [hb.1 hc]
        | some b =>
          obtain ⟨b', hb1, hb2⟩ := hb.2 b hc
          rw [hb1]; exact hb2
  | .loop body, p, st, fuel, hp, ha, hr, hw => by
    rw [readsNode] at hr; rw [writesNode] at hw
    rw [foldNode]; simp only []
    rw [execNode, execNode]
    split
    · rfl
    · next c cs _ =>
      split
      · rfl
      · next fuel' =>
        exact execTimes_sim S p body _ (fun fuel st ha => simList S body p st fuel hp ha hr hw)
          (fun x hx => execList_frame x body (hw x hx)) c fuel' _ (ha.choices cs)
  | .mainLoop body, p, st, fuel, hp, ha, hr, hw => by
    rw [readsNode] at hr; rw [writesNode] at hw
    rw [foldNode]; simp only []
    rw [execNode, execNode]
    split
    · rfl
    · next c cs _ =>
      split
      · rfl
      · next fuel' =>
        exact execTimes_sim S p body _ (fun fuel st ha => simList S body p st fuel hp ha hr hw)
          (fun x hx => execList_frame x body (hw x hx)) c fuel' _ (ha.choices cs)

theorem simList (S : List String) : ∀ (l : List Node) (p : PState) (st : RState) (fuel : Nat), WF p → AgreeS S p st →
    (∀ x ∈ readsList l, x ∈ S) → (∀ x ∈ S, x ∉ writesList l) → execList fuel st (foldList p l).2 = execList fuel st l
  | [], p, st, fuel, _, _, _, _ => by rw [foldList]
  | n :: rest, p, st, fuel, hp, ha, hr, hw => by
    rw [readsList] at hr; rw [writesList] at hw
    have hwn : ∀ x ∈ S, x ∉ writesNode n := fun x hx hh => hw x hx (List.mem_append_left _ hh)
    rw [foldList]; simp only []
    rw [execList, execList, simNode S n p st fuel hp ha (fun x hx => hr x (List.mem_append_left _ hx)) hwn]
    cases h1 : execNode fuel st n with
    | none => rfl
    | some st1 =>
      simp only []
      exact simList S rest _ st1 fuel (foldNode_ok n p hp).wf (ha.step_frame hp hwn h1)
        (fun x hx => hr x (List.mem_append_right _ hx)) (fun x hx hh => hw x hx (List.mem_append_right _ hh))

theorem simBranches (S : List String) : ∀ (bs : List (List Node)) (p : PState) (st : RState) (fuel : Nat) (c : Nat), WF p → AgreeS S p st →
    (∀ x ∈ readsBranches bs, x ∈ S) → (∀ x ∈ S, x ∉ writesBranches bs) →
    (bs[c]? = none → (foldBranches p bs).2[c]? = none) ∧
    (∀ b, bs[c]? = some b → ∃ b', (foldBranches p bs).2[c]? = some b' ∧ execList fuel st b' = execList fuel st b)
  | [], p, st, fuel, c, _, _, _, _ => by
    rw [foldBranches]; simp
  | b0 :: rest, p, st, fuel, 0, hp, ha, hr, hw => by
    rw [readsBranches] at hr; rw [writesBranches] at hw
    rw [foldBranches]; simp only [List.getElem?_cons_zero]
    refine ⟨fun h => (by cases h), fun b hb => ?_⟩
    cases hb
    exact ⟨_, rfl, simList S b0 p st fuel hp ha (fun x hx => hr x (List.mem_append_left _ hx))
      (fun x hx hh => hw x hx (List.mem_append_left _ hh))⟩
  | b0 :: rest, p, st, fuel, c + 1, hp, ha, hr, hw => by
    rw [readsBranches] at hr; rw [writesBranches] at hw
    rw [foldBranches]; simp only [List.getElem?_cons_succ]
    have h1 := FoldOK.restore hp (foldList_ok b0 p hp)
    refine simBranches S rest _ st fuel c h1.wf (fun x hx => ?_)
      (fun x hx => hr x (List.mem_append_right _ hx)) (fun x hx hh => hw x hx (List.mem_append_right _ hh))
    exact (ha x hx).of_frame (h1.frame x fun hh => hw x hx (List.mem_append_left _ hh)) rfl
end

theorem nestedWrites_cons (n : Node) (rest : List Node) :
    nestedWrites (n :: rest) = (if isSimple n = true then [] else writesNode n) ++ nestedWrites rest := by
  cases n <;> simp [nestedWrites, isSimple, writesNode]

theorem simTop (S : List String) : ∀ (l : List Node) (p : PState) (st : RState) (fuel : Nat), WF p → AgreeS S p st →
    (∀ x ∈ readsList l, x ∈ S) → (∀ x ∈ S, x ∉ nestedWrites l) → execList fuel st (foldList p l).2 = execList fuel st l
  | [], p, st, fuel, _, _, _, _ => by rw [foldList]
  | n :: rest, p, st, fuel, hp, ha, hr, hw => by
    rw [readsList] at hr; rw [nestedWrites_cons] at hw
    have hrn : ∀ x ∈ readsNode n, x ∈ S := fun x hx => hr x (List.mem_append_left _ hx)
    have hrr : ∀ x ∈ readsList rest, x ∈ S := fun x hx => hr x (List.mem_append_right _ hx)
    have hwr : ∀ x ∈ S, x ∉ nestedWrites rest := fun x hx hh => hw x hx (List.mem_append_right _ hh)
    rw [foldList]; simp only []
    rw [execList, execList]
    by_cases hn : isSimple n = true
    · rw [emit_simple p st fuel n hn fun x hx => ha x (hrn x hx)]
      cases h1 : execNode fuel st n with
      | none => rfl
      | some st1 =>
        simp only []
        exact simTop S rest _ st1 fuel (foldNode_ok n p hp).wf
          (fun x hx => agree_step_simple hp hn h1 x (ha x hx)) hrr hwr
    · rw [if_neg hn] at hw
      have hwn : ∀ x ∈ S, x ∉ writesNode n := fun x hx hh => hw x hx (List.mem_append_left _ hh)
      rw [simNode S n p st fuel hp ha hrn hwn]
      cases h1 : execNode fuel st n with
      | none => rfl
      | some st1 =>
        simp only []
        exact simTop S rest _ st1 fuel (foldNode_ok n p hp).wf (ha.step_frame hp hwn h1) hrr hwr

theorem WF_empty : WF {} := ⟨fun x r h => by simp [List.lookup] at h, fun x y r h => by simp [List.lookup] at h⟩

theorem AgreeS_empty (S : List String) (st : RState) : AgreeS S {} st := by
  intro x _ v hv
  simp [PState.known, List.lookup] at hv

theorem transpile_sound (prog : List Node) (h : FoldSafe prog = true) (fuel : Nat) (choices : List Nat) :
    run fuel choices (transpile prog) = run fuel choices prog := by
  unfold run transpile
  rw [simTop (readsList prog) prog {} _ fuel WF_empty (AgreeS_empty _ _) (fun x hx => hx) ?_]
  intro x hx
  simp only [FoldSafe, List.all_eq_true] at h
  simpa using h x hx

/-! nothing known -/
def NoKnow (p : PState) : Prop := ∀ x b, p.env.lookup x = some b → b = .unknown

theorem NoKnow.empty : NoKnow {} := fun x b h => by simp [List.lookup] at h

theorem NoKnow.bindUnknown {p : PState} (h : NoKnow p) (x : String) : NoKnow (p.bindStr x .unknown) := by
  intro y b hy
  rw [bindStr_lookup] at hy
  split at hy
  · cases hy; rfl
  · exact h y b hy

theorem NoKnow.known {p : PState} (h : NoKnow p) (x : String) : p.known x = none := by
  unfold PState.known
  cases hl : p.env.lookup x with
  | none => rfl
  | some b => cases h x b hl; rfl

theorem NoKnow.simple {p : PState} (h : NoKnow p) : ∀ n : Node, isSimple n = true → (∀ x v, n ≠ .bind x v) →
    NoKnow (foldNode p n).1 ∧ (foldNode p n).2 = n
  | .bind x v, _, hb => absurd rfl (hb x v)
  | .bindDyn x v, _, _ => by rw [foldNode]; exact ⟨h.bindUnknown x, rfl⟩
  | .append x n, _, _ => by
    rw [foldNode]
    split
    · next r hx => cases h x _ hx
    · exact ⟨h.bindUnknown x, rfl⟩
  | .remove x n, _, _ => by
    rw [foldNode]
    split
    · next r hx => cases h x _ hx
    · exact ⟨h.bindUnknown x, rfl⟩
  | .obs x, _, _ => by
    rw [foldNode]
    split
    · next v hv => rw [h.known x] at hv; cases hv
    · exact ⟨h, rfl⟩
  | .obsConst v, _, _ => by rw [foldNode]; exact ⟨h, rfl⟩
  | .branches _, h, _ => by cases h
  | .loop _, h, _ => by cases h
  | .mainLoop _, h, _ => by cases h

/-! function parameters: the unknown marker of a name the body does not write survives, so its reads are not folded -/

theorem enterFunction_lookup (params : List String) : ∀ (p : PState) (x : String),
    (x ∈ params ∨ p.env.lookup x = some .unknown) → (enterFunction p params).env.lookup x = some .unknown := by
  induction params with
  | nil =>
    intro p x h
    rcases h with h | h
    · cases h
    · exact h
  | cons y rest ih =>
    intro p x h
    show (enterFunction (p.bindStr y .unknown) rest).env.lookup x = _
    by_cases hr : x ∈ rest
    · exact ih _ x (Or.inl hr)
    · refine ih _ x (Or.inr ?_)
      rw [bindStr_lookup]
      split
      · rfl
      · next hne =>
        rcases h with h | h
        · rcases List.mem_cons.1 h with h | h
          · exact absurd h hne
          · exact absurd h hr
        · exact h

theorem known_of_unknown {p : PState} {x : String} (h : p.env.lookup x = some .unknown) : p.known x = none := by
  unfold PState.known; rw [h]

theorem foldNode_env (x : String) : ∀ (n : Node) (p : PState), x ∉ writesNode n →
    (foldNode p n).1.env.lookup x = p.env.lookup x
  | .bind y (.str s), p, h => by
    rw [writesNode] at h; rw [foldNode, bindStr_lookup, if_neg (by simpa using h)]
  | .bind y (.list xs), p, h => by
    rw [writesNode] at h; rw [foldNode]
    show (p.bindStr y (.ref p.heap.length)).env.lookup x = _
    rw [bindStr_lookup, if_neg (by simpa using h)]
  | .bindDyn y v, p, h => by
    rw [writesNode] at h; rw [foldNode, bindStr_lookup, if_neg (by simpa using h)]
  | .append y n, p, h => by
    rw [writesNode] at h; rw [foldNode]
    split
    · rfl
    · rw [bindStr_lookup, if_neg (by simpa using h)]
  | .remove y n, p, h => by
    rw [writesNode] at h; rw [foldNode]
    split
    · rfl
    · rw [bindStr_lookup, if_neg (by simpa using h)]
  | .obs y, p, _ => by rw [foldNode]; split <;> rfl
  | .obsConst v, p, _ => by rw [foldNode]
  | .branches bs, p, _ => by rw [foldNode]
  | .loop body, p, _ => by rw [foldNode]
  | .mainLoop body, p, _ => by rw [foldNode]

mutual
theorem countNode_unknown (x : String) : ∀ (n : Node) (p : PState), p.env.lookup x = some .unknown → x ∉ writesNode n →
    countObsNode x (foldNode p n).2 = countObsNode x n
  | .bind y (.str s), p, _, _ => by rw [foldNode]
  | .bind y (.list xs), p, _, _ => by rw [foldNode]
  | .bindDyn y v, p, _, _ => by rw [foldNode]
  | .append y n, p, _, _ => by rw [foldNode]; split <;> rfl
  | .remove y n, p, _, _ => by rw [foldNode]; split <;> rfl
  | .obs y, p, hp, _ => by
    rw [foldNode]
    split
    · next v hv =>
      have hne : ¬ y = x := fun h => by subst h; rw [known_of_unknown hp] at hv; cases hv
      simp only [countObsNode, if_neg hne]
    · rfl
  | .obsConst v, p, _, _ => by rw [foldNode]
  | .branches bs, p, hp, h => by
    rw [writesNode] at h
    rw [foldNode]; simp only [countObsNode]
    exact countBranches_unknown x bs p hp h
  | .loop body, p, hp, h => by
    rw [writesNode] at h
    rw [foldNode]; simp only [countObsNode]
    exact countList_unknown x body p hp h
  | .mainLoop body, p, hp, h => by
    rw [writesNode] at h
    rw [foldNode]; simp only [countObsNode]
    exact countList_unknown x body p hp h
theorem countList_unknown (x : String) : ∀ (l : List Node) (p : PState), p.env.lookup x = some .unknown → x ∉ writesList l →
    countObsList x (foldList p l).2 = countObsList x l
  | [], p, _, _ => by rw [foldList]
  | n :: rest, p, hp, h => by
    rw [writesList, List.mem_append, not_or] at h
    rw [foldList]; simp only [countObsList]
    rw [countNode_unknown x n p hp h.1,
      countList_unknown x rest _ ((foldNode_env x n p h.1).trans hp) h.2]
theorem countBranches_unknown (x : String) : ∀ (bs : List (List Node)) (p : PState), p.env.lookup x = some .unknown →
    x ∉ writesBranches bs → countObsBranches x (foldBranches p bs).2 = countObsBranches x bs
  | [], p, _, _ => by rw [foldBranches]
  | b :: rest, p, hp, h => by
    rw [writesBranches, List.mem_append, not_or] at h
    rw [foldBranches]; simp only [countObsBranches]
    rw [countList_unknown x b p hp h.1,
      countBranches_unknown x rest { p with heap := (foldList p b).1.heap } hp h.2]
end

end CEPart

end Reduino.Lemmas.C03
