import Reduino.Lang.Promote
/- helper lemmas for Props/C10.lean (individual Mathlib modules may be imported here) -/
namespace Reduino.Lemmas.C10
end Reduino.Lemmas.C10
