import Reduino.Lang.Promote
/- helper lemmas for Props/C10.lean (individual Mathlib modules may be imported here) -/
namespace Reduino.Lemmas.C10
open Reduino.Lang.Promote

/-! ### `sorted` is a canonical form of a list up to permutation -/

theorem strLe_trans (a b c : String) : strLe a b = true → strLe b c = true → strLe a c = true := by
  simp only [strLe, decide_eq_true_eq]
  exact String.le_trans

theorem strLe_total (a b : String) : (strLe a b || strLe b a) = true := by
  simp only [strLe, Bool.or_eq_true, decide_eq_true_eq]
  exact String.le_total a b

theorem strLe_antisymm (a b : String) : strLe a b = true → strLe b a = true → a = b := by
  simp only [strLe, decide_eq_true_eq]
  exact String.le_antisymm

theorem sorted_perm (l : List String) : (sorted l).Perm l :=
  List.mergeSort_perm l strLe

theorem sorted_pairwise (l : List String) : (sorted l).Pairwise (fun a b => strLe a b = true) :=
  List.pairwise_mergeSort strLe_trans strLe_total l

theorem sorted_eq_of_perm {l l' : List String} (h : l.Perm l') : sorted l = sorted l' := by
  refine List.Perm.eq_of_pairwise (le := fun a b => strLe a b = true) ?_ (sorted_pairwise l) (sorted_pairwise l') ?_
  · intro a b _ _ hab hba
    exact strLe_antisymm a b hab hba
  · exact (sorted_perm l).trans (h.trans (sorted_perm l').symm)

/-! ### invariants of `record` through the inner fold -/

theorem record_mem (parent ord : List String) (n x : String) :
    x ∈ record parent ord n ↔ (x ∈ ord ∨ (x ∉ parent ∧ x = n)) := by
  unfold record
  split
  · rename_i hc
    constructor
    · intro hx; exact Or.inl hx
    · rintro (hx | ⟨hp, rfl⟩)
      · exact hx
      · rcases hc with hc | hc
        · exact absurd hc hp
        · exact hc
  · rename_i hc
    simp only [not_or] at hc
    simp only [List.mem_append, List.mem_singleton]
    constructor
    · rintro (hx | rfl)
      · exact Or.inl hx
      · exact Or.inr ⟨hc.1, rfl⟩
    · rintro (hx | ⟨_, rfl⟩)
      · exact Or.inl hx
      · exact Or.inr rfl

theorem record_nodup (parent ord : List String) (n : String) (h : ord.Nodup) :
    (record parent ord n).Nodup := by
  unfold record
  split
  · exact h
  · rename_i hc
    simp only [not_or] at hc
    rw [List.nodup_append]
    refine ⟨h, by simp, ?_⟩
    intro a ha b hb
    simp only [List.mem_singleton] at hb
    subst hb
    intro hab
    subst hab
    exact hc.2 ha

theorem foldl_record_mem (parent : List String) (l ord : List String) (x : String) :
    x ∈ l.foldl (record parent) ord ↔ (x ∈ ord ∨ (x ∉ parent ∧ x ∈ l)) := by
  induction l generalizing ord with
  | nil => simp
  | cons n t ih =>
    rw [List.foldl_cons, ih, record_mem]
    simp only [List.mem_cons]
    constructor
    · rintro ((h | ⟨hp, rfl⟩) | ⟨hp, ht⟩)
      · exact Or.inl h
      · exact Or.inr ⟨hp, Or.inl rfl⟩
      · exact Or.inr ⟨hp, Or.inr ht⟩
    · rintro (h | ⟨hp, rfl | ht⟩)
      · exact Or.inl (Or.inl h)
      · exact Or.inl (Or.inr ⟨hp, rfl⟩)
      · exact Or.inr ⟨hp, ht⟩

theorem foldl_record_nodup (parent : List String) (l ord : List String) (h : ord.Nodup) :
    (l.foldl (record parent) ord).Nodup := by
  induction l generalizing ord with
  | nil => exact h
  | cons n t ih =>
    rw [List.foldl_cons]
    exact ih _ (record_nodup parent ord n h)

/-! ### the outer fold, with a general accumulator -/

theorem outer_nodup (arrange : List String → List String) (parent : List String)
    (bs : List (List String)) (acc : List String) (h : acc.Nodup) :
    (bs.foldl (fun ord names => (arrange names).foldl (record parent) ord) acc).Nodup := by
  induction bs generalizing acc with
  | nil => exact h
  | cons b t ih =>
    rw [List.foldl_cons]
    exact ih _ (foldl_record_nodup parent _ acc h)

theorem outer_mem (arrange : List String → List String) (parent : List String)
    (harr : ∀ l, (arrange l).Perm l)
    (bs : List (List String)) (acc : List String) (x : String) :
    x ∈ bs.foldl (fun ord names => (arrange names).foldl (record parent) ord) acc ↔
      (x ∈ acc ∨ (x ∉ parent ∧ ∃ b ∈ bs, x ∈ b)) := by
  induction bs generalizing acc with
  | nil => simp
  | cons b t ih =>
    rw [List.foldl_cons, ih, foldl_record_mem, (harr b).mem_iff]
    simp only [List.mem_cons, exists_eq_or_imp]
    constructor
    · rintro ((h | ⟨hp, hb⟩) | ⟨hp, ht⟩)
      · exact Or.inl h
      · exact Or.inr ⟨hp, Or.inl hb⟩
      · exact Or.inr ⟨hp, Or.inr ht⟩
    · rintro (h | ⟨hp, hb | ht⟩)
      · exact Or.inl (Or.inl h)
      · exact Or.inl (Or.inr ⟨hp, hb⟩)
      · exact Or.inr ⟨hp, ht⟩

theorem outer_sorted_congr (parent : List String) (bs bs' : List (List String)) (acc : List String)
    (hlen : bs.length = bs'.length)
    (h : ∀ i (h1 : i < bs.length) (h2 : i < bs'.length), (bs[i]).Perm (bs'[i])) :
    bs.foldl (fun ord names => (sorted names).foldl (record parent) ord) acc =
    bs'.foldl (fun ord names => (sorted names).foldl (record parent) ord) acc := by
  induction bs generalizing bs' acc with
  | nil =>
    cases bs' with
    | nil => rfl
    | cons b' t' => simp at hlen
  | cons b t ih =>
    cases bs' with
    | nil => simp at hlen
    | cons b' t' =>
      simp only [List.length_cons, Nat.add_right_cancel_iff] at hlen
      have h0 : b.Perm b' := h 0 (by simp) (by simp)
      rw [List.foldl_cons, List.foldl_cons, sorted_eq_of_perm h0]
      apply ih t' _ hlen
      intro i h1 h2
      have := h (i + 1) (by simp; omega) (by simp; omega)
      simpa using this

end Reduino.Lemmas.C10
