/-
  Model of src/Reduino/toolchain/pio.py: registry validation, lib section, env-name sanitising, platformio.ini
  rendering — and of a standard INI reader (configparser, no interpolation) at line level.
  Strings are `List Char` here so that theorems are plain list reasoning; the driver converts.
-/
namespace Reduino.Toolchain

abbrev Str := List Char

/-! ### registry -/

/-- platform name with its boards, in the order of `SUPPORTED_PLATFORMS` -/
abbrev Registry := List (String × List String)

/-- `BOARD_TO_PLATFORM[board]`: the dict comprehension lets a LATER platform win -/
def lastOwner : Registry → String → Option String
  | [], _ => none
  | (p, bs) :: rest, b =>
    match lastOwner rest b with
    | some q => some q
    | none => if b ∈ bs then some p else none

inductive Verdict where
  | ok | badPlatform | badBoard | mismatch
  deriving DecidableEq, Repr

/-- `validate_platform_board` (all three failures are ValueError; the class is kept for the tie) -/
def validate (reg : Registry) (platform board : String) : Verdict :=
  if ¬ reg.any (fun pb => pb.1 == platform) then .badPlatform
  else match lastOwner reg board with
    | none => .badBoard
    | some q => if q = platform then .ok else .mismatch

/-- every board belongs to exactly one platform, platforms are distinct -/
def Partition (reg : Registry) : Prop :=
  (reg.map (·.1)).Nodup ∧
  ∀ p bs q cs b, (p, bs) ∈ reg → (q, cs) ∈ reg → b ∈ bs → b ∈ cs → p = q

/-! ### lib section, env name -/

/-- `_format_lib_section`'s `unique` list: empties skipped, first occurrence kept -/
def dedupLibs : List Str → List Str → List Str
  | [], acc => acc.reverse
  | l :: rest, acc => if l = [] ∨ l ∈ acc then dedupLibs rest acc else dedupLibs rest (l :: acc)

def libLines (libs : List Str) : List Str :=
  match dedupLibs libs [] with
  | [] => []
  | u => "lib_deps =".toList :: u.map (fun n => ' ' :: ' ' :: n)

def isWord (c : Char) : Bool :=
  ('A' ≤ c ∧ c ≤ 'Z') || ('a' ≤ c ∧ c ≤ 'z') || ('0' ≤ c ∧ c ≤ '9') || c = '_'

/-- `re.sub(r"[^A-Za-z0-9_]+", "_", board)`: `inRun` = the previous character was already replaced -/
def sanitizeGo : Bool → Str → Str
  | _, [] => []
  | inRun, c :: rest =>
    if isWord c then c :: sanitizeGo false rest
    else if inRun then sanitizeGo true rest
    else '_' :: sanitizeGo true rest

def sanitize (s : Str) : Str := sanitizeGo false s

structure Cfg where
  port : Str
  platform : Str
  board : Str
  libs : List Str

/-- the lines of `PIO_INI.format(...)` before the final `.rstrip() + "\n"` (trailing blank lines dropped) -/
def iniLines (c : Cfg) : List Str :=
  [ "[env:".toList ++ sanitize c.board ++ "]".toList,
    "platform = ".toList ++ c.platform,
    "board = ".toList ++ c.board,
    "framework = arduino".toList,
    "upload_port = ".toList ++ c.port ] ++
  (match libLines c.libs with
   | [] => []
   | ls => [] :: ls)

def isSpace (c : Char) : Bool := c = ' ' || c = '\t' || c = '\n' || c = '\r' || c = '\x0b' || c = '\x0c'

def rstrip (s : Str) : Str := (s.reverse.dropWhile isSpace).reverse
def lstrip (s : Str) : Str := s.dropWhile isSpace
def strip (s : Str) : Str := rstrip (lstrip s)

/-- the whole file text: `PIO_INI.format(...).rstrip() + "\n"` -/
def renderIni (c : Cfg) : Str :=
  rstrip (List.intercalate ['\n'] (iniLines c ++ [[], [], []])) ++ ['\n']

/-! ### a standard INI reader, line level (configparser defaults: delimiters `=`/`:`, full-line comments
    `#`/`;`, indented continuation lines, blank lines allowed inside values, no interpolation) -/

structure Section where
  name : Str
  /-- options in file order: key, value lines (joined by the reader with "\n", then right-stripped) -/
  opts : List (Str × List Str)

structure PState where
  done : List Section := []          -- reversed
  cur : Option Section := none
  /-- indentation of the current option's key line; `none` when no option is open -/
  optIndent : Option Nat := none

def indentOf (l : Str) : Nat := (l.takeWhile isSpace).length

def isDelim (c : Char) : Bool := c = '=' || c = ':'

/-- `[header]` at the start of a stripped line: configparser's `\\[(?P<header>.+)\\]` matched at the start,
    so the header runs up to the LAST `]` of the line (anything after it is ignored) -/
def sectionName? (l : Str) : Option Str :=
  match l with
  | '[' :: rest =>
    match rest.reverse.dropWhile (· ≠ ']') with
    | [] => none
    | _ :: revBody => if revBody = [] then none else some revBody.reverse
  | _ => none

def appendToLast (s : Section) (v : Str) : Section :=
  match s.opts.reverse with
  | [] => s
  | (k, vs) :: before => { s with opts := (before.reverse ++ [(k, vs ++ [v])]) }

def closeCur (st : PState) : List Section :=
  match st.cur with
  | some s => s :: st.done
  | none => st.done

/-- one physical line.  Returns `none` on a parse error (option line before any section, no delimiter). -/
def feed (st : PState) (line : Str) : Option PState :=
  let s := strip line
  if s = [] then
    -- blank line: part of the value being continued, else ignored
    match st.cur, st.optIndent with
    | some sec, some _ => some { st with cur := some (appendToLast sec []) }
    | _, _ => some st
  else if s.head? = some '#' ∨ s.head? = some ';' then some st
  else
    let ind := indentOf line
    match st.cur, st.optIndent with
    | some sec, some oi =>
      if ind > oi then some { st with cur := some (appendToLast sec s) }
      else feedHead st line s ind
    | _, _ => feedHead st line s ind
where
  feedHead (st : PState) (_line s : Str) (ind : Nat) : Option PState :=
    match sectionName? s with
    | some n => some { done := closeCur st, cur := some { name := n, opts := [] }, optIndent := none }
    | none =>
      match st.cur with
      | none => none
      | some sec =>
        let key := rstrip (s.takeWhile (fun c => !isDelim c))
        let rest := s.dropWhile (fun c => !isDelim c)
        match rest with
        | [] => none
        | _ :: v =>
          if key = [] then none
          else some { st with cur := some { sec with opts := sec.opts ++ [(key.map Char.toLower, [strip v])] },
                              optIndent := some ind }

def joinValue (vs : List Str) : Str := rstrip (List.intercalate ['\n'] vs)

/-- parsed file: sections in order, each with (key, joined value) in order -/
def parseLines (ls : List Str) : Option (List (Str × List (Str × Str))) :=
  (ls.foldlM feed ({} : PState)).map fun st =>
    (closeCur st).reverse.map fun s => (s.name, s.opts.map fun kv => (kv.1, joinValue kv.2))

/-- the non-blank lines of a multi-line value (how `lib_deps` is consumed) -/
def valueItems (v : Str) : List Str :=
  ((v.splitOn '\n').map strip).filter (· ≠ [])

end Reduino.Toolchain
