/-
  Effect-sequence model of `Reduino.target()` (src/Reduino/__init__.py) and the two functions it calls in
  src/Reduino/toolchain/pio.py (`write_project`, `compile_upload`).  The script is abstracted to the facts the
  control flow depends on; every external step may fail at a chosen fault point.
-/
namespace Reduino.Toolchain

inductive Effect where
  | pioVersion            -- subprocess.run(["pio","--version"], check=True)
  | readMain              -- read the calling script
  | stderrServoNote
  | mkdtemp
  | mkdirSrc
  | writeMain             -- src/main.cpp := cpp
  | writeIni              -- platformio.ini
  | pioRun                -- subprocess.run(["pio","run"], cwd=project, check=True)
  | pioUpload             -- subprocess.run(["pio","run","-t","upload"], cwd=project, check=True)
  deriving DecidableEq, Repr

inductive Fault where
  | none | read | parse | emit | mkdtemp | mkdir | writeMain | writeIni | build | upload
  deriving DecidableEq, Repr

inductive Outcome where
  | returnsCpp
  | valueError            -- invalid platform/board pair
  | runtimeError          -- PlatformIO missing
  | propagated (f : Fault)
  deriving DecidableEq, Repr

structure Scenario where
  pairValid : Bool
  upload : Bool
  pioPresent : Bool
  needsServo : Bool
  fault : Fault
  deriving DecidableEq, Repr

def Effect.name : Effect → String
  | .pioVersion => "pio--version" | .readMain => "read-main" | .stderrServoNote => "stderr-servo"
  | .mkdtemp => "mkdtemp" | .mkdirSrc => "mkdir-src" | .writeMain => "write-main" | .writeIni => "write-ini"
  | .pioRun => "pio-run" | .pioUpload => "pio-run-upload"

def Fault.name : Fault → String
  | .none => "none" | .read => "read" | .parse => "parse" | .emit => "emit" | .mkdtemp => "mkdtemp"
  | .mkdir => "mkdir" | .writeMain => "write-main" | .writeIni => "write-ini" | .build => "build" | .upload => "upload"

def Outcome.name : Outcome → String
  | .returnsCpp => "returns-cpp" | .valueError => "ValueError" | .runtimeError => "RuntimeError"
  | .propagated f => "propagated:" ++ f.name

/-- run the steps in order; a step is (effect performed when reached, fault that makes it raise) -/
def runSteps (fault : Fault) : List (Option Effect × Fault) → List Effect → List Effect × Outcome
  | [], acc => (acc.reverse, .returnsCpp)
  | (e, f) :: rest, acc =>
    let acc' := match e with | some e => e :: acc | none => acc
    if f ≠ .none ∧ f = fault then (acc'.reverse, .propagated f) else runSteps fault rest acc'

/-- `target(port, upload=…, platform=…, board=…)` -/
def target (sc : Scenario) : List Effect × Outcome :=
  if !sc.pairValid then ([], .valueError)
  else if sc.upload && !sc.pioPresent then ([.pioVersion], .runtimeError)
  else
    let pre : List Effect := if sc.upload then [.pioVersion] else []
    let steps : List (Option Effect × Fault) :=
      [ (some .readMain, .read), (none, .parse) ] ++
      (if sc.needsServo then [(some .stderrServoNote, .none)] else []) ++
      [ (none, .emit), (some .mkdtemp, .mkdtemp), (some .mkdirSrc, .mkdir),
        (some .writeMain, .writeMain), (some .writeIni, .writeIni) ] ++
      (if sc.upload then [(some .pioRun, .build), (some .pioUpload, .upload)] else [])
    runSteps sc.fault steps pre.reverse

def Effect.isWrite : Effect → Bool
  | .mkdtemp | .mkdirSrc | .writeMain | .writeIni => true
  | _ => false

def Effect.isPio : Effect → Bool
  | .pioVersion | .pioRun | .pioUpload => true
  | _ => false

end Reduino.Toolchain
