import Reduino.Lang.Escape
import Reduino.Lang.WF
import Reduino.Lang.Tr2
import Reduino.Props.C14
import Reduino.Lemmas.C06
/-
  C06 — accepted scripts yield well-formed, compilable C++.
  * string literals: the literal written for ANY string without a raw newline is read back by a C++ lexer as exactly
    that string, ending at the closing quote (all strings, all continuations);
  * scoping: for every core-fragment script that reads names only after they are bound (`Closed`), the sketch `tr`
    produces declares every identifier before use, once, and keeps `break` inside a loop; the temporaries of tuple
    assignments (W5) are block-scoped locals: in scope for the rest of their block, declared at most once per block
    (`declsOk`, `blockDecls … Nodup` — a consequence of the parser's counter threading, `Stmt.numberedFrom`);
  * shape: the rendered sketch has exactly one `setup` and one `loop` opener, in that order, and its braces balance —
    for every sketch (the text is rendered from a tree);
  * headers ⊇ instantiated library classes: C14's theorems (re-exported).
  What the C++ type checker accepts beyond scoping (templates, overloads, `String` conversions) is decided only by the
  compiler in the correspondence check.
-/
namespace Reduino.Props.C06
open Reduino.Lang Reduino.Lang.Esc Reduino.Lang.WF Reduino.Lemmas.C06

/-- every string literal is correctly escaped: the compiler reads back exactly the Python value -/
theorem escape_roundtrip (s rest : List Char) (h : '\n' ∉ s) :
    readLiteral (literal s ++ rest) = some (s, rest) := by
  exact escape_roundtrip' s rest h

/-- a literal never ends early: no proper prefix of the escaped body closes the literal (corollary, stated on lengths) -/
theorem escape_length (s : List Char) :
    (escape s).length = s.length + (s.filter fun c => c = '\\' || c = '"').length := by
  exact escape_length' s

/-- outside the hypothesis: a raw newline in the value makes the literal ill-formed (the property quantifies over
    printable literals, so this is the boundary, not a violation) -/
theorem newline_counterexample : readLiteral (literal ['a', '\n', 'b']) = none := by
  decide

/-- escaping in the other order (quotes first) is wrong: `"` would come back as `\"` -/
theorem reversed_order_wrong :
    readLiteral ('"' :: replaceChar '\\' ['\\', '\\'] (replaceChar '"' ['\\', '"'] ['"']) ++ ['"']) ≠ some (['"'], []) := by
  decide

/-- declared before use, once, `break` only in loops — for every accepted Closed script of the fragment -/
theorem tr_wf (p : Prog) (c : CProg) (ht : tr p = .ok c) (hc : Closed p = true) : wf c = true := by
  exact tr_wf' p c ht hc

/-- the same for sketches with hoisted declarations (`tr2`: names first assigned inside a top-level branch or loop body become
    globals): if every name the script reads is one of the sketch's globals or a `for` variable in scope, and `break` sits in a loop,
    the sketch is well-formed — every assigned name is declared exactly once at file scope, whatever block first assigned it -/
theorem tr2_wf (p : Prog) (c : CProg) (ht : tr2 p = .ok c)
    (hpre : readsOk (c.globals.map (·.1)) false p.pre = true)
    (hbody : ∀ b, p.body = some b → readsOk (c.globals.map (·.1)) true b = true) : wf c = true := by
  exact tr2_wf' p c ht hpre hbody

/-- `Closed` is not vacuous and `tr` accepts such programs -/
example : ∃ p c, Closed p = true ∧ tr p = .ok c ∧ c.globals.length = 2 := by
  refine ⟨⟨.seq (.assign "a" (.int 1)) (.seq (.assign "b" (.bin .add (.var "a") (.int 1))) (.forRange "i" (.var "b") (.write (.var "i")))),
    some (.aug "a" .add (.var "b")), []⟩, ?_⟩
  exact ⟨_, by decide +kernel, rfl, by decide +kernel⟩

/-- (W5) tuple assignments: the temporaries `__tmp_assign_N` are block-scoped locals — two in `setup()`, three in the `for` body, two
    in `loop()`, each declared once in its block (the parser's counter), each read only by the assignments that follow it -/
example : ∃ p c, Closed p = true ∧ tr p = .ok c ∧ wf c = true ∧ blockDecls c.setup = ["__tmp_assign_0", "__tmp_assign_1"] ∧
    blockDecls c.loop = ["__tmp_assign_5", "__tmp_assign_6"] := by
  refine ⟨⟨.seq (.assign "a" (.int 0)) (.seq (.assign "b" (.int 1)) (.seq (.assign "f" (.bool false))
            (.seq (.tuple 0 ["a", "b"] [.var "b", .bin .add (.var "a") (.var "b")])
             (.forRange "i" (.int 2)
                (.tuple 2 ["a", "b", "f"] [.var "b", .bin .add (.var "a") (.int 1), .cmp .lt (.var "a") (.var "b")]))))),
        some (.seq (.tuple 5 ["a", "b"] [.var "b", .bin .add (.var "a") (.var "b")]) (.write (.var "a"))), []⟩, ?_⟩
  exact ⟨_, by decide +kernel, rfl, by decide +kernel, by decide +kernel, by decide +kernel⟩

/-- a sketch that declares the same temporary twice in one block, or reads one before its declaration, is not well-formed -/
example : wf ⟨[("a", .int, .int 0)], .seq (.ctuple 0 [.int] ["a"] [.var "a"]) (.ctuple 0 [.int] ["a"] [.var "a"]), .skip, []⟩ = false ∧
    wf ⟨[("a", .int, .int 0)], .ctuple 0 [.int, .int] ["a", "a"] [.var "__tmp_assign_1", .var "a"], .skip, []⟩ = false ∧
    wf ⟨[("a", .int, .int 0)], .seq (.ctuple 0 [.int] ["a"] [.var "a"]) (.ctuple 1 [.int] ["a"] [.var "__tmp_assign_0"]), .skip, []⟩ = true := by
  decide +kernel

/-- Python keeps the loop variable after the loop; the sketch's `int i` is gone: the script runs in Python (no
    NameError), is accepted, and does not compile -/
theorem loop_var_after_loop_counterexample :
    let p : Prog := ⟨.seq (.forRange "i" (.int 3) .skip) (.write (.var "i")), none, []⟩
    (∃ t, Py.run p 0 100 = .ok t) ∧ (∃ c, tr p = .ok c ∧ wf c = false) := by
  exact ⟨⟨_, rfl⟩, ⟨_, rfl, by decide +kernel⟩⟩

/-- the tagged rendering is the rendering -/
theorem klines_text (c : CProg) : c.klines.map (·.2.2) = c.lines := by
  exact cprog_klines_text c

/-- exactly one `setup` and one `loop`, in that order -/
theorem one_setup_one_loop (c : CProg) :
    (c.klines.map (·.1)).filter (fun s => s = Sec.setupOpen || s = Sec.loopOpen) = [Sec.setupOpen, Sec.loopOpen] := by
  exact cprog_one_setup_one_loop c

/-- braces balance and never close below depth 0 -/
theorem render_balanced (c : CProg) : kdepth 0 (c.klines.map (·.2.1)) = some 0 := by
  exact cprog_render_balanced c

/-- the brace kind is what the text shows, for sketches whose identifiers are identifiers -/
theorem kind_matches_text_example :
    let c : CProg := ⟨[("a", .int, .int 1)], .ifs (.cmp .lt (.var "a") (.int 2)) (.write (.var "a")) (.sleep (.int 1)), .whileLoop (.bool true) .brk, []⟩
    c.klines.all (fun l => (l.2.1 == LK.open_) == l.2.2.endsWith "{" && (l.2.1 == LK.close) == l.2.2.startsWith "}") = true := by
  decide +kernel

/-- headers: every library class the sketch instantiates has its header included, and conversely (C14) -/
theorem headers_cover_instances (ds : List Libs.Decl) (h : Libs.Documented ds) :
    Libs.libs ds = Libs.includes ds ∧ Libs.includes ds = Libs.instantiated ds :=
  Reduino.Props.C14.libs_includes_instances_agree ds h

end Reduino.Props.C06
