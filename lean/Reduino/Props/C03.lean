import Reduino.Lang.ConstEnv
import Reduino.Lang.EvalConst
import Reduino.Lemmas.C03
/-
  C03 — transpile-time evaluation (constant folding / propagation) never changes meaning.

  (a) the evaluator (`_eval_const`, Lang/EvalConst.lean): whatever it computes from the part of the environment it knows is what
      the expression evaluates to under EVERY completion of that environment — in particular a name-free expression folds to its
      one Python value; chained comparisons mean the conjunction of the adjacent comparisons.
  (b) the constant environment and its fold sites (Lang/ConstEnv.lean): for every script in which the names read by fold sites are
      only written by top-level statements (`FoldSafe`), the emitted program observes, on EVERY execution path (any branch choices,
      any iteration counts), exactly what the source observes.  Without the side condition the statement is false: four witnesses,
      each reproduced on the real transpiler as a known finding.
-/
namespace Reduino.Props.C03
open Reduino.Lang Reduino.Lemmas.C03

/-! ### (a) the evaluator -/

/-- folding under partial knowledge is stable under every completion of the environment -/
theorem eval_mono (g s : EC.Env) (e : EC.PExpr) (v : EC.Val)
    (hext : ∀ x w, g.lookup x = some (some w) → s.lookup x = some (some w))
    (h : EC.eval g e = .ok v) : EC.eval s e = .ok v :=
  mono_eval _ g s hext e v h

/-- [W7] the same for every outcome but the evaluator's own ValueError (which is what an unknown name gives): an expression that
    leaves the model's value domain under partial knowledge (`floatResult`: `/`, `**` with a negative exponent), or on which a
    Python operation raises, does so under every completion — more knowledge never turns a float into a folded value -/
theorem eval_mono_outcome (g s : EC.Env) (e : EC.PExpr) (er : EC.Err) (hne : er ≠ .value)
    (hext : ∀ x w, g.lookup x = some (some w) → s.lookup x = some (some w))
    (h : EC.eval g e = .error er) : EC.eval s e = .error er := by
  rcases amono_eval _ g s hext e with h1 | h1
  · rw [EC.eval] at h; rw [h] at h1; cases h1; exact absurd rfl hne
  · rw [EC.eval, h1]; exact h

/-- a value folded without any environment is the value at every program point -/
theorem fold_namefree_sound (e : EC.PExpr) (v : EC.Val) (h : EC.eval [] e = .ok v) (s : EC.Env) : EC.eval s e = .ok v :=
  eval_mono [] s e v (fun x w hx => by simp at hx) h

/-- `a op1 b op2 c` is `(a op1 b) and (b op2 c)` -/
theorem chained_compare_is_conjunction (g : EC.Env) (a b c : EC.PExpr) (o1 o2 : EC.CmpOp) :
    EC.eval g (.compare a [(o1, b), (o2, c)]) = EC.eval g (.and (.compare a [(o1, b)]) (.compare b [(o2, c)])) := by
  simp only [EC.eval, EC.evalH, EC.evalChainH, bind, Except.bind, pure, Except.pure]
  generalize EC.evalH (fun _ => .error .value) g a = A
  generalize EC.evalH (fun _ => .error .value) g b = B
  generalize EC.evalH (fun _ => .error .value) g c = C
  cases A with
  | error e => rfl
  | ok l =>
    cases B with
    | error e => rfl
    | ok r =>
      simp only []
      cases hc : EC.applyCmp o1 l r with
      | error e => rfl
      | ok t =>
        cases t with
        | false => simp [EC.Val.truthy]
        | true => simp [EC.Val.truthy]

/-- the middle operand matters: `10 > 2 > 5` is False although `10 > 2` and `10 > 5` -/
theorem chained_compare_uses_adjacent_operands :
    EC.eval [] (.compare (.const (.int 10)) [(.gt, .const (.int 2)), (.gt, .const (.int 5))]) = .ok (.bool false) := by
  simp [EC.eval, EC.evalH, EC.evalChainH, bind, Except.bind, pure, Except.pure, EC.applyCmp, EC.Val.num?, EC.cmpInt]

/-! ### (b) the constant environment -/
open CE

/-- C03 on fold-safe scripts: same observations on every execution path -/
theorem C03_partial (prog : List Node) (h : FoldSafe prog = true) (fuel : Nat) (choices : List Nat) :
    run fuel choices (transpile prog) = run fuel choices prog :=
  transpile_sound prog h fuel choices

mutual
/-- no assignment of a transpile-time constant anywhere in the script -/
def noConstBindNode : Node → Bool
  | .bind _ _ => false
  | .branches bs => noConstBindBranches bs
  | .loop body => noConstBindList body
  | .mainLoop body => noConstBindList body
  | _ => true
def noConstBindList : List Node → Bool
  | [] => true
  | n :: rest => noConstBindNode n && noConstBindList rest
def noConstBindBranches : List (List Node) → Bool
  | [] => true
  | b :: rest => noConstBindList b && noConstBindBranches rest
end

/- helper for `nothing_known_nothing_folded` (stated here because it speaks about `noConstBind*` defined above) -/
mutual
theorem nkNode : ∀ (n : Node) (p : PState), NoKnow p → noConstBindNode n = true →
    NoKnow (foldNode p n).1 ∧ (foldNode p n).2 = n
  | .bind x v, p, hp, h => by rw [noConstBindNode] at h; cases h
  | .bindDyn x v, p, hp, _ => hp.simple _ rfl (fun _ _ h => by cases h)
  | .append x v, p, hp, _ => hp.simple _ rfl (fun _ _ h => by cases h)
  | .remove x v, p, hp, _ => hp.simple _ rfl (fun _ _ h => by cases h)
  | .obs x, p, hp, _ => hp.simple _ rfl (fun _ _ h => by cases h)
  | .obsConst v, p, hp, _ => hp.simple _ rfl (fun _ _ h => by cases h)
  | .branches bs, p, hp, h => by
    rw [noConstBindNode] at h
    rw [foldNode]; simp only []
    exact ⟨hp, by rw [nkBranches bs p hp h]⟩
  | .loop body, p, hp, h => by
    rw [noConstBindNode] at h
    rw [foldNode]; simp only []
    exact ⟨hp, by rw [(nkList body p hp h).2]⟩
  | .mainLoop body, p, hp, h => by
    rw [noConstBindNode] at h
    rw [foldNode]; simp only []
    exact ⟨hp, by rw [(nkList body p hp h).2]⟩
theorem nkList : ∀ (l : List Node) (p : PState), NoKnow p → noConstBindList l = true →
    NoKnow (foldList p l).1 ∧ (foldList p l).2 = l
  | [], p, hp, _ => by rw [foldList]; exact ⟨hp, rfl⟩
  | n :: rest, p, hp, h => by
    rw [noConstBindList, Bool.and_eq_true] at h
    rw [foldList]; simp only []
    have h1 := nkNode n p hp h.1
    have h2 := nkList rest _ h1.1 h.2
    exact ⟨h2.1, by rw [h1.2, h2.2]⟩
theorem nkBranches : ∀ (bs : List (List Node)) (p : PState), NoKnow p → noConstBindBranches bs = true →
    (foldBranches p bs).2 = bs
  | [], p, hp, _ => by rw [foldBranches]
  | b :: rest, p, hp, h => by
    rw [noConstBindBranches, Bool.and_eq_true] at h
    rw [foldBranches]; simp only []
    rw [(nkList b p hp h.1).2, nkBranches rest { p with heap := (foldList p b).1.heap } hp h.2]
end

/-- routing every value through run-time variables leaves nothing to fold: the emitted program is the source -/
theorem nothing_known_nothing_folded (prog : List Node) (h : noConstBindList prog = true) : transpile prog = prog :=
  (nkList prog {} NoKnow.empty h).2

/-- a parameter hides a module-level constant of the same name: inside the function body no read of a parameter (that the body
    does not itself re-bind) is folded, whatever the environment at the `def` knows about that name -/
theorem param_reads_stay_runtime (p : PState) (params : List String) (body : List Node) (x : String)
    (hx : x ∈ params) (hw : x ∉ writesList body) :
    countObsList x (foldFunction p params body) = countObsList x body :=
  countList_unknown x body _ (enterFunction_lookup params p x (Or.inl hx)) hw

/-- without the reset the global's value would be baked in: `msg = "hello"`; `def count(msg): return len(msg)` -/
theorem param_shadow_needs_reset :
    let p : PState := (foldList {} [.bind "msg" (.str "hello")]).1
    countObsList "msg" (foldList p [.obs "msg"]).2 = 0 ∧ countObsList "msg" (foldFunction p ["msg"] [.obs "msg"]) = 1 := by
  simp [foldFunction, enterFunction, foldList, foldNode, PState.bindStr, PState.known, countObsList, countObsNode]

/-- `xs = [1, 2]`; `if …: xs.append(3)`; `len(xs)` — the branch is not taken, the folded length counts the append -/
theorem append_in_untaken_branch_counterexample :
    let p : List Node := [.bind "xs" (.list [1, 2]), .branches [[.append "xs" 3]], .obs "xs"]
    run 10 [5] p = some [.list [1, 2]] ∧ run 10 [5] (transpile p) = some [.list [1, 2, 3]] := by
  simp [run, execList, execNode, transpile, foldList, foldNode, foldBranches, PState.bindStr, PState.known, CE.Store.set, List.lookup]

/-- `for i in range(3): xs.append(7)`; the append is parsed once, executed three times -/
theorem append_in_loop_counterexample :
    let p : List Node := [.bind "xs" (.list [1, 2]), .loop [.append "xs" 7], .obs "xs"]
    run 10 [3] p = some [.list [1, 2, 7, 7, 7]] ∧ run 10 [3] (transpile p) = some [.list [1, 2, 7]] := by
  simp [run, execList, execNode, execTimes, transpile, foldList, foldNode, PState.bindStr, PState.known, CE.Store.set, List.lookup]

/-- `s = "ab"`; `if …: s = "abcd"`; `len(s)` — the branch is taken, the rebinding was forgotten when the block closed -/
theorem rebind_in_taken_branch_counterexample :
    let p : List Node := [.bind "s" (.str "ab"), .branches [[.bind "s" (.str "abcd")]], .obs "s"]
    run 10 [0] p = some [.str "abcd"] ∧ run 10 [0] (transpile p) = some [.str "ab"] := by
  simp [run, execList, execNode, transpile, foldList, foldNode, foldBranches, PState.bindStr, PState.known, CE.Store.set, List.lookup]

/-- `while True:` body: `len(s)` then `s = s + "x"` — the second pass still sees the folded first value -/
theorem main_loop_stale_counterexample :
    let p : List Node := [.bind "s" (.str "ab"), .mainLoop [.obs "s", .bindDyn "s" (.str "abx")]]
    run 10 [2] p = some [.str "ab", .str "abx"] ∧ run 10 [2] (transpile p) = some [.str "ab", .str "ab"] := by
  simp [run, execList, execNode, execTimes, transpile, foldList, foldNode, PState.bindStr, PState.known, CE.Store.set, List.lookup]

/-- the property as stated (all scripts, all paths) does not hold of the transpiler -/
theorem C03_statement_false : ¬ (∀ (prog : List Node) (fuel : Nat) (choices : List Nat),
    run fuel choices (transpile prog) = run fuel choices prog) := by
  intro h
  have h1 := rebind_in_taken_branch_counterexample
  simp only [h _ 10 [0]] at h1
  rw [h1.1] at h1
  simp at h1

/-- `FoldSafe` is satisfiable by a script that folds inside a loop, a branch and the main loop, next to unrelated nested writes -/
example :
    let p : List Node := [.bind "s" (.str "ab"), .bind "xs" (.list [1, 2]), .append "xs" 3, .bind "ys" (.list [0]),
      .loop [.obs "xs", .append "ys" 1], .branches [[.obs "s"], [.bind "t" (.str "q")]], .bind "s" (.str "abc"), .mainLoop [.obs "s", .obs "xs", .append "ys" 2]]
    FoldSafe p = true ∧ run 20 [2, 0, 2] (transpile p) = some [.list [1, 2, 3], .list [1, 2, 3], .str "ab", .str "abc", .list [1, 2, 3], .str "abc", .list [1, 2, 3]] := by
  refine ⟨by decide, ?_⟩
  simp [run, execList, execNode, execTimes, transpile, foldList, foldNode, foldBranches, PState.bindStr, PState.known, CE.Store.set, List.lookup]

end Reduino.Props.C03
