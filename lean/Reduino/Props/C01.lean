import Reduino.Lang.Render
namespace Reduino.Props.C01
theorem stub : True := trivial
end Reduino.Props.C01
