import Reduino.Lang.Render
import Reduino.Lang.InF
import Reduino.Lemmas.C01
import Reduino.Lang.Tr2
import Reduino.Lemmas.C01p
import Reduino.GenOb.Ops
/-
  C01 — Reject-or-preserve: firmware behaves as the Python source says (core language).

  `Py.run` is Python's semantics of the source fragment, `tr` the transpiler on that fragment (tied to parser+emitter
  by the text tie T), `C.run` the C++ semantics of what it emits (tied to g++ by S_c).
  Full statement (`C01_statement`): whenever `tr` accepts, the device trace equals CPython's for every number of
  loop() passes.  It is FALSE of the current transpiler outside the fragment `InF` (see the `…_counterexample`
  theorems and known findings K01a–K01j); proved part: `C01_partial`, all programs of `InF`, all N.
  C `int` overflow is undefined behaviour: the conclusion allows the C run to report `overflow` instead.
  `//` and `%` are emitted as C's `/` and `%`, which differ from Python's on operands of opposite sign (K01b, K01c):
  the C semantics has two readings (`C.Mode`).  The theorems speak about the STRICT reading (the default argument),
  in which a `/` or `%` with a negative dividend or divisor stops the run with `signedDiv`, and allow that outcome
  next to `overflow`; a strict run that succeeds is a run of the RAW reading, C's own (`strict_run_is_raw_run`).
  The witnesses `floor_division_negative_counterexample`, `modulo_negative_counterexample` and `C01_statement`
  itself are stated on the raw reading.
  Expression language of the fragment (W1): int/bool values, `+ - *`, bitwise `& | ^` (Python's two's-complement
  semantics on unbounded ints; `& | ^` of two bools is a bool), `//` and `%` (Python: floor / sign of the divisor,
  ZeroDivisionError on a zero divisor), `abs(e)`, `min(a, b)` / `max(a, b)` over int-typed operands (C side: the
  Arduino macros, with the overflow check on the negation inside `abs`), unary minus, comparisons, and/or/not,
  conditional expressions.
  Statements (W5): tuple (parallel) assignment `x0, x1, … = e0, e1, …` to names already declared with the types of the right-hand
  sides, at top level, in nested blocks and in the main loop: Python evaluates every right-hand side in the old store and then binds the
  targets left to right (`Py.evalList`, `Store.setAll`); the sketch declares one block-scoped temporary `__tmp_assign_N` per
  right-hand side (N from the counter the parser threads through the whole script: `Stmt.tmpEnd`, `Prog.numbered`) and then assigns
  the targets from the temporaries (`C.declTemps`, `C.assignTemps`, `C.dropTemps`).  `C01_partial` and `C01_partial_promotion` cover it
  (statements unchanged: `InF`/`InF2`, `tr`/`tr2` and both semantics gained the constructor).
  Text (W13): `Val.str` / `Ty.string` (the Arduino `String`), string literals of printable ASCII (emitted through
  `_escape_string_literal`, `Esc.escape`), string-typed names (global `String` declarations, default `""`, assignment, tuple assignment,
  promotion), conditional expressions over strings, `str(e)` of an int- or string-typed expression (`String(e)`), `+` on two strings
  (a literal left operand is emitted as `String("…")`; `s += e`), f-strings as the fold of `+` the emitter makes of them, and
  `mon.write` of a string-typed expression; a serial line (`Ev.write`) now carries
  the printed TEXT, an int printing in decimal on both sides (`toString`, `Val.text`; bools stay out of `write`).  Python's TypeErrors
  (`"a" + 1`, `-"a"`, `"a" < 1`, `range("a")`, `sleep("a")`) are `Err.typeError`; `Expr.wt` keeps strings out of conditions, counts,
  arithmetic and comparisons (the theorems' statements are textually unchanged; the store relation of `expr_preserved` says `Ty.holds`).
  The operator tokens `Render` prints are tied to the transpiler's `_BIN`/`_UN`/`_CMP` tables by the
  obligations of `GenOb/Ops.lean`.
  Helper functions (W6): `Stmt.call` — `f(args)` / `x = f(args)` at statement level; the statement carries the definition it calls
  (`Prog.helpers`, `Prog.resolved`: the listed definition of that name, earlier helpers only, no recursion).  Python: arguments in the
  caller's store, a fresh frame with the parameters, the body, the value of the one trailing `return`; C++: arguments converted to the
  parameter types, the body under parameters + locals (a local declared by its first top-level assignment), `return` converted to the
  return type.  `tr` emits ONE definition per helper (all-int parameters for a helper never called with a target: `Prog.sigsOk`;
  prototypes only with more than one definition).  `C01_partial` and `C01_partial_promotion` cover procedures and value-returning helpers
  whose bodies name parameters and locals only (statements unchanged: `InF`/`InF2`, `tr`/`tr2` and both semantics gained the
  constructor); module-level names inside a body are outside (`nameError` of the model).
-/
namespace Reduino.Props.C01
open Reduino.Lang

/-- the property as stated (for the modelled syntax), on the raw reading of the C semantics (C's own `/` and `%`) -/
def C01_statement : Prop :=
  ∀ (p : Prog) (c : CProg) (N fuel : Nat) (t : List Ev),
    tr p = .ok c → Py.run p N fuel = .ok t → ∃ fuel', C.run c N fuel' .raw = .ok t

/-- translation correctness on the fragment, for every program, every N (strict reading of `/`, `%`) -/
theorem C01_partial (p : Prog) (c : CProg) (N fuel : Nat) (t : List Ev)
    (hin : InF p = true) (htr : tr p = .ok c) (hpy : Py.run p N fuel = .ok t) :
    ∃ fuel', C.run c N fuel' = .ok t ∨ C.run c N fuel' = .error .overflow ∨ C.run c N fuel' = .error .signedDiv :=
  Reduino.Lemmas.C01.C01_partial_aux p c N fuel t hin htr hpy

/-- the strict reading only ever stops EARLIER than C: a strict run that ends `.ok t` is a raw run ending `.ok t` -/
theorem strict_run_is_raw_run (c : CProg) (N fuel : Nat) (t : List Ev) (h : C.run c N fuel = .ok t) :
    C.run c N fuel .raw = .ok t :=
  Reduino.Lemmas.C01.run_strict_raw c N fuel t h

/-- hence, on the fragment: the sketch — with C's own `/` and `%` — yields the Python trace, unless the strict run met a signed
    overflow or a division with a negative operand -/
theorem C01_partial_raw (p : Prog) (c : CProg) (N fuel : Nat) (t : List Ev)
    (hin : InF p = true) (htr : tr p = .ok c) (hpy : Py.run p N fuel = .ok t) :
    ∃ fuel', C.run c N fuel' .raw = .ok t ∨ C.run c N fuel' = .error .overflow ∨ C.run c N fuel' = .error .signedDiv := by
  obtain ⟨fuel', h | h⟩ := C01_partial p c N fuel t hin htr hpy
  · exact ⟨fuel', .inl (strict_run_is_raw_run c N fuel' t h)⟩
  · exact ⟨fuel', .inr h⟩

/-- a `break` that would leave the main loop is always rejected, through any nesting of `if` -/
def breaksOut : Stmt → Bool
  | .brk => true
  | .seq a b => breaksOut a || breaksOut b
  | .ifs _ t e => breaksOut t || breaksOut e
  | _ => false

theorem break_in_main_loop_rejected (pre body : Stmt) (h : breaksOut body = true) :
    (∃ e, tr { pre := pre, body := some body } = .error e) := by
  have key : ∀ body, breaksOut body = true → ∀ te, ∃ e, trNested te true 0 body = .error e := by
    intro body
    induction body with
    | brk => intro _ te; exact ⟨.breakInMainLoop, by simp [trNested]⟩
    | seq a b iha ihb =>
      intro hb te
      simp only [breaksOut, Bool.or_eq_true] at hb
      rw [trNested]
      cases ha' : trNested te true 0 a with
      | error e => exact ⟨e, rfl⟩
      | ok a' =>
        rcases hb with hb | hb
        · obtain ⟨e, he⟩ := iha hb te; rw [he] at ha'; cases ha'
        · obtain ⟨e, he⟩ := ihb hb te; rw [he]; exact ⟨e, rfl⟩
    | ifs c a b iha ihb =>
      intro hb te
      simp only [breaksOut, Bool.or_eq_true] at hb
      rw [trNested]
      cases ha' : trNested te true 0 a with
      | error e => exact ⟨e, rfl⟩
      | ok a' =>
        rcases hb with hb | hb
        · obtain ⟨e, he⟩ := iha hb te; rw [he] at ha'; cases ha'
        · obtain ⟨e, he⟩ := ihb hb te; rw [he]; exact ⟨e, rfl⟩
    | _ => intro hb; simp [breaksOut] at hb
  have core : ∃ e, trCore { pre := pre, body := some body } = .error e := by
    unfold trCore
    cases hacc : trTop {} pre with
    | error e => exact ⟨e, rfl⟩
    | ok acc =>
      obtain ⟨e, he⟩ := key body h acc.te
      refine ⟨e, ?_⟩
      show (do let loop ← trNested acc.te true 0 body; pure _) = _
      rw [he]; rfl
  unfold tr
  split
  · obtain ⟨e, he⟩ := core
    exact withHelpers_error he
  · exact ⟨_, rfl⟩

/-- expression level: on well-typed expressions Python's value and C's value agree up to the declared-type
    conversion (the heart of the simulation) -/
theorem expr_preserved (te : C.TyEnv) (sp sc : Store) (e : Expr) (v : Val)
    (hwt : e.wt te = true)
    (hrel : ∀ x t, te.lookup x = some t → ∀ pv, sp.get x = some pv → sc.get x = some (C.conv t pv) ∧ t.holds pv = true)
    (hpy : Py.eval sp e = .ok v) :
    C.eval te sc e = .ok (C.conv (inferTy te e) v) ∨ C.eval te sc e = .error .overflow ∨ C.eval te sc e = .error .signedDiv :=
  Reduino.Lemmas.C01.expr_sim te sp sc hrel e v hwt hpy

/-! ### the full statement fails outside the fragment -/

/-- `x or y` on ints: the operand value is lost (K01e) -/
theorem and_or_value_counterexample :
    let p : Prog := { pre := .seq (.assign "x" (.int 0)) (.seq (.assign "y" (.int 5))
                        (.seq (.assign "z" (.or (.var "x") (.var "y"))) (.write (.bin .add (.var "z") (.int 0))))), body := none }
    Py.run p 0 50 = .ok [.write "5"] ∧ (∃ c, tr p = .ok c ∧ C.run c 0 50 = .ok [.write "1"]) := by
  intro p
  exact ⟨by rfl, _, rfl, by rfl⟩

/-- `for i in range(n)` with `n` changed in the body: C re-evaluates the limit (K01h) -/
theorem range_limit_counterexample :
    let p : Prog := { pre := .seq (.assign "n" (.int 3)) (.forRange "i" (.var "n")
                        (.seq (.assign "n" (.bin .sub (.var "n") (.int 1))) (.write (.bin .add (.var "i") (.int 0))))), body := none }
    Py.run p 0 50 = .ok [.write "0", .write "1", .write "2"] ∧ (∃ c, tr p = .ok c ∧ C.run c 0 50 = .ok [.write "0", .write "1"]) := by
  intro p
  exact ⟨by rfl, _, rfl, by rfl⟩

/-- `//` on operands of opposite sign: Python floors, the emitted `/` truncates (K01b).  Raw reading; the strict reading stops. -/
theorem floor_division_negative_counterexample :
    let p : Prog := { pre := .seq (.assign "x" (.int 7)) (.seq (.assign "y" (.neg (.int 2)))
                        (.write (.bin .fdiv (.var "x") (.var "y")))), body := none }
    Py.run p 0 50 = .ok [.write "-4"] ∧
      (∃ c, tr p = .ok c ∧ C.run c 0 50 .raw = .ok [.write "-3"] ∧ C.run c 0 50 = .error .signedDiv) := by
  intro p
  exact ⟨by rfl, _, rfl, by rfl, by rfl⟩

/-- `%` with a negative dividend: Python's result has the sign of the divisor, C's the sign of the dividend (K01c) -/
theorem modulo_negative_counterexample :
    let p : Prog := { pre := .seq (.assign "x" (.neg (.int 7))) (.seq (.assign "y" (.int 3))
                        (.write (.bin .fmod (.var "x") (.var "y")))), body := none }
    Py.run p 0 50 = .ok [.write "2"] ∧
      (∃ c, tr p = .ok c ∧ C.run c 0 50 .raw = .ok [.write "-1"] ∧ C.run c 0 50 = .error .signedDiv) := by
  intro p
  exact ⟨by rfl, _, rfl, by rfl, by rfl⟩

/-- a zero divisor: Python raises ZeroDivisionError (the theorems' premise excludes the run); in C it is undefined behaviour -/
theorem zero_divisor_raises :
    let p : Prog := { pre := .seq (.assign "x" (.int 7)) (.seq (.assign "y" (.int 0))
                        (.write (.bin .fmod (.var "x") (.var "y")))), body := none }
    Py.run p 0 50 = .error .zeroDiv ∧ (∃ c, tr p = .ok c ∧ C.run c 0 50 .raw = .error .zeroDiv) := by
  intro p
  exact ⟨by rfl, _, rfl, by rfl⟩

theorem C01_statement_false : ¬ C01_statement := by
  intro h
  obtain ⟨hpy, c, htr, hc⟩ := and_or_value_counterexample
  obtain ⟨fuel', hc'⟩ := h _ c 0 50 _ htr hpy
  have := Reduino.Lemmas.C01.C_run_det (strict_run_is_raw_run _ _ _ _ hc) hc'
  exact absurd this (by decide)

/-- …and of the division operators alone: the raw run of the floor-division witness prints -3 where Python prints -4 -/
theorem C01_statement_false_by_division : ¬ C01_statement := by
  intro h
  obtain ⟨hpy, c, htr, hc, _⟩ := floor_division_negative_counterexample
  obtain ⟨fuel', hc'⟩ := h _ c 0 50 _ htr hpy
  have := Reduino.Lemmas.C01.C_run_det hc hc'
  exact absurd this (by decide)

/-- non-vacuity: a program with control flow inside the fragment, accepted and run -/
example :
    let p : Prog := { pre := .seq (.assign "a" (.int 2)) (.assign "f" (.cmp .lt (.int 1) (.int 2))),
                      body := some (.seq (.aug "a" .add (.int 1)) (.ifs (.and (.var "f") (.cmp .gt (.var "a") (.int 3))) (.write (.var "a")) .skip)) }
    InF p = true ∧ (∃ c, tr p = .ok c) ∧ Py.run p 3 50 = .ok [.write "4", .write "5"] := by
  intro p
  exact ⟨by decide, ⟨_, rfl⟩, by rfl⟩

/-- non-vacuity (W1, stage 1): bitwise operators on negative ints and on bools, `^=`, accepted and run -/
example :
    let p : Prog := { pre := .seq (.assign "a" (.neg (.int 7))) (.seq (.assign "f" (.cmp .lt (.int 1) (.int 2)))
                        (.write (.bin .add (.bin .band (.var "f") (.bool true)) (.bin .bor (.var "a") (.int 12))))),
                      body := some (.seq (.aug "a" .bxor (.int 12)) (.write (.bin .band (.var "a") (.int 255)))) }
    InF p = true ∧ (∃ c, tr p = .ok c) ∧ Py.run p 2 50 = .ok [.write "-2", .write "245", .write "249"] := by
  intro p
  exact ⟨by decide, ⟨_, rfl⟩, by rfl⟩

/-- non-vacuity (W1, stage 2): `abs`, `min`, `max` (a three-argument `max` is the left fold), in a constant initialiser, a
    folded `sleep` argument and at run time -/
example :
    let p : Prog := { pre := .seq (.assign "a" (.abs (.neg (.int 4)))) (.seq (.assign "b" (.neg (.int 9)))
                        (.seq (.sleep (.mm .min (.int 30) (.abs (.neg (.int 20)))))
                              (.write (.mm .max (.mm .max (.var "b") (.int 3)) (.var "a"))))),
                      body := some (.seq (.aug "b" .add (.int 7)) (.write (.bin .sub (.abs (.var "b")) (.mm .min (.var "a") (.var "b"))))) }
    InF p = true ∧ (∃ c, tr p = .ok c) ∧ Py.run p 2 50 = .ok [.delay 20, .write "4", .write "4", .write "1"] := by
  intro p
  exact ⟨by decide, ⟨_, rfl⟩, by rfl⟩

/-- non-vacuity (W1, stage 3): `//`, `%`, `//=` on non-negative dividends and positive divisors (a folded constant initialiser, a
    folded `sleep` argument, run-time values): accepted, and the STRICT run of the sketch yields the Python trace -/
example :
    let p : Prog := { pre := .seq (.assign "a" (.bin .fdiv (.int 47) (.int 5))) (.seq (.assign "k" (.int 3))
                        (.seq (.sleep (.bin .fmod (.int 47) (.int 10)))
                              (.write (.bin .add (.bin .fmod (.var "a") (.var "k")) (.bin .fdiv (.var "a") (.var "k")))))),
                      body := some (.seq (.aug "a" .fdiv (.int 2)) (.write (.bin .fmod (.bin .mul (.var "a") (.int 7)) (.var "k")))) }
    InF p = true ∧ (∃ c, tr p = .ok c ∧ C.run c 2 50 = .ok [.delay 7, .write "3", .write "1", .write "2"]) ∧
      Py.run p 2 50 = .ok [.delay 7, .write "3", .write "1", .write "2"] := by
  intro p
  exact ⟨by decide, ⟨_, rfl, by rfl⟩, by rfl⟩

/-! ### promotion: names first assigned inside a top-level branch or loop body of the prologue (`tr2`, Lang/Tr2.lean) -/

/-- `tr2` is a conservative extension: on the fragment of `tr` it produces the same sketch -/
theorem tr2_extends_tr (p : Prog) (c : CProg) (hin : InF p = true) (htr : tr p = .ok c) : tr2 p = .ok c := by
  have _ := hin   -- not needed: `tr2` agrees with `tr` wherever `tr` accepts
  exact Reduino.Lemmas.C01p.tr2_of_tr p c htr

/-- the old fragment is part of the new one -/
theorem InF_subset_InF2 (p : Prog) (hin : InF p = true) : InF2 p = true :=
  Reduino.Lemmas.C01p.InF2_of_InF p hin

/-- translation correctness with hoisted declarations: for every program of `InF2` (names may be first assigned directly in
    the body of a top-level if/elif/else branch or while/for loop of the prologue), every N: whenever CPython completes the run
    (in particular it never reads a hoisted name before assigning it), the sketch produces the same trace -/
theorem C01_partial_promotion (p : Prog) (c : CProg) (N fuel : Nat) (t : List Ev)
    (hin : InF2 p = true) (htr : tr2 p = .ok c) (hpy : Py.run p N fuel = .ok t) :
    ∃ fuel', C.run c N fuel' = .ok t ∨ C.run c N fuel' = .error .overflow ∨ C.run c N fuel' = .error .signedDiv :=
  Reduino.Lemmas.C01p.C01_partial_promotion_aux p c N fuel t hin htr hpy

/-- a hoisted name read before its first assignment: Python raises NameError, the sketch prints the default 0 —
    the theorem's premise `Py.run … = .ok t` is what excludes it -/
theorem promoted_read_before_assignment :
    let p : Prog := { pre := .seq (.assign "c" (.int 0)) (.seq (.ifs (.cmp .gt (.var "c") (.int 0)) (.assign "x" (.int 5)) .skip)
                        (.write (.bin .add (.var "x") (.int 0)))), body := none }
    Py.run p 0 50 = .error .nameError ∧ (∃ c, tr2 p = .ok c ∧ C.run c 0 50 = .ok [.write "0"]) := by
  intro p
  let c0 : CProg := {
    globals := [("c", Ty.int, Expr.int 0), ("x", Ty.int, Expr.int 0)]
    setup := .seq (.ifs (.cmp .gt (.var "c") (.int 0)) (.assign "x" (.int 5)) .skip) (.write (.bin .add (.var "x") (.int 0)))
    loop := .skip }
  have h : tr2 p = .ok c0 := by
    simp [p, c0, tr2, tr2Core, withHelpers, Prog.resolved, Prog.sigsOk, helpersOk, Stmt.callsOk, Stmt.valueCalls, trHelpers, Prog.numbered, Stmt.numberedFrom, Stmt.tmpEnd, trTop2, trTop, trChain2, trBody2, trNested, sortDecls, newDecls, addPromoted,
      Reduino.Lemmas.C01p.sorted_single, inferTy, evalConst, Expr.nameFree, Py.eval, defaultOf, seqOf, List.lookup,
      bind, Except.bind, pure, Except.pure, Except.toOption]
  exact ⟨by rfl, c0, h, by rfl⟩

/-- non-vacuity: promotion out of an if/else chain and out of a for loop -/
example :
    let p : Prog := { pre := .seq (.assign "c" (.int 1))
                        (.seq (.ifs (.cmp .gt (.var "c") (.int 0)) (.seq (.assign "zed" (.int 5)) (.assign "abe" (.cmp .lt (.var "zed") (.int 9))))
                                 (.assign "zed" (.int 7)))
                        (.seq (.forRange "i" (.int 3) (.seq (.assign "s" (.var "i")) (.aug "s" .add (.var "zed"))))
                              (.write (.var "s")))),
                      body := some (.seq (.aug "s" .add (.int 1)) (.write (.var "s"))) }
    InF2 p = true ∧ InF p = false ∧ (∃ c, tr2 p = .ok c ∧ c.globals.map (·.1) = ["c", "abe", "zed", "s"]) ∧
      Py.run p 2 80 = .ok [.write "7", .write "8", .write "9"] := by
  intro p
  have h : ∃ c, tr2 p = .ok c ∧ c.globals.map (·.1) = ["c", "abe", "zed", "s"] := by
    simp [p, tr2, tr2Core, withHelpers, Prog.resolved, Prog.sigsOk, helpersOk, Stmt.callsOk, Stmt.valueCalls, trHelpers, Prog.numbered, Stmt.numberedFrom, Stmt.tmpEnd, trTop2, trTop, trChain2, trBody2, trNested, sortDecls, newDecls, addPromoted,
      Reduino.Lemmas.C01p.sorted_single, Reduino.Lemmas.C01p.sorted_zed_abe, inferTy, evalConst, Expr.nameFree, Py.eval,
      defaultOf, seqOf, List.lookup, foldArg, bind, Except.bind, pure, Except.pure, Except.toOption]
  exact ⟨by decide, by decide, h, by rfl⟩

/-- non-vacuity (W5): tuple assignment at top level, inside a `for` body (three targets, one of them bool) and in the main loop —
    a Fibonacci-style update; the program is in the fragment, is accepted (temporaries numbered 0,1 / 2,3,4 / 5,6 by the threaded
    counter), and both semantics run it to the same trace -/
example :
    let p : Prog :=
      { pre := .seq (.assign "a" (.int 0)) (.seq (.assign "b" (.int 1)) (.seq (.assign "f" (.bool false))
            (.seq (.tuple 0 ["a", "b"] [.var "b", .bin .add (.var "a") (.var "b")])
             (.forRange "i" (.int 2)
                (.tuple 2 ["a", "b", "f"] [.var "b", .bin .add (.var "a") (.int 1), .cmp .lt (.var "a") (.var "b")]))))),
        body := some (.seq (.tuple 5 ["a", "b"] [.var "b", .bin .add (.var "a") (.var "b")]) (.write (.var "a"))) }
    InF p = true ∧ Py.run p 3 60 = .ok [.write "2", .write "4", .write "6"] ∧
      (∃ c, tr p = .ok c ∧ C.run c 3 60 = .ok [.write "2", .write "4", .write "6"] ∧
        c.loop.lines = ["int __tmp_assign_5 = b;", "int __tmp_assign_6 = (a + b);", "a = __tmp_assign_5;", "b = __tmp_assign_6;",
          "Serial.println(a);"]) := by
  intro p
  exact ⟨by decide +kernel, by rfl, _, rfl, by rfl, by decide +kernel⟩

/-- a swap is a swap: Python binds the targets after evaluating both right-hand sides; the sketch goes through the temporaries -/
example :
    let p : Prog := { pre := .seq (.assign "a" (.int 1)) (.seq (.assign "b" (.int 2))
                        (.seq (.tuple 0 ["a", "b"] [.var "b", .var "a"]) (.seq (.write (.var "a")) (.write (.var "b"))))), body := none }
    InF p = true ∧ Py.run p 0 50 = .ok [.write "2", .write "1"] ∧ (∃ c, tr p = .ok c ∧ C.run c 0 50 = .ok [.write "2", .write "1"]) := by
  intro p
  exact ⟨by decide +kernel, by rfl, _, rfl, by rfl⟩

/-- non-vacuity (W13, increment 1): text.  A literal with a character the C++ literal escapes, string-typed names (one a constant
    global, one assigned at run time from a conditional expression), serial lines carrying a string and an int, and a tuple assignment
    of strings in the main loop: in the fragment, accepted, and both semantics print the same lines -/
example :
    let p : Prog :=
      { pre := .seq (.assign "s" (.str "a\"b")) (.seq (.assign "n" (.int 3))
            (.seq (.assign "t" (.ite (.cmp .gt (.var "n") (.int 2)) (.var "s") (.str "lo")))
            (.seq (.write (.var "t")) (.write (.bin .sub (.int 0) (.var "n")))))),
        body := some (.seq (.tuple 0 ["s", "t"] [.var "t", .str "x"]) (.write (.var "s"))) }
    InF p = true ∧ Py.run p 2 50 = .ok [.write "a\"b", .write "-3", .write "a\"b", .write "x"] ∧
      (∃ c, tr p = .ok c ∧ C.run c 2 50 = .ok [.write "a\"b", .write "-3", .write "a\"b", .write "x"] ∧
        c.lines.take 4 = ["#include <Arduino.h>", "String s = \"a\\\"b\";", "int n = 3;", "String t = \"\";"] ∧
        c.loop.lines = ["String __tmp_assign_0 = t;", "String __tmp_assign_1 = \"x\";", "s = __tmp_assign_0;", "t = __tmp_assign_1;",
          "Serial.println(s);"]) := by
  intro p
  exact ⟨by decide +kernel, by rfl, _, rfl, by rfl, by decide +kernel, by decide +kernel⟩

/-- non-vacuity (W13, increment 2): `str(e)` of an int-typed expression and `+` on strings — a literal LEFT operand is emitted as
    `String("…")`, `s += "!"` becomes `s = (s + "!")`; in the fragment, accepted, same lines on both sides -/
example :
    let p : Prog :=
      { pre := .seq (.assign "n" (.int 4)) (.seq (.assign "s" (.bin .add (.str "n=") (.toStr (.var "n")))) (.write (.var "s"))),
        body := some (.seq (.aug "s" .add (.str "!")) (.seq (.aug "n" .add (.int 1))
                  (.write (.bin .add (.bin .add (.var "s") (.toStr (.bin .mul (.var "n") (.int 2)))) (.str ";"))))) }
    InF p = true ∧ Py.run p 2 50 = .ok [.write "n=4", .write "n=4!10;", .write "n=4!!12;"] ∧
      (∃ c, tr p = .ok c ∧ C.run c 2 50 = .ok [.write "n=4", .write "n=4!10;", .write "n=4!!12;"] ∧
        c.setup.lines = ["s = (String(\"n=\") + String(n));", "Serial.println(s);"] ∧
        c.loop.lines = ["s = (s + \"!\");", "n = (n + 1);", "Serial.println(((s + String((n * 2))) + \";\"));"]) := by
  intro p
  exact ⟨by decide +kernel, by rfl, _, rfl, by rfl, by decide +kernel, by decide +kernel⟩

/-- non-vacuity (W13, increment 3): f-strings.  `_to_c_expr` turns a `JoinedStr` with formatted values into the left fold of `+` over
    its parts, a formatted value `{e}` becoming `String(e)` and the first part, when it is literal text, `String("…")`; an f-string
    without formatted values is a plain literal.  That fold is an expression of the fragment (`toStr`, `+`, literals): the generator
    prints `f"n={n} s={s}!"` and sends the model the tree below; T compares the rendered line with the emitted one, S_py the value
    with CPython's `format(v, "")` -/
example :
    let fs : Expr := .bin .add (.bin .add (.bin .add (.bin .add (.str "n=") (.toStr (.var "n"))) (.str " s=")) (.toStr (.var "s"))) (.str "!")
    let p : Prog := { pre := .seq (.assign "n" (.int 3)) (.seq (.assign "s" (.str "ab")) (.seq (.assign "w" fs) (.write (.var "w")))), body := none }
    InF p = true ∧ Py.run p 0 50 = .ok [.write "n=3 s=ab!"] ∧
      (∃ c, tr p = .ok c ∧ C.run c 0 50 = .ok [.write "n=3 s=ab!"] ∧
        c.setup.lines = ["w = ((((String(\"n=\") + String(n)) + \" s=\") + String(s)) + \"!\");", "Serial.println(w);"]) := by
  intro fs p
  exact ⟨by decide +kernel, by rfl, _, rfl, by rfl, by decide +kernel⟩

/-- `("a" if c else "b") + "c"` is emitted as `((c ? "a" : "b") + "c")`, a sum of two `const char*`, which no C++ compiler accepts:
    outside the fragment (`Expr.binTyOk`); with a `String` on the right it is inside -/
example :
    let bad : Prog := { pre := .seq (.assign "n" (.int 1)) (.write (.bin .add (.ite (.cmp .gt (.var "n") (.int 0)) (.str "a") (.str "b")) (.str "c"))),
                        body := none }
    let good : Prog := { pre := .seq (.assign "n" (.int 1)) (.write (.bin .add (.ite (.cmp .gt (.var "n") (.int 0)) (.str "a") (.str "b")) (.toStr (.var "n")))),
                         body := none }
    InF bad = false ∧ InF good = true ∧ Py.run good 0 50 = .ok [.write "a1"] ∧ (∃ c, tr good = .ok c ∧ C.run c 0 50 = .ok [.write "a1"]) := by
  intro bad good
  exact ⟨by decide +kernel, by decide +kernel, by rfl, _, rfl, by rfl⟩

/-- `str()` of a bool is kept out: CPython prints `True`, `String(true)` is `1` -/
example : InF { pre := .seq (.assign "f" (.bool true)) (.write (.toStr (.var "f"))), body := none } = false := by decide +kernel

/-- Python's TypeErrors are errors of the model: `"a" + 1`; a string in arithmetic position is outside `InF` -/
example :
    let p : Prog := { pre := .write (.bin .add (.str "a") (.int 1)), body := none }
    Py.run p 0 50 = .error .typeError ∧ InF p = false := by
  intro p
  exact ⟨by rfl, by decide +kernel⟩

/-- a string is not a condition of the fragment (Python: non-empty; the `String` class converts differently) -/
example : InF { pre := .seq (.assign "s" (.str "a")) (.ifs (.var "s") (.write (.var "s")) .skip), body := none } = false := by
  decide +kernel

/-- a program whose stored temporary numbers are not the parser's is not a translation unit of the model -/
example : tr { pre := .seq (.assign "a" (.int 1)) (.seq (.assign "b" (.int 2)) (.tuple 7 ["a", "b"] [.var "b", .var "a"])), body := none }
    = .error .outsideFragment := by rfl

/-- a first assignment by tuple (the all-new-at-global-scope form, or the local declarations of finding F17) is outside the model -/
example : tr { pre := .seq (.assign "a" (.int 1)) (.tuple 0 ["a", "b"] [.int 2, .var "a"]), body := none }
    = .error .outsideFragment := by rfl

/-! ### W6: helper functions — in the model (syntax, both semantics, `tr`, rendering) and in the fragment `InF` (procedures and
    value-returning helpers, called at statement level; bodies over parameters and locals) -/

/-- `def shout(v): mon.write(v); sleep(5)` / `def scale(v, flag): t = v * 2; if flag: t = t + 1; shout(t); return t`, then
    `a = 0; a = scale(4, True); shout(a)` and `a = scale(a, False)` in the main loop: accepted (the statements carry the definitions they
    call: `Prog.resolve`), both semantics run it to the same trace, the emitted text has the two prototypes (more than one definition),
    the definitions with the local declared at its first assignment, and the calls.  The program is in `InF` (increment 3:
    value-returning helpers), so this is an instance of `C01_partial`. -/
example :
    let shout : Helper := { name := "shout", ps := [("v", .int)], body := .seq (.write (.var "v")) (.sleep (.int 5)), ret := none }
    let scale : Helper := { name := "scale", ps := [("v", .int), ("flag", .bool)], ret := some (.var "t"), body := .seq (.assign "t" (.bin .mul (.var "v") (.int 2))) (.seq (.ifs (.var "flag") (.assign "t" (.bin .add (.var "t") (.int 1))) .skip) (.call none "shout" [] [] .int .skip none [.var "t"])) }
    let p : Prog := Prog.resolve
      { pre := .seq (.assign "a" (.int 0)) (.seq (.call (some "a") "scale" [] [] .int .skip none [.int 4, .bool true])
                  (.call none "shout" [] [] .int .skip none [.var "a"])),
        body := some (.call (some "a") "scale" [] [] .int .skip none [.var "a", .bool false]),
        helpers := [shout, scale] }
    p.resolved = true ∧ InF p = true ∧
      Py.run p 2 50 = .ok [.write "9", .delay 5, .write "9", .delay 5, .write "18", .delay 5, .write "36", .delay 5] ∧
      (∃ c, tr p = .ok c ∧
        C.run c 2 50 = .ok [.write "9", .delay 5, .write "9", .delay 5, .write "18", .delay 5, .write "36", .delay 5] ∧
        c.lines = ["#include <Arduino.h>", "int a = 0;", "void shout(int v);", "int scale(int v, bool flag);",
          "void shout(int v) {", "Serial.println(v);", "delay(5);", "}",
          "int scale(int v, bool flag) {", "int t = (v * 2);", "if (flag) {", "t = (t + 1);", "}", "shout(t);", "return t;", "}",
          "void setup() {", "Serial.begin(9600);", "a = scale(4, true);", "shout(a);", "}",
          "void loop() {", "a = scale(a, false);", "}"]) := by
  intro shout scale p
  exact ⟨by decide +kernel, by decide +kernel, by rfl, _, rfl, by rfl, by decide +kernel⟩

/-- non-vacuity (W6, increment 2): procedures.  `def shout(v): mon.write(v); sleep(5)` and
    `def count(n, k): t = 0; for j in range(n): t += k; shout(t)` (a local declared at the top of the body, a loop, a call of the
    earlier helper), called in the prologue, inside an `if` and in the main loop: `InF` holds, `tr` accepts, both semantics agree —
    an instance of `C01_partial` -/
example :
    let shout : Helper := { name := "shout", ps := [("v", .int)], body := .seq (.write (.var "v")) (.sleep (.int 5)), ret := none }
    let count : Helper := { name := "count", ps := [("n", .int), ("k", .int)], ret := none, body := .seq (.assign "t" (.int 0)) (.forRange "j" (.var "n") (.seq (.aug "t" .add (.var "k")) (.call none "shout" [] [] .int .skip none [.var "t"]))) }
    let p : Prog := Prog.resolve
      { pre := .seq (.assign "a" (.int 2)) (.seq (.call none "count" [] [] .int .skip none [.var "a", .int 3])
                  (.ifs (.cmp .gt (.var "a") (.int 1)) (.call none "shout" [] [] .int .skip none [.bin .mul (.var "a") (.int 10)]) .skip)),
        body := some (.seq (.aug "a" .add (.int 1)) (.call none "count" [] [] .int .skip none [.int 1, .var "a"])),
        helpers := [shout, count] }
    InF p = true ∧ InF2 p = true ∧
      Py.run p 2 50 = .ok [.write "3", .delay 5, .write "6", .delay 5, .write "20", .delay 5, .write "3", .delay 5, .write "4", .delay 5] ∧
      (∃ c, tr p = .ok c ∧
        C.run c 2 50 = .ok [.write "3", .delay 5, .write "6", .delay 5, .write "20", .delay 5, .write "3", .delay 5, .write "4", .delay 5] ∧
        c.loop.lines = ["a = (a + 1);", "count(1, a);"]) := by
  intro shout count p
  exact ⟨by decide +kernel, by decide +kernel, by rfl, _, rfl, by rfl, by decide +kernel⟩

/-- the frame of a call is fresh: a helper body that names a module-level name is a NameError of the model's Python side and outside
    `InF` (increment 4 — read-only access to module-level names — is not done); `x = f(…)` with a procedure `f` binds `None` in
    Python and does not compile: a `typeError` of both semantics, outside `InF` -/
example :
    let p : Prog := Prog.resolve
      { pre := .seq (.assign "a" (.int 2)) (.call none "peek" [] [] .int .skip none [.int 1]), body := none,
        helpers := [{ name := "peek", ps := [("v", .int)], body := .write (.bin .add (.var "v") (.var "a")), ret := none }] }
    let q : Prog := Prog.resolve
      { pre := .seq (.assign "a" (.int 2)) (.call (some "a") "peek" [] [] .int .skip none [.int 1]), body := none,
        helpers := [{ name := "peek", ps := [("v", .int)], body := .write (.var "v"), ret := none }] }
    InF p = false ∧ Py.run p 0 50 = .error .nameError ∧ InF q = false ∧ Py.run q 0 50 = .error .typeError ∧
      tr q = .error .outsideFragment := by
  intro p q
  exact ⟨by decide +kernel, by rfl, by decide +kernel, by rfl, by rfl⟩

/-- one definition: no prototype (`if len(functions) > 1`); a helper that is only ever called as a STATEMENT is emitted with all-int
    parameters (the definition-time parse; nothing requests another signature), so the model refuses a bool-typed parameter there -/
example :
    let mk (t : Ty) : Prog := Prog.resolve
      { pre := .seq (.assign "a" (.int 1)) (.call none "say" [] [] .int .skip none [.cmp .lt (.var "a") (.int 2)]),
        body := none, helpers := [{ name := "say", ps := [("f", t)], body := .ifs (.var "f") (.write (.int 1)) .skip, ret := none }] }
    tr (mk .bool) = .error .outsideFragment ∧
    (let q : Prog := Prog.resolve
      { pre := .seq (.assign "a" (.int 1)) (.call none "say" [] [] .int .skip none [.var "a"]),
        body := none, helpers := [{ name := "say", ps := [("f", .int)], body := .ifs (.var "f") (.write (.int 1)) .skip, ret := none }] }
     ∃ c, tr q = .ok c ∧ c.lines = ["#include <Arduino.h>", "int a = 1;", "void say(int f) {", "if (f) {", "Serial.println(1);", "}", "}",
        "void setup() {", "Serial.begin(9600);", "say(a);", "}", "void loop() {", "}"] ∧ C.run c 0 50 = .ok [.write "1"] ∧
        Py.run q 0 50 = .ok [.write "1"]) := by
  intro mk
  exact ⟨by rfl, _, rfl, by decide +kernel, by rfl, by rfl⟩

/-- no recursion: a body may call EARLIER helpers only (`helpersOk`), so a self-call is not a translation unit of the model -/
example :
    let p : Prog := { pre := .skip, body := none, helpers := [{ name := "f", ps := [("n", .int)], body := .call none "f" [("n", .int)] [] .int .skip none [.var "n"], ret := none }] }
    p.resolved = false ∧ tr p = .error .outsideFragment := by
  intro p
  exact ⟨by decide +kernel, by rfl⟩

end Reduino.Props.C01
