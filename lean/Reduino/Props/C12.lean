import Reduino.Toolchain.Target
/-
  C12 — target(): validate first, transpile faithfully, upload only on request.
  Theorems range over every scenario: pair valid or not, upload or not, PlatformIO present or absent, a Servo
  note or not, and every fault point.
-/
namespace Reduino.Props.C12
open Reduino.Toolchain

/-- an invalid pair is rejected with ValueError before anything is written or executed -/
theorem invalid_pair_rejected_first (sc : Scenario) (h : sc.pairValid = false) :
    target sc = ([], .valueError) := by
  obtain ⟨pv, up, pio, servo, f⟩ := sc
  revert h
  cases pv <;> cases up <;> cases pio <;> cases servo <;> cases f <;> decide

/-- PlatformIO is needed only when an upload is requested -/
theorem pio_only_on_upload (sc : Scenario) (h : sc.upload = false) :
    ∀ e ∈ (target sc).1, e.isPio = false := by
  obtain ⟨pv, up, pio, servo, f⟩ := sc
  revert h
  cases pv <;> cases up <;> cases pio <;> cases servo <;> cases f <;> decide

/-- transpile-only use succeeds without PlatformIO -/
theorem transpile_only_without_pio (sc : Scenario) (hv : sc.pairValid = true) (hu : sc.upload = false)
    (hf : sc.fault = .none) : (target sc).2 = .returnsCpp ∧ .writeMain ∈ (target sc).1 ∧ .writeIni ∈ (target sc).1 := by
  obtain ⟨pv, up, pio, servo, f⟩ := sc
  revert hv hu hf
  cases pv <;> cases up <;> cases pio <;> cases servo <;> cases f <;> decide

/-- a missing PlatformIO with upload=True is a RuntimeError raised before anything is written -/
theorem missing_pio_before_writes (sc : Scenario) (hv : sc.pairValid = true) (hu : sc.upload = true)
    (hp : sc.pioPresent = false) :
    (target sc).2 = .runtimeError ∧ ∀ e ∈ (target sc).1, e.isWrite = false := by
  obtain ⟨pv, up, pio, servo, f⟩ := sc
  revert hv hu hp
  cases pv <;> cases up <;> cases pio <;> cases servo <;> cases f <;> decide

/-- build then upload run if and only if upload is true, in that order, after the project was written -/
theorem build_upload_iff (sc : Scenario) (hok : (target sc).2 = .returnsCpp) :
    (sc.upload = true → ∃ pre, (target sc).1 = pre ++ [.pioRun, .pioUpload] ∧ .writeMain ∈ pre ∧ .writeIni ∈ pre) ∧
    (sc.upload = false → .pioRun ∉ (target sc).1 ∧ .pioUpload ∉ (target sc).1) := by
  have key : (target sc).2 = .returnsCpp →
      (sc.upload = true →
        (target sc).1 = (target sc).1.take ((target sc).1.length - 2) ++ [.pioRun, .pioUpload] ∧
        .writeMain ∈ (target sc).1.take ((target sc).1.length - 2) ∧
        .writeIni ∈ (target sc).1.take ((target sc).1.length - 2)) ∧
      (sc.upload = false → .pioRun ∉ (target sc).1 ∧ .pioUpload ∉ (target sc).1) := by
    obtain ⟨pv, up, pio, servo, f⟩ := sc
    cases pv <;> cases up <;> cases pio <;> cases servo <;> cases f <;> decide
  obtain ⟨h1, h2⟩ := key hok
  exact ⟨fun hu => ⟨_, h1 hu⟩, h2⟩

/-- a failed build never proceeds to upload, and every tool/IO failure propagates to the caller -/
theorem failures_propagate (sc : Scenario) (hv : sc.pairValid = true) (hp : sc.upload = true → sc.pioPresent = true)
    (hf : sc.fault ≠ .none) (hreach : (sc.fault = .build ∨ sc.fault = .upload) → sc.upload = true) :
    (target sc).2 = .propagated sc.fault ∧ (sc.fault = .build → .pioUpload ∉ (target sc).1) := by
  obtain ⟨pv, up, pio, servo, f⟩ := sc
  revert hv hp hf hreach
  cases pv <;> cases up <;> cases pio <;> cases servo <;> cases f <;> decide

/-- success means: main.cpp and the ini were written exactly once each, after validation -/
theorem success_writes_once (sc : Scenario) (hok : (target sc).2 = .returnsCpp) :
    ((target sc).1.count .writeMain = 1) ∧ ((target sc).1.count .writeIni = 1) ∧ sc.pairValid = true := by
  obtain ⟨pv, up, pio, servo, f⟩ := sc
  revert hok
  cases pv <;> cases up <;> cases pio <;> cases servo <;> cases f <;> decide

example : (target ⟨true, true, true, true, .none⟩).2 = .returnsCpp := by decide

end Reduino.Props.C12
