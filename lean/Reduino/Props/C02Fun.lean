import Reduino.Props.C02
import Reduino.Lang.TypesFun
import Reduino.Lemmas.C02Fun
/-
  C02, helper functions — "every … function parameter and function result in the generated firmware holds the same value Python holds
  at that point … a function returns the join of all its return expressions".

  Model: Lang/TypesFun.lean (a non-recursive helper in structured form: straight-line body, then any one of its return expressions),
  on top of Lang/Types.lean.  Float carrier: any ordered field `K` with floor.
  Proved: for a call whose serving variant is `FunStable` (no argument narrowed into its parameter, body assignments and return
  expressions tame and of their names' declared types) and whose return types merge, the C++ call returns `rep retType v` for the
  value `v` Python returns, WHICHEVER return statement the execution reaches; no return value is narrowed, the result type is the least
  type above all return types; helpers that never assign their parameters get one variant per call signature, each sound for its own
  arguments.  The unrestricted statement is false: witnesses below, each reproduced on the real transpiler.
  Outside this model: C++ overload resolution among the emitted variants (K06c, K02 "int + float-literal call sites": a `double` literal
  argument against `f(int)`/`f(float)`), recursion, helpers calling helpers, globals read in the body, several call signatures for a
  helper whose body re-types a parameter (the stored body then depends on the order of the requests).
-/
namespace Reduino.Props.C02Fun
open Reduino Reduino.Lang.Ty2 Reduino.Lemmas.C02 Reduino.Lemmas.C02Fun Reduino.Props.C02

set_option linter.unusedSectionVars false

variable {K : Type} [Field K] [LinearOrder K] [IsStrictOrderedRing K] [FloorRing K]

/-- the definition parsed for `ps`, called with tame arguments over a faithful caller store: on EVERY path (every choice `r` of the
    return statement reached) the C++ call completes and returns the faithful representation, in the merged result type, of the
    value Python returns -/
theorem callWith_preserves_value (gc : TEnv) (py c : Store K) (f : Fun K) (args : List (E K)) (ps : List T)
    (hs : StoreRep gc py c) (hargs : ∀ a ∈ args, Tame gc a = true)
    (hf : FunStable f ps (args.map (infer gc)))
    (rt : T) (hrt : f.retType ps = some rt)
    (r : E K) (hr : r ∈ f.rets) (v : V K) (hpy : f.callPy py args r = some v) :
    ∃ vc, f.callCWith ps gc c args r = some vc ∧ rep rt v = some vc := by
  obtain ⟨hW, hB, hR⟩ := hf
  unfold Fun.callPy at hpy
  obtain ⟨s0, hs0, hpy⟩ := Option.bind_eq_some_iff.1 hpy
  obtain ⟨s1, hs1, hv⟩ := Option.bind_eq_some_iff.1 hpy
  obtain ⟨c0, hc0, hrep0⟩ := bind_sim gc py c hs (f.tenv ps) f.params args s0 hargs hW hs0
  obtain ⟨c1, hc1, hrep1⟩ := run_simulates_from (f.tenv ps) f.body hB s0 c0 s1 hrep0 hs1
  obtain ⟨hTr, hIr⟩ := hR r hr
  obtain ⟨vc, hvc, hrv⟩ := evalC_sim (f.tenv ps) s1 c1 hrep1 r v hTr hv
  have hsub : sub (infer (f.tenv ps) r) rt = true := by
    rw [← hIr]
    exact mergeReturn_upper _ rt hrt _ (List.mem_map_of_mem hr)
  obtain ⟨w, hw⟩ := rep_of_sub (t := rt) (sub_trans (rep_sub hrv) hsub)
  refine ⟨w, ?_, hw⟩
  unfold Fun.callCWith
  rw [hrt]
  simp only [hc0, hc1, hvc, Option.bind_some, rep_comp hsub hrv, hw]

/-- C02 for a call of a helper: the variant that serves the argument types of the call site (`parseSig`), the type the parser
    gives the call expression (`callType`) -/
theorem call_preserves_value (gc : TEnv) (py c : Store K) (f : Fun K) (args : List (E K))
    (hs : StoreRep gc py c) (hargs : ∀ a ∈ args, Tame gc a = true)
    (hf : FunStable f (f.parseSig (args.map (infer gc))) (args.map (infer gc)))
    (rt : T) (hrt : f.callType gc args = some rt)
    (r : E K) (hr : r ∈ f.rets) (v : V K) (hpy : f.callPy py args r = some v) :
    ∃ vc, f.callC gc c args r = some vc ∧ rep rt v = some vc :=
  callWith_preserves_value gc py c f args _ hs hargs hf rt hrt r hr v hpy

/-- in particular the value Python returns fits the result type: a float is never returned through an int, a str never through a number -/
theorem call_result_not_narrowed (gc : TEnv) (py c : Store K) (f : Fun K) (args : List (E K))
    (hs : StoreRep gc py c) (hargs : ∀ a ∈ args, Tame gc a = true)
    (hf : FunStable f (f.parseSig (args.map (infer gc))) (args.map (infer gc)))
    (rt : T) (hrt : f.callType gc args = some rt)
    (r : E K) (hr : r ∈ f.rets) (v : V K) (hpy : f.callPy py args r = some v) : sub v.ty rt = true := by
  obtain ⟨vc, _, h⟩ := call_preserves_value gc py c f args hs hargs hf rt hrt r hr v hpy
  exact rep_sub h

/-- no return expression is narrowed by the result type … -/
theorem no_return_narrowed (f : Fun K) (ps : List T) (rt : T) (h : f.retType ps = some rt) :
    ∀ r ∈ f.rets, sub (infer (f.parsed ps).cur r) rt = true :=
  fun _ hr => mergeReturn_upper _ rt h _ (List.mem_map_of_mem hr)

/-- … and the result type is the JOIN of the return types: below every type that is above all of them -/
theorem return_type_is_join (f : Fun K) (ps : List T) (rt u : T) (h : f.retType ps = some rt)
    (hu : ∀ r ∈ f.rets, sub (infer (f.parsed ps).cur r) u = true) : sub rt u = true := by
  refine mergeReturn_least _ rt u h ?_
  intro t ht
  obtain ⟨r, hr, rfl⟩ := List.mem_map.1 ht
  exact hu r hr

/-- the transpiler refuses a helper exactly when it has no return expression or mixes str with another return type -/
theorem conflicting_returns_iff (f : Fun K) (ps : List T) :
    f.retType ps = none ↔ f.rets = [] ∨ (T.str ∈ f.retTypes ps ∧ ∃ t ∈ f.retTypes ps, t ≠ T.str) := by
  unfold Fun.retType
  rw [mergeReturn_rejects_iff]
  simp [Fun.retTypes]

/-! ### one variant per call signature -/

/-- a helper that never assigns its parameters: a call is served by the parse requested for its own argument types, whose parameter
    types are exactly those argument types — so two call sites with different argument types use two different definitions -/
theorem variant_per_signature (f : Fun K) (hk : f.ParamsKept) (hn : f.params.Nodup) (sig₁ sig₂ : List T)
    (h1 : sig₁.length = f.params.length) (h2 : sig₂.length = f.params.length) (hne : sig₁ ≠ sig₂) :
    f.parseSig sig₁ = sig₁ ∧ f.parseSig sig₂ = sig₂ ∧
    f.paramTypes (f.parseSig sig₁) = sig₁ ∧ f.paramTypes (f.parseSig sig₂) = sig₂ ∧
    f.paramTypes (f.parseSig sig₁) ≠ f.paramTypes (f.parseSig sig₂) := by
  have p1 := parseSig_kept f hk hn sig₁
  have p2 := parseSig_kept f hk hn sig₂
  have q1 := paramTypes_kept f hk hn sig₁ h1
  have q2 := paramTypes_kept f hk hn sig₂ h2
  refine ⟨p1, p2, by rw [p1, q1], by rw [p2, q2], ?_⟩
  rw [p1, p2, q1, q2]
  exact hne

/-- … each sound for its own arguments: both calls return Python's value on every path -/
theorem variants_sound (gc : TEnv) (py c : Store K) (f : Fun K) (hk : f.ParamsKept) (hn : f.params.Nodup)
    (args₁ args₂ : List (E K)) (hs : StoreRep gc py c)
    (hT1 : ∀ a ∈ args₁, Tame gc a = true) (hT2 : ∀ a ∈ args₂, Tame gc a = true)
    (hl1 : args₁.length = f.params.length) (hl2 : args₂.length = f.params.length)
    (hne : args₁.map (infer gc) ≠ args₂.map (infer gc))
    (hf1 : FunStable f (args₁.map (infer gc)) (args₁.map (infer gc)))
    (hf2 : FunStable f (args₂.map (infer gc)) (args₂.map (infer gc)))
    (rt₁ rt₂ : T) (hr1 : f.retType (args₁.map (infer gc)) = some rt₁) (hr2 : f.retType (args₂.map (infer gc)) = some rt₂) :
    f.paramTypes (f.parseSig (args₁.map (infer gc))) ≠ f.paramTypes (f.parseSig (args₂.map (infer gc))) ∧
    (∀ r ∈ f.rets, ∀ v, f.callPy py args₁ r = some v → ∃ vc, f.callC gc c args₁ r = some vc ∧ rep rt₁ v = some vc) ∧
    (∀ r ∈ f.rets, ∀ v, f.callPy py args₂ r = some v → ∃ vc, f.callC gc c args₂ r = some vc ∧ rep rt₂ v = some vc) := by
  obtain ⟨p1, p2, _, _, hd⟩ := variant_per_signature f hk hn _ _ (by simpa using hl1) (by simpa using hl2) hne
  refine ⟨hd, ?_, ?_⟩
  · intro r hr v hv
    exact call_preserves_value gc py c f args₁ hs hT1 (by rw [p1]; exact hf1) rt₁ (by unfold Fun.callType; rw [p1]; exact hr1) r hr v hv
  · intro r hr v hv
    exact call_preserves_value gc py c f args₂ hs hT2 (by rw [p2]; exact hf2) rt₂ (by unfold Fun.callType; rw [p2]; exact hr2) r hr v hv

/-! ### witnesses (carrier ℚ), each reproduced on the real transpiler -/

private theorem sne : (("w" : String) = "v") = False ∧ (("t" : String) = "v") = False ∧ (("s" : String) = "u") = False ∧
    (("wf" : String) = "wi") = False ∧ (("v" : String) = "w") = False ∧ (("v" : String) = "t") = False ∧ (("u" : String) = "s") = False :=
  ⟨eq_false (by decide), eq_false (by decide), eq_false (by decide), eq_false (by decide), eq_false (by decide), eq_false (by decide), eq_false (by decide)⟩

/-- `def f(v): v = v * 0.5; return v` — the body re-binds its parameter with a WIDER type -/
def widen : Fun ℚ := ⟨["v"], [("v", .bin .mul (.var "v") (.lit (.flt (1 / 2))))], [.var "v"]⟩

/-- the real rule: the parameter is declared with the type `var_types` holds after the body, so `f(3)` is served by `float f(float v)`
    (NOT `float f(int v)`: that is what seeded change C02/a produces) and returns Python's 1.5 -/
theorem param_widening_rebinding_is_sound :
    widen.paramTypes (widen.parseSig [.int]) = [.float] ∧ widen.retType (widen.parseSig [.int]) = some .float ∧
    FunStable widen (widen.parseSig [.int]) [.int] ∧
    widen.callPy [] [.lit (.int 3)] (.var "v") = some (.flt (3 / 2)) ∧
    widen.callC [] [] [.lit (.int 3)] (.var "v") = some (.flt (3 / 2)) := by
  have hp : widen.parseSig [.int] = [.int] := by decide
  have hg : widen.tenv [.int] = [("v", .float)] := by decide
  have hr : widen.retType [.int] = some .float := by decide
  refine ⟨by decide, by decide, by decide, ?_, ?_⟩
  · norm_num [widen, Fun.callPy, bindPy, eval, pyRun, pyStep, get_set, get_cons, sne.1, sne.2.1, sne.2.2.1, sne.2.2.2.1, sne.2.2.2.2.1, sne.2.2.2.2.2.1, sne.2.2.2.2.2.2, V.num?, pyArith, arithF, N.toF]
  · norm_num [Fun.callC, Fun.callCWith, infer, V.ty, hp, hg, hr]
    norm_num [widen, bindC, evalC, conv, cRun, cStep, get_set, get_cons, sne.1, sne.2.1, sne.2.2.1, sne.2.2.2.1, sne.2.2.2.2.1, sne.2.2.2.2.2.1, sne.2.2.2.2.2.2, lookup_cons_if, V.num?, cArith, arithF, N.toF]

/-- `def f(v): v = v * 0.5; w = v; v = 1; return w + v` — the parameter is re-bound wider and then narrower again -/
def rebound : Fun ℚ :=
  ⟨["v"], [("v", .bin .mul (.var "v") (.lit (.flt (1 / 2)))), ("w", .var "v"), ("v", .lit (.int 1))],
   [.bin .add (.var "w") (.var "v")]⟩

/-- the parameter is declared with the type of its LAST assignment — `float f(int v)` — and the float it holds in between is
    truncated: `f(3)` is 2.5 in Python, 2.0 on the device -/
theorem param_rebinding_counterexample :
    rebound.paramTypes (rebound.parseSig [.int]) = [.int] ∧ rebound.localTypes (rebound.parseSig [.int]) = [("w", .float)] ∧
    rebound.callType [] [.lit (.int 3)] = some .float ∧
    rebound.callPy [] [.lit (.int 3)] (.bin .add (.var "w") (.var "v")) = some (.flt (5 / 2)) ∧
    rebound.callC [] [] [.lit (.int 3)] (.bin .add (.var "w") (.var "v")) = some (.flt 2) := by
  have hp : rebound.parseSig [.int] = [.int] := by decide
  have hg : rebound.tenv [.int] = [("v", .int), ("w", .float)] := by decide
  have hr : rebound.retType [.int] = some .float := by decide
  refine ⟨by decide, by decide, by decide, ?_, ?_⟩
  · norm_num [rebound, Fun.callPy, bindPy, eval, pyRun, pyStep, get_set, get_cons, sne.1, sne.2.1, sne.2.2.1, sne.2.2.2.1, sne.2.2.2.2.1, sne.2.2.2.2.2.1, sne.2.2.2.2.2.2, V.num?, pyArith, arithF, N.toF, b2i]
  · norm_num [Fun.callC, Fun.callCWith, infer, V.ty, hp, hg, hr]
    norm_num [rebound, bindC, evalC, conv, cRun, cStep, get_set, get_cons, sne.1, sne.2.1, sne.2.2.1, sne.2.2.2.1, sne.2.2.2.2.1, sne.2.2.2.2.2.1, sne.2.2.2.2.2.2, lookup_cons_if, V.num?, cArith, arithF, N.toF, trunc_three_halves]

/-- `def f(v): w = v; v = 1; return w + v` called with a float: the parameter resolves to int, NARROWER than the argument -/
def narrowedArg : Fun ℚ :=
  ⟨["v"], [("w", .var "v"), ("v", .lit (.int 1))], [.bin .add (.var "w") (.var "v")]⟩

/-- the float argument is truncated AT THE CALL (`float f(int v)` called with 2.5): Python 3.5, device 3.0 -/
theorem argument_narrowed_at_call_counterexample :
    narrowedArg.paramTypes (narrowedArg.parseSig [.float]) = [.int] ∧
    narrowedArg.callPy [] [.lit (.flt (5 / 2))] (.bin .add (.var "w") (.var "v")) = some (.flt (7 / 2)) ∧
    narrowedArg.callC [] [] [.lit (.flt (5 / 2))] (.bin .add (.var "w") (.var "v")) = some (.flt 3) := by
  have hp : narrowedArg.parseSig [.float] = [.float] := by decide
  have hg : narrowedArg.tenv [.float] = [("v", .int), ("w", .float)] := by decide
  have hr : narrowedArg.retType [.float] = some .float := by decide
  refine ⟨by decide, ?_, ?_⟩
  · norm_num [narrowedArg, Fun.callPy, bindPy, eval, pyRun, pyStep, get_set, get_cons, sne.1, sne.2.1, sne.2.2.1, sne.2.2.2.1, sne.2.2.2.2.1, sne.2.2.2.2.2.1, sne.2.2.2.2.2.2, V.num?, pyArith, arithF, N.toF]
  · norm_num [Fun.callC, Fun.callCWith, infer, V.ty, hp, hg, hr]
    norm_num [narrowedArg, bindC, evalC, conv, cRun, cStep, get_set, get_cons, sne.1, sne.2.1, sne.2.2.1, sne.2.2.2.1, sne.2.2.2.2.1, sne.2.2.2.2.2.1, sne.2.2.2.2.2.2, lookup_cons_if, V.num?, cArith, arithF, N.toF, trunc_five_halves]

/-- `def f(v): t = v; v = v * 0.5; return t + v` called ONLY with a float -/
def primaryBody : Fun ℚ :=
  ⟨["v"], [("t", .var "v"), ("v", .bin .mul (.var "v") (.lit (.flt (1 / 2))))], [.bin .add (.var "t") (.var "v")]⟩

/-- the definition-time (all-int) parse resolves to the signature `(float)`, so the request `(float)` finds that definition and re-uses
    its body, in which `t` was declared from an INT `v`: `float f(float v) { int t = v; … }` — `f(2.5)` is 3.75 in Python, 3.25 on
    the device.  The parse requested for `(float)` itself would have been sound. -/
theorem primary_parse_body_counterexample :
    primaryBody.parseSig [.float] = [.int] ∧ primaryBody.paramTypes [.int] = [.float] ∧
    primaryBody.localTypes [.int] = [("t", .int)] ∧ primaryBody.localTypes [.float] = [("t", .float)] ∧
    FunStable primaryBody [.float] [.float] ∧ ¬ FunStable primaryBody [.int] [.float] ∧
    primaryBody.callPy [] [.lit (.flt (5 / 2))] (.bin .add (.var "t") (.var "v")) = some (.flt (15 / 4)) ∧
    primaryBody.callC [] [] [.lit (.flt (5 / 2))] (.bin .add (.var "t") (.var "v")) = some (.flt (13 / 4)) := by
  have hp : primaryBody.parseSig [.float] = [.int] := by decide
  have hg : primaryBody.tenv [.int] = [("v", .float), ("t", .int)] := by decide
  have hr : primaryBody.retType [.int] = some .float := by decide
  refine ⟨by decide, by decide, by decide, by decide, by decide, by decide, ?_, ?_⟩
  · norm_num [primaryBody, Fun.callPy, bindPy, eval, pyRun, pyStep, get_set, get_cons, sne.1, sne.2.1, sne.2.2.1, sne.2.2.2.1, sne.2.2.2.2.1, sne.2.2.2.2.2.1, sne.2.2.2.2.2.2, V.num?, pyArith, arithF, N.toF]
  · norm_num [Fun.callC, Fun.callCWith, infer, V.ty, hp, hg, hr]
    norm_num [primaryBody, bindC, evalC, conv, cRun, cStep, get_set, get_cons, sne.1, sne.2.1, sne.2.2.1, sne.2.2.2.1, sne.2.2.2.2.1, sne.2.2.2.2.2.1, sne.2.2.2.2.2.2, lookup_cons_if, V.num?, cArith, arithF, N.toF, trunc_five_halves]

/-- `def f(v): if …: return "a"` / `return 1`: str mixed with a number — no definition is emitted
    (the transpiler raises ValueError("conflicting return types")) -/
def conflicting : Fun ℚ := ⟨["v"], [], [.lit (.str "a"), .lit (.int 1)]⟩

theorem conflicting_return_types_rejected :
    conflicting.retTypes (conflicting.parseSig [.int]) = [.str, .int] ∧ conflicting.callType [] [.lit (.int 3)] = none ∧
    (∀ r, conflicting.callC [] [] [.lit (.int 3)] r = none) ∧
    conflicting.callPy [] [.lit (.int 3)] (.lit (.int 1)) = some (.int 1) := by
  refine ⟨by decide, by decide, ?_, ?_⟩
  · intro r
    have h : conflicting.retType (conflicting.parseSig (([.lit (.int 3)] : List (E ℚ)).map (infer []))) = none := by decide
    unfold Fun.callC Fun.callCWith
    rw [h]
  · simp [conflicting, Fun.callPy, bindPy, eval, pyRun]

/-- the property as stated (no side condition on the helper) does not hold of the transpiler -/
theorem C02_call_statement_false :
    ¬ (∀ (f : Fun ℚ) (args : List (E ℚ)) (rt : T) (r : E ℚ) (v : V ℚ), (∀ a ∈ args, Tame [] a = true) →
        f.callType [] args = some rt → r ∈ f.rets → f.callPy [] args r = some v →
        ∃ vc, f.callC [] [] args r = some vc ∧ rep rt v = some vc) := by
  intro h
  obtain ⟨_, _, hty, hpy, hc⟩ := param_rebinding_counterexample
  obtain ⟨vc, hvc, hrep⟩ := h rebound [.lit (.int 3)] .float _ _ (by decide) hty (by simp [rebound]) hpy
  rw [hc] at hvc
  cases hvc
  simp only [rep, V.ty, sub, conv, if_true, Option.some.injEq, V.flt.injEq] at hrep
  norm_num at hrep

/-! ### non-vacuity: a helper with an int and a float return, called with an int and with a float argument -/

/-- `def pick(u): s = u * 2; if …: return s` / `return u * 0.5` -/
def pick : Fun ℚ :=
  ⟨["u"], [("s", .bin .mul (.var "u") (.lit (.int 2)))], [.var "s", .bin .mul (.var "u") (.lit (.flt (1 / 2)))]⟩

example : pick.ParamsKept ∧ pick.params.Nodup := by unfold Fun.ParamsKept; decide

/-- called with an int variable: `float pick(int u) { int s = …; }`, stable, result type the join float of int and float -/
example : pick.parseSig [.int] = [.int] ∧ pick.paramTypes [.int] = [.int] ∧ pick.localTypes [.int] = [("s", .int)] ∧
    pick.retTypes [.int] = [.int, .float] ∧ pick.retType [.int] = some .float ∧ FunStable pick [.int] [.int] := by decide

/-- called with a float variable: `float pick(float u) { float s = …; }` -/
example : pick.parseSig [.float] = [.float] ∧ pick.paramTypes [.float] = [.float] ∧ pick.localTypes [.float] = [("s", .float)] ∧
    pick.retTypes [.float] = [.float, .float] ∧ pick.retType [.float] = some .float ∧ FunStable pick [.float] [.float] := by decide

/-- both call sites of `wi = 3; wf = 1.5; pick(wi); pick(wf)` satisfy the hypotheses of `variants_sound`, and the int call that
    reaches `return s` returns 6 as the float 6.0 -/
example :
    let gc : TEnv := [("wi", .int), ("wf", .float)]
    let st : Store ℚ := [("wi", .int 3), ("wf", .flt (3 / 2))]
    StoreRep gc st st ∧ FunStable pick (([.var "wi"] : List (E ℚ)).map (infer gc)) (([.var "wi"] : List (E ℚ)).map (infer gc)) ∧
    FunStable pick (([.var "wf"] : List (E ℚ)).map (infer gc)) (([.var "wf"] : List (E ℚ)).map (infer gc)) ∧
    pick.callPy st [.var "wi"] (.var "s") = some (.int 6) ∧ pick.callC gc st [.var "wi"] (.var "s") = some (.flt 6) := by
  intro gc st
  have hp : pick.parseSig [.int] = [.int] := by decide
  have hg : pick.tenv [.int] = [("u", .int), ("s", .int)] := by decide
  have hr : pick.retType [.int] = some .float := by decide
  refine ⟨?_, by decide, by decide, ?_, ?_⟩
  · intro x v hx
    simp only [st, get_cons, get_nil] at hx
    split at hx
    · cases hx; subst_vars; exact ⟨.int, by decide, _, rfl, by simp [st, get_cons]⟩
    · split at hx
      · cases hx; subst_vars; exact ⟨.float, by decide, _, rfl, by simp [st, get_cons]⟩
      · cases hx
  · norm_num [st, pick, Fun.callPy, bindPy, eval, pyRun, pyStep, get_set, get_cons, sne.1, sne.2.1, sne.2.2.1, sne.2.2.2.1, sne.2.2.2.2.1, sne.2.2.2.2.2.1, sne.2.2.2.2.2.2, V.num?, pyArith, arithF, N.toF]
  · norm_num [gc, Fun.callC, Fun.callCWith, infer, TEnv.get, hp, hg, hr]
    norm_num [st, pick, bindC, evalC, conv, cRun, cStep, get_set, get_cons, sne.1, sne.2.1, sne.2.2.1, sne.2.2.2.1, sne.2.2.2.2.1, sne.2.2.2.2.2.1, sne.2.2.2.2.2.2, lookup_cons_if, V.num?, cArith, arithF, N.toF]

end Reduino.Props.C02Fun
