import Reduino.Lang.AssemblePins
import Reduino.Lemmas.C05Pins
/-
  C05, pin level (work package W4): which pin gets which mode, where, and which pin a command touches — for emit()'s
  two-pass assembly as modelled in Lang/AssemblePins.lean (tied to the compiled sketch by the check's
  "pin-level assembly" tie).  The theorems hold for ALL programs satisfying the decidable side condition `DocumentedPins`
  and all numbers of passes; where the statement is false of the code as it is, the failing shape is a `…_counterexample`.
-/
namespace Reduino.Props.C05Pins
open Reduino.Lang.AssemblePins Reduino.Lemmas.C05Pins

/-- The documented style, at pin level (`Reduino.Lemmas.C05Pins.documentedPins`, a Boolean check):
    * every declaration names as many pins as its constructor takes (`wf`);
    * a device declared at the top of the main-loop body is of a kind the emitter hoists from there
      (Led, RGBLed, Servo, DCMotor, Button, Potentiometer, Ultrasonic);
    * a Button name bound more than once BEFORE the loop keeps its pin (`button_rebound_before_loop_counterexample`);
    * a measurement in the prologue comes after the last prologue binding of that Ultrasonic name, unless the name is bound
      again at the top of the loop body (`ultrasonic_rebound_before_loop_counterexample`).
    Nothing else: names may be re-bound to other pins before the loop, at the top of its body, or both; pins may be shared;
    uses may precede declarations (a command on a name the parser does not know yet emits nothing). -/
def DocumentedPins (p : Prog) : Prop := documentedPins p = true

instance (p : Prog) : Decidable (DocumentedPins p) := by unfold DocumentedPins; infer_instance

/-- the pin a pin-touching event touches -/
def touches : Ev → Option Nat
  | .write r | .read r | .poll _ r => some r
  | _ => none

/-- (ii) configure-before-use, in the strong form: in `setup(); loop() × N` every event that touches a pin or peripheral is
    preceded by an ADEQUATE configuration — pinMode(r, OUTPUT) before a write to r, pinMode(r, INPUT or INPUT_PULLUP) before a
    read or a button poll of r, attach(r) before a command on the Servo attached to r, begin()/init() before an LCD command -/
theorem configured_before_touch (p : Prog) (N : Nat) (h : DocumentedPins p) (pre post : List Ev) (e : Ev)
    (hrun : run p N = pre ++ e :: post) (ht : isTouch e = true) : ∃ c ∈ pre, configures c e = true := by
  obtain ⟨c, hc, hcc⟩ := Safe_split _ [] pre post e (run_safe p (doc_of_bool p h) N) hrun ht
  rcases hc with hc | hc
  · cases hc
  · exact ⟨c, hc, hcc⟩

/-- (ii) as the property words it: every event that touches pin r is preceded by a configuration event of r -/
theorem pin_configured_before_use (p : Prog) (N : Nat) (h : DocumentedPins p) (pre post : List Ev) (e : Ev) (r : Nat)
    (hrun : run p N = pre ++ e :: post) (ht : touches e = some r) : ∃ m, Ev.pinMode r m ∈ pre := by
  have hT : isTouch e = true := by cases e <;> simp_all [touches, isTouch]
  obtain ⟨c, hc, hcc⟩ := configured_before_touch p N h pre post e hrun hT
  cases e <;> simp [touches] at ht <;> subst ht <;> cases c <;> simp [configures] at hcc
  all_goals (rename_i m; cases m <;> simp at hcc <;> subst hcc <;> exact ⟨_, hc⟩)

/-- any two declarations that name the same pin want it in the same mode (a Boolean check) -/
def modesAgreeB (p : Prog) : Bool :=
  let all := (p.setup ++ p.loop).flatMap itemModes
  all.all fun a => all.all fun b =>
    match a, b with
    | .pinMode r m, .pinMode r' m' => decide (r = r' → m = m')
    | _, _ => true

/-- (iii) never re-configured to a different mode: if the declarations agree on the mode of every pin they name, no two
    pinMode events of the run carry different modes for one pin (every pinMode the firmware executes stems from a declaration
    that names that pin, with the mode the device kind prescribes) -/
theorem no_mode_conflict (p : Prog) (N : Nat) (h : modesAgreeB p = true) (r : Nat) (m m' : Mode)
    (h1 : Ev.pinMode r m ∈ run p N) (h2 : Ev.pinMode r m' ∈ run p N) : m = m' := by
  obtain ⟨i, hi, hmi⟩ := run_pinModes p N _ h1 r m rfl
  obtain ⟨j, hj, hmj⟩ := run_pinModes p N _ h2 r m' rfl
  have ha : Ev.pinMode r m ∈ (p.setup ++ p.loop).flatMap itemModes := List.mem_flatMap.2 ⟨i, hi, hmi⟩
  have hb : Ev.pinMode r m' ∈ (p.setup ++ p.loop).flatMap itemModes := List.mem_flatMap.2 ⟨j, hj, hmj⟩
  have := (List.all_eq_true.1 ((List.all_eq_true.1 h) _ ha)) _ hb
  simpa using this

/-- a device (of a hoisted kind) bound at the top of the loop body — in particular a name already bound before the loop and
    re-bound there to ANOTHER pin — has every pin of the new binding configured in setup(), i.e. before loop() ever runs -/
theorem rebinding_configures_new_pin (p : Prog) (h : DocumentedPins p) (k : Kind) (n : String) (ps : List Nat)
    (hdecl : Item.decl k n ps ∈ p.loop) (hk : k = .led ∨ k = .rgb ∨ k = .motor ∨ k = .ultra ∨ k = .pot ∨ k = .button) :
    ∀ c ∈ need k n ps, c ∈ setupEvents p := by
  intro c hc
  have := (pass1L_inv p (doc_of_bool p h).buttons).hoist k n ps hdecl hk c hc
  exact List.mem_append_left _ this

/-- the Led instance of it, spelled out -/
theorem rebound_led_configured (p : Prog) (h : DocumentedPins p) (n : String) (r : Nat)
    (hdecl : Item.decl .led n [r] ∈ p.loop) : Ev.pinMode r .output ∈ setupEvents p :=
  rebinding_configures_new_pin p h .led n [r] hdecl (Or.inl rfl) _ (by simp [need])

/-- (iv) housekeeping: every pass starts with the polls — exactly one per declared Button name, in strictly increasing name
    order — and no other event of the pass is a poll, so each poll precedes every user event of its pass -/
theorem housekeeping_first_once (p : Prog) (h : DocumentedPins p) :
    ∃ body, loopEvents p = polls p ++ body ∧ (∀ e ∈ body, ∀ n r, e ≠ Ev.poll n r) ∧
      (polls p).filterMap pollName = sortUniq (buttonNames (p.setup ++ p.loop)) ∧
      (sortUniq (buttonNames (p.setup ++ p.loop))).Pairwise (· < ·) ∧
      (∀ n, n ∈ sortUniq (buttonNames (p.setup ++ p.loop)) ↔
        ∃ k ps, (k = .button ∨ k = .buttonIn) ∧ Item.decl k n ps ∈ p.setup ++ p.loop) := by
  refine ⟨ticks p ++ (pass2L p).2, rfl, ?_, ?_, sortUniq_sorted _, ?_⟩
  · intro e he n r hh
    rcases List.mem_append.1 he with he | he
    · obtain ⟨m, hm⟩ := mem_ticks p e he
      rw [hm] at hh
      cases hh
    · exact body_noPoll p e he n r hh
  · apply polls_names
    intro n hn
    obtain ⟨bk, ps, hbk, hps⟩ := mem_buttonNames _ n (mem_sortUniq n _ hn)
    obtain ⟨pin, hpin⟩ := hasButton_pass1 p bk n ps hbk hps ((doc_of_bool p h).wfAll _ n ps hps)
    rcases hbk with rfl | rfl
    · exact ⟨pin, Or.inl hpin⟩
    · exact ⟨pin, Or.inr hpin⟩
  · intro n
    constructor
    · exact fun hn => mem_buttonNames _ n (mem_sortUniq n _ hn)
    · rintro ⟨k, ps, hk | hk, hps⟩ <;> subst hk <;> exact sortUniq_mem n _ (List.mem_filterMap.2 ⟨_, hps, rfl⟩)

/-! ### W10: housekeeping = button polls, then animation ticks; Button modes -/

/-- the events the transpiler injects at the head of loop() -/
def isHousekeeping : Ev → Bool
  | .poll _ _ | .tick _ => true
  | _ => false

/-- (iv'), C05 + C18: every pass of `run p N` is `polls p ++ ticks p ++ user`, in this order (the code prepends the LCDTicks to
    loop_body and then the ButtonPolls in front of them), where
    * `polls p` is exactly one poll per declared Button name (either mode), in strictly increasing name order;
    * `ticks p` is, for the LCD names with an `animate` anywhere in strictly increasing order, one tick per animation that
      setup() STARTED on that display (`startedInSetup` counts the start calls pass 2 wrote into setup(), and each of them
      stems from an `animate` item of the prologue);
    * no other event of the pass is a poll or a tick: housekeeping runs once per pass, before every user event. -/
theorem housekeeping_once_per_pass (p : Prog) (N : Nat) (h : DocumentedPins p) :
    ∃ user, run p N = setupEvents p ++ Reduino.Lang.Assemble.repeatList (polls p ++ (ticks p ++ user)) N ∧
      (∀ e ∈ user, isHousekeeping e = false) ∧
      (∀ e ∈ polls p, ∃ n r, e = Ev.poll n r) ∧
      (polls p).filterMap pollName = sortUniq (buttonNames (p.setup ++ p.loop)) ∧
      (sortUniq (buttonNames (p.setup ++ p.loop))).Pairwise (· < ·) ∧
      (∀ n, n ∈ sortUniq (buttonNames (p.setup ++ p.loop)) ↔
        ∃ k ps, (k = .button ∨ k = .buttonIn) ∧ Item.decl k n ps ∈ p.setup ++ p.loop) ∧
      ticks p = (sortUniq (animNames (p.setup ++ p.loop))).flatMap
        (fun n => List.replicate (startedInSetup p n) (Ev.tick n)) ∧
      (sortUniq (animNames (p.setup ++ p.loop))).Pairwise (· < ·) ∧
      (∀ n, startedInSetup p n = (pass2S p).2.count (Ev.animStart n)) ∧
      (∀ n, 0 < startedInSetup p n → Item.animate n ∈ p.setup) := by
  obtain ⟨_, _, _, h3, h4, h5⟩ := housekeeping_first_once p h
  refine ⟨(pass2L p).2, rfl, ?_, ?_, h3, h4, h5, rfl, sortUniq_sorted _, fun _ => rfl, started_prov p⟩
  · intro e he
    have h1 := body_noPoll p e he
    have h2 := body_noTick p e he
    cases e <;> simp_all [isHousekeeping]
  · intro e he
    obtain ⟨n, pin, hh, _⟩ := mem_polls p e he
    exact ⟨n, pin, hh⟩

/-- C18: the housekeeping prefix contains no delay — its alphabet is polls and ticks only (`stmt` is the event of a user
    statement, in the tie a `sleep(tag)` = `delay(tag)`) -/
theorem no_delay_in_housekeeping (p : Prog) :
    (∀ e ∈ polls p ++ ticks p, isHousekeeping e = true) ∧ (∀ e ∈ polls p ++ ticks p, ∀ t, e ≠ Ev.stmt t) := by
  have key : ∀ e ∈ polls p ++ ticks p, isHousekeeping e = true := by
    intro e he
    rcases List.mem_append.1 he with he | he
    · obtain ⟨n, pin, rfl, _⟩ := mem_polls p e he
      rfl
    · obtain ⟨n, rfl⟩ := mem_ticks p e he
      rfl
  refine ⟨key, fun e he t hh => ?_⟩
  have := key e he
  rw [hh] at this
  cases this

/-- K18a in general: a display is ticked in loop() only if an animation was started on it BEFORE the loop -/
theorem tick_only_if_started_before_loop (p : Prog) (n : String) (h : Ev.tick n ∈ loopEvents p) : Item.animate n ∈ p.setup := by
  unfold loopEvents at h
  rcases List.mem_append.1 h with h | h
  · obtain ⟨_, _, hh, _⟩ := mem_polls p _ h
    cases hh
  · rcases List.mem_append.1 h with h | h
    · obtain ⟨m, hm, _, hpos⟩ := mem_ticks' p _ h
      cases hm
      exact started_prov p n hpos
    · exact absurd rfl (body_noTick p _ h n)

/-- K18a as a witness: `d = LCD(…)` / `while True: d.animate(…); sleep(1)` — the animation is (re)started every pass and never
    ticked, although the property says it "is advanced once per loop() pass" -/
theorem loop_started_animation_not_ticked_counterexample :
    let p : Prog := { setup := [.decl .lcd "d" []], loop := [.animate "d", .stmt 1] }
    DocumentedPins p ∧ run p 2 = [.lcdInit "d", .animStart "d", .stmt 1, .animStart "d", .stmt 1] ∧
      (∀ n, Ev.tick n ∉ run p 2) ∧
      -- the control: the same animation started before the loop is ticked every pass
      run { setup := [.decl .lcd "d" [], .animate "d"], loop := [.stmt 1] } 2 =
        [.lcdInit "d", .animStart "d", .tick "d", .stmt 1, .tick "d", .stmt 1] := by
  intro p
  have hrun : run p 2 = [.lcdInit "d", .animStart "d", .stmt 1, .animStart "d", .stmt 1] := by decide
  refine ⟨by decide, hrun, fun n hn => ?_, by decide⟩
  rw [hrun] at hn
  simp at hn

/-- Button mode: a Button declared before the loop gets `pinMode(pin, <declared mode>)` in setup() — INPUT_PULLUP for the
    default, INPUT for `mode="INPUT"` — and (`no_mode_conflict`) no pin gets a second, different mode unless two declarations
    disagree.  The initial sample (`read`) is the same in both modes. -/
theorem button_mode_as_declared (p : Prog) (h : DocumentedPins p) (n : String) (r : Nat) :
    (Item.decl .button n [r] ∈ p.setup → Ev.pinMode r .pullup ∈ setupEvents p) ∧
    (Item.decl .buttonIn n [r] ∈ p.setup → Ev.pinMode r .input ∈ setupEvents p) := by
  constructor
  · intro hm
    exact List.mem_append_left _ (List.mem_append_left _
      (button_setup_cfgd p (doc_of_bool p h) .button (Or.inl rfl) n [r] hm _ (by simp [need])))
  · intro hm
    exact List.mem_append_left _ (List.mem_append_left _
      (button_setup_cfgd p (doc_of_bool p h) .buttonIn (Or.inr rfl) n [r] hm _ (by simp [need])))

/-- non-vacuity: two LCDs (only `l2` animated before the loop, `l1` animated inside it), two Buttons (one per mode) -/
def demoHk : Prog :=
  { setup := [.decl .lcd "l2" [], .decl .lcd "l1" [2, 3, 4, 5, 6, 7], .decl .button "b" [8], .decl .buttonIn "a" [9],
              .animate "l2", .use "l1"],
    loop := [.animate "l1", .stmt 2] }

example : DocumentedPins demoHk := by decide
example : modesAgreeB demoHk = true := by decide
example : run demoHk 2 =
    [.lcdInit "l2", .lcdInit "l1", .pinMode 8 .pullup, .read 8, .pinMode 9 .input, .read 9, .animStart "l2", .lcdWrite "l1",
     .poll "a" 9, .poll "b" 8, .tick "l2", .animStart "l1", .stmt 2,
     .poll "a" 9, .poll "b" 8, .tick "l2", .animStart "l1", .stmt 2] := by decide
example : polls demoHk = [.poll "a" 9, .poll "b" 8] ∧ ticks demoHk = [.tick "l2"] := by decide
example : Ev.pinMode 9 .input ∈ setupEvents demoHk := (button_mode_as_declared demoHk (by decide) "a" 9).2 (by decide)
example : ∀ m m', Ev.pinMode 9 m ∈ run demoHk 2 → Ev.pinMode 9 m' ∈ run demoHk 2 → m = m' :=
  fun m m' => no_mode_conflict demoHk 2 (by decide) 9 m m'

/-! ### non-vacuity: a serial monitor, a Led re-bound at the top of the loop body, a Button, an Ultrasonic, a loop-declared Servo -/

def demo : Prog :=
  { setup := [.decl .serial "mon" [], .decl .led "a" [2], .use "a", .decl .button "b" [4], .decl .ultra "u" [5, 6], .use "u", .stmt 1],
    loop := [.decl .led "a" [3], .decl .servo "s" [9], .use "a", .use "s", .use "u", .stmt 2] }

example : DocumentedPins demo := by decide
example : modesAgreeB demo = true := by decide

/-- what the firmware does: pass 1 (button, hoisted Led pin 3, hoisted Servo), pass 2 (Serial.begin, Led pin 2 at its own
    position, …), then per pass the poll and the body, where `a` now drives pin 3 -/
example : run demo 1 =
    [.pinMode 4 .pullup, .read 4, .pinMode 3 .output, .attach 9,
     .serialBegin, .pinMode 2 .output, .write 2, .pinMode 5 .output, .pinMode 6 .input, .write 5, .write 5, .write 5, .read 6, .stmt 1,
     .poll "b" 4, .write 3, .servoWrite 9, .write 5, .write 5, .write 5, .read 6, .stmt 2] := by decide

example : ∃ m, Ev.pinMode 3 m ∈ [Ev.pinMode 4 .pullup, .read 4, .pinMode 3 .output, .attach 9,
     .serialBegin, .pinMode 2 .output, .write 2, .pinMode 5 .output, .pinMode 6 .input, .write 5, .write 5, .write 5, .read 6, .stmt 1,
     .poll "b" 4] :=
  pin_configured_before_use demo 1 (by decide) _ [.servoWrite 9, .write 5, .write 5, .write 5, .read 6, .stmt 2] (.write 3) 3
    (by decide) rfl

example : Ev.pinMode 3 .output ∈ setupEvents demo := rebound_led_configured demo (by decide) "a" 3 (by decide)

example : ∀ m m', Ev.pinMode 3 m ∈ run demo 2 → Ev.pinMode 3 m' ∈ run demo 2 → m = m' :=
  fun m m' => no_mode_conflict demo 2 (by decide) 3 m m'

example : (polls demo).filterMap pollName = ["b"] := by decide

/-! ### where the full statement is false of the code as it is -/

/-- a Button bound twice BEFORE the loop: pass 1 initialises a Button *name* once (pinMode + first sample of pin 4), but the
    poll reads the pin of the last binding — pin 5 is sampled every pass and never configured
    (witness: `b = Button(4)` / `b = Button(5)` / `while True: …`) -/
theorem button_rebound_before_loop_counterexample :
    let p : Prog := { setup := [.decl .button "b" [4], .decl .button "b" [5]], loop := [.stmt 1] }
    ¬ DocumentedPins p ∧ Ev.poll "b" 5 ∈ run p 1 ∧ (∀ m, Ev.pinMode 5 m ∉ run p 1) := by
  intro p
  refine ⟨by decide, by decide, fun m => ?_⟩
  cases m <;> decide

/-- an Ultrasonic bound twice BEFORE the loop: every measurement of a name goes through one helper function that holds the
    pins of the LAST binding, so a measurement between the two bindings drives pins 4/5 before their pinMode
    (witness: `u = Ultrasonic(2, 3)` / `mon.write(u.measure_distance())` / `u = Ultrasonic(4, 5)`) -/
theorem ultrasonic_rebound_before_loop_counterexample :
    let p : Prog := { setup := [.decl .ultra "u" [2, 3], .use "u", .decl .ultra "u" [4, 5]], loop := [.stmt 1] }
    ¬ DocumentedPins p ∧
      run p 0 = [.pinMode 2 .output, .pinMode 3 .input, .write 4, .write 4, .write 4, .read 5, .pinMode 4 .output, .pinMode 5 .input] := by
  intro p
  exact ⟨by decide, by decide⟩

/-- a Buzzer (or LCD) declared at the top of the loop body is not configured at all — outside the property's quantifier -/
theorem buzzer_in_loop_not_configured_counterexample :
    let p : Prog := { setup := [], loop := [.decl .buzzer "z" [8], .use "z"] }
    ¬ DocumentedPins p ∧ run p 1 = [.write 8] := by
  intro p
  exact ⟨by decide, by decide⟩

theorem lcd_in_loop_not_configured_counterexample :
    let p : Prog := { setup := [], loop := [.decl .lcd "d" [], .use "d"] }
    ¬ DocumentedPins p ∧ run p 1 = [.lcdWrite "d"] := by
  intro p
  exact ⟨by decide, by decide⟩

/-- two devices on one pin with different directions: both pinModes are emitted (`modesAgreeB` is needed for (iii)) -/
theorem shared_pin_mode_conflict_counterexample :
    let p : Prog := { setup := [.decl .led "a" [5], .decl .button "b" [5]], loop := [] }
    DocumentedPins p ∧ modesAgreeB p = false ∧ Ev.pinMode 5 .output ∈ run p 0 ∧ Ev.pinMode 5 .pullup ∈ run p 0 := by
  intro p
  exact ⟨by decide, by decide, by decide, by decide⟩

/-- not a configuration defect, but not Python either: a Servo name re-bound (here at the top of the loop body) keeps the
    object attached by its FIRST binding — pin 5 is never attached, every later command drives pin 4 -/
theorem servo_rebound_keeps_first_pin :
    let p : Prog := { setup := [.decl .servo "s" [4], .use "s"], loop := [.decl .servo "s" [5], .use "s"] }
    DocumentedPins p ∧ run p 1 = [.attach 4, .servoWrite 4, .servoWrite 4] := by
  intro p
  exact ⟨by decide, by decide⟩

end Reduino.Props.C05Pins
