import Reduino.Fw.Actuators
namespace Reduino.Props.C04
theorem stub : True := trivial
end Reduino.Props.C04
