import Reduino.Fw.Actuators
import Reduino.Host.Led
import Reduino.Host.RGBLed
import Reduino.Host.Servo
import Reduino.Host.DCMotor
import Reduino.Lemmas.Field
import Reduino.Lemmas.C04
/-
  C04 — Actuator commands: firmware drives pins exactly as the host simulation predicts.

  `Fw.*` are the emitted C++ blocks, `Host.*` the host classes (tied to the real code by S_c and H).  Float carrier:
  an arbitrary ordered field `K` with floor (exact arithmetic).  Part A: clamping for ARBITRARY arguments and states.
  Part B: for every call the host accepts (in-range arguments), the firmware's shadow state equals the host state
  (so every getter agrees), the last level written to the pins is the image of the host state, and delays agree up
  to the device's whole-millisecond rounding.  By induction the same holds after every call sequence.
-/
namespace Reduino.Props.C04
open Reduino Reduino.Fw

variable {K : Type} [Field K] [LinearOrder K] [IsStrictOrderedRing K] [FloorRing K]

def dutiesOf (l : List Ev) : List Int := l.filterMap fun | .aWrite _ d => some d | _ => none
def delaysOf (l : List Ev) : List Int := l.filterMap fun | .delay ms => some ms | _ => none

/-! ## Part A — out-of-range commands never reach a pin unclamped -/

def FLedInv (l : FLed) : Prop := 0 ≤ l.brightness ∧ l.brightness ≤ 255 ∧ (l.state = true ↔ 0 < l.brightness)

theorem led_clamped (l : FLed) (op : FLedOp K) :
    (∀ d ∈ dutiesOf (FLed.step l op).evs, 0 ≤ d ∧ d ≤ 255) ∧ (FLedInv l → FLedInv (FLed.step l op).st) := by
  open Lemmas.C04 Lemmas.C19 in
  show (∀ d ∈ dutiesL _, _) ∧ (LedInvL l → LedInvL _)
  cases op with
  | on => simp [FLed.step, LedInvL]
  | off => simp [FLed.step, LedInvL]
  | toggle =>
    simp only [FLed.step]
    refine ⟨by simp, fun _ => ?_⟩
    cases l.state <;> simp [LedInvL]
  | setBrightness v =>
    simp only [FLed.step, FLed.setPwm]
    have hb := clamp255_bounds (toCInt v)
    refine ⟨?_, fun _ => ?_⟩
    · intro d hd
      simp only [dutiesL_cons_aWrite, dutiesL_nil, List.mem_singleton] at hd
      subst hd; exact hb
    · exact ⟨hb.1, hb.2, by simp⟩
  | blink d times =>
    simp only [FLed.step]
    cases toULong d with
    | none => exact ⟨by simp, id⟩
    | some ms => simp [dutiesL_blinkLoop, LedInvL]
  | fadeIn stepv delay =>
    simp only [FLed.step]
    cases toULong delay with
    | none => exact ⟨by simp, id⟩
    | some ms =>
      generalize (if toCInt stepv ≤ 0 then (1 : Int) else toCInt stepv) = k
      by_cases hk : 0 < k
      · simp only [dif_pos hk]
        refine ⟨?_, fun _ => by simp [LedInvL]⟩
        intro d hd
        simp only [dutiesL_append, List.mem_append] at hd
        rcases hd with hd | hd
        · exact fadeIn_duties _ _ _ _ _ (clamp255_bounds _).1 d hd
        · simp at hd; omega
      · simp only [dif_neg hk]
        exact ⟨by simp, id⟩
  | fadeOut stepv delay =>
    simp only [FLed.step]
    cases toULong delay with
    | none => exact ⟨by simp, id⟩
    | some ms =>
      generalize (if toCInt stepv ≤ 0 then (1 : Int) else toCInt stepv) = k
      by_cases hk : 0 < k
      · simp only [dif_pos hk]
        refine ⟨?_, fun _ => by simp [LedInvL]⟩
        intro d hd
        simp only [dutiesL_append, List.mem_append] at hd
        rcases hd with hd | hd
        · exact fadeOut_duties _ _ _ _ _ (clamp255_bounds _).2 d hd
        · simp at hd; omega
      · simp only [dif_neg hk]
        exact ⟨by simp, id⟩
  | flashPattern p delay =>
    simp only [FLed.step]
    split
    · exact ⟨by simp, id⟩
    · cases toULong delay with
      | none => exact ⟨by simp, id⟩
      | some ms => exact flashLoop_clamped _ _ _ _

def FRgbInv (s : FRgb) : Prop :=
  (0 ≤ s.color.1 ∧ s.color.1 ≤ 255) ∧ (0 ≤ s.color.2.1 ∧ s.color.2.1 ≤ 255) ∧ (0 ≤ s.color.2.2 ∧ s.color.2.2 ≤ 255)

theorem rgb_clamped (s : FRgb) (op : FRgbOp K) (h : FRgbInv s) :
    (∀ d ∈ dutiesOf (FRgb.step s op).evs, 0 ≤ d ∧ d ≤ 255) ∧ FRgbInv (FRgb.step s op).st := by
  open Lemmas.C04 Lemmas.C19 in
  show (∀ d ∈ dutiesL _, InRange d) ∧ ColorOk _
  have h' : ColorOk s.color := h
  have ok0 : ColorOk (0, 0, 0) := ⟨by simp [InRange], by simp [InRange], by simp [InRange]⟩
  cases op with
  | setColor r g b => exact ⟨duties_write s _ (clampC_ok r g b), clampC_ok r g b⟩
  | off => exact ⟨duties_write s _ ok0, ok0⟩
  | fade r g b d n =>
    refine ⟨?_, ?_⟩
    · simp only [FRgb.step]
      generalize (if toCInt d < 0 then (0 : Int) else toCInt d) = dur
      generalize hN : (if toCInt n ≤ 0 then (1 : Int) else toCInt n) = N
      have hNpos : 0 < N := by rw [← hN]; split <;> omega
      by_cases hc : dur = 0 ∨ s.color = FRgb.clampC r g b
      · rw [if_pos hc]; exact duties_write s _ (clampC_ok r g b)
      · rw [if_neg hc]
        apply fadeLoop_duties
        · simp
        · intro j h1 h2
          exact fadeC_ok h' (clampC_ok r g b) hNpos (by omega) (by omega)
    · rw [fw_fade_st]; exact clampC_ok r g b
  | blink r g b t d =>
    simp only [FRgb.step]
    refine ⟨?_, h'⟩
    intro x hx
    simp only [dutiesL_append, List.mem_append] at hx
    rcases hx with hx | hx
    · exact blinkLoop_duties _ _ (clampC_ok r g b) _ _ [] (by simp) x hx
    · simp only [dutiesL_cons_aWrite, dutiesL_nil, List.mem_cons, List.not_mem_nil, or_false] at hx
      rcases hx with rfl | rfl | rfl
      · exact h'.1
      · exact h'.2.1
      · exact h'.2.2

/-- servo commands are clamped to the configured angle / pulse bounds, whatever is asked -/
theorem servo_clamped (s : FServo K) (op : FServoOp K) (ha : s.minA < s.maxA) (hp : s.minP < s.maxP) :
    let s' := (FServo.step s op).st
    s.minA ≤ s'.angle ∧ s'.angle ≤ s.maxA ∧ s.minP ≤ s'.pulse ∧ s'.pulse ≤ s.maxP ∧
    s'.minA = s.minA ∧ s'.maxA = s.maxA ∧ s'.minP = s.minP ∧ s'.maxP = s.maxP := by
  open Lemmas.C04 Lemmas.C19 in
  cases op with
  | write a =>
    simp only [FServo.step]
    obtain ⟨q1, q2⟩ := clampTo_bounds ha.le a.toF
    refine ⟨q1, q2, (clampTo_bounds hp.le _).1, (clampTo_bounds hp.le _).2, ?_, ?_, ?_, ?_⟩ <;> trivial
  | writeUs p =>
    have hz : FServo.isZ (s.maxP - s.minP) = false := isZ_false (sub_pos.mpr hp).ne'
    simp only [FServo.step, hz, Bool.false_eq_true, if_false]
    obtain ⟨q1, q2⟩ := clampTo_bounds hp.le p.toF
    obtain ⟨q3, q4, _⟩ := affine_map hp ha q1 q2
    refine ⟨q3, q4, q1, q2, ?_, ?_, ?_, ?_⟩ <;> trivial

def FMotorInv (m : FMotor K) : Prop := (-1 : K) ≤ m.speed ∧ m.speed ≤ 1

theorem motor_clamped (m : FMotor K) (op : FMotorOp K) (h : FMotorInv m) :
    (∀ d ∈ dutiesOf (FMotor.step m op).evs, 0 ≤ d ∧ d ≤ 255) ∧ FMotorInv (FMotor.step m op).st := by
  open Lemmas.C04 Lemmas.C19 in
  obtain ⟨h0, h1⟩ := h
  cases op with
  | setSpeed v =>
    simp only [FMotor.step, drive_eq]
    exact ⟨duties_driveEvs_bounds _ _, clampSpeed_bounds _⟩
  | backward v =>
    simp only [FMotor.step, drive_eq]
    exact ⟨duties_driveEvs_bounds _ _, clampSpeed_bounds _⟩
  | stop =>
    simp only [FMotor.step, FMotor.brakeEvs]
    refine ⟨?_, ?_⟩
    · show ∀ d ∈ dutiesL _, _
      simp
    · simp [FMotorInv]
  | coast =>
    simp only [FMotor.step]
    refine ⟨?_, ?_⟩
    · show ∀ d ∈ dutiesL _, _
      simp
    · simp [FMotorInv]
  | invert =>
    simp only [FMotor.step, drive_eq]
    exact ⟨duties_driveEvs_bounds _ _, h0, h1⟩
  | ramp t d =>
    simp only [FMotor.step, rampLoop_eq, List.nil_append]
    refine ⟨dutiesL_rampEvs _ _ _ _ _ _ _, ?_⟩
    rw [rampSt_eq, if_neg (by norm_num)]
    exact clampSpeed_bounds _
  | runFor d v =>
    simp only [FMotor.step, drive_eq, FMotor.brakeEvs]
    refine ⟨?_, ?_⟩
    · show ∀ d ∈ dutiesL _, _
      intro d hd
      simp only [dutiesL_append, dutiesL_driveEvs, List.mem_append, List.mem_singleton] at hd
      rcases hd with (hd | hd) | hd
      · subst hd; exact dutyL_bounds _
      · simp at hd
      · simp at hd; omega
    · simp [FMotorInv]

/-! ## Part B — agreement with the host on every accepted call -/

/-! ### Led -/
def ledOp : Host.LedOp K → FLedOp K
  | .on => .on | .off => .off | .toggle => .toggle
  | .setBrightness v => .setBrightness v
  | .blink d t => .blink d t
  | .fadeIn s d => .fadeIn s d
  | .fadeOut s d => .fadeOut s d
  | .flashPattern p d => .flashPattern (p.map Val.toInt) d

def RelLed (f : FLed) (h : Host.Led) : Prop := f.brightness = h.brightness ∧ f.state = h.state

/-- whole-millisecond rounding of a host sleep argument (`delay(unsigned long)`) -/
def msOf (v : Val K) : Int := match toULong v with | some n => n | none => 0

/-- (pattern entries are integers, as the documented `Sequence[int]`; a float entry such as 1.5 is truncated to 1 by
    the host but reaches the firmware as the literal 1 = "on") -/
theorem led_agrees (f : FLed) (h : Host.Led) (op : Host.LedOp K) (hrel : RelLed f h) (hinv : (Host.Led.step h op).res = .ok)
    (hh : 0 ≤ h.brightness ∧ h.brightness ≤ 255 ∧ (h.state = true ↔ 0 < h.brightness))
    (hpat : ∀ p d, op = .flashPattern p d → ∀ e ∈ p, ∃ n : Int, e = Val.int n) :
    RelLed (FLed.step f (ledOp op)).st (Host.Led.step h op).st ∧
    (FLed.step f (ledOp op)).defined = true ∧
    delaysOf (FLed.step f (ledOp op)).evs = (Host.Led.step h op).sleeps.map msOf := by
  open Lemmas.C04 Lemmas.C19 in
  obtain ⟨hb, hs⟩ := hrel
  show _ ∧ _ ∧ delaysL _ = _
  cases op with
  | on => simp [ledOp, FLed.step, Host.Led.step, RelLed, Host.Led.setB]
  | off => simp [ledOp, FLed.step, Host.Led.step, RelLed, Host.Led.setB]
  | toggle =>
    simp only [ledOp, FLed.step, Host.Led.step, RelLed, Host.Led.setB, hs]
    cases h.state <;> simp
  | setBrightness v =>
    simp only [Host.Led.step, Host.Led.setBrightness] at hinv ⊢
    split_ifs at hinv ⊢ with hbt
    have hv := toInt_bounds hbt
    simp [ledOp, FLed.step, FLed.setPwm, RelLed, toCInt, clamp255_id hv.1 hv.2]
  | blink d times =>
    obtain ⟨hd, n, rfl, hn, heq⟩ := host_blink_ok hinv
    obtain ⟨ms, hms⟩ := toULong_of_not_lt hd
    rw [heq]
    have hm : msOf d = ms := by simp [msOf, hms]
    simp only [ledOp, FLed.step, hms, toCInt_int, RelLed, Host.Led.setB, delaysL_append, delaysL_blinkLoop,
      List.map_replicate, hm]
    simp
  | fadeIn stepv delay =>
    obtain ⟨hd, k, hk, rfl, heq⟩ := host_fadeIn_ok hinv
    obtain ⟨ms, hms⟩ := toULong_of_not_lt hd
    rw [heq]
    have hm : msOf delay = ms := by simp [msOf, hms]
    have hk' : (if toCInt (Val.int k : Val K) ≤ 0 then 1 else toCInt (Val.int k : Val K)) = k := by
      rw [toCInt_int, if_neg (by omega)]
    simp only [ledOp, FLed.step, hms, hk', dif_pos hk, RelLed, Host.Led.setB, delaysL_append, fadeIn_delays,
      hclamp_eq, hb, List.map_map]
    simp [Function.comp_def, hm]
  | fadeOut stepv delay =>
    obtain ⟨hd, k, hk, rfl, heq⟩ := host_fadeOut_ok hinv
    obtain ⟨ms, hms⟩ := toULong_of_not_lt hd
    rw [heq]
    have hm : msOf delay = ms := by simp [msOf, hms]
    have hk' : (if toCInt (Val.int k : Val K) ≤ 0 then 1 else toCInt (Val.int k : Val K)) = k := by
      rw [toCInt_int, if_neg (by omega)]
    simp only [ledOp, FLed.step, hms, hk', dif_pos hk, RelLed, Host.Led.setB, delaysL_append, fadeOut_delays,
      hclamp_eq, hb, List.map_map]
    simp [Function.comp_def, hm]
  | flashPattern p delay =>
    obtain ⟨hd, heq⟩ := host_flash_ok hinv
    obtain ⟨ms, hms⟩ := toULong_of_not_lt hd
    have hm : msOf delay = ms := by simp [msOf, hms]
    obtain ⟨ints, rfl⟩ := exists_ints p (hpat p delay rfl)
    rw [heq] at hinv ⊢
    simp only [ledOp, map_toInt_int, FLed.step]
    cases ints with
    | nil => simp [Host.Led.flashGo, RelLed, hb, hs]
    | cons v rest =>
      obtain ⟨q1, q2, q3⟩ := flash_agree f.pin ms delay (v :: rest) f h [] hinv hb hs
      simp only [List.isEmpty_cons, Bool.false_eq_true, if_false, hms]
      refine ⟨⟨q1, q2⟩, trivial, ?_⟩
      rw [flashLoop_delays, q3]
      simp [hm]

/-- the level last written to the LED pin is the host's brightness (HIGH = 255, LOW = 0) -/
def ledLevel : Ev → Option Int
  | .dWrite _ l => some (if l = 0 then 0 else 255)
  | .aWrite _ d => some d
  | _ => none

theorem led_final_level (f : FLed) (h : Host.Led) (op : Host.LedOp K) (hrel : RelLed f h)
    (hinv : (Host.Led.step h op).res = .ok)
    (hh : 0 ≤ h.brightness ∧ h.brightness ≤ 255 ∧ (h.state = true ↔ 0 < h.brightness))
    (hne : ∀ p d, op ≠ .flashPattern p d ∨ p ≠ [])
    (hpat : ∀ p d, op = .flashPattern p d → ∀ e ∈ p, ∃ n : Int, e = Val.int n) :
    ((FLed.step f (ledOp op)).evs.filterMap ledLevel).getLast? = some (Host.Led.step h op).st.brightness := by
  open Lemmas.C04 Lemmas.C19 in
  have hag := (led_agrees f h op hrel hinv hh hpat).1.1
  rw [← hag]
  show ((FLed.step f (ledOp op)).evs.filterMap levelL).getLast? = _
  obtain ⟨hb, hs⟩ := hrel
  cases op with
  | on => simp [ledOp, FLed.step, levelL]
  | off => simp [ledOp, FLed.step, levelL]
  | toggle =>
    simp only [ledOp, FLed.step]
    cases f.state <;> simp [levelL]
  | setBrightness v => simp [ledOp, FLed.step, FLed.setPwm, levelL]
  | blink d times =>
    obtain ⟨hd, n, rfl, hn, heq⟩ := host_blink_ok hinv
    obtain ⟨ms, hms⟩ := toULong_of_not_lt hd
    simp [ledOp, FLed.step, hms, levelL, List.filterMap_append, List.getLast?_append]
  | fadeIn stepv delay =>
    obtain ⟨hd, k, hk, rfl, heq⟩ := host_fadeIn_ok hinv
    obtain ⟨ms, hms⟩ := toULong_of_not_lt hd
    have hk' : (if toCInt (Val.int k : Val K) ≤ 0 then 1 else toCInt (Val.int k : Val K)) = k := by
      rw [toCInt_int, if_neg (by omega)]
    simp only [ledOp, FLed.step, hms, hk', dif_pos hk, List.filterMap_append, List.getLast?_append]
    simp [levelL]
  | fadeOut stepv delay =>
    obtain ⟨hd, k, hk, rfl, heq⟩ := host_fadeOut_ok hinv
    obtain ⟨ms, hms⟩ := toULong_of_not_lt hd
    have hk' : (if toCInt (Val.int k : Val K) ≤ 0 then 1 else toCInt (Val.int k : Val K)) = k := by
      rw [toCInt_int, if_neg (by omega)]
    simp only [ledOp, FLed.step, hms, hk', dif_pos hk, List.filterMap_append, List.getLast?_append]
    simp [levelL]
  | flashPattern p delay =>
    obtain ⟨hd, heq⟩ := host_flash_ok hinv
    obtain ⟨ms, hms⟩ := toULong_of_not_lt hd
    obtain ⟨ints, rfl⟩ := exists_ints p (hpat p delay rfl)
    simp only [ledOp, map_toInt_int, FLed.step]
    cases ints with
    | nil =>
      rcases hne _ _ with h1 | h1
      · exact absurd rfl h1
      · exact absurd rfl h1
    | cons v rest =>
      simp only [List.isEmpty_cons, Bool.false_eq_true, if_false, hms]
      exact flashLoop_level _ _ _ _ (List.cons_ne_nil _ _)

/-! ### RGBLed -/
def rgbOp : Host.RGBOp K → FRgbOp K
  | .setColor r g b => .setColor r g b
  | .on r g b => .setColor r g b
  | .off => .off
  | .fade r g b d n => .fade r g b d n
  | .blink r g b t d => .blink r g b t d

def RelRgb (f : FRgb) (h : Host.RGB) : Prop := f.color = h.color ∧ f.state = h.state

/-- fade is excluded here (its end point is covered by `rgb_fade_end`, its interior by the half-rounding caveat) -/
theorem rgb_agrees (f : FRgb) (h : Host.RGB) (op : Host.RGBOp K) (hrel : RelRgb f h)
    (hok : (Host.RGB.step h op).res = .ok) (hnf : ∀ r g b d n, op ≠ .fade r g b d n)
    (hh : h.state = true ↔ (h.color.1 > 0 ∨ h.color.2.1 > 0 ∨ h.color.2.2 > 0)) :
    RelRgb (FRgb.step f (rgbOp op)).st (Host.RGB.step h op).st := by
  open Lemmas.C04 Lemmas.C19 in
  obtain ⟨hc, hs⟩ := hrel
  cases op with
  | setColor r g b =>
    simp only [Host.RGB.step] at hok ⊢
    cases ht : Host.RGB.triple r g b <;> simp only [ht] at hok ⊢
    · cases hok
    · simp only [rgbOp, FRgb.step, write_eq, triple_ok_eq ht]
      exact ⟨rfl, rfl⟩
  | on r g b =>
    simp only [Host.RGB.step] at hok ⊢
    cases ht : Host.RGB.triple r g b <;> simp only [ht] at hok ⊢
    · cases hok
    · simp only [rgbOp, FRgb.step, write_eq, triple_ok_eq ht]
      exact ⟨rfl, rfl⟩
  | off => exact ⟨rfl, rfl⟩
  | fade r g b d n => exact absurd rfl (hnf r g b d n)
  | blink r g b t d =>
    simp only [Host.RGB.step] at hok ⊢
    cases ht : Host.RGB.triple r g b <;> simp only [ht] at hok ⊢ <;> split_ifs at hok ⊢
    cases t with
    | flt x => cases hok
    | int k =>
      simp only [rgbOp, FRgb.step]
      refine ⟨hc, ?_⟩
      show f.state = (decide (h.color.1 > 0) || decide (h.color.2.1 > 0) || decide (h.color.2.2 > 0))
      rw [hs, Bool.eq_iff_iff, hh]
      simp [or_assoc]

/-- a fade the host accepts ends exactly on the target on both sides, with the same on/off state -/
theorem rgb_fade_end (f : FRgb) (h : Host.RGB) (r g b d n : Val K) (hrel : RelRgb f h)
    (hok : (Host.RGB.step h (.fade r g b d n)).res = .ok) :
    RelRgb (FRgb.step f (.fade r g b d n)).st (Host.RGB.step h (.fade r g b d n)).st := by
  open Lemmas.C04 Lemmas.C19 in
  obtain ⟨t, ht, _, hst, _⟩ := fade_spec h r g b d n hok
  rw [hst, fw_fade_st, triple_ok_eq ht]
  exact ⟨rfl, rfl⟩

/-- every interior step differs from the host's by at most one PWM count per channel, and is equal unless the
    interpolated value lies exactly on a half (the host rounds half-to-even, the firmware half away from zero) -/
theorem rgb_fade_step_close (cur goal i n : Int) (hn : 0 < n) (hi : 0 ≤ i ∧ i ≤ n) :
    let fw := FRgb.fadeChan cur goal i n
    let host := Host.RGB.interp (α := K) cur goal i n
    (fw - host).natAbs ≤ 1 ∧ ((2 * ((goal - cur) * i)) % (2 * n) ≠ n → fw = host) := by
  intro fw host
  exact Lemmas.C04.fade_step_close cur goal i n hn

/-- the full statement (equal at every step) fails on a tie: known finding K04a -/
theorem rgb_fade_tie_counterexample :
    FRgb.fadeChan 0 1 1 2 = 1 ∧ Host.RGB.interp (α := K) 0 1 1 2 = 0 := by
  open Lemmas.C04 Lemmas.C19 in
  constructor
  · decide
  · rw [interp_eq]
    have h : ((0 : Int) : K) + (((1 - 0) * 1 : Int) : K) / ((2 : Int) : K) = 1 / 2 := by norm_num
    rw [h]
    unfold roundHEK
    simp only [floor_half]
    norm_num

/-! ### Servo -/
def servoOp : Host.ServoOp K → FServoOp K
  | .write a => .write a
  | .writeUs p => .writeUs p

def RelServo (f : FServo K) (h : Host.Servo K) : Prop :=
  f.minA = h.minA ∧ f.maxA = h.maxA ∧ f.minP = h.minP ∧ f.maxP = h.maxP ∧ f.angle = h.angle ∧ f.pulse = h.pulse

theorem servo_agrees (f : FServo K) (h : Host.Servo K) (op : Host.ServoOp K) (hrel : RelServo f h)
    (ha : h.minA < h.maxA) (hp : h.minP < h.maxP) (hok : (Host.Servo.step h op).2 = .ok) :
    RelServo (FServo.step f (servoOp op)).st (Host.Servo.step h op).1 ∧
    (FServo.step f (servoOp op)).evs =
      (match op with
       | .write _ => [.servoWrite (Num.trunc ((Host.Servo.step h op).1.angle + 1 / 2))]
       | .writeUs _ => [.servoUs (Num.trunc ((Host.Servo.step h op).1.pulse + 1 / 2))]) := by
  open Lemmas.C04 Lemmas.C19 in
  obtain ⟨fa0, fa1, fp0, fp1, fa, fp⟩ := f
  obtain ⟨ha0, ha1, hp0, hp1, hang, hpul⟩ := h
  obtain ⟨r1, r2, r3, r4, r5, r6⟩ := hrel
  simp only at r1 r2 r3 r4 r5 r6 ha hp
  subst r1 r2 r3 r4 r5 r6
  cases op with
  | write a =>
    simp only [Host.Servo.step] at hok ⊢
    split_ifs at hok ⊢ with hb
    simp only [Val.between, Bool.and_eq_true, le_iff, toF_flt] at hb
    obtain ⟨q1, q2, _⟩ := affine_map ha hp hb.1 hb.2
    have hz : FServo.isZ (fa1 - fa0) = false := isZ_false (sub_pos.mpr ha).ne'
    simp only [servoOp, FServo.step, hz, clampTo_id hb.1 hb.2, Host.Servo.angleToPulse, lit_half,
      Bool.false_eq_true, if_false]
    rw [clampTo_id q1 q2]
    refine ⟨⟨?_, ?_, ?_, ?_, ?_, ?_⟩, ?_⟩ <;> trivial
  | writeUs p =>
    simp only [Host.Servo.step] at hok ⊢
    split_ifs at hok ⊢ with hb
    simp only [Val.between, Bool.and_eq_true, le_iff, toF_flt] at hb
    have hz : FServo.isZ (fp1 - fp0) = false := isZ_false (sub_pos.mpr hp).ne'
    simp only [servoOp, FServo.step, hz, clampTo_id hb.1 hb.2, Host.Servo.pulseToAngle, lit_half,
      Bool.false_eq_true, if_false]
    refine ⟨⟨?_, ?_, ?_, ?_, ?_, ?_⟩, ?_⟩ <;> trivial

/-! ### DCMotor -/
def motorOp : Host.MotorOp K → FMotorOp K
  | .setSpeed v => .setSpeed v
  | .backward v => .backward v
  | .stop => .stop | .coast => .coast | .invert => .invert
  | .ramp t d => .ramp t d
  | .runFor d v => .runFor d v

def modeImage : Host.Mode → FMode
  | .coast => .coast | .drive => .drive | .brake => .brake

/-- the duty the firmware puts on the enable pin for an applied speed -/
def dutyOf (applied : K) : Int := clamp255 (Num.trunc (|applied| * 255 + 1 / 2))

/-- speeds so small that the PWM rounds to 0 are `drive` on the host and `coast` in firmware (finding K04b) -/
def NotTiny (x : K) : Prop := x = 0 ∨ 1 / 510 ≤ |x|

def RelMotor (f : FMotor K) (h : Host.Motor K) : Prop :=
  f.speed = h.speed ∧ f.inverted = h.inverted ∧ f.mode = modeImage h.mode

/-- single-command operations: state (hence every getter) agrees, provided no applied speed is tiny -/
theorem motor_agrees (f : FMotor K) (h : Host.Motor K) (op : Host.MotorOp K) (hrel : RelMotor f h)
    (hinv : (-1 : K) ≤ h.speed ∧ h.speed ≤ 1 ∧ h.applied = (if h.inverted then -h.speed else h.speed))
    (hok : (Host.Motor.step h op).res = .ok)
    (hnt : ∀ x ∈ (Host.Motor.step h op).trace, NotTiny x) (hnt0 : NotTiny h.speed) :
    RelMotor (FMotor.step f (motorOp op)).st (Host.Motor.step h op).st := by
  open Lemmas.C04 Lemmas.C19 in
  obtain ⟨hs, hi, hm⟩ := hrel
  obtain ⟨hb0, hb1, hap⟩ := hinv
  have hmode : ∀ (inv : Bool) (x : K), NotTinyL x →
      (if dutyL (effOf inv x) = 0 then FMode.coast else FMode.drive) =
        modeImage (if effOf inv x = 0 then Host.Mode.coast else Host.Mode.drive) := by
    intro inv x hx
    rw [ite_duty (notTiny_effOf hx)]
    split <;> rfl
  have key : ∀ (x : K) (w : Val K), FMotor.clampSpeed x = Host.Motor.clamp w → NotTinyL (Host.Motor.clamp w) →
      RelMotor (driveSt f x true) (Host.Motor.setSpeed h w) := by
    intro x w hx hn
    rw [host_setSpeed_eq]
    refine ⟨hx, hi, ?_⟩
    show (if dutyL (effOf f.inverted (FMotor.clampSpeed x)) = 0 then FMode.coast else FMode.drive) = _
    rw [hx, hi]
    exact hmode _ _ hn
  have hz : (fzero : K) = Host.Motor.zero := by rw [fzero_eq, zero_eq]
  cases op with
  | setSpeed v =>
    have hn : NotTinyL (Host.Motor.clamp v) := hnt _ (by simp [Host.Motor.step, host_setSpeed_eq])
    simp only [motorOp, FMotor.step, drive_eq, Host.Motor.step]
    exact key _ _ (clampSpeed_toF v) hn
  | backward v =>
    have hn : NotTinyL (Host.Motor.clamp (.flt (-(Host.Motor.fabs (Host.Motor.clamp v))))) :=
      hnt _ (by simp [Host.Motor.step, host_setSpeed_eq])
    simp only [motorOp, FMotor.step, drive_eq, Host.Motor.step]
    exact key _ _ (backward_eq v) hn
  | stop =>
    simp only [motorOp, FMotor.step, Host.Motor.step]
    exact ⟨hz, hi, rfl⟩
  | coast =>
    simp only [motorOp, FMotor.step, Host.Motor.step]
    exact ⟨hz, hi, rfl⟩
  | invert =>
    have hc : FMotor.clampSpeed f.speed = h.speed := by rw [hs]; exact clampSpeed_id hb0 hb1
    simp only [motorOp, FMotor.step, drive_eq, Host.Motor.step, host_apply_eq]
    refine ⟨hs, ?_, ?_⟩
    · show (!f.inverted) = (!h.inverted)
      rw [hi]
    · show (if dutyL (effOf (!f.inverted) (FMotor.clampSpeed f.speed)) = 0 then FMode.coast else FMode.drive) = _
      rw [hc, hi]
      exact hmode _ _ hnt0
  | ramp t d =>
    by_cases hd : Val.lt d (.int 0) = true
    · simp only [Host.Motor.step, if_pos hd] at hok; cases hok
    · rw [ramp_st h t d hd] at hnt ⊢
      simp only at hnt
      have hv : h.speed + (Host.Motor.clamp t - h.speed) / 20 * 20 = Host.Motor.clamp t := by
        field_simp; ring
      have hn : NotTinyL (Host.Motor.clamp (.flt (h.speed + (Host.Motor.clamp t - h.speed) / 20 * 20))) :=
        hnt _ (rampGo_trace_last _ _ _ _)
      have hi20 : (1 : Int) + ((20 : Nat) : Int) - 1 = 20 := by norm_num
      simp only [motorOp, FMotor.step, rampLoop_eq]
      rw [rampSt_eq, rampGo_st, if_neg (by norm_num), if_neg (by norm_num)]
      refine key _ _ ?_ hn
      rw [hi20, rampVal_end, hv, clampSpeed_clampSpeed, host_clamp_clamp, clampSpeed_toF]
  | runFor d v =>
    by_cases hd : Val.lt d (.int 0) = true
    · simp only [Host.Motor.step, if_pos hd] at hok; cases hok
    · simp only [motorOp, FMotor.step, drive_eq, Host.Motor.step, if_neg hd]
      exact ⟨hz, hi, rfl⟩

/-- applied speed query: `(inverted ? -speed : speed)` is the host's applied speed -/
theorem motor_applied_getter (f : FMotor K) (h : Host.Motor K) (hrel : RelMotor f h)
    (hinv : h.applied = (if h.inverted then -h.speed else h.speed)) :
    (if f.inverted then -f.speed else f.speed) = h.applied := by
  obtain ⟨hs, hi, _⟩ := hrel
  rw [hinv, hs, hi]

/-- `set_speed`: direction pins and duty are the image of the host's applied speed -/
theorem motor_set_speed_pins (f : FMotor K) (h : Host.Motor K) (v : Val K) (hrel : RelMotor f h)
    (hnt : NotTiny (Host.Motor.step h (.setSpeed v)).st.applied) :
    let a := (Host.Motor.step h (.setSpeed v)).st.applied
    (FMotor.step f (.setSpeed v)).evs =
      (if a = 0 then [.dWrite f.pins.1 0, .dWrite f.pins.2.1 0]
       else if 0 < a then [.dWrite f.pins.1 1, .dWrite f.pins.2.1 0]
       else [.dWrite f.pins.1 0, .dWrite f.pins.2.1 1]) ++ [.aWrite f.pins.2.2 (dutyOf a)] := by
  open Lemmas.C04 Lemmas.C19 in
  obtain ⟨_, hi, _⟩ := hrel
  intro a
  have ha : a = effOf f.inverted (FMotor.clampSpeed v.toF) := by
    simp only [a, Host.Motor.step, host_setSpeed_eq, hi, clampSpeed_toF]
  simp only [FMotor.step, drive_eq, ← ha, driveEvs]
  rw [ite_duty hnt]
  rfl

/-- delays: run_for waits ⌊duration⌋ ms, ramp 20 × ⌊duration/20⌋ ms (host: the unrounded values) -/
theorem motor_delays (f : FMotor K) (d v : Val K) (hd : 0 ≤ d.toF) :
    delaysOf (FMotor.step f (.runFor d v)).evs = [Num.trunc d.toF] ∧
    (∀ t, delaysOf (FMotor.step f (.ramp t d)).evs =
      if 0 < d.toF then List.replicate 20 (Num.trunc (d.toF / 20)) else []) := by
  open Lemmas.C04 Lemmas.C19 in
  have hdur : (if d.toF < (fzero : K) then fzero else d.toF) = d.toF := by
    rw [fzero_eq, if_neg (not_lt.mpr hd)]
  constructor
  · show delaysL _ = _
    simp only [FMotor.step, drive_eq, hdur, FMotor.brakeEvs, delaysL_append, delaysL_driveEvs]
    simp
  · intro t
    show delaysL _ = _
    have h20 : (0 : K) < d.toF / ((20 : Int) : K) ↔ 0 < d.toF := by
      push_cast
      constructor
      · intro h; by_contra hc
        have : d.toF = 0 := le_antisymm (not_lt.mp hc) hd
        rw [this] at h; simp at h
      · intro h; positivity
    simp only [FMotor.step, hdur, rampLoop_eq, delaysL_rampEvs, ofInt_eq, List.nil_append, h20]
    push_cast
    rfl

/-- the tiny-speed disagreement: known finding K04b -/
theorem motor_tiny_speed_counterexample :
    let v : Val K := .flt (1 / 1000)
    (Host.Motor.step (Host.Motor.init : Host.Motor K) (.setSpeed v)).st.mode = .drive ∧
    (FMotor.step (FMotor.init (2, 3, 6) : FMotor K) (.setSpeed v)).st.mode = .coast := by
  open Lemmas.C04 Lemmas.C19 in
  intro v
  have hc : Host.Motor.clamp v = 1 / 1000 := by
    rw [clamp_eq]; simp only [v, toF_flt]; norm_num
  have hc' : FMotor.clampSpeed (1 / 1000 : K) = 1 / 1000 := by
    rw [clampSpeed_eq]; norm_num
  have hd : dutyL (1 / 1000 : K) = 0 := by
    unfold dutyL
    rw [abs_of_pos (by norm_num), trunc_nonneg_eq (by norm_num)]
    have : ⌊(1 / 1000 : K) * 255 + 1 / 2⌋ = 0 := by
      rw [Int.floor_eq_iff]; constructor <;> norm_num
    rw [this]; rfl
  constructor
  · simp only [Host.Motor.step, host_setSpeed_eq, hc, Host.Motor.init, effOf]
    norm_num
  · simp only [FMotor.step, drive_eq, driveSt, FMotor.init, effOf, v, toF_flt, hc', Bool.false_eq_true, ↓reduceIte, hd]

example : (Host.Led.step ({} : Host.Led) (.blink (.int 5) (.int 2) : Host.LedOp K)).res = .ok := by
  simp [Host.Led.step, Val.lt, Val.le]

end Reduino.Props.C04
