import Reduino.Fw.Lcd
namespace Reduino.Props.C17
theorem stub : True := trivial
end Reduino.Props.C17
