import Reduino.Fw.Lcd
import Reduino.Lemmas.Field
import Reduino.Lemmas.C17
/-
  C17 — LCD text: same characters in the same cells on device and host, never off-row.
  `Lcd.Fw.*` are the emitted helper templates acting on an HD44780 cell matrix, `Lcd.Host.*` the host class's buffer
  operations.  Theorems hold for every geometry (all positive cols/rows — in particular 1..40 x 1..4), every text
  (any length), every alignment and clear flag, in-range row and column.
-/
namespace Reduino.Props.C17
open Reduino Reduino.Lcd Reduino.Lemmas.C17

variable {K : Type} [Field K] [LinearOrder K] [IsStrictOrderedRing K] [FloorRing K]

/-- a cell matrix / host buffer of the right shape -/
def Shaped (g : Grid) (cols rows : Nat) : Prop := g.length = rows ∧ ∀ r ∈ g, r.length = cols

/-- host object whose buffer mirrors the device cells -/
def Mirrors (l : Host.LCD) (g : Grid) : Prop := l.buffer = g ∧ Shaped g l.cols l.rows ∧ 0 < l.cols ∧ 0 < l.rows

/-- every print stays inside its row: `0 ≤ col` and `col + len ≤ cols` -/
def InRow (cols : Nat) (p : Print) : Prop := 0 ≤ p.col ∧ p.col + Int.ofNat p.len ≤ Int.ofNat cols

/-! ### write / line / message / clear: the device cells are exactly the host buffer -/

theorem write_same_cells (l : Host.LCD) (g : Grid) (col row : Int) (text : List Char) (clear : Bool) (align : Align)
    (hm : Mirrors l g) (hrow : 0 ≤ row ∧ row < Int.ofNat l.rows) (hcol : 0 ≤ col ∧ col < Int.ofNat l.cols) :
    ∃ l' ps, Host.write l col row text clear align = .ok (l', ps) ∧
      Mirrors l' (Fw.writeAligned g (Int.ofNat l.cols) col row text clear align).grid := by
  obtain ⟨rfl, ⟨hlen, hsh⟩, hc, hr⟩ := hm
  obtain ⟨l', ps, e, c1, r1, b1, n1, s1, _⟩ := write_core l col row text clear align hlen hsh hrow hcol
  exact ⟨l', ps, e, b1, ⟨by rw [← b1, n1, r1], by rw [← b1, c1]; exact s1⟩, by rw [c1]; exact hc, by rw [r1]; exact hr⟩

theorem line_same_cells (l : Host.LCD) (g : Grid) (row : Int) (text : List Char) (clear : Bool) (align : Align)
    (hm : Mirrors l g) (hrow : 0 ≤ row ∧ row < Int.ofNat l.rows) :
    ∃ l' ps, Host.line l row text align clear = .ok (l', ps) ∧
      Mirrors l' (Fw.writeAligned g (Int.ofNat l.cols) 0 row text clear align).grid := by
  obtain ⟨rfl, ⟨hlen, hsh⟩, hc, hr⟩ := hm
  have hcol : (0:Int) ≤ 0 ∧ (0:Int) < Int.ofNat l.cols := ⟨Int.le_refl 0, Int.ofNat_lt.mpr hc⟩
  obtain ⟨l', ps, e, c1, r1, b1, n1, s1, _⟩ := write_core l 0 row text clear align hlen hsh hrow hcol
  exact ⟨l', ps, e, b1, ⟨by rw [← b1, n1, r1], by rw [← b1, c1]; exact s1⟩, by rw [c1]; exact hc, by rw [r1]; exact hr⟩

/-- message on a display with at least two rows (the firmware block writes rows 0 and 1) -/
theorem message_same_cells (l : Host.LCD) (g : Grid) (top bottom : Option (List Char)) (ta ba : Align) (clear : Bool)
    (hm : Mirrors l g) (hrows : 2 ≤ l.rows) :
    ∃ l' ps, Host.message l top bottom ta ba clear = .ok (l', ps) ∧
      Mirrors l' (
        let g1 := match top with
          | some t => (Fw.writeAligned g (Int.ofNat l.cols) 0 0 t clear ta).grid
          | none => g
        match bottom with
          | some b => (Fw.writeAligned g1 (Int.ofNat l.cols) 0 1 b clear ba).grid
          | none => g1) := by
  obtain ⟨rfl, ⟨hlen, hsh⟩, hc, hr⟩ := hm
  obtain ⟨l', ps, e, c1, r1, b1, n1, s1⟩ := message_core l top bottom ta ba clear hlen hsh hc hrows
  have hm' : Mirrors l' l'.buffer :=
    ⟨rfl, ⟨by rw [n1, r1], by rw [c1]; exact s1⟩, by rw [c1]; exact hc, by rw [r1]; exact hr⟩
  exact ⟨l', ps, e, Eq.subst (motive := fun G => Mirrors l' G) b1 hm'⟩

/-- on a one-row display the firmware still addresses row 1 (outside the matrix): known finding K17a -/
theorem message_one_row_counterexample :
    let o := Fw.writeAligned (blank 16 1) 16 0 1 ['b'] true Align.left
    o.prints ≠ [] ∧ ∀ p ∈ o.prints, p.row = 1 := by
  decide

theorem clear_same_cells (l : Host.LCD) (g : Grid) (hm : Mirrors l g) :
    Mirrors (Host.clear l) (blank l.cols l.rows) := by
  obtain ⟨_, _, hc, hr⟩ := hm
  refine ⟨rfl, ⟨?_, ?_⟩, hc, hr⟩
  · simp [blank, Host.clear]
  · intro r hr'
    simp only [blank] at hr'
    rw [List.eq_of_mem_replicate hr']
    simp [blankRow, Host.clear]

/-- rows other than the addressed one are untouched, on both sides -/
theorem other_rows_untouched (g : Grid) (cols col row : Int) (text : List Char) (clear : Bool) (align : Align)
    (r : Nat) (hr : Int.ofNat r ≠ row) :
    (Fw.writeAligned g cols col row text clear align).grid.getD r [] = g.getD r [] := by
  exact getD_writeAligned g cols col row text clear align r hr

/-! ### never off-row -/

theorem fw_never_off_row (g : Grid) (cols : Nat) (col row : Int) (text : List Char) (clear : Bool) (align : Align) :
    ∀ p ∈ (Fw.writeAligned g (Int.ofNat cols) col row text clear align).prints, InRow cols p ∧ p.row = row := by
  exact writeAligned_prints g cols col row text clear align

theorem host_never_off_row (l : Host.LCD) (col row : Int) (text : List Char) (clear : Bool) (align : Align)
    (l' : Host.LCD) (ps : List Print) (hcol : 0 ≤ col) (hs : Shaped l.buffer l.cols l.rows)
    (h : Host.write l col row text clear align = .ok (l', ps)) :
    (∀ p ∈ ps, InRow l.cols p ∧ p.row = row) ∧ Shaped l'.buffer l.cols l.rows := by
  exact write_shape_prints l col row text clear align l' ps hcol hs.1 hs.2 h

theorem fw_progress_never_off_row (g : Grid) (cols : Nat) (row value maxValue width : Int) (fill : Char) (label : List Char) :
    ∀ p ∈ (Fw.progress g (Int.ofNat cols) row value maxValue width fill label).prints, InRow cols p ∧ p.row = row := by
  exact progress_prints g cols row value maxValue width fill label

/-! ### progress bar -/

/-- firmware filled length: monotone in value, 0 at value ≤ 0, the bar width at value ≥ max -/
theorem fw_progress_laws (cols v1 v2 mx w : Int) (hmx : 0 < mx) (hw : 1 ≤ w ∧ w ≤ cols) (h12 : v1 ≤ v2) :
    (Fw.progressFilled cols v1 mx w).1 ≤ (Fw.progressFilled cols v2 mx w).1 ∧
    (v1 ≤ 0 → (Fw.progressFilled cols v1 mx w).1 = 0) ∧
    (mx ≤ v2 → (Fw.progressFilled cols v2 mx w).1 = w) ∧
    (Fw.progressFilled cols v1 mx w).2 = w := by
  exact fw_progress_laws' cols v1 v2 mx w hmx hw h12

theorem host_progress_laws (cols : Nat) (v1 v2 mx w : Int) (hmx : 0 < mx) (hw : 1 ≤ w ∧ w ≤ Int.ofNat cols) (h12 : v1 ≤ v2) :
    (Host.progressFilled (α := K) cols v1 mx (some w)).1 ≤ (Host.progressFilled (α := K) cols v2 mx (some w)).1 ∧
    (v1 ≤ 0 → (Host.progressFilled (α := K) cols v1 mx (some w)).1 = 0) ∧
    (mx ≤ v2 → (Host.progressFilled (α := K) cols v2 mx (some w)).1 = w) ∧
    (Host.progressFilled (α := K) cols v1 mx (some w)).2 = w := by
  exact host_progress_laws' cols v1 v2 mx w hmx hw h12

/-- both sides: identical whenever value·width is a multiple of max, never more than one cell apart -/
theorem progress_close (cols : Nat) (v mx w : Int) (hmx : 0 < mx) (hw : 1 ≤ w ∧ w ≤ Int.ofNat cols) :
    let fw := (Fw.progressFilled (Int.ofNat cols) v mx w).1
    let host := (Host.progressFilled (α := K) cols v mx (some w)).1
    (fw - host).natAbs ≤ 1 ∧ ((0 ≤ v ∧ v ≤ mx ∧ (v * w) % mx = 0) → fw = host) := by
  exact progress_close' cols v mx w hmx hw

/-! ### backlight pin and glyph rows -/

/-- host backlight state mirrored by the firmware shadow state -/
def BlRel (b : Fw.Backlight) (l : Host.LCD) : Prop :=
  b.on = l.backlightOn ∧ b.brightness = l.brightness ∧ 0 ≤ l.brightness ∧ l.brightness ≤ 255 ∧
  b.pin = (if l.backlightOn then l.brightness else 0)

theorem backlight_init : BlRel ({} : Fw.Backlight) (Host.LCD.create 16 2) := by
  simp [BlRel, Host.LCD.create]

/-- display/backlight/brightness keep the pin at 0 when off and at the last brightness when on -/
theorem backlight_step (b : Fw.Backlight) (l : Host.LCD) (h : BlRel b l) :
    (∀ on, BlRel (b.setOn on) (Host.backlight l on)) ∧ (∀ on, BlRel (b.setOn on) (Host.display l on)) ∧
    (∀ lv l', Host.setBrightness l lv = .ok l' → BlRel (b.setLevel lv) l') := by
  obtain ⟨h1, h2, h3, h4, h5⟩ := h
  refine ⟨?_, ?_, ?_⟩
  · intro on
    cases on <;> simp [BlRel, Fw.Backlight.setOn, Host.backlight, h2, h3, h4]
  · intro on
    cases on <;> simp [BlRel, Fw.Backlight.setOn, Host.display, h2, h3, h4]
  · intro lv l' hl
    unfold Host.setBrightness at hl
    split at hl
    · rename_i hlv
      cases hl
      have hc : Fw.clampLevel lv = lv := by unfold Fw.clampLevel; split_ifs <;> omega
      cases hon : b.on
      · have : l.backlightOn = false := by rw [← h1, hon]
        simp [BlRel, Fw.Backlight.setLevel, hc, hon, this, hlv.1, hlv.2, h5]
      · have : l.backlightOn = true := by rw [← h1, hon]
        simp [BlRel, Fw.Backlight.setLevel, hc, hon, this, hlv.1, hlv.2]
    · cases hl

/-- custom glyphs are uploaded with exactly the eight 5-bit rows the host stores -/
theorem glyph_rows (slot : Int) (bitmap rows : List Int) (h : Host.glyph slot bitmap = .ok rows)
    (h8 : bitmap.length = 8) :   -- the transpiler rejects any other length
   
    rows = Fw.glyphRows bitmap ∧ rows.length = 8 ∧ ∀ v ∈ rows, 0 ≤ v ∧ v < 32 := by
  unfold Host.glyph at h
  split at h
  · cases h
  · simp only [] at h
    split at h
    · cases h
    · cases h
      have : (List.map (fun x => x % 32) bitmap).take 8 = List.map (fun x => x % 32) bitmap := by
        apply List.take_of_length_le; simp [h8]
      rw [this]
      refine ⟨rfl, by simp [h8], ?_⟩
      intro v hv
      obtain ⟨a, _, rfl⟩ := List.mem_map.mp hv
      omega

example : Mirrors (Host.LCD.create 16 2) (blank 16 2) := by
  refine ⟨rfl, ⟨by simp [blank, Host.LCD.create], ?_⟩, by decide, by decide⟩
  intro r hr
  rw [List.eq_of_mem_replicate hr]
  simp [blankRow, Host.LCD.create]

end Reduino.Props.C17
