import Reduino.Fw.Inputs
import Reduino.Fw.Clock
import Reduino.Fw.InputsWrap
import Reduino.Host.Core
import Reduino.Lemmas.Field
import Reduino.Lemmas.C15
/-
  C15 — Inputs: button edges, pot reads and ultrasonic ranging behave as documented.
  Button: all sample sequences.  Ultrasonic: all echo scripts (incl. time-outs = 0), all clock behaviours
  (any non-negative drift at every millis() call, any time between calls), clock as `Nat` milliseconds.
-/
namespace Reduino.Props.C15
open Reduino Reduino.Fw

variable {K : Type} [Field K] [LinearOrder K] [IsStrictOrderedRing K] [FloorRing K]

/-! ### Button -/

/-- pass k runs the handler iff `s_k ∧ ¬s_{k-1}` (with `s_{-1}` the previous sample) and every `is_pressed()` of
    that pass returns `s_k` -/
theorem button_passes_spec (b : Button) (sig : List Bool) :
    b.passes sig = List.zipWith (fun prev s => (s && !prev, s)) (b.prev :: sig) sig := by
  exact Lemmas.C15.passes_spec b sig

/-- never while held, on release or at start-up: with the setup sample `s0`, the handler runs in pass k exactly
    on a released-to-pressed transition of the sampled signal `s0, s1, …` -/
theorem clicks_eq_rising_edges (s0 : Bool) (sig : List Bool) :
    (Button.setupSample s0).clickCount sig = Host.risingEdges s0 sig := by
  exact Lemmas.C15.clickCount_eq_risingEdges (Button.setupSample s0) sig

/-- a button held at power-up does not click in the first pass -/
theorem no_startup_click (sig : List Bool) :
    ((Button.setupSample true).passes (true :: sig)).head? = some (false, true) := by
  simp [Button.passes, Button.poll, Button.setupSample]

/-- the host-side Button produces the same click count whenever the signal starts released -/
theorem host_agrees (sig : List Bool) :
    Host.Button.clicks {} sig = (Button.setupSample false).clickCount sig := by
  rw [Lemmas.C15.hostClicks_eq_risingEdges, Lemmas.C15.clickCount_eq_risingEdges]
  rfl

/-- why the setup sample matters: without it the start-up guarantee fails.  (This was the behaviour of a Button declared inside
    the main loop body — finding K15a, repaired in /repo by 5cf46d6: such a button now takes the same sample in setup().) -/
theorem loop_declared_startup_click_counterexample :
    (({} : Button).passes [true]).head? = some (true, true) := by
  decide

/-! ### Ultrasonic -/

def pulses (l : List UEv) : List Nat := l.filterMap fun | .pulse t => some t | _ => none

/-- spacing monitor: `last` is the clock value stamped after the previous trigger (0 = clock not yet running) -/
def Spaced : Nat → List UEv → Prop
  | _, [] => True
  | last, .pulse t :: rest => (last ≠ 0 → last + 60 ≤ t) ∧ Spaced last rest
  | _, .stamp t :: rest => Spaced t rest
  | last, _ :: rest => Spaced last rest

/-- at most three attempts -/
theorem ultra_attempts_le_three (u : Ultra K) (now : Nat) (es ds : List Nat) :
    (pulses (Ultra.measure u now es ds).evs).length ≤ 3 ∧ 1 ≤ (pulses (Ultra.measure u now es ds).evs).length := by
  have h := Lemmas.C15.run_pulses_length 3 u now es ds
  rw [Lemmas.C15.measure_eq_run]
  exact ⟨h.1, h.2 (by decide)⟩

/-- echo-time · 0.0343 / 2 -/
theorem distance_formula (d : Nat) : (Ultra.distanceOf d : K) = (d : K) * (343 / 10000) / 2 := by
  simp only [Ultra.distanceOf, lit, ofInt_eq, Int.ofNat_eq_natCast]
  push_cast
  ring

/-- the result is the distance of the first non-zero echo among at most three attempts; after three time-outs
    the last good reading, 400 cm if there is none -/
theorem ultra_value (u : Ultra K) (now : Nat) (es ds : List Nat) :
    let first3 := [es.getD 0 0, es.getD 1 0, es.getD 2 0]
    match first3.find? (0 < ·) with
    | some d => (Ultra.measure u now es ds).result = Ultra.distanceOf d ∧
                (Ultra.measure u now es ds).st.has = true ∧ (Ultra.measure u now es ds).st.lastDistance = Ultra.distanceOf d
    | none => (Ultra.measure u now es ds).result = (if u.has then u.lastDistance else 400) ∧
              (Ultra.measure u now es ds).st.has = u.has ∧ (Ultra.measure u now es ds).st.lastDistance = u.lastDistance := by
  have h := Lemmas.C15.run_value 3 u now es ds
  rw [← Lemmas.C15.firstPos_three, ← Lemmas.C15.measure_eq_run] at h
  have e : (Num.ofInt 400 : K) = 400 := by simp only [ofInt_eq, Int.cast_ofNat]
  rw [e] at h
  exact h

/-- never two trigger pulses within 60 ms once the clock is running — for every clock behaviour; and the
    invariant needed to chain calls (the stamp is in the past, the clock never goes back) is re-established -/
theorem ultra_spacing (u : Ultra K) (now : Nat) (es ds : List Nat) (hpast : u.lastTrigger ≤ now) :
    Spaced u.lastTrigger (Ultra.measure u now es ds).evs ∧
    (Ultra.measure u now es ds).st.lastTrigger ≤ (Ultra.measure u now es ds).now ∧
    now ≤ (Ultra.measure u now es ds).now := by
  have hS : ∀ (l : List UEv) (last : Nat), Spaced last l ↔ Lemmas.C15.Spaced' last l := by
    intro l
    induction l with
    | nil => intro last; simp [Spaced, Lemmas.C15.Spaced']
    | cons e l ih => intro last; cases e <;> simp [Spaced, Lemmas.C15.Spaced', ih]
  have h := Lemmas.C15.run_spacing 3 u now es ds hpast
  rw [← Lemmas.C15.measure_eq_run] at h
  exact ⟨(hS _ _).2 h.1, h.2⟩

/-- consequence for trigger pulses themselves: consecutive pulses of one call are ≥ 60 ms apart whenever the
    clock was running (non-zero) at the stamp between them -/
theorem ultra_pulse_gap (u : Ultra K) (now : Nat) (es ds : List Nat) (hpast : u.lastTrigger ≤ now) (hrun : 0 < now) :
    List.Pairwise (fun a b => a + 60 ≤ b) (pulses (Ultra.measure u now es ds).evs) := by
  have h := (Lemmas.C15.run_pulse_gap 3 u now es ds hpast hrun).2
  rw [← Lemmas.C15.measure_eq_run] at h
  exact h

example : (Ultra.measure (Ultra.init : Ultra K) 0 [0, 0, 583] [5, 5, 5, 5, 5, 5, 5, 5, 5]).result = Ultra.distanceOf 583 := by
  have h := Lemmas.C15.run_value 3 (Ultra.init : Ultra K) 0 [0, 0, 583] [5, 5, 5, 5, 5, 5, 5, 5, 5]
  rw [← Lemmas.C15.measure_eq_run] at h
  simpa [Lemmas.C15.firstPos] using h.1

/-! ### the ultrasonic rate limiter on the wrapping counter -/

/-- the guard of `__redu_ultrasonic_measure_*` as the board computes it on counter values: `(should wait, for how long)` -/
def ultraGuardW (W last now : Nat) : Bool × Nat :=
  (decide (last ≠ 0 ∧ Clock.usub W now last < Ultra.minInterval), Ultra.minInterval - Clock.usub W now last)

/-- … and as `Ultra.attempts` computes it on the natural-number clock -/
def ultraGuard (last now : Nat) : Bool × Nat :=
  (decide (last ≠ 0 ∧ now - last < Ultra.minInterval), Ultra.minInterval - (now - last))

/-- for every counter width `W`: as long as the previous trigger was stamped less than one turn of the counter ago and not at
    a multiple of `W` (where the stored value would read as "never"), the board's unsigned arithmetic decides the 60 ms
    rate limit, and computes the wait, exactly as the natural-number model does — also when the counter has wrapped in between -/
theorem ultra_guard_across_wrap (W last now : Nat) (hle : last ≤ now) (hlt : now - last < W)
    (hnz : last = 0 ∨ last % W ≠ 0) :
    ultraGuardW W (last % W) (now % W) = ultraGuard last now := by
  unfold ultraGuardW ultraGuard
  rw [Clock.counter_difference W last now hle hlt]
  rcases hnz with h | h
  · subst h; simp
  · have : last ≠ 0 := by intro h0; rw [h0] at h; simp at h
    simp [h, this]

/-- the guard written with absolute times, `now < last + 60` (sum modulo `W`), is NOT sound across the wrap: 3 ms after a
    trigger stamped 5 ms before the counter wraps (and still before the wrap) it lets the next pulse go at once -/
theorem ultra_absolute_guard_counterexample :
    let W := 2 ^ 32
    let last := W - 5
    let now := W - 2
    decide (now % W < (last % W + 60) % W) = false ∧ (ultraGuard last now).1 = true ∧
      (ultraGuardW W (last % W) (now % W)).1 = true := by
  decide

/-- **the whole helper on the wrapping counter.**  `Ultra.attemptsW W` is `__redu_ultrasonic_measure_*` with every clock value
    the helper itself uses taken modulo `W`; under the side condition `SafeW` (read off the natural-number run: at each attempt
    the previous stamp is in the past, less than one turn of the counter ago, and not a multiple of `W`) it produces the same
    events, result and remaining inputs as the natural-number model, and its stored stamp is that model's stamp modulo `W` —
    so `ultra_spacing`, `ultra_pulse_gap` and `ultra_value` hold of it too, also across the wrap -/
theorem ultra_measure_across_wrap (W : Nat) (u : Ultra K) (now : Nat) (es ds : List Nat)
    (h : Ultra.SafeW W Ultra.maxAttempts u now es ds) :
    Ultra.attemptsW W Ultra.maxAttempts (u.onCounter W) now es ds [] =
      { Ultra.measure u now es ds with st := (Ultra.measure u now es ds).st.onCounter W } :=
  Lemmas.C15.ultra_measure_across_wrap_aux W Ultra.maxAttempts u now es ds [] h


/-- the side condition is met by a call that straddles the wrap of a 32-bit counter: three attempts at real times
    2^32 − 5, 2^32 + 35 (after the 60 ms wait) and 2^32 + 105 -/
example : Ultra.SafeW 4294967296 Ultra.maxAttempts ({ lastTrigger := 4294967266, lastDistance := (0 : ℚ), has := false } : Ultra ℚ)
    4294967286 [0, 0, 583] [5, 5, 5, 5, 5, 5, 5, 5, 5] := by
  refine ⟨⟨by decide, by decide, Or.inr (by decide)⟩, Or.inr ?_⟩
  refine ⟨⟨by decide, by decide, Or.inr (by decide)⟩, Or.inr ?_⟩
  exact ⟨⟨by decide, by decide, Or.inr (by decide)⟩, Or.inl (by decide)⟩

end Reduino.Props.C15
