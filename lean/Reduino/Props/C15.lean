import Reduino.Fw.Inputs
import Reduino.Host.Core
import Reduino.Lemmas.Field
import Reduino.Lemmas.C15
/-
  C15 — Inputs: button edges, pot reads and ultrasonic ranging behave as documented.
  Button: all sample sequences.  Ultrasonic: all echo scripts (incl. time-outs = 0), all clock behaviours
  (any non-negative drift at every millis() call, any time between calls), clock as `Nat` milliseconds.
-/
namespace Reduino.Props.C15
open Reduino Reduino.Fw

variable {K : Type} [Field K] [LinearOrder K] [IsStrictOrderedRing K] [FloorRing K]

/-! ### Button -/

/-- pass k runs the handler iff `s_k ∧ ¬s_{k-1}` (with `s_{-1}` the previous sample) and every `is_pressed()` of
    that pass returns `s_k` -/
theorem button_passes_spec (b : Button) (sig : List Bool) :
    b.passes sig = List.zipWith (fun prev s => (s && !prev, s)) (b.prev :: sig) sig := by
  exact Lemmas.C15.passes_spec b sig

/-- never while held, on release or at start-up: with the setup sample `s0`, the handler runs in pass k exactly
    on a released-to-pressed transition of the sampled signal `s0, s1, …` -/
theorem clicks_eq_rising_edges (s0 : Bool) (sig : List Bool) :
    (Button.setupSample s0).clickCount sig = Host.risingEdges s0 sig := by
  exact Lemmas.C15.clickCount_eq_risingEdges (Button.setupSample s0) sig

/-- a button held at power-up does not click in the first pass -/
theorem no_startup_click (sig : List Bool) :
    ((Button.setupSample true).passes (true :: sig)).head? = some (false, true) := by
  simp [Button.passes, Button.poll, Button.setupSample]

/-- the host-side Button produces the same click count whenever the signal starts released -/
theorem host_agrees (sig : List Bool) :
    Host.Button.clicks {} sig = (Button.setupSample false).clickCount sig := by
  rw [Lemmas.C15.hostClicks_eq_risingEdges, Lemmas.C15.clickCount_eq_risingEdges]
  rfl

/-- why the setup sample matters: without it the start-up guarantee fails.  (This was the behaviour of a Button declared inside
    the main loop body — finding K15a, repaired in /repo by 5cf46d6: such a button now takes the same sample in setup().) -/
theorem loop_declared_startup_click_counterexample :
    (({} : Button).passes [true]).head? = some (true, true) := by
  decide

/-! ### Ultrasonic -/

def pulses (l : List UEv) : List Nat := l.filterMap fun | .pulse t => some t | _ => none

/-- spacing monitor: `last` is the clock value stamped after the previous trigger (0 = clock not yet running) -/
def Spaced : Nat → List UEv → Prop
  | _, [] => True
  | last, .pulse t :: rest => (last ≠ 0 → last + 60 ≤ t) ∧ Spaced last rest
  | _, .stamp t :: rest => Spaced t rest
  | last, _ :: rest => Spaced last rest

/-- at most three attempts -/
theorem ultra_attempts_le_three (u : Ultra K) (now : Nat) (es ds : List Nat) :
    (pulses (Ultra.measure u now es ds).evs).length ≤ 3 ∧ 1 ≤ (pulses (Ultra.measure u now es ds).evs).length := by
  have h := Lemmas.C15.run_pulses_length 3 u now es ds
  rw [Lemmas.C15.measure_eq_run]
  exact ⟨h.1, h.2 (by decide)⟩

/-- echo-time · 0.0343 / 2 -/
theorem distance_formula (d : Nat) : (Ultra.distanceOf d : K) = (d : K) * (343 / 10000) / 2 := by
  simp only [Ultra.distanceOf, lit, ofInt_eq, Int.ofNat_eq_natCast]
  push_cast
  ring

/-- the result is the distance of the first non-zero echo among at most three attempts; after three time-outs
    the last good reading, 400 cm if there is none -/
theorem ultra_value (u : Ultra K) (now : Nat) (es ds : List Nat) :
    let first3 := [es.getD 0 0, es.getD 1 0, es.getD 2 0]
    match first3.find? (0 < ·) with
    | some d => (Ultra.measure u now es ds).result = Ultra.distanceOf d ∧
                (Ultra.measure u now es ds).st.has = true ∧ (Ultra.measure u now es ds).st.lastDistance = Ultra.distanceOf d
    | none => (Ultra.measure u now es ds).result = (if u.has then u.lastDistance else 400) ∧
              (Ultra.measure u now es ds).st.has = u.has ∧ (Ultra.measure u now es ds).st.lastDistance = u.lastDistance := by
  have h := Lemmas.C15.run_value 3 u now es ds
  rw [← Lemmas.C15.firstPos_three, ← Lemmas.C15.measure_eq_run] at h
  have e : (Num.ofInt 400 : K) = 400 := by simp only [ofInt_eq, Int.cast_ofNat]
  rw [e] at h
  exact h

/-- never two trigger pulses within 60 ms once the clock is running — for every clock behaviour; and the
    invariant needed to chain calls (the stamp is in the past, the clock never goes back) is re-established -/
theorem ultra_spacing (u : Ultra K) (now : Nat) (es ds : List Nat) (hpast : u.lastTrigger ≤ now) :
    Spaced u.lastTrigger (Ultra.measure u now es ds).evs ∧
    (Ultra.measure u now es ds).st.lastTrigger ≤ (Ultra.measure u now es ds).now ∧
    now ≤ (Ultra.measure u now es ds).now := by
  have hS : ∀ (l : List UEv) (last : Nat), Spaced last l ↔ Lemmas.C15.Spaced' last l := by
    intro l
    induction l with
    | nil => intro last; simp [Spaced, Lemmas.C15.Spaced']
    | cons e l ih => intro last; cases e <;> simp [Spaced, Lemmas.C15.Spaced', ih]
  have h := Lemmas.C15.run_spacing 3 u now es ds hpast
  rw [← Lemmas.C15.measure_eq_run] at h
  exact ⟨(hS _ _).2 h.1, h.2⟩

/-- consequence for trigger pulses themselves: consecutive pulses of one call are ≥ 60 ms apart whenever the
    clock was running (non-zero) at the stamp between them -/
theorem ultra_pulse_gap (u : Ultra K) (now : Nat) (es ds : List Nat) (hpast : u.lastTrigger ≤ now) (hrun : 0 < now) :
    List.Pairwise (fun a b => a + 60 ≤ b) (pulses (Ultra.measure u now es ds).evs) := by
  have h := (Lemmas.C15.run_pulse_gap 3 u now es ds hpast hrun).2
  rw [← Lemmas.C15.measure_eq_run] at h
  exact h

example : (Ultra.measure (Ultra.init : Ultra K) 0 [0, 0, 583] [5, 5, 5, 5, 5, 5, 5, 5, 5]).result = Ultra.distanceOf 583 := by
  have h := Lemmas.C15.run_value 3 (Ultra.init : Ultra K) 0 [0, 0, 583] [5, 5, 5, 5, 5, 5, 5, 5, 5]
  rw [← Lemmas.C15.measure_eq_run] at h
  simpa [Lemmas.C15.firstPos] using h.1

end Reduino.Props.C15
