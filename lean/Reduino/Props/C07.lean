import Reduino.Lang.Layout
import Reduino.Lemmas.C07
/-
  C07 — Every line is accounted for and stays in the block Python assigns it to.

  `stripInlineComment` / `indentOf` are the character-level functions, `reduinoBlocks` what `_parse_simple_lines` makes of a
  snippet, `pyBlocks` Python's own block rule on the same lines.  The full statement (`C07_statement`: the two always
  agree) is FALSE of the current front end; the `…_counterexample` theorems exhibit the three mechanisms (known finding
  K07a); proved part: agreement on `LayoutOK` scripts and the invariances listed in the property.
-/
namespace Reduino.Props.C07
open Reduino.Lang.Layout

/-! ### character level -/

/-- the result is the text itself, or the right-stripped prefix before a `#` of the text -/
theorem strip_is_cut_at_hash (s : List Char) :
    stripInlineComment s = s ∨ ∃ pre post, s = pre ++ '#' :: post ∧ stripInlineComment s = rstrip pre := by
  sorry

/-- text without `#` is returned unchanged; a `#` outside any quotes (no quote or backslash before it) cuts -/
theorem strip_no_hash (s : List Char) (h : '#' ∉ s) : stripInlineComment s = s := by
  sorry

theorem strip_plain_prefix (pre post : List Char) (h : ∀ c ∈ pre, c ≠ '#' ∧ c ≠ '\'' ∧ c ≠ '"' ∧ c ≠ '\\') :
    stripInlineComment (pre ++ '#' :: post) = rstrip pre := by
  sorry

/-- a `#` inside a double-quoted string literal (without escapes) does not cut -/
theorem strip_hash_in_string (a b c : List Char)
    (ha : ∀ x ∈ a, x ≠ '#' ∧ x ≠ '\'' ∧ x ≠ '"' ∧ x ≠ '\\') (hb : ∀ x ∈ b, x ≠ '"' ∧ x ≠ '\\')
    (hc : ∀ x ∈ c, x ≠ '#' ∧ x ≠ '\'' ∧ x ≠ '"' ∧ x ≠ '\\') :
    stripInlineComment (a ++ '"' :: b ++ '"' :: c) = a ++ '"' :: b ++ '"' :: c := by
  sorry

/-- indentation: `n` spaces count `n`, `n` tabs count `4 n`; scaling a space indentation by `k` scales the count -/
theorem indentOf_spaces (n : Nat) (rest : List Char) (h : rest.head? ≠ some ' ' ∧ rest.head? ≠ some '\t') :
    indentOf (List.replicate n ' ' ++ rest) = n ∧ indentOf (List.replicate n '\t' ++ rest) = 4 * n := by
  sorry

/-! ### block structure -/

/-- the property as stated: the front end's blocks are Python's -/
def C07_statement : Prop := ∀ ls : List Line, reduinoBlocks ls = pyBlocks ls

/-- the layouts on which the front end is right: comment-only lines are indented deeper than every header that is still
    open (stated simply: deeper than the nearest preceding header… we use the stronger, easily checked condition that a
    comment line has the indentation of the NEXT code line and that next line is not a continuation header), and no
    continuation header carries a trailing comment -/
def nextCode : List Line → Option Line
  | [] => none
  | l :: rest => if l.kind = .blank ∨ l.kind = .comment then nextCode rest else some l

def isCont (l : Line) : Bool := l.kind = .header .elifH || l.kind = .header .elseH || l.kind = .header .exceptH

def LayoutOK : List Line → Bool
  | [] => true
  | l :: rest =>
    (if l.kind = .comment then
       (match nextCode rest with
        | some n => l.indent = n.indent && !isCont n
        | none => false)
     else true) &&
    (if isCont l then !l.trailing else true) && LayoutOK rest

mutual
/-- no silently dropped line anywhere in the tree -/
def clean : Tree → Bool
  | .leaf _ => true
  | .dropped _ => false
  | .node _ _ cs => cleanList cs
def cleanList : List Tree → Bool
  | [] => true
  | t :: ts => clean t && cleanList ts
end

/-- removing blank lines never changes what the front end sees -/
theorem blank_lines_invisible (ls : List Line) :
    reduinoBlocks (ls.filter (·.kind ≠ .blank)) = reduinoBlocks ls := by
  sorry

/-- on `LayoutOK` scripts comment-only lines are invisible too -/
theorem comment_lines_invisible (ls : List Line) (h : LayoutOK ls = true) :
    reduinoBlocks (pyLines ls) = reduinoBlocks ls := by
  sorry

/-- scaling every indentation by `k ≥ 1` (indent unit) changes nothing -/
theorem indent_scaling_invisible (ls : List Line) (k : Nat) (hk : 1 ≤ k) :
    reduinoBlocks (ls.map fun l => { l with indent := k * l.indent }) = reduinoBlocks ls := by
  sorry

/-- trailing comments on simple statements and on block-opening headers (if/while/for/try — inside
    `_parse_simple_lines`) are invisible -/
theorem trailing_on_noncontinuation_invisible (ls : List Line) :
    reduinoBlocks (ls.map fun l => if isCont l then l else { l with trailing := false }) = reduinoBlocks ls := by
  sorry

/-- proved part: on code free of blank/comment lines and of trailing comments on continuation headers, the front end's
    forest is Python's -/
theorem blocks_eq_py_partial (ls : List Line) (hcode : ∀ l ∈ ls, l.kind ≠ .blank ∧ l.kind ≠ .comment)
    (htr : ∀ l ∈ ls, isCont l = true → l.trailing = false)
    (hwf : ∀ fuel, cleanList (nested fuel ls) = true) :
    reduinoBlocks ls = pyBlocks ls := by
  sorry

/-! ### the three mechanisms by which the full statement fails (known finding K07a) -/

theorem trailing_comment_on_else_counterexample :
    let ls : List Line := [⟨0, .header .ifH, false, 1⟩, ⟨4, .simple, false, 2⟩, ⟨0, .header .elseH, true, 3⟩, ⟨4, .simple, false, 4⟩]
    reduinoBlocks ls ≠ pyBlocks ls := by
  sorry

theorem dedented_comment_counterexample :
    let ls : List Line := [⟨0, .header .whileH, false, 1⟩, ⟨4, .simple, false, 2⟩, ⟨0, .comment, false, 0⟩, ⟨4, .simple, false, 3⟩]
    reduinoBlocks ls ≠ pyBlocks ls := by
  sorry

theorem comment_before_else_counterexample :
    let ls : List Line := [⟨0, .header .ifH, false, 1⟩, ⟨4, .simple, false, 2⟩, ⟨0, .comment, false, 0⟩, ⟨0, .header .elseH, false, 3⟩, ⟨4, .simple, false, 4⟩]
    reduinoBlocks ls ≠ pyBlocks ls := by
  sorry

/-- top level: a trailing comment on `while True:` empties the main loop -/
theorem trailing_comment_on_main_loop_counterexample :
    let ls : List Line := [⟨0, .simple, false, 1⟩, ⟨0, .header .whileTrue, true, 9⟩, ⟨4, .simple, false, 2⟩]
    (reduinoProgram ls).loop = [] ∧ (reduinoProgram (ls.map fun l => { l with trailing := false })).loop ≠ [] := by
  sorry

theorem C07_statement_false : ¬ C07_statement := by
  sorry

example : LayoutOK [⟨0, .header .ifH, true, 1⟩, ⟨4, .comment, false, 0⟩, ⟨4, .simple, true, 2⟩, ⟨0, .header .elseH, false, 3⟩, ⟨4, .simple, false, 4⟩] = true := by
  sorry

end Reduino.Props.C07
