import Reduino.Lang.Layout
import Reduino.Lemmas.C07
/-
  C07 — Every line is accounted for and stays in the block Python assigns it to.

  `stripInlineComment` / `indentOf` are the character-level functions, `reduinoBlocks` what `_parse_simple_lines` makes of a
  snippet, `pyBlocks` Python's own block rule on the same lines.  The full statement (`C07_statement`: the two always
  agree) is FALSE of the current front end; the `…_counterexample` theorems exhibit the three mechanisms (known finding
  K07a); proved part: agreement on `LayoutOK` scripts and the invariances listed in the property.
-/
namespace Reduino.Props.C07
open Reduino.Lang.Layout Reduino.Lemmas.C07

/-! ### character level -/

/-- the result is the text itself, or the right-stripped prefix before a `#` of the text -/
theorem strip_is_cut_at_hash (s : List Char) :
    stripInlineComment s = s ∨ ∃ pre post, s = pre ++ '#' :: post ∧ stripInlineComment s = rstrip pre := by
  unfold stripInlineComment
  cases h : stripGo {} [] s with
  | none => left; rfl
  | some r =>
    right
    obtain ⟨pre, post, h1, h2⟩ := stripGo_cut _ _ _ _ h
    exact ⟨pre, post, h1, by simpa using h2⟩

/-- text without `#` is returned unchanged; a `#` outside any quotes (no quote or backslash before it) cuts -/
theorem strip_no_hash (s : List Char) (h : '#' ∉ s) : stripInlineComment s = s := by
  simp [stripInlineComment, stripGo_no_hash _ _ _ h]

theorem strip_plain_prefix (pre post : List Char) (h : ∀ c ∈ pre, c ≠ '#' ∧ c ≠ '\'' ∧ c ≠ '"' ∧ c ≠ '\\') :
    stripInlineComment (pre ++ '#' :: post) = rstrip pre := by
  unfold stripInlineComment
  show (stripGo ⟨false, false, false⟩ [] (pre ++ '#' :: post)).getD _ = _
  rw [stripGo_plain _ _ _ h, stripGo_hash]
  simp

/-- a `#` inside a double-quoted string literal (without escapes) does not cut -/
theorem strip_hash_in_string (a b c : List Char)
    (ha : ∀ x ∈ a, x ≠ '#' ∧ x ≠ '\'' ∧ x ≠ '"' ∧ x ≠ '\\') (hb : ∀ x ∈ b, x ≠ '"' ∧ x ≠ '\\')
    (hc : ∀ x ∈ c, x ≠ '#' ∧ x ≠ '\'' ∧ x ≠ '"' ∧ x ≠ '\\') :
    stripInlineComment (a ++ '"' :: b ++ '"' :: c) = a ++ '"' :: b ++ '"' :: c := by
  unfold stripInlineComment
  have hc' : '#' ∉ c := fun hm => (hc _ hm).1 rfl
  have : stripGo {} [] (a ++ '"' :: b ++ '"' :: c) = none := by
    show stripGo ⟨false, false, false⟩ [] _ = none
    rw [List.append_assoc, stripGo_plain _ _ _ ha]
    have e : stripGo ⟨false, false, false⟩ (a.reverse ++ []) ('"' :: b ++ '"' :: c)
        = stripGo ⟨false, true, false⟩ ('"' :: (a.reverse ++ [])) (b ++ '"' :: c) := by
      simp [stripGo]
    rw [e, stripGo_inDouble _ _ _ hb, stripGo_no_hash _ _ _ hc']
  rw [this]; rfl

/-- indentation: `n` spaces count `n`, `n` tabs count `4 n`; scaling a space indentation by `k` scales the count -/
theorem indentOf_spaces (n : Nat) (rest : List Char) (h : rest.head? ≠ some ' ' ∧ rest.head? ≠ some '\t') :
    indentOf (List.replicate n ' ' ++ rest) = n ∧ indentOf (List.replicate n '\t' ++ rest) = 4 * n := by
  induction n with
  | zero => simp [indentOf_other rest h]
  | succ n ih =>
    simp only [List.replicate_succ, List.cons_append, indentOf, ih.1, ih.2]
    omega

/-! ### block structure -/

/-- the property as stated: the front end's blocks are Python's -/
def C07_statement : Prop := ∀ ls : List Line, reduinoBlocks ls = pyBlocks ls

/-- the layouts on which the front end is right: comment-only lines are indented deeper than every header that is still
    open (stated simply: deeper than the nearest preceding header… we use the stronger, easily checked condition that a
    comment line has the indentation of the NEXT code line and that next line is not a continuation header), and no
    continuation header carries a trailing comment -/
def nextCode : List Line → Option Line
  | [] => none
  | l :: rest => if l.kind = .blank ∨ l.kind = .comment then nextCode rest else some l

def isCont (l : Line) : Bool := l.kind = .header .elifH || l.kind = .header .elseH || l.kind = .header .exceptH

def LayoutOK : List Line → Bool
  | [] => true
  | l :: rest =>
    (if l.kind = .comment then
       (match nextCode rest with
        | some n => l.indent = n.indent && !isCont n
        | none => false)
     else true) &&
    (if isCont l then !l.trailing else true) && LayoutOK rest

mutual
/-- no silently dropped line anywhere in the tree -/
def clean : Tree → Bool
  | .leaf _ => true
  | .dropped _ => false
  | .node _ _ cs => cleanList cs
def cleanList : List Tree → Bool
  | [] => true
  | t :: ts => clean t && cleanList ts
end

/-- removing blank lines never changes what the front end sees -/
theorem blank_lines_invisible (ls : List Line) :
    reduinoBlocks (ls.filter (·.kind ≠ .blank)) = reduinoBlocks ls := by
  show nested ((noBlank ls).length + 1) (noBlank ls) = nested _ ls
  have h := noBlank_length ls
  rw [(fuel_indep _ (ls.length + 1) (noBlank ls) (Nat.lt_succ_self _) (by omega)).1]
  exact (nested_noBlank _ ls (Nat.lt_succ_self _)).1

/-- on `LayoutOK` scripts comment-only lines are invisible too -/
theorem comment_lines_invisible (ls : List Line) (h : LayoutOK ls = true) :
    reduinoBlocks (pyLines ls) = reduinoBlocks ls := by
  have hn : ∀ xs, nextCode xs = nextCodeL xs := by
    intro xs
    induction xs with
    | nil => rfl
    | cons l rest ih => simp only [nextCode, nextCodeL, ih]
  have hl : ∀ xs, LayoutOK xs = layoutOKL xs := by
    intro xs
    induction xs with
    | nil => rfl
    | cons l rest ih => simp only [LayoutOK, layoutOKL, hn, ih]; rfl
  rw [hl] at h
  have hlen := pyLines_length ls
  unfold reduinoBlocks
  rw [(fuel_indep _ (ls.length + 1) (pyLines ls) (Nat.lt_succ_self _) (by omega)).1]
  exact (nested_pyLines _ ls h (Nat.lt_succ_self _)).1

/-- scaling every indentation by `k ≥ 1` (indent unit) changes nothing -/
theorem indent_scaling_invisible (ls : List Line) (k : Nat) (hk : 1 ≤ k) :
    reduinoBlocks (ls.map fun l => { l with indent := k * l.indent }) = reduinoBlocks ls := by
  show nested ((ls.map (scale k)).length + 1) (ls.map (scale k)) = nested _ ls
  rw [List.length_map]
  exact (nested_scale k hk _ ls).1

/-- trailing comments on simple statements and on block-opening headers (if/while/for/try — inside
    `_parse_simple_lines`) are invisible -/
theorem trailing_on_noncontinuation_invisible (ls : List Line) :
    reduinoBlocks (ls.map fun l => if isCont l then l else { l with trailing := false }) = reduinoBlocks ls := by
  show nested ((ls.map untrail).length + 1) (ls.map untrail) = nested _ ls
  rw [List.length_map]
  exact (nested_untrail _ ls).1

/-- proved part: on code free of blank/comment lines and of trailing comments on continuation headers, the front end's
    forest is Python's -/
theorem blocks_eq_py_partial (ls : List Line) (hcode : ∀ l ∈ ls, l.kind ≠ .blank ∧ l.kind ≠ .comment)
    (htr : ∀ l ∈ ls, isCont l = true → l.trailing = false)
    (hwf : ∀ fuel, cleanList (nested fuel ls) = true) :
    reduinoBlocks ls = pyBlocks ls := by
  have hpy : pyLines ls = ls := by
    unfold pyLines
    rw [List.filter_eq_self]
    intro l hl
    simpa using hcode l hl
  unfold reduinoBlocks pyBlocks
  rw [hpy]
  exact (nested_eq_py cleanList (by intro t ts; simp [cleanList, clean])
    (by intro t ts; simp [cleanList, clean]) (by intro t h cs ts; simp [cleanList, clean])
    _ ls hcode htr (Nat.lt_succ_self _)).1 (hwf _)

/-! ### the three mechanisms by which the full statement fails (known finding K07a) -/

theorem trailing_comment_on_else_counterexample :
    let ls : List Line := [⟨0, .header .ifH, false, 1⟩, ⟨4, .simple, false, 2⟩, ⟨0, .header .elseH, true, 3⟩, ⟨4, .simple, false, 4⟩]
    reduinoBlocks ls ≠ pyBlocks ls := by
  intro ls h
  simp [ls, reduinoBlocks, nested, nested.chain, collectBlock, pyBlocks, pyLines, pyParse, pyBlock] at h

theorem dedented_comment_counterexample :
    let ls : List Line := [⟨0, .header .whileH, false, 1⟩, ⟨4, .simple, false, 2⟩, ⟨0, .comment, false, 0⟩, ⟨4, .simple, false, 3⟩]
    reduinoBlocks ls ≠ pyBlocks ls := by
  intro ls h
  simp [ls, reduinoBlocks, nested, collectBlock, pyBlocks, pyLines, pyParse, pyBlock] at h

theorem comment_before_else_counterexample :
    let ls : List Line := [⟨0, .header .ifH, false, 1⟩, ⟨4, .simple, false, 2⟩, ⟨0, .comment, false, 0⟩, ⟨0, .header .elseH, false, 3⟩, ⟨4, .simple, false, 4⟩]
    reduinoBlocks ls ≠ pyBlocks ls := by
  intro ls h
  simp [ls, reduinoBlocks, nested, nested.chain, collectBlock, pyBlocks, pyLines, pyParse, pyBlock] at h

/-- top level: a trailing comment on `while True:` empties the main loop -/
theorem trailing_comment_on_main_loop_counterexample :
    let ls : List Line := [⟨0, .simple, false, 1⟩, ⟨0, .header .whileTrue, true, 9⟩, ⟨4, .simple, false, 2⟩]
    (reduinoProgram ls).loop = [] ∧ (reduinoProgram (ls.map fun l => { l with trailing := false })).loop ≠ [] := by
  intro ls
  simp [ls, reduinoProgram, topLevel, reduinoBlocks, nested, collectBlock]

theorem C07_statement_false : ¬ C07_statement := by
  intro h
  exact trailing_comment_on_else_counterexample (h _)

example : LayoutOK [⟨0, .header .ifH, true, 1⟩, ⟨4, .comment, false, 0⟩, ⟨4, .simple, true, 2⟩, ⟨0, .header .elseH, false, 3⟩, ⟨4, .simple, false, 4⟩] = true := by
  decide

/-! ### `_collect_block`: the collector over classified lines is the raw-line collector (W21) -/

/-- The collector of the model (`collectBlock`, over classified `Line`s, on which `nested`, `topLevel`, `blocks_eq_py_partial` … rest) is
    the raw-line collector `collectBlockRaw` — the definition the TRANSLATED `_collect_block` is proved equal to (`GenOb.gen_collectBlock`) —
    read through ANY assignment `txt` of a physical text to each classified line that respects the two attributes the function looks
    at: the line is classified blank exactly when its text is made of blanks (`not line.strip()`), and its indentation is
    `_indent_of` of its text. -/
theorem collectBlock_is_raw (txt : Line → List Char) (base : Nat) (ls : List Line)
    (h : ∀ l ∈ ls, (l.kind = .blank ↔ isBlankLine (txt l) = true) ∧ l.indent = indentOf (txt l)) :
    collectBlockRaw base (ls.map txt) = (((collectBlock base ls).1).map txt, ((collectBlock base ls).2).map txt) := by
  induction ls with
  | nil => simp [collectBlockRaw, collectBlock]
  | cons l rest ih =>
    have hl := h l (by simp)
    have ih' := ih (fun x hx => h x (by simp [hx]))
    by_cases hb : l.kind = .blank
    · have hb' := hl.1.1 hb
      simp [collectBlockRaw, collectBlock, hb, hb', ih']
    · have hb' : isBlankLine (txt l) = false := by
        cases hq : isBlankLine (txt l)
        · rfl
        · exact absurd (hl.1.2 hq) hb
      by_cases hi : l.indent ≤ base
      · have hi' : indentOf (txt l) ≤ base := hl.2 ▸ hi
        simp [collectBlockRaw, collectBlock, hb, hb', hi, hi']
      · have hi' : ¬ indentOf (txt l) ≤ base := hl.2 ▸ hi
        simp [collectBlockRaw, collectBlock, hb, hb', hi, hi', ih']

/-- the raw-line collector only splits: block ++ rest is the input -/
theorem collectBlockRaw_append (base : Nat) (ls : List (List Char)) :
    (collectBlockRaw base ls).1 ++ (collectBlockRaw base ls).2 = ls := by
  induction ls with
  | nil => simp [collectBlockRaw]
  | cons l rest ih =>
    simp only [collectBlockRaw]
    split
    · simpa using ih
    · split
      · simp
      · simpa using ih

/-- the index `_collect_block(lines, start)` returns is where the rest begins: `lines[i:]` is the model's `rest` -/
theorem collectBlockAt_rest (lines : List (List Char)) (start : Nat) :
    lines.drop (collectBlockAt lines start).2
      = (collectBlockRaw (indentOf (lines.getD start [])) (lines.drop (start + 1))).2 := by
  have h := collectBlockRaw_append (indentOf (lines.getD start [])) (lines.drop (start + 1))
  simp only [collectBlockAt]
  generalize collectBlockRaw (indentOf (lines.getD start [])) (lines.drop (start + 1)) = r at h ⊢
  rw [← List.drop_drop, ← h]
  simp

end Reduino.Props.C07
