import Reduino.Lang.Layout
namespace Reduino.Props.C07
theorem stub : True := trivial
end Reduino.Props.C07
