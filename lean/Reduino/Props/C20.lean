import Reduino.GenOb.Host
import Reduino.Host.Core
import Reduino.Lemmas.Field
import Reduino.Lemmas.C20
/-
  C20 — Host sensor, Core-pin, timing and serial helpers are faithful small models.
  Theorems quantify over all pins (int or str names), all interleavings (operation lists), all numeric
  arguments (float carrier = arbitrary ordered field K with floor).
-/
namespace Reduino.Props.C20
open Reduino Reduino.Host

variable {K : Type} [Field K] [LinearOrder K] [IsStrictOrderedRing K] [FloorRing K]

/-! ## Core pins behave like a memory -/

/-- pins `7` and `"7"` are the same pin -/
theorem pin_7_eq_str7 : normalise (.num 7) = normalise (.str "7") := by
  simp [normalise, isDigitStr, digitsToNat]

/-- an op touches the digital cell of key `k` -/
def touchesDigital (k : PinArg) : CoreOp K → Prop
  | .pinMode p _ => normalise p = k
  | .digitalWrite p _ => normalise p = k
  | .analogWrite _ _ => False

def touchesAnalog (k : PinArg) : CoreOp K → Prop
  | .analogWrite p _ => normalise p = k
  | _ => False

/-- fresh simulation: every pin reads LOW / 0 -/
theorem fresh_reads (p : PinArg) :
    Core.digitalRead ({} : Core) p = 0 ∧ Core.analogRead ({} : Core) p = 0 := by
  constructor <;> simp [Core.digitalRead, Core.analogRead]

/-- read-your-writes through ANY interleaving of operations that do not write that pin's digital cell:
    digital_read returns the last value written (HIGH iff truthy).  `pin_mode` on the same pin is allowed
    to intervene: once a value is stored it never changes it. -/
theorem digital_read_last_write (s : Core) (p q : PinArg) (v : Val K) (ops : List (CoreOp K))
    (hpq : normalise p = normalise q)
    (hops : ∀ op ∈ ops, ∀ p' v', op = .digitalWrite p' v' → normalise p' ≠ normalise p) :
    Core.digitalRead (Core.run (Core.step s (.digitalWrite p v)) ops) q = Core.level v := by
  have h0 : (Core.step s (.digitalWrite p v)).digital (normalise p) = some (Core.level v) := by
    simp [Core.step, upd]
  have h := Lemmas.C20.run_digital_some (normalise p) (Core.level v) ops _ h0 hops
  simp only [Core.digitalRead, ← hpq, h]

theorem level_spec (v : Val K) : Core.level v = if v.toF = 0 then 0 else 1 := by
  unfold Core.level
  by_cases h : v.toF = 0
  · rw [if_pos h, if_pos ((Lemmas.C20.isZero_iff v).2 h)]
  · rw [if_neg h, if_neg (fun hz => h ((Lemmas.C20.isZero_iff v).1 hz))]

/-- analog read returns the last written duty, clamped to 0..255, through any interleaving without an
    analog write to that pin -/
theorem analog_read_last_write (s : Core) (p q : PinArg) (v : Val K) (ops : List (CoreOp K))
    (hpq : normalise p = normalise q) (hops : ∀ op ∈ ops, ¬ touchesAnalog (normalise p) op) :
    Core.analogRead (Core.run (Core.step s (.analogWrite p v)) ops) q = Core.duty v ∧
    0 ≤ Core.duty v ∧ Core.duty v ≤ 255 := by
  refine ⟨?_, Lemmas.C20.duty_bounds v⟩
  have h0 : (Core.step s (.analogWrite p v)).analog (normalise p) = some (Core.duty v) := by
    simp [Core.step, upd]
  have h := Lemmas.C20.run_analog_other (normalise p) ops (Core.step s (.analogWrite p v))
    (fun op ho p' v' e hk => hops op ho (by subst e; exact hk))
  simp only [Core.analogRead, ← hpq, h, h0, Option.getD_some]

/-- in-range integer duties are stored exactly; out-of-range ones clamp -/
theorem duty_int (n : Int) : Core.duty (.int n : Val K) = max 0 (min 255 n) := by
  show max 0 (min 255 (Num.roundHE ((n : Int) : K))) = _
  rw [Lemmas.C20.roundHE_intCast]

/-- non-interference: operations that do not touch pin `k` never change what is read from it -/
theorem non_interference (s : Core) (q : PinArg) (ops : List (CoreOp K))
    (hd : ∀ op ∈ ops, ¬ touchesDigital (normalise q) op) (ha : ∀ op ∈ ops, ¬ touchesAnalog (normalise q) op) :
    Core.digitalRead (Core.run s ops) q = Core.digitalRead s q ∧
    Core.analogRead (Core.run s ops) q = Core.analogRead s q := by
  have h := Lemmas.C20.run_digital_other (normalise q) ops s
    (fun op ho p m e hk => hd op ho (by subst e; exact hk))
    (fun op ho p v e hk => hd op ho (by subst e; exact hk))
  have h' := Lemmas.C20.run_analog_other (normalise q) ops s
    (fun op ho p v e hk => ha op ho (by subst e; exact hk))
  simp only [Core.digitalRead, Core.analogRead, h.1, h.2, h', and_self]

/-- an unwritten pin reads HIGH once configured INPUT_PULLUP, LOW under any other mode -/
theorem unwritten_pullup (p q : PinArg) (mode : String) (hpq : normalise p = normalise q) :
    Core.digitalRead (Core.step ({} : Core) (.pinMode p mode : CoreOp K)) q =
      if mode = "INPUT_PULLUP" then 1 else 0 := by
  by_cases hm : mode = "INPUT_PULLUP"
  · subst hm
    simp [Core.digitalRead, Core.step, Core.pullup, upd, hpq]
  · simp [Core.digitalRead, Core.step, Core.pullup, upd, hpq, hm]

/-- configuring INPUT_PULLUP never overrides a value that was written -/
theorem pullup_keeps_written (s : Core) (p q : PinArg) (v : Val K) (mode : String)
    (hpq : normalise p = normalise q) :
    Core.digitalRead (Core.step (Core.step s (.digitalWrite p v)) (.pinMode q mode : CoreOp K)) p
      = Core.level v := by
  have h0 : (Core.step s (.digitalWrite p v)).digital (normalise p) = some (Core.level v) := by
    simp [Core.step, upd]
  have h1 := Lemmas.C20.step_digital_some _ (normalise p) (Core.level v) (.pinMode q mode : CoreOp K) h0
    (fun _ _ e => by cases e)
  have _ := hpq  -- not needed: pin_mode on ANY pin keeps a written value
  simp only [Core.digitalRead, h1]

/-! ## Utils.map, Utils.sleep -/

/-- `map` raises exactly when the source range has zero width, and otherwise is the affine map -/
theorem map_spec (v fl fh tl th : Val K) :
    (fl.toF = fh.toF → Utils.map v fl fh tl th = .error .valueError) ∧
    (fl.toF ≠ fh.toF → ∃ r, Utils.map v fl fh tl th = .ok r ∧
       r.toF = tl.toF + (v.toF - fl.toF) / (fh.toF - fl.toF) * (th.toF - tl.toF)) := by
  constructor
  · intro h
    unfold Utils.map
    rw [if_pos ((Lemmas.C20.veq_iff fl fh).2 h)]
  · intro h
    refine ⟨Val.add tl (Val.mul (Val.div (Val.sub v fl) (Val.sub fh fl)) (Val.sub th tl)), ?_, ?_⟩
    · unfold Utils.map
      rw [if_neg (fun hv => h ((Lemmas.C20.veq_iff fl fh).1 hv))]
    · simp only [Lemmas.C20.add_toF, Lemmas.C20.mul_toF, Lemmas.C20.div_toF, Lemmas.C20.sub_toF]

/-- the affine map passes through `(from_low, to_low)` and `(from_high, to_high)` -/
theorem map_endpoints (fl fh tl th : Val K) (h : fl.toF ≠ fh.toF) :
    (∃ r, Utils.map fl fl fh tl th = .ok r ∧ r.toF = tl.toF) ∧
    (∃ r, Utils.map fh fl fh tl th = .ok r ∧ r.toF = th.toF) := by
  have hne : fh.toF - fl.toF ≠ 0 := sub_ne_zero.2 (Ne.symm h)
  obtain ⟨r1, hr1, he1⟩ := (map_spec fl fl fh tl th).2 h
  obtain ⟨r2, hr2, he2⟩ := (map_spec fh fl fh tl th).2 h
  refine ⟨⟨r1, hr1, ?_⟩, ⟨r2, hr2, ?_⟩⟩
  · rw [he1, sub_self, zero_div, zero_mul, add_zero]
  · rw [he2, div_self hne]
    ring

/-- `sleep(ms)` refuses negatives and otherwise waits `ms / 1000` seconds (one call: the model returns
    the single argument handed to the sleeper) -/
theorem sleep_spec (d : Val K) :
    (d.toF < 0 → Utils.sleep d = .error .valueError) ∧
    (0 ≤ d.toF → Utils.sleep d = .ok (d.toF / 1000)) := by
  have h0 : (Val.int 0 : Val K).toF = 0 := by simp [Val.toF]
  have hl := Lemmas.C20.lt_iff d (.int 0)
  rw [h0] at hl
  have hk : (Num.ofInt 1000 : K) = 1000 := by simp
  constructor
  · intro h
    unfold Utils.sleep
    rw [if_pos (hl.2 h)]
  · intro h
    unfold Utils.sleep
    rw [if_neg (fun hv => absurd (hl.1 hv) (not_lt.2 h)), hk]

/-! ## Button, Potentiometer, Ultrasonic, SerialMonitor -/

/-- `on_click` fires once per rising edge of the provided signal -/
theorem button_clicks_eq_rising_edges (b : Button) (sig : List Bool) :
    Button.clicks b sig = risingEdges b.wasPressed sig := by
  induction sig generalizing b with
  | nil => rfl
  | cons p rest ih => simp [Button.clicks, risingEdges, ih, Button.sample]

/-- `is_pressed()` returns the sampled level -/
theorem button_returns_sample (b : Button) (p : Bool) : (b.sample p).2.1 = if p then 1 else 0 := by
  rfl

/-- `Potentiometer.read()` returns the provider's (truncated) value or raises outside 0..1023 -/
theorem pot_spec (x : Option (Val K)) :
    let v : Int := match x with | none => 0 | some x => x.toInt
    (0 ≤ v ∧ v ≤ 1023 → potRead x = .ok v) ∧ (v < 0 ∨ 1023 < v → potRead x = .error .valueError) := by
  intro v
  constructor
  · intro h
    show (if v < 0 ∨ v > 1023 then _ else _) = _
    rw [if_neg (by omega)]
    rfl
  · intro h
    show (if v < 0 ∨ v > 1023 then _ else _) = _
    rw [if_pos (by omega)]

/-- `measure_distance()` returns the provider's value (or the default) or raises if negative -/
theorem ultra_spec (x : Option (Val K)) (d : Val K) :
    let v : K := match x with | none => d.toF | some x => x.toF
    (0 ≤ v → ultraMeasure x d = .ok v) ∧ (v < 0 → ultraMeasure x d = .error .valueError) := by
  intro v
  have hk : (Num.ofInt 0 : K) = 0 := by simp
  constructor
  · intro h
    show (if v < Num.ofInt 0 then _ else _) = _
    rw [hk, if_neg (not_lt.2 h)]
    rfl
  · intro h
    show (if v < Num.ofInt 0 then _ else _) = _
    rw [hk, if_pos h]

/-- `write` sends exactly `str(value) + newline` once (when a port is open) and returns `str(value)` -/
theorem serial_write_spec (text nl : String) :
    serialWrite text nl true = ([text ++ nl], text) ∧ serialWrite text nl false = ([], text) := by
  exact ⟨rfl, rfl⟩

example : Button.clicks {} [false, true, true, false, true] = 2 := by decide

end Reduino.Props.C20
