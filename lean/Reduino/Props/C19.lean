import Reduino.GenOb.Host
import Reduino.Host.Led
import Reduino.Host.RGBLed
import Reduino.Host.Servo
import Reduino.Host.DCMotor
import Reduino.Lemmas.Field
import Reduino.Lemmas.C19
/-
  C19 — Host actuator models keep their invariants under every operation history.

  All theorems quantify over EVERY call (any argument: int, float, bool-as-int; in range or not) and
  every call list, over an arbitrary linearly ordered field `K` with a floor as the float carrier
  (exact arithmetic; IEEE rounding is covered by the bit-exact tie H only).
  Property theorems only; helper lemmas live in Reduino/Lemmas/C19.lean.
-/
namespace Reduino.Props.C19
open Reduino Reduino.Host

variable {K : Type} [Field K] [LinearOrder K] [IsStrictOrderedRing K] [FloorRing K]

/-! ## Led -/

def LedInv (s : Led) : Prop := 0 ≤ s.brightness ∧ s.brightness ≤ 255 ∧ (s.state = true ↔ 0 < s.brightness)

theorem led_inv_init : LedInv ({} : Led) := by
  simp [LedInv]

theorem led_inv_step (s : Led) (op : LedOp K) (h : LedInv s) : LedInv (Led.step s op).st := by
  exact Lemmas.C19.ledInv_step s op h

/-- every reachable Led state satisfies the invariant, successful or failing calls alike -/
theorem led_inv_run (ops : List (LedOp K)) : LedInv (Led.run ops) := by
  exact Lemmas.C19.ledInv_run ops

/-- a call that raises for an invalid scalar argument leaves the object exactly as it was
    (`flash_pattern` takes a sequence and is excluded, as in the property) -/
theorem led_atomic (s : Led) (op : LedOp K) (e : Exc)
    (hfp : ∀ p d, op ≠ .flashPattern p d) (h : (Led.step s op).res = .raise e) :
    (Led.step s op).st = s := by
  exact Lemmas.C19.led_atomic s op e hfp h

/-- `blink` sleeps exactly `2 * times` times, each for `duration_ms` -/
theorem led_blink_sleeps (s : Led) (d : Val K) (n : Int)
    (h : (Led.step s (.blink d (.int n))).res = .ok) :
    (Led.step s (.blink d (.int n))).sleeps = List.replicate (2 * n.toNat) d ∧ 0 < n := by
  exact Lemmas.C19.led_blink_sleeps s d n h

example : (Led.step ({} : Led) (.blink (.int 5) (.int 2) : LedOp K)).res = .ok := by
  simp [Led.step, Val.lt, Val.le]

/-! ## RGBLed -/

def RGBInv (s : RGB) : Prop :=
  (0 ≤ s.color.1 ∧ s.color.1 ≤ 255) ∧ (0 ≤ s.color.2.1 ∧ s.color.2.1 ≤ 255) ∧
  (0 ≤ s.color.2.2 ∧ s.color.2.2 ≤ 255) ∧
  (s.state = true ↔ (s.color.1 ≠ 0 ∨ s.color.2.1 ≠ 0 ∨ s.color.2.2 ≠ 0))

theorem rgb_inv_init : RGBInv ({} : RGB) := by
  simp [RGBInv]

theorem rgb_inv_step (s : RGB) (op : RGBOp K) (h : RGBInv s) : RGBInv (RGB.step s op).st := by
  exact Lemmas.C19.rgb_inv_step s op h

theorem rgb_inv_run (ops : List (RGBOp K)) : RGBInv (RGB.run ops) := by
  exact Lemmas.C19.rgb_inv_run ops

theorem rgb_atomic (s : RGB) (op : RGBOp K) (e : Exc) (h : (RGB.step s op).res = .raise e) :
    (RGB.step s op).st = s := by
  exact Lemmas.C19.rgb_not_ok s op (by rw [h]; exact Res.noConfusion)

/-- a successful fade ends exactly on the target -/
theorem rgb_fade_target (s : RGB) (r g b d n : Val K) (t : Color)
    (ht : RGB.triple r g b = .ok t) (h : (RGB.step s (.fade r g b d n)).res = .ok) :
    (RGB.step s (.fade r g b d n)).st.color = t := by
  exact Lemmas.C19.rgb_fade_target s r g b d n t ht h

/-- a stepped fade makes exactly `steps` colour updates -/
theorem rgb_fade_steps (s : RGB) (r g b d : Val K) (n : Int) (t : Color)
    (ht : RGB.triple r g b = .ok t) (h : (RGB.step s (.fade r g b d (.int n))).res = .ok)
    (hd : Val.isZero d = false) (hne : s.color ≠ t) :
    (RGB.step s (.fade r g b d (.int n))).trace.length = n.toNat ∧ 0 < n := by
  exact Lemmas.C19.rgb_fade_steps s r g b d n t ht h hd hne

/-- channel-wise monotone: each channel of the colours visited (starting colour first) is
    non-decreasing or non-increasing -/
def MonoChan (f : Color → Int) (l : List Color) : Prop :=
  List.Pairwise (fun a b => f a ≤ f b) l ∨ List.Pairwise (fun a b => f b ≤ f a) l

theorem rgb_fade_monotone (s : RGB) (r g b d n : Val K)
    (h : (RGB.step s (.fade r g b d n)).res = .ok) :
    let l := s.color :: (RGB.step s (.fade r g b d n)).trace
    MonoChan (·.1) l ∧ MonoChan (·.2.1) l ∧ MonoChan (·.2.2) l := by
  exact Lemmas.C19.rgb_fade_monotone s r g b d n h

/-- a fade never sleeps longer than the requested duration -/
theorem rgb_fade_sleep_le (s : RGB) (r g b d n : Val K)
    (h : (RGB.step s (.fade r g b d n)).res = .ok) :
    (((RGB.step s (.fade r g b d n)).sleeps.map Val.toF).sum : K) ≤ d.toF := by
  exact Lemmas.C19.rgb_fade_sleep_le s r g b d n h

/-- a successful blink ends on the original colour and sleeps `2 * times` times -/
theorem rgb_blink_restores (s : RGB) (r g b t d : Val K)
    (h : (RGB.step s (.blink r g b t d)).res = .ok) :
    (RGB.step s (.blink r g b t d)).st.color = s.color ∧
    ∃ n : Int, t = .int n ∧ 0 < n ∧
      (RGB.step s (.blink r g b t d)).sleeps = List.replicate (2 * n.toNat) d := by
  exact Lemmas.C19.rgb_blink_restores s r g b t d h

example : (RGB.step ({} : RGB) (.fade (.int 1) (.int 0) (.int 0) (.int 100) (.int 2) : RGBOp K)).res = .ok := by
  simp [RGB.step, Val.lt, Val.le, RGB.triple, RGB.component, bind, Except.bind, pure, Except.pure, Val.isZero]

/-! ## Servo -/

def ServoInv (s : Servo K) : Prop :=
  s.minA < s.maxA ∧ s.minP < s.maxP ∧
  s.minA ≤ s.angle ∧ s.angle ≤ s.maxA ∧ s.minP ≤ s.pulse ∧ s.pulse ≤ s.maxP ∧
  s.pulse = s.angleToPulse s.angle ∧ s.angle = s.pulseToAngle s.pulse

theorem servo_inv_create (a b c d : Val K) (s : Servo K) (h : Servo.create a b c d = .ok s) :
    ServoInv s := by
  exact Lemmas.C19.servo_inv_create a b c d s h

theorem servo_inv_step (s : Servo K) (op : ServoOp K) (h : ServoInv s) :
    ServoInv (Servo.step s op).1 := by
  exact Lemmas.C19.servo_inv_step s op h

theorem servo_inv_run (s : Servo K) (ops : List (ServoOp K)) (h : ServoInv s) :
    ServoInv (Servo.run s ops) := by
  exact Lemmas.C19.servo_inv_run s ops h

/-- write/read and write_us/read_us round-trip -/
theorem servo_roundtrip (s : Servo K) (v : Val K) :
    ((Servo.step s (.write v)).2 = .ok → (Servo.step s (.write v)).1.angle = v.toF) ∧
    ((Servo.step s (.writeUs v)).2 = .ok → (Servo.step s (.writeUs v)).1.pulse = v.toF) := by
  exact Lemmas.C19.servo_roundtrip s v

theorem servo_atomic (s : Servo K) (op : ServoOp K) (e : Exc) (h : (Servo.step s op).2 = .raise e) :
    (Servo.step s op).1 = s := by
  exact Lemmas.C19.servo_atomic s op e h

example : ∃ s : Servo K, Servo.create (.int 0) (.int 180) (.int 544) (.int 2400) = .ok s ∧
    (Servo.step s (.write (.int 90))).2 = .ok := by
  refine ⟨_, by simp [Servo.create, Val.le]; rfl, ?_⟩
  norm_num [Servo.step, Val.between, Val.le, Val.toF]

/-! ## DCMotor -/

def MotorInv (s : Motor K) : Prop :=
  (-1 : K) ≤ s.speed ∧ s.speed ≤ 1 ∧
  s.applied = (if s.inverted then -s.speed else s.speed) ∧
  (s.mode = .drive ↔ s.applied ≠ 0)

theorem motor_inv_init : MotorInv (Motor.init : Motor K) := by
  exact Lemmas.C19.motorInv_init

theorem motor_inv_step (s : Motor K) (op : MotorOp K) (h : MotorInv s) :
    MotorInv (Motor.step s op).st := by
  exact Lemmas.C19.motor_inv_step s op h

theorem motor_inv_run (ops : List (MotorOp K)) : MotorInv (Motor.run ops) := by
  exact Lemmas.C19.motor_inv_run ops

/-- mode law: after a successful command the mode is `drive` exactly when the applied speed is
    non-zero, otherwise `brake` if that command was stop()/run_for() and `coast` in every other case -/
theorem motor_mode_law (s : Motor K) (op : MotorOp K) (h : MotorInv s)
    (hok : (Motor.step s op).res = .ok) :
    (Motor.step s op).st.mode =
      if (Motor.step s op).st.applied ≠ 0 then .drive
      else match op with
        | .stop => .brake
        | .runFor _ _ => .brake
        | _ => .coast := by
  exact Lemmas.C19.motor_mode_law s op h hok

theorem motor_atomic (s : Motor K) (op : MotorOp K) (e : Exc) (h : (Motor.step s op).res = .raise e) :
    (Motor.step s op).st = s := by
  exact Lemmas.C19.motor_atomic s op e h

/-- invert() is an involution on direction, speed and applied speed -/
theorem motor_invert_involution (s : Motor K) (h : MotorInv s) :
    let s2 := (Motor.step (Motor.step s .invert).st .invert).st
    s2.inverted = s.inverted ∧ s2.speed = s.speed ∧ s2.applied = s.applied := by
  exact Lemmas.C19.motor_invert_involution s h

/-- ramp() makes 20 monotone steps and ends at the clamped target (exact arithmetic) -/
theorem motor_ramp (s : Motor K) (t d : Val K) (h : MotorInv s)
    (hok : (Motor.step s (.ramp t d)).res = .ok) :
    let o := Motor.step s (.ramp t d)
    o.st.speed = Motor.clamp t ∧ o.trace.length = 20 ∧
    (List.Pairwise (· ≤ ·) (s.speed :: o.trace) ∨ List.Pairwise (· ≥ ·) (s.speed :: o.trace)) ∧
    ((o.sleeps.map Val.toF).sum : K) ≤ d.toF := by
  exact Lemmas.C19.motor_ramp s t d h hok

/-- run_for() ends braked at speed 0 having slept exactly `duration_ms` once -/
theorem motor_run_for (s : Motor K) (d v : Val K) (hok : (Motor.step s (.runFor d v)).res = .ok) :
    let o := Motor.step s (.runFor d v)
    o.st.mode = .brake ∧ o.st.speed = 0 ∧ o.st.applied = 0 ∧ o.sleeps = [d] := by
  exact Lemmas.C19.motor_run_for s d v hok

example : (Motor.step (Motor.init : Motor K) (.ramp (.int 1) (.int 100))).res = .ok := by
  rw [Lemmas.C19.ramp_st _ _ _ (by simp [Val.lt])]

end Reduino.Props.C19
