import Reduino.Lang.Promote
import Reduino.Lang.Tr
import Reduino.Lemmas.C10
/-
  C10 — Transpilation is a deterministic, stateless function of the source text.
  The model `Lang.tr` is a function of the program only (no state to carry: `tr_history_free` is definitional — its
  content is the behavioural tie: same output in fresh processes, under every hash seed, after any sequence of other
  transpilations).  The one source of nondeterminism in the code base is the iteration order of Python sets at the
  declaration-promotion sites; it is modelled as an arbitrary permutation of each branch's new names.
-/
namespace Reduino.Props.C10
open Reduino.Lang Reduino.Lang.Promote

/-- with sorted iteration the emitted order does not depend on the order in which the sets list their elements -/
theorem promote_order_independent (parent : List String) (bs bs' : List (List String))
    (hlen : bs.length = bs'.length) (h : ∀ i (h1 : i < bs.length) (h2 : i < bs'.length), (bs[i]).Perm (bs'[i])) :
    promote sorted parent bs = promote sorted parent bs' := by
  unfold promote
  exact Reduino.Lemmas.C10.outer_sorted_congr parent bs bs' [] hlen h

/-- the promoted names are exactly the new names not declared in the parent, each once -/
theorem promote_spec (arrange : List String → List String) (parent : List String) (bs : List (List String))
    (harr : ∀ l, (arrange l).Perm l) :
    (promote arrange parent bs).Nodup ∧
    ∀ x, x ∈ promote arrange parent bs ↔ (x ∉ parent ∧ ∃ b ∈ bs, x ∈ b) := by
  unfold promote
  refine ⟨Reduino.Lemmas.C10.outer_nodup arrange parent bs [] List.nodup_nil, ?_⟩
  intro x
  rw [Reduino.Lemmas.C10.outer_mem arrange parent harr bs [] x]
  simp only [List.not_mem_nil, false_or]

/-- without sorting two listings of the same set give two different outputs (the defect fixed in /repo: F9) -/
theorem promote_unsorted_counterexample :
    promote id [] [["a", "b"]] ≠ promote id [] [["b", "a"]] ∧
    promote sorted [] [["a", "b"]] = promote sorted [] [["b", "a"]] := by
  refine ⟨by decide, ?_⟩
  apply promote_order_independent
  · rfl
  · intro i h1 h2
    simp only [List.length_cons, List.length_nil, Nat.zero_add, Nat.lt_one_iff] at h1
    subst h1
    exact List.Perm.swap "b" "a" []

/-- the model of the transpiler has no hidden state: translating a program twice, or after any other programs,
    gives the same result -/
theorem tr_history_free (p : Prog) (others : List Prog) :
    (others.map tr, tr p).2 = tr p := rfl

end Reduino.Props.C10
