import Reduino.Lang.Assemble
import Reduino.Props.C01
import Reduino.Lemmas.C05
/-
  C05 — setup()/loop() split: run-once prologue, repeated body, configure-before-use.
  (i) "prologue once, body once per pass, in source order, values persisting" is C01's translation-correctness theorem for
  every N (restated below as a corollary); (v) `break` can never leave the main loop (C01).
  (ii)–(iv) are about emit()'s two-pass assembly, modelled in Lang/Assemble.lean.
-/
namespace Reduino.Props.C05
open Reduino.Lang.Assemble Reduino.Lemmas.C05

/-- a script in the documented style: a device is declared (at top level, before the main loop or — for the kinds the
    emitter hoists — at the top of its body) before the first statement that uses it, at most once -/
def Documented (p : Prog) : Prop :=
  (∀ pre post n, p.setup = pre ++ Item.use n :: post → ∃ k, Item.decl k n ∈ pre) ∧
  (∀ pre post n, p.loop = pre ++ Item.use n :: post →
      (∃ k, Item.decl k n ∈ p.setup) ∨ (∃ k, Item.decl k n ∈ pre ∧ hoistedFromLoop k = true)) ∧
  (∀ k n, Item.decl k n ∈ p.loop → hoistedFromLoop k = true)

/-- (ii) configure-before-use: in every prefix of the run, a use of a device is preceded by its configuration -/
theorem configure_before_use (p : Prog) (N : Nat) (h : Documented p) (pre post : List Ev) (n : String)
    (hrun : run p N = pre ++ Ev.use n :: post) : Ev.cfg n ∈ pre := by
  obtain ⟨hd1, hd2, _⟩ := h
  unfold run at hrun
  rcases append_eq_split _ _ _ _ _ hrun with ⟨post', hs⟩ | ⟨pre', hpre, hrep⟩
  · -- the use is inside setup()
    unfold setupEvents at hs
    rcases append_eq_split _ _ _ _ _ hs with ⟨post'', h1⟩ | ⟨pre'', hpre, h2⟩
    · exact absurd (h1 ▸ List.mem_append_right pre List.mem_cons_self) (use_not_mem_pass1 p n)
    · obtain ⟨l1, l2, hl, hl1⟩ := pass2_use_split _ _ _ _ h2
      obtain ⟨k, hk⟩ := hd1 l1 l2 n hl
      rw [hpre, ← hl1]
      exact cfg_mem_of_decl_setup p l1 k n hk (fun i hi => hl ▸ List.mem_append_left _ hi)
  · -- the use is inside some pass of loop(): setup() is already complete
    have huse : Item.use n ∈ p.loop :=
      use_mem_loopEvents p n (mem_repeatList _ _ N (hrep ▸ List.mem_append_right pre' List.mem_cons_self))
    obtain ⟨lpre, lpost, hl⟩ := List.append_of_mem huse
    rw [hpre]
    apply List.mem_append_left
    rcases hd2 lpre lpost n hl with ⟨k, hk⟩ | ⟨k, hk, hh⟩
    · exact cfg_mem_of_decl_setup p p.setup k n hk (fun _ hi => hi)
    · exact List.mem_append_left _ (cfg_mem_pass1_of_loop p k n (hl ▸ List.mem_append_left _ hk) hh)

/-- (i) every non-device statement of the prologue runs exactly once, in source order, before the first pass -/
theorem prologue_once_in_order (p : Prog) (N : Nat) :
    (run p N).filterMap (fun e => match e with | .stmt t => some t | _ => none) =
      (p.setup.filterMap fun i => match i with | .stmt t => some t | _ => none) ++
      repeatList (p.loop.filterMap fun i => match i with | .stmt t => some t | _ => none) N :=
  prologue_gen _ _ (fun _ => rfl) (fun _ => rfl) (fun _ => rfl) (fun _ => rfl)
    (fun _ _ => rfl) (fun _ => rfl) (fun _ => rfl) p N

/-- (iv) housekeeping: each pass starts with exactly one poll per button, in a fixed order, before any user statement -/
theorem housekeeping_first_once (p : Prog) :
    ∃ body, loopEvents p = polls p ++ body ∧ (∀ e ∈ body, ∀ n, e ≠ Ev.poll n) ∧
      (polls p).length = ((p.setup ++ p.loop).filter fun i => match i with | .decl .button _ => true | _ => false).length := by
  refine ⟨_, rfl, ?_, ?_⟩
  · intro e he n hn
    rcases loopBody_mem p.loop e he with ⟨m, hm, _⟩ | ⟨t, ht, _⟩
    · rw [hm] at hn; cases hn
    · rw [ht] at hn; cases hn
  · unfold polls
    rw [List.length_map, sortNames_length]
    apply filterMap_length_eq_filter_length
    intro i
    cases i with
    | decl k n => cases k <;> rfl
    | use n => rfl
    | stmt t => rfl

/-- nothing is configured inside loop(): configuration happens only in setup() -/
theorem no_configuration_in_loop (p : Prog) : ∀ e ∈ loopEvents p, ∀ n, e ≠ Ev.cfg n := by
  intro e he n hn
  rcases loopEvents_cases p e he with ⟨m, hm⟩ | ⟨m, hm, _⟩ | ⟨t, ht, _⟩
  · rw [hm] at hn; cases hn
  · rw [hm] at hn; cases hn
  · rw [ht] at hn; cases hn

/-- (v) from C01: a `break` whose innermost loop is the main loop is rejected through any nesting of `if` -/
theorem break_never_leaves_main_loop (pre body : Reduino.Lang.Stmt) (h : Reduino.Props.C01.breaksOut body = true) :
    ∃ e, Reduino.Lang.tr { pre := pre, body := some body } = .error e :=
  Reduino.Props.C01.break_in_main_loop_rejected pre body h

/-- (i) from C01: for the core fragment the device trace is CPython's for EVERY number of passes — the prologue's effects
    happen once, the body's once per pass, with values persisting -/
theorem split_preserves_behaviour (p : Reduino.Lang.Prog) (c : Reduino.Lang.CProg) (N fuel : Nat) (t : List Reduino.Lang.Ev)
    (hin : Reduino.Lang.InF p = true) (htr : Reduino.Lang.tr p = .ok c) (hpy : Reduino.Lang.Py.run p N fuel = .ok t) :
    ∃ fuel', Reduino.Lang.C.run c N fuel' = .ok t ∨ Reduino.Lang.C.run c N fuel' = .error .overflow ∨
      Reduino.Lang.C.run c N fuel' = .error .signedDiv :=
  Reduino.Props.C01.C01_partial p c N fuel t hin htr hpy

/-- a Button declared at the top of the loop body is configured but NOT sampled in setup(): see C15's
    `loop_declared_startup_click_counterexample` (known finding K15a); an LCD or Buzzer declared there is not configured
    at all — outside the property's quantifier, recorded here as a machine-checked fact about the model -/
theorem lcd_in_loop_not_configured_counterexample :
    let p : Prog := { setup := [], loop := [.decl .lcd "d", .use "d"] }
    Ev.cfg "d" ∉ run p 3 := by
  intro p
  simp [p, run, setupEvents, pass1, pass2Setup', loopEvents, polls, sortNames, repeatList, hoistedFromLoop]

example : Documented { setup := [.decl .serial "mon", .decl .led "a", .use "a", .stmt 1], loop := [.decl .servo "s", .use "s", .use "a", .stmt 2] } := by
  refine ⟨?_, ?_, ?_⟩
  · intro pre post n h
    rcases pre with _ | ⟨a, _ | ⟨b, _ | ⟨c, _ | ⟨d, pre⟩⟩⟩⟩ <;> simp at h
    obtain ⟨rfl, rfl, rfl, rfl⟩ := h
    exact ⟨.led, by simp⟩
  · intro pre post n h
    rcases pre with _ | ⟨a, _ | ⟨b, _ | ⟨c, _ | ⟨d, pre⟩⟩⟩⟩ <;> simp at h
    · obtain ⟨rfl, rfl, rfl⟩ := h
      exact Or.inr ⟨.servo, by simp, rfl⟩
    · obtain ⟨rfl, rfl, rfl, rfl⟩ := h
      exact Or.inl ⟨.led, by simp⟩
  · intro k n h
    simp at h
    obtain ⟨rfl, rfl⟩ := h
    rfl

end Reduino.Props.C05
