import Reduino.Gen.Bind
import Reduino.Lang.Bind
import Reduino.Lemmas.C08
/-
  C08 — Device calls bind arguments exactly like the Python signatures do.
  `Gen.Bind.sig_*` are the signatures of the host callables (inspect.signature) and `Gen.Bind.table_*` the behaviour
  tables of the transpiler, both REGENERATED from /repo/src on every run: for every call shape (positional/keyword
  split, subset of omitted defaults; keywords in signature order) whether the transpiler rejects it and which provided
  values fail to reach the generated code.  One obligation per callable: every shape Python accepts is rejected or
  binds every provided parameter.  Generic theorems lift the statement to every keyword order.
-/
namespace Reduino.Props.C08
open Reduino.Lang.Bind Reduino.Gen.Bind

/-- Python does not look at the order of keyword arguments -/
theorem pyAccepts_kw_perm (sig : Sig) (n : Nat) (k1 k2 : List String) (h : k1.Perm k2) :
    pyAccepts sig ⟨n, k1⟩ = pyAccepts sig ⟨n, k2⟩ :=
  Reduino.Lemmas.C08.pyAccepts_kw_perm sig n k1 k2 h

/-- every accepted call has, up to keyword order, a representative among the enumerated shapes -/
theorem allShapes_complete (sig : Sig) (hn : (sig.map (·.name)).Nodup) (s : Shape) (h : pyAccepts sig s = true) :
    ∃ s' ∈ allShapes sig, s'.npos = s.npos ∧ s'.kws.Perm s.kws :=
  Reduino.Lemmas.C08.allShapes_complete sig hn s h

/-- a table that agrees has no offending row, and conversely the offending rows are the witnesses -/
theorem tableAgrees_iff (sig : Sig) (t : Table) (h : tableAgrees sig t = true) (s : Shape) (hs : s ∈ allShapes sig)
    (ha : pyAccepts sig s = true) : ∃ r ∈ t, r.shape = s ∧ (r.rejected = true ∨ r.unseen = []) :=
  Reduino.Lemmas.C08.tableAgrees_iff sig t h s hs ha

theorem bind_Led_init : tableAgrees sig_Led_init table_Led_init = true := by decide +kernel
theorem bind_Led_blink : tableAgrees sig_Led_blink table_Led_blink = true := by decide +kernel
theorem bind_Led_fade_in : tableAgrees sig_Led_fade_in table_Led_fade_in = true := by decide +kernel
theorem bind_Led_fade_out : tableAgrees sig_Led_fade_out table_Led_fade_out = true := by decide +kernel
theorem bind_Led_flash_pattern : tableAgrees sig_Led_flash_pattern table_Led_flash_pattern = true := by decide +kernel
theorem bind_Led_set_brightness : tableAgrees sig_Led_set_brightness table_Led_set_brightness = true := by decide +kernel
theorem bind_RGBLed_init : tableAgrees sig_RGBLed_init table_RGBLed_init = true := by decide +kernel
theorem bind_RGBLed_blink : tableAgrees sig_RGBLed_blink table_RGBLed_blink = true := by decide +kernel
theorem bind_RGBLed_fade : tableAgrees sig_RGBLed_fade table_RGBLed_fade = true := by decide +kernel
/-- known finding K08a: `RGBLed.on` drops keyword arguments -/
theorem bind_RGBLed_on_counterexample : tableAgrees sig_RGBLed_on table_RGBLed_on = false ∧ (offending sig_RGBLed_on table_RGBLed_on).length ≠ 0 := by decide +kernel
theorem bind_RGBLed_set_color : tableAgrees sig_RGBLed_set_color table_RGBLed_set_color = true := by decide +kernel
theorem bind_Servo_init : tableAgrees sig_Servo_init table_Servo_init = true := by decide +kernel
theorem bind_Servo_write : tableAgrees sig_Servo_write table_Servo_write = true := by decide +kernel
theorem bind_Servo_write_us : tableAgrees sig_Servo_write_us table_Servo_write_us = true := by decide +kernel
theorem bind_DCMotor_init : tableAgrees sig_DCMotor_init table_DCMotor_init = true := by decide +kernel
theorem bind_DCMotor_backward : tableAgrees sig_DCMotor_backward table_DCMotor_backward = true := by decide +kernel
theorem bind_DCMotor_ramp : tableAgrees sig_DCMotor_ramp table_DCMotor_ramp = true := by decide +kernel
theorem bind_DCMotor_run_for : tableAgrees sig_DCMotor_run_for table_DCMotor_run_for = true := by decide +kernel
theorem bind_DCMotor_set_speed : tableAgrees sig_DCMotor_set_speed table_DCMotor_set_speed = true := by decide +kernel
theorem bind_Buzzer_init : tableAgrees sig_Buzzer_init table_Buzzer_init = true := by decide +kernel
theorem bind_Buzzer_beep : tableAgrees sig_Buzzer_beep table_Buzzer_beep = true := by decide +kernel
theorem bind_Buzzer_melody : tableAgrees sig_Buzzer_melody table_Buzzer_melody = true := by decide +kernel
theorem bind_Buzzer_play_tone : tableAgrees sig_Buzzer_play_tone table_Buzzer_play_tone = true := by decide +kernel
theorem bind_Buzzer_sweep : tableAgrees sig_Buzzer_sweep table_Buzzer_sweep = true := by decide +kernel
theorem bind_Button_init : tableAgrees sig_Button_init table_Button_init = true := by decide +kernel
theorem bind_Potentiometer_init : tableAgrees sig_Potentiometer_init table_Potentiometer_init = true := by decide +kernel
theorem bind_LCD_init : tableAgrees sig_LCD_init table_LCD_init = true := by decide +kernel
theorem bind_LCD_animate : tableAgrees sig_LCD_animate table_LCD_animate = true := by decide +kernel
theorem bind_LCD_backlight : tableAgrees sig_LCD_backlight table_LCD_backlight = true := by decide +kernel
theorem bind_LCD_brightness : tableAgrees sig_LCD_brightness table_LCD_brightness = true := by decide +kernel
theorem bind_LCD_display : tableAgrees sig_LCD_display table_LCD_display = true := by decide +kernel
theorem bind_LCD_glyph : tableAgrees sig_LCD_glyph table_LCD_glyph = true := by decide +kernel
theorem bind_LCD_line : tableAgrees sig_LCD_line table_LCD_line = true := by decide +kernel
theorem bind_LCD_message : tableAgrees sig_LCD_message table_LCD_message = true := by decide +kernel
theorem bind_LCD_progress : tableAgrees sig_LCD_progress table_LCD_progress = true := by decide +kernel
theorem bind_LCD_write : tableAgrees sig_LCD_write table_LCD_write = true := by decide +kernel
theorem bind_SerialMonitor_init : tableAgrees sig_SerialMonitor_init table_SerialMonitor_init = true := by decide +kernel
theorem bind_SerialMonitor_write : tableAgrees sig_SerialMonitor_write table_SerialMonitor_write = true := by decide +kernel
theorem bind_Ultrasonic_init : tableAgrees sig_Ultrasonic_init table_Ultrasonic_init = true := by decide +kernel
theorem bind_Core_pin_mode : tableAgrees sig_Core_pin_mode table_Core_pin_mode = true := by decide +kernel
theorem bind_Core_digital_write : tableAgrees sig_Core_digital_write table_Core_digital_write = true := by decide +kernel
theorem bind_Core_analog_write : tableAgrees sig_Core_analog_write table_Core_analog_write = true := by decide +kernel
theorem bind_Core_digital_read : tableAgrees sig_Core_digital_read table_Core_digital_read = true := by decide +kernel
theorem bind_Core_analog_read : tableAgrees sig_Core_analog_read table_Core_analog_read = true := by decide +kernel

end Reduino.Props.C08
