import Reduino.Lemmas.C01Range
/-
  C01 / C09 — the emitted helper `__redu_list_from_range` (target of `[f(t) for t in range(a, b, s)]`), W14.
  Model: Fw/ListRange.lean (`fromRangeRun`: counting walk, one block of `count` cells, bound-checked fill walk; `pyRange`: closed form of
  Python's `list(range(a, b, s))`).  Every theorem is for ALL integers a, b and every step s ≠ 0 (C `int` read as an unbounded integer;
  `exit_value_up/down` give the side condition under which no `value += step` leaves the `int` range).
-/
namespace Reduino.Props.C01Range
open Reduino.Fw.ListRange Reduino.Fw.Heap

/-- element count of Python's range, floor division made explicit (`Int`'s `/` rounds down for a positive divisor) -/
theorem pyRange_length (a b s : Int) (hs : s ≠ 0) :
    (pyRange a b s).length = if s > 0 then ((b - a + s - 1) / s).toNat else ((a - b - s - 1) / (-s)).toNat := by
  have h : (pyRange a b s).length = pyRangeLen a b s := by simp [pyRange]
  rw [h]; unfold pyRangeLen
  by_cases h1 : s > 0
  · simp [h1]
  · have : s < 0 := by omega
    simp [h1, this]

theorem pyRange_get (a b s : Int) (i : Nat) (hi : i < (pyRange a b s).length) :
    (pyRange a b s)[i]? = some (a + (i : Int) * s) := by
  have h : i < pyRangeLen a b s := by simpa [pyRange] using hi
  simp [pyRange, h]

/-- which numbers are in the range: the `a + k*s` on the near side of `b` (independent of the closed form of the length) -/
theorem mem_pyRange (a b s x : Int) (hs : s ≠ 0) :
    x ∈ pyRange a b s ↔ ∃ k : Nat, x = a + (k : Int) * s ∧ (if s > 0 then x < b else b < x) := by
  simp only [pyRange, List.mem_map, List.mem_range]
  by_cases h1 : s > 0
  · simp only [h1, if_true]
    constructor
    · rintro ⟨k, hk, rfl⟩; exact ⟨k, rfl, (lt_len_up h1 k).1 hk⟩
    · rintro ⟨k, rfl, hk⟩; exact ⟨k, (lt_len_up h1 k).2 hk, rfl⟩
  · have h2 : s < 0 := by omega
    simp only [h1, if_false]
    constructor
    · rintro ⟨k, hk, rfl⟩; exact ⟨k, rfl, (lt_len_down h2 k).1 hk⟩
    · rintro ⟨k, rfl, hk⟩; exact ⟨k, (lt_len_down h2 k).2 hk, rfl⟩

/-- the range is empty exactly when `start` is not strictly on the near side of `stop` -/
theorem pyRange_eq_nil_iff (a b s : Int) (hs : s ≠ 0) :
    pyRange a b s = [] ↔ (if s > 0 then b ≤ a else a ≤ b) := by
  have h : pyRange a b s = [] ↔ ¬ 0 < pyRangeLen a b s := by
    simp [pyRange]
  rw [h]
  by_cases h1 : s > 0
  · have := lt_len_up (a := a) (b := b) h1 0
    simp only [h1, if_true]; simp only [Int.natCast_zero, Int.zero_mul, Int.add_zero] at this; omega
  · have h2 : s < 0 := by omega
    have := lt_len_down (a := a) (b := b) h2 0
    simp only [h1, if_false]; simp only [Int.natCast_zero, Int.zero_mul, Int.add_zero] at this; omega

/-- the counting walk counts Python's length (for `s = 0` both are 0) -/
theorem fwCount_eq_length (a b s : Int) : fwCount a b s = (pyRange a b s).length := by
  rw [fwCount_eq]; simp [pyRange]

/-- THE HELPER, unbounded: after the two walks the block holds exactly the `count` cells `f(a), f(a+s), …` — every cell written once,
    no store outside the block — and `size = count` -/
theorem fromRangeRun_eq_pyRange (f : Int → Int) (a b s : Int) (hs : s ≠ 0) :
    fromRangeRun f a b s = .ok ((pyRange a b s).map f, (pyRange a b s).length) := by
  rw [fromRangeRun_eq f a b s hs]; simp [pyRange]

/-- no memory error, and the list seen through the struct is Python's -/
theorem fwRangeMap_eq (f : Int → Int) (a b s : Int) (hs : s ≠ 0) :
    fwRangeMap? f a b s = some ((pyRange a b s).map f) := by
  unfold fwRangeMap?; rw [fromRangeRun_eq_pyRange f a b s hs]
  simp only [List.length_map, Nat.le_refl, if_true]
  rw [List.take_of_length_le (by simp)]

theorem fwRange_eq_pyRange (a b s : Int) (hs : s ≠ 0) : fwRange a b s = pyRange a b s := by
  unfold fwRange; rw [fwRangeMap_eq id a b s hs]; simp

/-- heap side: exactly the allocation of `makeList` on Python's list — one block of `count` cells, no block for an empty range -/
theorem fromRange_heap (h : Heap) (f : Int → Int) (a b s : Int) (hs : s ≠ 0) :
    fromRange h f a b s = .ok (makeList h ((pyRange a b s).map f)) := by
  unfold fromRange makeList
  rw [fromRangeRun_eq_pyRange f a b s hs]
  simp only [bind, Except.bind, pure, Except.pure]
  by_cases he : ((pyRange a b s).map f).isEmpty
  · simp_all
  · simp_all

/-- `step == 0`: the helper returns the empty list `{nullptr, 0}` (both walks are skipped) where Python raises ValueError -/
theorem step_zero (h : Heap) (f : Int → Int) (a b : Int) :
    fromRangeRun f a b 0 = .ok ([], 0) ∧ fwRange a b 0 = [] ∧ fromRange h f a b 0 = .ok (h, { data := none, size := 0 })
      ∧ pyRangeE a b 0 = none := by
  refine ⟨rfl, rfl, rfl, rfl⟩

/-- the seeded "clever" counts are wrong: with C's truncating division `(start - stop) / -step` loses the last element of a descending
    range whose span is not a multiple of the step, and `span / step (+1 if span % step ≠ 0)` counts one element in an empty range
    that misses `stop` by less than the step -/
theorem arith_count_truncating_counterexample :
    (cleverCountN 9 0 (-2) = 4 ∧ (pyRange 9 0 (-2)).length = 5 ∧ fwCount 9 0 (-2) = 5)
    ∧ (cleverCountP 7 6 2 = 1 ∧ (pyRange 7 6 2).length = 0 ∧ fwCount 7 6 2 = 0) := by
  refine ⟨⟨by decide, by decide, ?_⟩, ⟨by decide, by decide, ?_⟩⟩
  · rw [fwCount_eq_length]; decide
  · rw [fwCount_eq_length]; decide

/-- ascending walk: the last value `value += step` computes is `a + count*s`, in `[b, b + s)` — so with `b + s ≤ INT_MAX` no overflow -/
theorem exit_value_up (a b s : Int) (hs : 0 < s) (hab : a < b) :
    exitUp b s hs a = a + ((pyRange a b s).length : Int) * s ∧ b ≤ exitUp b s hs a ∧ exitUp b s hs a < b + s := by
  have hl : (pyRange a b s).length = pyRangeLen a b s := by simp [pyRange]
  rw [exitUp_eq, hl]
  have h0 : 0 < pyRangeLen a b s := (lt_len_up hs 0).2 (by simpa using hab)
  have h1 := (lt_len_up (a := a) (b := b) hs (pyRangeLen a b s - 1)).1 (by omega)
  have h2 := mt (lt_len_up (a := a) (b := b) hs (pyRangeLen a b s)).2 (by omega)
  have e : ((pyRangeLen a b s - 1 : Nat) : Int) = (pyRangeLen a b s : Int) - 1 := by omega
  rw [e, Int.sub_mul, Int.one_mul] at h1
  exact ⟨rfl, by omega, by omega⟩

/-- descending walk: the last value computed is in `(b + s, b]` — so with `INT_MIN ≤ b + s` no overflow -/
theorem exit_value_down (a b s : Int) (hs : s < 0) (hab : b < a) :
    exitDown b s hs a = a + ((pyRange a b s).length : Int) * s ∧ exitDown b s hs a ≤ b ∧ b + s < exitDown b s hs a := by
  have hl : (pyRange a b s).length = pyRangeLen a b s := by simp [pyRange]
  rw [exitDown_eq, hl]
  have h0 : 0 < pyRangeLen a b s := (lt_len_down hs 0).2 (by simpa using hab)
  have h1 := (lt_len_down (a := a) (b := b) hs (pyRangeLen a b s - 1)).1 (by omega)
  have h2 := mt (lt_len_down (a := a) (b := b) hs (pyRangeLen a b s)).2 (by omega)
  have e : ((pyRangeLen a b s - 1 : Nat) : Int) = (pyRangeLen a b s : Int) - 1 := by omega
  rw [e, Int.sub_mul, Int.one_mul] at h1
  exact ⟨rfl, by omega, by omega⟩

/-! non-vacuity: concrete ranges of both signs, through the helper model -/
example : fwRange 9 0 (-2) = [9, 7, 5, 3, 1] := by rw [fwRange_eq_pyRange _ _ _ (by decide)]; decide
example : fwRange 0 10 3 = [0, 3, 6, 9] := by rw [fwRange_eq_pyRange _ _ _ (by decide)]; decide
example : fwRange (-3) 4 2 = [-3, -1, 1, 3] := by rw [fwRange_eq_pyRange _ _ _ (by decide)]; decide
example : fwRange 7 6 2 = [] ∧ fwRange 4 3 (-5) = [4] ∧ fwRange 3 4 (-1) = [] := by
  simp only [fwRange_eq_pyRange _ _ _ (by decide : (2 : Int) ≠ 0), fwRange_eq_pyRange _ _ _ (by decide : (-5 : Int) ≠ 0),
    fwRange_eq_pyRange _ _ _ (by decide : (-1 : Int) ≠ 0)]
  decide
example : fromRange {} (fun t => t * 2) 255 0 (-100) = .ok (makeList {} [510, 310, 110]) := by
  rw [fromRange_heap _ _ _ _ _ (by decide)]
  have : (pyRange 255 0 (-100)).map (fun t => t * 2) = [510, 310, 110] := by decide
  rw [this]

end Reduino.Props.C01Range
