import Reduino.Lang.EvalConst
import Reduino.Lemmas.C11
/-
  C11 — Transpiling never runs user code, has no side effects, fails only cleanly.
  What a theorem can carry here is the transpile-time evaluator (`_eval_const`), the only component that computes with the
  user's text: (1) non-interference — whenever it succeeds, its result does not depend on what ANY node outside its
  whitelist (attribute access, foreign calls, lambdas, subscripts, comprehensions, …) would do, i.e. no such node was
  evaluated; (2) it is a function of the expression and the constant environment only; (3) without `**` and `<<` the
  result size is bounded by a simple structural bound (no blow-up); (4) [W7] the operator table is complete (`& | ^ /` included):
  a float outcome — the model's "accepted, value outside the domain" — is as independent of non-whitelisted nodes as a value is.  "No file/process/network access", "terminates promptly"
  and "only ValueError/SyntaxError" are run-time facts the model cannot exhibit: they rest on the audit tie (partial).
-/
namespace Reduino.Props.C11
open Reduino.Lang.EC

/-- (1) non-interference: a successful evaluation never consulted a non-whitelisted node -/
theorem eval_noninterference (env : Env) (e : PExpr) (v : Val) (hok : eval env e = .ok v) :
    ∀ h : String → Except Err Val, evalH h env e = .ok v := by
  intro h
  exact Reduino.Lemmas.C11.ni_eval h env e v hok

/-- a non-whitelisted node evaluated directly is a ValueError — it is never executed -/
theorem forbidden_raises (env : Env) (k : String) : eval env (.forbidden k) = .error .value := by
  simp only [eval, evalH]

/-- … also as an operand of every strict construct -/
theorem forbidden_operand_raises (env : Env) (k : String) (op : BinOp) (u : UnOp) (a : PExpr) (args : List PExpr) :
    eval env (.bin op (.forbidden k) a) = .error .value ∧
    eval env (.un u (.forbidden k)) = .error .value ∧
    eval env (.compare (.forbidden k) [(.lt, a)]) = .error .value ∧
    eval env (.seq false (.forbidden k :: args)) = .error .value ∧
    eval env (.call "len" [.forbidden k]) = .error .value := by
  refine ⟨?_, ?_, ?_, ?_, ?_⟩
  · simp only [eval, evalH]; rfl
  · simp only [eval, evalH]; rfl
  · simp only [eval, evalH]; rfl
  · simp only [eval, evalH, evalListH]; rfl
  · simp only [eval, evalH]; rfl

/-- only the documented builtins are callable -/
theorem unknown_call_raises (env : Env) (f : String) (args : List PExpr)
    (hf : f ∉ ["len", "abs", "int", "bool", "str", "max", "min"]) : eval env (.call f args) = .error .value := by
  simp only [List.mem_cons, List.not_mem_nil, or_false, not_or] at hf
  obtain ⟨h1, h2, h3, h4, h5, h6, h7⟩ := hf
  unfold eval
  match args with
  | [] => rw [evalH]; simp [h1, h2, h3, h4, h5, h6, h7]
  | [a] => rw [evalH]; simp [h1, h2, h3, h4, h5, h6, h7]
  | a :: b :: r =>
    rw [evalH.eq_12 _ _ _ _ (by simp) (by simp)]; simp [h1, h2, h3, h4, h5, h6, h7]

/-- (2) names are looked up in the constant environment only; unknown or non-constant names are a ValueError -/
theorem name_lookup (env : Env) (x : String) :
    (env.lookup x = none → eval env (.name x) = .error .value) ∧
    (env.lookup x = some none → eval env (.name x) = .error .value) := by
  constructor <;> intro hl <;> simp only [eval, evalH, hl]

/-- (3) structural size bound for expressions without `**` and `<<` -/
def powFree : PExpr → Bool
  | .const _ => true
  | .name _ => true
  | .bin op a b => op ≠ .pow && op ≠ .shl && powFree a && powFree b
  | .un _ a => powFree a
  | _ => false      -- (stated for the arithmetic core: constants, names, + - * // % >> & | ^, unary ops; `/` never yields a value)

def envBound (env : Env) : Nat :=
  env.foldl (fun m p => match p.2 with | some (.int n) => max m n.natAbs | _ => m) 1

/-- magnitude bound: literals and environment values bounded by `m ≥ 1` give a result below `(m+1)^(2^depth)`;
    stated simply as: the result of a `powFree` int expression over `|values| ≤ m` is at most `bound m e` -/
def bound (m : Nat) : PExpr → Nat
  | .const (.int n) => n.natAbs
  | .const _ => 1
  | .name _ => m
  | .bin .add a b => bound m a + bound m b
  | .bin .sub a b => bound m a + bound m b
  | .bin .mul a b => bound m a * bound m b
  | .bin .floordiv a b => bound m a + 1
  | .bin .mod a b => bound m b
  | .bin .shr a b => bound m a + 1
  | .bin _ a b => bound m a + bound m b      -- `& | ^` (W7): `|x op y| ≤ |x| + |y|`, see `bitwise_result_bound`
  | .un _ a => bound m a + 1
  | _ => 1

/- NOTE: the size bound needs `1 ≤ m` (a bool-valued name counts as 1): without it the claim is false, see
   `eval_size_bound_counterexample`; the corrected statement is `eval_size_bound_of_one_le` below. (original remark:
   for the author.  With the side condition `1 ≤ m` announced in the docstring of `bound` it is proved below
   (`eval_size_bound_of_one_le`, via the stronger `eval_size_bound_num`). -/

/-- COUNTEREXAMPLE to `eval_size_bound` as stated (`m = 0`): a bool-valued name counts as 1 but is bounded by `m = 0` -/
theorem eval_size_bound_counterexample :
    let env : Env := [("x", some (.bool true))]
    let e : PExpr := .bin .add (.name "x") (.name "x")
    powFree e = true ∧ (∀ x k, env.lookup x = some (some (.int k)) → k.natAbs ≤ 0) ∧
    eval env e = .ok (.int 2) ∧ ¬ ((2 : Int).natAbs ≤ max (bound 0 e) 1) := by
  refine ⟨by simp [powFree], ?_, ?_, by simp [bound]⟩
  · intro x k h
    simp only [List.lookup] at h
    split at h <;> simp at h
  · simp only [eval, evalH]; rfl

/-- the size bound with the (docstring's) side condition `1 ≤ m`, for every numeric result (int or bool) -/
theorem eval_size_bound_num (env : Env) (m : Nat) (hm : 1 ≤ m)
    (henv : ∀ x k, env.lookup x = some (some (.int k)) → k.natAbs ≤ m) :
    ∀ (e : PExpr) (v : Val) (k : Int), powFree e = true → eval env e = .ok v → v.num? = some k →
      k.natAbs ≤ bound m e
  | .const c, v, k, _, h, hk => by
    simp only [eval, evalH] at h
    cases h
    cases c with
    | int n => simp only [Val.num?, Option.some.injEq] at hk; subst hk; simp [bound]
    | bool b => have := Reduino.Lemmas.C11.num?_natAbs_bool hk; simpa [bound] using this
    | str s => simp [Val.num?] at hk
    | list t vs => simp [Val.num?] at hk
  | .name x, v, k, _, h, hk => by
    simp only [eval, evalH] at h
    simp only [bound]
    split at h
    · rename_i w hl
      split at h
      · cases h
      · cases h
        cases v with
        | int n => simp only [Val.num?, Option.some.injEq] at hk; subst hk; exact henv x n hl
        | bool b => have := Reduino.Lemmas.C11.num?_natAbs_bool hk; omega
        | str s => simp [Val.num?] at hk
        | list t vs => simp [Val.num?] at hk
    · cases h
  | .bin op a b, v, k, hp, h, hk => by
    simp only [powFree, Bool.and_eq_true, ne_eq, decide_eq_true_eq] at hp
    obtain ⟨⟨⟨h1, h2⟩, hpa⟩, hpb⟩ := hp
    simp only [eval] at h; rw [evalH] at h
    obtain ⟨va, hva, h⟩ := Reduino.Lemmas.C11.bind_eq_ok h
    obtain ⟨vb, hvb, h⟩ := Reduino.Lemmas.C11.bind_eq_ok h
    obtain ⟨x, y, hx, hy, hb⟩ := Reduino.Lemmas.C11.applyBin_bound h hk h1 h2
    have iha := eval_size_bound_num env m hm henv a va x hpa hva hx
    have ihb := eval_size_bound_num env m hm henv b vb y hpb hvb hy
    cases op
    · simp only [bound] at hb ⊢; omega
    · simp only [bound] at hb ⊢; omega
    · simp only [bound] at hb ⊢; exact Nat.le_trans hb (Nat.mul_le_mul iha ihb)
    · simp only [bound] at hb ⊢; omega
    · simp only [bound] at hb ⊢; omega
    · exact absurd rfl h1
    · exact absurd rfl h2
    · simp only [bound] at hb ⊢; omega
    · simp only [bound] at hb ⊢; omega
    · simp only [bound] at hb ⊢; omega
    · simp only [bound] at hb ⊢; omega
    · exact absurd hb (by simp)
  | .un op a, v, k, hp, h, hk => by
    simp only [powFree] at hp
    simp only [eval] at h; rw [evalH] at h
    obtain ⟨va, hva, h⟩ := Reduino.Lemmas.C11.bind_eq_ok h
    simp only [bound]
    cases op
    · simp only at h
      split at h
      · rename_i n hn
        cases h
        simp only [Val.num?, Option.some.injEq] at hk; subst hk
        have := eval_size_bound_num env m hm henv a va n hp hva hn; omega
      · cases h
    · simp only at h
      split at h
      · rename_i n hn
        cases h
        simp only [Val.num?, Option.some.injEq] at hk; subst hk
        have := eval_size_bound_num env m hm henv a va n hp hva hn; omega
      · cases h
    · cases h
      have := Reduino.Lemmas.C11.num?_natAbs_bool hk; omega
  | .and _ _, _, _, hp, _, _ => by simp [powFree] at hp
  | .or _ _, _, _, hp, _, _ => by simp [powFree] at hp
  | .compare _ _, _, _, hp, _, _ => by simp [powFree] at hp
  | .ifexp _ _ _, _, _, hp, _, _ => by simp [powFree] at hp
  | .fstr _, _, _, hp, _, _ => by simp [powFree] at hp
  | .call _ _, _, _, hp, _, _ => by simp [powFree] at hp
  | .seq _ _, _, _, hp, _, _ => by simp [powFree] at hp
  | .forbidden _, _, _, hp, _, _ => by simp [powFree] at hp

/-- `eval_size_bound` with the extra hypothesis `1 ≤ m` -/
theorem eval_size_bound_of_one_le (env : Env) (e : PExpr) (n : Int) (m : Nat) (hm : 1 ≤ m)
    (hp : powFree e = true) (henv : ∀ x k, env.lookup x = some (some (.int k)) → k.natAbs ≤ m)
    (h : eval env e = .ok (.int n)) :
    n.natAbs ≤ max (bound m e) 1 :=
  Nat.le_trans (eval_size_bound_num env m hm henv e _ n hp h rfl) (Nat.le_max_left _ _)

/-! ### W7: the bitwise operators and true division -/

/-- value-level bound used by `bound` for `& | ^`: the magnitude of the result is at most the sum of the operands' magnitudes -/
theorem bitwise_result_bound (op : BinOp) (hop : op = .band ∨ op = .bor ∨ op = .bxor) (a b r : Val) (k : Int)
    (hr : applyBin op a b = .ok r) (hk : r.num? = some k) :
    ∃ x y, a.num? = some x ∧ b.num? = some y ∧ k.natAbs ≤ x.natAbs + y.natAbs := by
  obtain ⟨x, y, hx, hy, hb⟩ := Reduino.Lemmas.C11.applyBin_bound hr hk (by rcases hop with h | h | h <;> simp [h])
    (by rcases hop with h | h | h <;> simp [h])
  refine ⟨x, y, hx, hy, ?_⟩
  rcases hop with h | h | h <;> subst h <;> exact hb

/-- the tempting sharper bound `|x & y| ≤ max |x| |y|` is false in two's complement: `-5 & -3 = -7` -/
theorem bitwise_max_bound_counterexample :
    eval [] (.bin .band (.const (.int (-5))) (.const (.int (-3)))) = .ok (.int (-7)) ∧ ¬ ((-7 : Int).natAbs ≤ max (-5 : Int).natAbs (-3 : Int).natAbs) := by
  refine ⟨?_, by decide⟩
  simp only [eval, evalH]; rfl

/-- `bool op bool` stays a bool, every other mix of numbers is an int (`True & False`, `True & 3`, `True ^ True`, `6 | True`) -/
theorem bitwise_bool_int :
    eval [] (.bin .band (.const (.bool true)) (.const (.bool false))) = .ok (.bool false) ∧
    eval [] (.bin .band (.const (.bool true)) (.const (.int 3))) = .ok (.int 1) ∧
    eval [] (.bin .bxor (.const (.bool true)) (.const (.bool true))) = .ok (.bool false) ∧
    eval [] (.bin .bor (.const (.int 6)) (.const (.bool true))) = .ok (.int 7) := by
  refine ⟨?_, ?_, ?_, ?_⟩ <;> (simp only [eval, evalH]; rfl)

/-- a non-number operand of `& | ^ /` is the evaluator's own ValueError ("unsupported operand type") -/
theorem bitwise_non_number_raises (op : BinOp) (hop : op = .band ∨ op = .bor ∨ op = .bxor ∨ op = .div) (a b : Val)
    (h : a.num? = none ∨ b.num? = none) : applyBin op a b = .error .value := by
  unfold applyBin
  split
  · rcases hop with h' | h' | h' | h' <;> cases h'
  · rcases h with h | h
    · simp only [h]
    · cases hx : a.num? <;> simp only [h]

theorem applyBin_div_never_value (va vb v : Val) : applyBin .div va vb ≠ .ok v := by
  intro h
  unfold applyBin at h
  split at h
  · rename_i hq; cases hq
  · split at h
    · simp only at h
      split at h
      · cases h
      · split at h <;> cases h
    · cases h

/-- true division never yields a value of the model: ZeroDivisionError / OverflowError (`pyError`), an operand's outcome, or
    `floatResult` -/
theorem div_never_value (env : Env) (a b : PExpr) (v : Val) : eval env (.bin .div a b) ≠ .ok v := by
  intro h
  simp only [eval] at h; rw [evalH] at h
  obtain ⟨va, _, h⟩ := Reduino.Lemmas.C11.bind_eq_ok h
  obtain ⟨vb, _, h⟩ := Reduino.Lemmas.C11.bind_eq_ok h
  exact applyBin_div_never_value va vb v h

/-- … and it says exactly when Python accepts: a zero divisor and a quotient that rounds to `2^1024` are rejected -/
theorem div_outcome (x y : Int) :
    applyBin .div (.int x) (.int y) =
      .error (if y = 0 ∨ floatLimit * y.natAbs ≤ x.natAbs then .pyError else .floatResult) := by
  unfold applyBin
  simp only [Val.num?]
  by_cases hy : y = 0
  · simp [hy]
  · by_cases hl : floatLimit * y.natAbs ≤ x.natAbs <;> simp [hy, hl]

/-- (1') non-interference for every outcome but the evaluator's own ValueError: a float outcome (the expression is accepted,
    its value is outside the model) or an error of a Python operation never consulted a non-whitelisted node either -/
theorem eval_noninterference_outcome (env : Env) (e : PExpr) (er : Err) (hne : er ≠ .value) (herr : eval env e = .error er) :
    ∀ h : String → Except Err Val, evalH h env e = .error er := by
  intro h
  rcases Reduino.Lemmas.C11.ag_eval h env e with h1 | h1
  · rw [eval] at herr; rw [herr] at h1; cases h1; exact absurd rfl hne
  · rw [h1]; exact herr

theorem eval_noninterference_float (env : Env) (e : PExpr) (herr : eval env e = .error .floatResult) :
    ∀ h : String → Except Err Val, evalH h env e = .error .floatResult :=
  eval_noninterference_outcome env e .floatResult (by decide) herr

/-- unary `~` and `@` are not in `_UN` / `_BIN`: they are nodes of a kind the evaluator does not know, whatever their operands -/
example (env : Env) : eval env (.forbidden "Invert") = .error .value ∧ eval env (.forbidden "MatMult") = .error .value :=
  ⟨forbidden_raises env _, forbidden_raises env _⟩

set_option exponentiation.threshold 1100 in
example : eval [] (.bin .div (.const (.int 1)) (.const (.int 2))) = .error .floatResult ∧
    eval [] (.bin .div (.const (.int 1)) (.const (.int 0))) = .error .pyError ∧
    eval [] (.bin .pow (.const (.int 2)) (.const (.int (-1)))) = .error .floatResult ∧
    eval [] (.bin .pow (.const (.int 0)) (.const (.int (-1)))) = .error .pyError ∧
    eval [] (.bin .div (.const (.int 1)) (.forbidden "Attribute")) = .error .value := by
  refine ⟨?_, ?_, ?_, ?_, ?_⟩ <;> (simp only [eval, evalH]; rfl)

/-- the same is false with `**`: a 3-node expression already exceeds any such bound (and `9**9**9` does not terminate
    in practice — known finding K11a) -/
theorem pow_blowup_counterexample :
    eval [] (.bin .pow (.const (.int 9)) (.bin .pow (.const (.int 3)) (.const (.int 2)))) = .ok (.int 387420489) := by
  simp only [eval, evalH]; rfl

example : eval [("k", some (.int 4))] (.ifexp (.compare (.name "k") [(.lt, .const (.int 5)), (.le, .const (.int 9))])
    (.bin .mul (.name "k") (.const (.int 3))) (.forbidden "Attribute")) = .ok (.int 12) := by
  simp only [eval, evalH, evalChainH]; rfl

end Reduino.Props.C11
