import Reduino.Lang.EvalConst
import Reduino.Lemmas.C11
/-
  C11 — Transpiling never runs user code, has no side effects, fails only cleanly.
  What a theorem can carry here is the transpile-time evaluator (`_eval_const`), the only component that computes with the
  user's text: (1) non-interference — whenever it succeeds, its result does not depend on what ANY node outside its
  whitelist (attribute access, foreign calls, lambdas, subscripts, comprehensions, …) would do, i.e. no such node was
  evaluated; (2) it is a function of the expression and the constant environment only; (3) without `**` and `<<` the
  result size is bounded by a simple structural bound (no blow-up).  "No file/process/network access", "terminates promptly"
  and "only ValueError/SyntaxError" are run-time facts the model cannot exhibit: they rest on the audit tie (partial).
-/
namespace Reduino.Props.C11
open Reduino.Lang.EC

/-- (1) non-interference: a successful evaluation never consulted a non-whitelisted node -/
theorem eval_noninterference (env : Env) (e : PExpr) (v : Val) (hok : eval env e = .ok v) :
    ∀ h : String → Except Err Val, evalH h env e = .ok v := by
  sorry

/-- a non-whitelisted node evaluated directly is a ValueError — it is never executed -/
theorem forbidden_raises (env : Env) (k : String) : eval env (.forbidden k) = .error .value := by
  sorry

/-- … also as an operand of every strict construct -/
theorem forbidden_operand_raises (env : Env) (k : String) (op : BinOp) (u : UnOp) (a : PExpr) (args : List PExpr) :
    eval env (.bin op (.forbidden k) a) = .error .value ∧
    eval env (.un u (.forbidden k)) = .error .value ∧
    eval env (.compare (.forbidden k) [(.lt, a)]) = .error .value ∧
    eval env (.seq false (.forbidden k :: args)) = .error .value ∧
    eval env (.call "len" [.forbidden k]) = .error .value := by
  sorry

/-- only the documented builtins are callable -/
theorem unknown_call_raises (env : Env) (f : String) (args : List PExpr)
    (hf : f ∉ ["len", "abs", "int", "bool", "str", "max", "min"]) : eval env (.call f args) = .error .value := by
  sorry

/-- (2) names are looked up in the constant environment only; unknown or non-constant names are a ValueError -/
theorem name_lookup (env : Env) (x : String) :
    (env.lookup x = none → eval env (.name x) = .error .value) ∧
    (env.lookup x = some none → eval env (.name x) = .error .value) := by
  sorry

/-- (3) structural size bound for expressions without `**` and `<<` -/
def powFree : PExpr → Bool
  | .const _ => true
  | .name _ => true
  | .bin op a b => op ≠ .pow && op ≠ .shl && powFree a && powFree b
  | .un _ a => powFree a
  | _ => false      -- (stated for the arithmetic core: constants, names, + - * // % >>, unary ops)

def envBound (env : Env) : Nat :=
  env.foldl (fun m p => match p.2 with | some (.int n) => max m n.natAbs | _ => m) 1

/-- magnitude bound: literals and environment values bounded by `m ≥ 1` give a result below `(m+1)^(2^depth)`;
    stated simply as: the result of a `powFree` int expression over `|values| ≤ m` is at most `bound m e` -/
def bound (m : Nat) : PExpr → Nat
  | .const (.int n) => n.natAbs
  | .const _ => 1
  | .name _ => m
  | .bin .add a b => bound m a + bound m b
  | .bin .sub a b => bound m a + bound m b
  | .bin .mul a b => bound m a * bound m b
  | .bin .floordiv a b => bound m a + 1
  | .bin .mod a b => bound m b
  | .bin .shr a b => bound m a + 1
  | .bin _ a b => bound m a + bound m b
  | .un _ a => bound m a + 1
  | _ => 1

theorem eval_size_bound (env : Env) (e : PExpr) (n : Int) (m : Nat)
    (hp : powFree e = true) (henv : ∀ x k, env.lookup x = some (some (.int k)) → k.natAbs ≤ m)
    (h : eval env e = .ok (.int n)) :
    n.natAbs ≤ max (bound m e) 1 := by
  sorry

/-- the same is false with `**`: a 3-node expression already exceeds any such bound (and `9**9**9` does not terminate
    in practice — known finding K11a) -/
theorem pow_blowup_counterexample :
    eval [] (.bin .pow (.const (.int 9)) (.bin .pow (.const (.int 3)) (.const (.int 2)))) = .ok (.int 387420489) := by
  sorry

example : eval [("k", some (.int 4))] (.ifexp (.compare (.name "k") [(.lt, .const (.int 5)), (.le, .const (.int 9))])
    (.bin .mul (.name "k") (.const (.int 3))) (.forbidden "Attribute")) = .ok (.int 12) := by
  sorry

end Reduino.Props.C11
