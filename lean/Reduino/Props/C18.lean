import Reduino.Fw.LcdAnim
namespace Reduino.Props.C18
theorem stub : True := trivial
end Reduino.Props.C18
