import Reduino.Fw.LcdAnim
import Reduino.Fw.LcdAnimWrap
import Reduino.Lemmas.C18
/-
  C18 — LCD animations never block, stay inside their row, finish unless looping.
  `Lcd.Fw.start/step/tick` are the emitted templates, `Lcd.Host.animate/step/tick` the host class, both over the cell
  matrix.  Quantified over all four styles, all texts, all widths, loop on/off, all speeds and all clock values.
  "Never blocks / no delay": `tick` returns only a cell matrix and print records — the model of the emitted template has
  no delay event to return (and the trace monitor checks the real firmware issues none).
-/
namespace Reduino.Props.C18
open Reduino Reduino.Lcd

def Shaped (g : Grid) (cols rows : Nat) : Prop := g.length = rows ∧ ∀ r ∈ g, r.length = cols
def InRow (cols : Nat) (p : Print) : Prop := 0 ≤ p.col ∧ p.col + Int.ofNat p.len ≤ Int.ofNat cols

/-! ### frame geometry -/

/-- each firmware frame occupies only the animation's row and stays within the display width -/
theorem fw_frame_geometry (a : Anim) (g : Grid) (cols rows now : Nat) (hs : Shaped g cols rows) :
    let r := Fw.tick a g cols now
    Shaped r.2.1.grid cols rows ∧
    (∀ p ∈ r.2.1.prints, InRow cols p ∧ p.row = Int.ofNat a.row) ∧
    (∀ i, i ≠ a.row → r.2.1.grid.getD i [] = g.getD i []) := by
  intro r
  rcases Lemmas.C18.fw_tick_cases a g cols now with ⟨_, _, h⟩ | ⟨_, h⟩
  · have hgood := Lemmas.C18.fw_step_good { a with lastStep := now } g cols rows hs
    have hr : r.2.1 = (Fw.step { a with lastStep := now } g cols).2 := by simp only [r, h]
    rw [hr]
    exact hgood
  · have hr : r.2.1 = { grid := g } := by simp only [r, h]
    rw [hr]
    exact Lemmas.C18.good_id g cols rows a.row hs

theorem fw_start_geometry (style : Style) (g : Grid) (cols rows row speed : Nat) (text : List Char) (loop : Bool)
    (hs : Shaped g cols rows) :
    let r := Fw.start style g cols row text speed loop
    Shaped r.2.grid cols rows ∧ (∀ p ∈ r.2.prints, InRow cols p ∧ p.row = Int.ofNat row) ∧
    (∀ i, i ≠ row → r.2.grid.getD i [] = g.getD i []) := by
  exact Lemmas.C18.fw_start_good style g cols rows row speed text loop hs

theorem host_frame_geometry (a : Anim) (g : Grid) (cols rows now : Nat) (hs : Shaped g cols rows) :
    let r := Host.tick a g cols now
    Shaped r.2.1 cols rows ∧ (∀ i, i ≠ a.row → r.2.1.getD i [] = g.getD i []) := by
  intro r
  rcases Lemmas.C18.host_tick_cases a g cols now with ⟨_, _, h⟩ | ⟨_, h⟩
  · have hgood := Lemmas.C18.host_step_good { a with lastStep := now } g cols rows hs
    have hr : r.2.1 = (Host.step { a with lastStep := now } g cols).2 := by simp only [r, h]
    rw [hr]
    exact hgood
  · have hr : r.2.1 = g := by simp only [r, h]
    rw [hr]
    exact Lemmas.C18.goodg_id g cols rows a.row hs

/-! ### rate limit: once the clock is running a step happens no more often than every speed_ms -/

theorem fw_rate_limit (a : Anim) (g : Grid) (cols now : Nat) :
    ((Fw.tick a g cols now).2.2 = true → (Fw.tick a g cols now).1.lastStep = now ∧ a.active = true) ∧
    ((Fw.tick a g cols now).2.2 = false → (Fw.tick a g cols now).1 = a ∧ (Fw.tick a g cols now).2.1.grid = g) ∧
    (0 < a.speed → 0 < a.lastStep → now - a.lastStep < a.speed → (Fw.tick a g cols now).2.2 = false) := by
  have hf := Lemmas.C18.fw_step_fields { a with lastStep := now } g cols
  rcases Lemmas.C18.fw_tick_cases a g cols now with ⟨ha, hd, h⟩ | ⟨hn, h⟩
  · rw [h]
    refine ⟨fun _ => ⟨hf.1, ha⟩, (by simp), ?_⟩
    intro h1 h2 h3
    simp [Anim.due, h1, h2, h3] at hd
  · rw [h]
    refine ⟨(by simp), fun _ => ⟨rfl, rfl⟩, fun _ _ _ => rfl⟩

/-- consecutive steps at clock values `t` then `t'` (with `0 < t ≤ t'`) are at least `speed` apart -/
theorem fw_steps_spaced (a : Anim) (g g' : Grid) (cols t t' : Nat) (ht : 0 < t) (htt : t ≤ t')
    (h1 : (Fw.tick a g cols t).2.2 = true) (h2 : (Fw.tick (Fw.tick a g cols t).1 g' cols t').2.2 = true) :
    a.speed ≤ t' - t := by
  have _ := htt
  have hf := Lemmas.C18.fw_step_fields { a with lastStep := t } g cols
  have r1 := (fw_rate_limit a g cols t).1 h1
  have hsp : (Fw.tick a g cols t).1.speed = a.speed := by
    rcases Lemmas.C18.fw_tick_cases a g cols t with ⟨_, _, h⟩ | ⟨_, h⟩
    · rw [h]; exact hf.2.1
    · rw [h]
  have r3 := (fw_rate_limit (Fw.tick a g cols t).1 g' cols t').2.2
  rw [r1.1, hsp] at r3
  by_cases h0 : 0 < a.speed
  · by_cases hlt : t' - t < a.speed
    · have := r3 h0 ht hlt
      rw [h2] at this
      cases this
    · omega
  · omega

theorem host_rate_limit (a : Anim) (g : Grid) (cols now : Nat) :
    ((Host.tick a g cols now).2.2 = true → (Host.tick a g cols now).1.lastStep = now ∧ a.active = true) ∧
    ((Host.tick a g cols now).2.2 = false → (Host.tick a g cols now).1 = a ∧ (Host.tick a g cols now).2.1 = g) ∧
    (0 < a.speed → 0 < a.lastStep → now - a.lastStep < a.speed → (Host.tick a g cols now).2.2 = false) := by
  have hf := Lemmas.C18.host_step_fields { a with lastStep := now } g cols
  rcases Lemmas.C18.host_tick_cases a g cols now with ⟨ha, hd, h⟩ | ⟨hn, h⟩
  · rw [h]
    refine ⟨fun _ => ⟨hf.1, ha⟩, (by simp), ?_⟩
    intro h1 h2 h3
    simp [Anim.due, h1, h2, h3] at hd
  · rw [h]
    refine ⟨(by simp), fun _ => ⟨rfl, rfl⟩, fun _ _ _ => rfl⟩

/-! ### looping animations never end; non-looping ones end after a linearly bounded number of steps -/

theorem fw_loop_forever (a : Anim) (g : Grid) (cols : Nat) (hl : a.loop = true) (ha : a.active = true) :
    (Fw.step a g cols).1.active = true ∧ (Fw.step a g cols).1.loop = true := by
  refine ⟨?_, by rw [(Lemmas.C18.fw_step_fields a g cols).2.2.1, hl]⟩
  unfold Fw.step
  cases hst : a.style <;> simp only [] <;> repeat' split
  all_goals simp_all

theorem host_loop_forever (a : Anim) (g : Grid) (cols : Nat) (hl : a.loop = true) (ha : a.active = true) :
    (Host.step a g cols).1.active = true ∧ (Host.step a g cols).1.loop = true := by
  refine ⟨?_, by rw [(Lemmas.C18.host_step_fields a g cols).2.2.1, hl]⟩
  unfold Host.step
  cases hst : a.style <;> simp only [] <;> repeat' split
  all_goals simp_all

/-- `n` forced steps (ticks that pass the rate limiter), stopping as soon as the animation is inactive -/
def fwSteps (cols : Nat) : Nat → Anim × Grid → Anim × Grid
  | 0, s => s
  | n + 1, (a, g) => if a.active then fwSteps cols n ((Fw.step a g cols).1, (Fw.step a g cols).2.grid) else (a, g)

def hostSteps (cols : Nat) : Nat → Anim × Grid → Anim × Grid
  | 0, s => s
  | n + 1, (a, g) => if a.active then hostSteps cols n (Host.step a g cols) else (a, g)

/-- step bound, linear in text length and width -/
def fwBound (style : Style) (len cols : Nat) : Nat :=
  match style with
  | .scroll => max len cols + cols
  | .blink => 1
  | .typewriter => max (len - 1) 1
  | .bounce => if 0 < len ∧ len < cols then 2 * (cols - len) else 1

def hostBound (style : Style) (len cols : Nat) : Nat :=
  match style with
  | .scroll => len + cols
  | _ => fwBound style len cols

theorem fw_terminates (style : Style) (g : Grid) (cols row speed : Nat) (text : List Char) (hc : 0 < cols) :
    let s0 := Fw.start style g cols row text speed false
    (fwSteps cols (fwBound style text.length cols) (s0.1, s0.2.grid)).1.active = false := by
  intro s0
  have heq : ∀ n s, fwSteps cols n s = Lemmas.C18.stepsG (Lemmas.C18.fwStp cols) n s := by
    intro n
    induction n with
    | zero => intro s; rfl
    | succ n ih => intro ⟨a, g⟩; simp only [fwSteps, Lemmas.C18.stepsG, ih]; rfl
  rw [heq]
  cases style
  · exact Lemmas.C18.scroll_done _ (Lemmas.C18.keeps_fw cols) text _ (Lemmas.C18.fw_scroll_spec text cols hc)
      _ _ rfl rfl rfl rfl (by omega)
  · exact Lemmas.C18.blink_done _ (Lemmas.C18.fw_blink_spec cols) _ _ rfl rfl rfl
  · refine Lemmas.C18.tw_done _ (Lemmas.C18.keeps_fw cols) text (Lemmas.C18.fw_tw_spec text cols) _ _ rfl rfl rfl ?_
    show Int.ofNat (if text.length > 0 then 1 else 0) = ((min text.length 1 : Nat) : Int)
    split <;> simp only [Int.ofNat_eq_natCast] <;> omega
  · by_cases hdeg : 0 < text.length ∧ text.length < cols
    · have hb : fwBound .bounce text.length cols = 2 * (cols - text.length) := by
        simp only [fwBound, if_pos hdeg]
      rw [hb]
      exact Lemmas.C18.bounce_done _ (Lemmas.C18.keeps_fw cols) text _ (by omega)
        (Lemmas.C18.fw_bounce_spec text cols hdeg.1 hdeg.2) _ _ rfl rfl rfl rfl rfl rfl
    · have hb : fwBound .bounce text.length cols = 1 := by
        simp only [fwBound, if_neg hdeg]
      rw [hb]
      exact Lemmas.C18.bounce_deg_done _ text cols (Lemmas.C18.fw_bounce_deg_spec text cols) hdeg _ _ rfl rfl rfl

theorem host_terminates (style : Style) (g : Grid) (cols row speed : Nat) (text : List Char) (hc : 0 < cols) :
    let s0 := Host.animate style g cols row text speed false
    (hostSteps cols (hostBound style text.length cols) s0).1.active = false := by
  intro s0
  have heq : ∀ n s, hostSteps cols n s = Lemmas.C18.stepsG (Lemmas.C18.hostStp cols) n s := by
    intro n
    induction n with
    | zero => intro s; rfl
    | succ n ih => intro ⟨a, g⟩; simp only [hostSteps, Lemmas.C18.stepsG, ih]; rfl
  rw [heq]
  cases style
  · exact Lemmas.C18.scroll_done _ (Lemmas.C18.keeps_host cols) text _ (Lemmas.C18.host_scroll_spec text cols hc)
      _ _ rfl rfl rfl rfl (by omega)
  · exact Lemmas.C18.blink_done _ (Lemmas.C18.host_blink_spec cols) _ _ rfl rfl rfl
  · exact Lemmas.C18.tw_done _ (Lemmas.C18.keeps_host cols) text (Lemmas.C18.host_tw_spec text cols) _ _ rfl rfl rfl rfl
  · by_cases hdeg : 0 < text.length ∧ text.length < cols
    · have hb : hostBound .bounce text.length cols = 2 * (cols - text.length) := by
        simp only [hostBound, fwBound, if_pos hdeg]
      rw [hb]
      exact Lemmas.C18.bounce_done _ (Lemmas.C18.keeps_host cols) text _ (by omega)
        (Lemmas.C18.host_bounce_spec text cols hdeg.1 hdeg.2) _ _ rfl rfl rfl rfl rfl rfl
    · have hb : hostBound .bounce text.length cols = 1 := by
        simp only [hostBound, fwBound, if_neg hdeg]
      rw [hb]
      exact Lemmas.C18.bounce_deg_done _ text cols (Lemmas.C18.host_bounce_deg_spec text cols) hdeg _ _ rfl rfl rfl

/-- the bound is linear: at most `2·(len + cols) + 1` -/
theorem bound_linear (style : Style) (len cols : Nat) :
    fwBound style len cols ≤ 2 * (len + cols) + 1 ∧ hostBound style len cols ≤ 2 * (len + cols) + 1 := by
  cases style <;> simp only [fwBound, hostBound] <;> (try split) <;> omega

/-- an inactive animation is never touched again -/
theorem inactive_stays (a : Anim) (g : Grid) (cols now : Nat) (h : a.active = false) :
    Fw.tick a g cols now = (a, { grid := g }, false) ∧ Host.tick a g cols now = (a, g, false) := by
  simp [Fw.tick, Host.tick, h]

/-! ### the millisecond counter wraps: the templates' unsigned arithmetic agrees with the natural-number clock -/

/-- unsigned subtraction of counter values is the real elapsed time, as long as that is less than one full turn of the counter -/
theorem counter_difference (W t t' : Nat) (h : t ≤ t') (hw : t' - t < W) :
    ((t' % W) + W - (t % W)) % W = t' - t := Lemmas.C18.counter_difference W t t' h hw

/-- one tick: the template on the counter value does what the natural-number model does at the real time -/
theorem fw_tickW_simulates (W : Nat) (a : Anim) (g : Grid) (cols now : Nat) (h : a.active = true → Agrees W a now) :
    Fw.tickW W (a.onCounter W) g cols (now % W) =
      ((Fw.tick a g cols now).1.onCounter W, (Fw.tick a g cols now).2.1, (Fw.tick a g cols now).2.2) :=
  Lemmas.C18.fw_tickW_simulates' W a g cols now h

/-- **the natural-number clock is sound across the counter's wrap-around.**  For an animation that has not stepped yet
    (`lastStep = 0`, as every `start` leaves it), ticked at real times `t₀ ≤ t₁ ≤ …` none of which is a multiple of `W` and
    with consecutive ticks less than `W - speed_ms` apart, the templates' unsigned arithmetic on the counter values
    `tᵢ % W` produces exactly the cells and the state of the natural-number model — however many times the counter wraps. -/
theorem fw_run_across_wrap (W cols t0 : Nat) (ts : List Nat) (a : Anim) (g : Grid) (h0 : a.lastStep = 0)
    (hp : Paced W a.speed t0 (t0 :: ts)) :
    Fw.ticksW W cols (t0 :: ts) (a.onCounter W, g) =
      ((Fw.ticks cols (t0 :: ts) (a, g)).1.onCounter W, (Fw.ticks cols (t0 :: ts) (a, g)).2) :=
  Lemmas.C18.fw_run_across_wrap_from W cols (t0 :: ts) a g t0 hp (Or.inr (Or.inl h0))

theorem fw_start_not_stepped (style : Style) (g : Grid) (cols row speed : Nat) (text : List Char) (loop : Bool) :
    (Fw.start style g cols row text speed loop).1.lastStep = 0 := by
  cases style <;> rfl

/-- the hypotheses are met by a run across the wrap of a 32-bit counter -/
example : Paced (2 ^ 32) 100 (2 ^ 32 - 50) [2 ^ 32 - 50, 2 ^ 32 - 20, 2 ^ 32 + 30, 2 ^ 32 + 90, 2 ^ 32 + 200] := by
  simp [Paced]

theorem rollover_unsafe_gate_counterexample :
    let a : Anim := { style := .typewriter, text := ['a', 'b'], row := 0, speed := 100, loop := true, lastStep := 2 ^ 32 - 50 }
    dueUnsafe (2 ^ 32) a (2 ^ 32 - 40) = true ∧ a.dueW (2 ^ 32) (2 ^ 32 - 40) = false := by
  decide

example : (fwSteps 8 (fwBound .bounce 3 8) ((Fw.start .bounce (blank 8 2) 8 0 ['a', 'b', 'c'] 0 false).1,
    (Fw.start .bounce (blank 8 2) 8 0 ['a', 'b', 'c'] 0 false).2.grid)).1.active = false := by
  decide

end Reduino.Props.C18
