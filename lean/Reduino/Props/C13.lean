import Reduino.GenOb.Pio
import Reduino.Toolchain.Pio
import Reduino.Lemmas.C13
/-
  C13 — Board registry validation is exact and project files round-trip.
-/
namespace Reduino.Props.C13
open Reduino Reduino.Toolchain

/-- what the code does, for ANY registry: accepted iff the platform is known and the LAST platform listing
    the board is that platform -/
theorem validate_spec (reg : Registry) (p b : String) :
    validate reg p b = .ok ↔ (p ∈ reg.map (·.1) ∧ lastOwner reg b = some p) :=
  Lemmas.C13.validate_ok_iff reg p b

/-- on a partitioned registry, acceptance is exactly "registered for that platform (and for no other)" -/
theorem validate_exact (reg : Registry) (hp : Partition reg) (p b : String) :
    validate reg p b = .ok ↔
      ((∃ bs, (p, bs) ∈ reg ∧ b ∈ bs) ∧ ∀ q cs, (q, cs) ∈ reg → b ∈ cs → q = p) :=
  Lemmas.C13.validate_exact' reg hp p b

/-- exactness on the registry extracted from the current source -/
theorem validate_exact_current (p b : String) :
    validate Gen.registry p b = .ok ↔
      ((∃ bs, (p, bs) ∈ Gen.registry ∧ b ∈ bs) ∧ ∀ q cs, (q, cs) ∈ Gen.registry → b ∈ cs → q = p) :=
  validate_exact _ GenOb.gen_registry_partition p b

/-- every registered board belongs to exactly one platform -/
theorem every_board_one_platform (b : String) (p q : String) (bs cs : List String)
    (h1 : (p, bs) ∈ Gen.registry) (h2 : (q, cs) ∈ Gen.registry) (hb : b ∈ bs) (hc : b ∈ cs) : p = q :=
  GenOb.gen_registry_partition.2 p bs q cs b h1 h2 hb hc

/-- lib_deps: empties dropped, duplicates dropped keeping the first occurrence, order preserved -/
theorem dedup_spec (libs : List Str) :
    (dedupLibs libs []).Nodup ∧ (∀ l, l ∈ dedupLibs libs [] ↔ (l ∈ libs ∧ l ≠ [])) ∧
    List.Sublist (dedupLibs libs []) libs := by
  obtain ⟨h1, h2, t, h3, h4⟩ := Lemmas.C13.dedup_gen libs [] List.nodup_nil
  refine ⟨h1, fun l => ?_, ?_⟩
  · rw [h2 l]; simp
  · rw [h3]; simpa using h4

/-- de-duplicating an already clean list is the identity -/
theorem dedup_id (libs : List Str) (hn : libs.Nodup) (he : ∀ l ∈ libs, l ≠ []) : dedupLibs libs [] = libs := by
  rw [Lemmas.C13.dedup_id_gen libs [] hn (fun l h => ⟨he l h, by simp⟩)]; rfl

/-- the environment name never contains a character that could end the section header -/
theorem env_name_safe (board : Str) : ∀ c ∈ sanitize board, isWord c = true :=
  Lemmas.C13.sanitizeGo_word board false

/-- a value that an INI reader returns unchanged: no line break, no surrounding blanks -/
def WfValue (v : Str) : Prop := (∀ c ∈ v, c ≠ '\n' ∧ c ≠ '\r') ∧ strip v = v

/-- a library name additionally is non-empty and does not look like a comment -/
def WfLib (l : Str) : Prop := WfValue l ∧ l ≠ [] ∧ l.head? ≠ some '#' ∧ l.head? ≠ some ';'

/-- round trip: a standard INI reader sees exactly one environment with exactly the given platform, board,
    framework arduino, upload port and the de-duplicated libraries in first-seen order -/
theorem ini_roundtrip (c : Cfg) (hport : WfValue c.port) (hplat : WfValue c.platform) (hboard : WfValue c.board)
    (hlibs : ∀ l ∈ c.libs, l = [] ∨ WfLib l) :
    ∃ libv, parseLines (iniLines c) = some
      [ ("env:".toList ++ sanitize c.board,
          [ ("platform".toList, c.platform), ("board".toList, c.board),
            ("framework".toList, "arduino".toList), ("upload_port".toList, c.port) ] ++
          (if dedupLibs c.libs [] = [] then [] else [("lib_deps".toList, libv)])) ] ∧
      (dedupLibs c.libs [] ≠ [] → valueItems libv = dedupLibs c.libs []) := by
  refine Lemmas.C13.roundtrip_core c hport.2 hplat.2 hboard.2 ?_
  intro l hl
  have hm := ((dedup_spec c.libs).2.1 l).1 hl
  rcases hlibs l hm.1 with h | h
  · exact absurd h hm.2
  · exact ⟨h.1.2, h.2.1, h.2.2.1, h.2.2.2, fun ch hc => (h.1.1 ch hc).1⟩

example : WfValue "/dev/ttyACM0".toList ∧ WfLib "Servo".toList := by
  refine ⟨⟨by decide, by decide⟩, ⟨by decide, by decide⟩, by decide, by decide, by decide⟩

end Reduino.Props.C13
