import Reduino.GenOb.Pio
import Reduino.Toolchain.Pio
import Reduino.Lemmas.C13
/-
  C13 — Board registry validation is exact and project files round-trip.
-/
namespace Reduino.Props.C13
open Reduino Reduino.Toolchain

/-- what the code does, for ANY registry: accepted iff the platform is known and the LAST platform listing
    the board is that platform -/
theorem validate_spec (reg : Registry) (p b : String) :
    validate reg p b = .ok ↔ (p ∈ reg.map (·.1) ∧ lastOwner reg b = some p) := by
  sorry

/-- on a partitioned registry, acceptance is exactly "registered for that platform (and for no other)" -/
theorem validate_exact (reg : Registry) (hp : Partition reg) (p b : String) :
    validate reg p b = .ok ↔
      ((∃ bs, (p, bs) ∈ reg ∧ b ∈ bs) ∧ ∀ q cs, (q, cs) ∈ reg → b ∈ cs → q = p) := by
  sorry

/-- exactness on the registry extracted from the current source -/
theorem validate_exact_current (p b : String) :
    validate Gen.registry p b = .ok ↔
      ((∃ bs, (p, bs) ∈ Gen.registry ∧ b ∈ bs) ∧ ∀ q cs, (q, cs) ∈ Gen.registry → b ∈ cs → q = p) :=
  validate_exact _ GenOb.gen_registry_partition p b

/-- every registered board belongs to exactly one platform -/
theorem every_board_one_platform (b : String) (p q : String) (bs cs : List String)
    (h1 : (p, bs) ∈ Gen.registry) (h2 : (q, cs) ∈ Gen.registry) (hb : b ∈ bs) (hc : b ∈ cs) : p = q :=
  GenOb.gen_registry_partition.2 p bs q cs b h1 h2 hb hc

/-- lib_deps: empties dropped, duplicates dropped keeping the first occurrence, order preserved -/
theorem dedup_spec (libs : List Str) :
    (dedupLibs libs []).Nodup ∧ (∀ l, l ∈ dedupLibs libs [] ↔ (l ∈ libs ∧ l ≠ [])) ∧
    List.Sublist (dedupLibs libs []) libs := by
  sorry

/-- de-duplicating an already clean list is the identity -/
theorem dedup_id (libs : List Str) (hn : libs.Nodup) (he : ∀ l ∈ libs, l ≠ []) : dedupLibs libs [] = libs := by
  sorry

/-- the environment name never contains a character that could end the section header -/
theorem env_name_safe (board : Str) : ∀ c ∈ sanitize board, isWord c = true := by
  sorry

/-- a value that an INI reader returns unchanged: no line break, no surrounding blanks -/
def WfValue (v : Str) : Prop := (∀ c ∈ v, c ≠ '\n' ∧ c ≠ '\r') ∧ strip v = v

/-- a library name additionally is non-empty and does not look like a comment -/
def WfLib (l : Str) : Prop := WfValue l ∧ l ≠ [] ∧ l.head? ≠ some '#' ∧ l.head? ≠ some ';'

/-- round trip: a standard INI reader sees exactly one environment with exactly the given platform, board,
    framework arduino, upload port and the de-duplicated libraries in first-seen order -/
theorem ini_roundtrip (c : Cfg) (hport : WfValue c.port) (hplat : WfValue c.platform) (hboard : WfValue c.board)
    (hlibs : ∀ l ∈ c.libs, l = [] ∨ WfLib l) :
    ∃ libv, parseLines (iniLines c) = some
      [ ("env:".toList ++ sanitize c.board,
          [ ("platform".toList, c.platform), ("board".toList, c.board),
            ("framework".toList, "arduino".toList), ("upload_port".toList, c.port) ] ++
          (if dedupLibs c.libs [] = [] then [] else [("lib_deps".toList, libv)])) ] ∧
      (dedupLibs c.libs [] ≠ [] → valueItems libv = dedupLibs c.libs []) := by
  sorry

example : WfValue "/dev/ttyACM0".toList ∧ WfLib "Servo".toList := by
  sorry

end Reduino.Props.C13
