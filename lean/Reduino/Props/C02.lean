import Reduino.Lang.Types
import Reduino.Lang.TypesTree
import Reduino.Lemmas.Field
import Reduino.Lemmas.C02
import Reduino.GenOb.Types
import Mathlib.Data.Rat.Floor
/-
  C02 — type inference is sound: no value is narrowed or re-typed on the device.

  Model: Lang/Types.lean.  Float carrier: any ordered field `K` with floor (exact arithmetic); Python bool/int/float/str values;
  expressions include the builtin calls `abs`, `min`, `max`, `int()`, `float()`, `bool()` — typed by the parser's table
  `_BUILTIN_CALL_RETURN_TYPES` (regenerated: GenOb/Types.lean), evaluated in C++ as the Arduino macros / `static_cast`s the emitter writes.
  The declared C++ types come from ONE pass over the assignments in source order (`declare`), independent of execution;
  an execution is any sequence of the program's assignments.
  Proved for all programs whose names only ever receive one inferred type and whose expressions are `Tame`
  (`TypeStable`): on EVERY execution the C++ store holds exactly the Python values (int/bool possibly widened, never
  narrowed).  The full statement (no hypothesis) is false — witnesses below, all reproduced on the real transpiler as
  known findings.
-/
namespace Reduino.Props.C02
open Reduino Reduino.Lang.Ty2 Reduino.Lemmas.C02

variable {K : Type} [Field K] [LinearOrder K] [IsStrictOrderedRing K] [FloorRing K]

/-- the parser's inferred type bounds the type of the value Python computes (never below it) -/
theorem infer_sound (g : TEnv) (s : Store K) (e : E K) (v : V K)
    (hs : ∀ x w, s.get x = some w → ∃ t, g.lookup x = some t ∧ sub w.ty t = true)
    (ht : Tame g e = true) (he : eval s e = some v) : sub v.ty (infer g e) = true := by
  exact infer_sound_gen g s e v hs ht he

/-- on tame expressions the type the parser infers is the type the C++ compiler computes -/
theorem infer_eq_ctype (g : TEnv) (e : E K) (ht : Tame g e = true) : ctype g e = some (infer g e) := by
  exact ctype_infer g e ht

/-- expression level: C++ evaluation over faithful variables yields the faithful representation of Python's value -/
theorem evalC_simulates (g : TEnv) (py c : Store K) (e : E K) (v : V K)
    (hs : StoreRep g py c) (ht : Tame g e = true) (he : eval py e = some v) :
    ∃ vc, evalC g c e = some vc ∧ rep (infer g e) v = some vc := by
  exact evalC_sim g py c hs e v ht he

/-- C02 on type-stable programs: whatever sequence of the program's assignments runs (any branches, any number of loop
    iterations, any order), if Python completes it then so does the firmware, and every variable holds Python's value -/
theorem C02_partial (p : List (Stmt K)) (hp : TypeStable p) (path : List (Stmt K)) (hpath : ∀ st ∈ path, st ∈ p)
    (py : Store K) (hrun : pyRun [] path = some py) :
    ∃ c, cRun (declare p).decl [] path = some c ∧ StoreRep (declare p).decl py c := by
  exact run_simulates (declare p).decl path (fun st hst => hp st (hpath st hst)) py hrun

/-- in particular a float value is never stored in an int and a str-valued name is never numeric -/
theorem no_narrowing (p : List (Stmt K)) (hp : TypeStable p) (path : List (Stmt K)) (hpath : ∀ st ∈ path, st ∈ p)
    (py : Store K) (hrun : pyRun [] path = some py) (x : String) (v : V K) (hx : py.get x = some v) :
    ∃ t, (declare p).decl.lookup x = some t ∧ sub v.ty t = true := by
  exact run_no_narrowing (declare p).decl path (fun st hst => hp st (hpath st hst)) py hrun x v hx

/-! ### function results: the join of all return expressions -/

theorem mergeReturn_upper (ts : List T) (r : T) (h : mergeReturn ts = some r) : ∀ t ∈ ts, sub t r = true := by
  intro t ht
  unfold mergeReturn at h
  simp only [List.contains_iff_mem, List.all_eq_true, decide_eq_true_eq] at h
  split_ifs at h with h0 hs hall hf hb
  all_goals cases h
  · rw [hall t ht]; rfl
  · cases t <;> first | rfl | exact absurd ht hs
  · rw [hb t ht]; rfl
  · cases t <;> first | rfl | exact absurd ht hs | exact absurd ht hf

theorem mergeReturn_least (ts : List T) (r u : T) (h : mergeReturn ts = some r) (hu : ∀ t ∈ ts, sub t u = true) :
    sub r u = true := by
  unfold mergeReturn at h
  simp only [List.contains_iff_mem, List.all_eq_true, decide_eq_true_eq] at h
  split_ifs at h with h0 hs hall hf hb
  all_goals cases h
  · exact hu _ hs
  · exact hu _ hf
  · obtain ⟨t, ht⟩ := List.exists_mem_of_ne_nil ts h0
    have := hb t ht; subst this; exact hu _ ht
  · simp only [not_forall] at hb
    obtain ⟨t, ht, hne⟩ := hb
    have : t = .int := by
      cases t <;> first | rfl | exact absurd ht hs | exact absurd ht hf | exact absurd rfl hne
    subst this; exact hu _ ht

theorem mergeReturn_order_independent (ts us : List T) (h : ∀ t, t ∈ ts ↔ t ∈ us) : mergeReturn ts = mergeReturn us := by
  have e0 : (ts = []) = (us = []) := by
    simp only [List.eq_nil_iff_forall_not_mem, h]
  unfold mergeReturn
  simp only [List.contains_iff_mem, List.all_eq_true, decide_eq_true_eq, h, e0]

theorem mergeReturn_rejects_iff (ts : List T) :
    mergeReturn ts = none ↔ ts = [] ∨ (T.str ∈ ts ∧ ∃ t ∈ ts, t ≠ T.str) := by
  unfold mergeReturn
  simp only [List.contains_iff_mem, List.all_eq_true, decide_eq_true_eq]
  split_ifs with h0 hs hall hf hb
  · simp [h0]
  · simp only [h0, false_or, false_iff, not_and, not_exists]
    intro _ t ht; simp [hall t ht]
  · simp only [true_iff]; right
    simp only [not_forall] at hall
    obtain ⟨t, ht, hne⟩ := hall
    exact ⟨hs, t, ht, hne⟩
  all_goals simp [h0, hs]

/-! ### declarations -/

/-- the first assignment in source order fixes the declared type; later ones never change it -/
theorem first_declaration_wins (p : List (Stmt K)) (st : Stmt K) (t : T) (h : (declare p).decl.lookup st.1 = some t) :
    (declare (p ++ [st])).decl.lookup st.1 = some t := by
  rw [declare_snoc]
  simp only [declStep, h, Option.isSome_some, if_true]

/-- a name first assigned inside a branch or loop is declared with the type it has there: `declare` does not look at
    nesting at all, so hoisting keeps the type -/
theorem declared_type_is_first_inferred (p : List (Stmt K)) (st : Stmt K) (h : (declare p).decl.lookup st.1 = none) :
    (declare (p ++ [st])).decl.lookup st.1 = some (infer (declare p).cur st.2) := by
  rw [declare_snoc]
  simp only [declStep, h, Option.isSome_none, Bool.false_eq_true, if_false, List.lookup_append, Option.none_or]
  simp

/-! ### witnesses that the unrestricted statement is false (carrier ℚ) -/

def half : ℚ := 1 / 2

/-- `x = 1` then `x = 2.5`: the int declaration keeps 2 -/
theorem retyped_name_counterexample :
    let p : List (Stmt ℚ) := [("x", .lit (.int 1)), ("x", .lit (.flt (5 / 2)))]
    (∃ py, pyRun [] p = some py ∧ py.get "x" = some (.flt (5 / 2))) ∧
    (∃ c, cRun (declare p).decl [] p = some c ∧ c.get "x" = some (.int 2)) := by
  intro p
  refine ⟨?_, ?_⟩
  · simp [p, pyRun, pyStep, eval, get_set]
  · simp [p, declare, declStep, infer, V.ty, cRun, cStep, evalC, conv, TEnv.set, get_set, trunc_five_halves]

/-- the order of differently-typed assignments matters: the same two assignments in the other order are fine -/
theorem order_matters :
    (declare ([("x", .lit (.int 1)), ("x", .lit (.flt half))] : List (Stmt ℚ))).decl.lookup "x" = some T.int ∧
    (declare ([("x", .lit (.flt half)), ("x", .lit (.int 1))] : List (Stmt ℚ))).decl.lookup "x" = some T.float := by
  constructor <;> simp [declare, declStep, infer, V.ty]

/-- `c = x / 2` with int `x`: inferred (and declared) int, Python's value is a float -/
theorem int_true_division_counterexample :
    let p : List (Stmt ℚ) := [("x", .lit (.int 1)), ("c", .bin .div (.var "x") (.lit (.int 2)))]
    (∃ py, pyRun [] p = some py ∧ py.get "c" = some (.flt half)) ∧
    (∃ c, cRun (declare p).decl [] p = some c ∧ c.get "c" = some (.int 0)) := by
  intro p
  refine ⟨?_, ?_⟩
  · simp [p, pyRun, pyStep, eval, get_set, V.num?, pyArith, half]
  · simp [p, declare, declStep, infer, V.ty, cRun, cStep, evalC, conv, TEnv.set, TEnv.get, get_set, lookup_cons_if,
      V.num?, cArith]

/-- in the FLAT model (all assignments at one level, arbitrary subsequences as executions) `var_types` following the LAST
    assignment would matter: `x = 1.5`, `x = 1` (skipped), `y = x`.  The real parser parses a block body in a copy of the context and
    discards its re-typings when the block closes (`block_retyping_is_discarded` below), so this path is not an execution of any script:
    the flat theorem over-approximates the set of executions -/
theorem stale_var_type_flat_model_only :
    let p : List (Stmt ℚ) := [("x", .lit (.flt (3 / 2))), ("x", .lit (.int 1)), ("y", .var "x")]
    let path : List (Stmt ℚ) := [("x", .lit (.flt (3 / 2))), ("y", .var "x")]
    (∀ st ∈ path, st ∈ p) ∧
    (∃ py, pyRun [] path = some py ∧ py.get "y" = some (.flt (3 / 2))) ∧
    (∃ c, cRun (declare p).decl [] path = some c ∧ c.get "y" = some (.int 1)) := by
  intro p path
  refine ⟨?_, ?_, ?_⟩
  · intro st hst
    simp only [path, List.mem_cons, List.mem_nil_iff, or_false] at hst
    rcases hst with rfl | rfl <;> simp [p]
  · simp [path, pyRun, pyStep, eval, get_set]
  · simp [p, path, declare, declStep, infer, V.ty, cRun, cStep, evalC, conv, TEnv.set, TEnv.get, get_set,
      lookup_cons_if, trunc_three_halves]

/-- `a and b` on ints: Python yields an operand, the parser says bool -/
theorem and_value_counterexample :
    let p : List (Stmt ℚ) := [("a", .lit (.int 2)), ("b", .lit (.int 3)), ("r", .and (.var "a") (.var "b"))]
    (∃ py, pyRun [] p = some py ∧ py.get "r" = some (.int 3)) ∧
    (∃ c, cRun (declare p).decl [] p = some c ∧ c.get "r" = some (.bool true)) := by
  intro p
  refine ⟨?_, ?_⟩
  · simp [p, pyRun, pyStep, eval, get_set, V.truthy]
  · simp [p, declare, declStep, infer, V.ty, cRun, cStep, evalC, conv, TEnv.set, get_set, lookup_cons_if,
      V.truthy]

/-- K02e: `m = max(1.5, 2.25)` — the table types every `abs`/`max`/`min` call int whatever its arguments, so `m` is declared int;
    Python holds 2.25, the macro yields the float 2.25 and the store into the int keeps 2 -/
theorem builtin_float_result_counterexample :
    let p : List (Stmt ℚ) := [("m", .max (.lit (.flt (3 / 2))) (.lit (.flt (9 / 4))))]
    (declare p).decl.lookup "m" = some T.int ∧
    (∃ py, pyRun [] p = some py ∧ py.get "m" = some (.flt (9 / 4))) ∧
    (∃ c, cRun (declare p).decl [] p = some c ∧ c.get "m" = some (.int 2)) := by
  intro p
  have h : ((3 / 2 : ℚ) < 9 / 4) := by norm_num
  have h' : ¬ ((9 / 4 : ℚ) < 3 / 2) := by norm_num
  refine ⟨by decide, ?_, ?_⟩
  · simp [p, pyRun, pyStep, eval, get_set, pyMax, V.num?, cmpN, N.toF, h]
  · simp [p, declare, declStep, infer, V.ty, cRun, cStep, evalC, ctype, macroType, cMax, conv, TEnv.set, get_set,
      V.num?, cmpN, N.toF, h', trunc_nine_quarters]

/-- the same for `abs`: `h = abs(-2.5)` declares an int and stores 2 -/
theorem abs_float_result_counterexample :
    let p : List (Stmt ℚ) := [("h", .abs (.lit (.flt (-(5 / 2)))))]
    (∃ py, pyRun [] p = some py ∧ py.get "h" = some (.flt (5 / 2))) ∧
    (∃ c, cRun (declare p).decl [] p = some c ∧ c.get "h" = some (.int 2)) := by
  intro p
  have h : (-(5 / 2 : ℚ) < 0) := by norm_num
  have h' : ¬ ((0 : ℚ) < -(5 / 2)) := by norm_num
  refine ⟨?_, ?_⟩
  · simp [p, pyRun, pyStep, eval, get_set, pyAbs, h]
  · simp [p, declare, declStep, infer, cRun, cStep, evalC, cAbs, conv, TEnv.set, get_set, h', trunc_five_halves]

/-- why `Tame` leaves out `min`/`max` of two bool-typed operands: the macro's `?:` has type bool there while the table says int
    (so `infer_eq_ctype` cannot hold) — and yet the store into the int-declared name still holds Python's value -/
theorem min_of_two_bools_typed_bool_by_the_compiler :
    let p : List (Stmt ℚ) := [("p", .lit (.bool true)), ("q", .lit (.bool false)), ("m", .min (.var "p") (.var "q"))]
    ctype (α := ℚ) (declare p).decl (.min (.var "p") (.var "q")) = some T.bool ∧
    infer (α := ℚ) (declare p).decl (.min (.var "p") (.var "q")) = T.int ∧
    (∃ py, pyRun [] p = some py ∧ py.get "m" = some (.bool false)) ∧
    (∃ c, cRun (declare p).decl [] p = some c ∧ c.get "m" = some (.int 0)) := by
  intro p
  refine ⟨by decide, by decide, ?_, ?_⟩
  · simp [p, pyRun, pyStep, eval, get_set, pyMin, V.num?, cmpN, b2i]
  · simp [p, declare, declStep, infer, V.ty, cRun, cStep, evalC, ctype, macroType, cMin, conv, TEnv.set, get_set,
      lookup_cons_if, V.num?, cmpN, b2i, V.truthy]

/-- the property as stated (no side condition) does not hold of the transpiler -/
theorem C02_statement_false :
    ¬ (∀ (p path : List (Stmt ℚ)) (py : Store ℚ), (∀ st ∈ path, st ∈ p) → pyRun [] path = some py →
        ∃ c, cRun (declare p).decl [] path = some c ∧ StoreRep (declare p).decl py c) := by
  intro h
  obtain ⟨⟨py, hpy, hx⟩, _⟩ := retyped_name_counterexample
  obtain ⟨c, _, hs⟩ := h _ _ py (fun _ h => h) hpy
  obtain ⟨t, hl, vc, hr, _⟩ := hs "x" _ hx
  have ht : t = .int := by
    simp [declare, declStep, infer, V.ty] at hl
    exact hl.symm
  subst ht
  exact absurd (rep_sub hr) (by decide)

/-- `TypeStable` is satisfiable by a program mixing all four types, widening an int into a float-typed name, and calling every
    builtin: `abs`/`min`/`max` over bool/int operands, `int()`/`float()`/`bool()` over float, int and float operands -/
example : TypeStable ([("n", .lit (.int 3)), ("f", .lit (.flt half)), ("g", .ite (.cmp .lt (.var "n") (.lit (.int 2))) (.var "n") (.var "f")),
    ("s", .bin .add (.lit (.str "a")) (.lit (.str "b"))), ("ok", .not (.var "n")), ("f", .bin .mul (.var "f") (.var "n")),
    ("n", .bin .add (.var "n") (.lit (.bool true))),
    ("m", .max (.var "n") (.abs (.bin .sub (.var "n") (.lit (.int 5))))), ("lo", .min (.var "ok") (.var "n")),
    ("t", .toInt (.var "f")), ("u", .toFloat (.var "n")), ("z", .toBool (.var "f")), ("n", .abs (.var "ok"))] : List (Stmt ℚ)) := by
  have hd : (declare ([("n", .lit (.int 3)), ("f", .lit (.flt half)),
      ("g", .ite (.cmp .lt (.var "n") (.lit (.int 2))) (.var "n") (.var "f")),
      ("s", .bin .add (.lit (.str "a")) (.lit (.str "b"))), ("ok", .not (.var "n")),
      ("f", .bin .mul (.var "f") (.var "n")),
      ("n", .bin .add (.var "n") (.lit (.bool true))),
      ("m", .max (.var "n") (.abs (.bin .sub (.var "n") (.lit (.int 5))))), ("lo", .min (.var "ok") (.var "n")),
      ("t", .toInt (.var "f")), ("u", .toFloat (.var "n")), ("z", .toBool (.var "f")), ("n", .abs (.var "ok"))] : List (Stmt ℚ))).decl =
      [("n", .int), ("f", .float), ("g", .float), ("s", .str), ("ok", .bool), ("m", .int), ("lo", .int), ("t", .int), ("u", .float), ("z", .bool)] := by decide
  intro st hst
  rw [hd]
  simp only [List.mem_cons, List.mem_nil_iff, or_false] at hst
  rcases hst with rfl | rfl | rfl | rfl | rfl | rfl | rfl | rfl | rfl | rfl | rfl | rfl | rfl <;> decide

/-! ### block-structured programs: declarations promoted out of branches and loops (Lang/TypesTree.lean) -/

/-- C02 on type-stable block-structured programs: the declared types (with promotion out of if/elif/else chains and loop
    bodies as the parser does it) make every execution faithful -/
theorem C02_partial_tree (p : List (Node K)) (hp : TypeStableT p) (path : List (Stmt K))
    (hpath : ∀ st ∈ path, st ∈ flattenList p) (py : Store K) (hrun : pyRun [] path = some py) :
    ∃ c, cRun (declareT p) [] path = some c ∧ StoreRep (declareT p) py c :=
  run_simulates (declareT p) path (fun st hst => hp st (hpath st hst)) py hrun

theorem no_narrowing_tree (p : List (Node K)) (hp : TypeStableT p) (path : List (Stmt K))
    (hpath : ∀ st ∈ path, st ∈ flattenList p) (py : Store K) (hrun : pyRun [] path = some py)
    (x : String) (v : V K) (hx : py.get x = some v) :
    ∃ t, (declareT p).lookup x = some t ∧ sub v.ty t = true :=
  run_no_narrowing (declareT p) path (fun st hst => hp st (hpath st hst)) py hrun x v hx

/-- a name first assigned in both branches of an if/else is declared by the FIRST branch: int-then-float narrows, float-then-int
    does not (the two orders of the same script differ) -/
theorem if_first_branch_decides :
    (declareT ([.branches [[.assign "y" (.lit (.int 1))], [.assign "y" (.lit (.flt half))]]] : List (Node ℚ))).lookup "y" = some T.int ∧
    (declareT ([.branches [[.assign "y" (.lit (.flt half))], [.assign "y" (.lit (.int 1))]]] : List (Node ℚ))).lookup "y" = some T.float := by
  decide

/-- a name first assigned inside a loop body is hoisted with the type of the LAST assignment in that body -/
theorem loop_last_assignment_decides :
    (declareT ([.loop [.assign "acc" (.lit (.int 1)), .assign "acc" (.bin .add (.var "acc") (.lit (.flt half)))]] : List (Node ℚ))).lookup "acc"
      = some T.float := by
  decide

/-- at the level where the declaration stays (top level, body of `while True:`) the first assignment decides -/
theorem level_first_assignment_decides :
    (declareT ([.assign "x" (.lit (.int 1)), .assign "x" (.lit (.flt half)),
                .mainLoop [.assign "w" (.lit (.int 1)), .assign "w" (.lit (.flt half))]] : List (Node ℚ))).lookup "x" = some T.int ∧
    (declareT ([.assign "x" (.lit (.int 1)), .assign "x" (.lit (.flt half)),
                .mainLoop [.assign "w" (.lit (.int 1)), .assign "w" (.lit (.flt half))]] : List (Node ℚ))).lookup "w" = some T.int := by
  decide

/-- re-typings of an outer name inside a block are discarded when the block closes: `x = 1.5`; `if …: x = 1`; `y = x` declares y float -/
theorem block_retyping_is_discarded :
    (declareT ([.assign "x" (.lit (.flt half)), .branches [[.assign "x" (.lit (.int 1))]], .assign "y" (.var "x")] : List (Node ℚ))).lookup "y"
      = some T.float := by
  decide

/-- `TypeStableT` is satisfiable by a program with a promoted branch name, a promoted loop name and a main loop, with builtin calls
    in branches, loop bodies and the main loop -/
example : TypeStableT ([.assign "n" (.lit (.int 3)), .branches [[.assign "f" (.lit (.flt half))], [.assign "f" (.bin .mul (.var "n") (.lit (.flt half)))]],
    .loop [.assign "k" (.lit (.int 0)), .assign "g" (.bin .add (.var "k") (.var "n"))],
    .branches [[.assign "c" (.toInt (.var "f"))], [.assign "c" (.min (.var "n") (.abs (.var "g")))]],
    .loop [.assign "h" (.toFloat (.max (.var "c") (.lit (.bool true))))],
    .mainLoop [.assign "f" (.bin .add (.var "f") (.var "g")), .assign "w" (.cmp .lt (.var "f") (.var "n")), .assign "w" (.toBool (.var "h"))]] : List (Node ℚ)) := by
  have hd : declareT ([.assign "n" (.lit (.int 3)), .branches [[.assign "f" (.lit (.flt half))], [.assign "f" (.bin .mul (.var "n") (.lit (.flt half)))]],
    .loop [.assign "k" (.lit (.int 0)), .assign "g" (.bin .add (.var "k") (.var "n"))],
    .branches [[.assign "c" (.toInt (.var "f"))], [.assign "c" (.min (.var "n") (.abs (.var "g")))]],
    .loop [.assign "h" (.toFloat (.max (.var "c") (.lit (.bool true))))],
    .mainLoop [.assign "f" (.bin .add (.var "f") (.var "g")), .assign "w" (.cmp .lt (.var "f") (.var "n")), .assign "w" (.toBool (.var "h"))]] : List (Node ℚ))
      = [("w", T.bool), ("h", T.float), ("c", T.int), ("g", T.int), ("k", T.int), ("f", T.float), ("n", T.int)] := by decide
  intro st hst
  rw [hd]
  simp only [flattenList, flattenNode, flattenBranches, List.append_nil, List.cons_append, List.nil_append, List.mem_cons, List.mem_nil_iff, or_false] at hst
  rcases hst with rfl | rfl | rfl | rfl | rfl | rfl | rfl | rfl | rfl | rfl | rfl <;> decide

end Reduino.Props.C02
