import Reduino.Lang.Libs
import Reduino.Lemmas.C14
import Reduino.Props.C13
/-
  C14 — Library deps, #includes and instantiated library classes always agree.
  For every multiset of device declarations in the documented positions (any number of servos, parallel and I2C LCDs and
  other devices).
-/
namespace Reduino.Props.C14
open Reduino.Lang.Libs Reduino.Lemmas.C14

theorem libs_includes_instances_agree (ds : List Decl) (h : Documented ds) :
    libs ds = includes ds ∧ includes ds = instantiated ds := by
  exact ⟨(includes_eq_libs ds h).symm, (instantiated_eq_includes ds).symm⟩

/-- a library is requested iff a device needing it is declared — nothing needlessly, nothing twice -/
theorem libs_exact (ds : List Decl) (k : Kind) (n : String) (hn : libName k = some n) :
    (n ∈ libs ds ↔ ∃ d ∈ ds, d.kind = k) ∧ (libs ds).Nodup ∧ (includes ds).Nodup ∧
    (∀ m ∈ libs ds, m = "Servo" ∨ m = "LiquidCrystal" ∨ m = "LiquidCrystal_I2C") := by
  exact ⟨mem_libs ds k n hn, libs_nodup ds, includes_nodup ds, libs_names ds⟩

/-- only "other" devices: nothing requested, nothing included -/
theorem no_library_without_device (ds : List Decl) (h : ∀ d ∈ ds, d.kind = .other) :
    libs ds = [] ∧ includes ds = [] ∧ instantiated ds = [] := by
  have h1 : ∀ k, k ≠ Kind.other → ds.any (·.kind = k) = false := by
    intro k hk
    simp only [List.any_eq_false, decide_eq_true_eq]
    intro d hd hk'
    exact hk (hk' ▸ h d hd)
  have h2 : ∀ k, k ≠ Kind.other → ds.any (fun d => d.kind = k ∧ hoisted d) = false := by
    intro k hk
    simp only [List.any_eq_false, decide_eq_true_eq, not_and]
    intro d hd hk'
    exact absurd (hk' ▸ h d hd) hk
  have hs : Kind.servo ≠ Kind.other := by decide
  have hp : Kind.lcdPar ≠ Kind.other := by decide
  have hi : Kind.lcdI2c ≠ Kind.other := by decide
  simp only [libs, includes, instantiated, order, List.filterMap_cons, List.filterMap_nil,
    h1 _ hs, h1 _ hp, h1 _ hi, h2 _ hs, h2 _ hp, h2 _ hi]
  simp

/-- end to end: the libraries that reach the build — `lib_deps` of the `platformio.ini` written for the requested libraries, as a
    standard INI reader sees them — are exactly the headers the sketch includes (and nothing is lost or doubled on the way):
    `_collect_required_libraries` → `write_project` → configparser composed, for every set of documented declarations -/
theorem build_gets_included_libraries (ds : List Decl) (h : Documented ds) (port platform board : Toolchain.Str)
    (hport : Reduino.Props.C13.WfValue port) (hplat : Reduino.Props.C13.WfValue platform) (hboard : Reduino.Props.C13.WfValue board) :
    ∃ libv, Toolchain.parseLines (Toolchain.iniLines ⟨port, platform, board, (libs ds).map String.toList⟩) = some
      [ ("env:".toList ++ Toolchain.sanitize board,
          [ ("platform".toList, platform), ("board".toList, board), ("framework".toList, "arduino".toList), ("upload_port".toList, port) ] ++
          (if includes ds = [] then [] else [("lib_deps".toList, libv)])) ] ∧
      (includes ds ≠ [] → Toolchain.valueItems libv = (includes ds).map String.toList) := by
  have hwf := libs_map_wf ds
  have hdd : Toolchain.dedupLibs ((libs ds).map String.toList) [] = (libs ds).map String.toList :=
    Reduino.Props.C13.dedup_id _ (libs_map_nodup ds) (fun l hl => (hwf l hl).2.1)
  obtain ⟨libv, h1, h2⟩ := Reduino.Props.C13.ini_roundtrip
    ⟨port, platform, board, (libs ds).map String.toList⟩ hport hplat hboard (fun l hl => Or.inr (hwf l hl))
  have hli : libs ds = includes ds := (libs_includes_instances_agree ds h).1
  rw [← hli]
  simp only [hdd, List.map_eq_nil_iff] at h1 h2
  refine ⟨libv, h1, ?_⟩
  simpa only [ne_eq, List.map_eq_nil_iff] using h2

/-- outside the documented positions the sets can disagree: a Servo declared inside an `if` is requested but neither
    included nor instantiated (recorded as a note: outside the property's quantifier) -/
theorem nested_servo_counterexample :
    libs [⟨.servo, .nested⟩] = ["Servo"] ∧ includes [⟨.servo, .nested⟩] = [] := by
  decide

example : Documented [⟨.servo, .loopTop⟩, ⟨.lcdI2c, .setupTop⟩, ⟨.other, .nested⟩] := by
  intro d hd; simp at hd; rcases hd with rfl | rfl | rfl <;> simp

end Reduino.Props.C14
