import Reduino.Props.C04
import Reduino.Props.C12
import Reduino.Props.C13
import Reduino.Props.C15
import Reduino.Props.C16
import Reduino.Props.C17
import Reduino.Props.C19
import Reduino.Props.C20
