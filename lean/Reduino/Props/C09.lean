import Reduino.Fw.ListHeap
import Reduino.Lemmas.C09
/-
  C09 — Generated firmware is memory-safe and does not leak across loop() passes.
  Heap model of the emitted list helpers.  Main theorem: in the OWNED discipline (lists declared once from a maker,
  then only append / remove / in-bounds indexing / len / assignment from another declared list / tuple swap
  `x, y = y, x` of two declared lists) no history ever produces a memory error, every live block is owned by exactly one list, and the number of live blocks equals the
  number of non-empty lists — hence constant from pass to pass whenever the lists' emptiness pattern is.
  The tuple swap exchanges the two structs and touches no block (`swap_exchanges`); lowering it through
  `__redu_list_assign` instead would free a buffer a temporary still points to (`swap_via_assign_counterexample`).
  The forms outside the discipline are decided by counterexample (known findings K09a, K09b).
-/
namespace Reduino.Props.C09
open Reduino.Fw.Heap

def declared (h : Heap) (x : String) : Prop := x ∈ h.vars.map (·.1)

/-- heap invariant: names distinct; every list's buffer is a live block of exactly its size (nullptr iff empty);
    no block is shared; every live block is owned -/
def Inv (h : Heap) : Prop :=
  (h.vars.map (·.1)).Nodup ∧
  (∀ x l, (x, l) ∈ h.vars →
    match l.data with
    | none => l.size = 0
    | some id => 0 < l.size ∧ ∃ b, h.blocks[id]? = some b ∧ b.alive = true ∧ b.cells.length = l.size) ∧
  (∀ x y lx ly id, (x, lx) ∈ h.vars → (y, ly) ∈ h.vars → lx.data = some id → ly.data = some id → x = y) ∧
  liveBlocks h = (h.vars.filter (fun p => p.2.data.isSome)).length

/-- the operations of the owned discipline, with the side conditions Python itself guarantees
    (a name is declared before use, an index that raises no IndexError) -/
def Owned (h : Heap) : Op → Prop
  | .declMake x _ => ¬ declared h x
  | .declCopy _ _ => False
  | .assignTemp _ _ => False
  | .assignVar x y => declared h x ∧ declared h y
  | .append x _ => declared h x
  | .remove x _ => declared h x
  | .get x i => declared h x ∧ -(Int.ofNat (lookup h x).size) ≤ i ∧ i < Int.ofNat (lookup h x).size
  | .len x => declared h x
  | .swap x y => declared h x ∧ declared h y

theorem inv_init : Inv {} := by
  refine ⟨List.nodup_nil, ?_, ?_, rfl⟩
  · intro x l h; cases h
  · intro x y lx ly id h; cases h

open Reduino.Lemmas.C09 in
private theorem inv_iff (h : Heap) : Inv h ↔ InvP h.blocks h.vars := by
  constructor
  · rintro ⟨h1, h2, h3, h4⟩
    refine ⟨h1, ?_, h3, h4⟩
    intro x l hm
    have := h2 x l hm
    unfold WF
    split <;> simp_all
  · rintro ⟨h1, h2, h3, h4⟩
    refine ⟨h1, ?_, h3, h4⟩
    intro x l hm
    have := h2 x l hm
    unfold WF at this
    split <;> simp_all

/-- one owned operation: no memory error, invariant kept -/
theorem owned_step_safe (h : Heap) (op : Op) (hi : Inv h) (ho : Owned h op) :
    ∃ o, step h op = .ok o ∧ Inv o.heap := by
  have hi' := (inv_iff h).1 hi
  obtain ⟨bs, vs⟩ := h
  have key : ∀ {op}, (∃ o, step ⟨bs, vs⟩ op = .ok o ∧ Reduino.Lemmas.C09.InvH o.heap) →
      ∃ o, step ⟨bs, vs⟩ op = .ok o ∧ Inv o.heap := by
    rintro _ ⟨o, h1, h2⟩
    exact ⟨o, h1, (inv_iff _).2 h2⟩
  cases op with
  | declMake x vals => exact key (Reduino.Lemmas.C09.step_declMake x vals hi' ho)
  | declCopy y x => exact ho.elim
  | assignTemp x vals => exact ho.elim
  | assignVar x y => exact key (Reduino.Lemmas.C09.step_assignVar x y hi' ho.1 ho.2)
  | append x v => exact key (Reduino.Lemmas.C09.step_append x v hi' ho)
  | remove x v => exact key (Reduino.Lemmas.C09.step_remove x v hi' ho)
  | get x i =>
    obtain ⟨c, hc⟩ := Reduino.Lemmas.C09.step_get x i hi' ho.1 ho.2.1 ho.2.2
    exact ⟨_, hc, hi⟩
  | len x => exact ⟨_, rfl, hi⟩
  | swap x y =>
    obtain ⟨o, h1, h2, _⟩ := Reduino.Lemmas.C09.step_swap x y hi' ho.1 ho.2
    exact key ⟨o, h1, h2⟩

/-- a history of owned operations (each admissible in the state it meets) never errs and keeps the invariant -/
def OwnedRun : Heap → List Op → Prop
  | _, [] => True
  | h, op :: rest => Owned h op ∧ ∀ o, step h op = .ok o → OwnedRun o.heap rest

theorem owned_run_safe (h : Heap) (ops : List Op) (hi : Inv h) (ho : OwnedRun h ops) :
    ∃ h', run h ops = .ok h' ∧ Inv h' := by
  induction ops generalizing h with
  | nil => exact ⟨h, rfl, hi⟩
  | cons op rest ih =>
    obtain ⟨o, hs, hio⟩ := owned_step_safe h op hi ho.1
    obtain ⟨h', hr, hi'⟩ := ih o.heap hio (ho.2 o hs)
    refine ⟨h', ?_, hi'⟩
    simp only [run, hs, bind, Except.bind, hr]

/-- under the invariant the live heap is exactly one block per non-empty list: constant across passes whenever the
    set of non-empty lists is -/
theorem live_is_nonempty_lists (h : Heap) (hi : Inv h) :
    liveBlocks h = (h.vars.filter (fun p => p.2.size ≠ 0)).length := by
  obtain ⟨_, h2, _, h4⟩ := hi
  rw [h4]
  congr 1
  apply List.filter_congr
  intro p hp
  have := h2 p.1 p.2 hp
  split at this <;> simp_all
  omega

/-- `get` returns the cell the index denotes (negative indices count from the end) -/
theorem get_value (h : Heap) (x : String) (i : Int) (hi : Inv h) (ho : Owned h (.get x i)) :
    ∃ o v, step h (.get x i) = .ok o ∧ o.value = some v ∧ o.heap.blocks = h.blocks ∧ o.heap.vars = h.vars := by
  have hi' := (inv_iff h).1 hi
  obtain ⟨bs, vs⟩ := h
  obtain ⟨c, hc⟩ := Reduino.Lemmas.C09.step_get x i hi' ho.1 ho.2.1 ho.2.2
  exact ⟨_, c, hc, rfl, rfl, rfl⟩

/-- the tuple swap `x, y = y, x` of two declared lists: no memory error, invariant kept, no block touched (hence the
    live-block count is unchanged), no value produced, and the two names have exchanged their list values -/
theorem swap_exchanges (h : Heap) (x y : String) (hi : Inv h) (ho : Owned h (.swap x y)) :
    ∃ o, step h (.swap x y) = .ok o ∧ Inv o.heap ∧ o.heap.blocks = h.blocks ∧ liveBlocks o.heap = liveBlocks h ∧
      o.value = none ∧ lookup o.heap x = lookup h y ∧ lookup o.heap y = lookup h x := by
  have hi' := (inv_iff h).1 hi
  obtain ⟨bs, vs⟩ := h
  obtain ⟨o, h1, h2, h3, h4, h5, h6⟩ := Reduino.Lemmas.C09.step_swap x y hi' ho.1 ho.2
  exact ⟨o, h1, (inv_iff _).2 h2, h3, by simp only [liveBlocks, h3], h4, h5, h6⟩

/-! ### outside the discipline -/

/-- first copy `b = a` shares the buffer: append through `a` frees it, reading `b` is a use after free (K09a) -/
theorem alias_use_after_free_counterexample :
    (run {} [.declMake "a" [1, 2, 3], .declCopy "b" "a", .append "a" 1, .get "b" 0]).toOption = none ∧
    (do let h ← run {} [.declMake "a" [1, 2, 3], .declCopy "b" "a", .append "a" 1]; step h (.get "b" 0)).toOption.isNone = true := by
  decide

/-- … and a second mutation through the alias frees the block twice -/
theorem alias_double_free_counterexample :
    (match run {} [.declMake "a" [1, 2, 3], .declCopy "b" "a", .append "a" 1, .append "b" 2] with
     | .error e => e = .useAfterFree ∨ e = .doubleFree
     | .ok _ => False) := by
  have h : run {} [.declMake "a" [1, 2, 3], .declCopy "b" "a", .append "a" 1, .append "b" 2]
      = .error .useAfterFree := rfl
  rw [h]; exact Or.inl rfl

/-- re-assignment from a literal leaks the temporary: one more live block per execution (K09b) -/
theorem temp_leak_counterexample :
    ((run {} [.declMake "a" [1, 2, 3]]).toOption.map liveBlocks = some 1) ∧
    ((run {} [.declMake "a" [1, 2, 3], .assignTemp "a" [4, 5, 6]]).toOption.map liveBlocks = some 2) ∧
    ((run {} [.declMake "a" [1, 2, 3], .assignTemp "a" [4, 5, 6], .assignTemp "a" [4, 5, 6]]).toOption.map liveBlocks = some 3) := by
  decide

/-- the WRONG lowering of `a, b = b, a` — shallow temporaries, then `__redu_list_assign(a, t0); __redu_list_assign(b, t1)`
    instead of plain struct assignments: the first assign frees `a`'s buffer, which `t1` still points to, and the second
    assign copies out of it.  The emitted lowering (`Op.swap`) from the same state is safe with the heap unchanged. -/
theorem swap_via_assign_counterexample :
    run {} [.declMake "a" [1, 2, 3], .declMake "b" [7, 8, 9, 10],
            .declCopy "t0" "b", .declCopy "t1" "a", .assignVar "a" "t0", .assignVar "b" "t1"] = .error .useAfterFree ∧
    (run {} [.declMake "a" [1, 2, 3], .declMake "b" [7, 8, 9, 10]]).toOption.map liveBlocks = some 2 ∧
    (run {} [.declMake "a" [1, 2, 3], .declMake "b" [7, 8, 9, 10], .swap "a" "b"]).toOption.map liveBlocks = some 2 ∧
    (run {} [.declMake "a" [1, 2, 3], .declMake "b" [7, 8, 9, 10], .swap "a" "b"]).toOption.map
      (fun h => (lookup h "a", lookup h "b")) = some (⟨some 1, 4⟩, ⟨some 0, 3⟩) := by
  refine ⟨rfl, ?_, ?_, ?_⟩ <;> decide

/-- a list declared inside loop() is re-made every pass and never freed -/
theorem loop_local_leak_counterexample :
    (run {} [.declMake "t" [1], .declMake "t" [1], .declMake "t" [1]]).toOption.map liveBlocks = some 3 := by
  decide

private theorem ownedRun_cons {h : Heap} {op : Op} {rest : List Op} (o : StepOut) (hs : step h op = .ok o)
    (ho : Owned h op) (hr : OwnedRun o.heap rest) : OwnedRun h (op :: rest) := by
  refine ⟨ho, fun o' ho' => ?_⟩
  rw [hs] at ho'
  cases ho'
  exact hr

example : OwnedRun {} [.declMake "a" [1, 2], .append "a" 3, .get "a" (-1), .remove "a" 1] := by
  refine ownedRun_cons ⟨⟨[⟨true, [1, 2]⟩], [("a", ⟨some 0, 2⟩)]⟩, none⟩ rfl
    (by simp only [Owned, declared]; decide) ?_
  refine ownedRun_cons ⟨⟨[⟨false, [1, 2]⟩, ⟨true, [1, 2, 3]⟩], [("a", ⟨some 1, 3⟩)]⟩, none⟩ rfl
    (by simp only [Owned, declared]; decide) ?_
  refine ownedRun_cons ⟨⟨[⟨false, [1, 2]⟩, ⟨true, [1, 2, 3]⟩], [("a", ⟨some 1, 3⟩)]⟩, some 3⟩ rfl
    (by simp only [Owned, declared]; decide) ?_
  refine ownedRun_cons ⟨⟨[⟨false, [1, 2]⟩, ⟨false, [1, 2, 3]⟩, ⟨true, [2, 3]⟩], [("a", ⟨some 2, 2⟩)]⟩, none⟩ rfl
    (by simp only [Owned, declared]; decide) ?_
  trivial

/-- non-vacuity of the swap: two lists of different lengths are exchanged, then both are appended to, read (the read of
    `a` at index 3 is only in bounds because `a` now is the four-element list) and removed from -/
example : OwnedRun {} [.declMake "a" [1, 2, 3], .declMake "b" [7, 8, 9, 10], .swap "a" "b",
    .get "a" 3, .get "b" (-1), .append "a" 5, .append "b" 6, .get "a" 4, .remove "a" 7, .remove "b" 1, .swap "b" "a",
    .len "a"] := by
  refine ownedRun_cons ⟨⟨[⟨true, [1, 2, 3]⟩], [("a", ⟨some 0, 3⟩)]⟩, none⟩ rfl
    (by simp only [Owned, declared]; decide) ?_
  refine ownedRun_cons ⟨⟨[⟨true, [1, 2, 3]⟩, ⟨true, [7, 8, 9, 10]⟩], [("b", ⟨some 1, 4⟩), ("a", ⟨some 0, 3⟩)]⟩, none⟩ rfl
    (by simp only [Owned, declared]; decide) ?_
  refine ownedRun_cons ⟨⟨[⟨true, [1, 2, 3]⟩, ⟨true, [7, 8, 9, 10]⟩], [("b", ⟨some 0, 3⟩), ("a", ⟨some 1, 4⟩)]⟩, none⟩ rfl
    (by simp only [Owned, declared]; decide) ?_
  refine ownedRun_cons ⟨⟨[⟨true, [1, 2, 3]⟩, ⟨true, [7, 8, 9, 10]⟩], [("b", ⟨some 0, 3⟩), ("a", ⟨some 1, 4⟩)]⟩, some 10⟩ rfl
    (by simp only [Owned, declared]; decide) ?_
  refine ownedRun_cons ⟨⟨[⟨true, [1, 2, 3]⟩, ⟨true, [7, 8, 9, 10]⟩], [("b", ⟨some 0, 3⟩), ("a", ⟨some 1, 4⟩)]⟩, some 3⟩ rfl
    (by simp only [Owned, declared]; decide) ?_
  refine ownedRun_cons ⟨⟨[⟨true, [1, 2, 3]⟩, ⟨false, [7, 8, 9, 10]⟩, ⟨true, [7, 8, 9, 10, 5]⟩],
    [("a", ⟨some 2, 5⟩), ("b", ⟨some 0, 3⟩)]⟩, none⟩ rfl (by simp only [Owned, declared]; decide) ?_
  refine ownedRun_cons ⟨⟨[⟨false, [1, 2, 3]⟩, ⟨false, [7, 8, 9, 10]⟩, ⟨true, [7, 8, 9, 10, 5]⟩, ⟨true, [1, 2, 3, 6]⟩],
    [("b", ⟨some 3, 4⟩), ("a", ⟨some 2, 5⟩)]⟩, none⟩ rfl (by simp only [Owned, declared]; decide) ?_
  refine ownedRun_cons ⟨⟨[⟨false, [1, 2, 3]⟩, ⟨false, [7, 8, 9, 10]⟩, ⟨true, [7, 8, 9, 10, 5]⟩, ⟨true, [1, 2, 3, 6]⟩],
    [("b", ⟨some 3, 4⟩), ("a", ⟨some 2, 5⟩)]⟩, some 5⟩ rfl (by simp only [Owned, declared]; decide) ?_
  refine ownedRun_cons ⟨⟨[⟨false, [1, 2, 3]⟩, ⟨false, [7, 8, 9, 10]⟩, ⟨false, [7, 8, 9, 10, 5]⟩, ⟨true, [1, 2, 3, 6]⟩,
    ⟨true, [8, 9, 10, 5]⟩], [("a", ⟨some 4, 4⟩), ("b", ⟨some 3, 4⟩)]⟩, none⟩ rfl (by simp only [Owned, declared]; decide) ?_
  refine ownedRun_cons ⟨⟨[⟨false, [1, 2, 3]⟩, ⟨false, [7, 8, 9, 10]⟩, ⟨false, [7, 8, 9, 10, 5]⟩, ⟨false, [1, 2, 3, 6]⟩,
    ⟨true, [8, 9, 10, 5]⟩, ⟨true, [2, 3, 6]⟩], [("b", ⟨some 5, 3⟩), ("a", ⟨some 4, 4⟩)]⟩, none⟩ rfl
    (by simp only [Owned, declared]; decide) ?_
  refine ownedRun_cons ⟨⟨[⟨false, [1, 2, 3]⟩, ⟨false, [7, 8, 9, 10]⟩, ⟨false, [7, 8, 9, 10, 5]⟩, ⟨false, [1, 2, 3, 6]⟩,
    ⟨true, [8, 9, 10, 5]⟩, ⟨true, [2, 3, 6]⟩], [("a", ⟨some 5, 3⟩), ("b", ⟨some 4, 4⟩)]⟩, none⟩ rfl
    (by simp only [Owned, declared]; decide) ?_
  refine ownedRun_cons ⟨⟨[⟨false, [1, 2, 3]⟩, ⟨false, [7, 8, 9, 10]⟩, ⟨false, [7, 8, 9, 10, 5]⟩, ⟨false, [1, 2, 3, 6]⟩,
    ⟨true, [8, 9, 10, 5]⟩, ⟨true, [2, 3, 6]⟩], [("a", ⟨some 5, 3⟩), ("b", ⟨some 4, 4⟩)]⟩, some 3⟩ rfl
    (by simp only [Owned, declared]; decide) ?_
  trivial

end Reduino.Props.C09
