import Reduino.Fw.ListHeap
namespace Reduino.Props.C09
theorem stub : True := trivial
end Reduino.Props.C09
