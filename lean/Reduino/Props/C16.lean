import Reduino.GenOb.Buzzer
import Reduino.Fw.Buzzer
import Reduino.Lemmas.Field
import Reduino.Lemmas.C16
/-
  C16 — Buzzer: every sound is bounded, silent when it should be, follows the score.
  Firmware model `Fw.Buzzer` (the emitted C++ blocks); float carrier = arbitrary ordered field `K` with floor.
  All theorems quantify over every prior buzzer state and every argument value (int or float, literal or run-time —
  the emitted block is the same), including zero and negative frequencies, counts, steps and tempos.  Negative
  DURATIONS reach a C cast to unsigned (undefined/wrapping) and are excluded by `defined = true`.
-/
namespace Reduino.Props.C16
open Reduino Reduino.Fw

variable {K : Type} [Field K] [LinearOrder K] [IsStrictOrderedRing K] [FloorRing K]

def isTone : Ev → Bool | .tone _ _ => true | _ => false
def isPinEv : Ev → Bool | .tone _ _ => true | .noTone _ => true | _ => false
def delaysOf (l : List Ev) : List Int := l.filterMap fun | .delay ms => some ms | _ => none
def tonesOf (l : List Ev) : List Int := l.filterMap fun | .tone _ f => some f | _ => none

/-- the last tone/noTone event of a call is a `noTone`, or the call touched the pin not at all -/
def EndsSilent (l : List Ev) : Prop :=
  match (l.filter isPinEv).getLast? with
  | some (.noTone _) => True
  | none => True
  | _ => False

/-! ### a frequency ≤ 0 never starts a tone -/

theorem play_tone_nonpositive_silent (b : Buzzer K) (f : Val K) (d : Option (Val K)) (hf : f.toF ≤ 0) :
    tonesOf (Buzzer.step b (.playTone f d)).evs = [] := by
  sorry

theorem beep_nonpositive_silent (b : Buzzer K) (f on off n : Val K) (hf : f.toF ≤ 0) :
    tonesOf (Buzzer.step b (.beep (some f) on off n)).evs = [] := by
  sorry

theorem sweep_nonpositive_silent (b : Buzzer K) (s e d n : Val K) (hs : s.toF ≤ 0) (he : e.toF ≤ 0) :
    tonesOf (Buzzer.step b (.sweep s e d n)).evs = [] := by
  sorry

/-! ### calls with a duration leave the pin silent and get_state() false -/

theorem play_tone_duration_ends_silent (b : Buzzer K) (f d : Val K)
    (hdef : (Buzzer.step b (.playTone f (some d))).defined = true) :
    let o := Buzzer.step b (.playTone f (some d))
    o.st.state = false ∧ o.st.current = 0 ∧ EndsSilent o.evs := by
  sorry

/-- beep with at least one repetition (times ≤ 0 plays nothing and leaves the previous state: see
    `beep_zero_times_counterexample`) -/
theorem beep_ends_silent (b : Buzzer K) (f : Option (Val K)) (on off n : Val K)
    (hdef : (Buzzer.step b (.beep f on off n)).defined = true) (hn : 1 ≤ toCInt n) :
    let o := Buzzer.step b (.beep f on off n)
    o.st.state = false ∧ o.st.current = 0 ∧ EndsSilent o.evs := by
  sorry

theorem sweep_ends_silent (b : Buzzer K) (s e d n : Val K)
    (hdef : (Buzzer.step b (.sweep s e d n)).defined = true) :
    let o := Buzzer.step b (.sweep s e d n)
    o.st.state = false ∧ o.st.current = 0 ∧ EndsSilent o.evs := by
  sorry

theorem melody_ends_silent (b : Buzzer K) (name : String) (t : Option (Val K))
    (hname : (melodies.lookup name).isSome = true) :
    let o := Buzzer.step b (.melody name t)
    o.st.state = false ∧ o.st.current = 0 ∧ EndsSilent o.evs := by
  sorry

/-- the full statement fails for `times ≤ 0`: a tone started earlier keeps sounding (known finding K16a) -/
theorem beep_zero_times_counterexample :
    let b1 := (Buzzer.step (Buzzer.init 8 (.int 440) : Buzzer K) (.playTone (.int 440) none)).st
    let o := Buzzer.step b1 (.beep none (.int 10) (.int 10) (.int 0))
    o.defined = true ∧ o.st.state = true ∧ o.evs = [] := by
  sorry

/-! ### beep(times = n) with a positive frequency sounds exactly n times with the given gaps -/

/-- the event pattern of `n` beeps: tone, on-gap, noTone, and an off-gap between repetitions -/
def beepPattern (pin tone on off : Int) : Nat → List Ev
  | 0 => []
  | k + 1 =>
    [.tone pin tone] ++ (if 0 < on then [.delay on] else []) ++ [.noTone pin] ++
      (if k = 0 then [] else (if 0 < off then [.delay off] else [])) ++ beepPattern pin tone on off k

theorem beep_exact (b : Buzzer K) (f on off n : Val K) (onMs offMs : Int) (hf : 0 < f.toF)
    (hon : toULong on = some onMs) (hoff : toULong off = some offMs) :
    (Buzzer.step b (.beep (some f) on off n)).evs
      = beepPattern b.pin (toneOf f.toF) onMs offMs (toCInt n).toNat ∧
    (tonesOf (Buzzer.step b (.beep (some f) on off n)).evs).length = (toCInt n).toNat := by
  sorry

/-! ### sweep -/

/-- `steps` tones (all frequencies positive), moving monotonically, ending on the end frequency and starting on
    the start frequency when steps > 1, never exceeding the duration -/
theorem sweep_spec (b : Buzzer K) (s e d n : Val K) (total : Int) (hs : 0 < s.toF) (he : 0 < e.toF)
    (hd : toULong d = some total) :
    let o := Buzzer.step b (.sweep s e d n)
    let steps : Int := if toCInt n < 1 then 1 else toCInt n
    let ts := tonesOf o.evs
    ts.length = steps.toNat ∧
    (s.toF ≤ e.toF → List.Pairwise (· ≤ ·) ts) ∧ (e.toF ≤ s.toF → List.Pairwise (· ≥ ·) ts) ∧
    ts.getLast? = some (toneOf e.toF) ∧
    (1 < steps → ts.head? = some (toneOf s.toF)) ∧
    (delaysOf o.evs).sum ≤ total := by
  sorry

/-! ### melody -/

/-- what the score prescribes: for each note a tone (unless a rest) and a delay of ⌊beats · 60000/tempo⌋ ms -/
def scoreEvents (pin : Int) (beatMs : K) : List ((Int × Int) × (Int × Int)) → List Ev
  | [] => []
  | ((fn, fd), (bn, bd)) :: rest =>
    let f : K := if fn = 0 then 0 else (fn : K) / (fd : K)
    let dur : K := (bn : K) / (bd : K) * beatMs
    let d : List Ev := if 0 < dur then [.delay ⌊dur⌋] else []
    (if f ≤ 0 then [.noTone pin] ++ d else [.tone pin ⌊f + 1 / 2⌋] ++ d ++ [.noTone pin]) ++ scoreEvents pin beatMs rest

/-- melody plays exactly the named tune's notes in order with durations scaled by 60000/tempo
    (a tempo ≤ 0, or none, means the tune's own tempo) -/
theorem melody_follows_score (b : Buzzer K) (name : String) (t : Option (Val K)) (sc : Score)
    (hname : melodies.lookup name = some sc) :
    let dflt : K := (sc.tempo.1 : K) / (sc.tempo.2 : K)
    let t0 : K := match t with | some v => v.toF | none => dflt
    let tempo : K := if t0 ≤ 0 then dflt else t0
    (Buzzer.step b (.melody name t)).evs = scoreEvents b.pin (60000 / tempo) sc.notes := by
  sorry

/-! ### getters report the tone currently / last sounded -/

theorem getters_after_play_tone (b : Buzzer K) (f : Val K) (hf : 0 < f.toF) :
    let o := Buzzer.step b (.playTone f none)
    o.st.state = true ∧ o.st.current = f.toF ∧ o.st.last = f.toF ∧ o.evs = [.tone b.pin (toneOf f.toF)] := by
  sorry

theorem getters_after_stop (b : Buzzer K) :
    let o := Buzzer.step b .stop
    o.st.state = false ∧ o.st.current = 0 ∧ o.st.last = b.last ∧ o.evs = [.noTone b.pin] := by
  sorry

/-- `get_state()` is true exactly while a tone is sounding: after every call, the state flag equals
    "the last pin event of the call is a tone" whenever the call touched the pin -/
theorem state_tracks_pin (b : Buzzer K) (op : BuzzerOp K) (hdef : (Buzzer.step b op).defined = true) :
    match ((Buzzer.step b op).evs.filter isPinEv).getLast? with
    | some (.tone _ _) => (Buzzer.step b op).st.state = true
    | some _ => (Buzzer.step b op).st.state = false
    | none => (Buzzer.step b op).st.state = b.state := by
  sorry

example : (Buzzer.step (Buzzer.init 8 (.int 440) : Buzzer K) (.sweep (.int 200) (.int 900) (.int 100) (.int 4))).defined = true := by
  sorry

end Reduino.Props.C16
