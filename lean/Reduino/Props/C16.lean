import Reduino.GenOb.Buzzer
import Reduino.Fw.Buzzer
import Reduino.Lemmas.Field
import Reduino.Lemmas.C16
/-
  C16 — Buzzer: every sound is bounded, silent when it should be, follows the score.
  Firmware model `Fw.Buzzer` (the emitted C++ blocks); float carrier = arbitrary ordered field `K` with floor.
  All theorems quantify over every prior buzzer state and every argument value (int or float, literal or run-time —
  the emitted block is the same), including zero and negative frequencies, counts, steps and tempos.  Negative
  DURATIONS reach a C cast to unsigned (undefined/wrapping) and are excluded by `defined = true`.
-/
namespace Reduino.Props.C16
open Reduino Reduino.Fw Reduino.Lemmas.C16

variable {K : Type} [Field K] [LinearOrder K] [IsStrictOrderedRing K] [FloorRing K]

def isTone : Ev → Bool | .tone _ _ => true | _ => false
def isPinEv : Ev → Bool | .tone _ _ => true | .noTone _ => true | _ => false
def delaysOf (l : List Ev) : List Int := l.filterMap fun | .delay ms => some ms | _ => none
def tonesOf (l : List Ev) : List Int := l.filterMap fun | .tone _ f => some f | _ => none

/-- the last tone/noTone event of a call is a `noTone`, or the call touched the pin not at all -/
def EndsSilent (l : List Ev) : Prop :=
  match (l.filter isPinEv).getLast? with
  | some (.noTone _) => True
  | none => True
  | _ => False


/-! ### bridge to the helper lemmas of `Lemmas/C16.lean` -/
section Bridge

theorem tonesOf_eq (l : List Ev) : tonesOf l = tonesL l := rfl
theorem delaysOf_eq (l : List Ev) : delaysOf l = delaysL l := rfl

theorem filter_isPinEv (l : List Ev) : l.filter isPinEv = pinL l := by
  have : isPinEv = isPin := by funext e; cases e <;> rfl
  rw [this]; rfl

theorem endsSilent_of_noTone {l : List Ev} {p : Int} (h : (pinL l).getLast? = some (.noTone p)) :
    EndsSilent l := by
  unfold EndsSilent; rw [filter_isPinEv, h]; trivial

end Bridge

/-! ### a frequency ≤ 0 never starts a tone -/

theorem play_tone_nonpositive_silent (b : Buzzer K) (f : Val K) (d : Option (Val K)) (hf : f.toF ≤ 0) :
    tonesOf (Buzzer.step b (.playTone f d)).evs = [] := by
  have hc : Buzzer.clamp0 f.toF = 0 := clamp0_nonpos hf
  rw [tonesOf_eq]
  cases d with
  | none => rw [step_playTone_none, hc]; simp [soundEv]
  | some d =>
    cases h : toULong d with
    | none => rw [step_playTone_undef b f d h, hc]; simp [soundEv]
    | some ms => rw [step_playTone_some b f d ms h, hc]; simp [soundEv]

theorem beep_nonpositive_silent (b : Buzzer K) (f on off n : Val K) (hf : f.toF ≤ 0) :
    tonesOf (Buzzer.step b (.beep (some f) on off n)).evs = [] := by
  rw [tonesOf_eq]
  cases hon : toULong on with
  | none => rw [step_beep_undef b _ on off n (Or.inl hon)]; rfl
  | some onMs =>
    cases hoff : toULong off with
    | none => rw [step_beep_undef b _ on off n (Or.inr hoff)]; rfl
    | some offMs =>
      rw [step_beep b _ on off n onMs offMs hon hoff]
      have h0 : beepFreq b (some f) = 0 := clamp0_nonpos hf
      dsimp only
      rw [h0, soundEv_nonpos _ (le_refl _)]
      exact tonesL_beepEvs_noTone _ _ _ _

theorem sweep_nonpositive_silent (b : Buzzer K) (s e d n : Val K) (hs : s.toF ≤ 0) (he : e.toF ≤ 0) :
    tonesOf (Buzzer.step b (.sweep s e d n)).evs = [] := by
  rw [tonesOf_eq]
  cases hd : toULong d with
  | none => rw [step_sweep_undef b s e d n hd]; rfl
  | some total =>
    rw [step_sweep b s e d n total hd, clamp0_nonpos hs, clamp0_nonpos he]
    simp only [tonesL_append, tonesL_cons_noTone, tonesL_nil, List.append_nil]
    apply tonesL_sweepEvs_nonpos
    intro j
    simp [sweepF, sweepG, clamp0_eq]

/-! ### calls with a duration leave the pin silent and get_state() false -/

theorem play_tone_duration_ends_silent (b : Buzzer K) (f d : Val K)
    (hdef : (Buzzer.step b (.playTone f (some d))).defined = true) :
    let o := Buzzer.step b (.playTone f (some d))
    o.st.state = false ∧ o.st.current = 0 ∧ EndsSilent o.evs := by
  cases h : toULong d with
  | none => rw [step_playTone_undef b f d h] at hdef; cases hdef
  | some ms =>
    rw [step_playTone_some b f d ms h]
    dsimp only
    refine ⟨rfl, rfl, ?_⟩
    apply endsSilent_of_noTone (p := b.pin)
    simp only [pinL_append, pinL_delayIf, List.append_nil]
    by_cases hc : 0 < Buzzer.clamp0 f.toF
    · simp [hc, soundEv]
    · simp [hc, soundEv]

/-- beep with at least one repetition (times ≤ 0 plays nothing and leaves the previous state: see
    `beep_zero_times_counterexample`) -/
theorem beep_ends_silent (b : Buzzer K) (f : Option (Val K)) (on off n : Val K)
    (hdef : (Buzzer.step b (.beep f on off n)).defined = true) (hn : 1 ≤ toCInt n) :
    let o := Buzzer.step b (.beep f on off n)
    o.st.state = false ∧ o.st.current = 0 ∧ EndsSilent o.evs := by
  cases hon : toULong on with
  | none => rw [step_beep_undef b f on off n (Or.inl hon)] at hdef; cases hdef
  | some onMs =>
    cases hoff : toULong off with
    | none => rw [step_beep_undef b f on off n (Or.inr hoff)] at hdef; cases hdef
    | some offMs =>
      rw [step_beep b f on off n onMs offMs hon hoff]
      dsimp only
      have hk : (toCInt n).toNat ≠ 0 := by omega
      refine ⟨?_, ?_, ?_⟩
      · simp [beepSt, hk]
      · simp [beepSt, hk]
      · apply endsSilent_of_noTone (p := b.pin)
        rw [pinL_beepEvs_getLast, if_neg hk]

theorem sweep_ends_silent (b : Buzzer K) (s e d n : Val K)
    (hdef : (Buzzer.step b (.sweep s e d n)).defined = true) :
    let o := Buzzer.step b (.sweep s e d n)
    o.st.state = false ∧ o.st.current = 0 ∧ EndsSilent o.evs := by
  cases hd : toULong d with
  | none => rw [step_sweep_undef b s e d n hd] at hdef; cases hdef
  | some total =>
    rw [step_sweep b s e d n total hd]
    dsimp only
    refine ⟨rfl, rfl, ?_⟩
    apply endsSilent_of_noTone (p := b.pin)
    simp

theorem melody_ends_silent (b : Buzzer K) (name : String) (t : Option (Val K))
    (hname : (melodies.lookup name).isSome = true) :
    let o := Buzzer.step b (.melody name t)
    o.st.state = false ∧ o.st.current = 0 ∧ EndsSilent o.evs := by
  obtain ⟨sc, hsc⟩ := Option.isSome_iff_exists.mp hname
  rw [step_melody b name t sc hsc]
  dsimp only
  have hne := melody_notes_ne_nil hsc
  obtain ⟨_, h2, h3⟩ := melSt_props sc.notes b
  rw [if_neg hne] at h2 h3
  refine ⟨h2, h3, ?_⟩
  apply endsSilent_of_noTone (p := b.pin)
  rw [pinL_scoreEvs_getLast, if_neg hne]

/-- the full statement fails for `times ≤ 0`: a tone started earlier keeps sounding (known finding K16a) -/
theorem beep_zero_times_counterexample :
    let b1 := (Buzzer.step (Buzzer.init 8 (.int 440) : Buzzer K) (.playTone (.int 440) none)).st
    let o := Buzzer.step b1 (.beep none (.int 10) (.int 10) (.int 0))
    o.defined = true ∧ o.st.state = true ∧ o.evs = [] := by
  rw [step_playTone_none]
  dsimp only
  rw [step_beep _ none (.int 10) (.int 10) (.int 0) 10 10 (by simp [toULong]) (by simp [toULong])]
  have hk : (toCInt (Val.int 0 : Val K)).toNat = 0 := by simp [toCInt, Val.toInt]
  have hpos : (0 : K) < Buzzer.clamp0 (Val.int 440 : Val K).toF := by
    rw [toF_int, clamp0_pos] <;> norm_num
  simp [hk, beepSt, beepEvs, soundSt, hpos]

/-! ### beep(times = n) with a positive frequency sounds exactly n times with the given gaps -/

/-- the event pattern of `n` beeps: tone, on-gap, noTone, and an off-gap between repetitions -/
def beepPattern (pin tone on off : Int) : Nat → List Ev
  | 0 => []
  | k + 1 =>
    [.tone pin tone] ++ (if 0 < on then [.delay on] else []) ++ [.noTone pin] ++
      (if k = 0 then [] else (if 0 < off then [.delay off] else [])) ++ beepPattern pin tone on off k

theorem beepPattern_eq (pin t on off : Int) (k : Nat) :
    beepPattern pin t on off k = beepEvs pin (.tone pin t) on off k := by
  induction k with
  | zero => rfl
  | succ k ih => simp only [beepPattern, beepEvs, ih, Buzzer.delayIf]

theorem beep_exact (b : Buzzer K) (f on off n : Val K) (onMs offMs : Int) (hf : 0 < f.toF)
    (hon : toULong on = some onMs) (hoff : toULong off = some offMs) :
    (Buzzer.step b (.beep (some f) on off n)).evs
      = beepPattern b.pin (toneOf f.toF) onMs offMs (toCInt n).toNat ∧
    (tonesOf (Buzzer.step b (.beep (some f) on off n)).evs).length = (toCInt n).toNat := by
  rw [step_beep b (some f) on off n onMs offMs hon hoff]
  have hft : beepFreq b (some f) = f.toF := clamp0_pos hf
  dsimp only
  rw [hft, soundEv_pos _ hf, tonesOf_eq, beepPattern_eq, tonesL_beepEvs_tone]
  exact ⟨rfl, List.length_replicate⟩

/-! ### sweep -/

/-- `steps` tones (all frequencies positive), moving monotonically, ending on the end frequency and starting on
    the start frequency when steps > 1, never exceeding the duration -/
theorem sweep_spec (b : Buzzer K) (s e d n : Val K) (total : Int) (hs : 0 < s.toF) (he : 0 < e.toF)
    (hd : toULong d = some total) :
    let o := Buzzer.step b (.sweep s e d n)
    let steps : Int := if toCInt n < 1 then 1 else toCInt n
    let ts := tonesOf o.evs
    ts.length = steps.toNat ∧
    (s.toF ≤ e.toF → List.Pairwise (· ≤ ·) ts) ∧ (e.toF ≤ s.toF → List.Pairwise (· ≥ ·) ts) ∧
    ts.getLast? = some (toneOf e.toF) ∧
    (1 < steps → ts.head? = some (toneOf s.toF)) ∧
    (delaysOf o.evs).sum ≤ total := by
  rw [step_sweep b s e d n total hd, clamp0_pos hs, clamp0_pos he]
  dsimp only
  have hn := sweepN_pos n
  have hT := sweep_tones b.pin hs he hn ((total : K) / ((sweepN n : Int) : K))
  dsimp only at hT
  obtain ⟨h1, h2, h3, h4, h5⟩ := hT
  have h6 := sweep_delays b.pin s.toF e.toF hn (toULong_nonneg hd) 0
  simp only [tonesOf_eq, delaysOf_eq, tonesL_append, delaysL_append, tonesL_cons_noTone, tonesL_nil,
    delaysL_cons_noTone, delaysL_nil, List.append_nil]
  exact ⟨h1, h2, h3, h4, h5, h6⟩

/-! ### melody -/

/-- what the score prescribes: for each note a tone (unless a rest) and a delay of ⌊beats · 60000/tempo⌋ ms -/
def scoreEvents (pin : Int) (beatMs : K) : List ((Int × Int) × (Int × Int)) → List Ev
  | [] => []
  | ((fn, fd), (bn, bd)) :: rest =>
    let f : K := if fn = 0 then 0 else (fn : K) / (fd : K)
    let dur : K := (bn : K) / (bd : K) * beatMs
    let d : List Ev := if 0 < dur then [.delay ⌊dur⌋] else []
    (if f ≤ 0 then [.noTone pin] ++ d else [.tone pin ⌊f + 1 / 2⌋] ++ d ++ [.noTone pin]) ++ scoreEvents pin beatMs rest

omit [IsStrictOrderedRing K] in
theorem scoreEvents_eq (pin : Int) (bm : K) (notes : List ((Int × Int) × (Int × Int))) :
    scoreEvents pin bm notes = scoreEvs pin bm notes := by
  induction notes with
  | nil => rfl
  | cons x rest ih =>
    obtain ⟨⟨fn, fd⟩, ⟨bn, bd⟩⟩ := x
    simp only [scoreEvents, scoreEvs, ih]

/-- melody plays exactly the named tune's notes in order with durations scaled by 60000/tempo
    (a tempo ≤ 0, or none, means the tune's own tempo) -/
theorem melody_follows_score (b : Buzzer K) (name : String) (t : Option (Val K)) (sc : Score)
    (hname : melodies.lookup name = some sc) :
    let dflt : K := (sc.tempo.1 : K) / (sc.tempo.2 : K)
    let t0 : K := match t with | some v => v.toF | none => dflt
    let tempo : K := if t0 ≤ 0 then dflt else t0
    (Buzzer.step b (.melody name t)).evs = scoreEvents b.pin (60000 / tempo) sc.notes := by
  rw [step_melody b name t sc hname]
  dsimp only
  rw [scoreEvents_eq]
  cases t <;> rfl

/-! ### getters report the tone currently / last sounded -/

theorem getters_after_play_tone (b : Buzzer K) (f : Val K) (hf : 0 < f.toF) :
    let o := Buzzer.step b (.playTone f none)
    o.st.state = true ∧ o.st.current = f.toF ∧ o.st.last = f.toF ∧ o.evs = [.tone b.pin (toneOf f.toF)] := by
  rw [step_playTone_none, clamp0_pos hf]
  dsimp only
  simp [soundSt, soundEv, hf]

theorem getters_after_stop (b : Buzzer K) :
    let o := Buzzer.step b .stop
    o.st.state = false ∧ o.st.current = 0 ∧ o.st.last = b.last ∧ o.evs = [.noTone b.pin] := by
  rw [step_stop]
  exact ⟨rfl, rfl, rfl, rfl⟩

/-- `get_state()` is true exactly while a tone is sounding: after every call, the state flag equals
    "the last pin event of the call is a tone" whenever the call touched the pin -/
theorem state_tracks_pin (b : Buzzer K) (op : BuzzerOp K) (hdef : (Buzzer.step b op).defined = true) :
    match ((Buzzer.step b op).evs.filter isPinEv).getLast? with
    | some (.tone _ _) => (Buzzer.step b op).st.state = true
    | some _ => (Buzzer.step b op).st.state = false
    | none => (Buzzer.step b op).st.state = b.state := by
  rw [filter_isPinEv]
  cases op with
  | playTone f d =>
    cases d with
    | none =>
      rw [step_playTone_none]
      dsimp only
      by_cases hc : 0 < Buzzer.clamp0 f.toF
      · simp [soundEv, soundSt, hc]
      · simp [soundEv, soundSt, hc]
    | some d =>
      cases h : toULong d with
      | none => rw [step_playTone_undef b f d h] at hdef; cases hdef
      | some ms =>
        rw [step_playTone_some b f d ms h]
        dsimp only
        by_cases hc : 0 < Buzzer.clamp0 f.toF
        · simp [soundEv, hc]
        · simp [soundEv, hc]
  | stop => rw [step_stop]; simp
  | beep f on off n =>
    cases hon : toULong on with
    | none => rw [step_beep_undef b f on off n (Or.inl hon)] at hdef; cases hdef
    | some onMs =>
      cases hoff : toULong off with
      | none => rw [step_beep_undef b f on off n (Or.inr hoff)] at hdef; cases hdef
      | some offMs =>
        rw [step_beep b f on off n onMs offMs hon hoff]
        dsimp only
        rw [pinL_beepEvs_getLast]
        by_cases hk : (toCInt n).toNat = 0
        · simp [hk, beepSt]
        · simp [hk, beepSt]
  | sweep s e d n =>
    cases hd : toULong d with
    | none => rw [step_sweep_undef b s e d n hd] at hdef; cases hdef
    | some total =>
      rw [step_sweep b s e d n total hd]
      simp
  | melody name t =>
    cases h : melodies.lookup name with
    | none => rw [step_melody_unknown b name t h]; simp
    | some sc =>
      rw [step_melody b name t sc h]
      dsimp only
      rw [pinL_scoreEvs_getLast]
      obtain ⟨_, h2, _⟩ := melSt_props sc.notes b
      by_cases hn : sc.notes = []
      · simp [hn, melSt]
      · simp [hn, h2]

example : (Buzzer.step (Buzzer.init 8 (.int 440) : Buzzer K) (.sweep (.int 200) (.int 900) (.int 100) (.int 4))).defined = true := by
  rw [step_sweep _ _ _ _ _ 100 (by simp [toULong])]

end Reduino.Props.C16
