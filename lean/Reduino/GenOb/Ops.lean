import Reduino.Gen.Ops
import Reduino.Lang.Render
/-
  Obligations on the transpiler's operator tables `_BIN`, `_UN`, `_CMP` (re-extracted from /repo/src/Reduino/transpile/parser.py on
  every run): the token `Render` prints for each operator of the deep embedding is exactly the table's entry for the Python operator
  the constructor stands for (`BinOp.astName`, `CmpOp.astName`).  An edit of a modelled entry breaks the obligation of that name.
-/
namespace Reduino.GenOb
open Reduino.Lang

theorem gen_BIN (op : BinOp) : Gen.Ops.bin.lookup op.astName = some op.sym := by
  cases op <;> decide

theorem gen_CMP (op : CmpOp) : Gen.Ops.cmp.lookup op.astName = some op.sym := by
  cases op <;> decide

/-- unary minus and `not` (`Expr.neg`, `Expr.not`) -/
theorem gen_UN : Gen.Ops.un.lookup "USub" = some negSym ∧ Gen.Ops.un.lookup "Not" = some notSym := by
  decide

/-- distinct constructors stand for distinct Python operators, so no table entry is claimed twice -/
theorem astName_injective (a b : BinOp) (h : a.astName = b.astName) : a = b := by
  cases a <;> cases b <;> first | rfl | (revert h; decide)

end Reduino.GenOb
