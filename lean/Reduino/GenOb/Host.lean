import Reduino.Gen.Host
import Reduino.Host.DCMotor
/- Generated-table obligations: the tables re-extracted from /repo/src equal the model's twins. -/
namespace Reduino.GenOb

theorem gen_rampSteps : Gen.rampSteps = Int.ofNat Host.Motor.rampSteps := by decide

end Reduino.GenOb
