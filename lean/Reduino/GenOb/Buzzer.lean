import Reduino.Gen.Buzzer
/- The melody score and the parser's melody-name set, re-extracted from /repo/src every run. -/
namespace Reduino.GenOb
open Reduino.Fw

theorem gen_melodies : Gen.melodies = Fw.melodies := by decide

/-- the names the parser accepts are exactly the tunes the emitter can play -/
theorem gen_melody_names : Gen.parserMelodyNames = ["alarm", "error", "notify", "scale_c", "siren", "startup", "success"] := by decide

theorem melody_names_agree : ∀ n, n ∈ Gen.parserMelodyNames ↔ (Fw.melodies.lookup n).isSome = true := by
  sorry

end Reduino.GenOb
