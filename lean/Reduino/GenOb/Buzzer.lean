import Reduino.Gen.Buzzer
/- The melody score and the parser's melody-name set, re-extracted from /repo/src every run. -/
namespace Reduino.GenOb
open Reduino.Fw

theorem gen_melodies : Gen.melodies = Fw.melodies := by decide

/-- the names the parser accepts are exactly the tunes the emitter can play -/
theorem gen_melody_names : Gen.parserMelodyNames = ["alarm", "error", "notify", "scale_c", "siren", "startup", "success"] := by decide

theorem melody_names_agree : ∀ n, n ∈ Gen.parserMelodyNames ↔ (Fw.melodies.lookup n).isSome = true := by
  intro n
  rw [gen_melody_names]
  constructor
  · intro h
    simp only [List.mem_cons, List.not_mem_nil, or_false] at h
    rcases h with h | h | h | h | h | h | h <;> subst h <;> decide
  · intro h
    simp only [List.mem_cons, List.not_mem_nil, or_false]
    simp only [melodies, List.lookup_cons] at h
    by_cases h1 : n = "success"; · simp [h1]
    by_cases h2 : n = "error"; · simp [h2]
    by_cases h3 : n = "startup"; · simp [h3]
    by_cases h4 : n = "notify"; · simp [h4]
    by_cases h5 : n = "alarm"; · simp [h5]
    by_cases h6 : n = "scale_c"; · simp [h6]
    by_cases h7 : n = "siren"; · simp [h7]
    have hb : ∀ s : String, ¬ n = s → (n == s) = false := fun s hs => by simpa using hs
    rw [hb _ h1, hb _ h2, hb _ h3, hb _ h4, hb _ h5, hb _ h6, hb _ h7] at h
    simp at h

end Reduino.GenOb
