import Reduino.Gen.Eval
import Reduino.Props.C11
/-
  Obligations on the transpile-time evaluator's whitelists (`_SAFE_CASTS`, `_SAFE_NAME_REFERENCES` in parser.py, re-extracted from
  /repo/src on every run).  The evaluator model `Lang.EC.eval` calls nothing outside the documented builtins
  (`Props.C11.unknown_call_raises`); these obligations say that the SOURCE's tables name exactly those builtins, each cast bound to the
  Python builtin of its own name — widening a table (a new cast, `eval`, `getattr`, …) or re-binding an entry breaks a named obligation.
-/
namespace Reduino.GenOb
open Reduino.Lang.EC

theorem gen_safe_casts : Gen.Eval.safeCasts = ["bool", "float", "int", "str"] := by decide

theorem gen_safe_cast_targets : Gen.Eval.safeCastTargets = [("bool", "bool"), ("float", "float"), ("int", "int"), ("str", "str")] := by decide

theorem gen_safe_names : Gen.Eval.safeNames = ["abs", "bool", "float", "int", "len", "max", "min", "str"] := by decide

/-- every call the evaluator model can evaluate is a call of a whitelisted name: anything else is a ValueError -/
theorem call_outside_whitelist_raises (env : Env) (f : String) (args : List PExpr) (hf : f ∉ Gen.Eval.safeNames) :
    eval env (.call f args) = .error .value := by
  apply Reduino.Props.C11.unknown_call_raises
  intro h
  apply hf
  rw [gen_safe_names]
  simp only [List.mem_cons, List.not_mem_nil, or_false] at h ⊢
  rcases h with h | h | h | h | h | h | h <;> simp [h]

/-- the casts are among the whitelisted names -/
theorem casts_are_safe_names : ∀ c ∈ Gen.Eval.safeCasts, c ∈ Gen.Eval.safeNames := by decide

end Reduino.GenOb
