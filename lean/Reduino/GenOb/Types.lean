import Reduino.Gen.Types
import Reduino.Lang.Types
/- `_BUILTIN_CALL_RETURN_TYPES` (parser.py), re-extracted from /repo/src every run: for each builtin call the type model has a
   constructor for, the table's entry is the type `infer` assigns to that constructor — whatever the arguments.
   An edit of the table in the source breaks the obligation named after the builtin. -/
namespace Reduino.GenOb
open Reduino.Lang.Ty2

theorem gen_builtin_abs {α : Type} (g : TEnv) (a : E α) :
    Gen.builtinReturn.lookup "abs" = some (infer g (.abs a)).cname := by
  show Gen.builtinReturn.lookup "abs" = some (T.cname .int); decide

theorem gen_builtin_min {α : Type} (g : TEnv) (a b : E α) :
    Gen.builtinReturn.lookup "min" = some (infer g (.min a b)).cname := by
  show Gen.builtinReturn.lookup "min" = some (T.cname .int); decide

theorem gen_builtin_max {α : Type} (g : TEnv) (a b : E α) :
    Gen.builtinReturn.lookup "max" = some (infer g (.max a b)).cname := by
  show Gen.builtinReturn.lookup "max" = some (T.cname .int); decide

theorem gen_builtin_int {α : Type} (g : TEnv) (a : E α) :
    Gen.builtinReturn.lookup "int" = some (infer g (.toInt a)).cname := by
  show Gen.builtinReturn.lookup "int" = some (T.cname .int); decide

theorem gen_builtin_float {α : Type} (g : TEnv) (a : E α) :
    Gen.builtinReturn.lookup "float" = some (infer g (.toFloat a)).cname := by
  show Gen.builtinReturn.lookup "float" = some (T.cname .float); decide

theorem gen_builtin_bool {α : Type} (g : TEnv) (a : E α) :
    Gen.builtinReturn.lookup "bool" = some (infer g (.toBool a)).cname := by
  show Gen.builtinReturn.lookup "bool" = some (T.cname .bool); decide

/-- the modelled rows of the table, all at once (`builtinRet` is the model-side twin) -/
theorem gen_builtin_rows :
    builtinRet.all (fun r => Gen.builtinReturn.lookup r.1 == some r.2.cname) = true := by decide

/-- every key of the source table is either modelled or one of the calls left outside the expression model
    (a NEW builtin in the table is flagged here) -/
theorem gen_builtin_keys :
    Gen.builtinReturn.map (·.1) = ["abs", "analog_read", "bool", "digital_read", "float", "int", "len", "max", "min", "str"] := by decide

end Reduino.GenOb
