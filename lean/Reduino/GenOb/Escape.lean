import Reduino.Gen.Escape
import Reduino.Lang.Escape
/-
  Obligation on the TRANSLATED `_escape_string_literal` (`Gen/Escape.lean`, written by `harness/pytolean.py` from the source of the function
  in /repo/src/Reduino/transpile/parser.py on every run): on every input it is the model `Lang.Esc.escape` that C06's `escape_roundtrip`
  is stated about — the two `str.replace` passes, backslashes first.  Swapping the passes, dropping one or changing a replacement text
  changes the generated definition and breaks the proof.
-/
namespace Reduino.GenOb
open Reduino.Lang

theorem gen_escapeStringLiteral (s : List Char) : Gen.Escape.escapeStringLiteral s = Esc.escape s := rfl

end Reduino.GenOb
