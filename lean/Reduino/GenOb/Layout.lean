import Reduino.Gen.Layout
import Reduino.Lang.Layout
/-
  Obligations on the TRANSLATED character-level layout functions (`Gen/Layout.lean`: the Lean text `harness/pytolean.py` writes from
  the source of `_indent_of`, `_strip_inline_comment` and (W21) `_collect_block` in /repo/src/Reduino/transpile/parser.py on every run): each is equal, on EVERY
  input, to the hand-written model the C07 theorems are stated about (`Lang.Layout.indentOf`, `Lang.Layout.stripInlineComment`; for `_collect_block` the raw-line model `Lang.Layout.collectBlockAt`, which
  `Props.C07.collectBlock_is_raw` relates to the collector over classified lines).
  An edit of the Python functions changes the generated definitions; if the new loop is not extensionally the model, the proof of
  that name fails and C07 reports the obligation as broken.

  The proofs name no field or variable of the generated text (states are taken apart positionally, in the order the Python function
  initialises its locals) and decide each step by exhausting the flags and the five characters the loops distinguish, so they do not
  depend on the order in which independent tests are written.
-/
namespace Reduino.GenOb
set_option linter.unusedSimpArgs false   -- one `simp` call closes every case of a step; not every case needs every lemma
open Reduino.Lang.Layout
open Reduino.Gen.Layout (Exit)

/-- the value a loop `return`s, if it is left that way -/
def retOf {σ ρ : Type} : Exit σ ρ → Option ρ
  | .ret v => some v
  | .fell _ => none

theorem retOf_ret {σ ρ : Type} (v : ρ) : retOf (Exit.ret v : Exit σ ρ) = some v := rfl
theorem retOf_fell {σ ρ : Type} (st : σ) : retOf (Exit.fell st : Exit σ ρ) = none := rfl

/-! ### `_indent_of` -/

/-- the translated `_indent_of` is the model on every line.  Inside: the loop, from any counter, never `return`s and leaves with
    the counter advanced by the model's indentation. -/
theorem gen_indentOf (s : List Char) : Gen.Layout.indentOf s = indentOf s := by
  have go : ∀ (s : List Char) (i : Nat), Gen.Layout.indentOf.go ⟨i⟩ s = .fell ⟨i + indentOf s⟩ := by
    intro s
    induction s with
    | nil => intro i; simp [Gen.Layout.indentOf.go, indentOf]
    | cons c rest ih =>
      intro i
      by_cases h1 : c = ' '
      · subst h1; simp [Gen.Layout.indentOf.go, indentOf, ih]; omega
      · by_cases h2 : c = '\t'
        · subst h2; simp [Gen.Layout.indentOf.go, indentOf, ih]; omega
        · have h0 : indentOf (c :: rest) = 0 := by
            unfold indentOf; split <;> simp_all
          simp [Gen.Layout.indentOf.go, h1, h2, h0]
  simp [Gen.Layout.indentOf, go]

/-! ### `_strip_inline_comment` -/

/-- the translated `_strip_inline_comment` is the model on every text.  Inside: the loop, from any flags, with `acc` (reversed)
    already read, `return`s exactly what the model's scan returns. -/
theorem gen_stripInlineComment (s : List Char) : Gen.Layout.stripInlineComment s = stripInlineComment s := by
  have go : ∀ (text rest : List Char) (a b e : Bool) (acc : List Char), text = acc.reverse ++ rest →
      retOf (Gen.Layout.stripInlineComment.go text ⟨a, b, e⟩ acc.length rest) = stripGo ⟨a, b, e⟩ acc rest := by
    intro text rest
    induction rest with
    | nil => intro a b e acc _; simp [Gen.Layout.stripInlineComment.go, stripGo, retOf_fell]
    | cons c rest ih =>
      intro a b e acc h
      have hnext : text = (c :: acc).reverse ++ rest := by simp [h]
      have hlen : (c :: acc).length = acc.length + 1 := rfl
      have htake : text.take acc.length = acc.reverse := by
        rw [h, List.take_left' (by simp)]
      have step := fun a' b' e' => ih a' b' e' (c :: acc) hnext
      simp only [hlen] at step
      clear ih hnext hlen h
      have hc : c = '\\' ∨ c = '\'' ∨ c = '"' ∨ c = '#' ∨ (c ≠ '\\' ∧ c ≠ '\'' ∧ c ≠ '"' ∧ c ≠ '#') := by
        by_cases h1 : c = '\\' <;> by_cases h2 : c = '\'' <;> by_cases h3 : c = '"' <;> by_cases h4 : c = '#' <;> simp [*]
      rcases hc with rfl | rfl | rfl | rfl | ⟨h1, h2, h3, h4⟩ <;> cases a <;> cases b <;> cases e <;>
        simp [Gen.Layout.stripInlineComment.go, stripGo, retOf_ret, retOf_fell, *]
  have h := go s s false false false [] (by simp)
  simp only [List.length_nil] at h
  unfold Gen.Layout.stripInlineComment stripInlineComment
  show _ = (stripGo ⟨false, false, false⟩ [] s).getD s
  rw [← h]
  cases Gen.Layout.stripInlineComment.go s ⟨false, false, false⟩ 0 s <;> simp [retOf_ret, retOf_fell]

/-! ### `_collect_block` (W21) -/

theorem dropWhile_snoc_ne_nil {p : Char → Bool} (l : List Char) (c : Char) (h : p c = false) : (l ++ [c]).dropWhile p ≠ [] := by
  induction l with
  | nil => simp [List.dropWhile, h]
  | cons a t ih =>
    simp only [List.cons_append, List.dropWhile]
    cases p a <;> simp [ih]

/-- `not s.strip()` holds exactly of the lines made of blanks -/
theorem strip_isEmpty (s : List Char) : (strip s).isEmpty = isBlankLine s := by
  induction s with
  | nil => simp [strip, rstrip, isBlankLine]
  | cons c t ih =>
    cases hc : isSpace c
    · have : (rstrip (c :: t)) ≠ [] := by
        unfold rstrip
        intro h
        have h' := congrArg List.reverse h
        simp only [List.reverse_reverse, List.reverse_nil, List.reverse_cons] at h'
        exact dropWhile_snoc_ne_nil _ c hc h'
      simp [strip, List.dropWhile, hc, isBlankLine, this]
    · simpa [strip, List.dropWhile, hc, isBlankLine] using ih

/-- the translated `_collect_block` is the raw-line model `collectBlockAt` on every list of lines and every start index (the header line
    `lines[start]` read as the empty line when out of range, on both sides).  Inside: the loop `while i < len(lines)`, from any index and
    any block collected so far, never `return`s and leaves with the model's block appended and the index advanced by its length.
    `_indent_of` inside the loop is the TRANSLATED `_indent_of` (`gen_indentOf` carries it to the model). -/
theorem gen_collectBlock (lines : List (List Char)) (start : Nat) :
    Gen.Layout.collectBlock lines start = collectBlockAt lines start := by
  have go : ∀ (ls : List (List Char)) (base i : Nat) (acc : List (List Char)),
      Gen.Layout.collectBlock.go base ⟨i, acc⟩ ls
        = .fell ⟨i + (collectBlockRaw base ls).1.length, acc ++ (collectBlockRaw base ls).1⟩ := by
    intro ls
    induction ls with
    | nil => intro base i acc; simp [Gen.Layout.collectBlock.go, collectBlockRaw]
    | cons l rest ih =>
      intro base i acc
      by_cases hb : isBlankLine l = true
      · simp [Gen.Layout.collectBlock.go, collectBlockRaw, strip_isEmpty, gen_indentOf, hb, ih]; omega
      · by_cases hi : indentOf l ≤ base
        · simp [Gen.Layout.collectBlock.go, collectBlockRaw, strip_isEmpty, gen_indentOf, hb, hi]
        · simp [Gen.Layout.collectBlock.go, collectBlockRaw, strip_isEmpty, gen_indentOf, hb, hi, ih]; omega
  simp [Gen.Layout.collectBlock, collectBlockAt, go, gen_indentOf]

end Reduino.GenOb
