import Reduino.Gen.Utils
import Reduino.Host.Core
/-
  Obligations on the TRANSLATED host helpers (`Gen/Utils.lean`: the Lean text `harness/pytolean.py` (shape "num") writes from the source
  of `Reduino.Utils.map` and `Reduino.Utils.sleep` in /repo/src/Reduino/Utils/__init__.py on every run): each is equal, on EVERY input and
  over EVERY float carrier `α` (the theorems of `Props/C20.lean` take an ordered field with floor, the driver takes IEEE `Float`), to the
  hand-written model `Host.Utils.map` / `Host.Utils.sleep` that `map_spec`, `map_endpoints` and `sleep_spec` are stated about.

  No law of arithmetic is used: the two sides must be the same expression tree over `Val.add/sub/mul/div`, `veq`, `Val.lt` (up to unfolding
  `let` and the names of the locals), so the obligations hold for `Float` as well as for a field, and an algebraically "equivalent" rewrite
  of the Python source that rounds differently in IEEE arithmetic breaks them — as it should.
-/
namespace Reduino.GenOb
set_option linter.unusedSectionVars false   -- which instances a side needs follows the Python source of the day
open Reduino Reduino.Host
variable {α : Type} [Num α] [LT α] [LE α] [DecidableLT α] [DecidableLE α]
variable [Add α] [Sub α] [Mul α] [Div α] [Neg α]

/-- the translated `Utils.map` is the model: same guard (ValueError exactly when `from_low == from_high`), same affine expression -/
theorem gen_map (value fromLow fromHigh toLow toHigh : Val α) :
    Gen.Utils.map value fromLow fromHigh toLow toHigh = Host.Utils.map value fromLow fromHigh toLow toHigh := by
  unfold Gen.Utils.map Host.Utils.map
  split <;> rfl

/-- the translated `Utils.sleep` — its guard, and the one value it hands to the sleeper (`sleep_func or time.sleep`) — is the model:
    ValueError exactly when `duration < 0`, else the float `float(duration) / 1000.0` (the model returns that float as an `α`) -/
theorem gen_sleep (duration : Val α) :
    Gen.Utils.sleep duration = (Host.Utils.sleep duration).map Val.flt := by
  unfold Gen.Utils.sleep Host.Utils.sleep
  split <;> rfl

end Reduino.GenOb
