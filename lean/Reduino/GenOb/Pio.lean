import Reduino.Gen.Pio
import Reduino.Toolchain.Pio
/- Obligations on the registry and INI template re-extracted from /repo/src/Reduino/toolchain/pio.py. -/
namespace Reduino.GenOb
open Reduino.Toolchain

/-- the template `iniLines`/`renderIni` transcribe -/
def refPioIni : String :=
  "[env:{env_name}]\nplatform = {platform}\nboard = {board}\nframework = arduino\nupload_port = {port}\n\n{lib_section}\n"

theorem gen_pioIni : Gen.pioIniTemplate = refPioIni := by decide

/-- decidable form of `Partition` -/
def partitionB (reg : Registry) : Bool :=
  decide (reg.map (·.1)).Nodup &&
  reg.all fun pb => reg.all fun qc => pb.1 == qc.1 || pb.2.all fun b => !qc.2.contains b

theorem partitionB_sound (reg : Registry) (h : partitionB reg = true) : Partition reg := by
  unfold partitionB at h
  rw [Bool.and_eq_true, decide_eq_true_eq] at h
  obtain ⟨h1, h2⟩ := h
  refine ⟨h1, ?_⟩
  intro p bs q cs b hp hq hb hc
  rw [List.all_eq_true] at h2
  have h3 := h2 _ hp
  rw [List.all_eq_true] at h3
  have h4 := h3 _ hq
  simp only [Bool.or_eq_true, beq_iff_eq, List.all_eq_true] at h4
  rcases h4 with h | h
  · exact h
  · have h5 := h b hb
    simp [hc] at h5

theorem gen_registry_partitionB : partitionB Gen.registry = true := by decide +kernel

/-- every registered board belongs to exactly one platform (on the CURRENT registry) -/
theorem gen_registry_partition : Partition Gen.registry :=
  partitionB_sound _ gen_registry_partitionB

theorem gen_platforms : Gen.registry.map (·.1) = ["atmelavr", "atmelmegaavr"] := by decide

end Reduino.GenOb
