/-
  `_eval_const` (src/Reduino/transpile/parser.py): the transpile-time evaluator — the ONLY place where the transpiler
  computes with parts of the user's script.  `PExpr` is the Python expression AST as the evaluator sees it: the node kinds
  it knows, and `forbidden` for every other kind (attribute access, any other call, lambda, subscript, comprehension,
  starred, await, walrus, set/dict displays, …) carrying only its kind tag.
  Values: int, bool, str, list/tuple of values (floats are outside this model).
-/
namespace Reduino.Lang.EC

inductive Val where
  | int (n : Int)
  | bool (b : Bool)
  | str (s : String)
  | list (isTuple : Bool) (vs : List Val)
  deriving Repr

/-- (`&`, `|`, `^` and true division `/` are in the evaluator's table too; they are outside this model) -/
inductive BinOp where | add | sub | mul | floordiv | mod | pow | shl | shr
  deriving DecidableEq, Repr
inductive UnOp where | pos | neg | not
  deriving DecidableEq, Repr
inductive CmpOp where | eq | ne | lt | le | gt | ge
  deriving DecidableEq, Repr

inductive PExpr where
  | const (v : Val)
  | name (x : String)
  | bin (op : BinOp) (a b : PExpr)
  | un (op : UnOp) (a : PExpr)
  | and (a b : PExpr)
  | or (a b : PExpr)
  | compare (left : PExpr) (rest : List (CmpOp × PExpr))
  | ifexp (c a b : PExpr)
  | fstr (parts : List (Option String × Option PExpr))     -- (literal, none) | (none, expr)
  | call (f : String) (args : List PExpr)                  -- plain-name call without keywords
  | seq (isTuple : Bool) (elts : List PExpr)
  | forbidden (kind : String)
  deriving Repr

inductive Err where
  | value         -- ValueError raised by the evaluator itself
  | pyError       -- an exception of the Python operation (TypeError, ZeroDivisionError, …)
  deriving DecidableEq, Repr

/-- environment: known constants; `none` marks an `_ExprStr` / non-scalar binding -/
abbrev Env := List (String × Option Val)

def Val.truthy : Val → Bool
  | .int n => n ≠ 0
  | .bool b => b
  | .str s => s ≠ ""
  | .list _ vs => !vs.isEmpty

def Val.num? : Val → Option Int
  | .int n => some n
  | .bool b => some (if b then 1 else 0)
  | _ => none

def natPow (b : Int) : Nat → Int
  | 0 => 1
  | n + 1 => b * natPow b n

def applyBin (op : BinOp) (a b : Val) : Except Err Val :=
  match op, a, b with
  | .add, .str x, .str y => .ok (.str (x ++ y))
  | _, _, _ =>
    match a.num?, b.num? with
    | some x, some y =>
      match op with
      | .add => .ok (.int (x + y))
      | .sub => .ok (.int (x - y))
      | .mul => .ok (.int (x * y))
      | .floordiv => if y = 0 then .error .pyError else .ok (.int (Int.fdiv x y))
      | .mod => if y = 0 then .error .pyError else .ok (.int (Int.fmod x y))
      | .pow => if y < 0 then .error .pyError else .ok (.int (natPow x y.toNat))     -- negative exponent gives a float: outside the model
      | .shl => if y < 0 then .error .value else .ok (.int (x * natPow 2 y.toNat))
      | .shr => if y < 0 then .error .value else .ok (.int (Int.fdiv x (natPow 2 y.toNat)))
    | _, _ => .error .value      -- "unsupported operand type"

def cmpInt (op : CmpOp) (x y : Int) : Bool :=
  match op with
  | .eq => x = y | .ne => x ≠ y | .lt => x < y | .le => x ≤ y | .gt => x > y | .ge => x ≥ y

/-- comparison of two values (numbers with numbers, strings with strings; other mixes: equality is False, order raises) -/
def applyCmp (op : CmpOp) (a b : Val) : Except Err Bool :=
  match a.num?, b.num? with
  | some x, some y => .ok (cmpInt op x y)
  | _, _ =>
    match a, b with
    | .str x, .str y =>
      .ok (match op with | .eq => x = y | .ne => x ≠ y | .lt => x < y | .le => x ≤ y | .gt => y < x | .ge => y ≤ x)
    | _, _ => match op with | .eq => .ok false | .ne => .ok true | _ => .error .pyError

def pyStr : Val → Option String
  | .int n => some (toString n)
  | .bool b => some (if b then "True" else "False")
  | .str s => some s
  | .list _ _ => none

/- the evaluator, generalised over what a node of a kind it does not know would do (`h`); the real evaluator is the
   instance where every such node raises ValueError (`eval` below) -/
mutual
def evalH (h : String → Except Err Val) (env : Env) : PExpr → Except Err Val
  | .const v => .ok v
  | .name x =>
    match env.lookup x with
    | some (some v) => (match v with | .list _ _ => .error .value | _ => .ok v)
    | _ => .error .value
  | .bin op a b => do let x ← evalH h env a; let y ← evalH h env b; applyBin op x y
  | .un op a => do
    let v ← evalH h env a
    match op with
    | .pos => (match v.num? with | some n => .ok (.int n) | none => .error .pyError)     -- `return +v`
    | .neg => (match v.num? with | some n => .ok (.int (-n)) | none => .error .pyError)
    | .not => .ok (.bool (!v.truthy))
  | .and a b => do let x ← evalH h env a; if x.truthy then evalH h env b else pure x
  | .or a b => do let x ← evalH h env a; if x.truthy then pure x else evalH h env b
  | .compare left rest => do
    let l ← evalH h env left
    match rest with
    | [] => .error .value
    | _ => evalChainH h env l rest
  | .ifexp c a b => do let v ← evalH h env c; if v.truthy then evalH h env a else evalH h env b
  | .fstr parts => do let s ← evalPartsH h env parts; pure (.str s)
  | .call f args =>
    if f = "len" then
      match args with
      | [a] => do
        let v ← evalH h env a
        match v with
        | .str s => .ok (.int s.length)
        | .list _ vs => .ok (.int vs.length)
        | _ => .error .value
      | _ => .error .value
    else if f = "abs" then
      match args with
      | [a] => do
        let v ← evalH h env a
        match v.num? with
        | some n => .ok (.int (if n < 0 then -n else n))
        | none => .error .value
      | _ => .error .value
    else if f = "int" ∨ f = "bool" ∨ f = "str" then
      match args with
      | [a] => do
        let v ← evalH h env a
        if f = "bool" then .ok (.bool v.truthy)
        else if f = "str" then (match pyStr v with | some s => .ok (.str s) | none => .error .value)
        else (match v with
              | .int n => .ok (.int n)
              | .bool b => .ok (.int (if b then 1 else 0))
              | .str s => (match s.trimAscii.toString.toInt? with | some n => .ok (.int n) | none => .error .value)
              | .list _ _ => .error .value)
      | _ => .error .value
    else if f = "max" ∨ f = "min" then
      match args with
      | [] => .error .value
      | _ => do
        let vs ← evalListH h env args
        match vs.mapM Val.num? with
        | some (n :: ns) => .ok (.int (ns.foldl (fun acc x => if f = "max" then (if x > acc then x else acc) else (if x < acc then x else acc)) n))
        | _ => .error .pyError
    else .error .value
  | .seq t elts => do let vs ← evalListH h env elts; pure (.list t vs)
  | .forbidden k => h k

def evalChainH (h : String → Except Err Val) (env : Env) (l : Val) : List (CmpOp × PExpr) → Except Err Val
  | [] => .ok (.bool true)
  | (op, e) :: rest => do
    let r ← evalH h env e
    let ok ← applyCmp op l r
    if ok then evalChainH h env r rest else pure (.bool false)

def evalPartsH (h : String → Except Err Val) (env : Env) : List (Option String × Option PExpr) → Except Err String
  | [] => .ok ""
  | (some s, _) :: rest => do let t ← evalPartsH h env rest; pure (s ++ t)
  | (none, some e) :: rest => do
    let v ← evalH h env e
    match pyStr v with
    | some s => do let t ← evalPartsH h env rest; pure (s ++ t)
    | none => .error .value
  | (none, none) :: _ => .error .value

def evalListH (h : String → Except Err Val) (env : Env) : List PExpr → Except Err (List Val)
  | [] => .ok []
  | e :: rest => do let v ← evalH h env e; let vs ← evalListH h env rest; pure (v :: vs)
end

/-- `_eval_const` -/
def eval (env : Env) (e : PExpr) : Except Err Val := evalH (fun _ => .error .value) env e

end Reduino.Lang.EC
